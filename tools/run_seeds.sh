#!/bin/sh
# usage: tools/run_seeds.sh "<seeds>" [ids...] -- run quick checks for several seeds WITHOUT touching evidence (dev mode via a worktree of HEAD)
seeds=$1; shift
ids=${*:-C01 C02 C03 C04 C05 C06 C07 C08 C09 C10 C11 C12 C13 C14 C15 C16 C17 C18 C19 C20}
wt=/tmp/seedrun_wt_$$
git -C /repo worktree add --detach $wt HEAD -q >/dev/null 2>&1
mkdir -p /verif/build/seedruns
for s in $seeds; do for p in $ids; do
  (cd /verif && VERIF_REPO=$wt ./check $p --tier quick --seed $s) > /verif/build/seedruns/$p.$s.log 2>&1
  echo "$p seed=$s rc=$? viol=$(grep -c '^VIOLATION' /verif/build/seedruns/$p.$s.log) :: $(tail -1 /verif/build/seedruns/$p.$s.log)"
done; done
git -C /repo worktree remove --force $wt
