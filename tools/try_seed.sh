#!/bin/sh
# usage: tools/try_seed.sh <seed dir containing patch.diff [demo.py]> <property id> [tier]
# Applies the seeded change in a scratch worktree of /repo's HEAD, runs the demo (must fail) and the check (must report
# a VIOLATION), prints a one-line verdict, removes the worktree.
d=$1; pid=$2; tier=${3:-quick}
wt=/tmp/seedwt_$$
git -C /repo worktree add --detach $wt HEAD -q >/dev/null 2>&1
if ! git -C $wt apply "$d/patch.diff" 2>/tmp/seed_apply_$$.log; then echo "SEED $d: patch does not apply: $(head -2 /tmp/seed_apply_$$.log)"; git -C /repo worktree remove --force $wt; rm -f /tmp/seed_apply_$$.log; exit 2; fi
rm -f /tmp/seed_apply_$$.log
demo=skipped
if [ -f "$d/demo.py" ]; then
  if (cd $wt && PYTHONPATH=$wt PYTHONHASHSEED=0 timeout 300 /venv/bin/python "$d/demo.py" >/dev/null 2>&1); then demo=PASSES-with-patch; else demo=fails-with-patch; fi
fi
out=$(cd /verif && VERIF_REPO=$wt ./check $pid --tier $tier 2>&1 | grep -v conda)
rc=$?
if echo "$out" | grep -q '^VIOLATION'; then verdict=CAUGHT; else verdict=MISSED; fi
echo "SEED $d [$pid]: demo=$demo check=$verdict :: $(echo "$out" | grep '^VIOLATION' | head -2 | tr '\n' ' ') $(echo "$out" | tail -1)"
git -C /repo worktree remove --force $wt
