#!/bin/sh
# usage: tools/run_all.sh [tier] [ids...]   -- run the checks one after the other on /repo, print a summary table
tier=${1:-quick}; shift 2>/dev/null
ids=${*:-C01 C02 C03 C04 C05 C06 C07 C08 C09 C10 C11 C12 C13 C14 C15 C16 C17 C18 C19 C20}
mkdir -p /verif/build/runall
for p in $ids; do
  s=$(date +%s)
  (cd /verif && ./check $p --tier $tier) > /verif/build/runall/$p.$tier.log 2>&1
  rc=$?
  e=$(date +%s)
  echo "$p rc=$rc $((e-s))s viol=$(grep -c '^VIOLATION' /verif/build/runall/$p.$tier.log) known=$(grep -c '^KNOWN-FINDING' /verif/build/runall/$p.$tier.log) :: $(tail -1 /verif/build/runall/$p.$tier.log)"
done
