#!/bin/sh
# regenerate coq/_CoqProject and coq/Makefile from the .v files present (cases/ excluded)
set -e
cd /verif/coq
{ echo "-R . QV"; echo "-arg -w -arg -notation-overridden,-deprecated-hint-without-locality,-deprecated-instance-without-locality,-ambiguous-paths"; find . -name '*.v' -not -path './cases/*' | sed 's|^\./||' | sort; } > _CoqProject.new
if ! cmp -s _CoqProject.new _CoqProject 2>/dev/null; then mv _CoqProject.new _CoqProject; coq_makefile -f _CoqProject -o Makefile >/dev/null; else rm _CoqProject.new; [ -f Makefile ] || coq_makefile -f _CoqProject -o Makefile >/dev/null; fi
