#!/bin/sh
# MANIFEST.setup_cmd: build the whole Coq development from files on disk (offline), full .vo build.
set -e
cd /verif
mkdir -p build evidence replays coq/cases
# translator output for every property that has one
PYTHONHASHSEED=0 /venv/bin/python - <<'PY'
import sys, importlib, os, glob
sys.path.insert(0, '/repo'); sys.path.insert(0, '/verif/harness')
for f in sorted(glob.glob('/verif/harness/props/c[0-9]*.py')):
    m = importlib.import_module('props.' + os.path.basename(f)[:-3])
    if hasattr(m, 'pregen'):
        for ob in m.pregen({'tier': 'quick', 'seed': 0}):
            print(ob['name'], 'ok' if ob['ok'] else 'FAILED: ' + ob['detail'])
PY
sh tools/mkproject.sh
timeout 3000 make -k -C coq -j16 2>&1 | grep -v '^make\|^COQDEP\|Closed under' | tail -40
# fail if any target is missing
missing=0
for v in $(grep '\.v$' coq/_CoqProject); do [ -f "coq/${v}o" ] || { echo "NOT BUILT: $v"; missing=1; }; done
exit $missing
