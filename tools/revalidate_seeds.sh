#!/bin/sh
# re-confirm every kept seeded change against the current /repo HEAD and the current checks (rewrites meta.json)
for d in /verif/seeded/*/; do
  name=$(basename $d); pid=${name%%-*}
  tmp=/tmp/reval_$$_$name; rm -rf $tmp; cp -r $d $tmp
  /verif/tools/keep_seed.sh $tmp $pid $name 2>&1 | grep -v conda
  rm -rf $tmp
done
