#!/bin/sh
# usage: tools/revalidate_seeds.sh [parallel jobs, default 4] [ids...]
# Re-confirm every kept seeded change against the current /repo HEAD and the current checks (rewrites meta.json).
# One job per property; the pinned-suite result is reused when HEAD and patch are unchanged (KEEP_REUSE_SUITE=1).
j=${1:-4}; [ $# -gt 0 ] && shift
ids=${*:-$(ls /verif/seeded | sed 's/-.*//' | sort -u)}
export KEEP_REUSE_SUITE=1
for pid in $ids; do echo $pid; done | xargs -P $j -I{} sh -c '
  for d in /verif/seeded/{}-*/; do name=$(basename $d); tmp=/tmp/reval_$$_$name; rm -rf $tmp; cp -r $d $tmp
    /verif/tools/keep_seed.sh $tmp {} $name 2>&1 | grep -v conda; rm -rf $tmp; done'
