#!/bin/sh
# usage: tools/keep_seed.sh <candidate dir> <property id> <name>
# Confirms a seeded change in a scratch worktree of /repo's HEAD: demo passes on the clean tree, fails with the patch;
# the pinned suite (all BASELINE stable_pass tests) still passes with the patch; runs the check against it; then stores
# it as /verif/seeded/<name>/ (patch.diff, demo.py, meta.json).
d=$1; pid=$2; name=$3
wt=/tmp/keepwt_$$
git -C /repo worktree add --detach $wt HEAD -q >/dev/null 2>&1
clean=fail; patched=pass; suite=unknown
(cd $wt && PYTHONPATH=$wt PYTHONHASHSEED=0 timeout 300 /venv/bin/python "$d/demo.py" >/dev/null 2>&1) && clean=pass
if ! git -C $wt apply "$d/patch.diff" 2>/dev/null; then echo "KEEP $name: patch does not apply to HEAD"; git -C /repo worktree remove --force $wt; exit 2; fi
(cd $wt && PYTHONPATH=$wt PYTHONHASHSEED=0 timeout 300 /venv/bin/python "$d/demo.py" >/dev/null 2>&1) || patched=fail
prev=""
if [ -n "$KEEP_REUSE_SUITE" ] && [ -f /verif/seeded/$name/meta.json ]; then
  # reuse the recorded suite result when the patch is unchanged (the head it was run on is kept in the record)
  prev=$(/venv/bin/python - "$name" "$d" <<'PY' 2>/dev/null
import json, sys, subprocess, re
name, d = sys.argv[1:3]
m = json.load(open('/verif/seeded/%s/meta.json' % name))
head = subprocess.run(['git','-C','/repo','rev-parse','--short','HEAD'], stdout=subprocess.PIPE, text=True).stdout.strip()
same = open('/verif/seeded/%s/patch.diff' % name).read() == open(d + '/patch.diff').read()
if same:
    for w in m.get('what_was_run', []):
        r = re.search(r'stable_pass=\d+ missing=\d+', w)
        if r:
            ran = re.search(r'suite last run on (\w+)', w)
            ran = ran.group(1) if ran else m.get('confirmed_on_repo_head')
            print(r.group(0) + ('' if ran == head else ' (suite last run on %s)' % ran))
PY
)
fi
if [ -n "$prev" ]; then suite="$prev"; else
suite=$(cd $wt && /venv/bin/python - <<PY 2>/dev/null
import json, subprocess, xml.etree.ElementTree as ET, os
base = json.load(open('/root/.vp/BASELINE.json'))
out = '$wt/.junit.xml'
subprocess.run(['/venv/bin/python','-m','pytest','-q','-p','no:cacheprovider','--timeout=900','--continue-on-collection-errors','--junitxml='+out], cwd='$wt', stdout=subprocess.DEVNULL, stderr=subprocess.DEVNULL)
ok=set()
for tc in ET.parse(out).getroot().iter('testcase'):
    if not any(ch.tag in ('failure','error','skipped') for ch in tc): ok.add(tc.get('classname')+'::'+tc.get('name'))
missing=[t for t in base['stable_pass'] if t not in ok]
print('stable_pass=%d missing=%d' % (len(base['stable_pass']), len(missing)))
PY
)
fi
out=$(cd /verif && VERIF_REPO=$wt ./check $pid --tier quick 2>&1 | grep -v conda)
if echo "$out" | grep -q '^VIOLATION'; then verdict=caught; else verdict=missed; fi
git -C /repo worktree remove --force $wt
echo "KEEP $name [$pid]: demo clean=$clean patched=$patched suite=[$suite] check=$verdict"
case "$clean/$patched/$suite" in
  pass/fail/*missing=0*)
    mkdir -p /verif/seeded/$name; cp "$d/patch.diff" "$d/demo.py" /verif/seeded/$name/
    /venv/bin/python - "$d" "$pid" "$name" "$verdict" "$suite" <<'PY'
import json, sys, subprocess
d, pid, name, verdict, suite = sys.argv[1:6]
try: m = json.load(open(d + '/meta.json'))
except Exception: m = {}
head = subprocess.run(['git','-C','/repo','rev-parse','--short','HEAD'], stdout=subprocess.PIPE, text=True).stdout.strip()
meta = {'property': pid, 'summary': m.get('summary'), 'needs_to_manifest': m.get('needs_to_manifest'), 'files': m.get('files'),
        'confirmed_on_repo_head': head, 'rebased': m.get('rebased'),
        'what_was_run': ['demo.py on a clean worktree of /repo HEAD: exit 0', 'demo.py with patch.diff applied: non-zero exit',
                         'pinned suite with patch applied: ' + suite, 'VERIF_REPO=<worktree> ./check %s --tier quick: %s' % (pid, verdict)],
        'check_result_quick': verdict}
json.dump(meta, open('/verif/seeded/%s/meta.json' % name, 'w'), indent=1)
PY
    ;;
  *) echo "KEEP $name: NOT kept (conditions not met)";;
esac
