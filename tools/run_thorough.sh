#!/bin/sh
# usage: tools/run_thorough.sh [parallel jobs, default 3] [ids...]  -- run the thorough tier of the checks on /repo,
# a few at a time (each uses several cores and up to a few GB), print one summary line per property
j=${1:-3}; [ $# -gt 0 ] && shift
ids=${*:-C01 C02 C03 C04 C05 C06 C07 C08 C09 C10 C11 C12 C13 C14 C15 C16 C17 C18 C19 C20}
mkdir -p /verif/build/runall
for p in $ids; do echo $p; done | xargs -P $j -I{} sh -c '
  s=$(date +%s); (cd /verif && ./check {} --tier thorough) > /verif/build/runall/{}.thorough.log 2>&1; rc=$?; e=$(date +%s)
  echo "{} rc=$rc $((e-s))s viol=$(grep -c "^VIOLATION" /verif/build/runall/{}.thorough.log) known=$(grep -c "^KNOWN-FINDING" /verif/build/runall/{}.thorough.log) :: $(tail -1 /verif/build/runall/{}.thorough.log)"'
