#!/venv/bin/python
"""usage: tools/build.py Cnn [target.vo ...]  -- build one property's Coq cone under its own lock (no global lock)."""
import importlib, sys
sys.path.insert(0, '/repo'); sys.path.insert(0, '/verif/harness'); sys.dont_write_bytecode = True
import vlib
pid = sys.argv[1].upper()
targets = sys.argv[2:] or importlib.import_module('props.' + pid.lower()).TARGETS
ok, log = vlib.coq_make(targets)
print(log[-3000:] if not ok else '\n'.join(l for l in log.split('\n') if l.startswith('COQC')))
print('OK' if ok else 'FAILED: ' + vlib.first_coq_error(log))
sys.exit(0 if ok else 1)
