#!/venv/bin/python
"""Assemble /verif/MANIFEST.json from the harness modules that exist (each carries its own MANIFEST dict)."""
import glob, importlib, json, os, sys
sys.path.insert(0, '/repo'); sys.path.insert(0, '/verif/harness')
sys.dont_write_bytecode = True
props = [json.loads(l)['id'] for l in open('/verif/properties.jsonl')]
checks, na = [], []
reasons = json.load(open('/verif/tools/not_applicable.json')) if os.path.exists('/verif/tools/not_applicable.json') else {}
for pid in props:
    path = '/verif/harness/props/%s.py' % pid.lower()
    if not os.path.exists(path) or pid in reasons:
        na.append({'property_id': pid, 'reason': reasons.get(pid, 'check not built yet in this round (planned in DESIGN.md §5); the technique applies')})
        continue
    try:
        m = importlib.import_module('props.' + pid.lower())
    except Exception as e:
        na.append({'property_id': pid, 'reason': 'check under construction (harness module does not import yet: %s)' % type(e).__name__})
        continue
    mf = getattr(m, 'MANIFEST', None)
    if not mf or not os.path.exists('/verif/evidence/%s.json' % pid):
        na.append({'property_id': pid, 'reason': 'check under construction in this round (planned in DESIGN.md §5); the technique applies'})
        continue
    checks.append({
        'property_id': pid,
        'quick_cmd': './check %s --tier quick' % pid,
        'thorough_cmd': './check %s --tier thorough' % pid,
        'evidence_file': '/verif/evidence/%s.json' % pid,
        'replay_cmd_template': './check %s --replay {path}' % pid,
        'engine': 'coq-proof+correspondence',
        'level_claimed': {'category': 'proof', 'text': mf.get('level_text', ''), 'design_ref': mf.get('design_ref', 'DESIGN.md §5 ' + pid)},
        'level_note': mf.get('level_note', ''),
        'technique': mf.get('technique', 'machine-checked Coq proof about an executable model + differential correspondence check against the implementation'),
    })
man = {
    'version': 1,
    'setup_cmd': 'sh /verif/tools/setup.sh',
    'hooks': {'guard': 'QUPULSE_VERIF', 'enable': 'the checks export QUPULSE_VERIF=1; no source hook is needed so far (all observations are reachable from the harness)',
              'baseline_off_cmd': '/verif/tools/baseline.py', 'source_commits': [], 'add_only': True},
    'engines': [{'name': 'coq-proof+correspondence', 'path': '/verif/check', 'serves_properties': [c['property_id'] for c in checks],
                 'kind_free_text': 'Coq 8.16.1 theorems about executable Gallina models (coq/Cnn), tied to /repo by a fail-closed AST translator (translate/py2gallina.py) and by a correspondence check that evaluates model and specification inside coqc (vm_compute) on the implementation\'s observations'}],
    'checks': checks,
    'not_applicable': na,
    'notes': 'See DESIGN.md (approach, trusted base, known findings) and FRAMEWORK.md (structure). known_findings.json lists recorded defects.',
}
json.dump(man, open('/verif/MANIFEST.json', 'w'), indent=1)
print('checks:', [c['property_id'] for c in checks]); print('not_applicable:', [n['property_id'] for n in na])
