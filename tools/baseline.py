#!/venv/bin/python
"""Run the pinned baseline suite on /repo (hooks guard OFF) and compare with BASELINE.json stable_pass.
Exit 0 iff every stable_pass test passes."""
import json, os, subprocess, sys, tempfile, xml.etree.ElementTree as ET
base = json.load(open('/root/.vp/BASELINE.json'))
env = dict(os.environ); env.pop('QUPULSE_VERIF', None)
os.makedirs('/verif/build', exist_ok=True)
out = '/verif/build/baseline.junit.xml'
cmd = ['/venv/bin/python', '-m', 'pytest', '-ra', '-q', '-p', 'no:cacheprovider', '--timeout=900',
       '--continue-on-collection-errors', '--junitxml=' + out]
r = subprocess.run(cmd, cwd='/repo', env=env, stdout=subprocess.PIPE, stderr=subprocess.STDOUT, text=True)
passed = set()
for tc in ET.parse(out).getroot().iter('testcase'):
    bad = any(ch.tag in ('failure', 'error', 'skipped') for ch in tc)
    if not bad:
        passed.add(tc.get('classname') + '::' + tc.get('name'))
missing = [t for t in base['stable_pass'] if t not in passed]
print('stable_pass=%d passed_now=%d missing=%d' % (len(base['stable_pass']), len(passed), len(missing)))
for t in missing[:40]:
    print('NOT PASSING:', t)
os.remove(out)
sys.exit(1 if missing else 0)
