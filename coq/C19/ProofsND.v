(* C19 — the placement with UNSPECIFIED tie order in the two sorts of the second loop (ModelND.v): every tie order is
   safe.  The proof re-uses the loop invariant of Proofs.v; of the sorts it needs only that they return positions of the
   array they were given, as many as the array has elements. *)
From Coq Require Import ZArith List Bool Lia ZifyBool Arith Sorting.Permutation Sorted.
Require Import QV.C19.Model QV.C19.Spec QV.C19.ProofsList QV.C19.Proofs QV.C19.ModelND.
Import ListNotations.
Open Scope Z_scope.

Definition in_range_sort (srt : list Z -> list nat) : Prop :=
  forall a, length (srt a) = length a /\ forall i, In i (srt a) -> (i < length a)%nat.

Lemma is_argsort_in_range a p : is_argsort a p -> length p = length a /\ forall i, In i p -> (i < length a)%nat.
Proof.
  intros [Hp _]. split.
  - apply Permutation_length in Hp. rewrite seq_length in Hp. exact Hp.
  - intros i Hi. apply (Permutation_in _ Hp) in Hi. apply in_seq in Hi. lia.
Qed.

Lemma oracle_in_range srt k : oracle_ok srt -> in_range_sort (srt k).
Proof. intros H a. apply is_argsort_in_range. apply H. Qed.

Lemma argsort_in_range : in_range_sort argsort.
Proof. intros a. split; [apply argsort_length|apply argsort_lt]. Qed.

Section loops_nd.
  Variables (nrc caps lens : list Z) (F m : nat) (unknown0 : list bool).
  Let caps_ff := firstn F caps.

  Lemma step2_nd_inv srt s s' seg :
    in_range_sort srt ->
    Inv nrc caps lens F m unknown0 s -> (seg < m)%nat -> nth seg unknown0 false = true ->
    step2_nd srt caps caps_ff lens seg s = Some s' -> Inv nrc caps lens F m unknown0 s'.
  Proof.
    intros Hsrt I Hseg Hunk. unfold step2_nd.
    set (fc := mask (free_segments s) caps_ff).
    set (fsi := take_idx 0%nat (flatnonzero (free_segments s)) (rev (srt fc))).
    destruct fsi as [|x0 r0] eqn:Efsi; [discriminate|]. rewrite <- Efsi.
    set (k := argmax_bool _).
    destruct (nth seg lens 0 <=? nth (nth k fsi 0%nat) caps 0) eqn:Ecap; intros H; inversion H; subst; [|exact I].
    apply insert_step; auto; [|apply Z.leb_le; exact Ecap].
    destruct (Hsrt fc) as [Hlen Hlt].
    assert (Hfsi_len : length fsi = length fc).
    { unfold fsi, take_idx. rewrite map_length, rev_length. exact Hlen. }
    assert (Hk : (k < length fsi)%nat).
    { rewrite Hfsi_len. unfold k.
      replace (length fc) with (length (rev (map (fun c => nth seg lens 0 <=? c) fc)))
        by (rewrite rev_length, map_length; reflexivity).
      apply argmax_bool_lt. intros Hnil. apply (f_equal (@length bool)) in Hnil.
      rewrite rev_length, map_length, <- Hfsi_len, Efsi in Hnil. cbn in Hnil. lia. }
    assert (Hin : In (nth k fsi 0%nat) fsi) by (apply nth_In; exact Hk).
    unfold fsi at 2 in Hin. unfold take_idx in Hin. apply in_map_iff in Hin as (q & Hq & Hqin).
    apply in_rev in Hqin. apply Hlt in Hqin.
    assert (Hfc : (length fc <= length (flatnonzero (free_segments s)))%nat).
    { unfold fc, flatnonzero. rewrite flatnonzero_from_length. unfold count_true.
      generalize (free_segments s) caps_ff. clear. induction l as [|b l IH]; intros [|c cf]; cbn; try lia.
      destruct b; cbn; specialize (IH cf); lia. }
    apply flatnonzero_spec. rewrite <- Hq. apply nth_In. lia.
  Qed.

  Lemma loop2_nd_inv srt : (forall k, in_range_sort (srt k)) -> forall segs it s,
    Forall (fun seg => (seg < m)%nat /\ nth seg unknown0 false = true) segs -> Inv nrc caps lens F m unknown0 s ->
    Inv nrc caps lens F m unknown0 (loop2_nd srt it caps caps_ff lens segs s).
  Proof.
    intros Hsrt. induction segs as [|seg segs IH]; intros it s Hall I; cbn; auto.
    inversion Hall as [|? ? [H1 H2] Hrest]; subst.
    destruct (step2_nd (srt (S it)) caps caps_ff lens seg s) as [s'|] eqn:E; auto.
    apply IH; auto. eapply step2_nd_inv; eauto.
  Qed.
End loops_nd.

(* the deterministic model is the instance with the stable sort in every call *)
Lemma loop2_nd_stable caps caps_ff lens segs : forall it s,
  loop2_nd (fun _ => argsort) it caps caps_ff lens segs s = loop2 caps caps_ff lens segs s.
Proof.
  induction segs as [|seg segs IH]; intros it s; cbn; [reflexivity|].
  change (step2_nd argsort caps caps_ff lens seg s) with (step2 caps caps_ff lens seg s).
  destruct (step2 caps caps_ff lens seg s); [apply IH|reflexivity].
Qed.

Lemma find_place_nd_stable mem nh nl : find_place_nd (fun _ => argsort) mem nh nl = find_place mem nh nl.
Proof. unfold find_place_nd, find_place. rewrite loop2_nd_stable. reflexivity. Qed.

Theorem find_place_nd_decision_ok_gen srt mem nh nl d :
  (forall k, in_range_sort (srt k)) ->
  Forall (fun r => 0 <= r) (m_refs mem) ->
  find_place_nd srt mem nh nl = Ok d -> decision_ok mem nh nl d.
Proof.
  intros Hsrt Hnn. unfold find_place_nd.
  destruct (Nat.eqb (length (m_hashes mem)) (length (m_refs mem))) eqn:L1; [|discriminate].
  destruct (Nat.eqb (length (m_refs mem)) (length (m_caps mem))) eqn:L2; [|discriminate].
  destruct (Nat.eqb (length nh) (length nl)) eqn:L3; [|discriminate].
  apply Nat.eqb_eq in L1, L2, L3. cbn [andb negb].
  set (w2s := find_positions (m_hashes mem) nh).
  set (unknown := map (fun p => p =? -1) w2s).
  change (map Z.to_nat (mask (map negb unknown) w2s)) with (known_pos_of w2s).
  set (kp := known_pos_of w2s).
  destruct (negb (zlist_eqb _ _)); [discriminate|].
  set (nrc := incr_at kp (m_refs mem)).
  destruct (_ <? _) eqn:Enot; [discriminate|]. clear Enot.
  set (F := first_free_of nrc).
  set (m := length nh).
  set (s0 := {| free_segments := _; free_count := _; st_amend := unknown; st_insert := repeat (-1) m |}).
  set (s1 := loop1 (firstn F (m_caps mem)) nl (flatnonzero unknown) s0).
  set (segs2 := take_idx 0%nat (flatnonzero (st_amend s1)) (rev (srt 0%nat (mask (st_amend s1) nl)))).
  set (s2 := loop2_nd srt 0 (m_caps mem) (firstn F (m_caps mem)) nl segs2 s1).
  destruct (_ <? _) eqn:Efrag; [discriminate|].
  intros Hd; inversion Hd; subst d; clear Hd.
  assert (Hw2s_len : length w2s = m) by apply find_positions_length.
  assert (Hunk_len : length unknown = m) by (unfold unknown; rewrite map_length; exact Hw2s_len).
  assert (Hnrc_len : length nrc = length (m_refs mem)) by apply incr_at_length.
  destruct (first_free_spec nrc) as (HF_le & HF_last & HF_hi). fold F in HF_le, HF_last, HF_hi.
  assert (Hrange : forall p, In p w2s -> p = -1 \/ 0 <= p) by (intros p; apply w2s_range).
  assert (Hunk_nth : forall j, (j < m)%nat -> nth j unknown false = (nth j w2s (-1) =? -1)).
  { intros j Hj. unfold unknown. apply (nth_map_lt (fun p => p =? -1)). lia. }
  assert (I0 : Inv nrc (m_caps mem) nl F m unknown s0).
  { constructor; cbn.
    - rewrite map_length, firstn_length. lia.
    - exact Hunk_len.
    - apply repeat_length.
    - intros i Hi. pose proof (nth_true_lt _ _ Hi) as Hlt. rewrite map_length, firstn_length in Hlt.
      rewrite (nth_map_lt (fun r => r =? 0) _ _ _ 1) in Hi by (rewrite firstn_length; lia).
      rewrite nth_firstn' in Hi by lia. split; [lia|].
      intros Hin. apply repeat_spec in Hin. lia.
    - intros j Hj. rewrite nth_repeat'. destruct (nth j unknown false) eqn:E; auto.
    - intros j1 j2 i _ _ H1 _. rewrite nth_repeat' in H1. lia. }
  assert (I1 : Inv nrc (m_caps mem) nl F m unknown s1).
  { apply loop1_inv; [|exact I0]. apply Forall_forall. intros seg Hseg. apply flatnonzero_spec in Hseg.
    split; [|exact Hseg]. apply nth_true_lt in Hseg. lia. }
  assert (I2 : Inv nrc (m_caps mem) nl F m unknown s2).
  { apply loop2_nd_inv; [exact Hsrt| |exact I1]. apply Forall_forall. intros seg Hseg.
    unfold segs2, take_idx in Hseg. apply in_map_iff in Hseg as (q & Hq & Hqin).
    apply in_rev in Hqin. apply (proj2 (Hsrt 0%nat _)) in Hqin.
    rewrite mask_length in Hqin by (rewrite (inv_len_amend _ _ _ _ _ _ _ I1); exact L3).
    assert (Hin : In seg (flatnonzero (st_amend s1))).
    { rewrite <- Hq. apply nth_In. unfold flatnonzero. rewrite flatnonzero_from_length. exact Hqin. }
    apply flatnonzero_spec in Hin. pose proof (nth_true_lt _ _ Hin) as Hlt.
    rewrite (inv_len_amend _ _ _ _ _ _ _ I1) in Hlt. split; [exact Hlt|].
    pose proof (inv_seg _ _ _ _ _ _ _ I1 seg Hlt) as Hs.
    destruct (nth seg unknown false); [reflexivity|]. destruct Hs as [Hs _]. congruence. }
  pose proof (inv_len_amend _ _ _ _ _ _ _ I2) as Ham_len.
  pose proof (inv_len_insert _ _ _ _ _ _ _ I2) as Hins_len.
  assert (Hplaced : forall j q, nth_error (st_insert s2) j = Some q -> q <> -1 ->
            (j < m)%nat /\ nth j unknown false = true /\ nth j (st_amend s2) false = false /\
            exists i, q = Z.of_nat i /\ (i < F)%nat /\ nth i nrc 1 = 0 /\ nth j nl 0 <= nth i (m_caps mem) 0).
  { intros j q Hq Hne. apply (nth_error_nth' _ _ (-1)) in Hq as [Hj Hq]. rewrite Hins_len in Hj.
    pose proof (inv_seg _ _ _ _ _ _ _ I2 j Hj) as Hs. split; [exact Hj|].
    destruct (nth j unknown false).
    - destruct Hs as [[_ Hs]|[Ha (i & Hi & Hrest)]]; [congruence|].
      split; [reflexivity|]. split; [exact Ha|]. exists i. rewrite <- Hq. auto.
    - destruct Hs as [_ Hs]. congruence. }
  unfold decision_ok. cbn [d_w2s d_amend d_insert]. repeat split.
  - unfold clause_reuse; cbn [d_w2s]. intros j p Hp Hne.
    apply find_positions_spec in Hp as [->|(i & x & -> & Hi & Hx & Hj)]; [congruence|].
    exists i, x. split; [reflexivity|]. split; [|exact Hj]. rewrite <- Hx. apply nth_nth_error. exact Hi.
  - cbn [d_insert d_w2s]. intros j q Hq Hne.
    destruct (Hplaced j q Hq Hne) as (Hj & _ & _ & i & -> & HiF & Hnrc & Hcap).
    apply nrc_zero in Hnrc as (Hi & Hr0 & Hnk); [|exact Hnn].
    exists i, (nth i (m_caps mem) 0), (nth j nl 0). split; [reflexivity|].
    split; [rewrite <- Hr0; apply nth_nth_error; exact Hi|].
    split; [unfold reused; cbn [d_w2s]; intros Hin; apply Hnk; apply known_pos_in; assumption|].
    split; [apply nth_nth_error; lia|]. split; [apply nth_nth_error; unfold m in Hj; lia|exact Hcap].
  - cbn [d_insert]. intros j1 j2 p H1 H2 Hne.
    destruct (Hplaced j1 p H1 Hne) as (Hj1 & _ & _ & i & -> & _).
    destruct (Hplaced j2 _ H2 Hne) as (Hj2 & _).
    apply (nth_error_nth' _ _ (-1)) in H1 as [_ H1]. apply (nth_error_nth' _ _ (-1)) in H2 as [_ H2].
    eapply (inv_distinct _ _ _ _ _ _ _ I2); eauto.
  - unfold clause_amend. cbn [d_amend m_total].
    assert (Hue : used_end mem {| d_w2s := w2s; d_amend := st_amend s2; d_insert := st_insert s2 |} = F).
    { unfold used_end. apply used_end_upto_spec.
      - lia.
      - destruct HF_last as [HF0|(k & Hk & Hm)]; [left; exact HF0|right]. exists k. split; [exact Hk|].
        apply nrc_pos in Hm as [Hkn Hm]; [|exact Hnn]. unfold usedb; cbn [d_w2s d_insert].
        destruct Hm as [Hm|Hm].
        + assert (0 <? nth k (m_refs mem) 0 = true) by lia. rewrite H. reflexivity.
        + apply known_pos_in in Hm; [|exact Hrange]. apply existsb_Z_in in Hm. rewrite Hm. rewrite orb_true_r. reflexivity.
      - intros i [Hi1 Hi2]. unfold usedb; cbn [d_w2s d_insert].
        pose proof (HF_hi i Hi1) as Hm.
        assert (Hnot : ~ ((i < length (m_refs mem))%nat /\ (0 < nth i (m_refs mem) 0 \/ In i kp))).
        { intros Hc. apply (nrc_pos (m_refs mem) kp i Hnn) in Hc. fold nrc in Hc. congruence. }
        destruct (0 <? nth i (m_refs mem) 0) eqn:E1; [exfalso; apply Hnot; split; [exact Hi2|left; lia]|].
        destruct (existsb (Z.eqb (Z.of_nat i)) w2s) eqn:E2.
        { exfalso; apply Hnot; split; [exact Hi2|right]. apply known_pos_in; [exact Hrange|]. apply existsb_Z_in. exact E2. }
        destruct (existsb (Z.eqb (Z.of_nat i)) (st_insert s2)) eqn:E3; [|reflexivity].
        exfalso. apply existsb_Z_in in E3. apply In_nth_error in E3 as (j & Hj).
        destruct (Hplaced j _ Hj ltac:(lia)) as (_ & _ & _ & i' & Heq & Hlt & _). lia. }
    rewrite Hue. lia.
  - cbn [d_w2s]. exact Hw2s_len.
  - cbn [d_amend]. exact Ham_len.
  - cbn [d_insert]. exact Hins_len.
  - cbn [d_w2s d_amend d_insert]. intros j p a q Hp Ha Hq.
    apply (nth_error_nth' _ _ (-1)) in Hp as [Hj Hp]. apply (nth_error_nth' _ _ false) in Ha as [_ Ha].
    apply (nth_error_nth' _ _ (-1)) in Hq as [_ Hq]. rewrite Hw2s_len in Hj.
    pose proof (inv_seg _ _ _ _ _ _ _ I2 j Hj) as Hs. rewrite (Hunk_nth j Hj), Hp, Ha, Hq in Hs.
    unfold exactly_one, placed in *. rewrite Ha, Hq in Hs.
    destruct (p =? -1) eqn:E.
    + destruct Hs as [[H1 H2]|[H1 (i & H2 & _)]].
      * right; right. repeat split; [lia|lia|exact H1].
      * right; left. repeat split; [lia|lia|congruence].
    + destruct Hs as [H1 H2]. left. repeat split; [lia|lia|congruence].
Qed.

(* every tie order is safe *)
Theorem find_place_nd_decision_ok srt mem nh nl d :
  oracle_ok srt -> Forall (fun r => 0 <= r) (m_refs mem) ->
  find_place_nd srt mem nh nl = Ok d -> decision_ok mem nh nl d.
Proof. intros H. apply find_place_nd_decision_ok_gen. intros k. apply oracle_in_range. exact H. Qed.

(* ---- non-vacuity: a legal argsort that differs from the stable one, and a layout on which the tie order decides
   WHICH free slot is overwritten (both choices are safe) ---- *)
Definition nd_mem : memory :=
  {| m_hashes := [1; 2; 3; 4]; m_refs := [1; 0; 0; 1]; m_caps := [192; 384; 384; 192]; m_total := 4000 |}.

Lemma nd_tie_order_matters :
  let o2 : sort_oracle := fun _ => argsort_rev_ties in
  is_argsort [384; 384] (argsort [384; 384]) /\ is_argsort [384; 384] (argsort_rev_ties [384; 384]) /\
  argsort [384; 384] <> argsort_rev_ties [384; 384] /\
  find_place_nd (fun _ => argsort) nd_mem [9] [300] = Ok {| d_w2s := [-1]; d_amend := [false]; d_insert := [2] |} /\
  find_place_nd o2 nd_mem [9] [300] = Ok {| d_w2s := [-1]; d_amend := [false]; d_insert := [1] |}.
Proof.
  cbn zeta. split; [|split; [|split; [|split]]].
  - split; [vm_compute; apply Permutation_refl|].
    change (nondecreasing [384; 384]). cbn. lia.
  - split; [vm_compute; apply perm_swap|].
    change (nondecreasing [384; 384]). cbn. lia.
  - vm_compute. discriminate.
  - vm_compute. reflexivity.
  - vm_compute. reflexivity.
Qed.

(* ---- round 5: the hypothesis `oracle_ok` of the tie-order theorems is inhabited, by the stable sort and by a sort that
   breaks every tie the other way round ---- *)
Lemma map_snd_enumerate_from' {A} k (l : list A) : map snd (enumerate_from k l) = seq k (length l).
Proof. revert k; induction l as [|x l IH]; intros k; cbn; [reflexivity|]. rewrite IH. reflexivity. Qed.

Lemma nondecreasing_of_sorted l : StronglySorted Z.le l -> nondecreasing l.
Proof.
  induction 1 as [|x l Hs IH Hall]; cbn; [exact I|].
  destruct l as [|y r]; [exact I|]. split; [|exact IH]. inversion Hall; assumption.
Qed.

Lemma argsort_perm a : Permutation (argsort a) (seq 0 (length a)).
Proof.
  unfold argsort. rewrite <- (map_snd_enumerate_from' 0%nat a). apply Permutation_map. apply isort_perm.
Qed.

Lemma argsort_keys_sorted a : StronglySorted Z.le (map (fun i => nth i a 0) (argsort a)).
Proof.
  change (StronglySorted Z.le (take_idx 0 a (argsort a))). rewrite take_idx_argsort. apply sorted_keys. apply isort_sorted.
Qed.

Lemma argsort_is_argsort a : is_argsort a (argsort a).
Proof. split; [apply argsort_perm|apply nondecreasing_of_sorted, argsort_keys_sorted]. Qed.

Lemma stable_oracle_ok : oracle_ok (fun _ => argsort).
Proof. intros k a. apply argsort_is_argsort. Qed.

Lemma map_reflect_seq n : map (fun i => (n - 1 - i)%nat) (seq 0 n) = rev (seq 0 n).
Proof.
  apply nth_ext with (d := 0%nat) (d' := 0%nat).
  - rewrite map_length, rev_length. reflexivity.
  - intros k Hk. rewrite map_length, seq_length in Hk.
    rewrite (nth_indep _ 0%nat ((fun i => (n - 1 - i)%nat) 0%nat)) by (rewrite map_length, seq_length; exact Hk).
    rewrite map_nth. rewrite seq_nth by exact Hk.
    rewrite rev_nth by (rewrite seq_length; exact Hk). rewrite seq_length. rewrite seq_nth by lia. lia.
Qed.

Lemma argsort_rev_ties_is_argsort a : is_argsort a (argsort_rev_ties a).
Proof.
  unfold argsort_rev_ties. split.
  - eapply perm_trans.
    + apply Permutation_map. apply argsort_perm.
    + rewrite rev_length. rewrite map_reflect_seq. apply Permutation_sym, Permutation_rev.
  - rewrite map_map.
    assert (E : map (fun i => nth (length a - 1 - i) a 0) (argsort (rev a)) =
                map (fun i => nth i (rev a) 0) (argsort (rev a))).
    { apply map_ext_in. intros i Hi. apply argsort_lt in Hi. rewrite rev_length in Hi.
      rewrite rev_nth by exact Hi. f_equal. lia. }
    rewrite E. apply nondecreasing_of_sorted, argsort_keys_sorted.
Qed.

Lemma rev_ties_oracle_ok : oracle_ok (fun _ => argsort_rev_ties).
Proof. intros k a. apply argsort_rev_ties_is_argsort. Qed.

Lemma oracle_ok_inhabited :
  oracle_ok (fun _ => argsort) /\ oracle_ok (fun _ => argsort_rev_ties) /\
  (* an oracle may also answer differently from call to call *)
  oracle_ok (fun k => if Nat.even k then argsort else argsort_rev_ties).
Proof.
  split; [exact stable_oracle_ok|split; [exact rev_ties_oracle_ok|]].
  intros k a. destruct (Nat.even k); [apply argsort_is_argsort|apply argsort_rev_ties_is_argsort].
Qed.
