(* C19 — the independent specification of a safe placement decision: four clauses over the inputs
   (memory layout, new segments) and the three returned arrays; it does not mention how the decision is computed.
   `decision_ok` is the Prop form used by the theorems, `decision_okb` the executable form evaluated on the
   implementation's returned arrays by the correspondence check (Proofs.v: decision_okb = true <-> decision_ok). *)
From Coq Require Import ZArith List Bool.
Require Import QV.C19.Model.
Import ListNotations.
Open Scope Z_scope.

Section spec.
  Variables (mem : memory) (new_hashes new_lens : list Z) (d : decision).

  (* slot i is reused / written by this very upload *)
  Definition reused (i : nat) : Prop := In (Z.of_nat i) (d_w2s d).
  Definition inserted (i : nat) : Prop := In (Z.of_nat i) (d_insert d).

  (* (1) a slot is reused only for an equal hash *)
  Definition clause_reuse : Prop :=
    forall j p, nth_error (d_w2s d) j = Some p -> p <> -1 ->
      exists i h, p = Z.of_nat i /\ nth_error (m_hashes mem) i = Some h /\ nth_error new_hashes j = Some h.

  (* (2) a slot that is overwritten has reference count 0 and is not reused by this upload, is large enough, and no
         slot is overwritten twice *)
  Definition clause_insert : Prop :=
    (forall j p, nth_error (d_insert d) j = Some p -> p <> -1 ->
       exists i c l, p = Z.of_nat i /\ nth_error (m_refs mem) i = Some 0 /\ ~ reused i /\
                     nth_error (m_caps mem) i = Some c /\ nth_error new_lens j = Some l /\ l <= c) /\
    (forall j1 j2 p, nth_error (d_insert d) j1 = Some p -> nth_error (d_insert d) j2 = Some p -> p <> -1 -> j1 = j2).

  (* one past the last slot that is in use after this upload (referenced before, reused, or overwritten now) *)
  Definition usedb (i : nat) : bool :=
    (0 <? nth i (m_refs mem) 0) || existsb (Z.eqb (Z.of_nat i)) (d_w2s d) || existsb (Z.eqb (Z.of_nat i)) (d_insert d).
  Fixpoint used_end_upto (n : nat) : nat :=
    match n with
    | O => O
    | S k => if usedb k then S k else used_end_upto k
    end.
  Definition used_end : nat := used_end_upto (length (m_refs mem)).

  (* (3) the appended segments (each with 16 points of spacing) fit behind the last used slot *)
  Definition clause_amend : Prop :=
    zsum (map (fun l => l + 16) (mask (d_amend d) new_lens)) <= m_total mem - zsum (firstn used_end (m_caps mem)).

  (* (4) every new segment is accounted for exactly once *)
  Definition exactly_one (a b c : Prop) : Prop := (a /\ ~ b /\ ~ c) \/ (~ a /\ b /\ ~ c) \/ (~ a /\ ~ b /\ c).
  Definition clause_account : Prop :=
    length (d_w2s d) = length new_hashes /\ length (d_amend d) = length new_hashes /\
    length (d_insert d) = length new_hashes /\
    forall j p a q, nth_error (d_w2s d) j = Some p -> nth_error (d_amend d) j = Some a ->
                    nth_error (d_insert d) j = Some q ->
                    exactly_one (p <> -1) (q <> -1) (a = true).

  Definition decision_ok : Prop := clause_reuse /\ clause_insert /\ clause_amend /\ clause_account.

  (* ---- executable form ---- *)
  Definition clause_reuseb : bool :=
    forallb (fun ph => let p := fst ph in
                       (p =? -1) || ((0 <=? p) && (Z.to_nat p <? length (m_hashes mem))%nat
                                     && (nth (Z.to_nat p) (m_hashes mem) 0 =? snd ph)))
            (combine (d_w2s d) new_hashes).

  Fixpoint nodup_nonneg (l : list Z) : bool :=
    match l with
    | [] => true
    | p :: r => ((p =? -1) || negb (existsb (Z.eqb p) r)) && nodup_nonneg r
    end.

  Definition clause_insertb : bool :=
    forallb (fun pl => let p := fst pl in
                       (p =? -1) || ((0 <=? p) && (Z.to_nat p <? length (m_refs mem))%nat
                                     && (Z.to_nat p <? length (m_caps mem))%nat
                                     && (nth (Z.to_nat p) (m_refs mem) 1 =? 0)
                                     && negb (existsb (Z.eqb p) (d_w2s d))
                                     && (snd pl <=? nth (Z.to_nat p) (m_caps mem) 0)))
            (combine (d_insert d) new_lens)
    && nodup_nonneg (d_insert d).

  Definition clause_amendb : bool :=
    zsum (map (fun l => l + 16) (mask (d_amend d) new_lens)) <=? m_total mem - zsum (firstn used_end (m_caps mem)).

  Definition one_of3 (a b c : bool) : bool :=
    match a, b, c with
    | true, false, false | false, true, false | false, false, true => true
    | _, _, _ => false
    end.
  Definition clause_accountb : bool :=
    Nat.eqb (length (d_w2s d)) (length new_hashes) && Nat.eqb (length (d_amend d)) (length new_hashes)
    && Nat.eqb (length (d_insert d)) (length new_hashes)
    && forallb (fun x => one_of3 (negb (fst (fst x) =? -1)) (negb (snd x =? -1)) (snd (fst x)))
               (combine (combine (d_w2s d) (d_amend d)) (d_insert d)).

  Definition decision_okb : bool := clause_reuseb && clause_insertb && clause_amendb && clause_accountb.
End spec.

(* well-formed call: the three memory arrays / the two new-segment arrays have equal lengths *)
Definition wf_call (mem : memory) (new_hashes new_lens : list Z) : Prop :=
  length (m_hashes mem) = length (m_refs mem) /\ length (m_refs mem) = length (m_caps mem) /\
  length new_hashes = length new_lens.
