(* C19 — lemmas about the list models of the numpy primitives used by Model.v *)
From Coq Require Import ZArith List Bool Lia ZifyBool Permutation Sorted Arith.
Require Import QV.C19.Model.
Import ListNotations.
Open Scope Z_scope.

(* ---- nth / nth_error / set_nth ---- *)
Lemma nth_error_nth' {A} (l : list A) j d x : nth_error l j = Some x -> (j < length l)%nat /\ nth j l d = x.
Proof.
  revert j; induction l as [|a l IH]; intros [|j] H; cbn in *; try discriminate.
  - inversion H; subst; split; [lia|reflexivity].
  - apply IH in H as [H1 H2]; split; [lia|exact H2].
Qed.

Lemma nth_nth_error {A} (l : list A) j d : (j < length l)%nat -> nth_error l j = Some (nth j l d).
Proof.
  revert j; induction l as [|a l IH]; intros [|j] H; cbn in *; try lia; auto. apply IH; lia.
Qed.

Lemma set_nth_length {A} i (v : A) l : length (set_nth i v l) = length l.
Proof. revert i; induction l as [|a l IH]; intros [|i]; cbn; auto. Qed.

Lemma nth_set_nth_eq {A} i (v d : A) l : (i < length l)%nat -> nth i (set_nth i v l) d = v.
Proof. revert i; induction l as [|a l IH]; intros [|i] H; cbn in *; try lia; auto. apply IH; lia. Qed.

Lemma nth_set_nth_neq {A} i j (v d : A) l : i <> j -> nth j (set_nth i v l) d = nth j l d.
Proof.
  revert i j; induction l as [|a l IH]; intros [|i] [|j] H; cbn in *; try congruence; auto.
Qed.

Lemma in_set_nth {A} i (v x : A) l : In x (set_nth i v l) -> x = v \/ In x l.
Proof.
  revert i; induction l as [|a l IH]; intros [|i] H; cbn in *; auto.
  - destruct H as [H|H]; auto.
  - destruct H as [H|H]; auto. apply IH in H as [H|H]; auto.
Qed.

Lemma nth_firstn' {A} n i (l : list A) d : (i < n)%nat -> nth i (firstn n l) d = nth i l d.
Proof.
  revert i l; induction n as [|n IH]; intros i l H; [lia|].
  destruct l as [|a l]; cbn; [destruct i; reflexivity|].
  destruct i as [|i]; cbn; auto. apply IH; lia.
Qed.

Lemma nth_map_lt {A B} (g : A -> B) l k d d' : (k < length l)%nat -> nth k (map g l) d = g (nth k l d').
Proof. revert k; induction l as [|a l IH]; intros [|k] H; cbn in *; try lia; auto. apply IH; lia. Qed.

Lemma nth_In_lt {A} (l : list A) i d : (i < length l)%nat -> In (nth i l d) l.
Proof. intros; apply nth_In; auto. Qed.

(* ---- flatnonzero ---- *)
Lemma flatnonzero_from_spec k m i :
  In i (flatnonzero_from k m) <-> (k <= i)%nat /\ nth (i - k) m false = true.
Proof.
  revert k; induction m as [|b m IH]; intros k; cbn.
  - split; [tauto|]. intros [_ H]. destruct (i - k)%nat; discriminate.
  - destruct b; cbn; rewrite ?IH.
    + split.
      * intros [<-|[H1 H2]]; [split; [lia|]; replace (k - k)%nat with 0%nat by lia; reflexivity|].
        split; [lia|]. replace (i - k)%nat with (S (i - S k)) by lia. exact H2.
      * intros [H1 H2]. destruct (Nat.eq_dec k i) as [->|Hne]; [left; reflexivity|right].
        split; [lia|]. replace (i - k)%nat with (S (i - S k)) in H2 by lia. exact H2.
    + split.
      * intros [H1 H2]. split; [lia|]. replace (i - k)%nat with (S (i - S k)) by lia. exact H2.
      * intros [H1 H2]. destruct (Nat.eq_dec k i) as [->|Hne].
        { replace (i - i)%nat with 0%nat in H2 by lia. discriminate. }
        split; [lia|]. replace (i - k)%nat with (S (i - S k)) in H2 by lia. exact H2.
Qed.

Lemma flatnonzero_spec m i : In i (flatnonzero m) <-> nth i m false = true.
Proof.
  unfold flatnonzero. rewrite flatnonzero_from_spec. replace (i - 0)%nat with i by lia. split; [tauto|split; [lia|auto]].
Qed.

Lemma nth_true_lt (m : list bool) i : nth i m false = true -> (i < length m)%nat.
Proof.
  intros H. destruct (Nat.lt_ge_cases i (length m)) as [|Hge]; auto.
  rewrite nth_overflow in H by lia. discriminate.
Qed.

Lemma flatnonzero_from_length k m : length (flatnonzero_from k m) = count_true m.
Proof.
  unfold count_true. revert k; induction m as [|b m IH]; intros k; cbn; auto. destruct b; cbn; rewrite IH; auto.
Qed.

Lemma mask_length {A} (m : list bool) (a : list A) : length m = length a -> length (mask m a) = count_true m.
Proof.
  unfold count_true. revert a; induction m as [|b m IH]; intros [|x a] H; cbn in *; try discriminate; auto.
  destruct b; cbn; rewrite IH; auto.
Qed.

(* ---- last_opt ---- *)
Lemma last_opt_cons {A} (x : A) l : last_opt (x :: l) = match last_opt l with Some y => Some y | None => Some x end.
Proof.
  unfold last_opt. cbn. destruct (rev l) as [|y r] eqn:E; cbn; auto.
Qed.

Lemma last_opt_nil_iff {A} (l : list A) : last_opt l = None <-> l = [].
Proof.
  unfold last_opt. split.
  - destruct (rev l) eqn:E; [|discriminate]. intros _. apply (f_equal (@rev A)) in E. rewrite rev_involutive in E. exact E.
  - intros ->. reflexivity.
Qed.

Lemma last_flatnonzero_from k m :
  match last_opt (flatnonzero_from k m) with
  | Some i => (k <= i)%nat /\ nth (i - k) m false = true /\ forall j, (i < j)%nat -> nth (j - k) m false = false
  | None => forall j, (k <= j)%nat -> nth (j - k) m false = false
  end.
Proof.
  revert k; induction m as [|b m IH]; intros k; cbn.
  - intros j _. destruct (j - k)%nat; reflexivity.
  - specialize (IH (S k)).
    destruct b; [rewrite last_opt_cons|]; destruct (last_opt (flatnonzero_from (S k) m)) as [i|].
    + destruct IH as (H1 & H2 & H3). split; [lia|]. split.
      * replace (i - k)%nat with (S (i - S k)) by lia. exact H2.
      * intros j Hj. replace (j - k)%nat with (S (j - S k)) by lia. apply H3; lia.
    + split; [lia|]. split; [replace (k - k)%nat with 0%nat by lia; reflexivity|].
      intros j Hj. replace (j - k)%nat with (S (j - S k)) by lia. apply IH; lia.
    + destruct IH as (H1 & H2 & H3). split; [lia|]. split.
      * replace (i - k)%nat with (S (i - S k)) by lia. exact H2.
      * intros j Hj. replace (j - k)%nat with (S (j - S k)) by lia. apply H3; lia.
    + intros j Hj. destruct (Nat.eq_dec j k) as [->|Hne].
      * replace (k - k)%nat with 0%nat by lia. reflexivity.
      * replace (j - k)%nat with (S (j - S k)) by lia. apply IH; lia.
Qed.

(* ---- find_true / argmax ---- *)
Lemma find_true_some m i : find_true m = Some i -> nth i m false = true.
Proof.
  revert i; induction m as [|b m IH]; intros i H; cbn in *; [discriminate|].
  destruct b; [inversion H; reflexivity|].
  destruct (find_true m) as [k|]; cbn in H; [|discriminate]. inversion H; subst. cbn. auto.
Qed.

Lemma argmax_bool_lt m : m <> [] -> (argmax_bool m < length m)%nat.
Proof.
  intros Hm. unfold argmax_bool. destruct (find_true m) as [i|] eqn:E.
  - apply find_true_some in E. apply nth_true_lt in E. exact E.
  - destruct m; [congruence|cbn; lia].
Qed.

(* ---- enumerate / isort / argsort ---- *)
Lemma enumerate_from_spec {A} k (l : list A) x i d :
  In (x, i) (enumerate_from k l) -> (k <= i < k + length l)%nat /\ nth (i - k) l d = x.
Proof.
  revert k; induction l as [|a l IH]; intros k H; cbn in *; [tauto|].
  destruct H as [H|H].
  - inversion H; subst. split; [lia|]. replace (i - i)%nat with 0%nat by lia. reflexivity.
  - apply IH in H as [H1 H2]. split; [lia|]. replace (i - k)%nat with (S (i - S k)) by lia. exact H2.
Qed.

Lemma enumerate_from_length {A} k (l : list A) : length (enumerate_from k l) = length l.
Proof. revert k; induction l; intros; cbn; auto. Qed.

Lemma insert_stable_perm p l : Permutation (insert_stable p l) (p :: l).
Proof.
  induction l as [|q l IH]; cbn; auto.
  destruct (fst p <=? fst q); auto.
  eapply perm_trans; [apply perm_skip; exact IH|apply perm_swap].
Qed.

Lemma isort_perm l : Permutation (isort l) l.
Proof.
  induction l as [|p l IH]; cbn; auto.
  eapply perm_trans; [apply insert_stable_perm|apply perm_skip; exact IH].
Qed.

Definition key_le (p q : Z * nat) : Prop := fst p <= fst q.

Lemma insert_stable_sorted p l : StronglySorted key_le l -> StronglySorted key_le (insert_stable p l).
Proof.
  induction l as [|q l IH]; intros H; cbn.
  - constructor; constructor.
  - inversion H as [|? ? Hs Hf]; subst.
    destruct (fst p <=? fst q) eqn:E.
    + constructor; auto. constructor; [unfold key_le; lia|].
      eapply Forall_impl; [|exact Hf]. unfold key_le; intros; lia.
    + constructor; auto.
      eapply Permutation_Forall; [apply Permutation_sym, insert_stable_perm|].
      constructor; auto. unfold key_le; lia.
Qed.

Lemma isort_sorted l : StronglySorted key_le (isort l).
Proof. induction l; cbn; [constructor|apply insert_stable_sorted; auto]. Qed.

Lemma argsort_length a : length (argsort a) = length a.
Proof.
  unfold argsort. rewrite map_length.
  rewrite (Permutation_length (isort_perm _)). apply enumerate_from_length.
Qed.

Lemma argsort_lt a i : In i (argsort a) -> (i < length a)%nat.
Proof.
  unfold argsort. intros H. apply in_map_iff in H as ((x, k) & Hk & Hin). cbn in Hk; subst k.
  eapply Permutation_in in Hin; [|apply isort_perm].
  apply (enumerate_from_spec 0 a x i 0) in Hin. lia.
Qed.

(* the keys of the sorted pairs are the data at the sorted indices *)
Lemma take_idx_argsort a : take_idx 0 a (argsort a) = map fst (isort (enumerate_from 0 a)).
Proof.
  unfold take_idx, argsort. rewrite map_map. apply map_ext_in.
  intros (x, i) Hin. cbn. eapply Permutation_in in Hin; [|apply isort_perm].
  apply (enumerate_from_spec 0 a x i 0) in Hin as [_ H]. replace (i - 0)%nat with i in H by lia. exact H.
Qed.

Lemma sorted_keys l : StronglySorted key_le l -> StronglySorted Z.le (map fst l).
Proof.
  induction 1 as [|p l Hs IH Hf]; cbn; constructor; auto.
  apply Forall_forall. intros y Hy. apply in_map_iff in Hy as (q & <- & Hq).
  rewrite Forall_forall in Hf. apply Hf in Hq. exact Hq.
Qed.

(* searchsorted on an ascending list: when count(< x) < count(<= x), the element at position count(< x) is x *)
Lemma searchsorted_hit s x :
  StronglySorted Z.le s -> (count_lt x s < count_le x s)%nat -> nth (count_lt x s) s 0 = x.
Proof.
  unfold count_lt, count_le.
  induction 1 as [|a s Hs IH Hf]; cbn; [lia|].
  intros H.
  destruct (a <? x) eqn:E1; destruct (a <=? x) eqn:E2; cbn in *; try lia.
  - (* a = x: nothing later is < x *)
    assert (Hz : length (filter (fun y => y <? x) s) = 0%nat).
    { rewrite Forall_forall in Hf. clear -Hf E1 E2. induction s as [|b s IH]; cbn; auto.
      assert (a <= b) by (apply Hf; left; reflexivity).
      destruct (b <? x) eqn:E; [lia|]. apply IH. intros y Hy. apply Hf. right; exact Hy. }
    rewrite Hz. cbn. lia.
  - (* a > x: nothing later is <= x *)
    exfalso.
    assert (Hz : length (filter (fun y => y <=? x) s) = 0%nat).
    { rewrite Forall_forall in Hf. clear -Hf E1 E2. induction s as [|b s IH]; cbn; auto.
      assert (a <= b) by (apply Hf; left; reflexivity).
      destruct (b <=? x) eqn:E; [lia|]. apply IH. intros y Hy. apply Hf. right; exact Hy. }
    lia.
Qed.

Lemma count_lt_le_length x s : (count_le x s <= length s)%nat.
Proof. unfold count_le. induction s as [|a s IH]; cbn; auto. destruct (a <=? x); cbn; lia. Qed.
