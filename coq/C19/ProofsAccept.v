(* C19 — round 6: the executable history checker of Corr.v (`check_spec` on a CHist case: `obs_safe` after every
   operation + "the defined slots fit") accepts the observation of EVERY state the modelled driver (DriverLens.xstep over
   Driver.v) goes through, for every history.  Each conjunct of `obs_safe` is derived from the proved invariants J
   (ProofsDriver), K (capacity) and L (ProofsLens) and from `step_no_internal`; so what the harness demands of the two
   real drivers is exactly (no more than) what is proved about the model, and the model's own trace also passes
   `check_corr` (model = model, stated only to show that `xtrace` is the trace the comparison uses). *)
From Coq Require Import ZArith List Bool Lia ZifyBool Arith.
Require Import QV.common.Util QV.C19.Model QV.C19.Spec QV.C19.ProofsList QV.C19.Proofs QV.C19.Driver QV.C19.DriverLens
  QV.C19.ProofsDriver QV.C19.ProofsNoErr QV.C19.ProofsLens QV.C19.ProofsSpec QV.C19.Corr.
Import ListNotations.
Open Scope Z_scope.

(* what the harness would observe of a model state: programs with their slots and segment hashes, the instrument's
   content and defined lengths, the lengths of the programs' segments (`lenof`: hash determines length) *)
Definition obs_of (lenof : Z -> Z) (s : xdriver) (e : option derror) : hobs :=
  let d := x_d s in
  {| ho_err := herr_of e; ho_hashes := dv_hashes d; ho_caps := dv_caps d; ho_refs := dv_refs d;
     ho_progs := map (fun p => (pg_name p, pg_w2s p, pg_segs p)) (dv_known d);
     ho_dev := map Some (dv_dev d);
     ho_lens := x_lens s; ho_devlen := map Some (x_devlen s);
     ho_plens := map (fun p => map lenof (pg_segs p)) (dv_known d) |}.

Fixpoint xtrace (lenof : Z -> Z) (s : xdriver) (ops : list op) : list hobs :=
  match ops with
  | [] => []
  | o :: r => obs_of lenof (fst (xstep find_place s o)) (snd (xstep find_place s o))
              :: xtrace lenof (fst (xstep find_place s o)) r
  end.

(* ---- list facts ---- *)
Lemma in_combine_nth {A B} (a : list A) : forall (b : list B) x y,
  In (x, y) (combine a b) ->
  exists j, (j < length a)%nat /\ (j < length b)%nat /\ (forall d, nth j a d = x) /\ (forall d, nth j b d = y).
Proof.
  induction a as [|u a IH]; intros [|v b] x y H; cbn in H; try contradiction.
  destruct H as [H|H].
  - inversion H; subst. exists 0%nat. cbn. repeat split; lia.
  - destruct (IH b x y H) as (j & H1 & H2 & H3 & H4). exists (S j). cbn. repeat split; auto; lia.
Qed.

Lemma nth_map_some (l : list Z) i : (i < length l)%nat -> nth i (map Some l) None = Some (nth i l 0).
Proof. revert i; induction l as [|x l IH]; intros [|i] H; cbn in *; try lia; auto. apply IH. lia. Qed.

Lemma zlist_eqb_refl a : zlist_eqb a a = true.
Proof. induction a as [|x a IH]; cbn; auto. rewrite Z.eqb_refl. exact IH. Qed.

Lemma some_list_eqb_refl (a : list Z) : list_eqb (opt_eqb Z.eqb) (map Some a) (map Some a) = true.
Proof. induction a as [|x a IH]; cbn; auto. rewrite Z.eqb_refl. exact IH. Qed.

Lemma bool_list_eqb_refl (a : list bool) : list_eqb Bool.eqb a a = true.
Proof. induction a as [|x a IH]; cbn; auto. rewrite IH. destruct x; reflexivity. Qed.

Lemma combine_map_map {A B C} (f : A -> B) (g : A -> C) l :
  combine (map f l) (map g l) = map (fun p => (f p, g p)) l.
Proof. induction l as [|x l IH]; cbn; auto. rewrite IH. reflexivity. Qed.

(* ---- the capacity invariant, one step (the step of ProofsDriver.JK_run) ---- *)
Lemma K_step d o :
  192 <= dv_total d -> J d -> K d -> op_lens_nonneg o = true ->
  K (fst (step_with find_place d o)) /\ dv_total (fst (step_with find_place d o)) = dv_total d.
Proof.
  intros Ht I Kd Hg1.
  destruct o as [name segs force|name|name| |]; cbn [step_with op_lens_nonneg] in *.
  - rewrite upload_with_unfold.
    destruct (existsb (fun p => Nat.eqb (pg_name p) name) (dv_known d)) eqn:Eex.
    + destruct force; [|auto].
      pose proof (J_free d name I) as I1. pose proof (K_free d name Kd) as K1.
      destruct (free_program_caps d name) as [_ Et1].
      destruct (free_program d name) as [d1 [e|]]; cbn [fst] in *; [auto|].
      split; [apply K_upload_core; assumption|]. rewrite upload_core_total. exact Et1.
    + split; [apply K_upload_core; assumption|apply upload_core_total].
  - split; [apply K_free; exact Kd|apply free_program_caps].
  - pose proof (K_free d name Kd) as K1. destruct (free_program_caps d name) as [_ Et1].
    destruct (free_program d name) as [d1 [e|]]; cbn [fst] in *; [auto|].
    split; [apply K_cleanup; exact K1|exact Et1].
  - split; [apply K_cleanup; exact Kd|reflexivity].
  - split; [apply K_clear; exact Ht|reflexivity].
Qed.

Section accept.
  Variable lenof : Z -> Z.
  Hypothesis lenof_idle : lenof IDLE = 192.

  (* every conjunct of obs_safe from the invariants *)
  Lemma obs_safe_of_invariants s e :
    J (x_d s) -> L lenof s -> internal e = false -> obs_safe (obs_of lenof s e) = true.
  Proof.
    intros I Ls He.
    pose proof (j_progs _ I) as Hall. rewrite Forall_forall in Hall.
    pose proof (j_len_d _ I) as Hld. pose proof (j_len_c _ I) as Hlc. pose proof (j_len_h _ I) as Hlh.
    pose proof (j_pos _ I) as Hpos. pose proof (l_len_l _ _ Ls) as Hll. pose proof (l_dev _ _ Ls) as Hdev.
    unfold obs_safe, obs_of.
    cbn [ho_err ho_hashes ho_caps ho_refs ho_progs ho_dev ho_lens ho_devlen ho_plens].
    repeat (apply andb_true_intro; split).
    - (* every program's slots hold its data and are referenced *)
      apply forallb_forall. intros a Ha. apply in_map_iff in Ha as (p & <- & Hp). cbn [fst snd].
      destruct (Hall p Hp) as [Hlen Hslots].
      apply andb_true_intro; split; [apply Nat.eqb_eq; exact Hlen|].
      apply forallb_forall. intros [q h] Hqh. cbn [fst snd].
      apply in_combine_nth in Hqh as (j & Hj1 & Hj2 & Hq & Hh).
      assert (Hne : nth_error (pg_w2s p) j = Some q) by (rewrite (@List.nth_error_nth' Z (pg_w2s p) j 0 Hj1); f_equal; apply Hq).
      destruct (Hslots j q Hne) as (i & -> & Hi & Hc).
      rewrite Nat2Z.id, map_length, (nth_map_some _ _ Hi), Hc, (Hh 0). cbn [opt_eqb]. rewrite Z.eqb_refl.
      assert (Hi' : (i < length (dv_refs (x_d s)))%nat) by lia.
      pose proof (j_refs _ I i Hi') as Hr.
      assert (1 <= cnt (dv_known (x_d s)) i).
      { apply (cnt_in _ p); [exact Hp|]. apply uses_spec. eapply nth_error_In. exact Hne. }
      assert (0 <= idle i) by (unfold idle; destruct (Nat.eqb i 0); lia).
      apply Nat.ltb_lt in Hi. rewrite Hi. lia.
    - (* no internal error *)
      destruct e as [[]|]; cbn in *; try reflexivity; discriminate.
    - rewrite (j_belief _ I). apply some_list_eqb_refl.
    - rewrite nth_map_some by lia. rewrite (j_idle _ I). reflexivity.
    - pose proof (j_refs _ I 0%nat Hpos) as H. pose proof (cnt_nonneg (dv_known (x_d s)) 0). cbn in H. lia.
    - rewrite !map_length. apply Nat.eqb_refl.
    - (* every program's slots are defined with the segment's own length *)
      rewrite combine_map_map. apply forallb_forall. intros a Ha. apply in_map_iff in Ha as (p & <- & Hp).
      cbn [fst snd]. destruct (Hall p Hp) as [Hlen Hslots].
      apply andb_true_intro; split; [rewrite map_length; apply Nat.eqb_eq; exact Hlen|].
      apply forallb_forall. intros [q l] Hql. cbn [fst snd].
      apply in_combine_nth in Hql as (j & Hj1 & Hj2 & Hq & Hl).
      assert (Hne : nth_error (pg_w2s p) j = Some q) by (rewrite (@List.nth_error_nth' Z (pg_w2s p) j 0 Hj1); f_equal; apply Hq).
      destruct (Hslots j q Hne) as (i & -> & Hi & Hc).
      assert (Hi' : (i < length (dv_caps (x_d s)))%nat) by lia.
      rewrite Nat2Z.id, nth_map_some by (rewrite Hdev; lia).
      rewrite Hdev, (l_of _ _ Ls i Hi'), (j_belief _ I), Hc, <- (Hl (lenof 0)), map_nth. cbn. apply Z.eqb_refl.
    - rewrite Hdev. apply some_list_eqb_refl.
    - apply Nat.eqb_eq. exact Hll.
    - apply forallb_forall. intros [l c] Hlc'. cbn [fst snd].
      apply in_combine_nth in Hlc' as (j & Hj1 & Hj2 & Hl & Hc).
      pose proof (l_fit _ _ Ls j Hj2) as Hf. rewrite (Hl 0), (Hc 0) in Hf. lia.
  Qed.

  (* the model's own trace passes the history checker: obs_safe after every operation and Σ capacities ≤ total *)
  Lemma xtrace_accepted ops : forall s,
    192 <= dv_total (x_d s) -> J (x_d s) -> K (x_d s) -> L lenof s ->
    Forall (op_lens_from lenof) ops -> ops_lens_nonneg ops = true ->
    forallb obs_safe (xtrace lenof s ops) = true /\
    forallb (fun o => zsum (ho_caps o) <=? dv_total (x_d s)) (xtrace lenof s ops) = true /\
    length (xtrace lenof s ops) = length ops.
  Proof.
    induction ops as [|o ops IH]; intros s Ht I Kd Ls Hall Hg; cbn [xtrace forallb length]; [auto|].
    inversion Hall as [|? ? Ho Hall']; subst. cbn [ops_lens_nonneg forallb] in Hg. apply andb_prop in Hg as [Hg1 Hg2].
    destruct (xstep_refines find_place s o) as [Hd He].
    set (s' := fst (xstep find_place s o)) in *. set (e := snd (xstep find_place s o)) in *.
    assert (I' : J (x_d s')) by (rewrite Hd; apply J_step; [exact find_place_decision_ok|exact I]).
    destruct (K_step (x_d s) o Ht I Kd Hg1) as [K' Ht']. rewrite <- Hd in K', Ht'.
    assert (L' : L lenof s') by (apply L_step; assumption).
    assert (Hint : internal e = false).
    { rewrite He. apply (step_no_internal find_place find_place_decision_ok). exact I. }
    destruct (IH s' ltac:(rewrite Ht'; exact Ht) I' K' L' Hall' Hg2) as (H1 & H2 & H3).
    rewrite Ht' in H2.
    split; [|split].
    - rewrite (obs_safe_of_invariants s' e I' L' Hint). exact H1.
    - rewrite H2. cbn [obs_of ho_caps]. destruct K' as [Hs _]. rewrite Ht' in Hs.
      apply andb_true_intro; split; [lia|reflexivity].
    - rewrite H3. reflexivity.
  Qed.

  (* the comparison with the model accepts the model's own trace (model = model) *)
  Lemma state_eqb_self s e : state_eqb s (obs_of lenof s e) = true.
  Proof.
    unfold state_eqb, obs_of. cbn [ho_hashes ho_caps ho_refs ho_progs ho_dev ho_lens ho_devlen].
    rewrite !zlist_eqb_refl, !some_list_eqb_refl, map_length, Nat.eqb_refl. cbn [andb].
    rewrite andb_true_r. apply forallb_forall. intros a Ha. apply in_map_iff in Ha as (p & <- & Hp).
    apply existsb_exists. exists p. split; [exact Hp|]. unfold prog_eqb. cbn [fst snd].
    rewrite Nat.eqb_refl, !zlist_eqb_refl. reflexivity.
  Qed.

  Lemma herr_eqb_refl h : herr_eqb h h = true.
  Proof. destruct h; reflexivity. Qed.

  Lemma hist_corr_self ops : forall s, hist_corr s ops (xtrace lenof s ops) = true.
  Proof.
    induction ops as [|o ops IH]; intros s; cbn [hist_corr xtrace]; [reflexivity|].
    destruct (xstep find_place s o) as [s' e]. cbn [fst snd obs_of ho_err].
    change (herr_eqb (herr_of e) (herr_of e) && state_eqb s' (obs_of lenof s' e) && hist_corr s' ops (xtrace lenof s' ops) = true).
    rewrite herr_eqb_refl, state_eqb_self, IH. reflexivity.
  Qed.
End accept.

Theorem check_accepts_model lenof total ops :
  lenof IDLE = 192 -> Forall (op_lens_from lenof) ops -> 192 <= total -> ops_lens_nonneg ops = true ->
  check_spec (CHist total ops (xtrace lenof (xclear total) ops)) = true /\
  check_corr (CHist total ops (xtrace lenof (xclear total) ops)) = true.
Proof.
  intros Hidle Hall Ht Hg. split.
  - destruct (xtrace_accepted lenof Hidle ops (xclear total) Ht (J_clear total) (K_clear total Ht)
                (L_clear lenof Hidle total) Hall Hg) as (H1 & H2 & H3).
    cbn [check_spec]. rewrite H3, Nat.eqb_refl, H1. exact H2.
  - cbn [check_corr]. apply hist_corr_self.
Qed.

(* ---- the placement calls made inside a history (CHistD): what the model's decision function returns on the arrays of a
   reachable driver state, for the segments of ANY upload, passes the call checker (four clauses via decision_okb on the
   driver's own arrays, never an assertion / bad-input refusal) and, trivially, the comparison with itself ---- *)
Definition model_call (feature : bool) (d : driver) (segs : list (Z * Z)) : pcall :=
  {| pc_feature := feature; pc_hashes := dv_hashes d; pc_refs := dv_refs d; pc_caps := dv_caps d;
     pc_new_hashes := map fst segs; pc_new_lens := map snd segs;
     pc_impl := match find_place (mem_of d) (map fst segs) (map snd segs) with
                | Ok dec => IRet (d_w2s dec) (d_amend dec) (d_insert dec)
                | Err e => IRefuse (Some e)
                end |}.

Lemma find_place_no_bad_input mem nh nl :
  length (m_hashes mem) = length (m_refs mem) -> length (m_refs mem) = length (m_caps mem) -> length nh = length nl ->
  find_place mem nh nl <> Err BadInput.
Proof.
  intros H1 H2 H3. unfold find_place. rewrite H1, H2, H3, !Nat.eqb_refl. cbn [andb negb].
  destruct (negb _); [discriminate|]. destruct (_ <? _); [discriminate|]. destruct (_ <? _); discriminate.
Qed.

Theorem calls_accepted total ops feature segs :
  let d := run (clear total) ops in
  pcall_spec total (model_call feature d segs) = true /\ pcall_corr total (model_call false d segs) = true.
Proof.
  intros d. assert (Htot : dv_total d = total) by (unfold d; rewrite run_total; reflexivity).
  assert (I : J d) by (apply (J_run find_place find_place_decision_ok); apply J_clear).
  assert (Hmem : {| m_hashes := dv_hashes d; m_refs := dv_refs d; m_caps := dv_caps d; m_total := total |} = mem_of d)
    by (unfold mem_of; rewrite Htot; reflexivity).
  split.
  - unfold pcall_spec, model_call. cbn [pc_impl pc_hashes pc_refs pc_caps pc_new_hashes pc_new_lens].
    rewrite Hmem. destruct (find_place (mem_of d) (map fst segs) (map snd segs)) as [dec|e] eqn:E.
    + destruct dec as [w a i]. cbn [d_w2s d_amend d_insert].
      apply decision_okb_iff; [rewrite !map_length; reflexivity|].
      apply (proj2 (history_decisions total ops (map fst segs) (map snd segs) _)). exact E.
    + destruct e; try reflexivity; exfalso.
      * exact (find_place_no_assertion _ _ _ E).
      * revert E. apply find_place_no_bad_input; cbn [mem_of m_hashes m_refs m_caps]; rewrite ?map_length; auto.
        -- apply I.
        -- symmetry. apply I.
  - unfold pcall_corr, model_call. cbn [pc_feature pc_impl pc_hashes pc_refs pc_caps pc_new_hashes pc_new_lens andb].
    unfold place_corr. rewrite Hmem.
    destruct (find_place (mem_of d) (map fst segs) (map snd segs)) as [dec|e].
    + rewrite !zlist_eqb_refl, bool_list_eqb_refl. reflexivity.
    + destruct e; reflexivity.
Qed.

(* non-vacuity: the history of ProofsLens.lens_ops (shorter segments in larger freed slots, both branches of the length
   update) satisfies the hypotheses; its trace has 7 observations, the last with 7 slots and 5 programs *)
Lemma check_accepts_model_example :
  lens_lenof IDLE = 192 /\ Forall (op_lens_from lens_lenof) lens_ops /\ ops_lens_nonneg lens_ops = true /\
  let tr := xtrace lens_lenof (xclear 100000) lens_ops in
  length tr = 7%nat /\
  map (fun o => length (ho_progs o)) tr = [1; 2; 1; 2; 3; 4; 5]%nat /\
  ho_caps (last tr (obs_of lens_lenof (xclear 0) None)) = [192; 256; 400; 192; 1000; 1008; 1024] /\
  ho_devlen (last tr (obs_of lens_lenof (xclear 0) None)) = map Some [192; 224; 208; 192; 1000; 1008; 1024] /\
  check_spec (CHist 100000 lens_ops tr) = true.
Proof.
  destruct history_lengths_example as (H1 & H2 & _).
  split; [exact H1|]. split; [exact H2|]. split; [reflexivity|]. vm_compute. repeat split; reflexivity.
Qed.
