(* C19 — history theorem for the MODELLED driver (Driver.v): invariant over upload / free / remove / cleanup / clear.
   The proof uses the placement function only through the four clauses of Spec.decision_ok. *)
From Coq Require Import ZArith List Bool Lia ZifyBool Arith.
Require Import QV.C19.Model QV.C19.Spec QV.C19.ProofsList QV.C19.Proofs QV.C19.Driver.
Import ListNotations.
Open Scope Z_scope.

Definition uses (p : prog) (i : nat) : bool := existsb (Z.eqb (Z.of_nat i)) (pg_w2s p).
Definition cnt (ps : list prog) (i : nat) : Z := Z.of_nat (length (filter (fun p => uses p i) ps)).
Definition idle (i : nat) : Z := if Nat.eqb i 0 then 1 else 0.

(* every waveform of the program sits in an existing slot whose device content is the waveform's own hash *)
Definition prog_ok (dev : list Z) (p : prog) : Prop :=
  length (pg_w2s p) = length (pg_segs p) /\
  forall j q, nth_error (pg_w2s p) j = Some q ->
    exists i, q = Z.of_nat i /\ (i < length dev)%nat /\ nth i dev 0 = nth j (pg_segs p) 0.

Record J (d : driver) : Prop := {
  j_len_h : length (dv_hashes d) = length (dv_refs d);
  j_len_c : length (dv_caps d) = length (dv_refs d);
  j_len_d : length (dv_dev d) = length (dv_refs d);
  j_pos : (1 <= length (dv_refs d))%nat;
  (* round 4: EQUALITY — no leaked counts: a slot's count is exactly the number of known programs playing from it
     (+1 for the idle slot 0) *)
  j_refs : forall i, (i < length (dv_refs d))%nat -> cnt (dv_known d) i + idle i = nth i (dv_refs d) 0;
  j_progs : Forall (prog_ok (dv_dev d)) (dv_known d);
  j_belief : dv_hashes d = dv_dev d;
  j_names : NoDup (map pg_name (dv_known d));
  j_idle : nth 0%nat (dv_dev d) 0 = IDLE       (* the idle waveform is never overwritten *)
}.

Lemma cnt_nonneg ps i : 0 <= cnt ps i.
Proof. unfold cnt. lia. Qed.

Lemma cnt_cons p ps i : cnt (p :: ps) i = cnt ps i + (if uses p i then 1 else 0).
Proof. unfold cnt. cbn. destruct (uses p i); cbn; lia. Qed.

Lemma cnt_in ps p i : In p ps -> uses p i = true -> 1 <= cnt ps i.
Proof.
  intros Hin Hu. induction ps as [|a ps IH]; [destruct Hin|]. rewrite cnt_cons.
  destruct Hin as [->|Hin]; [rewrite Hu; pose proof (cnt_nonneg ps i); lia|].
  specialize (IH Hin). destruct (uses a i); lia.
Qed.

Lemma uses_spec p i : uses p i = true <-> In (Z.of_nat i) (pg_w2s p).
Proof. unfold uses. apply existsb_Z_in. Qed.

Lemma prog_ok_uses_lt dev p i : prog_ok dev p -> uses p i = true -> (i < length dev)%nat.
Proof.
  intros [_ H] Hu. apply uses_spec in Hu. apply In_nth_error in Hu as (j & Hj).
  destruct (H j _ Hj) as (i' & Heq & Hlt & _). lia.
Qed.

Lemma cnt_zero_beyond dev ps i : Forall (prog_ok dev) ps -> (length dev <= i)%nat -> cnt ps i = 0.
Proof.
  intros Hall Hi. induction Hall as [|p ps Hp _ IH]; [reflexivity|]. rewrite cnt_cons, IH.
  destruct (uses p i) eqn:E; [|lia]. apply (prog_ok_uses_lt _ _ _ Hp) in E. lia.
Qed.

(* ---- clear ---- *)
Lemma J_clear t : J (clear t).
Proof.
  constructor; cbn; auto; try lia.
  - intros i Hi. assert (i = 0%nat) by lia. subst. cbn. lia.
  - constructor.
Qed.

(* ---- free_program ---- *)
Lemma nth_decr_at_from k idx a i :
  (i < length a)%nat ->
  nth i (decr_at_from k idx a) 0 = if existsb (Nat.eqb (k + i)) idx then nth i a 0 - 1 else nth i a 0.
Proof.
  revert k i; induction a as [|x a IH]; intros k [|i] H; cbn in H; try lia.
  - cbn. replace (k + 0)%nat with k by lia. reflexivity.
  - cbn [decr_at_from nth]. rewrite IH by lia. replace (S k + i)%nat with (k + S i)%nat by lia. reflexivity.
Qed.

Lemma decr_at_from_length k idx a : length (decr_at_from k idx a) = length a.
Proof. revert k; induction a; intros; cbn; auto. Qed.

Lemma norm_all_nat n ps :
  (forall q, In q ps -> exists i, q = Z.of_nat i /\ (i < n)%nat) -> norm_all n ps = Some (map Z.to_nat ps).
Proof.
  induction ps as [|q ps IH]; intros H; cbn; [reflexivity|].
  destruct (H q (or_introl eq_refl)) as (i & -> & Hi).
  unfold norm_index. assert (E : (0 <=? Z.of_nat i) && (Z.of_nat i <? Z.of_nat n) = true) by lia. rewrite E.
  rewrite IH; [reflexivity|]. intros q' Hq'. apply H. right; exact Hq'.
Qed.

Lemma in_to_nat_nonneg i ps :
  (forall q, In q ps -> 0 <= q) -> (In i (map Z.to_nat ps) <-> In (Z.of_nat i) ps).
Proof.
  intros Hnn. rewrite in_map_iff. split.
  - intros (q & Hq & Hin). pose proof (Hnn q Hin). replace (Z.of_nat i) with q by lia. exact Hin.
  - intros Hin. exists (Z.of_nat i). split; [lia|exact Hin].
Qed.

Lemma cnt_filter_name ps p i :
  NoDup (map pg_name ps) -> In p ps ->
  cnt (filter (fun q => negb (Nat.eqb (pg_name q) (pg_name p))) ps) i = cnt ps i - (if uses p i then 1 else 0).
Proof.
  induction ps as [|a ps IH]; intros Hnd Hin; [destruct Hin|].
  cbn in Hnd. inversion Hnd as [|? ? Hnotin Hnd']; subst.
  destruct Hin as [->|Hin].
  - cbn [filter]. rewrite Nat.eqb_refl. cbn [negb]. rewrite cnt_cons.
    assert (Hf : filter (fun q => negb (Nat.eqb (pg_name q) (pg_name p))) ps = ps).
    { clear -Hnotin. induction ps as [|q ps IH]; cbn; [reflexivity|].
      destruct (Nat.eqb_spec (pg_name q) (pg_name p)) as [E|].
      - exfalso. apply Hnotin. left. exact E.
      - cbn. f_equal. apply IH. intros H. apply Hnotin. right. exact H. }
    rewrite Hf. lia.
  - cbn [filter]. destruct (Nat.eqb_spec (pg_name a) (pg_name p)) as [E|Hne].
    + exfalso. apply Hnotin. rewrite E. apply in_map. exact Hin.
    + cbn [negb]. rewrite !cnt_cons. rewrite IH by assumption. lia.
Qed.

Lemma NoDup_map_filter {A B} (f : A -> B) (g : A -> bool) l : NoDup (map f l) -> NoDup (map f (filter g l)).
Proof.
  induction l as [|a l IH]; cbn; intros H; [constructor|]. inversion H as [|? ? Hn Hd]; subst.
  destruct (g a); cbn; [constructor|]; auto.
  intros Hin. apply Hn. apply in_map_iff in Hin as (x & Hx & Hin). apply filter_In in Hin as [Hin _].
  rewrite <- Hx. apply in_map. exact Hin.
Qed.

Lemma J_free d name : J d -> J (fst (free_program d name)).
Proof.
  intros I. unfold free_program.
  destruct (find _ (dv_known d)) as [p|] eqn:Ef; [|exact I].
  apply find_some in Ef as [Hin Hname]. apply Nat.eqb_eq in Hname.
  pose proof (j_progs _ I) as Hall. rewrite Forall_forall in Hall. pose proof (Hall p Hin) as [Hlen Hslots].
  assert (Hnat : forall q, In q (pg_w2s p) -> exists i, q = Z.of_nat i /\ (i < length (dv_refs d))%nat).
  { intros q Hq. apply In_nth_error in Hq as (j & Hj). destruct (Hslots j q Hj) as (i & -> & Hi & _).
    exists i. split; [reflexivity|]. rewrite <- (j_len_d _ I). exact Hi. }
  rewrite (norm_all_nat _ _ Hnat). cbn [fst].
  constructor; cbn.
  - unfold decr_at. rewrite decr_at_from_length. apply I.
  - unfold decr_at. rewrite decr_at_from_length. apply I.
  - unfold decr_at. rewrite decr_at_from_length. apply I.
  - unfold decr_at. rewrite decr_at_from_length. apply I.
  - unfold decr_at. rewrite decr_at_from_length. intros i Hi.
    rewrite nth_decr_at_from by exact Hi. cbn.
    subst name. rewrite cnt_filter_name by (try apply I; exact Hin).
    pose proof (j_refs _ I i Hi) as Hr.
    assert (Hu : existsb (Nat.eqb i) (map Z.to_nat (pg_w2s p)) = uses p i).
    { apply eq_true_iff_eq. rewrite existsb_nat_in, uses_spec. apply in_to_nat_nonneg.
      intros q Hq. destruct (Hnat q Hq) as (k & -> & _). lia. }
    rewrite Hu. destruct (uses p i); lia.
  - apply Forall_forall. intros q Hq. apply filter_In in Hq as [Hq _]. apply Hall. exact Hq.
  - apply I.
  - apply NoDup_map_filter. apply I.
  - apply I.
Qed.

Lemma free_names d name : ~ In name (map pg_name (dv_known (fst (free_program d name)))).
Proof.
  unfold free_program. destruct (find _ (dv_known d)) as [p|] eqn:Ef.
  - assert (Hgoal : ~ In name (map pg_name (filter (fun p => negb (Nat.eqb (pg_name p) name)) (dv_known d)))).
    { intros Hin. apply in_map_iff in Hin as (q & Hq & Hin). apply filter_In in Hin as [_ Hne].
      rewrite Hq, Nat.eqb_refl in Hne. discriminate. }
    destruct (norm_all _ _); cbn; exact Hgoal.
  - cbn. intros Hin. apply in_map_iff in Hin as (q & Hq & Hin).
    eapply find_none in Ef; [|exact Hin]. rewrite Hq, Nat.eqb_refl in Ef. discriminate.
Qed.

(* ---- cleanup ---- *)
Lemma J_cleanup d : J d -> J (cleanup d).
Proof.
  intros I. unfold cleanup.
  destruct (first_free_spec (dv_refs d)) as (HF_le & _ & HF_hi).
  set (F := first_free_of (dv_refs d)) in *.
  assert (Hhi : forall i, (F <= i)%nat -> (i < length (dv_refs d))%nat -> nth i (dv_refs d) 0 <= 0).
  { intros i H1 H2. specialize (HF_hi i H1).
    rewrite (nth_map_lt (fun r => 0 <? r) _ _ _ 0) in HF_hi by exact H2. lia. }
  assert (HF1 : (1 <= F)%nat).
  { destruct (Nat.le_gt_cases 1 F) as [|Hlt]; auto. exfalso.
    pose proof (j_pos _ I). pose proof (j_refs _ I 0%nat ltac:(lia)) as Hr. cbn in Hr.
    pose proof (cnt_nonneg (dv_known d) 0). specialize (Hhi 0%nat ltac:(lia) ltac:(lia)). lia. }
  constructor; cbn.
  - rewrite !firstn_length. pose proof (j_len_h _ I). lia.
  - rewrite !firstn_length. pose proof (j_len_c _ I). lia.
  - rewrite !firstn_length. pose proof (j_len_d _ I). lia.
  - rewrite firstn_length. lia.
  - intros i Hi. rewrite firstn_length in Hi. rewrite nth_firstn' by lia. apply (j_refs _ I). lia.
  - pose proof (j_progs _ I) as Hall. rewrite Forall_forall in *. intros p Hp.
    destruct (Hall p Hp) as [Hlen Hslots]. split; [exact Hlen|].
    intros j q Hq. destruct (Hslots j q Hq) as (i & -> & Hi & Hc).
    assert (HiF : (i < F)%nat).
    { destruct (Nat.lt_ge_cases i F) as [|Hge]; auto. exfalso.
      rewrite (j_len_d _ I) in Hi. specialize (Hhi i Hge Hi).
      pose proof (j_refs _ I i Hi) as Hr.
      assert (1 <= cnt (dv_known d) i).
      { apply (cnt_in _ p); [exact Hp|]. apply uses_spec. eapply nth_error_In. exact Hq. }
      unfold idle in Hr. destruct (Nat.eqb i 0); lia. }
    exists i. split; [reflexivity|]. rewrite firstn_length. split; [lia|].
    rewrite nth_firstn' by exact HiF. exact Hc.
  - rewrite (j_belief _ I). reflexivity.
  - apply I.
  - rewrite nth_firstn' by lia. apply I.
Qed.

(* ---- upload: auxiliary lemmas ---- *)

(* U1: a[w2s[w2s >= 0]] += 1 *)
Lemma in_known_idx i w : In i (map Z.to_nat (filter (fun p => 0 <=? p) w)) <-> In (Z.of_nat i) w.
Proof.
  rewrite in_map_iff. split.
  - intros (q & Hq & Hin). apply filter_In in Hin as [Hin Hnn]. replace (Z.of_nat i) with q by lia. exact Hin.
  - intros Hin. exists (Z.of_nat i). split; [lia|]. apply filter_In. split; [exact Hin|lia].
Qed.

Lemma nth_incr_known refs w i :
  (i < length refs)%nat ->
  nth i (incr_at (map Z.to_nat (filter (fun p => 0 <=? p) w)) refs) 0 =
  nth i refs 0 + (if existsb (Z.eqb (Z.of_nat i)) w then 1 else 0).
Proof.
  intros Hi. unfold incr_at.
  rewrite (nth_indep _ 0 1) by (rewrite incr_at_from_length; exact Hi).
  rewrite nth_incr_at_from by exact Hi. cbn.
  assert (E : existsb (Nat.eqb i) (map Z.to_nat (filter (fun p => 0 <=? p) w)) = existsb (Z.eqb (Z.of_nat i)) w).
  { apply eq_true_iff_eq. rewrite existsb_nat_in, existsb_Z_in. apply in_known_idx. }
  rewrite E. destruct (existsb _ w); lia.
Qed.

(* U2: the sequential slot writes *)
Lemma do_writes_ok ws : forall d,
  length (dv_hashes d) = length (dv_refs d) -> length (dv_caps d) = length (dv_refs d) ->
  length (dv_dev d) = length (dv_refs d) ->
  NoDup (map fst ws) ->
  (forall s h l, In (s, (h, l)) ws -> (s < length (dv_refs d))%nat /\ nth s (dv_refs d) 0 <= 0 /\ l <= nth s (dv_caps d) 0) ->
  exists d', do_writes d ws = (d', None) /\
    dv_caps d' = dv_caps d /\ dv_total d' = dv_total d /\ dv_known d' = dv_known d /\
    length (dv_refs d') = length (dv_refs d) /\ length (dv_hashes d') = length (dv_refs d) /\
    length (dv_dev d') = length (dv_refs d) /\
    (forall i, ~ In i (map fst ws) ->
       nth i (dv_refs d') 0 = nth i (dv_refs d) 0 /\ nth i (dv_dev d') 0 = nth i (dv_dev d) 0) /\
    (forall s h l, In (s, (h, l)) ws -> nth s (dv_refs d') 0 = 1 /\ nth s (dv_dev d') 0 = h) /\
    (dv_hashes d = dv_dev d -> dv_hashes d' = dv_dev d').
Proof.
  induction ws as [|(s, (h, l)) ws IH]; intros d Lh Lc Ld Hnd Hpre.
  - exists d. cbn. repeat split; auto; intros; tauto.
  - cbn [map fst] in Hnd. inversion Hnd as [|? ? Hnotin Hnd']; subst.
    destruct (Hpre s h l (or_introl eq_refl)) as (Hs & Hr & Hl).
    cbn [do_writes]. unfold upload_segment.
    assert (E1 : negb (s <? length (dv_refs d))%nat = false) by lia. rewrite E1.
    assert (E2 : 0 <? nth s (dv_refs d) 0 = false) by lia. rewrite E2.
    assert (E3 : nth s (dv_caps d) 0 <? l = false) by lia. rewrite E3.
    set (d1 := {| dv_hashes := set_nth s h (dv_hashes d); dv_caps := dv_caps d; dv_refs := set_nth s 1 (dv_refs d);
                  dv_total := dv_total d; dv_known := dv_known d; dv_dev := set_nth s h (dv_dev d) |}).
    destruct (IH d1) as (d' & Hrun & Hc & Ht & Hk & Lr' & Lh' & Ld' & Hunch & Hwr & Hbel); cbn;
      try (rewrite !set_nth_length; assumption); auto.
    { intros s' h' l' Hin'. destruct (Hpre s' h' l' (or_intror Hin')) as (H1 & H2 & H3).
      assert (Hne : s <> s'). { intros ->. apply Hnotin. apply in_map_iff. exists (s', (h', l')). auto. }
      rewrite set_nth_length, nth_set_nth_neq by exact Hne. auto. }
    exists d'. cbn in *. rewrite set_nth_length in *.
    split; [exact Hrun|]. split; [exact Hc|]. split; [exact Ht|]. split; [exact Hk|]. split; [exact Lr'|].
    split; [exact Lh'|]. split; [exact Ld'|]. split; [|split].
    + intros i Hi. destruct (Hunch i) as [H1 H2]; [tauto|]. rewrite H1, H2.
      split; apply nth_set_nth_neq; intros ->; tauto.
    + intros s' h' l' [Heq|Hin'].
      * inversion Heq; subst. destruct (Hunch s' Hnotin) as [H1 H2]. rewrite H1, H2.
        split; apply nth_set_nth_eq; lia.
      * apply (Hwr s' h' l' Hin').
    + intros Hb. apply Hbel. rewrite Hb. reflexivity.
Qed.

(* U3: the writes are exactly the entries with to_insert > 0 *)
Lemma writes_of_spec ins segs s hl :
  In (s, hl) (writes_of ins segs) <->
  exists j q, nth_error ins j = Some q /\ 0 < q /\ s = Z.to_nat q /\ nth_error segs j = Some hl.
Proof.
  revert segs; induction ins as [|q ins IH]; intros [|x segs]; cbn.
  - split; [tauto|]. intros (j & q & H & _). destruct j; discriminate.
  - split; [tauto|]. intros (j & q & H & _). destruct j; discriminate.
  - split; [tauto|]. intros (j & q' & _ & _ & _ & H). destruct j; discriminate.
  - destruct (0 <? q) eqn:E.
    + cbn. rewrite IH. split.
      * intros [Heq|(j & q' & H1 & H2 & H3 & H4)].
        { inversion Heq; subst. exists 0%nat, q. cbn. repeat split; auto. lia. }
        { exists (S j), q'. cbn. auto. }
      * intros (j & q' & H1 & H2 & H3 & H4). destruct j as [|j]; cbn in *.
        { left. inversion H1; inversion H4; subst. reflexivity. }
        { right. exists j, q'. auto. }
    + rewrite IH. split.
      * intros (j & q' & H1 & H2 & H3 & H4). exists (S j), q'. cbn. auto.
      * intros (j & q' & H1 & H2 & H3 & H4). destruct j as [|j]; cbn in *.
        { inversion H1; subst. lia. }
        { exists j, q'. auto. }
Qed.

Lemma writes_of_nodup ins segs :
  (forall j1 j2 p, nth_error ins j1 = Some p -> nth_error ins j2 = Some p -> p <> -1 -> j1 = j2) ->
  NoDup (map fst (writes_of ins segs)).
Proof.
  revert segs; induction ins as [|q ins IH]; intros [|x segs] Hd; cbn; try constructor.
  assert (Hd' : forall j1 j2 p, nth_error ins j1 = Some p -> nth_error ins j2 = Some p -> p <> -1 -> j1 = j2).
  { intros j1 j2 p H1 H2 Hp. specialize (Hd (S j1) (S j2) p H1 H2 Hp). lia. }
  destruct (0 <? q) eqn:E; [|apply IH; exact Hd'].
  cbn. constructor; [|apply IH; exact Hd'].
  intros Hin. apply in_map_iff in Hin as ((s, hl) & Hs & Hin). cbn in Hs. subst s.
  apply writes_of_spec in Hin as (j & q' & H1 & H2 & H3 & _).
  assert (q' = q) by lia. subst q'. specialize (Hd 0%nat (S j) q eq_refl H1 ltac:(lia)). lia.
Qed.

(* U4 *)
Lemma merge_w2s_length w ins : length (merge_w2s w ins) = length w.
Proof. revert ins; induction w as [|p w IH]; intros [|q ins]; cbn; auto. Qed.

Lemma merge_w2s_nth w ins j p q :
  nth_error w j = Some p -> nth_error ins j = Some q ->
  nth_error (merge_w2s w ins) j = Some (if 0 <? q then q else p).
Proof.
  revert ins j; induction w as [|p' w IH]; intros [|q' ins] [|j] H1 H2; cbn in *; try discriminate.
  - inversion H1; inversion H2; subst. reflexivity.
  - apply IH; assumption.
Qed.

(* U5 *)
Lemma assign_mask_length w m v : length (assign_mask w m v) = length w.
Proof.
  revert m v; induction w as [|p w IH]; intros [|b m] v; cbn; auto.
  destruct b; [destruct v|]; cbn; rewrite IH; reflexivity.
Qed.

Lemma assign_mask_spec {T} (f : nat -> Z) (w : list Z) : forall (m : list bool) (segs : list T) a,
  length w = length m -> length m = length segs ->
  forall j x, nth_error (assign_mask w m (map f (seq a (length (mask m segs))))) j = Some x ->
  exists p b, nth_error w j = Some p /\ nth_error m j = Some b /\
    (if b then exists r, x = f (a + r)%nat /\ (r < length (mask m segs))%nat /\
                         nth_error (mask m segs) r = nth_error segs j
     else x = p).
Proof.
  induction w as [|p w IH]; intros [|b m] [|sg segs] a L1 L2 j x Hx; cbn in *; try discriminate.
  - destruct j; discriminate.
  - destruct b; cbn in Hx.
    + destruct j as [|j]; cbn in Hx.
      * inversion Hx; subst. exists p, true. repeat split; auto. exists 0%nat. cbn. repeat split; [f_equal; lia|lia].
      * destruct (IH m segs (S a) ltac:(lia) ltac:(lia) j x Hx) as (p' & b' & H1 & H2 & H3).
        exists p', b'. cbn. repeat split; auto. destruct b'; [|exact H3].
        destruct H3 as (r & Hr1 & Hr2 & Hr3). exists (S r). cbn. repeat split; [rewrite Hr1; f_equal; lia|lia|exact Hr3].
    + destruct j as [|j]; cbn in Hx.
      * inversion Hx; subst. exists x, false. auto.
      * destruct (IH m segs a ltac:(lia) ltac:(lia) j x Hx) as (p' & b' & H1 & H2 & H3).
        exists p', b'. cbn. auto.
Qed.

Lemma mask_all_false {A} (m : list bool) (l : list A) : existsb (fun b => b) m = false -> mask m l = [].
Proof.
  revert l; induction m as [|b m IH]; intros [|x l] H; cbn in *; auto.
  destruct b; cbn in H; [discriminate|]. apply IH. exact H.
Qed.

Lemma assign_mask_nil w m : assign_mask w m [] = w.
Proof. revert m; induction w as [|p w IH]; intros [|b m]; cbn; auto. destruct b; rewrite IH; reflexivity. Qed.

(* entries outside the mask are kept *)
Lemma assign_mask_keep w : forall m v j p,
  nth_error w j = Some p -> nth_error m j = Some false -> nth_error (assign_mask w m v) j = Some p.
Proof.
  induction w as [|p' w IH]; intros [|b m] v [|j] p Hw Hm; cbn in *; try discriminate.
  - inversion Hm; subst b. exact Hw.
  - destruct b; [destruct v|]; cbn; apply IH; assumption.
Qed.

(* every assigned value appears in the result *)
Lemma assign_mask_cover w : forall m (v : list Z),
  length w = length m -> length v = count_true m -> forall r, (r < length v)%nat -> In (nth r v 0) (assign_mask w m v).
Proof.
  induction w as [|p w IH]; intros [|b m] v L1 L2 r Hr; unfold count_true in *; cbn in *; try lia.
  destruct b; cbn in L2.
  - destruct v as [|x v]; cbn in *; [lia|]. destruct r as [|r]; [left; reflexivity|right].
    apply IH; unfold count_true; lia.
  - right. apply IH; unfold count_true; lia.
Qed.

Lemma nth_error_lt_some {A} (l : list A) j : (j < length l)%nat -> exists x, nth_error l j = Some x.
Proof. intros H. destruct (nth_error l j) eqn:E; eauto. apply nth_error_None in E. lia. Qed.

Lemma nth_of_nth_error_map {A} (f : A -> Z) l j x : nth_error l j = Some x -> nth j (map f l) 0 = f x.
Proof.
  intros H. apply (map_nth_error f) in H. apply (nth_error_nth' _ _ 0) in H. tauto.
Qed.

(* ---- upload ---- *)
Definition upload_core (place : place_fun) (d1 : driver) (name : nat) (segs : list (Z * Z)) : driver * option derror :=
  match place {| m_hashes := dv_hashes d1; m_refs := dv_refs d1; m_caps := dv_caps d1; m_total := dv_total d1 |}
              (map fst segs) (map snd segs) with
  | Err e => (d1, Some (Refused e))
  | Ok dec =>
      let d2 := with_refs d1 (incr_at (map Z.to_nat (filter (fun p => 0 <=? p) (d_w2s dec))) (dv_refs d1)) in
      match do_writes d2 (writes_of (d_insert dec) segs) with
      | (d3, Some e) => (d3, Some e)
      | (d3, None) =>
          let w3 := merge_w2s (d_w2s dec) (d_insert dec) in
          let '(d4, w4) := if existsb (fun b => b) (d_amend dec)
                           then (let '(d4, idxs) := amend (cleanup d3) (mask (d_amend dec) segs) in
                                 (d4, assign_mask w3 (d_amend dec) idxs))
                           else (d3, w3) in
          (with_known d4 ({| pg_name := name; pg_w2s := w4; pg_segs := map fst segs |} :: dv_known d4), None)
      end
  end.

Lemma nth_firstn_app1 {A} F (l m : list A) i d : (i < F)%nat -> (F <= length l)%nat -> nth i (firstn F l ++ m) d = nth i l d.
Proof. intros H1 H2. rewrite app_nth1 by (rewrite firstn_length; lia). apply nth_firstn'. exact H1. Qed.

Lemma nth_firstn_app2 {A} F (l m : list A) i d :
  (F <= i)%nat -> (F <= length l)%nat -> nth i (firstn F l ++ m) d = nth (i - F) m d.
Proof.
  intros H1 H2. rewrite app_nth2 by (rewrite firstn_length; lia). rewrite firstn_length.
  replace (Nat.min F (length l)) with F by lia. reflexivity.
Qed.

Lemma firstn_app_length {A} F (l m : list A) : (F <= length l)%nat -> length (firstn F l ++ m) = (F + length m)%nat.
Proof. intros H. rewrite app_length, firstn_length. lia. Qed.

Lemma cnt_zero_unused ps i : (forall p, In p ps -> uses p i = false) -> cnt ps i = 0.
Proof.
  induction ps as [|p ps IH]; intros H; [reflexivity|]. rewrite cnt_cons, IH by (intros q Hq; apply H; right; exact Hq).
  rewrite (H p (or_introl eq_refl)). reflexivity.
Qed.

Lemma upload_with_unfold place d name segs force :
  upload_with place d name segs force =
  match (if existsb (fun p => Nat.eqb (pg_name p) name) (dv_known d)
         then (if force then free_program d name else (d, Some AlreadyKnown))
         else (d, None)) with
  | (d1, Some e) => (d1, Some e)
  | (d1, None) => upload_core place d1 name segs
  end.
Proof. reflexivity. Qed.

Section history.
  Variable place : place_fun.
  Hypothesis place_ok : forall mem nh nl d,
    Forall (fun r => 0 <= r) (m_refs mem) -> place mem nh nl = Ok d -> decision_ok mem nh nl d.

  Lemma J_refs_nonneg d : J d -> Forall (fun r => 0 <= r) (dv_refs d).
  Proof.
    intros I. apply Forall_forall. intros r Hr. apply (In_nth _ _ 0) in Hr as (i & Hi & <-).
    pose proof (j_refs _ I i Hi). pose proof (cnt_nonneg (dv_known d) i). unfold idle in *.
    destruct (Nat.eqb i 0); lia.
  Qed.

  Lemma J_upload_core d1 name segs :
    J d1 -> ~ In name (map pg_name (dv_known d1)) -> J (fst (upload_core place d1 name segs)).
  Proof.
    intros I Hname. unfold upload_core.
    set (mem := {| m_hashes := dv_hashes d1; m_refs := dv_refs d1; m_caps := dv_caps d1; m_total := dv_total d1 |}).
    destruct (place mem (map fst segs) (map snd segs)) as [dec|e] eqn:Ep; [|exact I].
    pose proof (place_ok mem _ _ _ (J_refs_nonneg d1 I) Ep) as (C1 & [C2a C2b] & _ & (C4a & C4b & C4c & C4d)).
    unfold clause_reuse in C1. cbn [m_hashes m_refs m_caps mem] in C1, C2a.
    rewrite map_length in C4a, C4b, C4c.
    set (n := length (dv_refs d1)).
    assert (Hn1 : (1 <= n)%nat) by apply I.
    assert (Hr0 : 1 <= nth 0%nat (dv_refs d1) 0).
    { pose proof (j_refs _ I 0%nat Hn1) as H. pose proof (cnt_nonneg (dv_known d1) 0). cbn in H. lia. }
    set (d2 := with_refs d1 _).
    set (ws := writes_of (d_insert dec) segs).
    assert (Ld2 : length (dv_refs d2) = n) by (cbn; apply incr_at_length).
    (* every write goes to an unreferenced, unreused, large enough slot other than slot 0 *)
    assert (Hw : forall s h l, In (s, (h, l)) ws ->
              (s < n)%nat /\ nth s (dv_refs d2) 0 <= 0 /\ l <= nth s (dv_caps d2) 0 /\
              nth s (dv_refs d1) 0 = 0 /\ ~ In (Z.of_nat s) (d_w2s dec)).
    { intros s h l Hin. apply writes_of_spec in Hin as (j & q & Hq & Hpos & Hs & Hseg).
      destruct (C2a j q Hq ltac:(lia)) as (i & c & l' & -> & Hri & Hnr & Hci & Hli & Hle).
      rewrite Nat2Z.id in Hs. subst s.
      apply (nth_error_nth' _ _ 0) in Hri as [Hi Hri]. apply (nth_error_nth' _ _ 0) in Hci as [_ Hci].
      assert (l' = l). { apply (map_nth_error snd) in Hseg. rewrite Hseg in Hli. inversion Hli. reflexivity. }
      subst l'. split; [exact Hi|]. cbn [d2 with_refs dv_refs dv_caps].
      rewrite nth_incr_known by exact Hi.
      assert (Hex : existsb (Z.eqb (Z.of_nat i)) (d_w2s dec) = false).
      { destruct (existsb _ _) eqn:E; [|reflexivity]. apply existsb_Z_in in E. exfalso. apply Hnr. exact E. }
      rewrite Hex. repeat split; try lia. exact Hnr. }
    destruct (do_writes_ok ws d2) as (d3 & Hrun & Hc3 & Ht3 & Hk3 & Lr3 & Lh3 & Ld3 & Hunch & Hwr & Hbel).
    { cbn. rewrite incr_at_length. apply I. }
    { cbn. rewrite incr_at_length. apply I. }
    { cbn. rewrite incr_at_length. apply I. }
    { apply writes_of_nodup. exact C2b. }
    { intros s h l Hin. destruct (Hw s h l Hin) as (H1 & H2 & H3 & _). rewrite Ld2. auto. }
    rewrite Hrun. rewrite Ld2 in Lr3, Lh3, Ld3.
    assert (Hbel3 : dv_hashes d3 = dv_dev d3) by (apply Hbel; cbn; apply I).
    set (w3 := merge_w2s (d_w2s dec) (d_insert dec)).
    set (segsA := mask (d_amend dec) segs).
    (* F = number of slots that survive the cleanup() before _amend_segments (all of them when nothing is appended) *)
    set (F := if existsb (fun b => b) (d_amend dec) then first_free_of (dv_refs d3) else n).
    set (fidx := fun k : nat => Z.of_nat (F + k)).
    set (w4 := assign_mask w3 (d_amend dec) (map fidx (seq 0 (length segsA)))).
    assert (Hc3n : length (dv_caps d3) = n).
    { rewrite Hc3. cbn [d2 with_refs dv_caps]. apply I. }
    assert (HF_le : (F <= n)%nat).
    { unfold F. destruct (existsb _ _); [|lia].
      destruct (first_free_spec (dv_refs d3)) as (H & _). lia. }
    assert (HF_ref : forall i, (i < n)%nat -> 1 <= nth i (dv_refs d3) 0 -> (i < F)%nat).
    { intros i Hi Hr. unfold F. destruct (existsb _ _); [|exact Hi].
      destruct (first_free_spec (dv_refs d3)) as (_ & _ & Hhi).
      destruct (Nat.lt_ge_cases i (first_free_of (dv_refs d3))) as [|Hge]; [assumption|exfalso].
      specialize (Hhi i Hge). rewrite (nth_map_lt (fun r => 0 <? r) _ _ _ 0) in Hhi by lia. lia. }
    (* a slot that was referenced before the upload is not written and stays referenced *)
    assert (Hmono : forall i, (i < n)%nat -> 1 <= nth i (dv_refs d1) 0 ->
                              ~ In i (map fst ws) /\ 1 <= nth i (dv_refs d3) 0).
    { intros i Hi Hr.
      assert (Hni : ~ In i (map fst ws)).
      { intros Hin. apply in_map_iff in Hin as ((s, (h, l)) & Hs & Hin). cbn in Hs. subst s.
        destruct (Hw i h l Hin) as (_ & _ & _ & Hz & _). lia. }
      split; [exact Hni|]. destruct (Hunch i Hni) as [H1 _]. rewrite H1. cbn [d2 with_refs dv_refs].
      rewrite nth_incr_known by exact Hi. destruct (existsb _ (d_w2s dec)); lia. }
    assert (HF1 : (1 <= F)%nat).
    { assert (0 < F)%nat; [|lia]. apply HF_ref; [lia|]. apply Hmono; [lia|exact Hr0]. }
    assert (Hif : (if existsb (fun b => b) (d_amend dec)
                   then (let '(d4, idxs) := amend (cleanup d3) segsA in (d4, assign_mask w3 (d_amend dec) idxs))
                   else (d3, w3)) =
                  ({| dv_hashes := firstn F (dv_hashes d3) ++ map fst segsA;
                      dv_caps := firstn F (dv_caps d3) ++ map snd segsA;
                      dv_refs := firstn F (dv_refs d3) ++ map (fun _ => 1) segsA; dv_total := dv_total d3;
                      dv_known := dv_known d3; dv_dev := firstn F (dv_dev d3) ++ map fst segsA |}, w4)).
    { unfold F, w4, fidx. destruct (existsb (fun b => b) (d_amend dec)) eqn:Eany.
      - unfold amend, cleanup. cbn [dv_hashes dv_caps dv_refs dv_total dv_known dv_dev].
        rewrite firstn_length.
        replace (Nat.min (first_free_of (dv_refs d3)) (length (dv_caps d3))) with (first_free_of (dv_refs d3)).
        2:{ destruct (first_free_spec (dv_refs d3)) as (H & _). lia. }
        reflexivity.
      - unfold segsA. rewrite (mask_all_false _ _ Eany). cbn [map length seq]. rewrite assign_mask_nil, !app_nil_r.
        rewrite <- Lh3 at 1. rewrite <- Hc3n at 1. rewrite <- Lr3 at 1. rewrite <- Ld3 at 1.
        rewrite !firstn_all. destruct d3; reflexivity. }
    rewrite Hif. clear Hif. cbn [fst with_known dv_known].
    (* helper facts about the entries of the new program *)
    assert (Hm_w3 : length w3 = length (d_amend dec)) by (unfold w3; rewrite merge_w2s_length; lia).
    assert (Hdev1 : length (dv_dev d1) = n) by apply I.
    assert (Hold : forall i, (i < n)%nat -> ~ In i (map fst ws) -> nth i (dv_dev d3) 0 = nth i (dv_dev d1) 0).
    { intros i Hi Hni. destruct (Hunch i Hni) as [_ H]. exact H. }
    assert (Hrefs1_nonneg : forall i, 0 <= nth i (dv_refs d1) 0).
    { intros i. destruct (Nat.lt_ge_cases i n) as [Hi|Hi]; [|rewrite nth_overflow by (unfold n in Hi; lia); lia].
      pose proof (j_refs _ I i Hi). pose proof (cnt_nonneg (dv_known d1) i). unfold idle in *.
      destruct (Nat.eqb i 0); lia. }
    assert (Hentry : forall j x, nth_error w4 j = Some x ->
              exists i, x = Z.of_nat i /\ (i < F + length segsA)%nat /\
                        nth i (firstn F (dv_dev d3) ++ map fst segsA) 0 = nth j (map fst segs) 0 /\
                        ((i < F)%nat -> ~ In i (map fst ws) -> In (Z.of_nat i) (d_w2s dec))).
    { intros j x Hx. unfold w4 in Hx.
      destruct (assign_mask_spec fidx w3 (d_amend dec) segs 0 Hm_w3 ltac:(lia) j x Hx) as (p & b & Hp & Hb & Hcase).
      fold segsA in Hcase.
      assert (Hj : (j < length segs)%nat).
      { assert (Hne : nth_error (d_amend dec) j <> None) by congruence. apply nth_error_Some in Hne. lia. }
      destruct (nth_error_lt_some (d_w2s dec) j ltac:(lia)) as (p0 & Hp0).
      destruct (nth_error_lt_some (d_insert dec) j ltac:(lia)) as (q & Hq).
      destruct (nth_error_lt_some segs j Hj) as ((h, l) & Hhl).
      pose proof (C4d j p0 b q Hp0 Hb Hq) as Hone.
      unfold w3 in Hp. rewrite (merge_w2s_nth _ _ _ _ _ Hp0 Hq) in Hp. inversion Hp; subst p; clear Hp.
      rewrite (nth_of_nth_error_map fst _ _ _ Hhl). cbn [fst].
      destruct b.
      - destruct Hcase as (r & -> & Hr & Hnr). unfold fidx. exists (F + r)%nat. cbn [Nat.add].
        split; [reflexivity|]. split; [lia|]. split; [|intros; lia].
        rewrite nth_firstn_app2 by lia. replace (F + r - F)%nat with r by lia.
        rewrite Hhl in Hnr. apply (nth_of_nth_error_map fst) in Hnr. exact Hnr.
      - subst x. unfold exactly_one in Hone.
        assert (Hc : (p0 <> -1 /\ q = -1) \/ (p0 = -1 /\ q <> -1)).
        { destruct Hone as [(H1 & H2 & _)|[(H1 & H2 & _)|(_ & _ & H3)]]; [left|right|discriminate]; split; auto; lia. }
        destruct Hc as [[Hp0ne ->]|[-> Hqne]].
        + (* reused *)
          cbn. destruct (C1 j p0 Hp0 Hp0ne) as (i & h' & -> & Hhi & Hnh).
          apply (map_nth_error fst) in Hhl. rewrite Hhl in Hnh. inversion Hnh; subst h'.
          apply (nth_error_nth' _ _ 0) in Hhi as [Hi Hhi]. rewrite (j_len_h _ I) in Hi. fold n in Hi.
          assert (Hni : ~ In i (map fst ws)).
          { intros Hin. apply in_map_iff in Hin as ((s, (h2, l2)) & Hs & Hin). cbn in Hs. subst s.
            destruct (Hw i h2 l2 Hin) as (_ & _ & _ & _ & Hnot). apply Hnot. eapply nth_error_In. exact Hp0. }
          assert (HiF : (i < F)%nat).
          { apply HF_ref; [exact Hi|]. destruct (Hunch i Hni) as [H1 _]. rewrite H1. cbn [d2 with_refs dv_refs].
            rewrite nth_incr_known by exact Hi.
            assert (E : existsb (Z.eqb (Z.of_nat i)) (d_w2s dec) = true).
            { apply existsb_Z_in. eapply nth_error_In. exact Hp0. }
            rewrite E. pose proof (Hrefs1_nonneg i). lia. }
          exists i. split; [reflexivity|]. split; [lia|].
          split; [|intros _ _; eapply nth_error_In; exact Hp0].
          rewrite nth_firstn_app1 by lia. rewrite Hold; [rewrite <- (j_belief _ I); exact Hhi|exact Hi|exact Hni].
        + (* inserted *)
          destruct (C2a j q Hq Hqne) as (i & c & l' & -> & Hri & _).
          apply (nth_error_nth' _ _ 0) in Hri as [Hi Hri]. fold n in Hi.
          assert (Hi0 : i <> 0%nat) by (intros ->; lia).
          assert (Hpos : 0 <? Z.of_nat i = true) by lia. rewrite Hpos.
          assert (Hin : In (i, (h, l)) ws).
          { apply writes_of_spec. exists j, (Z.of_nat i). repeat split; auto; lia. }
          assert (HiF : (i < F)%nat).
          { apply HF_ref; [exact Hi|]. destruct (Hwr i h l Hin) as [H1 _]. lia. }
          exists i. split; [reflexivity|]. split; [lia|].
          split; [|intros _ Hni; exfalso; apply Hni; apply in_map_iff; exists (i, (h, l)); auto].
          rewrite nth_firstn_app1 by lia. apply (Hwr i h l Hin). }
    (* round 4 (equality of the counts): the new program really uses every slot it was counted for *)
    assert (Hkeep : forall j p, nth_error w3 j = Some p -> nth_error (d_amend dec) j = Some false ->
                                nth_error w4 j = Some p).
    { intros j p Hp Hb. unfold w4. apply assign_mask_keep; assumption. }
    assert (Hcover_w : forall i, In (Z.of_nat i) (d_w2s dec) -> In (Z.of_nat i) w4).
    { intros i Hin. apply In_nth_error in Hin as (j & Hp0).
      assert (Hj : (j < length segs)%nat).
      { assert (Hne : nth_error (d_w2s dec) j <> None) by congruence. apply nth_error_Some in Hne. lia. }
      destruct (nth_error_lt_some (d_amend dec) j ltac:(lia)) as (b & Hb).
      destruct (nth_error_lt_some (d_insert dec) j ltac:(lia)) as (q & Hq).
      pose proof (C4d j _ b q Hp0 Hb Hq) as Hone. unfold exactly_one in Hone.
      assert (Hbq : b = false /\ q = -1).
      { destruct Hone as [(_ & H2 & H3)|[(H1 & _)|(H1 & _)]]; [|exfalso; apply H1; lia|exfalso; apply H1; lia].
        split; [destruct b; [exfalso; apply H3; reflexivity|reflexivity]|lia]. }
      destruct Hbq as [-> ->].
      eapply nth_error_In. apply Hkeep; [|exact Hb]. unfold w3.
      rewrite (merge_w2s_nth _ _ _ _ _ Hp0 Hq). reflexivity. }
    assert (Hcover_ins : forall s h l, In (s, (h, l)) ws -> In (Z.of_nat s) w4).
    { intros s h l Hin. apply writes_of_spec in Hin as (j & q & Hq & Hpos & Hs & Hseg).
      assert (Hj : (j < length segs)%nat).
      { assert (Hne : nth_error segs j <> None) by congruence. apply nth_error_Some in Hne. exact Hne. }
      destruct (nth_error_lt_some (d_amend dec) j ltac:(lia)) as (b & Hb).
      destruct (nth_error_lt_some (d_w2s dec) j ltac:(lia)) as (p0 & Hp0).
      pose proof (C4d j p0 b q Hp0 Hb Hq) as Hone. unfold exactly_one in Hone.
      assert (Hbf : b = false).
      { destruct Hone as [(_ & H2 & _)|[(_ & _ & H3)|(_ & H2 & _)]]; [exfalso; apply H2; lia| |exfalso; apply H2; lia].
        destruct b; [exfalso; apply H3; reflexivity|reflexivity]. }
      subst b. eapply nth_error_In. apply Hkeep; [|exact Hb]. unfold w3.
      rewrite (merge_w2s_nth _ _ _ _ _ Hp0 Hq). assert (E : 0 <? q = true) by lia. rewrite E. f_equal. lia. }
    assert (Hcover_am : forall r, (r < length segsA)%nat -> In (fidx r) w4).
    { intros r Hr. unfold w4.
      replace (fidx r) with (nth r (map fidx (seq 0 (length segsA))) 0).
      2:{ rewrite (nth_map_lt fidx _ _ _ 0%nat) by (rewrite seq_length; exact Hr). rewrite seq_nth by exact Hr. reflexivity. }
      apply assign_mask_cover; [exact Hm_w3| |rewrite map_length, seq_length; exact Hr].
      rewrite map_length, seq_length. unfold segsA. apply mask_length. lia. }
    (* no old program uses a slot that the cleanup drops *)
    assert (Hold_lt : forall p i, In p (dv_known d1) -> uses p i = true -> (i < F)%nat /\ ~ In i (map fst ws)).
    { intros p i Hp Hu.
      pose proof (j_progs _ I) as Hall. rewrite Forall_forall in Hall.
      pose proof (prog_ok_uses_lt _ _ _ (Hall p Hp) Hu) as Hi. rewrite Hdev1 in Hi.
      pose proof (cnt_in _ p i Hp Hu) as Hc. pose proof (j_refs _ I i Hi) as Hr.
      assert (H1 : 1 <= nth i (dv_refs d1) 0) by (unfold idle in Hr; destruct (Nat.eqb i 0); lia).
      destruct (Hmono i Hi H1) as [Hni H3]. split; [apply HF_ref; assumption|exact Hni]. }
    constructor; cbn.
    - rewrite !firstn_app_length, !map_length by lia. reflexivity.
    - rewrite !firstn_app_length, !map_length by lia. reflexivity.
    - rewrite !firstn_app_length, !map_length by lia. reflexivity.
    - rewrite firstn_app_length by lia. lia.
    - (* reference counts EQUAL the number of programs using a slot (+ idle) *)
      rewrite firstn_app_length, map_length by lia. intros i Hi. rewrite cnt_cons. rewrite Hk3.
      cbn [d2 with_refs dv_known].
      set (newp := {| pg_name := name; pg_w2s := w4; pg_segs := map fst segs |}).
      destruct (Nat.lt_ge_cases i F) as [Hlt|Hge].
      + rewrite nth_firstn_app1 by lia.
        assert (Hltn : (i < n)%nat) by lia.
        destruct (in_dec Nat.eq_dec i (map fst ws)) as [Hin|Hnin].
        * apply in_map_iff in Hin as ((s, (h, l)) & Hs & Hin). cbn in Hs. subst s.
          destruct (Hwr i h l Hin) as [H1 _]. rewrite H1.
          destruct (Hw i h l Hin) as (_ & _ & _ & Hz & _).
          pose proof (j_refs _ I i Hltn) as Hr. pose proof (cnt_nonneg (dv_known d1) i).
          assert (0 <= idle i) by (unfold idle; destruct (Nat.eqb i 0); lia).
          assert (Hu : uses newp i = true) by (apply uses_spec; cbn [pg_w2s newp]; apply (Hcover_ins i h l Hin)).
          rewrite Hu. lia.
        * destruct (Hunch i Hnin) as [H1 _]. rewrite H1. cbn [d2 with_refs dv_refs].
          rewrite nth_incr_known by exact Hltn. pose proof (j_refs _ I i Hltn) as Hr.
          destruct (uses newp i) eqn:Eu.
          { apply uses_spec in Eu. cbn [pg_w2s newp] in Eu. apply In_nth_error in Eu as (j & Hj).
            destruct (Hentry j _ Hj) as (i' & Heq & _ & _ & Himp). assert (i' = i) by lia. subst i'.
            specialize (Himp Hlt Hnin). apply existsb_Z_in in Himp. rewrite Himp. lia. }
          { destruct (existsb (Z.eqb (Z.of_nat i)) (d_w2s dec)) eqn:Ew; [|lia].
            apply existsb_Z_in in Ew. apply Hcover_w in Ew.
            assert (uses newp i = true) by (apply uses_spec; exact Ew). congruence. }
      + rewrite nth_firstn_app2 by lia.
        assert (Hone : nth (i - F) (map (fun _ : Z * Z => 1) segsA) 0 = 1).
        { rewrite (nth_map_lt (fun _ : Z * Z => 1) _ _ _ (0, 0)) by lia. reflexivity. }
        rewrite Hone. rewrite cnt_zero_unused.
        2:{ intros p Hp. destruct (uses p i) eqn:Eu; [|reflexivity]. destruct (Hold_lt p i Hp Eu). lia. }
        assert (idle i = 0). { unfold idle. destruct (Nat.eqb_spec i 0); [lia|reflexivity]. }
        assert (Hu : uses newp i = true).
        { apply uses_spec. cbn [pg_w2s newp]. replace (Z.of_nat i) with (fidx (i - F)%nat) by (unfold fidx; lia).
          apply Hcover_am. lia. }
        rewrite Hu. lia.
    - (* every program's slots hold its data *)
      rewrite Hk3. cbn [d2 with_refs dv_known]. constructor.
      + split; cbn [pg_w2s pg_segs].
        * unfold w4. rewrite assign_mask_length, map_length. lia.
        * intros j x Hx. destruct (Hentry j x Hx) as (i & Hi1 & Hi2 & Hi3 & _).
          exists i. split; [exact Hi1|]. split; [rewrite firstn_app_length, map_length by lia; lia|exact Hi3].
      + pose proof (j_progs _ I) as Hall. rewrite Forall_forall in *. intros p Hp.
        destruct (Hall p Hp) as [Hlen Hslots]. split; [exact Hlen|].
        intros j q Hq. destruct (Hslots j q Hq) as (i & -> & Hi & Hcont).
        assert (Hu : uses p i = true) by (apply uses_spec; eapply nth_error_In; exact Hq).
        destruct (Hold_lt p i Hp Hu) as [HiF Hni].
        exists i. split; [reflexivity|]. split; [rewrite firstn_app_length by lia; lia|].
        rewrite nth_firstn_app1 by lia. rewrite Hold; [exact Hcont|lia|exact Hni].
    - rewrite Hbel3. reflexivity.
    - rewrite Hk3. cbn [d2 with_refs dv_known]. constructor; [exact Hname|apply I].
    - (* slot 0 is referenced (idle sequence), hence not written and not dropped *)
      destruct (Hmono 0%nat ltac:(lia) Hr0) as [Hni0 _].
      rewrite nth_firstn_app1 by lia. rewrite Hold by (auto; lia). apply I.
  Qed.
End history.

Section history_run.
  Variable place : place_fun.
  Hypothesis place_ok : forall mem nh nl d,
    Forall (fun r => 0 <= r) (m_refs mem) -> place mem nh nl = Ok d -> decision_ok mem nh nl d.

  Lemma J_upload d name segs force : J d -> J (fst (upload_with place d name segs force)).
  Proof.
    intros I. rewrite upload_with_unfold.
    destruct (existsb (fun p => Nat.eqb (pg_name p) name) (dv_known d)) eqn:Eex.
    - destruct force; [|exact I].
      pose proof (J_free d name I) as I1. pose proof (free_names d name) as Hn.
      destruct (free_program d name) as [d1 [e|]]; cbn [fst] in *; [exact I1|].
      apply J_upload_core; assumption.
    - apply J_upload_core; [exact place_ok|exact I|].
      intros Hin. apply in_map_iff in Hin as (p & Hp & Hin).
      assert (existsb (fun p => Nat.eqb (pg_name p) name) (dv_known d) = true).
      { apply existsb_exists. exists p. split; [exact Hin|]. rewrite Hp. apply Nat.eqb_refl. }
      congruence.
  Qed.

  Lemma J_step d o : J d -> J (fst (step_with place d o)).
  Proof.
    intros I. destruct o as [name segs force|name|name| |]; cbn [step_with].
    - apply J_upload. exact I.
    - apply J_free. exact I.
    - pose proof (J_free d name I) as I1. destruct (free_program d name) as [d1 [e|]]; cbn [fst] in *; [exact I1|].
      apply J_cleanup. exact I1.
    - apply J_cleanup. exact I.
    - apply J_clear.
  Qed.

  Lemma J_run ops : forall d, J d -> J (run_with place d ops).
  Proof. induction ops as [|o ops IH]; intros d I; cbn; [exact I|]. apply IH. apply J_step. exact I. Qed.
End history_run.

(* the history theorem for the modelled driver: it needs the placement function only through the four clauses *)
Theorem history_slots_hold_data_gen (place : place_fun) :
  (forall mem nh nl d, Forall (fun r => 0 <= r) (m_refs mem) -> place mem nh nl = Ok d -> decision_ok mem nh nl d) ->
  forall total ops p j q,
  let d := run_with place (clear total) ops in
  In p (dv_known d) -> nth_error (pg_w2s p) j = Some q ->
  exists i, q = Z.of_nat i /\ (i < length (dv_dev d))%nat /\
            nth i (dv_dev d) 0 = nth j (pg_segs p) 0 /\      (* the slot holds the waveform's own data *)
            1 <= nth i (dv_refs d) 0.                          (* and is still marked as referenced *)
Proof.
  intros place_ok total ops p j q d Hp Hq.
  assert (I : J d) by (apply (J_run place place_ok); apply J_clear).
  pose proof (j_progs _ I) as Hall. rewrite Forall_forall in Hall.
  destruct (Hall p Hp) as [_ Hslots]. destruct (Hslots j q Hq) as (i & -> & Hi & Hc).
  exists i. repeat split; auto.
  rewrite (j_len_d _ I) in Hi. pose proof (j_refs _ I i Hi) as Hr.
  assert (1 <= cnt (dv_known d) i).
  { apply (cnt_in _ p); [exact Hp|]. apply uses_spec. eapply nth_error_In. exact Hq. }
  unfold idle in Hr. destruct (Nat.eqb i 0); lia.
Qed.

(* with the model of the real decision function plugged in *)
Theorem history_slots_hold_data total ops p j q :
  let d := run (clear total) ops in
  In p (dv_known d) -> nth_error (pg_w2s p) j = Some q ->
  exists i, q = Z.of_nat i /\ (i < length (dv_dev d))%nat /\
            nth i (dv_dev d) 0 = nth j (pg_segs p) 0 /\ 1 <= nth i (dv_refs d) 0.
Proof. exact (history_slots_hold_data_gen find_place find_place_decision_ok total ops p j q). Qed.

(* bookkeeping facts that hold after every history: arrays of equal length, counters never negative, the driver's
   belief about slot contents equals the device content, slot 0 (idle segment) is never released *)
Theorem history_bookkeeping total ops :
  let d := run (clear total) ops in
  length (dv_hashes d) = length (dv_refs d) /\ length (dv_caps d) = length (dv_refs d) /\
  Forall (fun r => 0 <= r) (dv_refs d) /\ dv_hashes d = dv_dev d /\ 1 <= nth 0%nat (dv_refs d) 0 /\
  NoDup (map pg_name (dv_known d)).
Proof.
  intros d. assert (I : J d) by (apply (J_run find_place find_place_decision_ok); apply J_clear).
  split; [apply I|]. split; [apply I|]. split; [apply (J_refs_nonneg d I)|]. split; [apply I|]. split; [|apply I].
  pose proof (j_refs _ I 0%nat (j_pos _ I)) as H. pose proof (cnt_nonneg (dv_known d) 0). cbn in H. lia.
Qed.

(* reference counts: after every history the count of slot i is at least the number of known programs that play from
   slot i, plus one for slot 0 (idle sequence).  This is the argument behind "slot 0 is never released": programs whose
   segment is bit-identical to the idle waveform re-use slot 0, are counted on upload and un-counted on removal. *)
Theorem history_refcounts_gen (place : place_fun) :
  (forall mem nh nl d, Forall (fun r => 0 <= r) (m_refs mem) -> place mem nh nl = Ok d -> decision_ok mem nh nl d) ->
  forall total ops i,
  let d := run_with place (clear total) ops in
  (i < length (dv_refs d))%nat ->
  Z.of_nat (length (filter (fun p => existsb (Z.eqb (Z.of_nat i)) (pg_w2s p)) (dv_known d)))
  + (if Nat.eqb i 0 then 1 else 0) <= nth i (dv_refs d) 0.
Proof.
  intros place_ok total ops i d Hi.
  assert (I : J d) by (apply (J_run place place_ok); apply J_clear).
  pose proof (j_refs _ I i Hi) as H. unfold cnt, uses, idle in H. lia.
Qed.

(* round 4: ... with equality.  No count is leaked: a slot whose count is positive is played by a known program (or is
   the idle slot), so cleanup() / the placement never treat a dead slot as reserved for ever. *)
Theorem history_refcounts_exact_gen (place : place_fun) :
  (forall mem nh nl d, Forall (fun r => 0 <= r) (m_refs mem) -> place mem nh nl = Ok d -> decision_ok mem nh nl d) ->
  forall total ops i,
  let d := run_with place (clear total) ops in
  (i < length (dv_refs d))%nat ->
  nth i (dv_refs d) 0 =
  Z.of_nat (length (filter (fun p => existsb (Z.eqb (Z.of_nat i)) (pg_w2s p)) (dv_known d)))
  + (if Nat.eqb i 0 then 1 else 0).
Proof.
  intros place_ok total ops i d Hi.
  assert (I : J d) by (apply (J_run place place_ok); apply J_clear).
  pose proof (j_refs _ I i Hi) as H. unfold cnt, uses, idle in H. lia.
Qed.

Theorem history_refcounts_exact total ops i :
  let d := run (clear total) ops in
  (i < length (dv_refs d))%nat ->
  nth i (dv_refs d) 0 =
  Z.of_nat (length (filter (fun p => existsb (Z.eqb (Z.of_nat i)) (pg_w2s p)) (dv_known d)))
  + (if Nat.eqb i 0 then 1 else 0).
Proof. exact (history_refcounts_exact_gen find_place find_place_decision_ok total ops i). Qed.

Theorem history_refcounts total ops i :
  let d := run (clear total) ops in
  (i < length (dv_refs d))%nat ->
  Z.of_nat (length (filter (fun p => existsb (Z.eqb (Z.of_nat i)) (pg_w2s p)) (dv_known d)))
  + (if Nat.eqb i 0 then 1 else 0) <= nth i (dv_refs d) 0.
Proof. exact (history_refcounts_gen find_place find_place_decision_ok total ops i). Qed.

(* the idle slot: slot 0 exists, the instrument and the driver's record hold the idle waveform in it, and its count
   exceeds the number of programs sharing it *)
Theorem history_idle_slot total ops :
  let d := run (clear total) ops in
  (1 <= length (dv_dev d))%nat /\ nth 0%nat (dv_dev d) 0 = IDLE /\ nth 0%nat (dv_hashes d) 0 = IDLE /\
  Z.of_nat (length (filter (fun p => existsb (Z.eqb 0) (pg_w2s p)) (dv_known d))) + 1 <= nth 0%nat (dv_refs d) 0.
Proof.
  intros d. assert (I : J d) by (apply (J_run find_place find_place_decision_ok); apply J_clear).
  split; [rewrite (j_len_d _ I); apply I|]. split; [apply I|]. split; [rewrite (j_belief _ I); apply I|].
  pose proof (j_refs _ I 0%nat (j_pos _ I)) as H. unfold cnt, uses, idle in H. cbn [Nat.eqb Z.of_nat] in H. lia.
Qed.

(* non-vacuity for slot 0: two programs containing a segment identical to the idle waveform share slot 0; the first
   is removed; a further program with an unknown 192-point segment is uploaded *)
Definition slot0_ops : list op :=
  [OUpload 1 [idle_seg; (11, 256)] false; OUpload 2 [idle_seg; (12, 320)] false; ORemove 1].
Definition slot0_next : op := OUpload 3 [(13, 192); (14, 256)] false.
Example slot0_history :
  let d := run (clear 100000) slot0_ops in
  let d' := run (clear 100000) (slot0_ops ++ [slot0_next]) in
  map (fun p => (pg_name p, pg_w2s p)) (dv_known d) = [(2%nat, [0; 2])] /\ dv_refs d = [2; 0; 1] /\
  map (fun p => (pg_name p, pg_w2s p)) (dv_known d') = [(3%nat, [3; 1]); (2%nat, [0; 2])] /\
  dv_dev d' = [0; 14; 12; 13] /\ dv_refs d' = [2; 1; 1; 1].
Proof. vm_compute. repeat split. Qed.

Lemma run_counted_ge d ops : run_counted (fun p => 0 <=? p) d ops = run d ops.
Proof.
  revert d. induction ops as [|o ops IH]; intros d; [reflexivity|]. cbn [run_counted run run_with].
  replace (step_counted (fun p => 0 <=? p) d o) with (step_with find_place d o) by (destruct o; reflexivity).
  apply IH.
Qed.

(* the re-use of slot 0 must be counted: with `waveform_to_segment > 0` as mask (the idiom of the next line of the
   code, `to_insert > 0`) the same history leaves slot 0 with count 0 although program 2 plays from it, the placement
   then offers slot 0 for the 192-point segment of program 3 (to_insert = 0, which upload() ignores), and program 3
   is registered with waveform_to_segment = -1 for a segment that was never written *)
Example slot0_reuse_must_be_counted :
  let gt := fun p => 0 <? p in
  let d := run_counted gt (clear 100000) slot0_ops in
  let d' := run_counted gt (clear 100000) (slot0_ops ++ [slot0_next]) in
  (* program 2 plays from slot 0, whose count is 0 *)
  map (fun p => (pg_name p, pg_w2s p)) (dv_known d) = [(2%nat, [0; 2])] /\ dv_refs d = [0; 0; 1] /\
  (* program 3's first segment (hash 13) is in no slot; -1 is read by numpy as "the last slot", which holds 12 *)
  map (fun p => (pg_name p, pg_w2s p)) (dv_known d') = [(3%nat, [-1; 1]); (2%nat, [0; 2])] /\ dv_dev d' = [0; 14; 12].
Proof. vm_compute. repeat split. Qed.
Lemma slot0_reuse_must_be_counted_full :
  (forall d ops, run_counted (fun p => 0 <=? p) d ops = run d ops) /\
  let gt := fun p => 0 <? p in
  let d := run_counted gt (clear 100000) slot0_ops in
  let d' := run_counted gt (clear 100000) (slot0_ops ++ [slot0_next]) in
  map (fun p => (pg_name p, pg_w2s p)) (dv_known d) = [(2%nat, [0; 2])] /\ dv_refs d = [0; 0; 1] /\
  map (fun p => (pg_name p, pg_w2s p)) (dv_known d') = [(3%nat, [-1; 1]); (2%nat, [0; 2])] /\ dv_dev d' = [0; 14; 12].
Proof. exact (conj run_counted_ge slot0_reuse_must_be_counted). Qed.

(* a non-trivial history: two programs sharing a segment, removal of the first, re-use of the freed slot 1 (equal
   capacity), forced re-upload of program 2 into its own freed, larger slot 3 *)
Definition ex_ops : list op :=
  [OUpload 1 [(11, 192); (12, 208)] false; OUpload 2 [(12, 208); (13, 384)] false; ORemove 1;
   OUpload 3 [(14, 192); (12, 208); (15, 400)] false; OUpload 2 [(16, 192)] true].
Example ex_history :
  let d := run (clear 100000) ex_ops in
  map (fun p => (pg_name p, pg_w2s p)) (dv_known d) = [(2%nat, [3]); (3%nat, [1; 2; 4])] /\
  dv_dev d = [0; 14; 12; 16; 15] /\ dv_refs d = [1; 1; 1; 1; 1].
Proof. vm_compute. repeat split. Qed.

(* ------------------------------------------------------------------------------------------------------------- *)
(* capacity: sum of the slot capacities vs total_capacity                                                          *)

Lemma zsum_app a b : zsum (a ++ b) = zsum a + zsum b.
Proof. unfold zsum. induction a; cbn; lia. Qed.

Lemma mask_map {A B} (f : A -> B) m l : mask m (map f l) = map f (mask m l).
Proof. revert l; induction m as [|b m IH]; intros [|x l]; cbn; auto. destruct b; cbn; rewrite IH; reflexivity. Qed.

Lemma zsum_plus16 l : zsum l <= zsum (map (fun x => x + 16) l).
Proof. unfold zsum. induction l; cbn; lia. Qed.

Lemma zsum_firstn_le n l : Forall (fun x => 0 <= x) l -> zsum (firstn n l) <= zsum l.
Proof.
  unfold zsum. revert n; induction l as [|a l IH]; intros [|n] H; cbn; try lia.
  - inversion H; subst. specialize (IH 0%nat H3). cbn in IH. lia.
  - inversion H; subst. specialize (IH n H3). lia.
Qed.

Lemma Forall_firstn {A} (P : A -> Prop) n l : Forall P l -> Forall P (firstn n l).
Proof. revert n; induction l; intros [|n] H; cbn; auto. inversion H; subst. constructor; auto. Qed.

Lemma Forall_mask {A} (P : A -> Prop) m l : Forall P l -> Forall P (mask m l).
Proof.
  revert l; induction m as [|b m IH]; intros [|x l] H; cbn; auto. inversion H; subst.
  destruct b; [constructor|]; auto.
Qed.

Record K (d : driver) : Prop := {
  k_sum : zsum (dv_caps d) <= dv_total d;
  k_nonneg : Forall (fun c => 0 <= c) (dv_caps d)
}.

Lemma do_writes_caps ws : forall d,
  dv_caps (fst (do_writes d ws)) = dv_caps d /\ dv_total (fst (do_writes d ws)) = dv_total d.
Proof.
  induction ws as [|(s, (h, l)) ws IH]; intros d; cbn; auto.
  unfold upload_segment.
  destruct (negb _); [cbn; auto|]. destruct (0 <? _); [cbn; auto|]. destruct (_ <? l); [cbn; auto|].
  destruct (IH {| dv_hashes := set_nth s h (dv_hashes d); dv_caps := dv_caps d; dv_refs := set_nth s 1 (dv_refs d);
                  dv_total := dv_total d; dv_known := dv_known d; dv_dev := set_nth s h (dv_dev d) |}) as [H1 H2].
  cbn in *. exact (conj H1 H2).
Qed.

Lemma free_program_caps d name :
  dv_caps (fst (free_program d name)) = dv_caps d /\ dv_total (fst (free_program d name)) = dv_total d.
Proof.
  unfold free_program. destruct (find _ _); [|auto]. destruct (norm_all _ _); cbn; auto.
Qed.

Lemma K_free d name : K d -> K (fst (free_program d name)).
Proof. intros [H1 H2]. destruct (free_program_caps d name) as [E1 E2]. constructor; rewrite ?E1, ?E2; assumption. Qed.

Lemma K_cleanup d : K d -> K (cleanup d).
Proof.
  intros [H1 H2]. constructor; unfold cleanup; cbn [dv_caps dv_total].
  - pose proof (zsum_firstn_le (first_free_of (dv_refs d)) _ H2). lia.
  - apply Forall_firstn. exact H2.
Qed.

(* reference counts after the slot writes: a positive count was positive before or the slot was written *)
Lemma do_writes_refs_pos ws : forall d k,
  0 < nth k (dv_refs (fst (do_writes d ws))) 0 -> 0 < nth k (dv_refs d) 0 \/ In k (map fst ws).
Proof.
  induction ws as [|(s, (h, l)) ws IH]; intros d k H; cbn in *; [auto|].
  unfold upload_segment in H.
  destruct (negb _); [cbn in H; auto|]. destruct (0 <? _); [cbn in H; auto|]. destruct (_ <? l); [cbn in H; auto|].
  destruct (do_writes _ ws) as [d' [e|]] eqn:E;
    match type of E with do_writes ?D _ = _ =>
      (assert (H' : 0 < nth k (dv_refs (fst (do_writes D ws))) 0) by (rewrite E; exact H)) end;
    apply IH in H'; cbn [dv_refs] in H';
    (destruct H' as [H'|H']; [|auto]);
    (destruct (Nat.eq_dec s k) as [->|Hne]; [auto|]); rewrite nth_set_nth_neq in H' by exact Hne; auto.
Qed.

Lemma do_writes_refs_length ws : forall d, length (dv_refs (fst (do_writes d ws))) = length (dv_refs d).
Proof.
  induction ws as [|(s, (h, l)) ws IH]; intros d; cbn; [reflexivity|].
  unfold upload_segment.
  destruct (negb _); [reflexivity|]. destruct (0 <? _); [reflexivity|]. destruct (_ <? l); [reflexivity|].
  destruct (do_writes _ ws) as [d' [e|]] eqn:E;
    match type of E with do_writes ?D _ = _ => pose proof (IH D) as H; rewrite E in H end;
    cbn in *; rewrite set_nth_length in H; exact H.
Qed.

Lemma used_end_upto_ge mem dec n k : (k < n)%nat -> usedb mem dec k = true -> (S k <= used_end_upto mem dec n)%nat.
Proof.
  induction n as [|n IH]; intros Hk Hu; [lia|]. cbn.
  destruct (usedb mem dec n) eqn:E; [lia|].
  destruct (Nat.eq_dec k n) as [->|]; [congruence|]. apply IH; [lia|exact Hu].
Qed.

Lemma zsum_firstn_mono a b l : (a <= b)%nat -> Forall (fun x => 0 <= x) l -> zsum (firstn a l) <= zsum (firstn b l).
Proof.
  unfold zsum. revert a b; induction l as [|x l IH]; intros [|a] [|b] H Hl; cbn; try lia.
  - inversion Hl; subst. pose proof (IH 0%nat b ltac:(lia) H3) as H'. cbn in H'. lia.
  - inversion Hl; subst. pose proof (IH a b ltac:(lia) H3). lia.
Qed.

(* the capacity invariant needs no guard any more: upload() cleans up right before it appends *)
Lemma K_upload_core d1 name segs :
  J d1 -> K d1 -> forallb (fun s => 0 <=? snd s) segs = true ->
  K (fst (upload_core find_place d1 name segs)).
Proof.
  intros I [Hs Hnn] Hlens. unfold upload_core.
  set (mem := {| m_hashes := dv_hashes d1; m_refs := dv_refs d1; m_caps := dv_caps d1; m_total := dv_total d1 |}).
  destruct (find_place mem (map fst segs) (map snd segs)) as [dec|e] eqn:Ep; [|constructor; assumption].
  pose proof (find_place_decision_ok mem _ _ _ (J_refs_nonneg d1 I) Ep) as (_ & _ & C3 & _).
  set (d2 := with_refs d1 _).
  destruct (do_writes_caps (writes_of (d_insert dec) segs) d2) as [Ec Et].
  pose proof (do_writes_refs_pos (writes_of (d_insert dec) segs) d2) as Hpos.
  pose proof (do_writes_refs_length (writes_of (d_insert dec) segs) d2) as Hlen3.
  destruct (do_writes d2 (writes_of (d_insert dec) segs)) as [d3 [e|]]; cbn [fst] in Ec, Et, Hpos, Hlen3.
  - cbn [fst]. constructor; rewrite ?Ec, ?Et; assumption.
  - destruct (existsb (fun b => b) (d_amend dec)).
    2:{ cbn [fst]. constructor; cbn [with_known dv_caps dv_total]; rewrite ?Ec, ?Et; assumption. }
    (* the cleanup keeps at most the slots up to the last used one (referenced before, reused or written now) *)
    set (F := first_free_of (dv_refs d3)).
    assert (HFle : (F <= used_end mem dec)%nat).
    { destruct (first_free_spec (dv_refs d3)) as (Hlen & Hlast & _). fold F in Hlen, Hlast.
      destruct Hlast as [H0|(k & Hk & Hm)]; [lia|]. rewrite Hk.
      assert (Hk3 : (k < length (dv_refs d3))%nat) by lia.
      rewrite (nth_map_lt (fun r => 0 <? r) _ _ _ 0) in Hm by lia.
      assert (Hkn : (k < length (dv_refs d1))%nat).
      { rewrite Hlen3 in Hk3. cbn [d2 with_refs dv_refs] in Hk3. rewrite incr_at_length in Hk3. exact Hk3. }
      unfold used_end. cbn [mem m_refs]. apply used_end_upto_ge; [exact Hkn|].
      unfold usedb. cbn [mem m_refs].
      destruct (Hpos k ltac:(lia)) as [H|H].
      - cbn [d2 with_refs dv_refs] in H. rewrite nth_incr_known in H by exact Hkn.
        destruct (existsb (Z.eqb (Z.of_nat k)) (d_w2s dec)); [rewrite orb_true_r; reflexivity|].
        assert (E : 0 <? nth k (dv_refs d1) 0 = true) by lia. rewrite E. reflexivity.
      - apply in_map_iff in H as ((s, hl) & Hs' & Hin). cbn in Hs'. subst s.
        apply writes_of_spec in Hin as (j & q & Hq & Hq0 & -> & _).
        assert (E : existsb (Z.eqb (Z.of_nat (Z.to_nat q))) (d_insert dec) = true).
        { apply existsb_Z_in. rewrite Z2Nat.id by lia. eapply nth_error_In. exact Hq. }
        rewrite E. apply orb_true_r. }
    unfold clause_amend in C3. cbn [mem m_total m_caps] in C3.
    pose proof (zsum_firstn_mono _ _ _ HFle Hnn) as Hmono.
    unfold amend, cleanup. cbn [fst]. constructor; cbn [with_known dv_caps dv_total]; rewrite Ec, ?Et;
      cbn [d2 with_refs dv_caps dv_total]; fold F.
    + rewrite zsum_app. rewrite <- mask_map. pose proof (zsum_plus16 (mask (d_amend dec) (map snd segs))). lia.
    + apply Forall_app. split; [apply Forall_firstn; exact Hnn|]. rewrite <- mask_map. apply Forall_mask.
      apply Forall_forall. intros x Hx. apply in_map_iff in Hx as (s & <- & Hin).
      rewrite forallb_forall in Hlens. specialize (Hlens s Hin). lia.
Qed.

Lemma K_clear t : 192 <= t -> K (clear t).
Proof. intros H. constructor; cbn; [lia|repeat constructor; lia]. Qed.

Lemma upload_core_total d1 name segs : dv_total (fst (upload_core find_place d1 name segs)) = dv_total d1.
Proof.
  unfold upload_core. destruct (find_place _ _ _) as [dec|]; [|reflexivity].
  set (d2 := with_refs d1 _).
  destruct (do_writes_caps (writes_of (d_insert dec) segs) d2) as [_ Et].
  destruct (do_writes d2 _) as [d3 [e|]]; cbn [fst] in *; [exact Et|].
  destruct (existsb _ (d_amend dec)); cbn; exact Et.
Qed.

Lemma JK_run ops : forall d,
  192 <= dv_total d -> J d -> K d -> ops_lens_nonneg ops = true ->
  K (run d ops) /\ J (run d ops) /\ dv_total (run d ops) = dv_total d.
Proof.
  induction ops as [|o ops IH]; intros d Ht I Kd Hg; cbn in *; [auto|].
  apply andb_prop in Hg as [Hg1 Hg2].
  assert (I' : J (fst (step_with find_place d o))) by (apply J_step; [exact find_place_decision_ok|exact I]).
  assert (K' : K (fst (step_with find_place d o)) /\ dv_total (fst (step_with find_place d o)) = dv_total d).
  { destruct o as [name segs force|name|name| |]; cbn [step_with op_lens_nonneg] in *.
    - rewrite upload_with_unfold.
      destruct (existsb (fun p => Nat.eqb (pg_name p) name) (dv_known d)) eqn:Eex.
      + destruct force; [|auto].
        pose proof (J_free d name I) as I1. pose proof (K_free d name Kd) as K1.
        destruct (free_program_caps d name) as [_ Et1].
        destruct (free_program d name) as [d1 [e|]]; cbn [fst] in *; [auto|].
        split; [apply K_upload_core; assumption|]. rewrite upload_core_total. exact Et1.
      + split; [apply K_upload_core; assumption|apply upload_core_total].
    - split; [apply K_free; exact Kd|apply free_program_caps].
    - pose proof (K_free d name Kd) as K1. destruct (free_program_caps d name) as [_ Et1].
      destruct (free_program d name) as [d1 [e|]]; cbn [fst] in *; [auto|].
      split; [apply K_cleanup; exact K1|exact Et1].
    - split; [apply K_cleanup; exact Kd|reflexivity].
    - split; [apply K_clear; exact Ht|reflexivity]. }
  destruct K' as [K' Ht'].
  destruct (IH (fst (step_with find_place d o)) ltac:(rewrite Ht'; exact Ht) I' K' Hg2) as (H1 & H2 & H3).
  unfold run in *. split; [exact H1|]. split; [exact H2|]. rewrite H3. exact Ht'.
Qed.

(* Capacity, unguarded: after every history the capacities of the defined slots fit into the instrument *)
Theorem history_capacity total ops :
  192 <= total -> ops_lens_nonneg ops = true ->
  zsum (dv_caps (run (clear total) ops)) <= total.
Proof.
  intros Ht Hg. destruct (JK_run ops (clear total) Ht (J_clear total) (K_clear total Ht) Hg) as ([Hs _] & _ & Htot).
  rewrite Htot in Hs. exact Hs.
Qed.

(* the history that over-committed the memory before the repair (a forced re-upload frees slots 2..4, the placement
   counts them as reclaimed, the new segments were appended behind them: 2032 > 2000) now stays within the capacity *)
Definition overflow_ops : list op :=
  [OUpload 1 [(11, 208); (15, 400); (26, 256); (4, 192)] true; OUpload 1 [(11, 208); (25, 400); (23, 384)] true].
Example former_overflow_witness :
  ops_lens_nonneg overflow_ops = true /\
  dv_caps (run (clear 2000) overflow_ops) = [192; 208; 400; 384] /\
  map pg_w2s (dv_known (run (clear 2000) overflow_ops)) = [[1; 2; 3]].
Proof. vm_compute. repeat split. Qed.

Example ex_ops_lens : ops_lens_nonneg ex_ops = true.
Proof. vm_compute. reflexivity. Qed.

(* ---- round 5: the decisions taken INSIDE a history.  total_capacity never changes ... ---- *)
Lemma step_total d o : dv_total (fst (step_with find_place d o)) = dv_total d.
Proof.
  destruct o as [name segs force|name|name| |]; cbn [step_with].
  - rewrite upload_with_unfold.
    destruct (existsb _ (dv_known d)).
    + destruct force; [|reflexivity].
      destruct (free_program_caps d name) as [_ Et1].
      destruct (free_program d name) as [d1 [e|]]; cbn [fst] in *; [exact Et1|].
      rewrite upload_core_total. exact Et1.
    + apply upload_core_total.
  - apply free_program_caps.
  - destruct (free_program_caps d name) as [_ Et1].
    destruct (free_program d name) as [d1 [e|]]; cbn [fst] in *; exact Et1.
  - reflexivity.
  - reflexivity.
Qed.

Lemma run_total ops : forall d, dv_total (run d ops) = dv_total d.
Proof.
  induction ops as [|o ops IH]; intros d; [reflexivity|].
  unfold run in *. cbn [run_with]. rewrite IH. apply step_total.
Qed.

Definition mem_of (d : driver) : memory :=
  {| m_hashes := dv_hashes d; m_refs := dv_refs d; m_caps := dv_caps d; m_total := dv_total d |}.

(* ... and whatever the placement decides on the arrays of a reachable driver state satisfies the four clauses with
   respect to THOSE arrays and the instrument's total capacity.  upload() calls the placement on `mem_of d1`, d1 = the
   state before the call (after free_program for a forced re-upload, which is itself a reachable state: ops ++ [OFree]). *)
Theorem history_decisions total ops nh nl dec :
  let d := run (clear total) ops in
  dv_total d = total /\
  (find_place (mem_of d) nh nl = Ok dec -> decision_ok (mem_of d) nh nl dec).
Proof.
  intros d. split; [unfold d; rewrite run_total; reflexivity|].
  apply find_place_decision_ok. cbn [mem_of m_refs].
  destruct (history_bookkeeping total ops) as (_ & _ & H & _). exact H.
Qed.

(* upload() without a known name IS the placement on mem_of d followed by the bookkeeping *)
Lemma upload_calls_place_on_state d name segs :
  existsb (fun p => Nat.eqb (pg_name p) name) (dv_known d) = false ->
  forall e, find_place (mem_of d) (map fst segs) (map snd segs) = Err e ->
  upload d name segs false = (d, Some (Refused e)).
Proof.
  intros Hn e He. unfold upload. rewrite upload_with_unfold. rewrite Hn. unfold upload_core.
  change {| m_hashes := dv_hashes d; m_refs := dv_refs d; m_caps := dv_caps d; m_total := dv_total d |} with (mem_of d).
  rewrite He. reflexivity.
Qed.
