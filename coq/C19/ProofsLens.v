(* C19 — `_segment_lengths` / defined-length table (DriverLens.v): refinement of Driver.v and the length invariant. *)
From Coq Require Import ZArith List Bool Lia ZifyBool Arith.
Require Import QV.C19.Model QV.C19.Spec QV.C19.ProofsList QV.C19.Proofs QV.C19.Driver QV.C19.ProofsDriver
               QV.C19.DriverLens.
Import ListNotations.
Open Scope Z_scope.

(* ---- the x_d component is exactly the Driver.v model ---- *)
Lemma xfree_refines s name :
  x_d (fst (xfree s name)) = fst (free_program (x_d s) name) /\ snd (xfree s name) = snd (free_program (x_d s) name).
Proof. unfold xfree. destruct (free_program (x_d s) name) as [d' e]. split; reflexivity. Qed.

Lemma xcleanup_refines s : x_d (xcleanup s) = cleanup (x_d s).
Proof. reflexivity. Qed.

Lemma xdo_writes_refines ws : forall s,
  x_d (fst (xdo_writes s ws)) = fst (do_writes (x_d s) ws) /\ snd (xdo_writes s ws) = snd (do_writes (x_d s) ws).
Proof.
  induction ws as [|(idx, (h, l)) ws IH]; intros s; cbn [xdo_writes do_writes]; [split; reflexivity|].
  unfold xupload_segment. destruct (upload_segment (x_d s) idx h l) as [d' [e|]]; cbn [fst snd]; [split; reflexivity|].
  apply IH.
Qed.

Lemma xamend_refines s segs :
  x_d (fst (xamend s segs)) = fst (amend (x_d s) segs) /\ snd (xamend s segs) = snd (amend (x_d s) segs).
Proof. unfold xamend. destruct (amend (x_d s) segs) as [d' idxs]. split; reflexivity. Qed.

Lemma xupload_refines place s name segs force :
  x_d (fst (xupload place s name segs force)) = fst (upload_with place (x_d s) name segs force) /\
  snd (xupload place s name segs force) = snd (upload_with place (x_d s) name segs force).
Proof.
  unfold xupload, upload_with, upload_gen.
  destruct (existsb (fun p => Nat.eqb (pg_name p) name) (dv_known (x_d s))).
  - destruct force; [|split; reflexivity].
    pose proof (xfree_refines s name) as [Hd He].
    destruct (xfree s name) as [s1 e1]. destruct (free_program (x_d s) name) as [d1 e1']. cbn [fst snd] in Hd, He.
    subst e1' d1. destruct e1; [split; reflexivity|].
    destruct (place _ _ _) as [dec|e]; [|split; reflexivity].
    set (s2 := xwith_d s1 _).
    pose proof (xdo_writes_refines (writes_of (d_insert dec) segs) s2) as [Hd3 He3]. cbn [s2 xwith_d x_d] in Hd3, He3.
    destruct (xdo_writes s2 _) as [s3 e3]. destruct (do_writes _ _) as [d3 e3']. cbn [fst snd] in Hd3, He3. subst e3' d3.
    destruct e3; [split; reflexivity|].
    destruct (existsb (fun b => b) (d_amend dec)); [|split; reflexivity].
    pose proof (xamend_refines (xcleanup s3) (mask (d_amend dec) segs)) as [Hd4 He4]. rewrite xcleanup_refines in Hd4, He4.
    destruct (xamend (xcleanup s3) _) as [s4 i4]. destruct (amend (cleanup (x_d s3)) _) as [d4 i4']. cbn [fst snd] in Hd4, He4.
    subst i4' d4. split; reflexivity.
  - destruct (place _ _ _) as [dec|e]; [|split; reflexivity].
    set (s2 := xwith_d s _).
    pose proof (xdo_writes_refines (writes_of (d_insert dec) segs) s2) as [Hd3 He3]. cbn [s2 xwith_d x_d] in Hd3, He3.
    destruct (xdo_writes s2 _) as [s3 e3]. destruct (do_writes _ _) as [d3 e3']. cbn [fst snd] in Hd3, He3. subst e3' d3.
    destruct e3; [split; reflexivity|].
    destruct (existsb (fun b => b) (d_amend dec)); [|split; reflexivity].
    pose proof (xamend_refines (xcleanup s3) (mask (d_amend dec) segs)) as [Hd4 He4]. rewrite xcleanup_refines in Hd4, He4.
    destruct (xamend (xcleanup s3) _) as [s4 i4]. destruct (amend (cleanup (x_d s3)) _) as [d4 i4']. cbn [fst snd] in Hd4, He4.
    subst i4' d4. split; reflexivity.
Qed.

Lemma xstep_refines place s o :
  x_d (fst (xstep place s o)) = fst (step_with place (x_d s) o) /\ snd (xstep place s o) = snd (step_with place (x_d s) o).
Proof.
  destruct o as [name segs force|name|name| |]; cbn [xstep step_with].
  - apply xupload_refines.
  - apply xfree_refines.
  - pose proof (xfree_refines s name) as [Hd He].
    destruct (xfree s name) as [s1 e1]. destruct (free_program (x_d s) name) as [d1 e1']. cbn [fst snd] in Hd, He.
    subst e1' d1. destruct e1; split; reflexivity.
  - split; reflexivity.
  - split; reflexivity.
Qed.

Theorem xrun_refines place ops : forall s, x_d (xrun place s ops) = run_with place (x_d s) ops.
Proof.
  induction ops as [|o ops IH]; intros s; cbn [xrun run_with]; [reflexivity|].
  rewrite IH. rewrite (proj1 (xstep_refines place s o)). reflexivity.
Qed.

(* ---- the length invariant ---- *)
Section lens.
  Variable lenof : Z -> Z.
  Hypothesis lenof_idle : lenof IDLE = 192.

  Record L (s : xdriver) : Prop := {
    l_len_h : length (dv_hashes (x_d s)) = length (dv_caps (x_d s));
    l_len_r : length (dv_refs (x_d s)) = length (dv_caps (x_d s));
    l_len_l : length (x_lens s) = length (dv_caps (x_d s));
    l_dev : x_devlen s = x_lens s;                      (* the instrument's table is what the driver believes *)
    l_of : forall i, (i < length (dv_caps (x_d s)))%nat -> nth i (x_lens s) 0 = lenof (nth i (dv_hashes (x_d s)) 0);
    l_fit : forall i, (i < length (dv_caps (x_d s)))%nat -> nth i (x_lens s) 0 <= nth i (dv_caps (x_d s)) 0
  }.

  Lemma L_clear t : L (xclear t).
  Proof.
    constructor; cbn; auto.
    - intros i Hi. assert (i = 0%nat) by lia. subst. cbn. symmetry. exact lenof_idle.
    - intros i Hi. assert (i = 0%nat) by lia. subst. cbn. lia.
  Qed.

  Lemma L_cleanup s : L s -> L (xcleanup s).
  Proof.
    intros I. unfold xcleanup. set (e := first_free_of _).
    pose proof (l_len_h _ I). pose proof (l_len_r _ I). pose proof (l_len_l _ I).
    constructor; cbn [x_d x_lens x_devlen cleanup dv_hashes dv_caps dv_refs].
    - rewrite !firstn_length. lia.
    - rewrite !firstn_length. lia.
    - rewrite !firstn_length. lia.
    - rewrite (l_dev _ I). reflexivity.
    - intros i Hi. rewrite firstn_length in Hi. rewrite !nth_firstn' by lia. apply (l_of _ I). lia.
    - intros i Hi. rewrite firstn_length in Hi. rewrite !nth_firstn' by lia. apply (l_fit _ I). lia.
  Qed.

  Lemma free_program_arrays d name :
    dv_hashes (fst (free_program d name)) = dv_hashes d /\ dv_caps (fst (free_program d name)) = dv_caps d /\
    length (dv_refs (fst (free_program d name))) = length (dv_refs d).
  Proof.
    unfold free_program. destruct (find _ _) as [p|]; [|auto].
    destruct (norm_all _ _); cbn; auto. unfold decr_at. rewrite decr_at_from_length. auto.
  Qed.

  Lemma L_free s name : L s -> L (fst (xfree s name)).
  Proof.
    intros I. unfold xfree. pose proof (free_program_arrays (x_d s) name) as (Hh & Hc & Hr).
    destruct (free_program (x_d s) name) as [d' e]. cbn [fst] in *.
    constructor; cbn [xwith_d x_d x_lens x_devlen]; rewrite ?Hh, ?Hc, ?Hr; apply I.
  Qed.

  Lemma L_with_refs s r : length r = length (dv_refs (x_d s)) -> L s -> L (xwith_d s (with_refs (x_d s) r)).
  Proof. intros Hr I. constructor; cbn; try apply I. rewrite Hr. apply I. Qed.

  Lemma L_with_known s k : L s -> L (xwith_d s (with_known (x_d s) k)).
  Proof. intros I. constructor; cbn; apply I. Qed.

  Lemma L_upload_segment s idx h l : l = lenof h -> L s -> L (fst (xupload_segment s idx h l)).
  Proof.
    intros Hl I. unfold xupload_segment, upload_segment.
    destruct (negb (idx <? length (dv_refs (x_d s)))%nat) eqn:E1; [destruct s; exact I|].
    destruct (0 <? nth idx (dv_refs (x_d s)) 0); [destruct s; exact I|].
    destruct (nth idx (dv_caps (x_d s)) 0 <? l) eqn:E3; [destruct s; exact I|].
    pose proof (l_len_h _ I). pose proof (l_len_r _ I). pose proof (l_len_l _ I).
    assert (Hidx : (idx < length (dv_caps (x_d s)))%nat) by lia.
    constructor; cbn [fst x_d x_lens x_devlen dv_hashes dv_caps dv_refs]; rewrite ?set_nth_length; auto.
    - rewrite (l_dev _ I). reflexivity.
    - intros i Hi. destruct (Nat.eq_dec idx i) as [->|Hne].
      + rewrite !nth_set_nth_eq by lia. exact Hl.
      + rewrite !nth_set_nth_neq by exact Hne. apply (l_of _ I). exact Hi.
    - intros i Hi. destruct (Nat.eq_dec idx i) as [->|Hne].
      + rewrite nth_set_nth_eq by lia. lia.
      + rewrite nth_set_nth_neq by exact Hne. apply (l_fit _ I). exact Hi.
  Qed.

  Lemma L_do_writes ws : forall s,
    (forall i h l, In (i, (h, l)) ws -> l = lenof h) -> L s -> L (fst (xdo_writes s ws)).
  Proof.
    induction ws as [|(idx, (h, l)) ws IH]; intros s Hws I; cbn [xdo_writes]; [exact I|].
    pose proof (L_upload_segment s idx h l (Hws idx h l (or_introl eq_refl)) I) as I1.
    destruct (xupload_segment s idx h l) as [s' [e|]]; cbn [fst] in *; [exact I1|].
    apply IH; [|exact I1]. intros i h' l' Hin. apply (Hws i h' l'). right. exact Hin.
  Qed.

  Lemma flush_lengths_eq a b : length a = length b -> flush_lengths a b = b.
  Proof.
    unfold flush_lengths. revert b; induction a as [|x a IH]; intros [|y b] H; cbn in *; try lia; [reflexivity|].
    rewrite IH by lia. destruct (Z.eqb_spec x y); congruence.
  Qed.

  Lemma L_amend s segs : (forall h l, In (h, l) segs -> l = lenof h) -> L s -> L (fst (xamend s segs)).
  Proof.
    intros Hsegs I. unfold xamend, amend. cbn [fst x_d x_lens x_devlen].
    pose proof (l_len_h _ I) as Hh. pose proof (l_len_r _ I) as Hr. pose proof (l_len_l _ I) as Hl.
    set (n := length (dv_caps (x_d s))) in *.
    constructor; cbn [x_d x_lens x_devlen dv_hashes dv_caps dv_refs]; rewrite ?app_length, ?map_length; try lia.
    - destruct (_ <? _)%nat.
      + rewrite (l_dev _ I). reflexivity.
      + apply flush_lengths_eq. rewrite !app_length, map_length. lia.
    - intros i Hi. destruct (Nat.lt_ge_cases i n) as [Hlt|Hge].
      + rewrite !app_nth1 by lia. apply (l_of _ I). exact Hlt.
      + rewrite !app_nth2 by lia. rewrite Hl, Hh.
        assert (Hk : (i - n < length segs)%nat) by lia.
        rewrite (nth_map_lt snd _ _ _ (0, 0)), (nth_map_lt fst _ _ _ (0, 0)) by exact Hk.
        pose proof (nth_In segs (0, 0) Hk) as Hin. destruct (nth (i - n) segs (0, 0)) as [h l]. cbn. apply (Hsegs h l Hin).
    - intros i Hi. destruct (Nat.lt_ge_cases i n) as [Hlt|Hge].
      + rewrite !app_nth1 by lia. apply (l_fit _ I). exact Hlt.
      + rewrite !app_nth2 by lia. rewrite Hl. fold n. apply Z.le_refl.
  Qed.

  Lemma in_mask {A} (m : list bool) (l : list A) x : In x (mask m l) -> In x l.
  Proof.
    revert l; induction m as [|b m IH]; intros [|y l] H; cbn in *; try tauto.
    destruct b; [destruct H as [->|H]; [left; reflexivity|right; apply IH; exact H]|right; apply IH; exact H].
  Qed.

  Lemma in_writes_of ins segs i hl : In (i, hl) (writes_of ins segs) -> In hl segs.
  Proof.
    revert segs; induction ins as [|q ins IH]; intros [|s segs] H; cbn in *; try tauto.
    destruct (0 <? q); [destruct H as [H|H]; [inversion H; left; reflexivity|right; apply IH; exact H]|right; apply IH; exact H].
  Qed.

  Lemma L_upload place s name segs force :
    (forall h l, In (h, l) segs -> l = lenof h) -> L s -> L (fst (xupload place s name segs force)).
  Proof.
    intros Hsegs I. unfold xupload.
    assert (Hcore : forall s1, L s1 ->
      L (fst (let d1 := x_d s1 in
              match place {| m_hashes := dv_hashes d1; m_refs := dv_refs d1; m_caps := dv_caps d1; m_total := dv_total d1 |}
                          (map fst segs) (map snd segs) with
              | Err e => (s1, Some (Refused e))
              | Ok dec =>
                  let s2 := xwith_d s1 (with_refs d1 (incr_at (map Z.to_nat (filter (fun p => 0 <=? p) (d_w2s dec))) (dv_refs d1))) in
                  match xdo_writes s2 (writes_of (d_insert dec) segs) with
                  | (s3, Some e) => (s3, Some e)
                  | (s3, None) =>
                      let w3 := merge_w2s (d_w2s dec) (d_insert dec) in
                      let '(s4, w4) := if existsb (fun b => b) (d_amend dec)
                                       then (let '(s4, idxs) := xamend (xcleanup s3) (mask (d_amend dec) segs) in
                                             (s4, assign_mask w3 (d_amend dec) idxs))
                                       else (s3, w3) in
                      (xwith_d s4 (with_known (x_d s4)
                                     ({| pg_name := name; pg_w2s := w4; pg_segs := map fst segs |} :: dv_known (x_d s4))), None)
                  end
              end))).
    { intros s1 I1. cbn zeta. destruct (place _ _ _) as [dec|e]; [|exact I1].
      set (s2 := xwith_d s1 _).
      assert (I2 : L s2) by (apply L_with_refs; [apply incr_at_length|exact I1]).
      pose proof (L_do_writes (writes_of (d_insert dec) segs) s2) as I3.
      destruct (xdo_writes s2 _) as [s3 [e|]]; cbn [fst] in *.
      - apply I3; [|exact I2]. intros i h l Hin. apply in_writes_of in Hin. apply Hsegs. exact Hin.
      - assert (I3' : L s3).
        { apply I3; [|exact I2]. intros i h l Hin. apply in_writes_of in Hin. apply Hsegs. exact Hin. }
        destruct (existsb (fun b => b) (d_amend dec)).
        + pose proof (L_amend (xcleanup s3) (mask (d_amend dec) segs)) as I4.
          destruct (xamend (xcleanup s3) _) as [s4 idxs]. cbn [fst] in *. apply L_with_known. apply I4.
          * intros h l Hin. apply in_mask in Hin. apply Hsegs. exact Hin.
          * apply L_cleanup. exact I3'.
        + apply L_with_known. exact I3'. }
    destruct (existsb _ _).
    - destruct force; [|exact I].
      pose proof (L_free s name I) as I1. destruct (xfree s name) as [s1 [e|]]; cbn [fst] in *; [exact I1|].
      apply Hcore. exact I1.
    - apply Hcore. exact I.
  Qed.

  Lemma L_step place s o : op_lens_from lenof o -> L s -> L (fst (xstep place s o)).
  Proof.
    intros Ho I. destruct o as [name segs force|name|name| |]; cbn [xstep].
    - apply L_upload; [exact Ho|exact I].
    - apply L_free. exact I.
    - pose proof (L_free s name I) as I1. destruct (xfree s name) as [s1 [e|]]; cbn [fst] in *; [exact I1|].
      apply L_cleanup. exact I1.
    - apply L_cleanup. exact I.
    - apply L_clear.
  Qed.

  Lemma L_run place ops : forall s, Forall (op_lens_from lenof) ops -> L s -> L (xrun place s ops).
  Proof.
    induction ops as [|o ops IH]; intros s Hall I; cbn [xrun]; [exact I|].
    inversion Hall; subst. apply IH; [assumption|]. apply L_step; assumption.
  Qed.
End lens.

(* after every history: `_segment_lengths` is as long as the other arrays, the instrument's table of defined lengths is
   what the driver believes, no slot is defined longer than its capacity, and every slot's defined length is the length
   of the segment it holds *)
Theorem history_lengths lenof total ops :
  lenof IDLE = 192 -> Forall (op_lens_from lenof) ops ->
  let s := xrun find_place (xclear total) ops in
  x_d s = run (clear total) ops /\
  length (x_lens s) = length (dv_caps (x_d s)) /\ x_devlen s = x_lens s /\
  (forall i, (i < length (dv_caps (x_d s)))%nat ->
     nth i (x_devlen s) 0 = lenof (nth i (dv_dev (x_d s)) 0) /\ nth i (x_devlen s) 0 <= nth i (dv_caps (x_d s)) 0).
Proof.
  intros Hidle Hall s.
  assert (I : L lenof s) by (apply L_run; [exact Hidle|exact Hall|apply L_clear; exact Hidle]).
  assert (Hx : x_d s = run (clear total) ops) by (unfold s; rewrite xrun_refines; reflexivity).
  assert (Jd : J (x_d s)) by (rewrite Hx; apply (J_run find_place find_place_decision_ok); apply J_clear).
  split; [exact Hx|]. split; [apply I|]. split; [apply I|].
  intros i Hi. rewrite (l_dev _ _ I). split; [|apply (l_fit _ _ I); exact Hi].
  rewrite <- (j_belief _ Jd). apply (l_of _ _ I). exact Hi.
Qed.

(* ... in particular the slot of every waveform of every known program is defined with that waveform's length *)
Theorem history_program_lengths lenof total ops p j q :
  lenof IDLE = 192 -> Forall (op_lens_from lenof) ops ->
  let s := xrun find_place (xclear total) ops in
  In p (dv_known (x_d s)) -> nth_error (pg_w2s p) j = Some q ->
  exists i, q = Z.of_nat i /\ (i < length (x_devlen s))%nat /\
            nth i (x_devlen s) 0 = lenof (nth j (pg_segs p) 0) /\ nth i (x_lens s) 0 = lenof (nth j (pg_segs p) 0).
Proof.
  intros Hidle Hall s Hp Hq.
  destruct (history_lengths lenof total ops Hidle Hall) as (Hx & Hlen & Hdev & Hslots). fold s in Hx, Hlen, Hdev, Hslots.
  assert (Jd : J (x_d s)) by (rewrite Hx; apply (J_run find_place find_place_decision_ok); apply J_clear).
  pose proof (j_progs _ Jd) as Hall'. rewrite Forall_forall in Hall'.
  destruct (Hall' p Hp) as [_ Hs]. destruct (Hs j q Hq) as (i & -> & Hi & Hc).
  exists i. split; [reflexivity|].
  assert (Hi' : (i < length (dv_caps (x_d s)))%nat) by (rewrite (j_len_c _ Jd), <- (j_len_d _ Jd); exact Hi).
  split; [rewrite Hdev, Hlen; exact Hi'|].
  destruct (Hslots i Hi') as [H1 _]. rewrite Hc in H1. split; [exact H1|]. rewrite <- Hdev. exact H1.
Qed.

(* non-vacuity: freed slots 1 and 2 (capacities 256, 400) are overwritten by SHORTER segments (224, 208 points), so that
   capacity <> defined length on two slots; program 5 (one segment, 1 < 2 slots to update) takes the per-segment :TRAC:DEF
   branch of _amend_segments, program 6 (two segments) the download_segment_lengths branch *)
Definition lens_ops : list op :=
  [OUpload 1 [(11, 256); (12, 400)] false; OUpload 2 [(13, 192)] false; OFree 1; OUpload 3 [(14, 208)] false;
   OUpload 4 [(15, 224)] false; OUpload 5 [(16, 1000)] false; OUpload 6 [(17, 1008); (18, 1024)] false].
Definition lens_lenof (h : Z) : Z :=
  if h <? 11 then 192 else nth (Z.to_nat (h - 11)) [256; 400; 192; 208; 224; 1000; 1008; 1024] 192.

Lemma history_lengths_example :
  lens_lenof IDLE = 192 /\ Forall (op_lens_from lens_lenof) lens_ops /\
  let s5 := xrun find_place (xclear 100000) (firstn 5 lens_ops) in
  let s := xrun find_place (xclear 100000) lens_ops in
  count_ne (dv_caps (x_d s5)) (x_lens s5) = 2%nat /\
  dv_hashes (x_d s) = [0; 15; 14; 13; 16; 17; 18] /\ dv_caps (x_d s) = [192; 256; 400; 192; 1000; 1008; 1024] /\
  x_lens s = [192; 224; 208; 192; 1000; 1008; 1024] /\ x_devlen s = [192; 224; 208; 192; 1000; 1008; 1024].
Proof.
  split; [reflexivity|]. split.
  - repeat constructor; cbn; intros h l H; repeat (destruct H as [H|H]; [inversion H; reflexivity|]); destruct H.
  - vm_compute. repeat split; reflexivity.
Qed.
