(* C19 — the modelled driver never raises one of its internal errors (the two ValueErrors of _upload_segment, numpy's
   IndexError in free_program) in any history: the placement only hands out slots that pass _upload_segment's checks. *)
From Coq Require Import ZArith List Bool Lia ZifyBool Arith.
Require Import QV.C19.Model QV.C19.Spec QV.C19.ProofsList QV.C19.Proofs QV.C19.Driver QV.C19.ProofsDriver.
Import ListNotations.
Open Scope Z_scope.

Definition internal (e : option derror) : bool :=
  match e with
  | Some (RefCountNotZero | TooLarge | BadIndex) => true
  | _ => false
  end.

Section noerr.
  Variable place : place_fun.
  Hypothesis place_ok : forall mem nh nl d,
    Forall (fun r => 0 <= r) (m_refs mem) -> place mem nh nl = Ok d -> decision_ok mem nh nl d.

  Lemma free_no_internal d name : J d -> internal (snd (free_program d name)) = false.
  Proof.
    intros I. unfold free_program.
    destruct (find _ (dv_known d)) as [p|] eqn:Ef; [|reflexivity].
    apply find_some in Ef as [Hin _].
    pose proof (j_progs _ I) as Hall. rewrite Forall_forall in Hall. pose proof (Hall p Hin) as [_ Hslots].
    assert (Hnat : forall q, In q (pg_w2s p) -> exists i, q = Z.of_nat i /\ (i < length (dv_refs d))%nat).
    { intros q Hq. apply In_nth_error in Hq as (j & Hj). destruct (Hslots j q Hj) as (i & -> & Hi & _).
      exists i. split; [reflexivity|]. rewrite <- (j_len_d _ I). exact Hi. }
    rewrite (norm_all_nat _ _ Hnat). reflexivity.
  Qed.

  Lemma upload_core_no_internal d1 name segs : J d1 -> internal (snd (upload_core place d1 name segs)) = false.
  Proof.
    intros I. unfold upload_core.
    set (mem := {| m_hashes := dv_hashes d1; m_refs := dv_refs d1; m_caps := dv_caps d1; m_total := dv_total d1 |}).
    destruct (place mem (map fst segs) (map snd segs)) as [dec|e] eqn:Ep; [|reflexivity].
    pose proof (place_ok mem _ _ _ (J_refs_nonneg d1 I) Ep) as (C1 & [C2a C2b] & _ & (C4a & C4b & C4c & C4d)).
    cbn [m_hashes m_refs m_caps mem] in C2a.
    set (n := length (dv_refs d1)).
    set (d2 := with_refs d1 _).
    set (ws := writes_of (d_insert dec) segs).
    assert (Ld2 : length (dv_refs d2) = n) by (cbn; apply incr_at_length).
    assert (Hw : forall s h l, In (s, (h, l)) ws ->
              (s < n)%nat /\ nth s (dv_refs d2) 0 <= 0 /\ l <= nth s (dv_caps d2) 0).
    { intros s h l Hin. apply writes_of_spec in Hin as (j & q & Hq & Hpos & Hs & Hseg).
      destruct (C2a j q Hq ltac:(lia)) as (i & c & l' & -> & Hri & Hnr & Hci & Hli & Hle).
      rewrite Nat2Z.id in Hs. subst s.
      apply (nth_error_nth' _ _ 0) in Hri as [Hi Hri]. apply (nth_error_nth' _ _ 0) in Hci as [_ Hci].
      assert (l' = l). { apply (map_nth_error snd) in Hseg. rewrite Hseg in Hli. inversion Hli. reflexivity. }
      subst l'. split; [exact Hi|]. cbn [d2 with_refs dv_refs dv_caps].
      rewrite nth_incr_known by exact Hi.
      assert (Hex : existsb (Z.eqb (Z.of_nat i)) (d_w2s dec) = false).
      { destruct (existsb _ _) eqn:E; [|reflexivity]. apply existsb_Z_in in E. exfalso. apply Hnr. exact E. }
      rewrite Hex. split; lia. }
    destruct (do_writes_ok ws d2) as (d3 & Hrun & _).
    { cbn. rewrite incr_at_length. apply I. }
    { cbn. rewrite incr_at_length. apply I. }
    { cbn. rewrite incr_at_length. apply I. }
    { apply writes_of_nodup. exact C2b. }
    { intros s h l Hin. destruct (Hw s h l Hin) as (H1 & H2 & H3). rewrite Ld2. auto. }
    rewrite Hrun. destruct (existsb _ (d_amend dec)); [destruct (amend _ _)|]; reflexivity.
  Qed.

  Lemma step_no_internal d o : J d -> internal (snd (step_with place d o)) = false.
  Proof.
    intros I. destruct o as [name segs force|name|name| |]; cbn [step_with]; try reflexivity.
    - rewrite upload_with_unfold.
      destruct (existsb (fun p => Nat.eqb (pg_name p) name) (dv_known d)).
      + destruct force; [|reflexivity].
        pose proof (free_no_internal d name I) as Hf. pose proof (J_free d name I) as I1.
        destruct (free_program d name) as [d1 [e|]]; cbn [fst snd] in *; [exact Hf|].
        apply upload_core_no_internal. exact I1.
      + apply upload_core_no_internal. exact I.
    - apply free_no_internal. exact I.
    - pose proof (free_no_internal d name I) as Hf.
      destruct (free_program d name) as [d1 [e|]]; cbn [snd] in *; [exact Hf|reflexivity].
  Qed.
End noerr.

(* after ANY history, the next operation — whatever it is — does not end in an internal error *)
Theorem history_no_internal_error total ops o :
  internal (snd (step_with find_place (run (clear total) ops) o)) = false.
Proof.
  apply (step_no_internal find_place find_place_decision_ok).
  apply (J_run find_place find_place_decision_ok). apply J_clear.
Qed.

Theorem history_no_internal_error' total ops o e :
  snd (step_with find_place (run (clear total) ops) o) = Some e ->
  e <> RefCountNotZero /\ e <> TooLarge /\ e <> BadIndex.
Proof.
  intros H. pose proof (history_no_internal_error total ops o) as Hn. rewrite H in Hn.
  destruct e; cbn in Hn; try discriminate; repeat split; discriminate.
Qed.

(* round 5: the hypothesis of C19_history_no_internal_error (`the next operation ends in an error`) is satisfiable: all
   four kinds of errors the modelled driver CAN raise occur after real histories *)
Lemma no_internal_error_hyp_satisfiable :
  snd (step_with find_place (run (clear 1000) [OUpload 1 [(11, 256)] false]) (OUpload 1 [(11, 256)] false)) = Some AlreadyKnown /\
  snd (step_with find_place (run (clear 1000) [OUpload 1 [(11, 256)] false]) (ORemove 7)) = Some UnknownProgram /\
  snd (step_with find_place (run (clear 1000) [OUpload 1 [(11, 256)] false]) (OUpload 2 [(12, 1024)] false))
    = Some (Refused NotEnoughMemory) /\
  snd (step_with find_place (run (clear 1000) [OUpload 1 [(11, 320)] false; OUpload 2 [(12, 192)] false; OFree 1])
                 (OUpload 3 [(13, 336)] false)) = Some (Refused Fragmentation).
Proof. vm_compute. repeat split; reflexivity. Qed.
