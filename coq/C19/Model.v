(* C19 — operational model of
     qupulse/hardware/util.py::find_positions
     qupulse/_program/tabor.py::find_place_for_segments_in_memory
   over `list Z`, mirroring the numpy code statement by statement (stable argsort, searchsorted, flatnonzero, boolean
   masks, fancy indexing, the sorted-vs-unsorted index arithmetic of the second loop, the +16 spacing, both
   RuntimeErrors), and (second half, "MODEL ONLY") of the bookkeeping of the driver
     qupulse/hardware/awgs/tabor.py::TaborChannelPair  (clear / upload / free_program / cleanup / remove)
   which cannot be imported offline.  Definitions only; no proofs in this file. *)
From Coq Require Import ZArith List Bool.
Import ListNotations.
Open Scope Z_scope.

(* ------------------------------------------------------------------------------------------------------------- *)
(* numpy primitives on lists                                                                                       *)

Fixpoint enumerate_from {A} (i : nat) (l : list A) : list (A * nat) :=
  match l with
  | [] => []
  | x :: r => (x, i) :: enumerate_from (S i) r
  end.

(* stable insertion sort on (key, original index): an element is put BEFORE later elements with an equal key *)
Fixpoint insert_stable (p : Z * nat) (l : list (Z * nat)) : list (Z * nat) :=
  match l with
  | [] => [p]
  | q :: r => if fst p <=? fst q then p :: l else q :: insert_stable p r
  end.
Fixpoint isort (l : list (Z * nat)) : list (Z * nat) :=
  match l with
  | [] => []
  | p :: r => insert_stable p (isort r)
  end.

(* np.argsort(a, kind='stable') *)
Definition argsort (a : list Z) : list nat := map snd (isort (enumerate_from 0 a)).

(* a[idx] (fancy indexing with a list of indices) *)
Definition take_idx {A} (d : A) (a : list A) (idx : list nat) : list A := map (fun i => nth i a d) idx.

(* a[mask] *)
Fixpoint mask {A} (m : list bool) (a : list A) : list A :=
  match m, a with
  | b :: m', x :: a' => if b then x :: mask m' a' else mask m' a'
  | _, _ => []
  end.

(* np.flatnonzero(mask) *)
Fixpoint flatnonzero_from (i : nat) (m : list bool) : list nat :=
  match m with
  | [] => []
  | b :: r => if b then i :: flatnonzero_from (S i) r else flatnonzero_from (S i) r
  end.
Definition flatnonzero (m : list bool) : list nat := flatnonzero_from 0 m.

(* np.argmax on a boolean array: index of the first True, 0 when there is none *)
Fixpoint find_true (m : list bool) : option nat :=
  match m with
  | [] => None
  | b :: r => if b then Some 0%nat else option_map S (find_true r)
  end.
Definition argmax_bool (m : list bool) : nat := match find_true m with Some i => i | None => 0%nat end.

Fixpoint set_nth {A} (i : nat) (v : A) (l : list A) : list A :=
  match l, i with
  | [], _ => []
  | _ :: r, O => v :: r
  | x :: r, S i' => x :: set_nth i' v r
  end.

Definition zsum (l : list Z) : Z := fold_right Z.add 0 l.
Definition count_true (m : list bool) : nat := length (filter (fun b => b) m).

(* np.searchsorted(sorted, x, side='left'/'right') on an ascending array: number of elements < x / <= x *)
Definition count_lt (x : Z) (s : list Z) : nat := length (filter (fun y => y <? x) s).
Definition count_le (x : Z) (s : list Z) : nat := length (filter (fun y => y <=? x) s).

Definition last_opt {A} (l : list A) : option A :=
  match rev l with
  | [] => None
  | x :: _ => Some x
  end.

(* a[idx] += 1 (numpy buffered semantics: every distinct index is incremented once) *)
Fixpoint incr_at_from (i : nat) (idx : list nat) (a : list Z) : list Z :=
  match a with
  | [] => []
  | x :: r => (if existsb (Nat.eqb i) idx then x + 1 else x) :: incr_at_from (S i) idx r
  end.
Definition incr_at (idx : list nat) (a : list Z) : list Z := incr_at_from 0 idx a.

Fixpoint zlist_eqb (a b : list Z) : bool :=
  match a, b with
  | [], [] => true
  | x :: a', y :: b' => (x =? y) && zlist_eqb a' b'
  | _, _ => false
  end.

(* ------------------------------------------------------------------------------------------------------------- *)
(* hardware/util.py::find_positions                                                                                *)

Definition find_positions (data to_find : list Z) : list Z :=
  let data_sorter := argsort data in
  let sorted := take_idx 0 data data_sorter in
  map (fun x =>
         let pos_left := count_lt x sorted in
         let pos_right := count_le x sorted in
         if (pos_left <? pos_right)%nat then Z.of_nat (nth pos_left data_sorter 0%nat) else -1) to_find.

(* ------------------------------------------------------------------------------------------------------------- *)
(* _program/tabor.py::find_place_for_segments_in_memory                                                            *)

Inductive error := NotEnoughMemory | Fragmentation | AssertionFailed | BadInput.
Inductive result (A : Type) := Ok (a : A) | Err (e : error).
Arguments Ok {A} a.
Arguments Err {A} e.

Record memory := { m_hashes : list Z; m_refs : list Z; m_caps : list Z; m_total : Z }.
Record decision := { d_w2s : list Z; d_amend : list bool; d_insert : list Z }.

(* state of the two placement loops *)
Record lstate := { free_segments : list bool; free_count : nat; st_amend : list bool; st_insert : list Z }.

(* first loop: a free slot whose capacity equals the segment length *)
Definition step1 (caps_ff lens : list Z) (seg : nat) (s : lstate) : lstate :=
  let pos_of_same_length :=
      map (fun fc => andb (fst fc) (nth seg lens 0 =? snd fc)) (combine (free_segments s) caps_ff) in
  let idx := argmax_bool pos_of_same_length in
  if nth idx pos_of_same_length false then
    {| free_segments := set_nth idx false (free_segments s);
       free_count := pred (free_count s);
       st_amend := set_nth seg false (st_amend s);
       st_insert := set_nth seg (Z.of_nat idx) (st_insert s) |}
  else s.

Fixpoint loop1 (caps_ff lens : list Z) (segs : list nat) (s : lstate) : lstate :=
  match segs with
  | [] => s
  | seg :: r => if Nat.eqb (free_count s) 0 then s (* break *) else loop1 caps_ff lens r (step1 caps_ff lens seg s)
  end.

(* second loop: a larger free slot.  `fitting` is an index into the REVERSED UNSORTED list of free capacities but is
   used as an index into the list of free slots sorted by DESCENDING capacity — exactly as the code does. *)
Definition step2 (caps caps_ff lens : list Z) (seg : nat) (s : lstate) : option lstate :=
  let free_capacities := mask (free_segments s) caps_ff in
  let free_segments_indices :=
      take_idx 0%nat (flatnonzero (free_segments s)) (rev (argsort free_capacities)) in
  match free_segments_indices with
  | [] => None (* break *)
  | _ =>
      let k := argmax_bool (rev (map (fun c => nth seg lens 0 <=? c) free_capacities)) in
      let fitting_segment := nth k free_segments_indices 0%nat in
      if nth seg lens 0 <=? nth fitting_segment caps 0 then
        Some {| free_segments := set_nth fitting_segment false (free_segments s);
                free_count := free_count s;
                st_amend := set_nth seg false (st_amend s);
                st_insert := set_nth seg (Z.of_nat fitting_segment) (st_insert s) |}
      else Some s
  end.

Fixpoint loop2 (caps caps_ff lens : list Z) (segs : list nat) (s : lstate) : lstate :=
  match segs with
  | [] => s
  | seg :: r => match step2 caps caps_ff lens seg s with
                | None => s
                | Some s' => loop2 caps caps_ff lens r s'
                end
  end.

Definition first_free_of (nrc : list Z) : nat :=
  match last_opt (flatnonzero (map (fun r => 0 <? r) nrc)) with
  | Some i => S i
  | None => 0%nat
  end.

Definition find_place (mem : memory) (new_hashes new_lens : list Z) : result decision :=
  let hashes := m_hashes mem in
  let refs := m_refs mem in
  let caps := m_caps mem in
  if negb (Nat.eqb (length hashes) (length refs) && Nat.eqb (length refs) (length caps)
           && Nat.eqb (length new_hashes) (length new_lens)) then Err BadInput else
  let waveform_to_segment := find_positions hashes new_hashes in
  let unknown := map (fun p => p =? -1) waveform_to_segment in
  let known := map negb unknown in
  let known_pos_in_memory := map Z.to_nat (mask known waveform_to_segment) in
  if negb (zlist_eqb (take_idx 0 hashes known_pos_in_memory) (mask known new_hashes)) then Err AssertionFailed else
  let new_reference_counter := incr_at known_pos_in_memory refs in
  let to_upload_size := zsum (map (fun l => l + 16) (mask unknown new_lens)) in
  let free_points_in_total := m_total mem - zsum (mask (map (fun r => 0 <? r) refs) caps) in
  if free_points_in_total <? to_upload_size then Err NotEnoughMemory else
  let first_free := first_free_of new_reference_counter in
  let caps_ff := firstn first_free caps in
  let free0 := map (fun r => r =? 0) (firstn first_free new_reference_counter) in
  let s0 := {| free_segments := free0; free_count := count_true free0; st_amend := unknown;
               st_insert := repeat (-1) (length new_hashes) |} in
  let s1 := loop1 caps_ff new_lens (flatnonzero unknown) s0 in
  let segment_indices :=
      take_idx 0%nat (flatnonzero (st_amend s1)) (rev (argsort (mask (st_amend s1) new_lens))) in
  let s2 := loop2 caps caps_ff new_lens segment_indices s1 in
  let free_points_at_end := m_total mem - zsum caps_ff in
  if free_points_at_end <? zsum (map (fun l => l + 16) (mask (st_amend s2) new_lens)) then Err Fragmentation else
  Ok {| d_w2s := waveform_to_segment; d_amend := st_amend s2; d_insert := st_insert s2 |}.
