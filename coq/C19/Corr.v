(* C19 — correspondence cases.  The implementation's observation is part of each case; check_corr compares it with the
   model, check_spec evaluates the property's own specification (Spec.decision_okb: the four clauses) on it. *)
From Coq Require Import ZArith List Bool.
Require Import QV.common.Util QV.C19.Model QV.C19.Spec QV.C19.Driver.
Import ListNotations.
Open Scope Z_scope.

(* what find_place_for_segments_in_memory did: three arrays, or one of the two RuntimeErrors / an AssertionError *)
Inductive impl_obs :=
| IRet (w2s : list Z) (amend : list bool) (ins : list Z)
| IRefuse (k : option error).   (* RuntimeError; the kind is recognised from the message text, None = unrecognised *)

(* what the real TaborChannelPair bookkeeping (run against an abstract fake instrument, see harness/props/c19_driver.py)
   looked like after one operation of a history *)
Inductive herr := HNone | HRefused | HAlreadyKnown | HUnknownProgram | HInternal.
Record hobs := {
  ho_err : herr;
  ho_hashes : list Z; ho_caps : list Z; ho_refs : list Z;
  ho_progs : list (nat * list Z * list Z);      (* name, waveform_to_segment, hashes of the program's segments *)
  ho_dev : list (option Z)                      (* content of the instrument's slots 1..n (None = undefined) *)
}.

Inductive case :=
| CHist (total : Z) (ops : list op) (obs : list hobs)
| CPlace (hashes refs caps : list Z) (total : Z) (new_hashes new_lens : list Z) (impl : impl_obs)
         (inputs_unchanged : bool)
| CCrash.   (* the implementation crashed with an unexpected exception or did not return *)

Definition error_eqb (a b : error) : bool :=
  match a, b with
  | NotEnoughMemory, NotEnoughMemory | Fragmentation, Fragmentation | AssertionFailed, AssertionFailed
  | BadInput, BadInput => true
  | _, _ => false
  end.

Definition herr_of (e : option derror) : herr :=
  match e with
  | None => HNone
  | Some (Refused _) => HRefused
  | Some AlreadyKnown => HAlreadyKnown
  | Some UnknownProgram => HUnknownProgram
  | Some (RefCountNotZero | TooLarge | BadIndex) => HInternal
  end.
Definition herr_eqb (a b : herr) : bool :=
  match a, b with
  | HNone, HNone | HRefused, HRefused | HAlreadyKnown, HAlreadyKnown | HUnknownProgram, HUnknownProgram
  | HInternal, HInternal => true
  | _, _ => false
  end.

Definition prog_eqb (a : nat * list Z * list Z) (p : prog) : bool :=
  Nat.eqb (fst (fst a)) (pg_name p) && zlist_eqb (snd (fst a)) (pg_w2s p) && zlist_eqb (snd a) (pg_segs p).

Definition state_eqb (d : driver) (o : hobs) : bool :=
  zlist_eqb (dv_hashes d) (ho_hashes o) && zlist_eqb (dv_caps d) (ho_caps o) && zlist_eqb (dv_refs d) (ho_refs o)
  && Nat.eqb (length (dv_known d)) (length (ho_progs o))
  && forallb (fun a => existsb (prog_eqb a) (dv_known d)) (ho_progs o)
  && list_eqb (opt_eqb Z.eqb) (map Some (dv_dev d)) (ho_dev o).

Fixpoint hist_corr (d : driver) (ops : list op) (obs : list hobs) : bool :=
  match ops, obs with
  | [], [] => true
  | o :: ops', ob :: obs' =>
      let '(d', e) := step_with find_place d o in
      herr_eqb (herr_of e) (ho_err ob) && state_eqb d' ob && hist_corr d' ops' obs'
  | _, _ => false
  end.

(* the history property on the implementation's own observation: every known program's waveform sits in an existing
   slot whose instrument content is the waveform's hash and whose reference count is at least 1 *)
Definition obs_safe (o : hobs) : bool :=
  forallb (fun a =>
             let w2s := snd (fst a) in
             let segs := snd a in
             Nat.eqb (length w2s) (length segs) &&
             forallb (fun qh => let q := fst qh in
                                (0 <=? q) && (Z.to_nat q <? length (ho_dev o))%nat
                                && opt_eqb Z.eqb (nth (Z.to_nat q) (ho_dev o) None) (Some (snd qh))
                                && (1 <=? nth (Z.to_nat q) (ho_refs o) 0))
                     (combine w2s segs))
          (ho_progs o)
  && negb (herr_eqb (ho_err o) HInternal)
  (* the driver's record of the slot contents (which clause 1 compares hashes against) is what the instrument holds *)
  && list_eqb (opt_eqb Z.eqb) (map Some (ho_hashes o)) (ho_dev o).

Definition check_corr (c : case) : bool :=
  match c with
  | CHist total ops obs => hist_corr (clear total) ops obs
  | CPlace h r cp t nh nl impl unchanged =>
      unchanged &&   (* the function is pure: the driver's arrays are not modified *)
      match find_place {| m_hashes := h; m_refs := r; m_caps := cp; m_total := t |} nh nl, impl with
      | Ok d, IRet w a i => zlist_eqb (d_w2s d) w && list_eqb Bool.eqb (d_amend d) a && zlist_eqb (d_insert d) i
      | Err e, IRefuse (Some e') => error_eqb e e'
      | Err (NotEnoughMemory | Fragmentation), IRefuse None => true
      | _, _ => false
      end
  | CCrash => false
  end.

(* a refusal (RuntimeError) writes nothing and is therefore always safe; a returned decision must satisfy the four
   clauses.  Reference counts are counts: layouts with a negative one (malformed stream; the driver's arrays are
   unsigned) are outside the property and only compared with the model. *)
Definition check_spec (c : case) : bool :=
  match c with
  | CHist total ops obs =>
      Nat.eqb (length ops) (length obs) && forallb obs_safe obs
      && forallb (fun o => zsum (ho_caps o) <=? total) obs      (* the defined slots fit into the instrument *)
  | CPlace h r cp t nh nl impl _ =>
      match impl with
      | IRet w a i => negb (forallb (fun x => 0 <=? x) r) ||
                      decision_okb {| m_hashes := h; m_refs := r; m_caps := cp; m_total := t |} nh nl
                                   {| d_w2s := w; d_amend := a; d_insert := i |}
      | IRefuse (Some (AssertionFailed | BadInput)) => false
      | IRefuse _ => true
      end
  | CCrash => false
  end.
