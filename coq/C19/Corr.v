(* C19 — correspondence cases.  The implementation's observation is part of each case; check_corr compares it with the
   model, check_spec evaluates the property's own specification (Spec.decision_okb: the four clauses) on it. *)
From Coq Require Import ZArith List Bool.
Require Import QV.common.Util QV.C19.Model QV.C19.Spec QV.C19.Driver QV.C19.DriverLens.
Import ListNotations.
Open Scope Z_scope.

(* what find_place_for_segments_in_memory did: three arrays, or one of the two RuntimeErrors / an AssertionError *)
Inductive impl_obs :=
| IRet (w2s : list Z) (amend : list bool) (ins : list Z)
| IRefuse (k : option error).   (* RuntimeError; the kind is recognised from the message text, None = unrecognised *)

(* what the real TaborChannelPair bookkeeping (run against an abstract fake instrument, see harness/props/c19_driver.py)
   looked like after one operation of a history *)
Inductive herr := HNone | HRefused | HAlreadyKnown | HUnknownProgram | HInternal.
Record hobs := {
  ho_err : herr;
  ho_hashes : list Z; ho_caps : list Z; ho_refs : list Z;
  ho_progs : list (nat * list Z * list Z);      (* name, waveform_to_segment, hashes of the program's segments *)
  ho_dev : list (option Z);                     (* content of the instrument's slots 1..n (None = undefined) *)
  (* round 4 *)
  ho_lens : list Z;                             (* _segment_lengths *)
  ho_devlen : list (option Z);                  (* the instrument's DEFINED length of slots 1..n (:TRAC:DEF, length table) *)
  ho_plens : list (list Z)                      (* lengths of the programs' segments, same order as ho_progs *)
}.

(* numpy primitives the model relies on, each run on numpy itself (harness/props/c19_prims.py); `out` = what numpy
   returned.  Integers of every dtype arrive as Z, booleans as bool. *)
Inductive prim :=
| PArgsort (a : list Z) (out : list Z)                         (* np.argsort(a, kind='stable') *)
| PSortedPick (m : list bool) (a : list Z) (out : list Z)      (* np.flatnonzero(m)[np.argsort(a[m], kind='stable')[::-1]] *)
| PFlatnonzero (m : list bool) (out : list Z)                  (* np.flatnonzero(m) *)
| PMask (m : list bool) (a : list Z) (out : list Z)            (* a[m] *)
| PTake (a : list Z) (idx : list Z) (out : list Z)             (* a[idx], idx non-negative and in range *)
| PSearch (data xs : list Z) (outl outr : list Z)              (* np.searchsorted(data, xs, side, sorter=argsort(data)) *)
| PArgmax (m : list bool) (out outrev : Z)                     (* np.argmax(m), np.argmax(m[::-1]) *)
| PIncr (idx : list Z) (a : list Z) (out : list Z)             (* a[idx] += 1, duplicates in idx *)
| PDecrWrap (idx : list Z) (a : list Z) (out : option (list Z)) (* a[idx] -= 1, negative indices wrap; None = IndexError *)
| PSum16 (m : list bool) (a : list Z) (out : Z)                (* np.sum(a[m] + 16) *)
| PAssignMask (w : list Z) (m : list bool) (v : list Z) (out : list Z)   (* w[m] = v, len(v) = count(m) *)
| PFirstFree (r : list Z) (out : Z) (outslice : list Z)        (* flatnonzero(r > 0)[-1] + 1 or 0;  r[:that] *)
| PSetAt (a : list Z) (i : Z) (v : Z) (out : list Z)           (* a[i] = v *)
| PFindPositions (data xs : list Z) (out : list Z).            (* hardware/util.py::find_positions (qupulse, not numpy) *)

(* round 6: a call of the placement recorded INSIDE a history (the property's observation point): the driver's OWN arrays
   at the moment of the call, the new segments, what the call returned; pc_feature = the copy in feature_awg/tabor.py *)
Record pcall := {
  pc_feature : bool;
  pc_hashes : list Z; pc_refs : list Z; pc_caps : list Z;
  pc_new_hashes : list Z; pc_new_lens : list Z;
  pc_impl : impl_obs
}.

Inductive case :=
| CHist (total : Z) (ops : list op) (obs : list hobs)
(* round 6: a history together with every placement call made inside it *)
| CHistD (total : Z) (ops : list op) (obs : list hobs) (calls : list pcall)
| CPlace (hashes refs caps : list Z) (total : Z) (new_hashes new_lens : list Z) (impl : impl_obs)
         (inputs_unchanged : bool)
  (* the copy of the placement in hardware/feature_awg/tabor.py::TaborChannelTuple._find_place_for_segments_in_memory *)
| CPlaceF (hashes refs caps : list Z) (total : Z) (new_hashes new_lens : list Z) (impl : impl_obs)
          (inputs_unchanged : bool)
| CPrim (p : prim)
| CCrash.   (* the implementation crashed with an unexpected exception or did not return *)

Definition error_eqb (a b : error) : bool :=
  match a, b with
  | NotEnoughMemory, NotEnoughMemory | Fragmentation, Fragmentation | AssertionFailed, AssertionFailed
  | BadInput, BadInput => true
  | _, _ => false
  end.

Definition herr_of (e : option derror) : herr :=
  match e with
  | None => HNone
  | Some (Refused _) => HRefused
  | Some AlreadyKnown => HAlreadyKnown
  | Some UnknownProgram => HUnknownProgram
  | Some (RefCountNotZero | TooLarge | BadIndex) => HInternal
  end.
Definition herr_eqb (a b : herr) : bool :=
  match a, b with
  | HNone, HNone | HRefused, HRefused | HAlreadyKnown, HAlreadyKnown | HUnknownProgram, HUnknownProgram
  | HInternal, HInternal => true
  | _, _ => false
  end.

Definition prog_eqb (a : nat * list Z * list Z) (p : prog) : bool :=
  Nat.eqb (fst (fst a)) (pg_name p) && zlist_eqb (snd (fst a)) (pg_w2s p) && zlist_eqb (snd a) (pg_segs p).

Definition state_eqb (s : xdriver) (o : hobs) : bool :=
  let d := x_d s in
  zlist_eqb (x_lens s) (ho_lens o) && list_eqb (opt_eqb Z.eqb) (map Some (x_devlen s)) (ho_devlen o) &&
  zlist_eqb (dv_hashes d) (ho_hashes o) && zlist_eqb (dv_caps d) (ho_caps o) && zlist_eqb (dv_refs d) (ho_refs o)
  && Nat.eqb (length (dv_known d)) (length (ho_progs o))
  && forallb (fun a => existsb (prog_eqb a) (dv_known d)) (ho_progs o)
  && list_eqb (opt_eqb Z.eqb) (map Some (dv_dev d)) (ho_dev o).

(* the model with `_segment_lengths` and the defined-length table (DriverLens.v; its x_d component is Driver.step_with,
   ProofsLens.xstep_refines) *)
Fixpoint hist_corr (d : xdriver) (ops : list op) (obs : list hobs) : bool :=
  match ops, obs with
  | [], [] => true
  | o :: ops', ob :: obs' =>
      let '(d', e) := xstep find_place d o in
      herr_eqb (herr_of e) (ho_err ob) && state_eqb d' ob && hist_corr d' ops' obs'
  | _, _ => false
  end.

(* the history property on the implementation's own observation: every known program's waveform sits in an existing
   slot whose instrument content is the waveform's hash and whose reference count is at least 1 *)
Definition obs_safe (o : hobs) : bool :=
  forallb (fun a =>
             let w2s := snd (fst a) in
             let segs := snd a in
             Nat.eqb (length w2s) (length segs) &&
             forallb (fun qh => let q := fst qh in
                                (0 <=? q) && (Z.to_nat q <? length (ho_dev o))%nat
                                && opt_eqb Z.eqb (nth (Z.to_nat q) (ho_dev o) None) (Some (snd qh))
                                && (1 <=? nth (Z.to_nat q) (ho_refs o) 0))
                     (combine w2s segs))
          (ho_progs o)
  && negb (herr_eqb (ho_err o) HInternal)
  (* the driver's record of the slot contents (which clause 1 compares hashes against) is what the instrument holds *)
  && list_eqb (opt_eqb Z.eqb) (map Some (ho_hashes o)) (ho_dev o)
  (* the idle waveform is a segment in use at all times (the idle sequence plays it): slot 0 holds it on the
     instrument and stays reserved, however many programs with an identical segment came and went *)
  && opt_eqb Z.eqb (nth 0%nat (ho_dev o) None) (Some IDLE) && (1 <=? nth 0%nat (ho_refs o) 0)
  (* round 4: a slot plays as many points as the instrument has DEFINED for it: every waveform of every known program
     sits in a slot defined with exactly the waveform's length; the driver's `_segment_lengths` is what the instrument
     holds; no slot is defined longer than its capacity *)
  && Nat.eqb (length (ho_plens o)) (length (ho_progs o))
  && forallb (fun al =>
                let w2s := snd (fst (fst al)) in
                Nat.eqb (length w2s) (length (snd al)) &&
                forallb (fun ql => opt_eqb Z.eqb (nth (Z.to_nat (fst ql)) (ho_devlen o) None) (Some (snd ql)))
                        (combine w2s (snd al)))
             (combine (ho_progs o) (ho_plens o))
  && list_eqb (opt_eqb Z.eqb) (map Some (ho_lens o)) (ho_devlen o)
  && Nat.eqb (length (ho_lens o)) (length (ho_caps o))
  && forallb (fun lc => fst lc <=? snd lc) (combine (ho_lens o) (ho_caps o)).

Definition place_corr h r cp t nh nl impl : bool :=
  match find_place {| m_hashes := h; m_refs := r; m_caps := cp; m_total := t |} nh nl, impl with
  | Ok d, IRet w a i => zlist_eqb (d_w2s d) w && list_eqb Bool.eqb (d_amend d) a && zlist_eqb (d_insert d) i
  | Err e, IRefuse (Some e') => error_eqb e e'
  | Err (NotEnoughMemory | Fragmentation), IRefuse None => true
  | _, _ => false
  end.

Fixpoint nodupb (l : list Z) : bool :=
  match l with
  | [] => true
  | x :: r => negb (existsb (Z.eqb x) r) && nodupb r
  end.

(* ---- numpy primitives: model side (check_corr) and independent specification (check_spec) ---- *)
Definition znat (l : list nat) : list Z := map Z.of_nat l.
Definition nats (l : list Z) : list nat := map Z.to_nat l.
Definition zidx_ok (n : nat) (l : list Z) : bool := forallb (fun i => (0 <=? i) && (i <? Z.of_nat n)) l.
Definition indices_where (m : list bool) : list nat := filter (fun i => nth i m false) (seq 0 (length m)).

Definition prim_corr (p : prim) : bool :=
  match p with
  | PArgsort a out => zlist_eqb (znat (argsort a)) out
  | PSortedPick m a out =>
      zlist_eqb (znat (take_idx 0%nat (flatnonzero m) (rev (argsort (mask m a))))) out
  | PFlatnonzero m out => zlist_eqb (znat (flatnonzero m)) out
  | PMask m a out => zlist_eqb (mask m a) out
  | PTake a idx out => zlist_eqb (take_idx 0 a (nats idx)) out
  | PSearch data xs outl outr =>
      let sorted := take_idx 0 data (argsort data) in
      zlist_eqb (map (fun x => Z.of_nat (count_lt x sorted)) xs) outl
      && zlist_eqb (map (fun x => Z.of_nat (count_le x sorted)) xs) outr
  | PArgmax m out outrev => (Z.of_nat (argmax_bool m) =? out) && (Z.of_nat (argmax_bool (rev m)) =? outrev)
  | PIncr idx a out => zlist_eqb (incr_at (nats idx) a) out
  | PDecrWrap idx a out =>
      match norm_all (length a) idx, out with
      | Some l, Some o => zlist_eqb (decr_at l a) o
      | None, None => true
      | _, _ => false
      end
  | PSum16 m a out => zsum (map (fun l => l + 16) (mask m a)) =? out
  | PAssignMask w m v out => zlist_eqb (assign_mask w m v) out
  | PFirstFree r out outslice =>
      (Z.of_nat (first_free_of r) =? out) && zlist_eqb (firstn (first_free_of r) r) outslice
  | PSetAt a i v out => zlist_eqb (set_nth (Z.to_nat i) v a) out
  | PFindPositions data xs out => zlist_eqb (find_positions data xs) out
  end.

(* strictly ascending *)
Fixpoint ascending (l : list Z) : bool :=
  match l with
  | x :: ((y :: _) as r) => (x <? y) && ascending r
  | _ => true
  end.
(* stable order of the index list `out` w.r.t. keys a: keys ascending, equal keys by ascending index *)
Fixpoint stable_sorted (a : list Z) (out : list Z) : bool :=
  match out with
  | i :: ((j :: _) as r) =>
      let x := nth (Z.to_nat i) a 0 in let y := nth (Z.to_nat j) a 0 in
      ((x <? y) || ((x =? y) && (i <? j))) && stable_sorted a r
  | _ => true
  end.
Definition is_perm_of_range (n : nat) (out : list Z) : bool :=
  Nat.eqb (length out) n && zidx_ok n out && nodupb out.

Definition prim_spec (p : prim) : bool :=
  match p with
  | PArgsort a out => is_perm_of_range (length a) out && stable_sorted a out
  | PSortedPick m a out =>
      (* the True positions of m, by DESCENDING key, equal keys by DESCENDING position *)
      Nat.eqb (length out) (length (indices_where m)) && nodupb out
      && forallb (fun i => (0 <=? i) && nth (Z.to_nat i) m false) out
      && stable_sorted a (rev out)
  | PFlatnonzero m out =>
      ascending out && forallb (fun i => (0 <=? i) && nth (Z.to_nat i) m false) out
      && Nat.eqb (length out) (length (filter (fun b => b) m))
  | PMask m a out => zlist_eqb (map (fun i => nth i a 0) (indices_where m)) out
  | PTake a idx out => zidx_ok (length a) idx && zlist_eqb (map (fun i => nth (Z.to_nat i) a 0) idx) out
  | PSearch data xs outl outr =>
      (* counted on the UNSORTED data *)
      zlist_eqb (map (fun x => Z.of_nat (length (filter (fun y => y <? x) data))) xs) outl
      && zlist_eqb (map (fun x => Z.of_nat (length (filter (fun y => y <=? x) data))) xs) outr
  | PArgmax m out outrev =>
      let first (l : list bool) (o : Z) :=
          (0 <=? o) && (if existsb (fun b => b) l
                        then nth (Z.to_nat o) l false && negb (existsb (fun b => b) (firstn (Z.to_nat o) l))
                        else o =? 0) in
      first m out && first (rev m) outrev
  | PIncr idx a out =>
      zidx_ok (length a) idx
      && zlist_eqb (map (fun k => nth k a 0 + (if existsb (Z.eqb (Z.of_nat k)) idx then 1 else 0)) (seq 0 (length a))) out
  | PDecrWrap idx a out =>
      let n := Z.of_nat (length a) in
      if forallb (fun i => (- n <=? i) && (i <? n)) idx
      then match out with
           | Some o => zlist_eqb (map (fun k => nth k a 0 - (if existsb (fun i => (i =? Z.of_nat k) || (i + n =? Z.of_nat k)) idx
                                                          then 1 else 0)) (seq 0 (length a))) o
           | None => false
           end
      else match out with None => true | Some _ => false end
  | PSum16 m a out => fold_left (fun acc i => acc + nth i a 0 + 16) (indices_where m) 0 =? out
  | PAssignMask w m v out =>
      Nat.eqb (length out) (length w)
      && zlist_eqb (map (fun i => nth i out 0) (indices_where m)) v
      && forallb (fun k => nth k m false || (nth k out 0 =? nth k w 0)) (seq 0 (length w))
  | PFirstFree r out outslice =>
      (0 <=? out) && (out <=? Z.of_nat (length r))
      && ((out =? 0) || (0 <? nth (Z.to_nat (out - 1)) r 0))
      && forallb (fun k => (Z.of_nat k <? out) || (nth k r 0 <=? 0)) (seq 0 (length r))
      && zlist_eqb (map (fun k => nth k r 0) (seq 0 (Z.to_nat out))) outslice
  | PSetAt a i v out =>
      (0 <=? i) && (i <? Z.of_nat (length a)) && Nat.eqb (length out) (length a)
      && forallb (fun k => nth k out 0 =? (if Z.of_nat k =? i then v else nth k a 0)) (seq 0 (length a))
  | PFindPositions data xs out =>
      (* first index holding the value, -1 when absent *)
      zlist_eqb (map (fun x => match find (fun k => nth k data 0 =? x) (seq 0 (length data)) with
                               | Some k => Z.of_nat k
                               | None => -1
                               end) xs) out
  end.

(* an in-history call against the model of the decision function (the feature copy only on tie-free inputs, as CPlaceF) *)
Definition pcall_corr (total : Z) (c : pcall) : bool :=
  if pc_feature c && negb (nodupb (pc_caps c) && nodupb (pc_new_lens c)) then true
  else place_corr (pc_hashes c) (pc_refs c) (pc_caps c) total (pc_new_hashes c) (pc_new_lens c) (pc_impl c).
(* ... and against the four clauses, on the driver's own arrays (reference counts of a driver are counts: no guard) *)
Definition pcall_spec (total : Z) (c : pcall) : bool :=
  match pc_impl c with
  | IRet w a i => decision_okb {| m_hashes := pc_hashes c; m_refs := pc_refs c; m_caps := pc_caps c; m_total := total |}
                               (pc_new_hashes c) (pc_new_lens c) {| d_w2s := w; d_amend := a; d_insert := i |}
  | IRefuse (Some (AssertionFailed | BadInput)) => false
  | IRefuse _ => true
  end.

Definition check_corr (c : case) : bool :=
  match c with
  | CHist total ops obs => hist_corr (xclear total) ops obs
  | CHistD total ops obs calls => hist_corr (xclear total) ops obs && forallb (pcall_corr total) calls
  | CPlace h r cp t nh nl impl unchanged =>
      unchanged &&   (* the function is pure: the driver's arrays are not modified *)
      place_corr h r cp t nh nl impl
  | CPlaceF h r cp t nh nl impl unchanged =>
      (* this copy sorts with numpy's default (unstable) sort: compared with the model only where no two capacities
         and no two new lengths are equal; with ties only the four clauses are checked (check_spec) *)
      unchanged && (if nodupb cp && nodupb nl then place_corr h r cp t nh nl impl else true)
  | CPrim p => prim_corr p
  | CCrash => false
  end.

(* a refusal (RuntimeError) writes nothing and is therefore always safe; a returned decision must satisfy the four
   clauses.  Reference counts are counts: layouts with a negative one (malformed stream; the driver's arrays are
   unsigned) are outside the property and only compared with the model. *)
Definition check_spec (c : case) : bool :=
  match c with
  | CHist total ops obs =>
      Nat.eqb (length ops) (length obs) && forallb obs_safe obs
      && forallb (fun o => zsum (ho_caps o) <=? total) obs      (* the defined slots fit into the instrument *)
  | CHistD total ops obs calls =>
      Nat.eqb (length ops) (length obs) && forallb obs_safe obs
      && forallb (fun o => zsum (ho_caps o) <=? total) obs
      && forallb (pcall_spec total) calls                       (* the four clauses on every decision taken inside *)
  | CPrim p => prim_spec p
  | CPlace h r cp t nh nl impl _ | CPlaceF h r cp t nh nl impl _ =>
      match impl with
      | IRet w a i => negb (forallb (fun x => 0 <=? x) r) ||
                      decision_okb {| m_hashes := h; m_refs := r; m_caps := cp; m_total := t |} nh nl
                                   {| d_w2s := w; d_amend := a; d_insert := i |}
      | IRefuse (Some (AssertionFailed | BadInput)) => false
      | IRefuse _ => true
      end
  | CCrash => false
  end.
