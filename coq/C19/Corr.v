(* C19 — correspondence cases.  The implementation's observation is part of each case; check_corr compares it with the
   model, check_spec evaluates the property's own specification (Spec.decision_okb: the four clauses) on it. *)
From Coq Require Import ZArith List Bool.
Require Import QV.common.Util QV.C19.Model QV.C19.Spec.
Import ListNotations.
Open Scope Z_scope.

(* what find_place_for_segments_in_memory did: three arrays, or one of the two RuntimeErrors / an AssertionError *)
Inductive impl_obs :=
| IRet (w2s : list Z) (amend : list bool) (ins : list Z)
| IRefuse (k : option error).   (* RuntimeError; the kind is recognised from the message text, None = unrecognised *)

Inductive case :=
| CPlace (hashes refs caps : list Z) (total : Z) (new_hashes new_lens : list Z) (impl : impl_obs)
         (inputs_unchanged : bool)
| CCrash.   (* the implementation crashed with an unexpected exception or did not return *)

Definition error_eqb (a b : error) : bool :=
  match a, b with
  | NotEnoughMemory, NotEnoughMemory | Fragmentation, Fragmentation | AssertionFailed, AssertionFailed
  | BadInput, BadInput => true
  | _, _ => false
  end.

Definition check_corr (c : case) : bool :=
  match c with
  | CPlace h r cp t nh nl impl unchanged =>
      unchanged &&   (* the function is pure: the driver's arrays are not modified *)
      match find_place {| m_hashes := h; m_refs := r; m_caps := cp; m_total := t |} nh nl, impl with
      | Ok d, IRet w a i => zlist_eqb (d_w2s d) w && list_eqb Bool.eqb (d_amend d) a && zlist_eqb (d_insert d) i
      | Err e, IRefuse (Some e') => error_eqb e e'
      | Err (NotEnoughMemory | Fragmentation), IRefuse None => true
      | _, _ => false
      end
  | CCrash => false
  end.

(* a refusal (RuntimeError) writes nothing and is therefore always safe; a returned decision must satisfy the four
   clauses.  Reference counts are counts: layouts with a negative one (malformed stream; the driver's arrays are
   unsigned) are outside the property and only compared with the model. *)
Definition check_spec (c : case) : bool :=
  match c with
  | CPlace h r cp t nh nl impl _ =>
      match impl with
      | IRet w a i => negb (forallb (fun x => 0 <=? x) r) ||
                      decision_okb {| m_hashes := h; m_refs := r; m_caps := cp; m_total := t |} nh nl
                                   {| d_w2s := w; d_amend := a; d_insert := i |}
      | IRefuse (Some (AssertionFailed | BadInput)) => false
      | IRefuse _ => true
      end
  | CCrash => false
  end.
