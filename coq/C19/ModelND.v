(* C19 — the copy of the placement in qupulse/hardware/feature_awg/tabor.py
     TaborChannelTuple._find_place_for_segments_in_memory
   calls `np.argsort(...)` WITHOUT kind='stable' in its second loop (twice: the order in which the remaining segments are
   tried, and — in every iteration — the free slots by capacity).  numpy's default sort makes no promise about the order
   of equal keys.  This file models that as nondeterminism: the two sorts are taken from an ORACLE, indexed by the call
   number (call 0 = the segment order, call k+1 = the free-slot order of iteration k), so that different calls may break
   ties differently, even on equal inputs.  `find_positions` keeps the stable sort (the code passes kind='stable' there).
   With the oracle `fun _ => argsort` the definition is `Model.find_place` (ProofsND.find_place_nd_stable).
   Definitions only. *)
From Coq Require Import ZArith List Bool Sorting.Permutation.
Require Import QV.C19.Model.
Import ListNotations.
Open Scope Z_scope.

Definition sort_oracle := nat -> list Z -> list nat.

(* what `np.argsort(a)` promises whatever the algorithm: a permutation of the positions that brings the keys into
   non-decreasing order.  Nothing about the order of equal keys. *)
Fixpoint nondecreasing (l : list Z) : Prop :=
  match l with
  | x :: ((y :: _) as r) => x <= y /\ nondecreasing r
  | _ => True
  end.
Definition is_argsort (a : list Z) (p : list nat) : Prop :=
  Permutation p (seq 0 (length a)) /\ nondecreasing (map (fun i => nth i a 0) p).
Definition oracle_ok (srt : sort_oracle) : Prop := forall k a, is_argsort a (srt k a).

Definition step2_nd (srt : list Z -> list nat) (caps caps_ff lens : list Z) (seg : nat) (s : lstate) : option lstate :=
  let free_capacities := mask (free_segments s) caps_ff in
  let free_segments_indices :=
      take_idx 0%nat (flatnonzero (free_segments s)) (rev (srt free_capacities)) in
  match free_segments_indices with
  | [] => None (* break *)
  | _ =>
      let k := argmax_bool (rev (map (fun c => nth seg lens 0 <=? c) free_capacities)) in
      let fitting_segment := nth k free_segments_indices 0%nat in
      if nth seg lens 0 <=? nth fitting_segment caps 0 then
        Some {| free_segments := set_nth fitting_segment false (free_segments s);
                free_count := free_count s;
                st_amend := set_nth seg false (st_amend s);
                st_insert := set_nth seg (Z.of_nat fitting_segment) (st_insert s) |}
      else Some s
  end.

(* iteration number `it` selects the oracle's answer *)
Fixpoint loop2_nd (srt : sort_oracle) (it : nat) (caps caps_ff lens : list Z) (segs : list nat) (s : lstate) : lstate :=
  match segs with
  | [] => s
  | seg :: r => match step2_nd (srt (S it)) caps caps_ff lens seg s with
                | None => s
                | Some s' => loop2_nd srt (S it) caps caps_ff lens r s'
                end
  end.

Definition find_place_nd (srt : sort_oracle) (mem : memory) (new_hashes new_lens : list Z) : result decision :=
  let hashes := m_hashes mem in
  let refs := m_refs mem in
  let caps := m_caps mem in
  if negb (Nat.eqb (length hashes) (length refs) && Nat.eqb (length refs) (length caps)
           && Nat.eqb (length new_hashes) (length new_lens)) then Err BadInput else
  let waveform_to_segment := find_positions hashes new_hashes in
  let unknown := map (fun p => p =? -1) waveform_to_segment in
  let known := map negb unknown in
  let known_pos_in_memory := map Z.to_nat (mask known waveform_to_segment) in
  if negb (zlist_eqb (take_idx 0 hashes known_pos_in_memory) (mask known new_hashes)) then Err AssertionFailed else
  let new_reference_counter := incr_at known_pos_in_memory refs in
  let to_upload_size := zsum (map (fun l => l + 16) (mask unknown new_lens)) in
  let free_points_in_total := m_total mem - zsum (mask (map (fun r => 0 <? r) refs) caps) in
  if free_points_in_total <? to_upload_size then Err NotEnoughMemory else
  let first_free := first_free_of new_reference_counter in
  let caps_ff := firstn first_free caps in
  let free0 := map (fun r => r =? 0) (firstn first_free new_reference_counter) in
  let s0 := {| free_segments := free0; free_count := count_true free0; st_amend := unknown;
               st_insert := repeat (-1) (length new_hashes) |} in
  let s1 := loop1 caps_ff new_lens (flatnonzero unknown) s0 in
  let segment_indices :=
      take_idx 0%nat (flatnonzero (st_amend s1)) (rev (srt 0%nat (mask (st_amend s1) new_lens))) in
  let s2 := loop2_nd srt 0 caps caps_ff new_lens segment_indices s1 in
  let free_points_at_end := m_total mem - zsum caps_ff in
  if free_points_at_end <? zsum (map (fun l => l + 16) (mask (st_amend s2) new_lens)) then Err Fragmentation else
  Ok {| d_w2s := waveform_to_segment; d_amend := st_amend s2; d_insert := st_insert s2 |}.

(* a sort that breaks ties the other way round (descending position among equal keys): stable sort of the reversed
   array, positions mapped back.  Used for the non-vacuity example: a different, equally legal argsort. *)
Definition argsort_rev_ties (a : list Z) : list nat :=
  map (fun i => (length a - 1 - i)%nat) (argsort (rev a)).
