(* C19 — proofs about the decision function (find_positions, the two placement loops, find_place). *)
From Coq Require Import ZArith List Bool Lia ZifyBool Permutation Sorted Arith.
Require Import QV.C19.Model QV.C19.Spec QV.C19.ProofsList.
Import ListNotations.
Open Scope Z_scope.

(* ------------------------------------------------------------------------------------------------------------- *)
(* find_positions: -1, or an index whose entry equals the searched value                                          *)

Lemma find_positions_length data tf : length (find_positions data tf) = length tf.
Proof. unfold find_positions. apply map_length. Qed.

Lemma find_positions_spec data tf j p :
  nth_error (find_positions data tf) j = Some p ->
  p = -1 \/ exists i x, p = Z.of_nat i /\ (i < length data)%nat /\ nth i data 0 = x /\ nth_error tf j = Some x.
Proof.
  unfold find_positions. rewrite nth_error_map.
  destruct (nth_error tf j) as [x|] eqn:Ex; unfold option_map; [|discriminate].
  intros H; inversion H as [Hp]; clear H.
  set (sorter := argsort data) in *. set (sorted := take_idx 0 data sorter) in *.
  destruct (Nat.ltb_spec (count_lt x sorted) (count_le x sorted)) as [Hlt|]; [|left; reflexivity].
  right. exists (nth (count_lt x sorted) sorter 0%nat), x.
  assert (Hlen : length sorted = length sorter) by (unfold sorted, take_idx; apply map_length).
  assert (Hl : (count_lt x sorted < length sorter)%nat).
  { pose proof (count_lt_le_length x sorted). lia. }
  split; [reflexivity|]. split.
  - apply argsort_lt. apply nth_In. exact Hl.
  - split; [|reflexivity].
    assert (Hs : StronglySorted Z.le sorted).
    { unfold sorted, sorter. rewrite take_idx_argsort. apply sorted_keys, isort_sorted. }
    pose proof (searchsorted_hit sorted x Hs Hlt) as Hhit.
    clear Hlt Hp. revert Hl Hhit. generalize (count_lt x sorted) as cl. intros cl Hl Hhit.
    rewrite <- Hhit. unfold sorted, take_idx. symmetry. apply (nth_map_lt (fun i => nth i data 0)). exact Hl.
Qed.

(* ------------------------------------------------------------------------------------------------------------- *)
(* the loop invariant                                                                                             *)

Section loops.
  Variables (nrc caps lens : list Z) (F m : nat) (unknown0 : list bool).

  Definition placed (s : lstate) (j : nat) : Prop :=
    nth j (st_amend s) false = false /\
    exists i, nth j (st_insert s) (-1) = Z.of_nat i /\ (i < F)%nat /\ nth i nrc 1 = 0 /\ nth j lens 0 <= nth i caps 0.

  Record Inv (s : lstate) : Prop := {
    inv_len_free : length (free_segments s) = F;
    inv_len_amend : length (st_amend s) = m;
    inv_len_insert : length (st_insert s) = m;
    inv_free : forall i, nth i (free_segments s) false = true -> nth i nrc 1 = 0 /\ ~ In (Z.of_nat i) (st_insert s);
    inv_seg : forall j, (j < m)%nat ->
                if nth j unknown0 false
                then (nth j (st_amend s) false = true /\ nth j (st_insert s) (-1) = -1) \/ placed s j
                else nth j (st_amend s) false = false /\ nth j (st_insert s) (-1) = -1;
    inv_distinct : forall j1 j2 i, (j1 < m)%nat -> (j2 < m)%nat ->
                     nth j1 (st_insert s) (-1) = Z.of_nat i -> nth j2 (st_insert s) (-1) = Z.of_nat i -> j1 = j2
  }.

  (* writing segment `seg` (an unknown one) into the free slot `idx` of sufficient capacity keeps the invariant *)
  Lemma insert_step s seg idx cnt :
    Inv s -> (seg < m)%nat -> nth seg unknown0 false = true ->
    nth idx (free_segments s) false = true -> nth seg lens 0 <= nth idx caps 0 ->
    Inv {| free_segments := set_nth idx false (free_segments s); free_count := cnt;
           st_amend := set_nth seg false (st_amend s); st_insert := set_nth seg (Z.of_nat idx) (st_insert s) |}.
  Proof.
    intros I Hseg Hunk Hfree Hcap.
    pose proof (nth_true_lt _ _ Hfree) as HidxF. rewrite (inv_len_free _ I) in HidxF.
    destruct (inv_free _ I idx Hfree) as [Hnrc Hnotin].
    constructor; cbn.
    - rewrite set_nth_length. apply I.
    - rewrite set_nth_length. apply I.
    - rewrite set_nth_length. apply I.
    - intros i Hi. destruct (Nat.eq_dec idx i) as [->|Hne].
      + rewrite nth_set_nth_eq in Hi by (rewrite (inv_len_free _ I); exact HidxF). discriminate.
      + rewrite nth_set_nth_neq in Hi by exact Hne.
        destruct (inv_free _ I i Hi) as [H1 H2]. split; [exact H1|].
        intros Hin. apply in_set_nth in Hin as [Heq|Hin]; [|tauto]. apply Hne. lia.
    - intros j Hj. pose proof (inv_seg _ I j Hj) as Hs.
      destruct (Nat.eq_dec seg j) as [->|Hne].
      + rewrite Hunk. right. split; cbn.
        * apply nth_set_nth_eq. rewrite (inv_len_amend _ I). exact Hj.
        * exists idx. rewrite nth_set_nth_eq by (rewrite (inv_len_insert _ I); exact Hj). auto.
      + unfold placed; cbn. rewrite !(nth_set_nth_neq seg j) by exact Hne. exact Hs.
    - intros j1 j2 i Hj1 Hj2 H1 H2.
      destruct (Nat.eq_dec seg j1) as [E1|N1]; destruct (Nat.eq_dec seg j2) as [E2|N2]; subst; auto.
      + rewrite nth_set_nth_eq in H1 by (rewrite (inv_len_insert _ I); exact Hj1).
        rewrite nth_set_nth_neq in H2 by exact N2.
        exfalso. apply Hnotin. rewrite H1, <- H2. apply nth_In. rewrite (inv_len_insert _ I). exact Hj2.
      + rewrite nth_set_nth_eq in H2 by (rewrite (inv_len_insert _ I); exact Hj2).
        rewrite nth_set_nth_neq in H1 by exact N1.
        exfalso. apply Hnotin. rewrite H2, <- H1. apply nth_In. rewrite (inv_len_insert _ I). exact Hj1.
      + rewrite nth_set_nth_neq in H1 by exact N1. rewrite nth_set_nth_neq in H2 by exact N2.
        eapply (inv_distinct _ I); eauto.
  Qed.

  Let caps_ff := firstn F caps.

  Lemma nth_pos_same (fs : list bool) (cf : list Z) (x : Z) idx :
    nth idx (map (fun fc : bool * Z => andb (fst fc) (x =? snd fc)) (combine fs cf)) false = true ->
    nth idx fs false = true /\ x = nth idx cf 0.
  Proof.
    revert cf idx; induction fs as [|b fs IH]; intros [|c cf] [|idx] H; cbn in *; try discriminate.
    - apply andb_prop in H as [H1 H2]. split; [exact H1|lia].
    - apply IH in H. exact H.
  Qed.

  Lemma step1_inv s seg :
    Inv s -> (seg < m)%nat -> nth seg unknown0 false = true -> Inv (step1 caps_ff lens seg s).
  Proof.
    intros I Hseg Hunk. unfold step1.
    set (ps := map _ (combine (free_segments s) caps_ff)).
    destruct (nth (argmax_bool ps) ps false) eqn:E; [|exact I].
    apply nth_pos_same in E as [Hfree Hcap].
    apply insert_step; auto.
    pose proof (nth_true_lt _ _ Hfree) as Hlt. rewrite (inv_len_free _ I) in Hlt.
    unfold caps_ff in Hcap. rewrite nth_firstn' in Hcap by exact Hlt. lia.
  Qed.

  Lemma loop1_inv segs s :
    Forall (fun seg => (seg < m)%nat /\ nth seg unknown0 false = true) segs -> Inv s ->
    Inv (loop1 caps_ff lens segs s).
  Proof.
    revert s; induction segs as [|seg segs IH]; intros s Hall I; cbn; auto.
    inversion Hall as [|? ? [H1 H2] Hrest]; subst.
    destruct (Nat.eqb (free_count s) 0); auto.
    apply IH; auto. apply step1_inv; auto.
  Qed.

  Lemma step2_inv s s' seg :
    Inv s -> (seg < m)%nat -> nth seg unknown0 false = true -> step2 caps caps_ff lens seg s = Some s' -> Inv s'.
  Proof.
    intros I Hseg Hunk. unfold step2.
    set (fc := mask (free_segments s) caps_ff).
    set (fsi := take_idx 0%nat (flatnonzero (free_segments s)) (rev (argsort fc))).
    destruct fsi as [|x0 r0] eqn:Efsi; [discriminate|]. rewrite <- Efsi.
    set (k := argmax_bool _).
    destruct (nth seg lens 0 <=? nth (nth k fsi 0%nat) caps 0) eqn:Ecap; intros H; inversion H; subst; [|exact I].
    apply insert_step; auto; [|apply Z.leb_le; exact Ecap].
    (* the chosen index is one of the free slots *)
    assert (HlenF : length caps_ff = length (free_segments s) \/ True) by (right; exact Logic.I).
    assert (Hfsi_len : length fsi = length fc).
    { unfold fsi, take_idx. rewrite map_length, rev_length, argsort_length. reflexivity. }
    assert (Hk : (k < length fsi)%nat).
    { rewrite Hfsi_len. unfold k.
      replace (length fc) with (length (rev (map (fun c => nth seg lens 0 <=? c) fc)))
        by (rewrite rev_length, map_length; reflexivity).
      apply argmax_bool_lt. intros Hnil. apply (f_equal (@length bool)) in Hnil.
      rewrite rev_length, map_length, <- Hfsi_len, Efsi in Hnil. cbn in Hnil. lia. }
    assert (Hin : In (nth k fsi 0%nat) fsi) by (apply nth_In; exact Hk).
    unfold fsi at 2 in Hin. unfold take_idx in Hin. apply in_map_iff in Hin as (q & Hq & Hqin).
    apply in_rev in Hqin. apply argsort_lt in Hqin.
    (* q < length fc <= number of free slots *)
    assert (Hfc : (length fc <= length (flatnonzero (free_segments s)))%nat).
    { unfold fc, flatnonzero. rewrite flatnonzero_from_length. unfold count_true.
      generalize (free_segments s) caps_ff. clear. induction l as [|b l IH]; intros [|c cf]; cbn; try lia.
      destruct b; cbn; specialize (IH cf); lia. }
    apply flatnonzero_spec. rewrite <- Hq. apply nth_In. lia.
  Qed.

  Lemma loop2_inv segs s :
    Forall (fun seg => (seg < m)%nat /\ nth seg unknown0 false = true) segs -> Inv s ->
    Inv (loop2 caps caps_ff lens segs s).
  Proof.
    revert s; induction segs as [|seg segs IH]; intros s Hall I; cbn; auto.
    inversion Hall as [|? ? [H1 H2] Hrest]; subst.
    destruct (step2 caps caps_ff lens seg s) as [s'|] eqn:E; auto.
    apply IH; auto. eapply step2_inv; eauto.
  Qed.
End loops.

(* ------------------------------------------------------------------------------------------------------------- *)
(* auxiliary facts about the reference counter and the known positions                                            *)

Lemma nth_repeat' {A} (a : A) n j : nth j (repeat a n) a = a.
Proof. revert j; induction n as [|n IH]; intros [|j]; cbn; auto. Qed.

Lemma incr_at_from_length k idx a : length (incr_at_from k idx a) = length a.
Proof. revert k; induction a; intros; cbn; auto. Qed.

Lemma nth_incr_at_from k idx a i :
  (i < length a)%nat ->
  nth i (incr_at_from k idx a) 1 = if existsb (Nat.eqb (k + i)) idx then nth i a 0 + 1 else nth i a 0.
Proof.
  revert k i; induction a as [|x a IH]; intros k [|i] H; cbn in H; try lia.
  - cbn. replace (k + 0)%nat with k by lia. reflexivity.
  - cbn [incr_at_from nth]. rewrite IH by lia. replace (S k + i)%nat with (k + S i)%nat by lia. reflexivity.
Qed.

Lemma existsb_nat_in i idx : existsb (Nat.eqb i) idx = true <-> In i idx.
Proof.
  rewrite existsb_exists. split.
  - intros (x & Hx & E). apply Nat.eqb_eq in E. subst. exact Hx.
  - intros H. exists i. split; [exact H|apply Nat.eqb_refl].
Qed.

Lemma existsb_Z_in x l : existsb (Z.eqb x) l = true <-> In x l.
Proof.
  rewrite existsb_exists. split.
  - intros (y & Hy & E). apply Z.eqb_eq in E. subst. exact Hy.
  - intros H. exists x. split; [exact H|apply Z.eqb_refl].
Qed.

Lemma nrc_zero refs kp i :
  Forall (fun r => 0 <= r) refs -> nth i (incr_at kp refs) 1 = 0 ->
  (i < length refs)%nat /\ nth i refs 0 = 0 /\ ~ In i kp.
Proof.
  intros Hnn. unfold incr_at. intros H0.
  destruct (Nat.lt_ge_cases i (length refs)) as [Hi|Hge].
  2:{ rewrite nth_overflow in H0 by (rewrite incr_at_from_length; lia). discriminate. }
  rewrite nth_incr_at_from in H0 by exact Hi. cbn in H0.
  assert (0 <= nth i refs 0). { rewrite Forall_forall in Hnn. apply Hnn. apply nth_In. exact Hi. }
  destruct (existsb (Nat.eqb i) kp) eqn:Ex; [lia|].
  repeat split; auto. intros Hin. apply existsb_nat_in in Hin. congruence.
Qed.

Lemma nrc_pos refs kp i :
  Forall (fun r => 0 <= r) refs ->
  (nth i (map (fun r => 0 <? r) (incr_at kp refs)) false = true <->
   (i < length refs)%nat /\ (0 < nth i refs 0 \/ In i kp)).
Proof.
  intros Hnn. unfold incr_at.
  split.
  - intros H. pose proof (nth_true_lt _ _ H) as Hi. rewrite map_length, incr_at_from_length in Hi.
    split; [exact Hi|].
    rewrite (nth_map_lt (fun r => 0 <? r) _ _ _ 1) in H by (rewrite incr_at_from_length; exact Hi).
    rewrite nth_incr_at_from in H by exact Hi. cbn in H.
    destruct (existsb (Nat.eqb i) kp) eqn:Ex.
    + right. apply existsb_nat_in. exact Ex.
    + left. lia.
  - intros [Hi H].
    rewrite (nth_map_lt (fun r => 0 <? r) _ _ _ 1) by (rewrite incr_at_from_length; exact Hi).
    rewrite nth_incr_at_from by exact Hi. cbn.
    assert (0 <= nth i refs 0). { rewrite Forall_forall in Hnn. apply Hnn. apply nth_In. exact Hi. }
    destruct (existsb (Nat.eqb i) kp) eqn:Ex; [lia|].
    destruct H as [H|H]; [lia|]. apply existsb_nat_in in H. congruence.
Qed.

Lemma incr_at_length kp refs : length (incr_at kp refs) = length refs.
Proof. unfold incr_at. generalize 0%nat. induction refs; intros; cbn; auto. Qed.

Lemma in_mask_self {A} (f : A -> bool) (l : list A) x : In x (mask (map f l) l) <-> In x l /\ f x = true.
Proof.
  induction l as [|a l IH]; cbn; [tauto|].
  destruct (f a) eqn:E; cbn; rewrite IH; split.
  - intros [->|[H1 H2]]; auto.
  - intros [[->|H1] H2]; auto.
  - intros [H1 H2]; auto.
  - intros [[->|H1] H2]; [congruence|auto].
Qed.

Definition known_pos_of (w2s : list Z) : list nat :=
  map Z.to_nat (mask (map negb (map (fun p => p =? -1) w2s)) w2s).

Lemma known_pos_in w2s i :
  (forall p, In p w2s -> p = -1 \/ 0 <= p) ->
  (In i (known_pos_of w2s) <-> In (Z.of_nat i) w2s).
Proof.
  intros Hr. unfold known_pos_of. rewrite map_map. rewrite in_map_iff. split.
  - intros (p & Hp & Hin). apply in_mask_self in Hin as [Hin Hne].
    destruct (Hr p Hin) as [->|Hpos]; [discriminate|].
    replace (Z.of_nat i) with p by lia. exact Hin.
  - intros Hin. exists (Z.of_nat i). split; [lia|].
    apply in_mask_self. split; [exact Hin|]. destruct (Z.of_nat i =? -1) eqn:E; [lia|reflexivity].
Qed.

Lemma first_free_spec nrc :
  let F := first_free_of nrc in
  (F <= length nrc)%nat /\
  (F = 0%nat \/ exists k, F = S k /\ nth k (map (fun r => 0 <? r) nrc) false = true) /\
  (forall j, (F <= j)%nat -> nth j (map (fun r => 0 <? r) nrc) false = false).
Proof.
  unfold first_free_of, flatnonzero.
  pose proof (last_flatnonzero_from 0 (map (fun r => 0 <? r) nrc)) as H.
  destruct (last_opt _) as [k|].
  - destruct H as (_ & H2 & H3). replace (k - 0)%nat with k in H2 by lia.
    split; [|split].
    + pose proof (nth_true_lt _ _ H2) as Hk. rewrite map_length in Hk. lia.
    + right. exists k. auto.
    + intros j Hj. specialize (H3 j). replace (j - 0)%nat with j in H3 by lia. apply H3. lia.
  - split; [lia|]. split; [left; reflexivity|].
    intros j _. specialize (H j). replace (j - 0)%nat with j in H by lia. apply H. lia.
Qed.

Lemma used_end_upto_spec mem d n F :
  (F <= n)%nat -> (F = 0%nat \/ exists k, F = S k /\ usedb mem d k = true) ->
  (forall i, (F <= i < n)%nat -> usedb mem d i = false) -> used_end_upto mem d n = F.
Proof.
  intros Hle HF Hhi. induction n as [|n IH]; cbn.
  - lia.
  - destruct (Nat.eq_dec F (S n)) as [->|Hne].
    + destruct HF as [HF|(k & Hk & Hu)]; [lia|]. inversion Hk; subst. rewrite Hu. reflexivity.
    + rewrite Hhi by lia. apply IH; [lia|]. intros i Hi. apply Hhi. lia.
Qed.

(* ------------------------------------------------------------------------------------------------------------- *)
(* the decision theorem                                                                                           *)

Lemma w2s_range data tf p : In p (find_positions data tf) -> p = -1 \/ 0 <= p.
Proof.
  intros Hin. apply In_nth_error in Hin as (j & Hj). apply find_positions_spec in Hj as [->|(i & x & -> & _)]; [auto|right; lia].
Qed.

Lemma existsb_id_false_all (l : list bool) : existsb (fun x => x) l = false -> forall x, In x l -> x = false.
Proof. intros H x Hx. destruct x; auto. assert (existsb (fun x => x) l = true) by (apply existsb_exists; eauto). congruence. Qed.

Theorem find_place_decision_ok mem nh nl d :
  Forall (fun r => 0 <= r) (m_refs mem) ->
  find_place mem nh nl = Ok d -> decision_ok mem nh nl d.
Proof.
  intros Hnn. unfold find_place.
  destruct (Nat.eqb (length (m_hashes mem)) (length (m_refs mem))) eqn:L1; [|discriminate].
  destruct (Nat.eqb (length (m_refs mem)) (length (m_caps mem))) eqn:L2; [|discriminate].
  destruct (Nat.eqb (length nh) (length nl)) eqn:L3; [|discriminate].
  apply Nat.eqb_eq in L1, L2, L3. cbn [andb negb].
  set (w2s := find_positions (m_hashes mem) nh).
  set (unknown := map (fun p => p =? -1) w2s).
  change (map Z.to_nat (mask (map negb unknown) w2s)) with (known_pos_of w2s).
  set (kp := known_pos_of w2s).
  destruct (negb (zlist_eqb _ _)); [discriminate|].
  set (nrc := incr_at kp (m_refs mem)).
  destruct (_ <? _) eqn:Enot; [discriminate|]. clear Enot.
  set (F := first_free_of nrc).
  set (m := length nh).
  set (s0 := {| free_segments := _; free_count := _; st_amend := unknown; st_insert := repeat (-1) m |}).
  set (s1 := loop1 (firstn F (m_caps mem)) nl (flatnonzero unknown) s0).
  set (segs2 := take_idx 0%nat (flatnonzero (st_amend s1)) (rev (argsort (mask (st_amend s1) nl)))).
  set (s2 := loop2 (m_caps mem) (firstn F (m_caps mem)) nl segs2 s1).
  destruct (_ <? _) eqn:Efrag; [discriminate|].
  intros Hd; inversion Hd; subst d; clear Hd.
  (* basic facts *)
  assert (Hw2s_len : length w2s = m) by apply find_positions_length.
  assert (Hunk_len : length unknown = m) by (unfold unknown; rewrite map_length; exact Hw2s_len).
  assert (Hnrc_len : length nrc = length (m_refs mem)) by apply incr_at_length.
  destruct (first_free_spec nrc) as (HF_le & HF_last & HF_hi). fold F in HF_le, HF_last, HF_hi.
  assert (Hrange : forall p, In p w2s -> p = -1 \/ 0 <= p) by (intros p; apply w2s_range).
  assert (Hunk_nth : forall j, (j < m)%nat -> nth j unknown false = (nth j w2s (-1) =? -1)).
  { intros j Hj. unfold unknown. apply (nth_map_lt (fun p => p =? -1)). lia. }
  (* invariant initially *)
  assert (I0 : Inv nrc (m_caps mem) nl F m unknown s0).
  { constructor; cbn.
    - rewrite map_length, firstn_length. lia.
    - exact Hunk_len.
    - apply repeat_length.
    - intros i Hi. pose proof (nth_true_lt _ _ Hi) as Hlt. rewrite map_length, firstn_length in Hlt.
      rewrite (nth_map_lt (fun r => r =? 0) _ _ _ 1) in Hi by (rewrite firstn_length; lia).
      rewrite nth_firstn' in Hi by lia. split; [lia|].
      intros Hin. apply repeat_spec in Hin. lia.
    - intros j Hj. rewrite nth_repeat'. destruct (nth j unknown false) eqn:E; auto.
    - intros j1 j2 i _ _ H1 _. rewrite nth_repeat' in H1. lia. }
  (* first loop *)
  assert (I1 : Inv nrc (m_caps mem) nl F m unknown s1).
  { apply loop1_inv; [|exact I0]. apply Forall_forall. intros seg Hseg. apply flatnonzero_spec in Hseg.
    split; [|exact Hseg]. apply nth_true_lt in Hseg. lia. }
  (* second loop *)
  assert (I2 : Inv nrc (m_caps mem) nl F m unknown s2).
  { apply loop2_inv; [|exact I1]. apply Forall_forall. intros seg Hseg.
    unfold segs2, take_idx in Hseg. apply in_map_iff in Hseg as (q & Hq & Hqin).
    apply in_rev in Hqin. apply argsort_lt in Hqin.
    rewrite mask_length in Hqin by (rewrite (inv_len_amend _ _ _ _ _ _ _ I1); exact L3).
    assert (Hin : In seg (flatnonzero (st_amend s1))).
    { rewrite <- Hq. apply nth_In. unfold flatnonzero. rewrite flatnonzero_from_length. exact Hqin. }
    apply flatnonzero_spec in Hin. pose proof (nth_true_lt _ _ Hin) as Hlt.
    rewrite (inv_len_amend _ _ _ _ _ _ _ I1) in Hlt. split; [exact Hlt|].
    pose proof (inv_seg _ _ _ _ _ _ _ I1 seg Hlt) as Hs.
    destruct (nth seg unknown false); [reflexivity|]. destruct Hs as [Hs _]. congruence. }
  pose proof (inv_len_amend _ _ _ _ _ _ _ I2) as Ham_len.
  pose proof (inv_len_insert _ _ _ _ _ _ _ I2) as Hins_len.
  (* a written slot: position, counter, capacity *)
  assert (Hplaced : forall j q, nth_error (st_insert s2) j = Some q -> q <> -1 ->
            (j < m)%nat /\ nth j unknown false = true /\ nth j (st_amend s2) false = false /\
            exists i, q = Z.of_nat i /\ (i < F)%nat /\ nth i nrc 1 = 0 /\ nth j nl 0 <= nth i (m_caps mem) 0).
  { intros j q Hq Hne. apply (nth_error_nth' _ _ (-1)) in Hq as [Hj Hq]. rewrite Hins_len in Hj.
    pose proof (inv_seg _ _ _ _ _ _ _ I2 j Hj) as Hs. split; [exact Hj|].
    destruct (nth j unknown false).
    - destruct Hs as [[_ Hs]|[Ha (i & Hi & Hrest)]]; [congruence|].
      split; [reflexivity|]. split; [exact Ha|]. exists i. rewrite <- Hq. auto.
    - destruct Hs as [_ Hs]. congruence. }
  unfold decision_ok. cbn [d_w2s d_amend d_insert]. repeat split.
  - (* clause 1 *)
    unfold clause_reuse; cbn [d_w2s]. intros j p Hp Hne.
    apply find_positions_spec in Hp as [->|(i & x & -> & Hi & Hx & Hj)]; [congruence|].
    exists i, x. split; [reflexivity|]. split; [|exact Hj]. rewrite <- Hx. apply nth_nth_error. exact Hi.
  - (* clause 2, per slot *)
    cbn [d_insert d_w2s]. intros j q Hq Hne.
    destruct (Hplaced j q Hq Hne) as (Hj & _ & _ & i & -> & HiF & Hnrc & Hcap).
    apply nrc_zero in Hnrc as (Hi & Hr0 & Hnk); [|exact Hnn].
    exists i, (nth i (m_caps mem) 0), (nth j nl 0). split; [reflexivity|].
    split; [rewrite <- Hr0; apply nth_nth_error; exact Hi|].
    split; [unfold reused; cbn [d_w2s]; intros Hin; apply Hnk; apply known_pos_in; assumption|].
    split; [apply nth_nth_error; lia|]. split; [apply nth_nth_error; unfold m in Hj; lia|exact Hcap].
  - (* clause 2, distinct *)
    cbn [d_insert]. intros j1 j2 p H1 H2 Hne.
    destruct (Hplaced j1 p H1 Hne) as (Hj1 & _ & _ & i & -> & _).
    destruct (Hplaced j2 _ H2 Hne) as (Hj2 & _).
    apply (nth_error_nth' _ _ (-1)) in H1 as [_ H1]. apply (nth_error_nth' _ _ (-1)) in H2 as [_ H2].
    eapply (inv_distinct _ _ _ _ _ _ _ I2); eauto.
  - (* clause 3 *)
    unfold clause_amend. cbn [d_amend m_total].
    assert (Hue : used_end mem {| d_w2s := w2s; d_amend := st_amend s2; d_insert := st_insert s2 |} = F).
    { unfold used_end. apply used_end_upto_spec.
      - lia.
      - destruct HF_last as [HF0|(k & Hk & Hm)]; [left; exact HF0|right]. exists k. split; [exact Hk|].
        apply nrc_pos in Hm as [Hkn Hm]; [|exact Hnn]. unfold usedb; cbn [d_w2s d_insert].
        destruct Hm as [Hm|Hm].
        + assert (0 <? nth k (m_refs mem) 0 = true) by lia. rewrite H. reflexivity.
        + apply known_pos_in in Hm; [|exact Hrange]. apply existsb_Z_in in Hm. rewrite Hm. rewrite orb_true_r. reflexivity.
      - intros i [Hi1 Hi2]. unfold usedb; cbn [d_w2s d_insert].
        pose proof (HF_hi i Hi1) as Hm.
        assert (Hnot : ~ ((i < length (m_refs mem))%nat /\ (0 < nth i (m_refs mem) 0 \/ In i kp))).
        { intros Hc. apply (nrc_pos (m_refs mem) kp i Hnn) in Hc. fold nrc in Hc. congruence. }
        destruct (0 <? nth i (m_refs mem) 0) eqn:E1; [exfalso; apply Hnot; split; [exact Hi2|left; lia]|].
        destruct (existsb (Z.eqb (Z.of_nat i)) w2s) eqn:E2.
        { exfalso; apply Hnot; split; [exact Hi2|right]. apply known_pos_in; [exact Hrange|]. apply existsb_Z_in. exact E2. }
        destruct (existsb (Z.eqb (Z.of_nat i)) (st_insert s2)) eqn:E3; [|reflexivity].
        exfalso. apply existsb_Z_in in E3. apply In_nth_error in E3 as (j & Hj).
        destruct (Hplaced j _ Hj ltac:(lia)) as (_ & _ & _ & i' & Heq & Hlt & _). lia. }
    rewrite Hue. lia.
  - (* clause 4 *) cbn [d_w2s]. exact Hw2s_len.
  - cbn [d_amend]. exact Ham_len.
  - cbn [d_insert]. exact Hins_len.
  - cbn [d_w2s d_amend d_insert]. intros j p a q Hp Ha Hq.
    apply (nth_error_nth' _ _ (-1)) in Hp as [Hj Hp]. apply (nth_error_nth' _ _ false) in Ha as [_ Ha].
    apply (nth_error_nth' _ _ (-1)) in Hq as [_ Hq]. rewrite Hw2s_len in Hj.
    pose proof (inv_seg _ _ _ _ _ _ _ I2 j Hj) as Hs. rewrite (Hunk_nth j Hj), Hp, Ha, Hq in Hs.
    unfold exactly_one, placed in *. rewrite Ha, Hq in Hs.
    destruct (p =? -1) eqn:E.
    + destruct Hs as [[H1 H2]|[H1 (i & H2 & _)]].
      * right; right. repeat split; [lia|lia|exact H1].
      * right; left. repeat split; [lia|lia|congruence].
    + destruct Hs as [H1 H2]. left. repeat split; [lia|lia|congruence].
Qed.

(* ------------------------------------------------------------------------------------------------------------- *)
(* non-vacuity and necessity of the hypothesis                                                                    *)

(* a layout on which all three outcomes occur: segment 0 is reused (slot 1), segment 1 is written into the free
   slot 2 (equal length), segment 2 into the larger free slot 3, segment 3 is appended *)
Definition ex_mem : memory :=
  {| m_hashes := [1; 2; 3; 4; 5]; m_refs := [1; 1; 0; 0; 1]; m_caps := [192; 208; 224; 384; 192]; m_total := 4000 |}.
Definition ex_new_hashes : list Z := [2; 7; 8; 9].
Definition ex_new_lens : list Z := [208; 224; 300; 512].

Example ex_decision :
  find_place ex_mem ex_new_hashes ex_new_lens =
  Ok {| d_w2s := [1; -1; -1; -1]; d_amend := [false; false; false; true]; d_insert := [-1; 2; 3; -1] |}.
Proof. vm_compute. reflexivity. Qed.

Example ex_refs_nonneg : Forall (fun r => 0 <= r) (m_refs ex_mem).
Proof. repeat constructor; cbn; lia. Qed.

(* with a negative "reference count" (not a count; numpy would need a signed array) the reused slot 1 is not seen as
   reserved, and the appended segment is accepted although it does not fit behind slot 1 *)
Definition neg_mem : memory := {| m_hashes := [5; 3]; m_refs := [1; -1]; m_caps := [208; 256]; m_total := 1474 |}.
Lemma negative_refcount_breaks_clause3 :
  exists d, find_place neg_mem [2; 3] [1024; 208] = Ok d /\ ~ decision_ok neg_mem [2; 3] [1024; 208] d.
Proof.
  eexists. split; [vm_compute; reflexivity|].
  intros (_ & _ & H & _). unfold clause_amend in H. vm_compute in H. apply H. reflexivity.
Qed.

(* the assertion of the code can never fire *)
Lemma find_place_no_assertion mem nh nl : find_place mem nh nl <> Err AssertionFailed.
Proof.
  unfold find_place.
  destruct (negb _); [discriminate|].
  set (w2s := find_positions (m_hashes mem) nh).
  assert (Heq : zlist_eqb (take_idx 0 (m_hashes mem)
                   (map Z.to_nat (mask (map negb (map (fun p => p =? -1) w2s)) w2s)))
                 (mask (map negb (map (fun p => p =? -1) w2s)) nh) = true).
  { assert (Hs : forall j p, nth_error w2s j = Some p ->
               p = -1 \/ exists x, nth (Z.to_nat p) (m_hashes mem) 0 = x /\ nth_error nh j = Some x /\ p <> -1).
    { intros j p Hp. apply find_positions_spec in Hp as [->|(i & x & -> & _ & Hx & Hj)]; [auto|right].
      exists x. rewrite Nat2Z.id. repeat split; auto. lia. }
    assert (Hl : length w2s = length nh) by apply find_positions_length.
    clearbody w2s. revert nh Hs Hl. induction w2s as [|p w IH]; intros [|h nh] Hs Hl; cbn in *; try discriminate; auto.
    assert (IH' : zlist_eqb (take_idx 0 (m_hashes mem) (map Z.to_nat (mask (map negb (map (fun p => p =? -1) w)) w)))
                    (mask (map negb (map (fun p => p =? -1) w)) nh) = true).
    { apply IH; [|lia]. intros j q Hq. apply (Hs (S j) q Hq). }
    destruct (Hs 0%nat p eq_refl) as [->|(x & Hx & Hh & Hne)].
    - cbn. exact IH'.
    - cbn in Hh. inversion Hh; subst h. destruct (p =? -1) eqn:E; [lia|].
      cbn [negb mask map take_idx zlist_eqb]. unfold take_idx in IH'. rewrite IH', Hx, Z.eqb_refl. reflexivity. }
  rewrite Heq. cbn. destruct (_ <? _); [discriminate|]. destruct (_ <? _); discriminate.
Qed.
