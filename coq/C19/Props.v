(* C19 — property theorems (statements only; proofs live in Proofs*.v). *)
From Coq Require Import ZArith List Bool.
Require Import QV.C19.Model QV.C19.Spec QV.C19.Proofs.
Import ListNotations.
Open Scope Z_scope.

(* Decision level, all layouts / all new-segment lists (no bound on either): whenever the model of
   find_place_for_segments_in_memory returns a decision, the four clauses of Spec.decision_ok hold:
   reuse only on equal hash; overwritten slots have reference count 0, are not reused by this upload, are large enough
   and pairwise distinct; the appended segments (+16 each) fit behind the last used slot; every new segment is exactly
   one of reused / inserted / appended.  Hypothesis: reference counts are counts (>= 0). *)
Theorem C19_decision : forall mem new_hashes new_lens d,
  Forall (fun r => 0 <= r) (m_refs mem) ->
  find_place mem new_hashes new_lens = Ok d -> decision_ok mem new_hashes new_lens d.
Proof. exact find_place_decision_ok. Qed.
Print Assumptions C19_decision.

(* the hypotheses are satisfiable on a layout where reuse, insertion (equal and larger slot) and appending all occur *)
Theorem C19_decision_nonvacuous :
  Forall (fun r => 0 <= r) (m_refs ex_mem) /\
  find_place ex_mem ex_new_hashes ex_new_lens =
  Ok {| d_w2s := [1; -1; -1; -1]; d_amend := [false; false; false; true]; d_insert := [-1; 2; 3; -1] |}.
Proof. exact (conj ex_refs_nonneg ex_decision). Qed.
Print Assumptions C19_decision_nonvacuous.

(* the hypothesis is needed: with a negative reference count clause 3 fails *)
Theorem C19_decision_needs_nonneg_refcounts :
  exists mem nh nl d, find_place mem nh nl = Ok d /\ ~ decision_ok mem nh nl d.
Proof. exists neg_mem, [2; 3], [1024; 208]. exact negative_refcount_breaks_clause3. Qed.
Print Assumptions C19_decision_needs_nonneg_refcounts.

(* find_positions: every answer is -1 or an index holding the searched value *)
Theorem C19_find_positions_sound : forall data to_find j p,
  nth_error (find_positions data to_find) j = Some p ->
  p = -1 \/ exists i x, p = Z.of_nat i /\ (i < length data)%nat /\ nth i data 0 = x /\ nth_error to_find j = Some x.
Proof. exact find_positions_spec. Qed.
Print Assumptions C19_find_positions_sound.

(* ... and it is the FIRST such index; -1 exactly when the value does not occur (np.searchsorted with a stable sorter) *)
Require Import QV.C19.ProofsFind.
Theorem C19_find_positions_first : forall data to_find j x,
  nth_error to_find j = Some x ->
  ((~ In x data) -> nth_error (find_positions data to_find) j = Some (-1)) /\
  (forall i, (i < length data)%nat -> nth i data 0 = x ->
     exists i0, nth_error (find_positions data to_find) j = Some (Z.of_nat i0) /\ (i0 <= i)%nat /\ nth i0 data 0 = x).
Proof. exact find_positions_first. Qed.
Print Assumptions C19_find_positions_first.

(* the `assert` in the code never fires *)
Theorem C19_no_assertion_error : forall mem nh nl, find_place mem nh nl <> Err AssertionFailed.
Proof. exact find_place_no_assertion. Qed.
Print Assumptions C19_no_assertion_error.

(* the executable checker that the correspondence check evaluates on the arrays returned by the implementation
   (Corr.check_spec) decides exactly the specification of C19_decision *)
Require Import QV.C19.ProofsSpec.
Theorem C19_checker_decides_spec : forall mem new_hashes new_lens d,
  length new_hashes = length new_lens ->
  (decision_okb mem new_hashes new_lens d = true <-> decision_ok mem new_hashes new_lens d).
Proof. exact decision_okb_iff. Qed.
Print Assumptions C19_checker_decides_spec.

(* ------------------------------------------------------------------------------------------------------------- *)
(* DRIVER PART.  Driver.v models the bookkeeping of qupulse/hardware/awgs/tabor.py::TaborChannelPair by hand (the file
   needs tabor_control, which is not installed).  The model is tied to the source only through a correspondence check
   that runs the real class against an abstract fake instrument with sampling replaced by stand-ins
   (harness/props/c19_driver.py); no real instrument or simulator is involved.  The theorems below are about that
   model. *)
Require Import QV.C19.Driver QV.C19.ProofsDriver.

(* For every history of upload(force or not) / free_program / remove / cleanup / clear, starting from clear(), every
   known program's waveform j sits in an existing slot whose device content is the waveform's own hash and whose
   reference count is >= 1.  Histories are unbounded; exceptions (refusals, unknown names) leave the state the code
   leaves and the history goes on. *)
Theorem C19_history : forall total ops p j q,
  let d := run (clear total) ops in
  In p (dv_known d) -> nth_error (pg_w2s p) j = Some q ->
  exists i, q = Z.of_nat i /\ (i < length (dv_dev d))%nat /\
            nth i (dv_dev d) 0 = nth j (pg_segs p) 0 /\ 1 <= nth i (dv_refs d) 0.
Proof. exact history_slots_hold_data. Qed.
Print Assumptions C19_history.

(* the same for ANY placement function that satisfies the four clauses: the history property follows from the
   decision-level specification alone *)
Theorem C19_history_from_clauses : forall place : place_fun,
  (forall mem nh nl d, Forall (fun r => 0 <= r) (m_refs mem) -> place mem nh nl = Ok d -> decision_ok mem nh nl d) ->
  forall total ops p j q,
  let d := run_with place (clear total) ops in
  In p (dv_known d) -> nth_error (pg_w2s p) j = Some q ->
  exists i, q = Z.of_nat i /\ (i < length (dv_dev d))%nat /\
            nth i (dv_dev d) 0 = nth j (pg_segs p) 0 /\ 1 <= nth i (dv_refs d) 0.
Proof. exact history_slots_hold_data_gen. Qed.
Print Assumptions C19_history_from_clauses.

(* bookkeeping after every history: equal array lengths and non-negative counters (the preconditions of C19_decision
   are maintained by the driver), belief = device content, the idle slot 0 is never released (so `to_insert > 0` in
   upload() loses nothing; the counting argument is C19_history_refcounts / C19_history_idle_slot below), program
   names unique *)
Theorem C19_history_bookkeeping : forall total ops,
  let d := run (clear total) ops in
  length (dv_hashes d) = length (dv_refs d) /\ length (dv_caps d) = length (dv_refs d) /\
  Forall (fun r => 0 <= r) (dv_refs d) /\ dv_hashes d = dv_dev d /\ 1 <= nth 0%nat (dv_refs d) 0 /\
  NoDup (map pg_name (dv_known d)).
Proof. exact history_bookkeeping. Qed.
Print Assumptions C19_history_bookkeeping.

(* Reference counts (the argument behind "slot 0 is never released").  After every history the count of slot i is at
   least the number of known programs that play from slot i, plus one for slot 0, which the idle sequence plays from.
   Histories include programs with a segment that is bit-identical to the idle waveform (`idle_seg`, hash IDLE): the
   placement maps it to slot 0 (C19_find_positions_first), upload() counts the re-use (`waveform_to_segment >= 0`) and
   free_program() un-counts it. *)
Theorem C19_history_refcounts : forall total ops i,
  let d := run (clear total) ops in
  (i < length (dv_refs d))%nat ->
  Z.of_nat (length (filter (fun p => existsb (Z.eqb (Z.of_nat i)) (pg_w2s p)) (dv_known d)))
  + (if Nat.eqb i 0 then 1 else 0) <= nth i (dv_refs d) 0.
Proof. exact history_refcounts. Qed.
Print Assumptions C19_history_refcounts.

(* Round 4: the count is EXACT — count of slot i = number of known programs playing from slot i (+1 for slot 0).  No
   reference is leaked by any history (forced re-uploads, refused uploads, removal of unknown names, duplicates inside a
   program ...): a slot with a positive count is played by a known program or is the idle slot, so an unused slot is
   always reclaimed by cleanup() / offered to the placement. *)
Theorem C19_history_refcounts_exact : forall total ops i,
  let d := run (clear total) ops in
  (i < length (dv_refs d))%nat ->
  nth i (dv_refs d) 0 =
  Z.of_nat (length (filter (fun p => existsb (Z.eqb (Z.of_nat i)) (pg_w2s p)) (dv_known d)))
  + (if Nat.eqb i 0 then 1 else 0).
Proof. exact history_refcounts_exact. Qed.
Print Assumptions C19_history_refcounts_exact.

(* The idle slot after every history: it exists, the instrument and the driver's record hold the idle waveform in it
   (no upload writes to it, no cleanup drops it), and its count exceeds the number of programs sharing it. *)
Theorem C19_history_idle_slot : forall total ops,
  let d := run (clear total) ops in
  (1 <= length (dv_dev d))%nat /\ nth 0%nat (dv_dev d) 0 = IDLE /\ nth 0%nat (dv_hashes d) 0 = IDLE /\
  Z.of_nat (length (filter (fun p => existsb (Z.eqb 0) (pg_w2s p)) (dv_known d))) + 1 <= nth 0%nat (dv_refs d) 0.
Proof. exact history_idle_slot. Qed.
Print Assumptions C19_history_idle_slot.

(* non-vacuity for slot 0: programs 1 and 2 both contain `idle_seg` and share slot 0 (count 3), program 1 is removed
   (count 2, program 2 still plays from slot 0), program 3 with an unknown 192-point segment does not get slot 0 *)
Theorem C19_history_slot0_nonvacuous :
  let d := run (clear 100000) slot0_ops in
  let d' := run (clear 100000) (slot0_ops ++ [slot0_next]) in
  map (fun p => (pg_name p, pg_w2s p)) (dv_known d) = [(2%nat, [0; 2])] /\ dv_refs d = [2; 0; 1] /\
  map (fun p => (pg_name p, pg_w2s p)) (dv_known d') = [(3%nat, [3; 1]); (2%nat, [0; 2])] /\
  dv_dev d' = [0; 14; 12; 13] /\ dv_refs d' = [2; 1; 1; 1].
Proof. exact slot0_history. Qed.
Print Assumptions C19_history_slot0_nonvacuous.

(* ... and the count of the re-use of slot 0 is necessary: the driver model with the mask `waveform_to_segment > 0`
   (`run_counted`; with `>= 0` it is `run`) leaves slot 0 with count 0 while program 2 plays from it, and then
   registers program 3 with waveform_to_segment = -1 for a segment that was never written *)
Theorem C19_slot0_reuse_must_be_counted :
  (forall d ops, run_counted (fun p => 0 <=? p) d ops = run d ops) /\
  let gt := fun p => 0 <? p in
  let d := run_counted gt (clear 100000) slot0_ops in
  let d' := run_counted gt (clear 100000) (slot0_ops ++ [slot0_next]) in
  map (fun p => (pg_name p, pg_w2s p)) (dv_known d) = [(2%nat, [0; 2])] /\ dv_refs d = [0; 0; 1] /\
  map (fun p => (pg_name p, pg_w2s p)) (dv_known d') = [(3%nat, [-1; 1]); (2%nat, [0; 2])] /\ dv_dev d' = [0; 14; 12].
Proof. exact slot0_reuse_must_be_counted_full. Qed.
Print Assumptions C19_slot0_reuse_must_be_counted.

(* After any history the next operation, whatever it is, does not end in one of the driver's internal errors: the two
   ValueErrors of _upload_segment ("Reference count not zero", "Cannot upload segment here") and numpy's IndexError in
   free_program — the placement only hands out slots that pass _upload_segment's own checks. *)
Require Import QV.C19.ProofsNoErr.
Theorem C19_history_no_internal_error : forall total ops o e,
  snd (step_with find_place (run (clear total) ops) o) = Some e ->
  e <> RefCountNotZero /\ e <> TooLarge /\ e <> BadIndex.
Proof. exact history_no_internal_error'. Qed.
Print Assumptions C19_history_no_internal_error.

(* round 5: the hypothesis `the next operation ends in an error` is satisfiable — each of the four kinds of errors the
   modelled driver CAN raise occurs after a real history (known name without force, unknown name, not enough memory,
   fragmentation) *)
Theorem C19_history_no_internal_error_nonvacuous :
  snd (step_with find_place (run (clear 1000) [OUpload 1 [(11, 256)] false]) (OUpload 1 [(11, 256)] false)) = Some AlreadyKnown /\
  snd (step_with find_place (run (clear 1000) [OUpload 1 [(11, 256)] false]) (ORemove 7)) = Some UnknownProgram /\
  snd (step_with find_place (run (clear 1000) [OUpload 1 [(11, 256)] false]) (OUpload 2 [(12, 1024)] false))
    = Some (Refused NotEnoughMemory) /\
  snd (step_with find_place (run (clear 1000) [OUpload 1 [(11, 320)] false; OUpload 2 [(12, 192)] false; OFree 1])
                 (OUpload 3 [(13, 336)] false)) = Some (Refused Fragmentation).
Proof. exact no_internal_error_hyp_satisfiable. Qed.
Print Assumptions C19_history_no_internal_error_nonvacuous.

(* round 5: the decisions taken INSIDE a history ("driven through the decision function").  upload() calls the placement
   on `mem_of d1`, d1 = the driver's own arrays before the call (after free_program for a forced re-upload — itself a
   reachable state, ops ++ [OFree name]).  After every history total_capacity is the instrument's, and whatever the
   placement decides on the arrays of that state satisfies the four clauses with respect to THOSE arrays (in particular
   clause 3 with the slot CAPACITIES and 16 points of spacing per appended segment, which C19_history_capacity does not
   count). *)
Theorem C19_history_decisions : forall total ops nh nl dec,
  let d := run (clear total) ops in
  dv_total d = total /\
  (find_place (mem_of d) nh nl = Ok dec -> decision_ok (mem_of d) nh nl dec).
Proof. exact history_decisions. Qed.
Print Assumptions C19_history_decisions.

(* non-vacuity: a history with sharing, removal, slot re-use and a forced re-upload *)
Theorem C19_history_nonvacuous :
  let d := run (clear 100000) ex_ops in
  map (fun p => (pg_name p, pg_w2s p)) (dv_known d) = [(2%nat, [3]); (3%nat, [1; 2; 4])] /\
  dv_dev d = [0; 14; 12; 16; 15] /\ dv_refs d = [1; 1; 1; 1; 1].
Proof. exact ex_history. Qed.
Print Assumptions C19_history_nonvacuous.

(* Capacity.  After every history the capacities of all defined slots fit into the instrument.  This was FALSE for the
   driver before /repo's repair of the finding `append-behind-freed-trailing-slots` (upload(force=True) / free_program
   release slots without cleanup; find_place counts freed slots behind the last referenced one as reclaimed, but
   _amend_segments appended behind them); upload() now calls cleanup() right before _amend_segments and the statement
   holds without a guard.  `ops_lens_nonneg` is input well-formedness: segment lengths are numbers of points. *)
Theorem C19_history_capacity : forall total ops,
  192 <= total -> ops_lens_nonneg ops = true ->
  zsum (dv_caps (run (clear total) ops)) <= total.
Proof. exact history_capacity. Qed.
Print Assumptions C19_history_capacity.

(* the hypothesis is satisfiable by a history with sharing, removal, re-use and a forced re-upload; and the history
   that over-committed the memory before the repair (2032 of 2000 points) now ends with 1184 points in 4 slots *)
Theorem C19_history_capacity_nonvacuous :
  ops_lens_nonneg ex_ops = true /\
  ops_lens_nonneg overflow_ops = true /\
  dv_caps (run (clear 2000) overflow_ops) = [192; 208; 400; 384] /\
  map pg_w2s (dv_known (run (clear 2000) overflow_ops)) = [ [1; 2; 3] ].
Proof. exact (conj ex_ops_lens former_overflow_witness). Qed.
Print Assumptions C19_history_capacity_nonvacuous.

(* ------------------------------------------------------------------------------------------------------------- *)
(* numpy primitives.  The correspondence check runs every primitive the model relies on against numpy itself and
   evaluates (a) the list model and (b) an independent specification on numpy's output (Corr.prim_corr / prim_spec).
   For the central one, the stable argsort, the model provably meets that specification (permutation of the index
   range, keys ascending, equal keys by ascending index) for every array. *)
Require Import QV.C19.Corr QV.C19.ProofsPrim.
Theorem C19_argsort_model_meets_spec : forall a, prim_spec (PArgsort a (znat (argsort a))) = true.
Proof. exact argsort_meets_spec. Qed.
Print Assumptions C19_argsort_model_meets_spec.

(* The same for the other 13 primitives (ProofsPrim2.v): for every input numpy accepts (hypotheses = numpy's own
   preconditions: a boolean mask as long as the array, indices in range, as many values as True positions) the list
   model's output satisfies the independent specification.  The code has no cumsum; its sums are np.sum(a[m] + 16)
   (PSum16) and np.sum(caps[:first_free]) (PFirstFree gives the slice). *)
Require Import QV.C19.ProofsPrim2.
Theorem C19_flatnonzero_model_meets_spec : forall m, prim_spec (PFlatnonzero m (znat (flatnonzero m))) = true.
Proof. exact flatnonzero_meets_spec. Qed.
Print Assumptions C19_flatnonzero_model_meets_spec.

Theorem C19_mask_model_meets_spec : forall m a, length m = length a -> prim_spec (PMask m a (mask m a)) = true.
Proof. exact mask_meets_spec. Qed.
Print Assumptions C19_mask_model_meets_spec.

Theorem C19_take_model_meets_spec : forall a idx,
  zidx_ok (length a) idx = true -> prim_spec (PTake a idx (take_idx 0 a (nats idx))) = true.
Proof. exact take_meets_spec. Qed.
Print Assumptions C19_take_model_meets_spec.

(* np.searchsorted(data, x, side, sorter=argsort(data)): the model counts on the sorted view (which is ascending and a
   permutation of the data), the specification on the unsorted data *)
Theorem C19_searchsorted_model_meets_spec : forall data xs,
  let sorted := take_idx 0 data (argsort data) in
  Sorted.StronglySorted Z.le sorted /\
  prim_spec (PSearch data xs (map (fun x => Z.of_nat (count_lt x sorted)) xs)
                             (map (fun x => Z.of_nat (count_le x sorted)) xs)) = true.
Proof. exact (fun data xs => conj (sorted_data_ascending data) (searchsorted_meets_spec data xs)). Qed.
Print Assumptions C19_searchsorted_model_meets_spec.

Theorem C19_argmax_model_meets_spec : forall m,
  prim_spec (PArgmax m (Z.of_nat (argmax_bool m)) (Z.of_nat (argmax_bool (rev m)))) = true.
Proof. exact argmax_meets_spec. Qed.
Print Assumptions C19_argmax_model_meets_spec.

Theorem C19_sortedpick_model_meets_spec : forall m a, length m = length a ->
  prim_spec (PSortedPick m a (znat (take_idx 0%nat (flatnonzero m) (rev (argsort (mask m a)))))) = true.
Proof. exact sortedpick_meets_spec. Qed.
Print Assumptions C19_sortedpick_model_meets_spec.

Theorem C19_incr_model_meets_spec : forall idx a,
  zidx_ok (length a) idx = true -> prim_spec (PIncr idx a (incr_at (nats idx) a)) = true.
Proof. exact incr_meets_spec. Qed.
Print Assumptions C19_incr_model_meets_spec.

(* a[idx] -= 1 with numpy's negative-index wrap: no precondition, an index out of range is the IndexError outcome *)
Theorem C19_decrwrap_model_meets_spec : forall idx a,
  prim_spec (PDecrWrap idx a (option_map (fun l => decr_at l a) (norm_all (length a) idx))) = true.
Proof. exact decrwrap_meets_spec. Qed.
Print Assumptions C19_decrwrap_model_meets_spec.

Theorem C19_sum16_model_meets_spec : forall m a,
  length m = length a -> prim_spec (PSum16 m a (zsum (map (fun l => l + 16) (mask m a)))) = true.
Proof. exact sum16_meets_spec. Qed.
Print Assumptions C19_sum16_model_meets_spec.

Theorem C19_assignmask_model_meets_spec : forall w m v,
  length m = length w -> length v = count_true m -> prim_spec (PAssignMask w m v (assign_mask w m v)) = true.
Proof. exact assignmask_meets_spec. Qed.
Print Assumptions C19_assignmask_model_meets_spec.

Theorem C19_firstfree_model_meets_spec : forall r,
  prim_spec (PFirstFree r (Z.of_nat (first_free_of r)) (firstn (first_free_of r) r)) = true.
Proof. exact firstfree_meets_spec. Qed.
Print Assumptions C19_firstfree_model_meets_spec.

Theorem C19_setat_model_meets_spec : forall a i v,
  0 <= i < Z.of_nat (length a) -> prim_spec (PSetAt a i v (set_nth (Z.to_nat i) v a)) = true.
Proof. exact setat_meets_spec. Qed.
Print Assumptions C19_setat_model_meets_spec.

Theorem C19_findpositions_model_meets_spec : forall data xs,
  prim_spec (PFindPositions data xs (find_positions data xs)) = true.
Proof. exact findpositions_meets_spec. Qed.
Print Assumptions C19_findpositions_model_meets_spec.

(* ------------------------------------------------------------------------------------------------------------- *)
(* Round 4: the copy of the placement in hardware/feature_awg/tabor.py sorts with numpy's DEFAULT argsort in its second
   loop (the order of the remaining segments; in every iteration the free slots by capacity).  The order of equal keys
   is unspecified.  ModelND.find_place_nd takes the two sorts from an oracle indexed by the call number; `oracle_ok` =
   every answer is a permutation of the positions that brings the keys into non-decreasing order (all that argsort
   promises).  EVERY tie order yields a decision that satisfies the four clauses, and the history theorem holds for
   the driver run with any such oracle.  With the stable sort as oracle the definition is Model.find_place. *)
Require Import QV.C19.ModelND QV.C19.ProofsND.

Theorem C19_decision_any_tie_order : forall (srt : sort_oracle) mem new_hashes new_lens d,
  oracle_ok srt -> Forall (fun r => 0 <= r) (m_refs mem) ->
  find_place_nd srt mem new_hashes new_lens = Ok d -> decision_ok mem new_hashes new_lens d.
Proof. exact find_place_nd_decision_ok. Qed.
Print Assumptions C19_decision_any_tie_order.

Theorem C19_stable_sort_is_an_instance : forall mem nh nl,
  find_place_nd (fun _ => argsort) mem nh nl = find_place mem nh nl.
Proof. exact find_place_nd_stable. Qed.
Print Assumptions C19_stable_sort_is_an_instance.

Theorem C19_history_any_tie_order : forall srt : sort_oracle, oracle_ok srt ->
  forall total ops p j q,
  let d := run_with (find_place_nd srt) (clear total) ops in
  In p (dv_known d) -> nth_error (pg_w2s p) j = Some q ->
  exists i, q = Z.of_nat i /\ (i < length (dv_dev d))%nat /\
            nth i (dv_dev d) 0 = nth j (pg_segs p) 0 /\ 1 <= nth i (dv_refs d) 0.
Proof.
  intros srt H. apply history_slots_hold_data_gen. intros mem nh nl d. apply find_place_nd_decision_ok. exact H.
Qed.
Print Assumptions C19_history_any_tie_order.

(* round 5: the hypothesis `oracle_ok` is inhabited — by the stable sort, by a sort that breaks EVERY tie the other way
   round (for all arrays, not only the example below), and by an oracle that alternates between the two from call to call *)
Theorem C19_tie_order_oracles_exist :
  oracle_ok (fun _ => argsort) /\ oracle_ok (fun _ => argsort_rev_ties) /\
  oracle_ok (fun k => if Nat.even k then argsort else argsort_rev_ties).
Proof. exact oracle_ok_inhabited. Qed.
Print Assumptions C19_tie_order_oracles_exist.

(* non-vacuity: two legal argsorts of [384; 384] that differ, and a layout on which the tie order decides WHICH of two
   free slots is overwritten (slot 2 with the stable sort, slot 1 with ties the other way round); both are safe *)
Theorem C19_tie_order_matters :
  is_argsort [384; 384] (argsort [384; 384]) /\ is_argsort [384; 384] (argsort_rev_ties [384; 384]) /\
  argsort [384; 384] <> argsort_rev_ties [384; 384] /\
  find_place_nd (fun _ => argsort) nd_mem [9] [300] = Ok {| d_w2s := [-1]; d_amend := [false]; d_insert := [2] |} /\
  find_place_nd (fun _ => argsort_rev_ties) nd_mem [9] [300] = Ok {| d_w2s := [-1]; d_amend := [false]; d_insert := [1] |}.
Proof. exact nd_tie_order_matters. Qed.
Print Assumptions C19_tie_order_matters.

(* ------------------------------------------------------------------------------------------------------------- *)
(* Round 4: `_segment_lengths` and the :TRAC:DEF / download_segment_lengths traffic (DriverLens.v, a layer on top of
   Driver.v: its `x_d` component IS `run`).  A slot plays `defined length` points; a program's segment is intact only if
   its slot is defined with the segment's own length.  `lenof` = length of the segment with a given hash (different
   segments do not share a hash — the identification of content and hash the whole driver model rests on).
   After every history: the length array is as long as the others, the instrument's table of defined lengths equals the
   driver's belief, every slot is defined with the length of the segment it holds, never longer than its capacity. *)
Require Import QV.C19.DriverLens QV.C19.ProofsLens.

Theorem C19_history_lengths : forall lenof total ops,
  lenof IDLE = 192 -> Forall (op_lens_from lenof) ops ->
  let s := xrun find_place (xclear total) ops in
  x_d s = run (clear total) ops /\
  length (x_lens s) = length (dv_caps (x_d s)) /\ x_devlen s = x_lens s /\
  (forall i, (i < length (dv_caps (x_d s)))%nat ->
     nth i (x_devlen s) 0 = lenof (nth i (dv_dev (x_d s)) 0) /\ nth i (x_devlen s) 0 <= nth i (dv_caps (x_d s)) 0).
Proof. exact history_lengths. Qed.
Print Assumptions C19_history_lengths.

(* ... in particular for the slots in use: waveform j of a known program sits in a slot that the instrument plays with
   exactly that waveform's length *)
Theorem C19_history_program_lengths : forall lenof total ops p j q,
  lenof IDLE = 192 -> Forall (op_lens_from lenof) ops ->
  let s := xrun find_place (xclear total) ops in
  In p (dv_known (x_d s)) -> nth_error (pg_w2s p) j = Some q ->
  exists i, q = Z.of_nat i /\ (i < length (x_devlen s))%nat /\
            nth i (x_devlen s) 0 = lenof (nth j (pg_segs p) 0) /\ nth i (x_lens s) 0 = lenof (nth j (pg_segs p) 0).
Proof. exact history_program_lengths. Qed.
Print Assumptions C19_history_program_lengths.

(* the extended model refines Driver.v for every placement function and every history *)
Theorem C19_lengths_model_refines_driver : forall place ops s, x_d (xrun place s ops) = run_with place (x_d s) ops.
Proof. exact xrun_refines. Qed.
Print Assumptions C19_lengths_model_refines_driver.

(* non-vacuity: shorter segments overwrite freed slots (capacity 256 / 400, defined length 224 / 208), then both branches
   of _amend_segments' length update are taken *)
Theorem C19_history_lengths_nonvacuous :
  lens_lenof IDLE = 192 /\ Forall (op_lens_from lens_lenof) lens_ops /\
  let s5 := xrun find_place (xclear 100000) (firstn 5 lens_ops) in
  let s := xrun find_place (xclear 100000) lens_ops in
  count_ne (dv_caps (x_d s5)) (x_lens s5) = 2%nat /\
  dv_hashes (x_d s) = [0; 15; 14; 13; 16; 17; 18] /\ dv_caps (x_d s) = [192; 256; 400; 192; 1000; 1008; 1024] /\
  x_lens s = [192; 224; 208; 192; 1000; 1008; 1024] /\ x_devlen s = [192; 224; 208; 192; 1000; 1008; 1024].
Proof. exact history_lengths_example. Qed.
Print Assumptions C19_history_lengths_nonvacuous.

(* ------------------------------------------------------------------------------------------------------------- *)
(* Round 6: the executable history checker the harness runs on the two real drivers (`check_spec` on a CHist case =
   `obs_safe` after EVERY operation: every program's slots exist, hold its data, are referenced and defined with its
   segments' lengths; no internal error; driver's records = instrument; idle slot; defined length <= capacity; and the
   defined capacities fit the instrument) accepts the observation `xtrace` of every state the modelled driver goes through,
   for every history.  Every conjunct of the test is therefore a consequence of the proved invariants (the test demands
   nothing of the implementation that is not a theorem about the model), and the theorem covers the intermediate
   states, not only the final one.  Second half: the same trace passes `check_corr` (model = model; it only shows that
   `xtrace` is the observation the comparison expects).  Hypotheses: a hash determines the segment length (lenof), lengths
   are non-negative, the instrument has room for the idle segment. *)
Require Import QV.C19.ProofsAccept.
Theorem C19_check_accepts_model : forall lenof total ops,
  lenof IDLE = 192 -> Forall (op_lens_from lenof) ops -> 192 <= total -> ops_lens_nonneg ops = true ->
  check_spec (CHist total ops (xtrace lenof (xclear total) ops)) = true /\
  check_corr (CHist total ops (xtrace lenof (xclear total) ops)) = true.
Proof. exact check_accepts_model. Qed.
Print Assumptions C19_check_accepts_model.

(* the step behind it, stated on its own: the invariants J (slots/refcounts/belief/idle) and L (lengths) of a state and
   "the operation did not end in an internal error" give `obs_safe` of the state's observation *)
Theorem C19_obs_safe_from_invariants : forall lenof s e,
  J (x_d s) -> L lenof s -> internal e = false -> obs_safe (obs_of lenof s e) = true.
Proof. exact obs_safe_of_invariants. Qed.
Print Assumptions C19_obs_safe_from_invariants.

(* the placement calls made inside a history are part of the Coq case since round 6 (`CHistD`, `pcall_spec` = the four
   clauses via decision_okb on the driver's OWN arrays at the moment of the call; an assertion / bad-input refusal is a
   failure).  On the model side: whatever the modelled decision function returns for the segments of ANY upload on the
   arrays of a state reachable by ANY history passes that check (and the comparison with itself: model = model). *)
Theorem C19_history_calls_accepted : forall total ops feature segs,
  let d := run (clear total) ops in
  pcall_spec total (model_call feature d segs) = true /\ pcall_corr total (model_call false d segs) = true.
Proof. exact calls_accepted. Qed.
Print Assumptions C19_history_calls_accepted.

(* non-vacuity: a 7-operation history with shorter segments in larger freed slots satisfies the hypotheses; its trace has
   7 observations with up to 5 programs and 7 slots, and the checker accepts it *)
Theorem C19_check_accepts_model_nonvacuous :
  lens_lenof IDLE = 192 /\ Forall (op_lens_from lens_lenof) lens_ops /\ ops_lens_nonneg lens_ops = true /\
  let tr := xtrace lens_lenof (xclear 100000) lens_ops in
  length tr = 7%nat /\
  map (fun o => length (ho_progs o)) tr = [1; 2; 1; 2; 3; 4; 5]%nat /\
  ho_caps (last tr (obs_of lens_lenof (xclear 0) None)) = [192; 256; 400; 192; 1000; 1008; 1024] /\
  ho_devlen (last tr (obs_of lens_lenof (xclear 0) None)) = map Some [192; 224; 208; 192; 1000; 1008; 1024] /\
  check_spec (CHist 100000 lens_ops tr) = true.
Proof. exact check_accepts_model_example. Qed.
Print Assumptions C19_check_accepts_model_nonvacuous.

(* ------------------------------------------------------------------------------------------------------------- *)
(* REMARK — NOT PART OF PROPERTY C19.  C19 is a safety property (a refusal is always safe).  The corresponding
   liveness statement "the placement refuses only if no safe placement exists" is false for the code as it is: the
   index mix-up in the second loop (position in the reversed unsorted free capacities used as position in the free
   slots sorted by descending capacity) misses a fitting slot, and with a tight total capacity the upload is refused
   with `Fragmentation` although overwriting slot 2 satisfies all four clauses.  Recorded as an observation only; the
   real function shows the same behaviour (literal case in harness/props/c19.py). *)
Require Import QV.C19.ProofsLive.
Definition C19_liveness_statement : Prop :=
  forall mem nh nl, wf_call mem nh nl -> Forall (fun r => 0 <= r) (m_refs mem) ->
    (exists d, decision_ok mem nh nl d) -> exists d, find_place mem nh nl = Ok d.
Theorem C19_liveness_refuted :
  exists mem nh nl, wf_call mem nh nl /\ Forall (fun r => 0 <= r) (m_refs mem) /\
    (exists d, decision_ok mem nh nl d) /\ find_place mem nh nl = Err Fragmentation.
Proof. exact liveness_refuted. Qed.
Print Assumptions C19_liveness_refuted.
Theorem C19_liveness_statement_false : ~ C19_liveness_statement.
Proof. exact liveness_statement_false. Qed.
Print Assumptions C19_liveness_statement_false.
