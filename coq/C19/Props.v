(* C19 — property theorems (statements only; proofs live in Proofs*.v). *)
From Coq Require Import ZArith List Bool.
Require Import QV.C19.Model QV.C19.Spec.
