(* C19 — property theorems (statements only; proofs live in Proofs*.v). *)
From Coq Require Import ZArith List Bool.
Require Import QV.C19.Model QV.C19.Spec QV.C19.Proofs.
Import ListNotations.
Open Scope Z_scope.

(* Decision level, all layouts / all new-segment lists (no bound on either): whenever the model of
   find_place_for_segments_in_memory returns a decision, the four clauses of Spec.decision_ok hold:
   reuse only on equal hash; overwritten slots have reference count 0, are not reused by this upload, are large enough
   and pairwise distinct; the appended segments (+16 each) fit behind the last used slot; every new segment is exactly
   one of reused / inserted / appended.  Hypothesis: reference counts are counts (>= 0). *)
Theorem C19_decision : forall mem new_hashes new_lens d,
  Forall (fun r => 0 <= r) (m_refs mem) ->
  find_place mem new_hashes new_lens = Ok d -> decision_ok mem new_hashes new_lens d.
Proof. exact find_place_decision_ok. Qed.
Print Assumptions C19_decision.

(* the hypotheses are satisfiable on a layout where reuse, insertion (equal and larger slot) and appending all occur *)
Theorem C19_decision_nonvacuous :
  Forall (fun r => 0 <= r) (m_refs ex_mem) /\
  find_place ex_mem ex_new_hashes ex_new_lens =
  Ok {| d_w2s := [1; -1; -1; -1]; d_amend := [false; false; false; true]; d_insert := [-1; 2; 3; -1] |}.
Proof. exact (conj ex_refs_nonneg ex_decision). Qed.
Print Assumptions C19_decision_nonvacuous.

(* the hypothesis is needed: with a negative reference count clause 3 fails *)
Theorem C19_decision_needs_nonneg_refcounts :
  exists mem nh nl d, find_place mem nh nl = Ok d /\ ~ decision_ok mem nh nl d.
Proof. exists neg_mem, [2; 3], [1024; 208]. exact negative_refcount_breaks_clause3. Qed.
Print Assumptions C19_decision_needs_nonneg_refcounts.

(* find_positions: every answer is -1 or an index holding the searched value *)
Theorem C19_find_positions_sound : forall data to_find j p,
  nth_error (find_positions data to_find) j = Some p ->
  p = -1 \/ exists i x, p = Z.of_nat i /\ (i < length data)%nat /\ nth i data 0 = x /\ nth_error to_find j = Some x.
Proof. exact find_positions_spec. Qed.
Print Assumptions C19_find_positions_sound.

(* the `assert` in the code never fires *)
Theorem C19_no_assertion_error : forall mem nh nl, find_place mem nh nl <> Err AssertionFailed.
Proof. exact find_place_no_assertion. Qed.
Print Assumptions C19_no_assertion_error.
