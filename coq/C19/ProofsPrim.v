(* C19 — the list model of np.argsort(kind='stable') meets the independent specification that the correspondence check
   evaluates on numpy's own output (Corr.prim_spec): the specification is satisfiable, by the model. *)
From Coq Require Import ZArith List Bool Lia ZifyBool Permutation Sorted Arith.
Require Import QV.C19.Model QV.C19.ProofsList QV.C19.Proofs QV.C19.ProofsFind QV.C19.Driver QV.C19.Corr.
Import ListNotations.
Open Scope Z_scope.

Lemma map_snd_enumerate_from {A} k (l : list A) : map snd (enumerate_from k l) = seq k (length l).
Proof. revert k; induction l as [|a l IH]; intros k; cbn; [reflexivity|]. rewrite IH. reflexivity. Qed.

Lemma nodupb_of_NoDup l : NoDup l -> nodupb l = true.
Proof.
  induction 1 as [|x l Hn _ IH]; cbn; [reflexivity|]. rewrite IH, andb_true_r.
  destruct (existsb (Z.eqb x) l) eqn:E; [|reflexivity]. apply existsb_Z_in in E. contradiction.
Qed.

Lemma NoDup_znat l : NoDup l -> NoDup (znat l).
Proof.
  unfold znat. induction 1 as [|x l Hn _ IH]; cbn; constructor; [|exact IH].
  intros Hin. apply in_map_iff in Hin as (y & Hy & Hin). assert (y = x) by lia. subst. contradiction.
Qed.

Lemma stable_sorted_cons2 a i j r :
  stable_sorted a (i :: j :: r) =
  ((nth (Z.to_nat i) a 0 <? nth (Z.to_nat j) a 0) || ((nth (Z.to_nat i) a 0 =? nth (Z.to_nat j) a 0) && (i <? j)))
  && stable_sorted a (j :: r).
Proof. reflexivity. Qed.

Lemma stable_sorted_of_lex a (L : list (Z * nat)) :
  Forall (fun p => fst p = nth (snd p) a 0) L -> StronglySorted lex_le L -> NoDup (map snd L) ->
  stable_sorted a (znat (map snd L)) = true.
Proof.
  induction L as [|p L IH]; intros Hk Hs Hnd; [reflexivity|].
  destruct L as [|q L]; [reflexivity|].
  inversion Hk as [|? ? Hp Hk']; subst. inversion Hs as [|? ? Hs' Hf]; subst.
  inversion Hnd as [|? ? Hnin Hnd']; subst.
  change (znat (map snd (p :: q :: L))) with (Z.of_nat (snd p) :: Z.of_nat (snd q) :: znat (map snd L)).
  rewrite stable_sorted_cons2. rewrite !Nat2Z.id.
  change (Z.of_nat (snd q) :: znat (map snd L)) with (znat (map snd (q :: L))).
  rewrite (IH Hk' Hs' Hnd'), andb_true_r.
  inversion Hk' as [|? ? Hq _]; subst. rewrite <- Hp, <- Hq.
  inversion Hf as [|? ? Hpq _]; subst.
  assert (Hne : snd p <> snd q) by (intros E; apply Hnin; left; symmetry; exact E).
  unfold lex_le in Hpq. destruct Hpq as [H|[H1 H2]]; lia.
Qed.

Theorem argsort_meets_spec a : prim_spec (PArgsort a (znat (argsort a))) = true.
Proof.
  cbn [prim_spec]. unfold is_perm_of_range, argsort.
  set (L := isort (enumerate_from 0 a)).
  assert (Hperm : Permutation L (enumerate_from 0 a)) by apply isort_perm.
  assert (Hnd : NoDup (map snd L)).
  { eapply Permutation_NoDup; [apply Permutation_sym, Permutation_map, Hperm|].
    rewrite map_snd_enumerate_from. apply seq_NoDup. }
  assert (Hin : forall p, In p L -> (snd p < length a)%nat /\ fst p = nth (snd p) a 0).
  { intros (x, i) Hp. eapply Permutation_in in Hp; [|exact Hperm].
    apply (enumerate_from_spec 0 a x i 0) in Hp as [H1 H2]. cbn. split; [lia|].
    replace (i - 0)%nat with i in H2 by lia. symmetry. exact H2. }
  rewrite !andb_true_iff. repeat split.
  - apply Nat.eqb_eq. unfold znat. rewrite !map_length. unfold L.
    rewrite (Permutation_length (isort_perm _)). apply enumerate_from_length.
  - unfold zidx_ok. apply forallb_forall. intros z Hz. unfold znat in Hz.
    apply in_map_iff in Hz as (i & <- & Hi). apply in_map_iff in Hi as (p & <- & Hp).
    destruct (Hin p Hp) as [H _]. lia.
  - apply nodupb_of_NoDup, NoDup_znat, Hnd.
  - apply stable_sorted_of_lex; [|apply isort_enumerate_lex|exact Hnd].
    apply Forall_forall. intros p Hp. apply (Hin p Hp).
Qed.
