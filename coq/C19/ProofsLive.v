(* C19 — a LIVENESS remark, NOT part of property C19 (which is safety only): find_place can refuse although a placement
   satisfying the four clauses exists.  Cause: in the second loop `fitting_segment` is an index into the REVERSED
   UNSORTED list of free capacities but is used as an index into the free slots sorted by DESCENDING capacity. *)
From Coq Require Import ZArith List Bool Lia.
Require Import QV.C19.Model QV.C19.Spec QV.C19.ProofsSpec.
Import ListNotations.
Open Scope Z_scope.

(* slots 1..3 are free (capacities 208, 384, 256); the new segment (300 points) fits slot 2 only; 168 points are free
   behind slot 4, so it cannot be appended.  Loop 2: free capacities [208;384;256], fits = [F;T;F], reversed [F;T;F],
   argmax = 1; free slots by descending capacity = [2;3;1]; entry 1 = slot 3 (256 < 300): no insertion -> refusal. *)
Definition live_mem : memory :=
  {| m_hashes := [1; 2; 3; 4; 5]; m_refs := [1; 0; 0; 0; 1]; m_caps := [192; 208; 384; 256; 192]; m_total := 1400 |}.
Definition live_decision : decision := {| d_w2s := [-1]; d_amend := [false]; d_insert := [2] |}.

Lemma liveness_witness :
  wf_call live_mem [8] [300] /\ Forall (fun r => 0 <= r) (m_refs live_mem) /\
  decision_ok live_mem [8] [300] live_decision /\
  find_place live_mem [8] [300] = Err Fragmentation.
Proof.
  split; [repeat split|]. split; [repeat constructor; lia|]. split; [|vm_compute; reflexivity].
  apply decision_okb_iff; [reflexivity|]. vm_compute. reflexivity.
Qed.

(* with a generous total capacity the same mix-up is harmless: the segment is appended although slot 2 would fit *)
Lemma liveness_witness_appends :
  find_place {| m_hashes := [1; 2; 3; 4]; m_refs := [1; 0; 0; 1]; m_caps := [192; 384; 208; 192]; m_total := 2000 |}
             [8] [300] = Ok {| d_w2s := [-1]; d_amend := [true]; d_insert := [-1] |}.
Proof. vm_compute. reflexivity. Qed.

Lemma liveness_refuted :
  exists mem nh nl, wf_call mem nh nl /\ Forall (fun r => 0 <= r) (m_refs mem) /\
    (exists d, decision_ok mem nh nl d) /\ find_place mem nh nl = Err Fragmentation.
Proof.
  exists live_mem, [8], [300]. destruct liveness_witness as (H1 & H2 & H3 & H4).
  exact (conj H1 (conj H2 (conj (ex_intro _ live_decision H3) H4))).
Qed.

Lemma liveness_statement_false :
  ~ (forall mem nh nl, wf_call mem nh nl -> Forall (fun r => 0 <= r) (m_refs mem) ->
       (exists d, decision_ok mem nh nl d) -> exists d, find_place mem nh nl = Ok d).
Proof.
  intros H. destruct liveness_witness as (H1 & H2 & H3 & H4).
  destruct (H live_mem [8] [300] H1 H2 (ex_intro _ live_decision H3)) as [d Hd]. rewrite H4 in Hd. discriminate.
Qed.
