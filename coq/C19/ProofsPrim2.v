(* C19 — the list models of the numpy primitives (Model.v / Driver.v) meet the independent specifications that the
   correspondence check evaluates on numpy's own output (Corr.prim_spec).  One theorem per primitive:
   `prim_spec (P… inputs (model output)) = true` for all inputs that numpy accepts (hypotheses = numpy's own
   preconditions: boolean masks as long as the array, indices in range).  Together with the per-run comparison
   `prim_corr` (numpy's output = model output) this says that the specification describes the model, not only the
   sampled outputs. *)
From Coq Require Import ZArith List Bool Lia ZifyBool Permutation Sorted Arith.
Require Import QV.common.Util QV.C19.Model QV.C19.ProofsList QV.C19.Proofs QV.C19.ProofsFind QV.C19.Driver QV.C19.Corr
  QV.C19.ProofsPrim QV.C19.ProofsDriver.
Import ListNotations.
Open Scope Z_scope.

Lemma zlist_eqb_refl l : zlist_eqb l l = true.
Proof. induction l as [|x l IH]; cbn; [reflexivity|]. rewrite Z.eqb_refl, IH. reflexivity. Qed.

Lemma zlist_eqb_of_eq a b : a = b -> zlist_eqb a b = true.
Proof. intros ->. apply zlist_eqb_refl. Qed.

(* ---- flatnonzero = the positions i (ascending) with m[i] ---- *)
Lemma flatnonzero_from_filter k m :
  flatnonzero_from k m = filter (fun i => nth (i - k) m false) (seq k (length m)).
Proof.
  revert k. induction m as [|b m IH]; intros k; [reflexivity|].
  assert (E : filter (fun i => nth (i - k) (b :: m) false) (seq (S k) (length m)) =
              filter (fun i => nth (i - S k) m false) (seq (S k) (length m))).
  { apply filter_ext_in. intros i Hi. apply in_seq in Hi. replace (i - k)%nat with (S (i - S k)) by lia. reflexivity. }
  cbn [flatnonzero_from length seq filter]. rewrite E, <- IH. replace (k - k)%nat with 0%nat by lia.
  destruct b; reflexivity.
Qed.

Lemma flatnonzero_indices_where m : flatnonzero m = indices_where m.
Proof.
  unfold flatnonzero, indices_where. rewrite flatnonzero_from_filter. apply filter_ext. intros i.
  replace (i - 0)%nat with i by lia. reflexivity.
Qed.

Lemma ascending_znat_filter_seq (f : nat -> bool) k n : ascending (znat (filter f (seq k n))) = true.
Proof.
  revert k. induction n as [|n IH]; intros k; [reflexivity|]. cbn [seq filter].
  destruct (f k) eqn:Ek; [|apply IH]. cbn [znat map].
  assert (Hge : forall j, In j (filter f (seq (S k) n)) -> (k < j)%nat).
  { intros j Hj. apply filter_In in Hj as [Hj _]. apply in_seq in Hj. lia. }
  specialize (IH (S k)). destruct (filter f (seq (S k) n)) as [|y r] eqn:E; [reflexivity|].
  cbn [znat map ascending] in *. rewrite IH, andb_true_r. specialize (Hge y (or_introl eq_refl)). lia.
Qed.

Theorem flatnonzero_meets_spec m : prim_spec (PFlatnonzero m (znat (flatnonzero m))) = true.
Proof.
  cbn [prim_spec]. rewrite !andb_true_iff. repeat split.
  - unfold flatnonzero. rewrite flatnonzero_from_filter. apply ascending_znat_filter_seq.
  - apply forallb_forall. intros z Hz. unfold znat in Hz. apply in_map_iff in Hz as (i & <- & Hi).
    apply flatnonzero_spec in Hi. rewrite Nat2Z.id, Hi. lia.
  - apply Nat.eqb_eq. unfold znat. rewrite map_length. unfold flatnonzero. rewrite flatnonzero_from_length. reflexivity.
Qed.

(* ---- a[m] = the elements at the True positions, in order ---- *)
Lemma mask_from {A} (d : A) k m (a : list A) :
  (length m <= length a)%nat ->
  mask m a = map (fun i => nth (i - k) a d) (flatnonzero_from k m).
Proof.
  revert k a. induction m as [|b m IH]; intros k a Hl; [reflexivity|].
  destruct a as [|x a]; [cbn in Hl; lia|]. cbn [length] in Hl. cbn [mask flatnonzero_from].
  assert (E : map (fun i => nth (i - k) (x :: a) d) (flatnonzero_from (S k) m) =
              map (fun i => nth (i - S k) a d) (flatnonzero_from (S k) m)).
  { apply map_ext_in. intros i Hi. apply flatnonzero_from_spec in Hi.
    replace (i - k)%nat with (S (i - S k)) by lia. reflexivity. }
  destruct b.
  - cbn [map]. rewrite E, <- IH by lia. replace (k - k)%nat with 0%nat by lia. reflexivity.
  - rewrite E, <- IH by lia. reflexivity.
Qed.

Lemma mask_indices_where {A} (d : A) m (a : list A) :
  (length m <= length a)%nat -> mask m a = map (fun i => nth i a d) (indices_where m).
Proof.
  intros Hl. rewrite <- flatnonzero_indices_where. unfold flatnonzero. rewrite (mask_from d 0) by exact Hl.
  apply map_ext. intros i. replace (i - 0)%nat with i by lia. reflexivity.
Qed.

Theorem mask_meets_spec m a : length m = length a -> prim_spec (PMask m a (mask m a)) = true.
Proof.
  intros Hl. cbn [prim_spec]. apply zlist_eqb_of_eq. symmetry. apply mask_indices_where. lia.
Qed.

(* ---- a[idx] ---- *)
Theorem take_meets_spec a idx :
  zidx_ok (length a) idx = true -> prim_spec (PTake a idx (take_idx 0 a (nats idx))) = true.
Proof.
  intros Hok. cbn [prim_spec]. rewrite Hok. cbn. apply zlist_eqb_of_eq. unfold take_idx, nats. rewrite map_map. reflexivity.
Qed.

(* ---- np.searchsorted(data, x, side, sorter=argsort(data)): counts on the UNSORTED data ---- *)
Lemma filter_length_perm {A} (f : A -> bool) l l' : Permutation l l' -> length (filter f l) = length (filter f l').
Proof.
  induction 1 as [|x l l' _ IH|x y l|l l' l'' _ IH1 _ IH2]; cbn; try lia.
  - destruct (f x); cbn; lia.
  - destruct (f x), (f y); cbn; lia.
Qed.

Lemma map_fst_enumerate_from {A} k (l : list A) : map fst (enumerate_from k l) = l.
Proof. revert k; induction l as [|a l IH]; intros k; cbn; [reflexivity|]. rewrite IH. reflexivity. Qed.

Lemma sorted_data_perm data : Permutation (take_idx 0 data (argsort data)) data.
Proof.
  rewrite take_idx_argsort. rewrite <- (map_fst_enumerate_from 0%nat data) at 2.
  apply Permutation_map. apply isort_perm.
Qed.

Theorem searchsorted_meets_spec data xs :
  let sorted := take_idx 0 data (argsort data) in
  prim_spec (PSearch data xs (map (fun x => Z.of_nat (count_lt x sorted)) xs)
                             (map (fun x => Z.of_nat (count_le x sorted)) xs)) = true.
Proof.
  intros sorted. cbn [prim_spec]. rewrite andb_true_iff. split; apply zlist_eqb_of_eq; apply map_ext; intros x;
    unfold count_lt, count_le; f_equal; apply filter_length_perm; apply Permutation_sym, sorted_data_perm.
Qed.

(* the sorted view really is ascending (what makes `count` the insertion position) *)
Theorem sorted_data_ascending data : StronglySorted Z.le (take_idx 0 data (argsort data)).
Proof. rewrite take_idx_argsort. apply sorted_keys. apply isort_sorted. Qed.

(* ---- np.argmax on booleans: the first True, 0 when there is none ---- *)
Lemma find_true_none m : find_true m = None -> existsb (fun b => b) m = false.
Proof.
  induction m as [|b m IH]; cbn; [reflexivity|]. destruct b; [discriminate|].
  destruct (find_true m); [discriminate|]. intros _. apply IH. reflexivity.
Qed.

Lemma find_true_first m i : find_true m = Some i ->
  nth i m false = true /\ existsb (fun b => b) (firstn i m) = false /\ existsb (fun b => b) m = true.
Proof.
  revert i. induction m as [|b m IH]; intros i; cbn; [discriminate|]. destruct b.
  - intros H. inversion H; subst. cbn. auto.
  - destruct (find_true m) as [k|]; [|discriminate]. cbn. intros H. inversion H; subst. cbn. apply IH. reflexivity.
Qed.

Lemma argmax_first_ok m :
  let o := Z.of_nat (argmax_bool m) in
  (0 <=? o) && (if existsb (fun b => b) m
                then nth (Z.to_nat o) m false && negb (existsb (fun b => b) (firstn (Z.to_nat o) m))
                else o =? 0) = true.
Proof.
  cbn zeta. unfold argmax_bool. rewrite Nat2Z.id. destruct (find_true m) as [i|] eqn:E.
  - destruct (find_true_first m i E) as (H1 & H2 & H3). rewrite H1, H2, H3. cbn. lia.
  - rewrite (find_true_none m E). cbn. reflexivity.
Qed.

Theorem argmax_meets_spec m :
  prim_spec (PArgmax m (Z.of_nat (argmax_bool m)) (Z.of_nat (argmax_bool (rev m)))) = true.
Proof.
  cbn [prim_spec]. rewrite andb_true_iff. split; apply argmax_first_ok.
Qed.

(* ---- np.sum(a[m] + 16) ---- *)
Lemma fold_left_add_shift (f : nat -> Z) l acc : fold_left (fun s i => s + f i) l acc = acc + fold_left (fun s i => s + f i) l 0.
Proof.
  revert acc. induction l as [|i l IH]; intros acc; cbn [fold_left]; [lia|]. rewrite (IH (acc + f i)), (IH (0 + f i)). lia.
Qed.

Lemma zsum_map_fold (f : nat -> Z) l : zsum (map f l) = fold_left (fun s i => s + f i) l 0.
Proof.
  induction l as [|i l IH]; [reflexivity|]. cbn [map fold_left]. rewrite fold_left_add_shift.
  change (zsum (f i :: map f l)) with (f i + zsum (map f l)). rewrite IH. lia.
Qed.

Theorem sum16_meets_spec m a :
  length m = length a -> prim_spec (PSum16 m a (zsum (map (fun l => l + 16) (mask m a)))) = true.
Proof.
  intros Hl. cbn [prim_spec]. rewrite (mask_indices_where 0) by lia. rewrite map_map.
  rewrite (zsum_map_fold (fun i => nth i a 0 + 16)).
  assert (E : forall l acc, fold_left (fun s i => s + (nth i a 0 + 16)) l acc = fold_left (fun s i => s + nth i a 0 + 16) l acc).
  { induction l as [|i l IH]; intros acc; cbn; [reflexivity|]. rewrite <- IH. f_equal. lia. }
  rewrite E. apply Z.eqb_refl.
Qed.

(* ---- a[i] = v ---- *)
Theorem setat_meets_spec a i v :
  0 <= i < Z.of_nat (length a) -> prim_spec (PSetAt a i v (set_nth (Z.to_nat i) v a)) = true.
Proof.
  intros Hi. cbn [prim_spec]. rewrite set_nth_length, Nat.eqb_refl.
  replace ((0 <=? i) && (i <? Z.of_nat (length a))) with true by lia. cbn.
  apply forallb_forall. intros k Hk. apply in_seq in Hk.
  destruct (Z.eqb_spec (Z.of_nat k) i) as [E|E].
  - subst i. rewrite Nat2Z.id. rewrite nth_set_nth_eq by lia. apply Z.eqb_refl.
  - rewrite nth_set_nth_neq by lia. apply Z.eqb_refl.
Qed.

(* ---- a[idx] += 1 (every distinct index once) ---- *)
Theorem incr_meets_spec idx a :
  zidx_ok (length a) idx = true -> prim_spec (PIncr idx a (incr_at (nats idx) a)) = true.
Proof.
  intros Hok. cbn [prim_spec]. rewrite Hok. cbn. apply zlist_eqb_of_eq.
  apply (nth_ext _ _ 0 0).
  - rewrite map_length, seq_length. symmetry. apply incr_at_length.
  - intros k Hk. rewrite map_length, seq_length in Hk. unfold incr_at.
    rewrite (nth_indep (incr_at_from 0 (nats idx) a) 0 1) by (rewrite incr_at_from_length; exact Hk).
    rewrite nth_incr_at_from by exact Hk. cbn [Nat.add].
    rewrite (nth_map_lt _ _ _ _ 0%nat) by (rewrite seq_length; exact Hk). rewrite seq_nth by exact Hk. cbn [Nat.add].
    assert (E : existsb (Nat.eqb k) (nats idx) = existsb (Z.eqb (Z.of_nat k)) idx).
    { apply eq_true_iff_eq. rewrite existsb_nat_in, existsb_Z_in. unfold nats. rewrite in_map_iff. split.
      - intros (z & Hz & Hin). unfold zidx_ok in Hok. rewrite forallb_forall in Hok. specialize (Hok z Hin).
        replace (Z.of_nat k) with z by lia. exact Hin.
      - intros Hin. exists (Z.of_nat k). split; [lia|exact Hin]. }
    rewrite E. destruct (existsb _ idx); lia.
Qed.

(* ---- flatnonzero(r > 0)[-1] + 1 (0 when empty), r[:that] ---- *)
Theorem firstfree_meets_spec r :
  prim_spec (PFirstFree r (Z.of_nat (first_free_of r)) (firstn (first_free_of r) r)) = true.
Proof.
  cbn [prim_spec]. destruct (first_free_spec r) as (Hle & Hlast & Hhi).
  set (F := first_free_of r) in *. rewrite Nat2Z.id.
  rewrite !andb_true_iff. repeat split.
  - lia.
  - lia.
  - destruct (Nat.eq_dec F 0) as [E|E]; [rewrite E; reflexivity|].
    apply orb_true_iff. right. destruct Hlast as [E0|(k & Ek & Hk)]; [lia|].
    replace (Z.to_nat (Z.of_nat F - 1)) with k by lia.
    rewrite (nth_map_lt (fun x => 0 <? x) _ _ _ 0) in Hk by lia. exact Hk.
  - apply forallb_forall. intros k Hk. apply in_seq in Hk.
    destruct (Nat.lt_ge_cases k F) as [Hlt|Hge]; [lia|].
    specialize (Hhi k Hge). rewrite (nth_map_lt (fun x => 0 <? x) _ _ _ 0) in Hhi by lia. lia.
  - apply zlist_eqb_of_eq. apply (nth_ext _ _ 0 0).
    + rewrite map_length, seq_length, firstn_length. lia.
    + intros k Hk. rewrite map_length, seq_length in Hk.
      rewrite (nth_map_lt _ _ _ _ 0%nat) by (rewrite seq_length; exact Hk). rewrite seq_nth by exact Hk.
      rewrite nth_firstn' by exact Hk. reflexivity.
Qed.

(* ---- hardware/util.py::find_positions: the FIRST index holding the value, -1 when absent ---- *)
Lemma find_seq_first (f : nat -> bool) s n k :
  find f (seq s n) = Some k -> (s <= k < s + n)%nat /\ f k = true /\ forall j, (s <= j < k)%nat -> f j = false.
Proof.
  revert s. induction n as [|n IH]; intros s; cbn; [discriminate|]. destruct (f s) eqn:E.
  - intros H. inversion H; subst. repeat split; try lia; try exact E.
  - intros H. destruct (IH (S s) H) as (H1 & H2 & H3). split; [lia|]. split; [exact H2|].
    intros j Hj. destruct (Nat.eq_dec j s) as [->|]; [exact E|]. apply H3. lia.
Qed.

Theorem findpositions_meets_spec data xs : prim_spec (PFindPositions data xs (find_positions data xs)) = true.
Proof.
  cbn [prim_spec]. apply zlist_eqb_of_eq. unfold find_positions at 1. apply map_ext. intros x.
  set (gx := if (_ <? _)%nat then _ else _).
  assert (Hg : nth_error (find_positions data [x]) 0 = Some gx) by reflexivity.
  destruct (find_positions_first data [x] 0 x eq_refl) as [Habs Hpres].
  destruct (find _ (seq 0 (length data))) as [k|] eqn:Ef.
  - apply find_seq_first in Ef as (Hk & Hfk & Hfirst).
    destruct (Hpres k ltac:(lia) ltac:(lia)) as (i0 & Hi0 & Hle & Hd). rewrite Hg in Hi0. inversion Hi0 as [E].
    destruct (Nat.eq_dec i0 k) as [->|Hne]; [symmetry; exact E|]. specialize (Hfirst i0 ltac:(lia)). lia.
  - assert (Hnot : ~ In x data).
    { intros Hin. apply (In_nth _ _ 0) in Hin as (i & Hi & Hx).
      pose proof (find_none _ _ Ef i ltac:(apply in_seq; lia)) as Hf. cbn in Hf. lia. }
    specialize (Habs Hnot). rewrite Hg in Habs. congruence.
Qed.

(* ---- w[m] = v ---- *)
Lemma mask_assign_mask w : forall m v, length m = length w -> length v = count_true m -> mask m (assign_mask w m v) = v.
Proof.
  unfold count_true. induction w as [|p w IH]; intros [|b m] v Hl Hv; cbn in *; try lia.
  - destruct v; [reflexivity|cbn in Hv; lia].
  - destruct b; cbn in Hv.
    + destruct v as [|x v]; [cbn in Hv; lia|]. cbn. rewrite IH by (cbn in Hv; lia). reflexivity.
    + cbn. apply IH; lia.
Qed.

Lemma nth_assign_mask_false w : forall m v k, nth k m false = false -> nth k (assign_mask w m v) 0 = nth k w 0.
Proof.
  induction w as [|p w IH]; intros [|b m] v k Hk; try reflexivity.
  destruct k as [|k]; cbn in Hk.
  - subst b. reflexivity.
  - cbn [assign_mask]. destruct b; [destruct v|]; cbn [nth]; apply IH; exact Hk.
Qed.

Theorem assignmask_meets_spec w m v :
  length m = length w -> length v = count_true m -> prim_spec (PAssignMask w m v (assign_mask w m v)) = true.
Proof.
  intros Hl Hv. cbn [prim_spec]. rewrite assign_mask_length, Nat.eqb_refl. rewrite !andb_true_iff. repeat split.
  - apply zlist_eqb_of_eq. rewrite <- (mask_indices_where 0) by (rewrite assign_mask_length; lia).
    apply mask_assign_mask; [exact Hl|exact Hv].
  - apply forallb_forall. intros k _. destruct (nth k m false) eqn:E; [reflexivity|].
    rewrite nth_assign_mask_false by exact E. cbn. apply Z.eqb_refl.
Qed.

(* ---- a[idx] -= 1 with numpy's negative-index wrap; IndexError when an index is out of range ---- *)
Lemma norm_all_spec n idx :
  if forallb (fun i => (- Z.of_nat n <=? i) && (i <? Z.of_nat n)) idx
  then exists l, norm_all n idx = Some l /\
                 forall k, (k < n)%nat -> (In k l <-> exists i, In i idx /\ (i = Z.of_nat k \/ i + Z.of_nat n = Z.of_nat k))
  else norm_all n idx = None.
Proof.
  induction idx as [|p idx IH]; cbn [forallb norm_all].
  - exists []. split; [reflexivity|]. intros k _. split; [intros []|intros (i & [] & _)].
  - destruct ((- Z.of_nat n <=? p) && (p <? Z.of_nat n)) eqn:Ep; cbn [andb].
    + destruct (forallb _ idx).
      * destruct IH as (l & Hl & Hspec). unfold norm_index.
        destruct ((0 <=? p) && (p <? Z.of_nat n)) eqn:E1.
        -- rewrite Hl. eexists. split; [reflexivity|]. intros k Hk. cbn [In]. rewrite (Hspec k Hk). split.
           ++ intros [H|(i & Hi & Hc)]; [exists p; split; [left; reflexivity|lia]|exists i; split; [right; exact Hi|exact Hc]].
           ++ intros (i & [->|Hi] & Hc); [left; lia|right; exists i; auto].
        -- assert (E2 : (p <? 0) && (- Z.of_nat n <=? p) = true) by lia. rewrite E2, Hl.
           eexists. split; [reflexivity|]. intros k Hk. cbn [In]. rewrite (Hspec k Hk). split.
           ++ intros [H|(i & Hi & Hc)]; [exists p; split; [left; reflexivity|lia]|exists i; split; [right; exact Hi|exact Hc]].
           ++ intros (i & [->|Hi] & Hc); [left; lia|right; exists i; auto].
      * unfold norm_index. rewrite IH. destruct ((0 <=? p) && (p <? Z.of_nat n)); [reflexivity|].
        destruct ((p <? 0) && (- Z.of_nat n <=? p)); reflexivity.
    + unfold norm_index. assert (E1 : (0 <=? p) && (p <? Z.of_nat n) = false) by lia.
      assert (E2 : (p <? 0) && (- Z.of_nat n <=? p) = false) by lia. rewrite E1, E2. reflexivity.
Qed.

Theorem decrwrap_meets_spec idx a :
  prim_spec (PDecrWrap idx a (option_map (fun l => decr_at l a) (norm_all (length a) idx))) = true.
Proof.
  cbn [prim_spec]. pose proof (norm_all_spec (length a) idx) as H.
  destruct (forallb _ idx).
  - destruct H as (l & -> & Hspec). cbn [option_map]. apply zlist_eqb_of_eq. apply (nth_ext _ _ 0 0).
    + rewrite map_length, seq_length. unfold decr_at. rewrite decr_at_from_length. reflexivity.
    + intros k Hk. rewrite map_length, seq_length in Hk.
      rewrite (nth_map_lt _ _ _ _ 0%nat) by (rewrite seq_length; exact Hk). rewrite seq_nth by exact Hk. cbn [Nat.add].
      unfold decr_at. rewrite nth_decr_at_from by exact Hk. cbn [Nat.add].
      assert (E : existsb (Nat.eqb k) l =
                  existsb (fun i => (i =? Z.of_nat k) || (i + Z.of_nat (length a) =? Z.of_nat k)) idx).
      { apply eq_true_iff_eq. rewrite existsb_nat_in, (Hspec k Hk), existsb_exists. split.
        - intros (i & Hi & Hc). exists i. split; [exact Hi|lia].
        - intros (i & Hi & Hc). exists i. split; [exact Hi|lia]. }
      rewrite E. destruct (existsb _ idx); lia.
  - rewrite H. reflexivity.
Qed.

(* ---- np.flatnonzero(m)[np.argsort(a[m], kind='stable')[::-1]]: the True positions by descending key, equal keys
        by descending position ---- *)
Lemma filter_seq_sorted (f : nat -> bool) k n : StronglySorted lt (filter f (seq k n)).
Proof.
  revert k. induction n as [|n IH]; intros k; cbn; [constructor|]. destruct (f k); [|apply IH].
  constructor; [apply IH|]. apply Forall_forall. intros j Hj. apply filter_In in Hj as [Hj _]. apply in_seq in Hj. lia.
Qed.

Lemma sorted_nth_lt (l : list nat) : StronglySorted lt l ->
  forall i j, (i < j)%nat -> (j < length l)%nat -> (nth i l 0 < nth j l 0)%nat.
Proof.
  induction 1 as [|x l Hs IH Hf]; intros i j Hij Hj; cbn in Hj; [lia|].
  destruct j as [|j]; [lia|]. destruct i as [|i]; cbn [nth].
  - rewrite Forall_forall in Hf. apply Hf. apply nth_In. lia.
  - apply IH; lia.
Qed.

Lemma stable_sorted_transport (b a : list Z) (g : nat -> nat) (S : list nat) :
  (forall s, In s S -> nth (g s) a 0 = nth s b 0) ->
  (forall s s', In s S -> In s' S -> (s < s')%nat -> (g s < g s')%nat) ->
  stable_sorted b (znat S) = true -> stable_sorted a (znat (map g S)) = true.
Proof.
  induction S as [|s S IH]; intros Hkey Hmono Hst; [reflexivity|]. destruct S as [|s' S]; [reflexivity|].
  change (znat (map g (s :: s' :: S))) with (Z.of_nat (g s) :: Z.of_nat (g s') :: znat (map g S)).
  change (znat (s :: s' :: S)) with (Z.of_nat s :: Z.of_nat s' :: znat S) in Hst.
  rewrite stable_sorted_cons2 in *. rewrite !Nat2Z.id in *. apply andb_true_iff in Hst as [H1 H2].
  change (Z.of_nat (g s') :: znat (map g S)) with (znat (map g (s' :: S))).
  rewrite IH; [|intros; apply Hkey; right; assumption|intros; apply Hmono; try right; assumption|exact H2].
  rewrite andb_true_r. rewrite (Hkey s (or_introl eq_refl)), (Hkey s' (or_intror (or_introl eq_refl))).
  destruct (nth s b 0 <? nth s' b 0) eqn:E; [reflexivity|]. cbn [orb] in *.
  apply andb_true_iff in H1 as [H1a H1b]. rewrite H1a. cbn [andb].
  assert (g s < g s')%nat by (apply Hmono; [left; reflexivity|right; left; reflexivity|lia]). lia.
Qed.

Theorem sortedpick_meets_spec m a :
  length m = length a ->
  prim_spec (PSortedPick m a (znat (take_idx 0%nat (flatnonzero m) (rev (argsort (mask m a)))))) = true.
Proof.
  intros Hl. cbn [prim_spec].
  set (F := flatnonzero m). set (b := mask m a). set (S := argsort b).
  assert (HF : F = filter (fun i => nth i m false) (seq 0 (length m))) by (unfold F; apply flatnonzero_indices_where).
  assert (HlenF : length F = length b).
  { unfold F, b, flatnonzero. rewrite flatnonzero_from_length, mask_length by exact Hl. reflexivity. }
  assert (HlenS : length S = length b) by apply argsort_length.
  assert (HS : forall s, In s S -> (s < length b)%nat) by (intros s; apply argsort_lt).
  pose proof (argsort_meets_spec b) as Hspec. cbn [prim_spec] in Hspec. fold S in Hspec.
  apply andb_true_iff in Hspec as [Hperm Hst]. unfold is_perm_of_range in Hperm.
  apply andb_true_iff in Hperm as [Hperm Hnd]. 
  assert (HndS : NoDup S).
  { clear - Hnd. unfold znat in *. induction S as [|s S IH]; [constructor|]. cbn in Hnd. apply andb_true_iff in Hnd as [H1 H2].
    constructor; [|apply IH; exact H2]. intros Hin. apply negb_true_iff in H1.
    assert (existsb (Z.eqb (Z.of_nat s)) (map Z.of_nat S) = true); [|congruence].
    apply existsb_Z_in. apply in_map. exact Hin. }
  assert (Hsorted : StronglySorted lt F) by (rewrite HF; apply filter_seq_sorted).
  assert (Hmono : forall s s', (s < s')%nat -> (s' < length F)%nat -> (nth s F 0 < nth s' F 0)%nat)
    by (apply sorted_nth_lt; exact Hsorted).
  assert (Hkey : forall s, (s < length b)%nat -> nth (nth s F 0%nat) a 0 = nth s b 0).
  { intros s Hs. unfold b, F. rewrite (mask_indices_where 0), flatnonzero_indices_where by lia.
    rewrite (nth_map_lt _ _ _ _ 0%nat); [reflexivity|]. rewrite <- flatnonzero_indices_where. fold F. lia. }
  unfold take_idx. rewrite !andb_true_iff. repeat split.
  - apply Nat.eqb_eq. unfold znat. rewrite !map_length, rev_length, HlenS, <- HlenF. unfold F.
    rewrite flatnonzero_indices_where. reflexivity.
  - apply nodupb_of_NoDup, NoDup_znat.
    assert (Hinj : forall l, NoDup l -> (forall s, In s l -> (s < length F)%nat) -> NoDup (map (fun i => nth i F 0%nat) l)).
    { induction 1 as [|s l Hn Hnd' IH]; intros Hr; cbn; constructor; [|apply IH; intros; apply Hr; right; assumption].
      intros Hin. apply in_map_iff in Hin as (s' & Heq & Hs'). assert (s' <> s) by (intros ->; contradiction).
      pose proof (Hr s (or_introl eq_refl)). pose proof (Hr s' (or_intror Hs')).
      destruct (Nat.lt_ge_cases s s'); [pose proof (Hmono s s'); lia|pose proof (Hmono s' s); lia]. }
    apply Hinj; [apply NoDup_rev; exact HndS|]. intros s Hs. apply in_rev in Hs. rewrite HlenF. apply HS. exact Hs.
  - apply forallb_forall. intros z Hz. unfold znat in Hz. apply in_map_iff in Hz as (i & <- & Hi).
    apply in_map_iff in Hi as (s & <- & Hs). apply in_rev in Hs. rewrite Nat2Z.id.
    assert (Hin : In (nth s F 0%nat) F) by (apply nth_In; rewrite HlenF; apply HS; exact Hs).
    apply flatnonzero_spec in Hin. rewrite Hin. lia.
  - unfold znat. rewrite <- !map_rev, rev_involutive. fold (znat (map (fun i => nth i F 0%nat) S)).
    apply (stable_sorted_transport b); [|intros s s' Hs Hs' Hlt; apply Hmono; [exact Hlt|rewrite HlenF; apply HS; exact Hs']|exact Hst].
    intros s Hs. apply Hkey. apply HS. exact Hs.
Qed.
