(* C19 — the bookkeeping of qupulse/hardware/awgs/tabor.py::TaborChannelPair that applies a placement decision
   (clear / upload / free_program / cleanup / remove), written by hand.  The file needs tabor_control (not installed);
   it is tied to the source by a correspondence check that runs the real class against a fake instrument
   (harness/props/c19_driver.py).  Simplifications: `_segment_lengths`, sequencer tables, armed program and all device I/O other than the content of
   the waveform slots are left out; the device memory is the abstract map slot -> content hash (`dv_dev`).
   Definitions only. *)
From Coq Require Import ZArith List Bool.
Require Import QV.C19.Model.
Import ListNotations.
Open Scope Z_scope.

(* TaborProgramMemory: name, waveform_to_segment; pg_segs (ghost) = hashes of the program's segments in waveform order *)
Record prog := { pg_name : nat; pg_w2s : list Z; pg_segs : list Z }.

Record driver := {
  dv_hashes : list Z;      (* _segment_hashes *)
  dv_caps : list Z;        (* _segment_capacity *)
  dv_refs : list Z;        (* _segment_references *)
  dv_total : Z;            (* total_capacity *)
  dv_known : list prog;    (* _known_programs *)
  dv_dev : list Z          (* abstract device memory: content (hash) of every defined slot *)
}.

Inductive derror :=
| AlreadyKnown            (* ValueError: program is already known (upload without force) *)
| UnknownProgram          (* KeyError in free_program *)
| Refused (e : error)     (* RuntimeError of find_place_for_segments_in_memory *)
| RefCountNotZero         (* ValueError in _upload_segment *)
| TooLarge                (* ValueError in _upload_segment *)
| BadIndex.               (* IndexError (numpy) *)

Definition IDLE : Z := 0.   (* hash of the idle segment; any fixed value *)
(* The idle segment is an ordinary segment (192 zero samples on both channels).  A program that contains a waveform
   which is bit-identical to it produces a segment with the SAME hash: `find_positions` maps it to slot 0, the upload
   re-uses slot 0 and must count that re-use (`waveform_to_segment >= 0`, not `> 0`), because free_program decrements
   slot 0 like any other slot.  `idle_seg` is that segment as it appears in an `OUpload`. *)
Definition IDLE_LEN : Z := 192.
Definition idle_seg : Z * Z := (IDLE, IDLE_LEN).

(* clear(): one slot holding the idle segment, reference count 1, no programs *)
Definition clear (total : Z) : driver :=
  {| dv_hashes := [IDLE]; dv_caps := [192]; dv_refs := [1]; dv_total := total; dv_known := []; dv_dev := [IDLE] |}.

(* numpy index normalisation: negative indices count from the end *)
Definition norm_index (n : nat) (p : Z) : option nat :=
  if (0 <=? p) && (p <? Z.of_nat n) then Some (Z.to_nat p)
  else if (p <? 0) && (- Z.of_nat n <=? p) then Some (Z.to_nat (Z.of_nat n + p))
  else None.
Fixpoint norm_all (n : nat) (ps : list Z) : option (list nat) :=
  match ps with
  | [] => Some []
  | p :: r => match norm_index n p, norm_all n r with
              | Some i, Some l => Some (i :: l)
              | _, _ => None
              end
  end.

(* a[idx] -= 1 (every distinct index once) *)
Fixpoint decr_at_from (i : nat) (idx : list nat) (a : list Z) : list Z :=
  match a with
  | [] => []
  | x :: r => (if existsb (Nat.eqb i) idx then x - 1 else x) :: decr_at_from (S i) idx r
  end.
Definition decr_at (idx : list nat) (a : list Z) : list Z := decr_at_from 0 idx a.

Definition with_refs (d : driver) (r : list Z) : driver :=
  {| dv_hashes := dv_hashes d; dv_caps := dv_caps d; dv_refs := r; dv_total := dv_total d; dv_known := dv_known d;
     dv_dev := dv_dev d |}.
Definition with_known (d : driver) (k : list prog) : driver :=
  {| dv_hashes := dv_hashes d; dv_caps := dv_caps d; dv_refs := dv_refs d; dv_total := dv_total d; dv_known := k;
     dv_dev := dv_dev d |}.

(* free_program(name): pop the program, then _segment_references[program.waveform_to_segment] -= 1 *)
Definition free_program (d : driver) (name : nat) : driver * option derror :=
  match find (fun p => Nat.eqb (pg_name p) name) (dv_known d) with
  | None => (d, Some UnknownProgram)
  | Some p =>
      let d' := with_known d (filter (fun p => negb (Nat.eqb (pg_name p) name)) (dv_known d)) in
      match norm_all (length (dv_refs d)) (pg_w2s p) with
      | None => (d', Some BadIndex)
      | Some idx => (with_refs d' (decr_at idx (dv_refs d)), None)
      end
  end.

(* cleanup(): discard all slots after the last one that is still referenced (TRAC:DEL on the device) *)
Definition cleanup (d : driver) : driver :=
  let new_end := first_free_of (dv_refs d) in
  {| dv_hashes := firstn new_end (dv_hashes d); dv_caps := firstn new_end (dv_caps d);
     dv_refs := firstn new_end (dv_refs d); dv_total := dv_total d; dv_known := dv_known d;
     dv_dev := firstn new_end (dv_dev d) |}.

(* _upload_segment(segment_index, segment) *)
Definition upload_segment (d : driver) (idx : nat) (h len : Z) : driver * option derror :=
  if negb (Nat.ltb idx (length (dv_refs d))) then (d, Some BadIndex)
  else if 0 <? nth idx (dv_refs d) 0 then (d, Some RefCountNotZero)
  else if nth idx (dv_caps d) 0 <? len then (d, Some TooLarge)
  else ({| dv_hashes := set_nth idx h (dv_hashes d); dv_caps := dv_caps d; dv_refs := set_nth idx 1 (dv_refs d);
           dv_total := dv_total d; dv_known := dv_known d; dv_dev := set_nth idx h (dv_dev d) |}, None).

(* the writes of `for wf_index in np.flatnonzero(to_insert > 0)` — note `> 0`, not `>= 0` *)
Fixpoint writes_of (ins : list Z) (segs : list (Z * Z)) : list (nat * (Z * Z)) :=
  match ins, segs with
  | q :: i, s :: ss => if 0 <? q then (Z.to_nat q, s) :: writes_of i ss else writes_of i ss
  | _, _ => []
  end.
Fixpoint do_writes (d : driver) (ws : list (nat * (Z * Z))) : driver * option derror :=
  match ws with
  | [] => (d, None)
  | (idx, (h, len)) :: r => match upload_segment d idx h len with
                            | (d', None) => do_writes d' r
                            | (d', Some e) => (d', Some e)
                            end
  end.
(* waveform_to_segment[wf_index] = to_insert[wf_index] for those entries *)
Fixpoint merge_w2s (w2s ins : list Z) : list Z :=
  match w2s, ins with
  | p :: w, q :: i => (if 0 <? q then q else p) :: merge_w2s w i
  | _, _ => w2s
  end.

(* _amend_segments: append the segments behind the last defined slot *)
Definition amend (d : driver) (segs : list (Z * Z)) : driver * list Z :=
  let n := length (dv_caps d) in
  ({| dv_hashes := dv_hashes d ++ map fst segs; dv_caps := dv_caps d ++ map snd segs;
      dv_refs := dv_refs d ++ map (fun _ => 1) segs; dv_total := dv_total d; dv_known := dv_known d;
      dv_dev := dv_dev d ++ map fst segs |},
   map (fun k => Z.of_nat (n + k)) (seq 0 (length segs))).

(* a[mask] = values *)
Fixpoint assign_mask (w : list Z) (m : list bool) (v : list Z) : list Z :=
  match w, m with
  | p :: w', b :: m' =>
      if b then match v with
                | x :: v' => x :: assign_mask w' m' v'
                | [] => p :: assign_mask w' m' []
                end
      else p :: assign_mask w' m' v
  | _, _ => w
  end.

Definition place_fun := memory -> list Z -> list Z -> result decision.

(* upload(name, program, ..., force) after the program has been sampled into segments (hash, length) *)
(* `counted` = the mask applied to waveform_to_segment before `_segment_references[...] += 1`; the code has `>= 0`
   (upload_with below).  The parameter only exists to state what goes wrong with `> 0` (Props.C19_slot0_reuse_must_be_counted). *)
Definition upload_gen (counted : Z -> bool) (place : place_fun) (d : driver) (name : nat) (segs : list (Z * Z))
  (force : bool) : driver * option derror :=
  let pre := if existsb (fun p => Nat.eqb (pg_name p) name) (dv_known d)
             then (if force then free_program d name else (d, Some AlreadyKnown))
             else (d, None) in
  match pre with
  | (d1, Some e) => (d1, Some e)
  | (d1, None) =>
      match place {| m_hashes := dv_hashes d1; m_refs := dv_refs d1; m_caps := dv_caps d1; m_total := dv_total d1 |}
                  (map fst segs) (map snd segs) with
      | Err e => (d1, Some (Refused e))
      | Ok dec =>
          (* self._segment_references[waveform_to_segment[waveform_to_segment >= 0]] += 1 *)
          let d2 := with_refs d1 (incr_at (map Z.to_nat (filter counted (d_w2s dec))) (dv_refs d1)) in
          match do_writes d2 (writes_of (d_insert dec) segs) with
          | (d3, Some e) => (d3, Some e)
          | (d3, None) =>
              let w3 := merge_w2s (d_w2s dec) (d_insert dec) in
              let '(d4, w4) := if existsb (fun b => b) (d_amend dec)
                               (* `self.cleanup()` right before `_amend_segments` (repair of the finding
                                  append-behind-freed-trailing-slots): the placement counted the unreferenced slots
                                  behind the last referenced one as free space *)
                               then (let '(d4, idxs) := amend (cleanup d3) (mask (d_amend dec) segs) in
                                     (d4, assign_mask w3 (d_amend dec) idxs))
                               else (d3, w3) in
              (with_known d4 ({| pg_name := name; pg_w2s := w4; pg_segs := map fst segs |} :: dv_known d4), None)
          end
      end
  end.
Definition upload_with : place_fun -> driver -> nat -> list (Z * Z) -> bool -> driver * option derror :=
  upload_gen (fun p => 0 <=? p).
Definition upload := upload_with find_place.

Inductive op :=
| OUpload (name : nat) (segs : list (Z * Z)) (force : bool)
| OFree (name : nat)         (* free_program *)
| ORemove (name : nat)       (* remove = free_program; cleanup *)
| OCleanup
| OClear.

Definition step_with (place : place_fun) (d : driver) (o : op) : driver * option derror :=
  match o with
  | OUpload name segs force => upload_with place d name segs force
  | OFree name => free_program d name
  | ORemove name => match free_program d name with
                    | (d', None) => (cleanup d', None)
                    | r => r
                    end
  | OCleanup => (cleanup d, None)
  | OClear => (clear (dv_total d), None)
  end.

(* a history: every operation is applied to the state the previous one left behind, also after an exception *)
Fixpoint run_with (place : place_fun) (d : driver) (ops : list op) : driver :=
  match ops with
  | [] => d
  | o :: r => run_with place (fst (step_with place d o)) r
  end.
Definition run := run_with find_place.

(* the same histories with another `counted` mask in upload() (only used for the negative statement
   Props.C19_slot0_reuse_must_be_counted; `run_counted (fun p => 0 <=? p)` is `run`) *)
Definition step_counted (counted : Z -> bool) (d : driver) (o : op) : driver * option derror :=
  match o with
  | OUpload name segs force => upload_gen counted find_place d name segs force
  | _ => step_with find_place d o
  end.
Fixpoint run_counted (counted : Z -> bool) (d : driver) (ops : list op) : driver :=
  match ops with
  | [] => d
  | o :: r => run_counted counted (fst (step_counted counted d o)) r
  end.

(* ------------------------------------------------------------------------------------------------------------- *)
(* input well-formedness for the capacity theorem: segment lengths are numbers of points (unsigned in the driver) *)
Definition op_lens_nonneg (o : op) : bool :=
  match o with
  | OUpload _ segs _ => forallb (fun s => 0 <=? snd s) segs
  | _ => true
  end.
Definition ops_lens_nonneg (ops : list op) : bool := forallb op_lens_nonneg ops.
