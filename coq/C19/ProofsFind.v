(* C19 — find_positions returns the FIRST index holding the value, and -1 exactly when the value is absent. *)
From Coq Require Import ZArith List Bool Lia ZifyBool Permutation Sorted Arith.
Require Import QV.C19.Model QV.C19.ProofsList QV.C19.Proofs.
Import ListNotations.
Open Scope Z_scope.

(* lexicographic order on (key, original index): what a stable sort of an enumerated list produces *)
Definition lex_le (p q : Z * nat) : Prop := fst p < fst q \/ (fst p = fst q /\ (snd p <= snd q)%nat).

Lemma insert_stable_lex p l :
  StronglySorted lex_le l -> Forall (fun q => (snd p < snd q)%nat) l -> StronglySorted lex_le (insert_stable p l).
Proof.
  induction l as [|q l IH]; intros Hs Hidx; cbn.
  - constructor; constructor.
  - inversion Hs as [|? ? Hs' Hf]; subst. inversion Hidx as [|? ? Hq Hidx']; subst.
    destruct (fst p <=? fst q) eqn:E.
    + constructor; [exact Hs|]. constructor.
      * unfold lex_le. destruct (Z.eq_dec (fst p) (fst q)); [right; split; [assumption|lia]|left; lia].
      * rewrite Forall_forall in *. intros r Hr. specialize (Hf r Hr). specialize (Hidx' r Hr).
        unfold lex_le in *. destruct Hf as [Hf|[Hf1 Hf2]]; [left; lia|].
        destruct (Z.eq_dec (fst p) (fst q)); [right; split; [congruence|lia]|left; lia].
    + constructor; [apply IH; assumption|].
      eapply Permutation_Forall; [apply Permutation_sym, insert_stable_perm|].
      constructor; [unfold lex_le; left; lia|exact Hf].
Qed.

Lemma enumerate_from_idx_ge {A} k (l : list A) : Forall (fun q => (k <= snd q)%nat) (enumerate_from k l).
Proof.
  revert k; induction l as [|a l IH]; intros k; cbn; constructor; [cbn; lia|].
  eapply Forall_impl; [|apply (IH (S k))]. cbn. intros; lia.
Qed.

Lemma isort_enumerate_lex k (a : list Z) : StronglySorted lex_le (isort (enumerate_from k a)).
Proof.
  revert k; induction a as [|x a IH]; intros k; cbn; [constructor|].
  apply insert_stable_lex; [apply IH|].
  eapply Permutation_Forall; [apply Permutation_sym, isort_perm|].
  eapply Forall_impl; [|apply (enumerate_from_idx_ge (S k))]. cbn. intros; lia.
Qed.

Lemma enumerate_from_in {A} k (l : list A) i d : (i < length l)%nat -> In (nth i l d, (k + i)%nat) (enumerate_from k l).
Proof.
  revert k i; induction l as [|a l IH]; intros k [|i] H; cbn in *; try lia.
  - left. f_equal. lia.
  - right. replace (k + S i)%nat with (S k + i)%nat by lia. apply IH. lia.
Qed.

(* in a lex-sorted list, the element at position count(< x) is the one with the smallest index among key x *)
Lemma lex_first s x :
  StronglySorted lex_le s ->
  forall i, In (x, i) s ->
  (count_lt x (map fst s) < count_le x (map fst s))%nat /\
  (snd (nth (count_lt x (map fst s)) s (0%Z, 0%nat)) <= i)%nat.
Proof.
  unfold count_lt, count_le.
  induction 1 as [|p s Hs IH Hf]; intros i Hin; [destruct Hin|].
  cbn [map filter].
  destruct Hin as [->|Hin]; cbn [fst].
  - assert (E1 : x <? x = false) by lia. assert (E2 : x <=? x = true) by lia. rewrite E1, E2.
    assert (Hz : length (filter (fun y => y <? x) (map fst s)) = 0%nat).
    { rewrite Forall_forall in Hf. clear -Hf. induction s as [|q s IH]; cbn; auto.
      assert (Hq : lex_le (x, i) q) by (apply Hf; left; reflexivity). unfold lex_le in Hq; cbn in Hq.
      assert (E : fst q <? x = false) by lia. rewrite E. apply IH. intros r Hr. apply Hf. right; exact Hr. }
    rewrite Hz. cbn. split; lia.
  - specialize (IH i Hin). destruct IH as [IH1 IH2].
    rewrite Forall_forall in Hf. pose proof (Hf _ Hin) as Hp. unfold lex_le in Hp; cbn in Hp.
    destruct (fst p <? x) eqn:E1; destruct (fst p <=? x) eqn:E2; try lia.
    + cbn [length nth]. split; [lia|exact IH2].
    + (* fst p = x: p itself is at position 0 and has the smaller index *)
      assert (Hz : length (filter (fun y => y <? x) (map fst s)) = 0%nat).
      { clear -Hf E1 E2. induction s as [|q s IH]; cbn; auto.
        assert (Hq : lex_le p q) by (apply Hf; left; reflexivity). unfold lex_le in Hq.
        assert (E : fst q <? x = false) by lia. rewrite E. apply IH. intros r Hr. apply Hf. right; exact Hr. }
      rewrite Hz. cbn. split; lia.
Qed.

Theorem find_positions_first data tf j x :
  nth_error tf j = Some x ->
  (* absent: -1 *)
  ((~ In x data) -> nth_error (find_positions data tf) j = Some (-1)) /\
  (* present: the smallest index holding x *)
  (forall i, (i < length data)%nat -> nth i data 0 = x ->
     exists i0, nth_error (find_positions data tf) j = Some (Z.of_nat i0) /\ (i0 <= i)%nat /\ nth i0 data 0 = x).
Proof.
  intros Hx. split.
  - intros Hnot. pose proof (find_positions_length data tf) as Hl.
    destruct (nth_error (find_positions data tf) j) as [p|] eqn:E.
    + destruct (find_positions_spec _ _ _ _ E) as [->|(i & y & -> & Hi & Hy & Hj)]; [reflexivity|].
      rewrite Hx in Hj. assert (Hyx : x = y) by congruence. exfalso. apply Hnot. rewrite Hyx, <- Hy. apply nth_In. exact Hi.
    + apply nth_error_None in E. assert (j < length tf)%nat by (apply nth_error_Some; congruence). lia.
  - intros i Hi Hd. unfold find_positions. rewrite nth_error_map, Hx. unfold option_map.
    set (s := isort (enumerate_from 0 data)).
    assert (Hsorted : take_idx 0 data (argsort data) = map fst s) by apply take_idx_argsort.
    rewrite Hsorted.
    assert (Hin : In (x, i) s).
    { eapply Permutation_in; [apply Permutation_sym, isort_perm|]. rewrite <- Hd.
      apply (enumerate_from_in 0 data i 0 Hi). }
    destruct (lex_first s x (isort_enumerate_lex 0 data) i Hin) as [Hlt Hmin].
    assert (E : (count_lt x (map fst s) <? count_le x (map fst s))%nat = true) by lia. rewrite E.
    set (L := count_lt x (map fst s)) in *.
    assert (HL : (L < length s)%nat).
    { pose proof (count_lt_le_length x (map fst s)). rewrite map_length in H. lia. }
    unfold argsort. fold s.
    rewrite (nth_map_lt snd s L 0%nat (0%Z, 0%nat)) by exact HL.
    exists (snd (nth L s (0%Z, 0%nat))). split; [reflexivity|]. split; [exact Hmin|].
    (* the pair at L is (x, its index) and comes from data *)
    assert (Hkey : nth L (map fst s) 0 = x).
    { apply searchsorted_hit; [apply sorted_keys, isort_sorted|exact Hlt]. }
    rewrite (nth_map_lt fst s L 0 (0%Z, 0%nat)) in Hkey by exact HL.
    assert (Hmem : In (nth L s (0%Z, 0%nat)) (enumerate_from 0 data)).
    { eapply Permutation_in; [apply isort_perm|]. apply nth_In. exact HL. }
    destruct (nth L s (0%Z, 0%nat)) as [v k] eqn:Ep. cbn in *.
    apply (enumerate_from_spec 0 data v k 0) in Hmem as [_ Hv]. replace (k - 0)%nat with k in Hv by lia. congruence.
Qed.
