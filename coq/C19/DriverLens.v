(* C19 — `_segment_lengths` and the :TRAC:DEF / segment-length-table traffic of the two Tabor drivers, as a layer on top
   of Driver.v (which is unchanged; ProofsLens.xrun_refines: the `x_d` component of this model IS Driver.run_with).
   Added state: the driver's `_segment_lengths` array and the instrument's table of DEFINED segment lengths (what
   `:TRAC:DEF n, len` / `download_segment_lengths` last set for slot n; `TRAC:DEL n` drops the entry).  A slot plays
   `defined length` points starting at its address: a program's segment is played correctly only if the defined length
   of its slot is the segment's own length (the capacity may be larger when a freed slot was overwritten by a shorter
   segment).
     clear            :TRAC:DEF 1, 192                          lengths = [192]
     _upload_segment  :TRAC:DEF idx+1, num_points               lengths[idx] = num_points
     _amend_segments  :TRAC:DEF first, combined length; then
                        if len(segments) < count_nonzero(capacity != lengths):   :TRAC:DEF first+i, num_points_i
                        else download_segment_lengths(capacity ++ new) (ALL slots := capacity) followed by
                             :TRAC:DEF i+1, lengths[i] for every i with capacity[i] != lengths[i]
     cleanup          TRAC:DEL for the dropped slots            lengths = lengths[:new_end]
   The intermediate definition of slot `first` with the combined length is overwritten in both branches and is not kept
   in the model (the fake instrument of the harness interprets the real command stream; the final tables are compared).
   Definitions only. *)
From Coq Require Import ZArith List Bool.
Require Import QV.C19.Model QV.C19.Driver.
Import ListNotations.
Open Scope Z_scope.

Record xdriver := {
  x_d : driver;
  x_lens : list Z;      (* _segment_lengths *)
  x_devlen : list Z     (* instrument: defined length of slot 1..n *)
}.

Definition xwith_d (s : xdriver) (d : driver) : xdriver := {| x_d := d; x_lens := x_lens s; x_devlen := x_devlen s |}.

Definition xclear (total : Z) : xdriver := {| x_d := clear total; x_lens := [192]; x_devlen := [192] |}.

Definition xcleanup (s : xdriver) : xdriver :=
  let new_end := first_free_of (dv_refs (x_d s)) in
  {| x_d := cleanup (x_d s); x_lens := firstn new_end (x_lens s); x_devlen := firstn new_end (x_devlen s) |}.

Definition xfree (s : xdriver) (name : nat) : xdriver * option derror :=
  let '(d', e) := free_program (x_d s) name in (xwith_d s d', e).

Definition xupload_segment (s : xdriver) (idx : nat) (h len : Z) : xdriver * option derror :=
  match upload_segment (x_d s) idx h len with
  | (d', None) => ({| x_d := d'; x_lens := set_nth idx len (x_lens s); x_devlen := set_nth idx len (x_devlen s) |}, None)
  | (d', Some e) => (xwith_d s d', Some e)
  end.

Fixpoint xdo_writes (s : xdriver) (ws : list (nat * (Z * Z))) : xdriver * option derror :=
  match ws with
  | [] => (s, None)
  | (idx, (h, len)) :: r => match xupload_segment s idx h len with
                            | (s', None) => xdo_writes s' r
                            | (s', Some e) => (s', Some e)
                            end
  end.

(* np.count_nonzero(self._segment_capacity != self._segment_lengths) *)
Definition count_ne (a b : list Z) : nat := length (filter (fun cl => negb (fst cl =? snd cl)) (combine a b)).

(* download_segment_lengths(capacity) followed by :TRAC:DEF i+1, lengths[i] where capacity[i] != lengths[i] *)
Definition flush_lengths (caps lens : list Z) : list Z :=
  map (fun cl => if fst cl =? snd cl then fst cl else snd cl) (combine caps lens).

Definition xamend (s : xdriver) (segs : list (Z * Z)) : xdriver * list Z :=
  let '(d', idxs) := amend (x_d s) segs in
  let new_lengths := map snd segs in
  let old_to_update := count_ne (dv_caps (x_d s)) (x_lens s) in
  let segment_capacity := dv_caps (x_d s) ++ new_lengths in
  let segment_lengths := x_lens s ++ new_lengths in
  let devlen := if (length segs <? old_to_update)%nat
                then x_devlen s ++ new_lengths                       (* one :TRAC:DEF per new segment *)
                else flush_lengths segment_capacity segment_lengths in
  ({| x_d := d'; x_lens := segment_lengths; x_devlen := devlen |}, idxs).

Definition xupload (place : place_fun) (s : xdriver) (name : nat) (segs : list (Z * Z)) (force : bool)
  : xdriver * option derror :=
  let pre := if existsb (fun p => Nat.eqb (pg_name p) name) (dv_known (x_d s))
             then (if force then xfree s name else (s, Some AlreadyKnown))
             else (s, None) in
  match pre with
  | (s1, Some e) => (s1, Some e)
  | (s1, None) =>
      let d1 := x_d s1 in
      match place {| m_hashes := dv_hashes d1; m_refs := dv_refs d1; m_caps := dv_caps d1; m_total := dv_total d1 |}
                  (map fst segs) (map snd segs) with
      | Err e => (s1, Some (Refused e))
      | Ok dec =>
          let s2 := xwith_d s1 (with_refs d1 (incr_at (map Z.to_nat (filter (fun p => 0 <=? p) (d_w2s dec))) (dv_refs d1))) in
          match xdo_writes s2 (writes_of (d_insert dec) segs) with
          | (s3, Some e) => (s3, Some e)
          | (s3, None) =>
              let w3 := merge_w2s (d_w2s dec) (d_insert dec) in
              let '(s4, w4) := if existsb (fun b => b) (d_amend dec)
                               then (let '(s4, idxs) := xamend (xcleanup s3) (mask (d_amend dec) segs) in
                                     (s4, assign_mask w3 (d_amend dec) idxs))
                               else (s3, w3) in
              (xwith_d s4 (with_known (x_d s4)
                             ({| pg_name := name; pg_w2s := w4; pg_segs := map fst segs |} :: dv_known (x_d s4))), None)
          end
      end
  end.

Definition xstep (place : place_fun) (s : xdriver) (o : op) : xdriver * option derror :=
  match o with
  | OUpload name segs force => xupload place s name segs force
  | OFree name => xfree s name
  | ORemove name => match xfree s name with
                    | (s', None) => (xcleanup s', None)
                    | r => r
                    end
  | OCleanup => (xcleanup s, None)
  | OClear => (xclear (dv_total (x_d s)), None)
  end.

Fixpoint xrun (place : place_fun) (s : xdriver) (ops : list op) : xdriver :=
  match ops with
  | [] => s
  | o :: r => xrun place (fst (xstep place s o)) r
  end.

(* no two different segments share a hash: the length of a segment is a function of its hash (the idle segment has 192
   points).  Content is identified with the hash throughout the model (Driver.dv_dev); this is the same identification
   for the length. *)
Definition op_lens_from (lenof : Z -> Z) (o : op) : Prop :=
  match o with
  | OUpload _ segs _ => forall h l, In (h, l) segs -> l = lenof h
  | _ => True
  end.
