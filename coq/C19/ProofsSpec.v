(* C19 — the executable checker Spec.decision_okb (evaluated on the implementation's arrays by the correspondence
   check) decides the Prop specification Spec.decision_ok used by the theorems. *)
From Coq Require Import ZArith List Bool Lia ZifyBool Arith.
Require Import QV.C19.Model QV.C19.Spec QV.C19.ProofsList QV.C19.Proofs.
Import ListNotations.
Open Scope Z_scope.

Lemma nth_error_combine {A B} (a : list A) (b : list B) j x y :
  nth_error a j = Some x -> nth_error b j = Some y -> nth_error (combine a b) j = Some (x, y).
Proof.
  revert b j; induction a as [|a0 a IH]; intros [|b0 b] [|j] H1 H2; cbn in *; try discriminate.
  - inversion H1; inversion H2; reflexivity.
  - apply IH; assumption.
Qed.

Lemma nth_error_combine_inv {A B} (a : list A) (b : list B) j x y :
  nth_error (combine a b) j = Some (x, y) -> nth_error a j = Some x /\ nth_error b j = Some y.
Proof.
  revert b j; induction a as [|a0 a IH]; intros [|b0 b] [|j] H; cbn in *; try discriminate.
  - inversion H; auto.
  - apply IH; assumption.
Qed.

Lemma nth_error_Some_lt {A} (l : list A) j x : nth_error l j = Some x -> (j < length l)%nat.
Proof. intros H. apply nth_error_Some. congruence. Qed.

Lemma nth_error_lt_some' {A} (l : list A) j : (j < length l)%nat -> exists x, nth_error l j = Some x.
Proof. intros H. destruct (nth_error l j) eqn:E; eauto. apply nth_error_None in E. lia. Qed.

Lemma forallb_nth_error {A} (f : A -> bool) l j x : forallb f l = true -> nth_error l j = Some x -> f x = true.
Proof. intros H Hx. rewrite forallb_forall in H. apply H. eapply nth_error_In; eauto. Qed.

Lemma nodup_nonneg_spec l :
  nodup_nonneg l = true <->
  (forall j1 j2 p, nth_error l j1 = Some p -> nth_error l j2 = Some p -> p <> -1 -> j1 = j2).
Proof.
  induction l as [|a l IH]; cbn.
  - split; [intros _ j1 j2 p H; destruct j1; discriminate|reflexivity].
  - rewrite andb_true_iff, IH. split.
    + intros [Ha Hl] j1 j2 p H1 H2 Hp.
      destruct j1 as [|j1]; destruct j2 as [|j2]; cbn in *; auto.
      * inversion H1; subst a. exfalso. apply nth_error_In in H2.
        destruct (p =? -1) eqn:E; [lia|]. cbn in Ha. apply negb_true_iff in Ha.
        assert (existsb (Z.eqb p) l = true) by (apply existsb_Z_in; exact H2). congruence.
      * inversion H2; subst a. exfalso. apply nth_error_In in H1.
        destruct (p =? -1) eqn:E; [lia|]. cbn in Ha. apply negb_true_iff in Ha.
        assert (existsb (Z.eqb p) l = true) by (apply existsb_Z_in; exact H1). congruence.
      * f_equal. eapply Hl; eauto.
    + intros H. split.
      * destruct (a =? -1) eqn:E; [reflexivity|]. cbn. apply negb_true_iff.
        destruct (existsb (Z.eqb a) l) eqn:Ex; [|reflexivity]. exfalso.
        apply existsb_Z_in in Ex. apply In_nth_error in Ex as (j & Hj).
        specialize (H 0%nat (S j) a eq_refl Hj ltac:(lia)). discriminate.
      * intros j1 j2 p H1 H2 Hp. specialize (H (S j1) (S j2) p H1 H2 Hp). lia.
Qed.

Theorem decision_okb_sound mem nh nl d :
  length nh = length nl -> decision_okb mem nh nl d = true -> decision_ok mem nh nl d.
Proof.
  intros Lnl. unfold decision_okb. rewrite !andb_true_iff. intros [[[H1 H2] H3] H4].
  unfold clause_accountb in H4. rewrite !andb_true_iff in H4. destruct H4 as [[[L1 L2] L3] H4].
  apply Nat.eqb_eq in L1, L2, L3.
  unfold decision_ok. split; [|split; [|split]].
  - (* reuse *)
    intros j p Hp Hne. unfold clause_reuseb in H1.
    destruct (nth_error_lt_some' nh j) as (h & Hh).
    { apply nth_error_Some_lt in Hp. lia. }
    pose proof (forallb_nth_error _ _ j (p, h) H1 (nth_error_combine _ _ _ _ _ Hp Hh)) as Hc. cbn [fst snd] in Hc.
    destruct (p =? -1) eqn:E; [lia|]. cbn [orb] in Hc. rewrite !andb_true_iff in Hc. destruct Hc as [[Hc1 Hc2] Hc3].
    exists (Z.to_nat p), h. split; [lia|]. split; [|exact Hh].
    replace h with (nth (Z.to_nat p) (m_hashes mem) 0) by lia. apply nth_nth_error. lia.
  - (* insert *)
    unfold clause_insertb in H2. rewrite andb_true_iff in H2. destruct H2 as [H2a H2b]. split.
    + intros j p Hp Hne.
      destruct (nth_error_lt_some' nl j) as (l & Hl).
      { apply nth_error_Some_lt in Hp. lia. }
      pose proof (forallb_nth_error _ _ j (p, l) H2a (nth_error_combine _ _ _ _ _ Hp Hl)) as Hc. cbn [fst snd] in Hc.
      destruct (p =? -1) eqn:E; [lia|]. cbn [orb] in Hc. rewrite !andb_true_iff in Hc.
      destruct Hc as [[[[[Hc1 Hc2] Hc3] Hc4] Hc5] Hc6].
      exists (Z.to_nat p), (nth (Z.to_nat p) (m_caps mem) 0), l. split; [lia|].
      split; [rewrite (nth_nth_error (m_refs mem) (Z.to_nat p) 1) by lia; f_equal; lia|].
      split.
      * unfold reused. intros Hin. apply negb_true_iff in Hc5.
        assert (existsb (Z.eqb p) (d_w2s d) = true). { apply existsb_Z_in. replace p with (Z.of_nat (Z.to_nat p)) by lia. exact Hin. }
        congruence.
      * split; [apply nth_nth_error; lia|]. split; [exact Hl|lia].
    + apply nodup_nonneg_spec. exact H2b.
  - unfold clause_amend. unfold clause_amendb in H3. lia.
  - unfold clause_account. split; [exact L1|]. split; [exact L2|]. split; [exact L3|].
    intros j p a q Hp Ha Hq.
    pose proof (forallb_nth_error _ _ j ((p, a), q) H4
                  (nth_error_combine _ _ _ _ _ (nth_error_combine _ _ _ _ _ Hp Ha) Hq)) as Hc. cbn [fst snd] in Hc.
    unfold exactly_one.
    destruct (p =? -1) eqn:E1; destruct (q =? -1) eqn:E2; destruct a; cbn in Hc; try discriminate.
    all: try (right; right; repeat split; try lia; fail).
    all: try (right; left; repeat split; try lia; try discriminate; fail).
    all: try (left; repeat split; try lia; try discriminate; fail).
Qed.

Lemma forallb_combine_intro {A B} (f : A * B -> bool) (a : list A) (b : list B) :
  (forall j x y, nth_error a j = Some x -> nth_error b j = Some y -> f (x, y) = true) ->
  forallb f (combine a b) = true.
Proof.
  revert b; induction a as [|x a IH]; intros [|y b] H; cbn; auto.
  rewrite (H 0%nat x y eq_refl eq_refl). cbn. apply IH. intros j x' y' H1 H2. apply (H (S j)); assumption.
Qed.

Theorem decision_okb_complete mem nh nl d : decision_ok mem nh nl d -> decision_okb mem nh nl d = true.
Proof.
  intros (C1 & [C2a C2b] & C3 & (L1 & L2 & L3 & C4)).
  unfold decision_okb. rewrite !andb_true_iff. repeat split.
  - unfold clause_reuseb. apply forallb_combine_intro. intros j p h Hp Hh. cbn [fst snd].
    destruct (p =? -1) eqn:E; [reflexivity|]. cbn [orb].
    destruct (C1 j p Hp ltac:(lia)) as (i & h' & -> & Hi & Hh'). rewrite Hh in Hh'. inversion Hh'; subst h'.
    apply (nth_error_nth' _ _ 0) in Hi as [Hi1 Hi2]. rewrite Nat2Z.id. rewrite Hi2.
    rewrite Z.eqb_refl. assert ((0 <=? Z.of_nat i) = true) by lia. assert ((i <? length (m_hashes mem))%nat = true) by lia.
    rewrite H, H0. reflexivity.
  - unfold clause_insertb. apply andb_true_iff. split.
    + apply forallb_combine_intro. intros j p l Hp Hl. cbn [fst snd].
      destruct (p =? -1) eqn:E; [reflexivity|]. cbn [orb].
      destruct (C2a j p Hp ltac:(lia)) as (i & c & l' & -> & Hr & Hnr & Hc & Hl' & Hle).
      rewrite Hl in Hl'. inversion Hl'; subst l'.
      apply (nth_error_nth' _ _ 1) in Hr as [Hr1 Hr2]. apply (nth_error_nth' _ _ 0) in Hc as [Hc1 Hc2].
      rewrite Nat2Z.id. rewrite Hr2, Hc2.
      assert (E5 : existsb (Z.eqb (Z.of_nat i)) (d_w2s d) = false).
      { destruct (existsb _ _) eqn:Ex; [|reflexivity]. apply existsb_Z_in in Ex. exfalso. apply Hnr. exact Ex. }
      rewrite E5.
      assert (E1 : (0 <=? Z.of_nat i) = true) by lia. assert (E2 : (i <? length (m_refs mem))%nat = true) by lia.
      assert (E3 : (i <? length (m_caps mem))%nat = true) by lia. assert (E4 : (l <=? c) = true) by lia.
      rewrite E1, E2, E3, E4. reflexivity.
    + apply nodup_nonneg_spec. exact C2b.
  - unfold clause_amendb. unfold clause_amend in C3. lia.
  - unfold clause_accountb. rewrite L1, L2, L3, !Nat.eqb_refl. cbn [andb].
    apply forallb_combine_intro. intros j (p, a) q Hpa Hq. apply nth_error_combine_inv in Hpa as [Hp Ha].
    cbn [fst snd]. specialize (C4 j p a q Hp Ha Hq). unfold exactly_one in C4.
    destruct (p =? -1) eqn:E1; destruct (q =? -1) eqn:E2; destruct a; cbn; auto; exfalso;
      destruct C4 as [(H1 & H2 & H3)|[(H1 & H2 & H3)|(H1 & H2 & H3)]]; try lia; try congruence;
      try (apply H3; reflexivity); try (apply H2; lia); try (apply H1; lia).
Qed.

Corollary decision_okb_iff mem nh nl d :
  length nh = length nl -> (decision_okb mem nh nl d = true <-> decision_ok mem nh nl d).
Proof. intros L. split; [apply decision_okb_sound; exact L|apply decision_okb_complete]. Qed.
