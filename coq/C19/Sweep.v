(* C19 — the small scopes of the placement function, enumerated INSIDE Coq.  The thorough tier sweeps the scopes
   (slots, new segments) = (3,2) and (2,3) completely: Python runs the real function on every layout and sends only the
   returned decisions, packed (20 bits per layout) into big hexadecimal literals; Coq regenerates the layout from its
   index (`scope_item`, mirror of harness/props/c19.py::_scope_item), the total capacity from the index
   (`scope_total`), decodes the decision and evaluates Corr.check_spec (the four clauses, `decision_okb`) and
   Corr.check_corr (model = implementation) on it.  Definitions only. *)
From Coq Require Import ZArith List Bool NArith.
Require Import QV.C19.Model QV.C19.Spec QV.C19.Driver QV.C19.Corr.
Import ListNotations.
Open Scope Z_scope.

Definition S_HASHES : list Z := [1; 2; 3].
Definition S_CAPS : list Z := [192; 208; 384].
Definition S_REFS : list Z := [0; 1; 2].
(* itertools.product(HASHES, REFS, CAPS): the last factor varies fastest *)
Definition S_SLOT : list (Z * Z * Z) :=
  flat_map (fun h => flat_map (fun r => map (fun c => (h, r, c)) S_CAPS) S_REFS) S_HASHES.
Definition S_NEWSEG : list (Z * Z) := flat_map (fun h => map (fun c => (h, c)) S_CAPS) (S_HASHES ++ [9]).

Fixpoint digits {A} (d : A) (tbl : list A) (base : Z) (n : nat) (idx : Z) : list A * Z :=
  match n with
  | O => ([], idx)
  | S n' => let '(rest, idx') := digits d tbl base n' (idx / base) in
            (nth (Z.to_nat (idx mod base)) tbl d :: rest, idx')
  end.

(* (hashes, refs, caps, new hashes, new lengths) of the idx-th layout: the new segments are the low digits (base 12),
   then the slots (base 27) *)
Definition scope_item (nslots nnew : nat) (idx : Z) : list Z * list Z * list Z * list Z * list Z :=
  let '(new, idx1) := digits (0, 0) S_NEWSEG 12 nnew idx in
  let '(lay, _) := digits (0, 0, 0) S_SLOT 27 nslots idx1 in
  (map (fun s => fst (fst s)) lay, map (fun s => snd (fst s)) lay, map snd lay, map fst new, map snd new).

(* the 19 total capacities around the two refusal thresholds (harness/props/c19.py::_totals) *)
Definition totals (hashes refs caps nh nl : list Z) : list Z :=
  let reserved := zsum (map snd (filter (fun rc => 0 <? fst rc) (combine refs caps))) in
  let unknown := zsum (map (fun hl => snd hl + 16)
                           (filter (fun hl => negb (existsb (Z.eqb (fst hl)) hashes)) (combine nh nl))) in
  let allc := zsum caps in
  map (fun d => reserved + unknown + d) [-16; -1; 0; 1; 16; 192; 400]
  ++ map (fun d => allc + d) [-1; 0; 15; 16; 17; 208; 224; 1000]
  ++ map (fun d => allc + unknown + d) [-1; 0; 1]
  ++ [1048576].

(* which of them the layout gets: determined by its index and the run's seed *)
Definition scope_total (seed idx : Z) (hashes refs caps nh nl : list Z) : Z :=
  nth (Z.to_nat ((idx * 7 + 3 * seed) mod 19)) (totals hashes refs caps nh nl) 0.

(* 20 bits per layout: bits 0-1 kind (0 decision, 1 NotEnoughMemory, 2 Fragmentation, 3 anything else), then 5 bits
   per new segment: waveform_to_segment + 1 (2 bits), to_insert + 1 (2 bits), to_amend (1 bit) *)
Fixpoint decode_segs (n : nat) (c : Z) : list Z * list bool * list Z :=
  match n with
  | O => ([], [], [])
  | S n' => let '(w, a, i) := decode_segs n' (Z.shiftr c 5) in
            (Z.land c 3 - 1 :: w, Z.testbit c 4 :: a, Z.land (Z.shiftr c 2) 3 - 1 :: i)
  end.
Definition decode (nnew : nat) (code : Z) : option impl_obs :=
  match Z.land code 3 with
  | 0 => let '(w, a, i) := decode_segs nnew (Z.shiftr code 2) in Some (IRet w a i)
  | 1 => if code =? 1 then Some (IRefuse (Some NotEnoughMemory)) else None
  | 2 => if code =? 2 then Some (IRefuse (Some Fragmentation)) else None
  | _ => None
  end.

Definition layout_ok (nslots nnew : nat) (seed idx code : Z) : bool :=
  let '(h, r, cp, nh, nl) := scope_item nslots nnew idx in
  let t := scope_total seed idx h r cp nh nl in
  match decode nnew code with
  | Some impl => let c := CPlace h r cp t nh nl impl true in check_spec c && check_corr c
  | None => false
  end.

(* indices lo .. lo+count-1; the codes are packed little-endian, 12 per word (240 bits); returns the failing indices
   (at most the first 20) and their number *)
Definition WORD : Z := 12.
Fixpoint sweep_word (nslots nnew : nat) (seed idx : Z) (k : nat) (p : Z) (acc : list Z * Z) : list Z * Z :=
  match k with
  | O => acc
  | S k' =>
      let acc' := if layout_ok nslots nnew seed idx (Z.land p 1048575) then acc
                  else ((if snd acc <? 20 then idx :: fst acc else fst acc), snd acc + 1) in
      sweep_word nslots nnew seed (idx + 1) k' (Z.shiftr p 20) acc'
  end.
Fixpoint sweep_words (nslots nnew : nat) (seed idx remaining : Z) (ws : list Z) (acc : list Z * Z) : list Z * Z :=
  match ws with
  | [] => acc
  | w :: r =>
      let k := Z.min WORD remaining in
      sweep_words nslots nnew seed (idx + k) (remaining - k) r (sweep_word nslots nnew seed idx (Z.to_nat k) w acc)
  end.
(* (failing indices, number of failing indices, number of layouts NOT covered by the words — must be 0) *)
Definition sweep_chunk (nslots nnew : nat) (seed lo count : Z) (ws : list Z) : list Z * Z * Z :=
  let '(bad, nbad) := sweep_words nslots nnew seed lo count ws ([], 0) in
  (rev bad, nbad, Z.max 0 (count - WORD * Z.of_nat (length ws))).
