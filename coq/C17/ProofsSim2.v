(* C17 — simulation for a whole hold (all channels, then the Wait). *)
From Coq Require Import ZArith QArith List Bool Lia ZifyBool Setoid.
Require Import QV.C17.Model QV.C17.Spec QV.C17.Proofs QV.C17.ProofsVM QV.C17.SimDefs QV.C17.ProofsTr1 QV.C17.ProofsTr2
               QV.C17.ProofsSim1.
Import ListNotations.
Local Open Scope Z_scope.

Section sim.
  Variable Fs : list (nat * list Q).
  Hypothesis Fs_inj : keys_inj_b Fs = true.

  Lemma same_ctl_trans : forall a b c, same_ctl a b -> same_ctl b c -> same_ctl a c.
  Proof. unfold same_ctl. intros a b c (A1 & A2 & A3 & A4) (B1 & B2 & B3 & B4). repeat split; congruence. Qed.

  Lemma hold_chs_sim : forall vs c0 st cs st' cmds pre post s K I,
    tr_hold_chs c0 vs st = Ok (cs, st') -> cmds = pre ++ cs ++ post -> v_pc s = length pre ->
    (c0 + length vs = length (v_cur s))%nat -> Pact st s -> Pplain st s -> Idep Fs K st s I -> Knz K ->
    (forall ch b fs, nth_off c0 vs ch = Some (b, Some fs) -> mk_key fs <> [] -> K (ch, mk_key fs) /\ In (ch, fs) Fs /\ length fs = length I) ->
    length (t_iters st) = length I -> dyn_ok (t_iters st) I ->
    exists s', reach cmds s s' /\ v_pc s' = (length pre + length cs)%nat /\ Pact st' s' /\ Pplain st' s' /\ Idep Fs K st' s' I /\
      same_ctl s s' /\
      (forall ch x, nth_off c0 vs ch = Some x -> exists v, nth_error (v_cur s') ch = Some (Some v) /\ (v == hold_val I x)%Q) /\
      (forall j, (j < c0)%nat -> nth_error (v_cur s') j = nth_error (v_cur s) j) /\
      (forall ck, snd ck <> [] -> sel_dep (snd ck) (nth_off c0 vs (fst ck)) = None ->
                  alookup ck_eqb ck (v_regs s') = alookup ck_eqb ck (v_regs s)).
  Proof.
    induction vs as [|[b o] vs IH]; intros c0 st cs st' cmds pre post s K I HT Hc Hpc Hlen HA HP HD HK HKin HLI HDyn.
    - cbn in HT. inversion HT; subst. exists s. split; [apply reach_refl|]. split; [cbn; lia|].
      repeat split; auto. intros ch x Hx. cbn in Hx. discriminate.
    - cbn [tr_hold_chs] in HT.
      assert (Hlt : (c0 < length (v_cur s))%nat) by (cbn in Hlen; lia).
      (* the step on channel c0 *)
      assert (STEP : exists c1 st1 c2, cs = c1 ++ c2 /\ tr_hold_chs (S c0) vs st1 = Ok (c2, st') /\
                t_iters st1 = t_iters st /\
                exists s1, reach cmds s s1 /\ v_pc s1 = (length pre + length c1)%nat /\ Pact st1 s1 /\ Pplain st1 s1 /\
                  Idep Fs K st1 s1 I /\ same_ctl s s1 /\
                  (exists v, nth_error (v_cur s1) c0 = Some (Some v) /\ (v == hold_val I (b, o))%Q) /\
                  (forall j, j <> c0 -> nth_error (v_cur s1) j = nth_error (v_cur s) j) /\
                  (forall ck, snd ck <> [] -> sel_dep (snd ck) (nth_off c0 ((b, o) :: vs) (fst ck)) = None ->
                              alookup ck_eqb ck (v_regs s1) = alookup ck_eqb ck (v_regs s))).
      { destruct o as [fs|].
        - unfold tr_set_indexed in HT. destruct (key_eqb (mk_key fs) []) eqn:Ez.
          { cbn [bind] in HT. destruct (tr_set_voltage c0 b st) as [c1 st1] eqn:E1.
            destruct (tr_hold_chs (S c0) vs st1) as [[c2 st2]|] eqn:E2; cbn [bind] in HT; [|discriminate].
            inversion HT; subst cs st2; clear HT.
            assert (Hc' : cmds = pre ++ c1 ++ (c2 ++ post)) by (rewrite Hc, <- app_assoc; reflexivity).
            destruct (ch_plain Fs Fs_inj c0 b st c1 st1 cmds pre (c2 ++ post) s K I E1 Hc' Hpc Hlt HA HP HD HK)
              as (s1 & R & P1 & A1 & PP1 & D1 & SC & (v & Nv & Hv) & O & F).
            exists c1, st1, c2. split; auto. split; auto. split; [apply (set_voltage_summ _ _ _ _ _ E1)|].
            exists s1. repeat (split; auto).
            exists v. split; auto. unfold hold_val; cbn. rewrite zero_key_aff; [exact Hv|]. now apply key_eqb_spec. }
          destruct (tr_set_indexed_nz c0 b fs st) as [[c1 st1]|] eqn:E1; cbn [bind] in HT; [|discriminate].
          destruct (tr_hold_chs (S c0) vs st1) as [[c2 st2]|] eqn:E2; cbn [bind] in HT; [|discriminate].
          inversion HT; subst cs st2; clear HT.
          assert (Hnz : mk_key fs <> []) by (intros X; rewrite X in Ez; cbn in Ez; discriminate).
          destruct (HKin c0 b fs) as (HKk & HIn & HLfs); [cbn; now rewrite Nat.eqb_refl|exact Hnz|].
          assert (Hc' : cmds = pre ++ c1 ++ (c2 ++ post)) by (rewrite Hc, <- app_assoc; reflexivity).
          destruct (ch_indexed Fs Fs_inj c0 b fs st c1 st1 cmds pre (c2 ++ post) s K I E1 Hc' Hpc Hlt HA HP HD HK HKk HIn HLfs HLI HDyn)
            as (s1 & R & P1 & A1 & PP1 & D1 & SC & V & O & F).
          exists c1, st1, c2. split; auto. split; auto. split; [apply (set_indexed_summ _ _ _ _ _ _ E1)|].
          exists s1. repeat (split; auto).
          intros ck Hnzk Hsel. apply F. intros X. subst ck. cbn [fst snd nth_off] in Hsel. rewrite Nat.eqb_refl in Hsel. cbn in Hsel.
          rewrite Ez in Hsel.
          assert (Y : key_eqb (mk_key fs) (mk_key fs) = true) by now apply key_eqb_spec. rewrite Y in Hsel. discriminate.
        - destruct (tr_set_voltage c0 b st) as [c1 st1] eqn:E1.
          destruct (tr_hold_chs (S c0) vs st1) as [[c2 st2]|] eqn:E2; cbn [bind] in HT; [|discriminate].
          inversion HT; subst cs st2; clear HT.
          assert (Hc' : cmds = pre ++ c1 ++ (c2 ++ post)) by (rewrite Hc, <- app_assoc; reflexivity).
          destruct (ch_plain Fs Fs_inj c0 b st c1 st1 cmds pre (c2 ++ post) s K I E1 Hc' Hpc Hlt HA HP HD HK)
            as (s1 & R & P1 & A1 & PP1 & D1 & SC & V & O & F).
          exists c1, st1, c2. split; auto. split; auto. split; [apply (set_voltage_summ _ _ _ _ _ E1)|].
          exists s1. repeat (split; auto). }
      destruct STEP as (c1 & st1 & c2 & Ecs & E2 & Its1 & s1 & R1 & Pc1 & A1 & P1 & D1 & SC1 & (v0 & Nv0 & Hv0) & O1 & F1).
      subst cs.
      assert (Hc2 : cmds = (pre ++ c1) ++ c2 ++ post) by (rewrite Hc, <- !app_assoc; reflexivity).
      destruct (IH (S c0) st1 c2 st' cmds (pre ++ c1) post s1 K I E2 Hc2) as (s' & R2 & Pc2 & A2 & P2 & D2 & SC2 & V2 & O2 & F2); auto.
      + rewrite app_length. exact Pc1.
      + destruct SC1 as (_ & _ & _ & L). rewrite L. cbn in Hlen. lia.
      + intros ch b' fs' Hn Hnz'. apply (HKin ch b' fs'); auto. cbn [nth_off]. destruct (Nat.eqb ch c0) eqn:Ec; auto.
        apply Nat.eqb_eq in Ec. subst. rewrite nth_off_lt in Hn by lia. discriminate.
      + congruence.
      + rewrite Its1; auto.
      + exists s'. split; [eapply reach_trans; eauto|]. split; [rewrite Pc2, !app_length; lia|].
        split; auto. split; auto. split; auto. split; [eapply same_ctl_trans; eauto|].
        split; [|split].
        * intros ch x Hx. cbn [nth_off] in Hx. destruct (Nat.eqb ch c0) eqn:Ec.
          -- apply Nat.eqb_eq in Ec. subst ch. inversion Hx; subst x. exists v0. rewrite O2 by lia. auto.
          -- apply V2; auto.
        * intros j Hj. rewrite O2 by lia. apply O1. lia.
        * intros ck Hnz Hsel. rewrite F2; auto. cbn [nth_off] in Hsel. destruct (Nat.eqb (fst ck) c0) eqn:Ec; auto.
          apply Nat.eqb_eq in Ec. rewrite Ec, nth_off_lt by lia. reflexivity.
  Qed.
End sim.
