(* C17 — the definitions translated from the CURRENT source text of qupulse/program/linspace.py by the object-method
   translator (Gen_linspace_obj.v, regenerated on every run: the command dataclasses, LinSpaceVM.change_state / step,
   _TranslationState.set_voltage / _set_indexed_voltage) against the hand-written model (Model.v).

   VM: the python object keeps one register dict per channel, appends to the history and looks label targets up in a
   table built by set_commands; the model keeps one association list over (channel, key), conses to the history and
   searches the command list.  `vm_R` relates the two states; one translated `step` refines one `vm_step`, with the same
   exception kind when it raises.  Translator: the translated methods, run on the model's state (plus the command list
   the python object accumulates), append exactly the commands the model's functions return and leave the same state. *)
From Coq Require Import ZArith QArith List Bool Lia.
Require Import QV.C17.Model QV.C17.GenLib QV.C17.Gen_linspace QV.C17.GenEq QV.C17.Gen_linspace_obj QV.C17.ProofsVM.
Import ListNotations.

Definition embed (c : cmd) : gcmd :=
  match c with
  | CSet ch v k => GSet ch v k
  | CInc ch v k => GIncrement ch v k
  | CWait d => GWait d
  | CLabel i n => GLoopLabel i n
  | CJmp i => GLoopJmp i
  end.

Definition reg_lookup (regs : list (list (key * Q))) (ch : nat) (k : key) : option Q :=
  match nth_error regs ch with Some d => alookup key_eqb k d | None => None end.

Record vm_R (cmds : list cmd) (g : gvm) (s : vm) : Prop := mkR {
  R_cur : gvm_current_values g = v_cur s;
  R_time : gvm_time g = v_time s;
  R_len : length (gvm_registers g) = length (v_cur s);
  R_regs : forall ch k, reg_lookup (gvm_registers g) ch k = alookup ck_eqb (ch, k) (v_regs s);
  R_hist : gvm_history g = rev (v_hist s);
  R_cmds : gvm_commands g = map embed cmds;
  R_tgt : forall idx, alookup Z.eqb idx (gvm_label_targets g) = label_target cmds idx 0;
  R_cnt : gvm_label_counts g = v_counts s;
  R_pc : gvm_current_command g = v_pc s }.

(* the state LinSpaceVM.__init__ + set_commands leave behind, given the label table *)
Definition gvm0 (channels : nat) (cmds : list cmd) (targets : list (Z * nat)) : gvm :=
  mkGvm (repeat None channels) 0 (repeat [] channels) [] (map embed cmds) targets [] 0.

Lemma nth_error_repeat_nil : forall {A} n i, match nth_error (repeat (@nil A) n) i with Some d => d = [] | None => True end.
Proof. induction n; destruct i; cbn; auto. apply IHn. Qed.

Lemma vm_R_init : forall channels cmds targets,
  (forall idx, alookup Z.eqb idx targets = label_target cmds idx 0) ->
  vm_R cmds (gvm0 channels cmds targets) (vm0 channels).
Proof.
  intros. constructor; cbn; auto.
  - now rewrite !repeat_length.
  - intros ch k. unfold reg_lookup. pose proof (@nth_error_repeat_nil (key * Q) channels ch) as E.
    destruct (nth_error (repeat [] channels) ch); [subst; reflexivity|reflexivity].
Qed.

Lemma set_nth_length {A} : forall i (x : A) l l', set_nth i x l = Some l' -> length l' = length l.
Proof.
  induction i; intros x l l' H; destruct l; cbn in *; try discriminate.
  - inversion H; reflexivity.
  - destruct (set_nth i x l) eqn:E; [|discriminate]. inversion H; subst. cbn. f_equal. eapply IHi; eauto.
Qed.

Lemma set_nth_none_iff {A} : forall i (x : A) l, set_nth i x l = None <-> Nat.ltb i (length l) = false.
Proof.
  induction i as [|i IH]; intros x l; destruct l as [|a l].
  - cbn. split; reflexivity.
  - cbn. split; discriminate.
  - cbn. split; reflexivity.
  - change (Nat.ltb (S i) (length (a :: l))) with (Nat.ltb i (length l)). rewrite <- (IH x l). cbn.
    destruct (set_nth i x l); split; intros H; try discriminate; reflexivity.
Qed.

Lemma nth_error_set_nth {A} : forall i (x : A) l l' j, set_nth i x l = Some l' ->
  nth_error l' j = if Nat.eqb j i then Some x else nth_error l j.
Proof.
  induction i; intros x l l' j H; destruct l; cbn in *; try discriminate.
  - inversion H; subst. destruct j; reflexivity.
  - destruct (set_nth i x l) eqn:E; [|discriminate]. inversion H; subst. destruct j; cbn; [reflexivity|]. eapply IHi; eauto.
Qed.

Lemma nth_error_none_ltb {A} : forall (l : list A) i, nth_error l i = None <-> Nat.ltb i (length l) = false.
Proof. intros. rewrite nth_error_None, Nat.ltb_ge. tauto. Qed.

(* writing register (ch, k) in both representations *)
Lemma regs_write : forall regs flat ch k v d l,
  (forall c k', reg_lookup regs c k' = alookup ck_eqb (c, k') flat) ->
  nth_error regs ch = Some d -> set_nth ch (aset key_eqb k v d) regs = Some l ->
  forall c k', reg_lookup l c k' = alookup ck_eqb (c, k') (aset ck_eqb (ch, k) v flat).
Proof.
  intros regs flat ch k v d l H Hd Hs c k'. unfold reg_lookup. rewrite (nth_error_set_nth _ _ _ _ c Hs).
  destruct (Nat.eqb c ch) eqn:Ec.
  - apply Nat.eqb_eq in Ec. subst c. destruct (list_eq_dec Z.eq_dec k k') as [->|N].
    + rewrite (alookup_aset_same key_eqb key_eqb_spec), (alookup_aset_same ck_eqb ck_eqb_spec). reflexivity.
    + rewrite (alookup_aset_other key_eqb key_eqb_spec) by auto.
      rewrite (alookup_aset_other ck_eqb ck_eqb_spec) by congruence.
      rewrite <- H. unfold reg_lookup. now rewrite Hd.
  - rewrite (alookup_aset_other ck_eqb ck_eqb_spec).
    + rewrite <- H. reflexivity.
    + intros X. inversion X; subst. now rewrite Nat.eqb_refl in Ec.
Qed.

Definition step_refines (cmds : list cmd) (r : stepres) (g : res gvm) : Prop :=
  match r with
  | Running s' => exists g', g = Ok g' /\ vm_R cmds g' s'
  | Crashed e => g = Err e
  | Halted _ => g = Err EIndex          (* python: self.commands[self.current_command] beyond the end; run() stops before *)
  end.

(* LinSpaceVM.run's loop condition `self.current_command < len(self.commands)` *)
Definition gvm_running (g : gvm) : bool := Nat.ltb (gvm_current_command g) (length (gvm_commands g)).

Lemma gvm_running_iff : forall cmds g s, vm_R cmds g s ->
  gvm_running g = match vm_step cmds s with Halted _ => false | _ => true end.
Proof.
  intros cmds g s R. unfold gvm_running, vm_step. rewrite (R_pc _ _ _ R), (R_cmds _ _ _ R), map_length.
  destruct (nth_error cmds (v_pc s)) eqn:E.
  - assert (v_pc s < length cmds)%nat by (apply nth_error_Some; congruence).
    replace (Nat.ltb (v_pc s) (length cmds)) with true by (symmetry; now apply Nat.ltb_lt).
    destruct c; auto.
    + destruct (set_nth ch (Some v) (v_cur s)); auto.
    + destruct (negb (Nat.ltb ch (length (v_cur s)))); auto. destruct (alookup ck_eqb (ch, k) (v_regs s)); auto.
      destruct (set_nth ch (Some (q + v)%Q) (v_cur s)); auto.
    + destruct (alookup Z.eqb idx (v_counts s)); auto. destruct (0 <? z)%Z; auto. destruct (label_target cmds idx 0); auto.
  - apply nth_error_None in E. apply Nat.ltb_ge in E. exact E.
Qed.

Theorem gen_step_refines : forall cmds g s, vm_R cmds g s -> step_refines cmds (vm_step cmds s) (gen_step g).
Proof.
  intros cmds g s R. destruct R as [Rcur Rtime Rlen Rregs Rhist Rcmds Rtgt Rcnt Rpc].
  unfold vm_step, gen_step. rewrite Rpc, Rcmds, nth_error_map.
  destruct (nth_error cmds (v_pc s)) as [c|] eqn:En; cbn [option_map]; [|reflexivity].
  destruct c as [ch v k|ch v k|d|idx n|idx]; cbn [embed step_refines].
  - (* Set *)
    unfold gen_change_state. cbn [gvm_current_values gvm_registers gvm_time gvm_history gvm_commands gvm_label_targets gvm_label_counts gvm_current_command].
    rewrite Rcur. destruct (set_nth ch (Some v) (v_cur s)) as [cur|] eqn:Es; cbn [step_refines]; [|reflexivity].
    pose proof (set_nth_some_lt _ _ _ _ Es) as Hlt. rewrite <- Rlen in Hlt.
    destruct (nth_error (gvm_registers g) ch) as [d|] eqn:Ed.
    2:{ apply nth_error_none_ltb in Ed. congruence. }
    destruct (set_nth ch (aset key_eqb k v d) (gvm_registers g)) as [l|] eqn:El.
    2:{ apply set_nth_none_iff in El. congruence. }
    eexists; split; [reflexivity|]. constructor; cbn; auto.
    + rewrite (set_nth_length _ _ _ _ El), (set_nth_length _ _ _ _ Es). exact Rlen.
    + eapply regs_write; eauto.
    + rewrite ?Rpc, ?Nat.add_1_r; reflexivity.
  - (* Increment *)
    unfold gen_change_state. cbn [gvm_current_values gvm_registers gvm_time gvm_history gvm_commands gvm_label_targets gvm_label_counts gvm_current_command].
    rewrite <- Rlen. destruct (nth_error (gvm_registers g) ch) as [d|] eqn:Ed.
    2:{ apply nth_error_none_ltb in Ed. rewrite Ed. reflexivity. }
    assert (Hlt : Nat.ltb ch (length (gvm_registers g)) = true).
    { apply Nat.ltb_lt, nth_error_Some. congruence. }
    rewrite Hlt. cbn [negb]. pose proof (Rregs ch k) as Hr. unfold reg_lookup in Hr. rewrite Ed in Hr. rewrite <- Hr.
    destruct (alookup key_eqb k d) as [old|]; cbn [step_refines]; [|reflexivity].
    destruct (set_nth ch (aset key_eqb k (old + v)%Q d) (gvm_registers g)) as [l|] eqn:El.
    2:{ apply set_nth_none_iff in El. congruence. }
    rewrite Rcur. destruct (set_nth ch (Some (old + v)%Q) (v_cur s)) as [cur|] eqn:Es.
    2:{ apply set_nth_none_iff in Es. rewrite Rlen in Hlt. congruence. }
    eexists; split; [reflexivity|]. constructor; cbn; auto.
    + rewrite (set_nth_length _ _ _ _ El), (set_nth_length _ _ _ _ Es). exact Rlen.
    + eapply regs_write; eauto.
    + rewrite ?Rpc, ?Nat.add_1_r; reflexivity.
  - (* Wait *)
    unfold gen_change_state. eexists; split; [reflexivity|]. constructor; cbn; auto.
    + now rewrite Rtime.
    + now rewrite Rhist, Rtime, Rcur.
    + rewrite ?Rpc, ?Nat.add_1_r; reflexivity.
  - (* Label *)
    eexists; split; [reflexivity|]. constructor; cbn; auto.
    + now rewrite Rcnt.
    + rewrite ?Rpc, ?Nat.add_1_r; reflexivity.
  - (* Jmp *)
    rewrite Rcnt. destruct (alookup Z.eqb idx (v_counts s)) as [n|]; cbn [step_refines]; [|reflexivity].
    rewrite Z.gtb_ltb. destruct (0 <? n)%Z.
    + cbn [gvm_label_targets]. rewrite Rtgt. destruct (label_target cmds idx 0); cbn [step_refines]; [|reflexivity].
      eexists; split; [reflexivity|]. constructor; cbn; rewrite ?Rcnt; auto.
    + eexists; split; [reflexivity|]. constructor; cbn; rewrite ?Rpc, ?Nat.add_1_r; auto.
Qed.

(* LinSpaceVM.run = `while self.current_command < len(self.commands): self.step()`, with fuel (None = out of fuel) *)
Fixpoint gen_run_n (fuel : nat) (g : gvm) : option (res gvm) :=
  match fuel with
  | O => None
  | S f => if gvm_running g then
             match gen_step g with
             | Ok g' => gen_run_n f g'
             | Err e => Some (Err e)
             end
           else Some (Ok g)
  end.

Definition run_refines (cmds : list cmd) (r : stepres) (g : option (res gvm)) : Prop :=
  match r with
  | Halted s' => exists g', g = Some (Ok g') /\ vm_R cmds g' s'
  | Crashed e => g = Some (Err e)
  | Running _ => g = None
  end.

Theorem gen_run_refines : forall cmds fuel g s, vm_R cmds g s -> run_refines cmds (vm_run_n fuel cmds s) (gen_run_n fuel g).
Proof.
  intros cmds. induction fuel as [|f IH]; intros g s R; cbn [vm_run_n gen_run_n run_refines]; [reflexivity|].
  rewrite (gvm_running_iff cmds g s R). pose proof (gen_step_refines cmds g s R) as Hs.
  destruct (vm_step cmds s) as [s'|s'|e] eqn:Es; cbn [step_refines] in Hs.
  - destruct Hs as (g' & -> & R'). apply IH. exact R'.
  - cbn [run_refines]. exists g. split; [reflexivity|].
    assert (s' = s); [|subst; exact R].
    unfold vm_step in Es. destruct (nth_error cmds (v_pc s)) as [c|]; [|now inversion Es].
    destruct c; try discriminate.
    + destruct (set_nth ch (Some v) (v_cur s)); discriminate.
    + destruct (negb (Nat.ltb ch (length (v_cur s)))); [discriminate|]. destruct (alookup ck_eqb (ch, k) (v_regs s)); [|discriminate].
      destruct (set_nth ch (Some (q + v)%Q) (v_cur s)); discriminate.
    + destruct (alookup Z.eqb idx (v_counts s)); [|discriminate]. destruct (0 <? z)%Z; [|discriminate].
      destruct (label_target cmds idx 0); discriminate.
  - rewrite Hs. reflexivity.
Qed.

(* ---------------------------------------------------------------------------------------------------------------- *)
(* _TranslationState.set_voltage / _set_indexed_voltage *)

Definition gts_of (st : tstate) (cs : list cmd) : gts :=
  mkGts (t_label st) (map embed cs) (t_iters st) (t_active st) (t_deps st) (t_plain st).

Definition tr_refines (cs0 : list cmd) (m : res (list cmd * tstate)) (g : res gts) : Prop :=
  match m with
  | Ok (cs, st') => g = Ok (gts_of st' (cs0 ++ cs))
  | Err e => g = Err e
  end.

Lemma opt_is_key : forall o k, opt_is key_eqb o k = opt_key_is o k.
Proof. destruct o; reflexivity. Qed.
Lemma opt_is_q : forall o q, opt_is Qeq_bool o q = opt_q_is o q.
Proof. destruct o; reflexivity. Qed.

Theorem gen_set_voltage_refines : forall st cs0 ch v,
  gen_set_voltage (gts_of st cs0) ch v = Ok (gts_of (snd (tr_set_voltage ch v st)) (cs0 ++ fst (tr_set_voltage ch v st))).
Proof.
  intros st cs0 ch v. unfold gen_set_voltage, tr_set_voltage. cbn [gts_of gts_active_dep gts_plain_voltage].
  rewrite opt_is_key, opt_is_q.
  destruct (negb (opt_key_is (alookup Nat.eqb ch (t_active st)) []) || negb (opt_q_is (alookup Nat.eqb ch (t_plain st)) v)); cbn.
  - unfold gts_of. cbn. now rewrite map_app.
  - now rewrite app_nil_r.
Qed.

Lemma is_nil_key : forall k : key, is_nil k = key_eqb k [].
Proof. destruct k; reflexivity. Qed.

Theorem gen_set_indexed_voltage_refines : forall st cs0 ch base fs,
  tr_refines cs0 (tr_set_indexed ch base fs st) (gen_set_indexed_voltage (gts_of st cs0) ch base fs).
Proof.
  intros st cs0 ch base fs. unfold gen_set_indexed_voltage, tr_set_indexed. rewrite negb_involutive, is_nil_key.
  destruct (key_eqb (mk_key fs) []) eqn:Ek.
  - rewrite gen_set_voltage_refines. cbn. destruct (tr_set_voltage ch base st); reflexivity.
  - unfold tr_set_indexed_nz. cbn [gts_of gts_dep_states gts_iterations gts_active_dep].
    destruct (alookup ck_eqb (ch, mk_key fs) (t_deps st)) as [prev|].
    + unfold depstate_base, depstate_iterations. cbn [fst snd]. rewrite gen_required_increment_from_eq.
      replace (fst prev, snd prev) with prev by (destruct prev; reflexivity).
      destruct (required_increment_from (base, t_iters st) prev fs) as [inc|e]; cbn [bind tr_refines]; [|reflexivity].
      rewrite opt_is_key.
      destruct (negb (Qeq_bool inc 0) || negb (opt_key_is (alookup Nat.eqb ch (t_active st)) (mk_key fs))); cbn.
      * unfold gts_of. cbn. now rewrite map_app.
      * now rewrite app_nil_r.
    + destruct (forallb (fun it => (it =? 0)%Z) (t_iters st)); cbn [tr_refines]; [|reflexivity].
      unfold gts_of. cbn. now rewrite map_app.
Qed.

(* _TranslationState._add_hold_node on a LinSpaceHold(bases, factors, duration_base, duration_factors = None / {}) *)
Lemma gen_add_hold_loop_refines : forall vs ch st cs0 X1 X2 dur X4,
  match tr_hold_chs ch vs st with
  | Ok (cs, st') => gen_add_hold_node_loop1 (map fst vs) (map snd vs) ch (gts_of st cs0) X1 X2 dur X4
                    = Ok (gts_of st' (cs0 ++ cs ++ [CWait dur]))
  | Err e => gen_add_hold_node_loop1 (map fst vs) (map snd vs) ch (gts_of st cs0) X1 X2 dur X4 = Err e
  end.
Proof.
  induction vs as [|[base [fs|]] vs IH]; intros ch st cs0 X1 X2 dur X4; cbn [tr_hold_chs map fst snd gen_add_hold_node_loop1].
  - unfold gts_of. cbn. now rewrite map_app.
  - pose proof (gen_set_indexed_voltage_refines st cs0 ch base fs) as H. unfold tr_refines in H.
    destruct (tr_set_indexed ch base fs st) as [[c1 st1]|e]; cbn [bind]; rewrite H; [|reflexivity].
    specialize (IH (S ch) st1 (cs0 ++ c1) X1 X2 dur X4).
    destruct (tr_hold_chs (S ch) vs st1) as [[c2 st2]|e]; cbn [bind]; rewrite IH; [|reflexivity].
    now rewrite <- !app_assoc.
  - rewrite gen_set_voltage_refines. destruct (tr_set_voltage ch base st) as [c1 st1]. cbn [fst snd].
    specialize (IH (S ch) st1 (cs0 ++ c1) X1 X2 dur X4).
    destruct (tr_hold_chs (S ch) vs st1) as [[c2 st2]|e]; cbn [bind]; rewrite IH; [|reflexivity].
    now rewrite <- !app_assoc.
Qed.

Theorem gen_add_hold_node_refines : forall vs dur st cs0,
  tr_refines cs0 (tr_node (NHold vs dur) st) (gen_add_hold_node (gts_of st cs0) (map fst vs) (map snd vs) dur []).
Proof.
  intros. unfold gen_add_hold_node. cbn [is_nil negb tr_node].
  pose proof (gen_add_hold_loop_refines vs 0 st cs0 (map fst vs) (map snd vs) dur []) as H.
  destruct (tr_hold_chs 0 vs st) as [[cs st']|e]; cbn [bind tr_refines]; exact H.
Qed.

(* a hold whose duration depends on a loop index is refused: NotImplementedError, nothing is appended *)
Theorem gen_add_hold_node_duration_refused : forall g bases factors dur f fs,
  gen_add_hold_node g bases factors dur (f :: fs) = Err ENotImpl.
Proof. reflexivity. Qed.

(* ---------------------------------------------------------------------------------------------------------------- *)
(* LinSpaceVM.set_commands builds the label table the model recomputes by searching the command list *)

Lemma label_target_snoc : forall pre c idx pos,
  label_target (pre ++ [c]) idx pos =
  match label_target pre idx pos with
  | Some t => Some t
  | None => match c with CLabel i _ => if (i =? idx)%Z then Some (S (pos + length pre)) else None | _ => None end
  end.
Proof.
  induction pre as [|x pre IH]; intros c idx pos; cbn [app label_target length].
  - rewrite Nat.add_0_r. destruct c; reflexivity.
  - destruct x; try (rewrite IH; now rewrite Nat.add_succ_comm).
    destruct (idx0 =? idx)%Z; [reflexivity|]. rewrite IH. now rewrite Nat.add_succ_comm.
Qed.

(* LinSpaceVM.__init__ *)
Definition gvm_init (channels : nat) : gvm := mkGvm (repeat None channels) 0 (repeat [] channels) [] [] [] [] 0.

Local Ltac nonlabel c0 IH pre X Hc Ht Hsn :=
  match goal with |- context [gen_set_commands_loop1 _ ?g2 _] =>
    let H1 := fresh "H1" in let H2 := fresh "H2" in
    assert (H1 : gvm_commands g2 = map embed (pre ++ [c0])) by (cbn [gvm_commands]; rewrite Hc, map_app; reflexivity);
    assert (H2 : forall idx, alookup Z.eqb idx (gvm_label_targets g2) = label_target (pre ++ [c0]) idx 0)
      by (intros idx; cbn [gvm_label_targets]; rewrite Hsn, Ht; destruct (label_target pre idx 0); reflexivity);
    exact (IH (pre ++ [c0]) g2 X H1 H2)
  end.

Lemma gen_set_commands_loop : forall rest pre g X,
  gvm_commands g = map embed pre ->
  (forall idx, alookup Z.eqb idx (gvm_label_targets g) = label_target pre idx 0) ->
  match gen_set_commands_loop1 (map embed rest) g X with
  | Ok g' => g' = mkGvm (gvm_current_values g) (gvm_time g) (gvm_registers g) (gvm_history g) (map embed (pre ++ rest))
                        (gvm_label_targets g') (gvm_label_counts g) 0 /\
             (forall idx, alookup Z.eqb idx (gvm_label_targets g') = label_target (pre ++ rest) idx 0)
  | Err e => e = EAssert
  end.
Proof.
  induction rest as [|c rest IH]; intros pre g X Hc Ht; cbn [map gen_set_commands_loop1].
  - rewrite app_nil_r. split; [|exact Ht]. destruct g; cbn in *. now subst.
  - assert (Hsn : forall idx, label_target (pre ++ [c]) idx 0 = match label_target pre idx 0 with Some t => Some t | None =>
                   match c with CLabel i _ => if (i =? idx)%Z then Some (S (length pre)) else None | _ => None end end).
    { intros idx. now rewrite label_target_snoc. }
    replace (pre ++ c :: rest) with ((pre ++ [c]) ++ rest) by now rewrite <- app_assoc.
    destruct c as [ch v k|ch v k|d|i n|i]; cbn [embed]; cbv zeta.
    1: nonlabel (CSet ch v k) IH pre X Hc Ht Hsn.
    1: nonlabel (CInc ch v k) IH pre X Hc Ht Hsn.
    1: nonlabel (CWait d) IH pre X Hc Ht Hsn.
    2: nonlabel (CJmp i) IH pre X Hc Ht Hsn.
    cbn [gvm_label_targets gvm_commands]. rewrite Ht.
    destruct (label_target pre i 0) eqn:El; cbn [is_some negb]; [reflexivity|].
    match goal with |- context [gen_set_commands_loop1 _ ?g2 _] =>
      assert (H1 : gvm_commands g2 = map embed (pre ++ [CLabel i n])) by (cbn [gvm_commands]; rewrite Hc, map_app; reflexivity);
      assert (H2 : forall idx, alookup Z.eqb idx (gvm_label_targets g2) = label_target (pre ++ [CLabel i n]) idx 0);
      [|exact (IH (pre ++ [CLabel i n]) g2 X H1 H2)]
    end.
    intros idx. cbn [gvm_label_targets]. rewrite Hsn, Hc, app_length, map_length, Nat.add_1_r. destruct (Z.eq_dec i idx) as [->|N].
    + rewrite (alookup_aset_same Z.eqb Zeqb_spec), El, Z.eqb_refl. reflexivity.
    + rewrite (alookup_aset_other Z.eqb Zeqb_spec) by auto. rewrite Ht.
      destruct (label_target pre idx 0); [reflexivity|]. apply Z.eqb_neq in N. now rewrite N.
Qed.

(* round 6: set_commands returns (its `assert label not in label_targets` does not fire) when the labels are pairwise different *)
Lemma label_target_in : forall pre idx p t, label_target pre idx p = Some t -> In idx (labels pre).
Proof.
  intros pre idx p t H. destruct (in_dec Z.eq_dec idx (labels pre)) as [I|N]; [exact I|exfalso].
  pose proof (label_target_skip pre [] idx p N) as S. rewrite app_nil_r in S. cbn in S. congruence.
Qed.

Local Ltac nonlabel_ok c0 IH pre X Hc Ht Hsn Hn :=
  match goal with |- context [gen_set_commands_loop1 _ ?g2 _] =>
    let H1 := fresh "H1" in let H2 := fresh "H2" in
    assert (H1 : gvm_commands g2 = map embed (pre ++ [c0])) by (cbn [gvm_commands]; rewrite Hc, map_app; reflexivity);
    assert (H2 : forall idx, alookup Z.eqb idx (gvm_label_targets g2) = label_target (pre ++ [c0]) idx 0)
      by (intros idx; cbn [gvm_label_targets]; rewrite Hsn, Ht; destruct (label_target pre idx 0); reflexivity);
    exact (IH (pre ++ [c0]) g2 X H1 H2 Hn)
  end.

Lemma gen_set_commands_loop_ok : forall rest pre g X,
  gvm_commands g = map embed pre ->
  (forall idx, alookup Z.eqb idx (gvm_label_targets g) = label_target pre idx 0) ->
  NoDup (labels (pre ++ rest)) ->
  exists g', gen_set_commands_loop1 (map embed rest) g X = Ok g'.
Proof.
  induction rest as [|c rest IH]; intros pre g X Hc Ht Hn; cbn [map gen_set_commands_loop1].
  - eexists; reflexivity.
  - assert (Hsn : forall idx, label_target (pre ++ [c]) idx 0 = match label_target pre idx 0 with Some t => Some t | None =>
                   match c with CLabel i _ => if (i =? idx)%Z then Some (S (length pre)) else None | _ => None end end).
    { intros idx. now rewrite label_target_snoc. }
    assert (Hn' : NoDup (labels ((pre ++ [c]) ++ rest))) by (rewrite <- app_assoc; exact Hn).
    destruct c as [ch v k|ch v k|d|i n|i]; cbn [embed]; cbv zeta.
    1: nonlabel_ok (CSet ch v k) IH pre X Hc Ht Hsn Hn'.
    1: nonlabel_ok (CInc ch v k) IH pre X Hc Ht Hsn Hn'.
    1: nonlabel_ok (CWait d) IH pre X Hc Ht Hsn Hn'.
    2: nonlabel_ok (CJmp i) IH pre X Hc Ht Hsn Hn'.
    cbn [gvm_label_targets gvm_commands]. rewrite Ht.
    destruct (label_target pre i 0) eqn:El; cbn [is_some negb].
    { exfalso. apply label_target_in in El. rewrite labels_app in Hn. cbn [labels] in Hn. apply NoDup_remove_2 in Hn.
      apply Hn. apply in_or_app. left. exact El. }
    match goal with |- context [gen_set_commands_loop1 _ ?g2 _] =>
      assert (H1 : gvm_commands g2 = map embed (pre ++ [CLabel i n])) by (cbn [gvm_commands]; rewrite Hc, map_app; reflexivity);
      assert (H2 : forall idx, alookup Z.eqb idx (gvm_label_targets g2) = label_target (pre ++ [CLabel i n]) idx 0);
      [|exact (IH (pre ++ [CLabel i n]) g2 X H1 H2 Hn')]
    end.
    intros idx. cbn [gvm_label_targets]. rewrite Hsn, Hc, app_length, map_length, Nat.add_1_r. destruct (Z.eq_dec i idx) as [->|N].
    + rewrite (alookup_aset_same Z.eqb Zeqb_spec), El, Z.eqb_refl. reflexivity.
    + rewrite (alookup_aset_other Z.eqb Zeqb_spec) by auto. rewrite Ht.
      destruct (label_target pre idx 0); [reflexivity|]. apply Z.eqb_neq in N. now rewrite N.
Qed.

Theorem gen_set_commands_ok : forall channels cmds, NoDup (labels cmds) ->
  exists g0, gen_set_commands (gvm_init channels) (map embed cmds) = Ok g0.
Proof.
  intros channels cmds Hn. unfold gen_set_commands. cbn [gvm_init gvm_current_values gvm_time gvm_registers gvm_history
    gvm_commands gvm_label_targets gvm_label_counts gvm_current_command].
  match goal with |- context [gen_set_commands_loop1 _ ?g _] => apply (gen_set_commands_loop_ok cmds [] g (map embed cmds) eq_refl) end;
    [intros idx; reflexivity|exact Hn].
Qed.

Theorem gen_set_commands_init : forall channels cmds g0,
  gen_set_commands (gvm_init channels) (map embed cmds) = Ok g0 -> vm_R cmds g0 (vm0 channels).
Proof.
  intros channels cmds g0 H. unfold gen_set_commands in H. cbn [gvm_init gvm_current_values gvm_time gvm_registers gvm_history
    gvm_commands gvm_label_targets gvm_label_counts gvm_current_command] in H.
  match type of H with gen_set_commands_loop1 _ ?g _ = _ => pose proof (gen_set_commands_loop cmds [] g (map embed cmds) eq_refl) as L end.
  cbn [gvm_label_targets alookup label_target app] in L. specialize (L (fun _ => eq_refl)).
  rewrite H in L. destruct L as [-> L]. cbn in *.
  constructor; cbn; auto.
  - now rewrite !repeat_length.
  - intros ch k. unfold reg_lookup. pose proof (@nth_error_repeat_nil (key * Q) channels ch) as E.
    destruct (nth_error (repeat [] channels) ch); [subst; reflexivity|reflexivity].
Qed.
