(* C17 — proof scripts. *)
From Coq Require Import ZArith QArith List Bool Lia ZifyBool.
Require Import QV.C17.Model QV.C17.Spec.
Import ListNotations.

(* binary fuel = unary fuel *)
Lemma vm_run_n_add : forall a b cmds s,
  vm_run_n (a + b) cmds s = match vm_run_n a cmds s with Running s' => vm_run_n b cmds s' | r => r end.
Proof.
  induction a as [|a IH]; intros b cmds s; cbn; [reflexivity|].
  destruct (vm_step cmds s); auto.
Qed.

Lemma vm_run_p_n : forall p cmds s, vm_run_p p cmds s = vm_run_n (Pos.to_nat p) cmds s.
Proof.
  induction p as [p IH|p IH|]; intros cmds s.
  - rewrite Pos2Nat.inj_xI. cbn [vm_run_p]. change (S (2 * Pos.to_nat p)) with (1 + 2 * Pos.to_nat p)%nat.
    rewrite vm_run_n_add. cbn [vm_run_n]. destruct (vm_step cmds s) as [s0| |]; auto.
    replace (2 * Pos.to_nat p)%nat with (Pos.to_nat p + Pos.to_nat p)%nat by lia.
    rewrite vm_run_n_add, <- IH. destruct (vm_run_p p cmds s0); auto.
  - rewrite Pos2Nat.inj_xO. cbn [vm_run_p].
    replace (2 * Pos.to_nat p)%nat with (Pos.to_nat p + Pos.to_nat p)%nat by lia.
    rewrite vm_run_n_add, <- IH. destruct (vm_run_p p cmds s); auto.
  - change (Pos.to_nat 1) with 1%nat. cbn. destruct (vm_step cmds s); auto.
Qed.

Lemma run_vm_binary_unary : forall p ch cmds, run_vm p ch cmds = run_vm_n (Pos.to_nat p) ch cmds.
Proof. intros. unfold run_vm, run_vm_n. now rewrite vm_run_p_n. Qed.
