(* C17 — proof scripts. *)
From Coq Require Import ZArith QArith List Bool Lia ZifyBool.
Require Import QV.C17.Model QV.C17.Spec.
Import ListNotations.

(* binary fuel = unary fuel *)
Lemma vm_run_n_add : forall a b cmds s,
  vm_run_n (a + b) cmds s = match vm_run_n a cmds s with Running s' => vm_run_n b cmds s' | r => r end.
Proof.
  induction a as [|a IH]; intros b cmds s; cbn; [reflexivity|].
  destruct (vm_step cmds s); auto.
Qed.

Lemma vm_run_p_n : forall p cmds s, vm_run_p p cmds s = vm_run_n (Pos.to_nat p) cmds s.
Proof.
  induction p as [p IH|p IH|]; intros cmds s.
  - rewrite Pos2Nat.inj_xI. cbn [vm_run_p]. change (S (2 * Pos.to_nat p)) with (1 + 2 * Pos.to_nat p)%nat.
    rewrite vm_run_n_add. cbn [vm_run_n]. destruct (vm_step cmds s) as [s0| |]; auto.
    replace (2 * Pos.to_nat p)%nat with (Pos.to_nat p + Pos.to_nat p)%nat by lia.
    rewrite vm_run_n_add, <- IH. destruct (vm_run_p p cmds s0); auto.
  - rewrite Pos2Nat.inj_xO. cbn [vm_run_p].
    replace (2 * Pos.to_nat p)%nat with (Pos.to_nat p + Pos.to_nat p)%nat by lia.
    rewrite vm_run_n_add, <- IH. destruct (vm_run_p p cmds s); auto.
  - change (Pos.to_nat 1) with 1%nat. cbn. destruct (vm_step cmds s); auto.
Qed.

Lemma run_vm_binary_unary : forall p ch cmds, run_vm p ch cmds = run_vm_n (Pos.to_nat p) ch cmds.
Proof. intros. unfold run_vm, run_vm_n. now rewrite vm_run_p_n. Qed.

(* ================================================================================================================ *)
(* Scaling: the VM run on the transformed commands is the scaled VM run (for all command lists, incl. loops) *)
From Coq Require Import Setoid Morphisms Field Lra.
Local Open Scope Q_scope.

Definition reg_rel (tr : list (Q * Q)) (a b : (nat * key) * Q) : Prop :=
  fst a = fst b /\ snd b == scale_of tr (fst (fst a)) (snd a).
Definition vm_rel (tr : list (Q * Q)) (s s' : vm) : Prop :=
  cur_rel tr 0 (v_cur s) (v_cur s') /\ v_time s = v_time s' /\ Forall2 (reg_rel tr) (v_regs s) (v_regs s') /\
  Forall2 (hist_rel tr) (v_hist s) (v_hist s') /\ v_counts s = v_counts s' /\ v_pc s = v_pc s'.

Definition step_rel (tr : list (Q * Q)) (a b : stepres) : Prop :=
  match a, b with
  | Running x, Running y => vm_rel tr x y
  | Halted x, Halted y => vm_rel tr x y
  | Crashed e, Crashed e' => e = e'
  | _, _ => False
  end.

Lemma transform_nth : forall tr cs cs' n, transform tr cs = Ok cs' ->
  match nth_error cs n with
  | Some c => exists c', transform_cmd tr c = Ok c' /\ nth_error cs' n = Some c'
  | None => nth_error cs' n = None
  end.
Proof.
  induction cs as [|c cs IH]; intros cs' n H; cbn in H.
  - inversion H; subst. destruct n; reflexivity.
  - destruct (transform_cmd tr c) as [c'|] eqn:E; cbn in H; [|discriminate].
    destruct (transform tr cs) as [r|] eqn:E2; cbn in H; [|discriminate]. inversion H; subst.
    destruct n; cbn; [eauto|]. apply IH; reflexivity.
Qed.

Lemma transform_label_target : forall tr cs cs' idx p, transform tr cs = Ok cs' ->
  label_target cs' idx p = label_target cs idx p.
Proof.
  induction cs as [|c cs IH]; intros cs' idx p H; cbn in H.
  - inversion H; reflexivity.
  - destruct (transform_cmd tr c) as [c'|] eqn:E; cbn in H; [|discriminate].
    destruct (transform tr cs) as [r|] eqn:E2; cbn in H; [|discriminate]. inversion H; subst.
    destruct c; cbn in E.
    + destruct (nth_error tr ch) as [[amp off]|]; [|discriminate]. destruct (Qeq_bool amp 0); inversion E; subst.
      cbn. apply IH; reflexivity.
    + destruct (nth_error tr ch) as [[amp off]|]; [|discriminate]. destruct (Qeq_bool amp 0); inversion E; subst.
      cbn. apply IH; reflexivity.
    + inversion E; subst. cbn. apply IH; reflexivity.
    + inversion E; subst. cbn. destruct (idx0 =? idx)%Z; [reflexivity|]. apply IH; reflexivity.
    + inversion E; subst. cbn. apply IH; reflexivity.
Qed.

Lemma set_nth_rel : forall tr ch i l l' v v', cur_rel tr i l l' -> v' == scale_of tr (i + ch) v ->
  match set_nth ch (Some v) l, set_nth ch (Some v') l' with
  | Some r, Some r' => cur_rel tr i r r'
  | None, None => True
  | _, _ => False
  end.
Proof.
  induction ch as [|ch IH]; intros i l l' v v' R Hv; destruct R as [|i a b l l' Hab R]; cbn; auto.
  - constructor; auto. cbn. now rewrite Nat.add_0_r in Hv.
  - specialize (IH (S i) l l' v v' R). rewrite <- plus_n_Sm in Hv. specialize (IH Hv).
    destruct (set_nth ch (Some v) l), (set_nth ch (Some v') l'); try contradiction; auto.
    constructor; auto.
Qed.

Lemma alookup_rel : forall tr k regs regs', Forall2 (reg_rel tr) regs regs' ->
  match alookup ck_eqb k regs, alookup ck_eqb k regs' with
  | Some v, Some v' => v' == scale_of tr (fst k) v
  | None, None => True
  | _, _ => False
  end.
Proof.
  intros tr k regs regs' R. induction R as [|[k1 v1] [k2 v2] l l' [Hk Hv] R IH]; cbn; auto.
  cbn in Hk, Hv. subst k2. destruct (ck_eqb k k1) eqn:E; auto.
  unfold ck_eqb in E. apply andb_prop in E as [E1 _]. apply Nat.eqb_eq in E1. now rewrite E1.
Qed.

Lemma aset_rel : forall tr k v v' regs regs', Forall2 (reg_rel tr) regs regs' -> v' == scale_of tr (fst k) v ->
  Forall2 (reg_rel tr) (aset ck_eqb k v regs) (aset ck_eqb k v' regs').
Proof.
  intros tr k v v' regs regs' R Hv. induction R as [|[k1 v1] [k2 v2] l l' [Hk Hv'] R IH]; cbn.
  - constructor; [|constructor]. split; auto.
  - cbn in Hk. subst k2. destruct (ck_eqb k k1); constructor; auto; split; auto.
Qed.

Lemma vm_step_rel : forall tr cs cs' s s',
  transform tr cs = Ok cs' -> vm_rel tr s s' -> step_rel tr (vm_step cs s) (vm_step cs' s').
Proof.
  intros tr cs cs' s s' HT (Hcur & Htime & Hregs & Hhist & Hcnt & Hpc).
  unfold vm_step. rewrite <- Hpc. pose proof (transform_nth tr cs cs' (v_pc s) HT) as Hn.
  destruct (nth_error cs (v_pc s)) as [c|].
  2:{ rewrite Hn. cbn. repeat split; auto. }
  destruct Hn as (c' & Hc & ->). rewrite <- Hcnt, <- Htime.
  destruct c; cbn in Hc.
  - (* Set *)
    destruct (nth_error tr ch) as [[amp off]|] eqn:En; [|discriminate].
    destruct (Qeq_bool amp 0) eqn:Ea; inversion Hc; subst; clear Hc.
    assert (Hv : (v - off) / amp == scale_of tr (0 + ch) v) by (unfold scale_of; cbn; rewrite En; reflexivity).
    pose proof (set_nth_rel tr ch 0 _ _ v ((v - off) / amp) Hcur Hv) as Hs.
    destruct (set_nth ch (Some v) (v_cur s)), (set_nth ch (Some ((v - off) / amp)) (v_cur s')); try contradiction; cbn; auto.
    repeat split; auto. apply aset_rel; auto.
  - (* Inc *)
    destruct (nth_error tr ch) as [[amp off]|] eqn:En; [|discriminate].
    destruct (Qeq_bool amp 0) eqn:Ea; inversion Hc; subst; clear Hc.
    assert (Hlen : forall i l l', cur_rel tr i l l' -> length l' = length l) by (induction 1; cbn; auto).
    rewrite (Hlen _ _ _ Hcur). destruct (negb (Nat.ltb ch (length (v_cur s)))); [cbn; auto|].
    pose proof (alookup_rel tr (ch, k) _ _ Hregs) as Hl.
    destruct (alookup ck_eqb (ch, k) (v_regs s)) as [old|], (alookup ck_eqb (ch, k) (v_regs s')) as [old'|];
      try contradiction; cbn; auto.
    cbn in Hl.
    assert (Hv : old' + v / amp == scale_of tr (0 + ch) (old + v)).
    { rewrite Hl. unfold scale_of; cbn. rewrite En. apply Qeq_bool_neq in Ea. field. exact Ea. }
    pose proof (set_nth_rel tr ch 0 _ _ (old + v) (old' + v / amp) Hcur Hv) as Hs.
    destruct (set_nth ch (Some (old + v)) (v_cur s)), (set_nth ch (Some (old' + v / amp)) (v_cur s')); try contradiction; cbn; auto.
    repeat split; auto. apply aset_rel; auto.
  - inversion Hc; subst. cbn. repeat split; auto. constructor; auto. split; auto.
  - inversion Hc; subst. cbn. repeat split; auto.
  - inversion Hc; subst. destruct (alookup Z.eqb idx (v_counts s)) as [n|]; cbn; auto.
    destruct (0 <? n)%Z; cbn; [|repeat split; auto].
    rewrite (transform_label_target tr cs cs' idx 0%nat HT).
    destruct (label_target cs idx 0); cbn; auto. repeat split; auto.
Qed.

Lemma vm_run_n_rel : forall tr cs cs' fuel s s',
  transform tr cs = Ok cs' -> vm_rel tr s s' -> step_rel tr (vm_run_n fuel cs s) (vm_run_n fuel cs' s').
Proof.
  induction fuel as [|f IH]; intros s s' HT R; cbn; auto.
  pose proof (vm_step_rel tr cs cs' s s' HT R) as H.
  destruct (vm_step cs s), (vm_step cs' s'); cbn in H; try contradiction; auto.
Qed.

Lemma Forall2_rev' {A B} (R : A -> B -> Prop) : forall l l', Forall2 R l l' -> Forall2 R (rev l) (rev l').
Proof. induction 1; cbn; [constructor|]. apply Forall2_app; auto. Qed.

Lemma cur_rel_repeat_none : forall tr n i, cur_rel tr i (repeat None n) (repeat None n).
Proof. induction n; intros; cbn; constructor; cbn; auto. Qed.

Lemma run_vm_scaled : forall tr cs cs' fuel ch,
  transform tr cs = Ok cs' -> outcome_scaled tr (run_vm_n fuel ch cs) (run_vm_n fuel ch cs').
Proof.
  intros tr cs cs' fuel ch HT. unfold run_vm_n.
  assert (R0 : vm_rel tr (vm0 ch) (vm0 ch)).
  { unfold vm0, vm_rel; cbn. repeat split; auto. apply cur_rel_repeat_none. }
  pose proof (vm_run_n_rel tr cs cs' fuel _ _ HT R0) as H.
  destruct (vm_run_n fuel cs (vm0 ch)), (vm_run_n fuel cs' (vm0 ch)); cbn in H; try contradiction; cbn; auto.
  destruct H as (_ & Ht & _ & Hh & _). split; auto. apply Forall2_rev'. exact Hh.
Qed.

(* ================================================================================================================ *)
(* the increment kernel (any nesting depth) *)
Lemma aff_at_base : forall fs idx b d, aff_at (b + d) fs idx == aff_at b fs idx + d.
Proof.
  induction fs as [|f fs IH]; intros [|i idx] b d; cbn; try ring.
  rewrite <- IH. apply (f_equal (fun x => x)) || idtac.
  assert (E : b + d + f * inject_Z i == b + f * inject_Z i + d) by ring.
  clear IH. revert E. generalize (b + d + f * inject_Z i) (b + f * inject_Z i + d). 
  intros x y E. revert x y E idx. induction fs as [|g gs IH2]; intros x y E [|j idx]; cbn; auto.
  apply IH2. rewrite E. reflexivity.
Qed.

Lemma aff_at_compat : forall fs idx x y, x == y -> aff_at x fs idx == aff_at y fs idx.
Proof.
  induction fs as [|g gs IH]; intros [|j idx] x y E; cbn; auto. apply IH. rewrite E. reflexivity.
Qed.

Lemma req_inc_loop_sound : forall olds news iolds inews,
  levels_ok olds news iolds inews ->
  forall fs inc0 inc b, length fs = length olds ->
  req_inc_loop olds news fs inc0 = Ok inc ->
  aff_at b fs iolds + inc == aff_at (b + inc0) fs inews.
Proof.
  induction 1 as [|o n io i_n os ns ios ins Hl Hls IH]; intros fs inc0 inc b Hlen Hreq.
  - destruct fs; [|discriminate]. cbn in *. inversion Hreq; subst. reflexivity.
  - destruct fs as [|f fs]; [discriminate|]. cbn in Hlen. injection Hlen as Hlen. cbn in Hreq. cbn [aff_at].
    destruct Hl as [[-> ->]|[(-> & Hlt & ->)|(-> & Hlt & -> & ->)]].
    + rewrite Z.eqb_refl in Hreq. rewrite (IH fs inc0 inc (b + f * inject_Z io) Hlen Hreq).
      apply aff_at_compat. ring.
    + assert (E : (0 =? n)%Z = false) by (apply Z.eqb_neq; lia). rewrite E in Hreq.
      assert (E2 : (0 <? n)%Z = true) by (apply Z.ltb_lt; lia). rewrite E2 in Hreq. cbn in Hreq.
      rewrite (IH fs (inc0 + f) inc (b + f * inject_Z io) Hlen Hreq).
      apply aff_at_compat. rewrite inject_Z_plus. cbn. ring.
    + assert (E : (o =? 0)%Z = false) by (apply Z.eqb_neq; lia). rewrite E in Hreq.
      assert (E2 : (o <? 0)%Z = false) by (apply Z.ltb_ge; lia). rewrite E2 in Hreq. rewrite Z.eqb_refl in Hreq.
      rewrite (IH fs (inc0 - f * inject_Z o) inc (b + f * inject_Z o) Hlen Hreq).
      apply aff_at_compat. cbn. ring.
Qed.

Lemma levels_ok_length : forall olds news iolds inews, levels_ok olds news iolds inews -> length olds = length news.
Proof. induction 1; cbn; auto. Qed.

Lemma required_increment_sound : forall b_old b_new olds news iolds inews fs inc,
  levels_ok olds news iolds inews ->
  required_increment_from (b_new, news) (b_old, olds) fs = Ok inc ->
  aff_at b_old fs iolds + inc == aff_at b_new fs inews.
Proof.
  intros b_old b_new olds news iolds inews fs inc Hl H. unfold required_increment_from in H. cbn [fst snd] in H.
  destruct (Nat.eqb (length news) (length fs)) eqn:E2; cbn in H; [|discriminate].
  apply Nat.eqb_eq in E2. pose proof (levels_ok_length _ _ _ _ Hl) as E1.
  rewrite (req_inc_loop_sound olds news iolds inews Hl fs (b_new - b_old) inc b_old); auto; [|lia].
  apply aff_at_compat. ring.
Qed.

(* ================================================================================================================ *)
(* refutations of the unguarded staircase statement on the faithful model (witnesses = known findings) *)
Local Close Scope Q_scope.
Local Open Scope Z_scope.

Definition q (n : Z) (d : positive) : Q := Qmake n d.
Definition wit_rep : src :=
  SSeq [SHold 1 [VPlain (q 3 2)]; SRep 3 (SSeq [SHold 1 [VPlain (q 3 2)]; SHold 1 [VPlain (q 5 2)]])].
Definition wit_rep_inner : src :=
  SIter 0 2 1 (SRep 2 (SIter 0 3 1 (SHold 1 [VAff 0 [q 1 1; q 1 4]]))).
Definition wit_zero : src :=
  SIter 3 5 2 (SSeq [SHold 1 [VPlain (q (-1) 2)]; SHold 2 [VAff 0 [q 0 1]]; SHold 3 [VPlain (q (-1) 2)]]).
Definition wit_depth : src :=
  SIter 0 2 1 (SSeq [SHold 1 [VAff 0 [q 1 2]; VPlain (q 1 2)];
                     SIter 0 2 1 (SHold 1 [VAff 0 [q 1 2]; VAff 0 [q 0 1; q 1 2]])]).
Definition wit_good : src :=
  SIter 1 7 2 (SSeq [SHold 1 [VAff (q 1 4) [q 1 2]; VPlain (q 3 2)];
                     SIter 5 0 (-2) (SRep 2 (SHold (q 1 2) [VAff 0 [q 1 4; q (-1) 1]; VAff 1 [q 0 1; q 1 8]]))]).

Lemma refute_with : forall g1 g2 channels s fuel h t,
  src_wf channels s = true ->
  (g1 = true -> guard_C17_zero_factor s = true) -> (g2 = true -> guard_C17_repetition_entry_state s = true) ->
  pipeline fuel channels s = Ok (h, t) ->
  plays h (fst (staircase s)) = false ->
  ~ C17_staircase_unguarded g1 g2.
Proof.
  intros g1 g2 channels s fuel h t Hwf H1 H2 Hp Hpl Hall.
  destruct (Hall channels s fuel h t Hwf H1 H2 Hp) as [Hc _]. rewrite Hpl in Hc. discriminate.
Qed.

(* the witnesses of the former finding `repetition-entry-state` play their staircase since the repair *)
Lemma repaired_repetition_witnesses :
  (exists h t, pipeline 200 1 wit_rep = Ok (h, t) /\ plays h (fst (staircase wit_rep)) = true) /\
  (exists h t, pipeline 400 1 wit_rep_inner = Ok (h, t) /\ plays h (fst (staircase wit_rep_inner)) = true).
Proof. split; eexists; eexists; (split; [vm_compute; reflexivity|vm_compute; reflexivity]). Qed.

(* the witness of the former finding `zero-factor-aliases-plain` plays its staircase since the repair *)
Lemma repaired_zero_factor_witness :
  exists h t, pipeline 200 1 wit_zero = Ok (h, t) /\ plays h (fst (staircase wit_zero)) = true.
Proof. eexists; eexists. split; vm_compute; reflexivity. Qed.

(* the witness of the former finding `dep-key-shared-across-depths` (AssertionError) plays its staircase since the repair *)
Lemma repaired_key_depth_witness :
  exists h t, pipeline 200 2 wit_depth = Ok (h, t) /\ plays h (fst (staircase wit_depth)) = true.
Proof. eexists; eexists. split; vm_compute; reflexivity. Qed.

Lemma statement_nonvacuous :
  src_wf 2 wit_good = true /\ guard_C17_zero_factor wit_good = true /\ guard_C17_repetition_entry_state wit_good = true /\
  exists h t, pipeline 1000 2 wit_good = Ok (h, t) /\ length h = 21%nat /\
              plays h (fst (staircase wit_good)) = true /\ Qeq_bool t (snd (staircase wit_good)) = true.
Proof.
  split; [vm_compute; reflexivity|]. split; [vm_compute; reflexivity|]. split; [vm_compute; reflexivity|].
  eexists; eexists. split; [vm_compute; reflexivity|]. repeat split; vm_compute; reflexivity.
Qed.
