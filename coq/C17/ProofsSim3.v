(* C17 — helper lemmas for the main simulation: Vfull at loop boundaries, play_iter, well-formedness projections. *)
From Coq Require Import ZArith QArith List Bool Lia ZifyBool Setoid.
Require Import QV.C17.Model QV.C17.Spec QV.C17.Proofs QV.C17.ProofsVM QV.C17.SimDefs QV.C17.ProofsTr1 QV.C17.ProofsTr2
               QV.C17.ProofsSim1.
Import ListNotations.
Local Open Scope Z_scope.

Lemma Vfull_pre : forall S I rest, length S = length I -> Vfull (S ++ rest) S I = I ++ rest.
Proof.
  induction S as [|s S IH]; intros [|i I] rest H; cbn in *; try discriminate.
  - destruct rest; reflexivity.
  - rewrite Vlev_same, IH; auto.
Qed.

Lemma Vfull_level : forall its I x y j suf, length its = length I ->
  Vfull ((its ++ [x]) ++ suf) (its ++ [y]) (I ++ [j]) = I ++ [Vlev x y j] ++ suf.
Proof.
  induction its as [|s S IH]; intros [|i I] x y j suf H; cbn in *; try discriminate.
  - destruct suf; reflexivity.
  - rewrite Vlev_same, IH; auto.
Qed.

Lemma Vfull_exit : forall its I x suf, length its = length I -> Vfull ((its ++ [x]) ++ suf) its I = I ++ [x] ++ suf.
Proof. intros. rewrite <- app_assoc. apply Vfull_pre; auto. Qed.

Lemma Vlev_00 : forall x, Vlev x 0 0 = x.
Proof.
  intros x. unfold Vlev. destruct (x =? 0) eqn:E; [lia|].
  destruct ((0 <=? x) && (x <? 0)) eqn:E2; [lia|reflexivity].
Qed.

Lemma Vfull_enter : forall olds its I, length its = length I -> Vfull olds (its ++ [0]) (I ++ [0]) = Vfull olds its I.
Proof.
  induction olds as [|o olds IH]; intros its I H.
  - destruct its, I; reflexivity.
  - destruct its as [|s its], I as [|i I]; cbn in H; try discriminate.
    + cbn. rewrite Vlev_00. destruct olds; reflexivity.
    + cbn. rewrite IH; auto.
Qed.

Lemma Vlev_loop : forall m j, 1 <= m -> Vlev 0 m j = j - 1.
Proof. intros. unfold Vlev. destruct (0 =? m) eqn:E; [lia|]. assert (X : (0 <=? 0) && (0 <? m) = true) by lia. now rewrite X. Qed.

(* play_iter *)
Lemma nplay_iter_unfold : forall body len I t,
  nplay (NIter body len) I t = play_iter (fun i t => nplay_list body (I ++ [i]) t) (iota (Z.to_nat len) 0) t.
Proof. reflexivity. Qed.

Lemma nplay_list_cons : forall x l I t,
  nplay_list (x :: l) I t = (let '(a, t1) := nplay x I t in let '(b, t2) := nplay_list l I t1 in (a ++ b, t2)).
Proof. reflexivity. Qed.

Lemma iota_snoc : forall k a, iota (S k) a = iota k a ++ [a + Z.of_nat k].
Proof.
  induction k as [|k IH]; intros a.
  - cbn. f_equal. lia.
  - change (iota (S (S k)) a) with (a :: iota (S k) (a + 1)). rewrite IH. cbn [iota app]. do 2 f_equal. f_equal. lia.
Qed.

Lemma play_iter_snoc : forall f l i t,
  play_iter f (l ++ [i]) t =
  (let '(a, t1) := play_iter f l t in let '(b, t2) := f i t1 in (a ++ b, t2)).
Proof.
  induction l as [|x l IH]; intros i t; cbn.
  - destruct (f i t) as [b t2]. now rewrite app_nil_r.
  - destruct (f x t) as [a t1]. rewrite IH. destruct (play_iter f l t1) as [a' t1']. destruct (f i t1') as [b t2].
    now rewrite app_assoc.
Qed.

(* well-formedness projections *)
Lemma hold_ok_nth : forall d vs ch b fs, hold_ok d vs = true -> nth_error vs ch = Some (b, Some fs) -> length fs = d.
Proof.
  induction vs as [|[b0 [fs0|]] vs IH]; intros ch b fs H Hn; destruct ch; cbn in *; try discriminate.
  - inversion Hn; subst. apply andb_prop in H as [H1 _]. now apply Nat.eqb_eq in H1.
  - apply andb_prop in H as [_ H]. eapply IH; eauto.
  - eapply IH; eauto.
Qed.

Lemma hold_factors_nth : forall vs c0 j b fs, nth_error vs j = Some (b, Some fs) -> In ((c0 + j)%nat, fs) (hold_factors c0 vs).
Proof.
  induction vs as [|[b0 [fs0|]] vs IH]; intros c0 j b fs Hn; destruct j; cbn in *; try discriminate.
  - inversion Hn; subst. left. f_equal. lia.
  - right. replace (c0 + S j)%nat with (S c0 + j)%nat by lia. eapply IH; eauto.
  - replace (c0 + S j)%nat with (S c0 + j)%nat by lia. eapply IH; eauto.
Qed.

Lemma node_factors_iter : forall body len, node_factors (NIter body len) = flat_map node_factors body.
Proof. reflexivity. Qed.
Lemma node_factors_rep : forall body c, node_factors (NRepeat body c) = flat_map node_factors body.
Proof. reflexivity. Qed.

Lemma node_ok_iter : forall reps C d body len, node_ok reps C d (NIter body len) = true ->
  1 <= len /\ body <> [] /\ nodes_ok reps C (S d) body = true.
Proof.
  intros reps C d body len H. cbn in H. apply andb_prop in H as [H H3]. apply andb_prop in H as [H1 H2].
  split; [lia|]. split; [destruct body; [discriminate|congruence]|].
  clear H1 H2. induction body as [|x body IH]; [reflexivity|]. apply andb_prop in H3 as [A B].
  cbn [nodes_ok]. rewrite A. cbn. apply IH. exact B.
Qed.

Lemma Forall2_of_nth {A B} (R : A -> B -> Prop) : forall l1 l2, length l1 = length l2 ->
  (forall j y, nth_error l2 j = Some y -> exists x, nth_error l1 j = Some x /\ R x y) -> Forall2 R l1 l2.
Proof.
  induction l1 as [|a l1 IH]; intros [|b l2] HL H; cbn in HL; try discriminate; constructor.
  - destruct (H 0%nat b eq_refl) as (x & E & Rx). cbn in E. inversion E; subst. exact Rx.
  - apply IH; [lia|]. intros j y Hy. apply (H (S j) y Hy).
Qed.
