(* C17 — simulation invariant between translator state and VM state; the hold node. *)
From Coq Require Import ZArith QArith List Bool Lia ZifyBool Setoid.
Require Import QV.C17.Model QV.C17.Spec QV.C17.Proofs QV.C17.ProofsVM QV.C17.SimDefs QV.C17.ProofsTr1 QV.C17.ProofsTr2.
Import ListNotations.
Local Open Scope Z_scope.

(* ---------------------------------------------------------------------------------------------------------------- *)
(* arithmetic of the kernel in terms of Vfull *)
Lemma Vlev_same : forall s i, Vlev s s i = i.
Proof. intros. unfold Vlev. now rewrite Z.eqb_refl. Qed.

Lemma Vfull_same : forall S I, length S = length I -> Vfull S S I = I.
Proof. induction S as [|s S IH]; intros [|i I] H; cbn in *; try discriminate; auto. rewrite Vlev_same, IH; auto. Qed.

(* a factor tuple all of whose entries are zero contributes nothing *)
Lemma aff_at_zero_fs : forall fs I b, Forall (fun f => (f == 0)%Q) fs -> (aff_at b fs I == b)%Q.
Proof.
  induction fs as [|f fs IH]; intros [|i I] b H; cbn; try reflexivity.
  inversion H; subst. rewrite IH by auto. rewrite H2. ring.
Qed.

(* the kernel, directly in terms of Vfull; the previous state may be shorter (then the surplus factors must be zero)
   or longer than the new one *)
Lemma req_inc_V_loop : forall olds S I fs inc0 inc b,
  length fs = length S -> dyn_ok S I -> Forall (fun f => (f == 0)%Q) (skipn (length olds) fs) ->
  req_inc_loop olds S fs inc0 = Ok inc ->
  (aff_at b fs (Vfull olds S I) + inc == aff_at (b + inc0) fs I)%Q.
Proof.
  induction olds as [|o olds IH]; intros S I fs inc0 inc b HL HD HZ HR.
  - cbn in HR. inversion HR; subst. cbn in HZ. cbn [Vfull].
    assert (E : (aff_at b fs [] == b)%Q) by (destruct fs; reflexivity). rewrite E, (aff_at_zero_fs fs I _ HZ). reflexivity.
  - destruct S as [|z S].
    + destruct fs; [|discriminate]. cbn in HR. inversion HR; subst. cbn. reflexivity.
    + destruct fs as [|f fs]; [discriminate|]. inversion HD as [|? i ? I' Hd HD']; subst. cbn in HL. cbn [req_inc_loop] in HR.
      cbn [Vfull aff_at]. cbn [length skipn] in HZ.
      unfold Vlev. destruct (o =? z) eqn:E1.
      * rewrite (IH S I' fs inc0 inc _) by (auto; lia). apply aff_at_compat. ring.
      * destruct (o <? z) eqn:E2.
        -- destruct (o =? 0) eqn:E3; [|discriminate].
           assert (X : (0 <=? o) && true = true) by lia. rewrite X.
           rewrite (IH S I' fs (inc0 + f)%Q inc _) by (auto; lia). apply aff_at_compat.
           replace (i - 1) with (i + -1) by lia. rewrite inject_Z_plus. cbn. ring.
        -- destruct (z =? 0) eqn:E3; [|discriminate].
           assert (X : (0 <=? o) && false = false) by (destruct (0 <=? o); reflexivity). rewrite X.
           rewrite (IH S I' fs (inc0 - f * inject_Z o)%Q inc _) by (auto; lia). apply aff_at_compat.
           assert (i = 0) by (destruct Hd as [[? ?]|[? ?]]; lia). subst i. cbn. ring.
Qed.

Lemma req_inc_V : forall olds S fs b_old b_new inc I,
  required_increment_from (b_new, S) (b_old, olds) fs = Ok inc -> dyn_ok S I ->
  Forall (fun f => (f == 0)%Q) (skipn (length olds) fs) ->
  (aff_at b_old fs (Vfull olds S I) + inc == aff_at b_new fs I)%Q /\ length fs = length S.
Proof.
  intros olds S fs b_old b_new inc I H HD HZ. unfold required_increment_from in H. cbn [fst snd] in H.
  destruct (Nat.eqb (length S) (length fs)) eqn:E2; cbn in H; [|discriminate].
  apply Nat.eqb_eq in E2. split; [|lia].
  rewrite (req_inc_V_loop olds S I fs (b_new - b_old)%Q inc b_old) by (auto; lia). apply aff_at_compat. ring.
Qed.

Lemma aff_at_zeros : forall fs I b, Forall (fun i => i = 0) I -> (aff_at b fs I == b)%Q.
Proof.
  induction fs as [|f fs IH]; intros [|i I] b H; cbn; try reflexivity.
  inversion H; subst. rewrite IH by auto. cbn. ring.
Qed.

Lemma dyn_zeros : forall S I, dyn_ok S I -> forallb (fun it => it =? 0) S = true -> Forall (fun i => i = 0) I.
Proof.
  induction 1 as [|s i S I Hd HD IH]; cbn; intros H; constructor.
  - apply andb_prop in H as [H _]. destruct Hd as [[? ?]|[? ?]]; lia.
  - apply IH. now apply andb_prop in H as [_ H].
Qed.

Lemma forallb_zero : forall l, forallb (fun f => Qeq_bool f 0) l = true -> Forall (fun f => (f == 0)%Q) l.
Proof. induction l; cbn; intros H; constructor; apply andb_prop in H as [H1 H2]; [now apply Qeq_bool_iff|auto]. Qed.

Lemma tz_nil_l : forall b, qlist_tz_eqb [] b = forallb (fun f => Qeq_bool f 0) b.
Proof. destruct b; reflexivity. Qed.
Lemma tz_nil_r : forall a, qlist_tz_eqb a [] = forallb (fun f => Qeq_bool f 0) a.
Proof. destruct a; reflexivity. Qed.

Lemma aff_at_fs_compat : forall fs fs' I b, qlist_tz_eqb fs fs' = true -> (aff_at b fs I == aff_at b fs' I)%Q.
Proof.
  induction fs as [|f fs IH]; intros fs' I b H.
  - rewrite tz_nil_l in H. assert (E : (aff_at b [] I == b)%Q) by reflexivity. rewrite E. symmetry.
    apply aff_at_zero_fs. now apply forallb_zero.
  - destruct fs' as [|g fs'].
    + rewrite tz_nil_r in H. assert (E : (aff_at b [] I == b)%Q) by reflexivity. rewrite E. apply aff_at_zero_fs. now apply forallb_zero.
    + cbn in H. apply andb_prop in H as [H1 H2]. apply Qeq_bool_iff in H1. destruct I as [|i I]; cbn; [reflexivity|].
      rewrite (IH fs' I _ H2). apply aff_at_compat. rewrite H1. reflexivity.
Qed.

Lemma tz_skipn : forall a b, qlist_tz_eqb a b = true -> Forall (fun f => (f == 0)%Q) (skipn (length a) b).
Proof.
  induction a as [|x a IH]; intros b H.
  - rewrite tz_nil_l in H. cbn. now apply forallb_zero.
  - destruct b as [|y b]; [cbn; constructor|]. cbn in H. apply andb_prop in H as [_ H]. cbn. apply IH. exact H.
Qed.

(* a factor tuple whose key is () is all zero *)
Lemma strip_nil_zero : forall fs, strip_zeros fs = [] -> Forall (fun f => (f == 0)%Q) fs.
Proof.
  induction fs as [|f fs IH]; intros H; [constructor|]. cbn in H. destruct (strip_zeros fs) eqn:E; [|discriminate].
  destruct (Qeq_bool f 0) eqn:Ef; [|discriminate]. constructor; [now apply Qeq_bool_iff|auto].
Qed.
Lemma zero_key_aff : forall fs I b, mk_key fs = [] -> (aff_at b fs I == b)%Q.
Proof.
  intros fs I b H. apply aff_at_zero_fs. apply strip_nil_zero. unfold mk_key in H. now apply map_eq_nil in H.
Qed.

(* set_nth *)
Lemma set_nth_ok {A} : forall ch (x : A) l, (ch < length l)%nat ->
  exists l', set_nth ch x l = Some l' /\ length l' = length l /\ nth_error l' ch = Some x /\
             forall j, j <> ch -> nth_error l' j = nth_error l j.
Proof.
  induction ch as [|ch IH]; intros x [|y l] H; cbn in H; try lia.
  - exists (x :: l). cbn. repeat split; auto. intros [|j] Hj; [congruence|reflexivity].
  - destruct (IH x l) as (l' & E & L & N & O); [lia|]. exists (y :: l'). cbn. rewrite E. repeat split; cbn; auto.
    intros [|j] Hj; [reflexivity|]. apply O. congruence.
Qed.

(* ---------------------------------------------------------------------------------------------------------------- *)
Section sim.
  Variable Fs : list (nat * list Q).
  Hypothesis Fs_inj : keys_inj_b Fs = true.

  Lemma fs_inj : forall ch fs fs', In (ch, fs) Fs -> In (ch, fs') Fs -> mk_key fs = mk_key fs' -> qlist_tz_eqb fs fs' = true.
  Proof.
    intros ch fs fs' H1 H2 Hk. unfold keys_inj_b in Fs_inj. rewrite forallb_forall in Fs_inj.
    specialize (Fs_inj _ H1). rewrite forallb_forall in Fs_inj. specialize (Fs_inj _ H2). cbn [fst snd] in Fs_inj.
    rewrite Nat.eqb_refl, Hk in Fs_inj. assert (X : key_eqb (mk_key fs') (mk_key fs') = true) by now apply key_eqb_spec.
    rewrite X in Fs_inj. exact Fs_inj.
  Qed.

  Definition Pact (st : tstate) (s : vm) : Prop :=
    forall ch k, act st ch = Some k ->
      exists v, nth_error (v_cur s) ch = Some (Some v) /\ alookup ck_eqb (ch, k) (v_regs s) = Some v.
  Definition Pplain (st : tstate) (s : vm) : Prop :=
    forall ch v, pl st ch = Some v -> exists r, alookup ck_eqb (ch, []) (v_regs s) = Some r /\ (r == v)%Q.
  Definition Idep (K : nat * key -> Prop) (st : tstate) (s : vm) (I : list Z) : Prop :=
    forall ch k b olds, K (ch, k) -> dp st (ch, k) = Some (b, olds) ->
      exists r, alookup ck_eqb (ch, k) (v_regs s) = Some r /\
                (exists fs0, In (ch, fs0) Fs /\ mk_key fs0 = k /\ length fs0 = length olds) /\
                forall fs, In (ch, fs) Fs -> mk_key fs = k -> (r == aff_at b fs (Vfull olds (t_iters st) I))%Q.

  Definition same_ctl (s s1 : vm) : Prop :=
    v_time s1 = v_time s /\ v_hist s1 = v_hist s /\ v_counts s1 = v_counts s /\ length (v_cur s1) = length (v_cur s).

  Definition Knz (K : nat * key -> Prop) : Prop := forall ck, K ck -> snd ck <> [].

  Lemma ch_plain : forall ch b st c1 st1 cmds pre post s K I,
    tr_set_voltage ch b st = (c1, st1) -> cmds = pre ++ c1 ++ post -> v_pc s = length pre ->
    (ch < length (v_cur s))%nat -> Pact st s -> Pplain st s -> Idep K st s I -> Knz K ->
    exists s1, reach cmds s s1 /\ v_pc s1 = (length pre + length c1)%nat /\ Pact st1 s1 /\ Pplain st1 s1 /\ Idep K st1 s1 I /\
               same_ctl s s1 /\ (exists v, nth_error (v_cur s1) ch = Some (Some v) /\ (v == b)%Q) /\
               (forall j, j <> ch -> nth_error (v_cur s1) j = nth_error (v_cur s) j) /\
               (forall ck, snd ck <> [] -> alookup ck_eqb ck (v_regs s1) = alookup ck_eqb ck (v_regs s)).
  Proof.
    intros ch b st c1 st1 cmds pre post s K I HT Hc Hpc Hlt HA HP HD HK.
    destruct (set_voltage_summ _ _ _ _ _ HT) as (A1 & P1 & D1 & I1 & L1).
    unfold tr_set_voltage in HT.
    destruct (negb (opt_key_is (alookup Nat.eqb ch (t_active st)) []) || negb (opt_q_is (alookup Nat.eqb ch (t_plain st)) b)) eqn:E.
    - injection HT as <- Est. destruct (set_nth_ok ch (Some b) (v_cur s) Hlt) as (cur' & Es & Ln & Nn & On).
      eexists. split; [apply reach_step; eapply step_set; [exact Hc|exact Hpc|exact Es]|].
      cbn [v_pc v_cur v_regs v_time v_hist v_counts]. split; [cbn; lia|].
      split; [|split; [|split; [|split; [|split; [|split]]]]].
      + intros c k Hk. rewrite A1 in Hk. destruct (Nat.eqb c ch) eqn:Ec.
        * apply Nat.eqb_eq in Ec. subst c. inversion Hk; subst. exists b. cbn. split; auto.
          apply (alookup_aset_same ck_eqb ck_eqb_spec).
        * apply Nat.eqb_neq in Ec. destruct (HA c k Hk) as (v & N1 & R1). exists v. cbn. rewrite On by auto. split; auto.
          rewrite (alookup_aset_other ck_eqb ck_eqb_spec); auto. congruence.
      + intros c v Hv. specialize (P1 c). rewrite Hv in P1. destruct (Nat.eqb c ch) eqn:Ec.
        * apply Nat.eqb_eq in Ec. subst c. exists b. cbn in *. split; [apply (alookup_aset_same ck_eqb ck_eqb_spec)|now symmetry].
        * apply Nat.eqb_neq in Ec. destruct (pl st c) as [v0|] eqn:Ev0; cbn in P1; [|contradiction].
          destruct (HP c v0 Ev0) as (r & R1 & R2). exists r. cbn. split.
          -- rewrite (alookup_aset_other ck_eqb ck_eqb_spec); auto. congruence.
          -- rewrite R2. now symmetry.
      + intros c k b0 olds HKc Hd. unfold dp in Hd. rewrite D1 in Hd. destruct (HD c k b0 olds HKc Hd) as (r & R1 & R0 & R2).
        exists r. cbn. split; [|split; [exact R0|]].
        * rewrite (alookup_aset_other ck_eqb ck_eqb_spec); auto. intros X. inversion X; subst. apply (HK _ HKc). reflexivity.
        * rewrite I1. exact R2.
      + repeat split; auto.
      + exists b. split; auto. reflexivity.
      + exact On.
      + intros ck Hck. apply (alookup_aset_other ck_eqb ck_eqb_spec). intros X. subst ck. apply Hck. reflexivity.
    - injection HT as <- <-. apply orb_false_elim in E as [E1 E2]. apply negb_false_iff in E1, E2.
      destruct (alookup Nat.eqb ch (t_active st)) as [k|] eqn:Ek; cbn in E1; [|discriminate].
      apply key_eqb_spec in E1. subst k.
      destruct (alookup Nat.eqb ch (t_plain st)) as [v'|] eqn:Ev; cbn in E2; [|discriminate]. apply Qeq_bool_iff in E2.
      destruct (HA ch [] Ek) as (v & N1 & R1). destruct (HP ch v' Ev) as (r & R2 & R3).
      assert (Hvb : (v == b)%Q). { assert (X : Some v = Some r) by (etransitivity; [symmetry; exact R1|exact R2]). inversion X; subst. rewrite R3. exact E2. }
      exists s. split; [apply reach_refl|]. split; [cbn; lia|].
      split; auto. split; auto. split; auto. split; [repeat split; auto|]. split; [exists v; auto|]. split; auto.
  Qed.

  Lemma ch_indexed : forall ch b fs st c1 st1 cmds pre post s K I,
    tr_set_indexed_nz ch b fs st = Ok (c1, st1) -> cmds = pre ++ c1 ++ post -> v_pc s = length pre ->
    (ch < length (v_cur s))%nat -> Pact st s -> Pplain st s -> Idep K st s I -> Knz K ->
    K (ch, mk_key fs) -> In (ch, fs) Fs -> length fs = length I -> length (t_iters st) = length I -> dyn_ok (t_iters st) I ->
    exists s1, reach cmds s s1 /\ v_pc s1 = (length pre + length c1)%nat /\ Pact st1 s1 /\ Pplain st1 s1 /\ Idep K st1 s1 I /\
               same_ctl s s1 /\ (exists v, nth_error (v_cur s1) ch = Some (Some v) /\ (v == aff_at b fs I)%Q) /\
               (forall j, j <> ch -> nth_error (v_cur s1) j = nth_error (v_cur s) j) /\
               (forall ck, ck <> (ch, mk_key fs) -> alookup ck_eqb ck (v_regs s1) = alookup ck_eqb ck (v_regs s)).
  Proof.
    intros ch b fs st c1 st1 cmds pre post s K I HT Hc Hpc Hlt HA HP HD HK HKk HIn HLfs HLen HDyn.
    destruct (set_indexed_summ _ _ _ _ _ _ HT) as (A1 & P1 & D1 & I1 & L1).
    assert (Hnz : mk_key fs <> []) by (apply (HK _ HKk)).
    (* what must be shown once the new register value v (with cur[ch] = Some v, reg = Some v) is known *)
    assert (G : forall s1 v, same_ctl s s1 -> nth_error (v_cur s1) ch = Some (Some v) ->
              alookup ck_eqb (ch, mk_key fs) (v_regs s1) = Some v -> (v == aff_at b fs I)%Q ->
              (forall j, j <> ch -> nth_error (v_cur s1) j = nth_error (v_cur s) j) ->
              (forall ck, ck <> (ch, mk_key fs) -> alookup ck_eqb ck (v_regs s1) = alookup ck_eqb ck (v_regs s)) ->
              Pact st1 s1 /\ Pplain st1 s1 /\ Idep K st1 s1 I).
    { intros s1 v HS N1 R1 Hv On Or. split; [|split].
      - intros c k Hk. rewrite A1 in Hk. destruct (Nat.eqb c ch) eqn:Ec.
        + apply Nat.eqb_eq in Ec. subst c. inversion Hk; subst. exists v. auto.
        + apply Nat.eqb_neq in Ec. destruct (HA c k Hk) as (v0 & N0 & R0). exists v0. rewrite On by auto. split; auto.
          rewrite Or; auto. congruence.
      - intros c v0 Hv0. unfold pl in Hv0. rewrite P1 in Hv0. destruct (HP c v0 Hv0) as (r & R2 & R3). exists r. split; auto.
        rewrite Or; auto. intros X. inversion X. congruence.
      - intros c k b0 olds HKc Hd. rewrite D1 in Hd. destruct (ck_eqb (c, k) (ch, mk_key fs)) eqn:Ec.
        + apply ck_eqb_spec in Ec. inversion Ec; subst c k. inversion Hd; subst b0 olds. exists v. split; auto.
          split; [exists fs; repeat split; auto; congruence|].
          intros fs' HIn' Hk'. rewrite I1, Vfull_same by auto. rewrite Hv. apply aff_at_fs_compat.
          apply (fs_inj ch); auto.
        + assert (Hne : (c, k) <> (ch, mk_key fs)).
          { intros X. rewrite X in Ec. assert (Y : ck_eqb (ch, mk_key fs) (ch, mk_key fs) = true) by now apply ck_eqb_spec. congruence. }
          destruct (HD c k b0 olds HKc Hd) as (r & R2 & R0 & R3). exists r. rewrite Or by auto. split; auto. split; [exact R0|].
          rewrite I1. exact R3. }
    unfold tr_set_indexed_nz in HT.
    destruct (alookup ck_eqb (ch, mk_key fs) (t_deps st)) as [[b_old olds]|] eqn:Eprev.
    - destruct (required_increment_from (b, t_iters st) (b_old, olds) fs) as [inc|] eqn:Einc; cbn [bind] in HT; [|discriminate].
      destruct (HD ch (mk_key fs) b_old olds HKk Eprev) as (r & R1 & (fs0 & HIn0 & Hk0 & HL0) & R2). specialize (R2 fs HIn eq_refl).
      assert (HZ : Forall (fun f => (f == 0)%Q) (skipn (length olds) fs)).
      { rewrite <- HL0. apply tz_skipn. apply (fs_inj ch); auto. }
      destruct (req_inc_V _ _ _ _ _ _ I Einc HDyn HZ) as (Hk & _).
      destruct (negb (Qeq_bool inc 0) || negb (opt_key_is (alookup Nat.eqb ch (t_active st)) (mk_key fs))) eqn:E;
        injection HT as <- Est.
      + destruct (set_nth_ok ch (Some (r + inc)%Q) (v_cur s) Hlt) as (cur' & Es & Ln & Nn & On).
        eexists. split; [apply reach_step; eapply step_inc; [exact Hc|exact Hpc|exact R1|exact Es]|].
        cbn [v_pc v_cur v_regs v_time v_hist v_counts]. split; [cbn; lia|].
        match goal with |- Pact _ ?s1 /\ _ => destruct (G s1 (r + inc)%Q) as (G1 & G2 & G3) end; cbn; auto.
        * repeat split; auto.
        * apply (alookup_aset_same ck_eqb ck_eqb_spec).
        * rewrite R2. exact Hk.
        * intros ck Hck. apply (alookup_aset_other ck_eqb ck_eqb_spec). congruence.
        * split; auto. split; auto. split; auto. split; [repeat split; auto|].
          split; [exists (r + inc)%Q; split; auto; rewrite R2; exact Hk|]. split; auto.
          intros ck Hck. apply (alookup_aset_other ck_eqb ck_eqb_spec). congruence.
      + apply orb_false_elim in E as [E1 E2]. apply negb_false_iff in E1, E2. apply Qeq_bool_iff in E1.
        destruct (alookup Nat.eqb ch (t_active st)) as [k|] eqn:Ek; cbn in E2; [|discriminate].
        apply key_eqb_spec in E2. subst k. destruct (HA ch (mk_key fs) Ek) as (v & N1 & R3).
        rewrite R1 in R3. inversion R3; subst v.
        assert (Hv : (r == aff_at b fs I)%Q). { rewrite <- Hk, <- R2, E1. ring. }
        exists s. split; [apply reach_refl|]. split; [cbn; lia|].
        destruct (G s r) as (G1 & G2 & G3); auto; [repeat split; auto|].
        split; auto. split; auto. split; auto. split; [repeat split; auto|]. split; [exists r; auto|]. split; auto.
    - destruct (forallb (fun it => it =? 0) (t_iters st)) eqn:Ez; [|discriminate]. injection HT as <- Est.
      destruct (set_nth_ok ch (Some b) (v_cur s) Hlt) as (cur' & Es & Ln & Nn & On).
      assert (Hv : (b == aff_at b fs I)%Q) by (symmetry; apply aff_at_zeros; eapply dyn_zeros; eauto).
      eexists. split; [apply reach_step; eapply step_set; [exact Hc|exact Hpc|exact Es]|].
      cbn [v_pc v_cur v_regs v_time v_hist v_counts]. split; [cbn; lia|].
      match goal with |- Pact _ ?s1 /\ _ => destruct (G s1 b) as (G1 & G2 & G3) end; cbn; auto.
      + repeat split; auto.
      + apply (alookup_aset_same ck_eqb ck_eqb_spec).
      + intros ck Hck. apply (alookup_aset_other ck_eqb ck_eqb_spec). congruence.
      + split; auto. split; auto. split; auto. split; [repeat split; auto|]. split; [exists b; auto|]. split; auto.
        intros ck Hck. apply (alookup_aset_other ck_eqb ck_eqb_spec). congruence.
  Qed.
End sim.
