(* C17 — SimpleExpression (qupulse/program/__init__.py): the values  C + C1*R1 + C2*R2 + ...  the linspace builder receives
   for index dependent voltages, and their arithmetic (__add__, __radd__, __sub__, __rsub__, __neg__, __mul__, __rmul__,
   __truediv__, value).  Hand-written model + denotation; definitions and the soundness proof of the arithmetic. *)
From Coq Require Import ZArith QArith List Bool Lia Setoid.
Require Import QV.C17.Model.
Import ListNotations.

Definition sexpr := (Q * list (nat * Q))%type.          (* SimpleExpression(base, offsets: insertion ordered dict by index name) *)

Inductive sval := SNum (q : Q) | SExp (e : sexpr).      (* a python number or a SimpleExpression *)

(* expression trees as a user (or the lambdified template expression) writes them *)
Inductive sx :=
| SXNum (q : Q)
| SXIdx (n : nat)                 (* what inner_scope injects: SimpleExpression(base=0, offsets={name: 1}) *)
| SXAdd (a b : sx)
| SXSub (a b : sx)
| SXNeg (a : sx)
| SXMul (a b : sx)                (* at most one operand may contain an index (else python raises TypeError: modelled as None) *)
| SXDiv (a : sx) (d : Q).         (* expression / number, number <> 0 (else ZeroDivisionError: None) *)

Definition oget (n : nat) (l : list (nat * Q)) : Q := match alookup Nat.eqb n l with Some c => c | None => 0%Q end.

(* __add__ of two expressions: offsets = self.offsets.copy(); for name, value in other.offsets.items(): offsets[name] = value + offsets.get(name, 0) *)
Definition se_merge (a b : list (nat * Q)) : list (nat * Q) :=
  fold_left (fun acc nv => aset Nat.eqb (fst nv) (snd nv + oget (fst nv) acc)%Q acc) b a.

Definition se_add (x y : sval) : sval :=
  match x, y with
  | SNum a, SNum b => SNum (a + b)
  | SExp (b, o), SNum q => SExp ((b + q)%Q, o)
  | SNum q, SExp (b, o) => SExp ((b + q)%Q, o)                        (* __radd__ = __add__ *)
  | SExp (b1, o1), SExp (b2, o2) => SExp ((b1 + b2)%Q, se_merge o1 o2)
  end.

Definition se_neg (x : sval) : sval :=
  match x with
  | SNum a => SNum (- a)
  | SExp (b, o) => SExp ((- b)%Q, map (fun nv => (fst nv, (- snd nv)%Q)) o)
  end.

(* __sub__: self.__add__(-other);  __rsub__: (-self).__add__(other) *)
Definition se_sub (x y : sval) : sval :=
  match x, y with
  | SNum a, SNum b => SNum (a - b)
  | SNum _, SExp _ => se_add (se_neg y) x
  | _, _ => se_add x (se_neg y)
  end.

Definition se_mul (x y : sval) : option sval :=
  match x, y with
  | SNum a, SNum b => Some (SNum (a * b))
  | SExp (b, o), SNum q | SNum q, SExp (b, o) => Some (SExp ((b * q)%Q, map (fun nv => (fst nv, (q * snd nv)%Q)) o))
  | SExp _, SExp _ => None
  end.

(* __truediv__: inv = 1 / other; self.__mul__(inv) *)
Definition se_div (x : sval) (d : Q) : option sval :=
  if Qeq_bool d 0 then None else
  match x with
  | SNum a => Some (SNum (a / d))
  | SExp _ => se_mul x (SNum (1 / d))
  end.

Fixpoint sx_run (e : sx) : option sval :=
  match e with
  | SXNum q => Some (SNum q)
  | SXIdx n => Some (SExp (0%Q, [(n, 1%Q)]))
  | SXAdd a b => match sx_run a, sx_run b with Some x, Some y => Some (se_add x y) | _, _ => None end
  | SXSub a b => match sx_run a, sx_run b with Some x, Some y => Some (se_sub x y) | _, _ => None end
  | SXNeg a => match sx_run a with Some x => Some (se_neg x) | None => None end
  | SXMul a b => match sx_run a, sx_run b with Some x, Some y => se_mul x y | _, _ => None end
  | SXDiv a d => match sx_run a with Some x => se_div x d | None => None end
  end.

(* SimpleExpression.value(scope) (after the repair 0264c55: it iterated over the keys): value = base; value += scope[name] * factor *)
Definition se_sum (env : nat -> Q) (o : list (nat * Q)) : Q := fold_left (fun v nv => (v + env (fst nv) * snd nv)%Q) o 0%Q.
Definition se_value (env : nat -> Q) (x : sval) : Q :=
  match x with
  | SNum q => q
  | SExp (b, o) => fold_left (fun v nv => (v + env (fst nv) * snd nv)%Q) o b
  end.

(* what the tree means, computed directly *)
Fixpoint sx_den (env : nat -> Q) (e : sx) : Q :=
  match e with
  | SXNum q => q
  | SXIdx n => env n
  | SXAdd a b => (sx_den env a + sx_den env b)%Q
  | SXSub a b => (sx_den env a - sx_den env b)%Q
  | SXNeg a => (- sx_den env a)%Q
  | SXMul a b => (sx_den env a * sx_den env b)%Q
  | SXDiv a d => (sx_den env a / d)%Q
  end.

Definition env_of_alist (l : list (nat * Z)) (n : nat) : Q :=
  match alookup Nat.eqb n l with Some z => inject_Z z | None => 0%Q end.

(* the trees the python operators accept: no product of two index dependent operands, no division by zero *)
Fixpoint sx_has_idx (e : sx) : bool :=
  match e with
  | SXNum _ => false | SXIdx _ => true
  | SXAdd a b | SXSub a b | SXMul a b => sx_has_idx a || sx_has_idx b
  | SXNeg a | SXDiv a _ => sx_has_idx a
  end.
Fixpoint sx_affine (e : sx) : bool :=
  match e with
  | SXNum _ | SXIdx _ => true
  | SXAdd a b | SXSub a b => sx_affine a && sx_affine b
  | SXNeg a => sx_affine a
  | SXMul a b => sx_affine a && sx_affine b && negb (sx_has_idx a && sx_has_idx b)
  | SXDiv a d => sx_affine a && negb (Qeq_bool d 0)
  end.

