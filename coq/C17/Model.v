(* C17 — operational model of qupulse/program/linspace.py (definitions only, executable, total, errors explicit).

   src            the templates of the property's quantifier: constant holds whose per-channel voltage is a plain
                  float, an int, or affine in the enclosing loop indices; sequences; repetitions; iterations
   build          LinSpaceBuilder: hold_voltage / with_repetition / with_iteration / with_sequence  -> node tree
   translate      to_increment_commands = _TranslationState (registers per (channel, DepKey), active key per channel,
                  first-pass unrolling of iterations, the repetition "hackedy" branch, DepState.required_increment_from)
   run_vm         LinSpaceVM (program counter, label table, label counts, registers, history)
   transform      ProgramEntry._transform_linspace_commands                                                        *)
From Coq Require Import ZArith QArith Qround List Bool.
Import ListNotations.
Open Scope Z_scope.

Inductive err :=
| EAttr      (* AttributeError (an int voltage used to take the SimpleExpression path; repaired, no longer produced) *)
| EAssert    (* AssertionError in required_increment_from / _set_indexed_voltage *)
| EKey       (* KeyError in the VM: increment of a register that was never set / jump to an unknown label *)
| EIndex     (* IndexError: command channel outside the VM's channel list / transformation list *)
| EDiv       (* ZeroDivisionError: amplitude 0 in the hardware scaling *)
| ENotImpl   (* NotImplementedError: Play command in the VM / index dependent hold duration (translated definitions) *)
| ERuntime   (* RuntimeError: voltage transformation on an Increment (only in the definitions translated from the source) *)
| EFuel.     (* model only: the fuel given to run_vm did not suffice *)

Inductive res (A : Type) := Ok (a : A) | Err (e : err).
Arguments Ok {A} a.
Arguments Err {A} e.

Definition bind {A B} (r : res A) (f : A -> res B) : res B :=
  match r with Ok a => f a | Err e => Err e end.
Notation "'let?' x ':=' r 'in' k" := (bind r (fun x => k)) (at level 200, x name, r at level 100, k at level 200).
Notation "'let?' ' p ':=' r 'in' k" := (bind r (fun p => k)) (at level 200, p strict pattern, r at level 100, k at level 200).

(* ---------------------------------------------------------------------------------------------------------------- *)
(* source templates *)

Inductive volt :=
| VPlain (q : Q)                          (* a float that does not depend on a loop index *)
| VInt (z : Z)                            (* an int (python int / numpy integer) *)
| VAff (base : Q) (coefs : list Q).       (* base + sum coefs_i * index_i, enclosing loops outermost first (missing = 0) *)

Inductive src :=
| SHold (dur : Q) (vs : list volt)        (* voltages in builder channel order *)
| SSeq (l : list src)
| SRep (count : Z) (body : src)
| SIter (start stop step : Z) (body : src).

(* len(range(start, stop, step)), step <> 0 *)
Definition range_len (start stop step : Z) : Z :=
  if 0 <? step then Z.max 0 ((stop - start + step - 1) / step)
  else if step <? 0 then Z.max 0 ((start - stop - step - 1) / (- step))
  else 0.

(* ---------------------------------------------------------------------------------------------------------------- *)
(* LinSpaceBuilder *)

Inductive node :=
| NHold (vs : list (Q * option (list Q))) (dur : Q)    (* (base, factors) per channel index; None = plain float *)
| NRepeat (body : list node) (count : Z)
| NIter (body : list node) (len : Z).

Definition nth_coef (coefs : list Q) (i : nat) : Q := nth i coefs 0%Q.

(* hold_voltage, one SimpleExpression value: walks the ranges (outermost first) *)
Fixpoint aff_walk (rs : list (Z * Z)) (coefs : list Q) (i : nat) (base : Q) (incs : list Q) : Q * list Q :=
  match rs with
  | [] => (base, rev incs)
  | (start, step) :: rs' =>
      let c := nth_coef coefs i in
      (* python: start = 0.; step = 0.; if offset and <not shadowed>: start += rng.start * offset; step += rng.step * offset *)
      let '(st, sp) := if Qeq_bool c 0 then (0%Q, 0%Q) else ((0 + inject_Z start * c)%Q, (0 + inject_Z step * c)%Q) in
      aff_walk rs' coefs (S i) (base + st)%Q (sp :: incs)
  end.

Definition build_volt (rs : list (Z * Z)) (v : volt) : res (Q * option (list Q)) :=
  match v with
  | VPlain q => Ok (q, None)
  | VInt z => Ok (inject_Z z, None)           (* float(value) for every plain number *)
  | VAff base coefs => let '(b, incs) := aff_walk rs coefs 0%nat base [] in Ok (b, Some incs)
  end.

Fixpoint build_volts (rs : list (Z * Z)) (vs : list volt) : res (list (Q * option (list Q))) :=
  match vs with
  | [] => Ok []
  | v :: vs' => let? x := build_volt rs v in let? r := build_volts rs vs' in Ok (x :: r)
  end.

Definition Qpos_b (q : Q) : bool := negb (Qle_bool q 0).

Fixpoint build (s : src) (rs : list (Z * Z)) {struct s} : res (list node) :=
  match s with
  | SHold dur vs =>
      if Qpos_b dur then let? nvs := build_volts rs vs in Ok [NHold nvs dur] else Ok []
  | SSeq l =>
      (fix go (l : list src) : res (list node) :=
         match l with
         | [] => Ok []
         | x :: l' => let? a := build x rs in let? b := go l' in Ok (a ++ b)
         end) l
  | SRep count body =>
      if count <=? 0 then Ok [] else
      let? blocks := build body rs in
      match blocks with [] => Ok [] | _ => Ok [NRepeat blocks count] end
  | SIter start stop step body =>
      let n := range_len start stop step in
      if n =? 0 then Ok [] else
      let? cmds := build body (rs ++ [(start, step)]) in
      match cmds with [] => Ok [] | _ => Ok [NIter cmds n] end
  end.

Definition build_program (s : src) : res (list node) := build s [].

(* ---------------------------------------------------------------------------------------------------------------- *)
(* commands *)

Definition key := list Z.

Inductive cmd :=
| CSet (ch : nat) (v : Q) (k : key)
| CInc (ch : nat) (v : Q) (k : key)
| CWait (d : Q)
| CLabel (idx : Z) (count : Z)
| CJmp (idx : Z).

(* DepKey.from_voltages: strip trailing zeros, then int(round(v / resolution)) with resolution 1e-9 *)
Fixpoint strip_zeros (fs : list Q) : list Q :=
  match fs with
  | [] => []
  | f :: r => match strip_zeros r with
              | [] => if Qeq_bool f 0 then [] else [f]
              | r' => f :: r'
              end
  end.

Definition round_half_even (x : Q) : Z :=
  let fl := Qfloor x in
  let d := (x - inject_Z fl)%Q in
  match Qcompare d (1 # 2) with
  | Lt => fl
  | Gt => fl + 1
  | Eq => if Z.even fl then fl else fl + 1
  end.

Definition resolution_inv : Q := 1000000000 # 1.
Definition mk_key (fs : list Q) : key := map (fun f => round_half_even (f * resolution_inv)%Q) (strip_zeros fs).

Definition key_eqb (a b : key) : bool := if list_eq_dec Z.eq_dec a b then true else false.
Definition ck_eqb (a b : nat * key) : bool := Nat.eqb (fst a) (fst b) && key_eqb (snd a) (snd b).

(* association lists standing for python dicts (lookup = first match, update in place or append) *)
Fixpoint alookup {K V} (eqb : K -> K -> bool) (k : K) (l : list (K * V)) : option V :=
  match l with
  | [] => None
  | (k', v) :: r => if eqb k k' then Some v else alookup eqb k r
  end.
Fixpoint aset {K V} (eqb : K -> K -> bool) (k : K) (v : V) (l : list (K * V)) : list (K * V) :=
  match l with
  | [] => [(k, v)]
  | (k', v') :: r => if eqb k k' then (k, v) :: r else (k', v') :: aset eqb k v r
  end.

Definition depstate := (Q * list Z)%type.        (* DepState(base, iterations) *)

Record tstate := mkT {
  t_label : Z;
  t_iters : list Z;
  t_active : list (nat * key);
  t_deps : list ((nat * key) * depstate);
  t_plain : list (nat * Q);
  t_stable : bool                   (* unused since the repair of `repetition-entry-state` (was the ghost guard of that finding); always true *) }.

Definition t0 : tstate := mkT 0 [] [] [] [] true.

Definition zlist_eqb (a b : list Z) : bool := if list_eq_dec Z.eq_dec a b then true else false.

(* DepState.required_increment_from(self = (base, its), previous, factors) *)
Fixpoint req_inc_loop (olds news : list Z) (factors : list Q) (inc : Q) : res Q :=
  match olds, news, factors with
  | old :: olds', new :: news', f :: factors' =>
      if old =? new then req_inc_loop olds' news' factors' inc
      else if old <? new then
        if old =? 0 then req_inc_loop olds' news' factors' (inc + f)%Q else Err EAssert
      else
        if new =? 0 then req_inc_loop olds' news' factors' (inc - f * inject_Z old)%Q else Err EAssert
  | _, _, _ => Ok inc
  end.

(* since the repair of `dep-key-shared-across-depths` the previous state may have another depth: zip compares the
   common outer levels only *)
Definition required_increment_from (new prev : depstate) (factors : list Q) : res Q :=
  if negb (Nat.eqb (length (snd new)) (length factors)) then Err EAssert
  else req_inc_loop (snd prev) (snd new) factors (fst new - fst prev)%Q.

Definition opt_key_is (o : option key) (k : key) : bool :=
  match o with Some k' => key_eqb k' k | None => false end.
Definition opt_q_is (o : option Q) (q : Q) : bool :=
  match o with Some q' => Qeq_bool q' q | None => false end.

(* _TranslationState.set_voltage *)
Definition tr_set_voltage (ch : nat) (value : Q) (st : tstate) : list cmd * tstate :=
  if negb (opt_key_is (alookup Nat.eqb ch (t_active st)) []) || negb (opt_q_is (alookup Nat.eqb ch (t_plain st)) value)
  then ([CSet ch value []],
        mkT (t_label st) (t_iters st) (aset Nat.eqb ch [] (t_active st)) (t_deps st) (aset Nat.eqb ch value (t_plain st)) (t_stable st))
  else ([], st).

(* _TranslationState._set_indexed_voltage, the part after the all-factors-zero test *)
Definition tr_set_indexed_nz (ch : nat) (base : Q) (factors : list Q) (st : tstate) : res (list cmd * tstate) :=
  let k := mk_key factors in
  let new := (base, t_iters st) in
  match alookup ck_eqb (ch, k) (t_deps st) with
  | None =>
      if forallb (fun it => it =? 0) (t_iters st) then
        Ok ([CSet ch base k],
            mkT (t_label st) (t_iters st) (aset Nat.eqb ch k (t_active st)) (aset ck_eqb (ch, k) new (t_deps st)) (t_plain st) (t_stable st))
      else Err EAssert
  | Some prev =>
      let? inc := required_increment_from new prev factors in
      let cs := if negb (Qeq_bool inc 0) || negb (opt_key_is (alookup Nat.eqb ch (t_active st)) k)
                then [CInc ch inc k] else [] in
      Ok (cs, mkT (t_label st) (t_iters st) (aset Nat.eqb ch k (t_active st)) (aset ck_eqb (ch, k) new (t_deps st)) (t_plain st) (t_stable st))
  end.

(* _TranslationState._set_indexed_voltage: a voltage whose factors are all zero (DepKey(())) is a plain voltage
   (repair of `zero-factor-aliases-plain`) *)
Definition tr_set_indexed (ch : nat) (base : Q) (factors : list Q) (st : tstate) : res (list cmd * tstate) :=
  if key_eqb (mk_key factors) [] then Ok (tr_set_voltage ch base st) else tr_set_indexed_nz ch base factors st.

(* _add_hold_node: channels in index order, then the Wait *)
Fixpoint tr_hold_chs (ch : nat) (vs : list (Q * option (list Q))) (st : tstate) : res (list cmd * tstate) :=
  match vs with
  | [] => Ok ([], st)
  | (base, None) :: vs' =>
      let '(c1, st1) := tr_set_voltage ch base st in
      let? '(c2, st2) := tr_hold_chs (S ch) vs' st1 in Ok (c1 ++ c2, st2)
  | (base, Some fs) :: vs' =>
      let? '(c1, st1) := tr_set_indexed ch base fs st in
      let? '(c2, st2) := tr_hold_chs (S ch) vs' st1 in Ok (c1 ++ c2, st2)
  end.

(* node.dependencies(): channel -> set of factor tuples *)
Definition qlist_eqb (a b : list Q) : bool :=
  (fix go (a b : list Q) : bool :=
     match a, b with
     | [], [] => true
     | x :: a', y :: b' => Qeq_bool x y && go a' b'
     | _, _ => false
     end) a b.

Definition deps_t := list (nat * list (list Q)).

Definition deps_add (ch : nat) (ds : list (list Q)) (acc : deps_t) : deps_t :=
  match alookup Nat.eqb ch acc with
  | None => acc ++ [(ch, ds)]
  | Some old => aset Nat.eqb ch (old ++ ds) acc
  end.

Fixpoint hold_deps (ch : nat) (vs : list (Q * option (list Q))) : deps_t :=
  match vs with
  | [] => []
  | (_, Some (f :: fs)) :: vs' => (ch, [f :: fs]) :: hold_deps (S ch) vs'
  | _ :: vs' => hold_deps (S ch) vs'
  end.

(* python set equality of two sets of float tuples (used for `shortened != {()}`) *)
Definition qsub_b (a b : list (list Q)) : bool := forallb (fun x => existsb (qlist_eqb x) b) a.
Definition qset_eqb (a b : list (list Q)) : bool := qsub_b a b && qsub_b b a.

Fixpoint node_deps (n : node) : deps_t :=
  match n with
  | NHold vs _ => hold_deps 0 vs
  | NRepeat body _ =>
      (fix go (l : list node) (acc : deps_t) : deps_t :=
         match l with
         | [] => acc
         | x :: l' => go l' (fold_left (fun a cd => deps_add (fst cd) (snd cd) a) (node_deps x) acc)
         end) body []
  | NIter body _ =>
      (fix go (l : list node) (acc : deps_t) : deps_t :=
         match l with
         | [] => acc
         | x :: l' =>
             go l' (fold_left (fun a cd =>
                                 let shortened := map (@removelast Q) (snd cd) in
                                 if qset_eqb shortened [[]] then a else deps_add (fst cd) shortened a)
                              (node_deps x) acc)
         end) body []
  end.

(* get_dependency_state: the *set* of Optional[DepState] found for the dependencies *)
Definition depstate_eqb (a b : depstate) : bool := Qeq_bool (fst a) (fst b) && zlist_eqb (snd a) (snd b).
Definition odepstate_eqb (a b : option depstate) : bool :=
  match a, b with
  | Some x, Some y => depstate_eqb x y
  | None, None => true
  | _, _ => false
  end.

Definition get_dependency_state (st : tstate) (ds : deps_t) : list (option depstate) :=
  flat_map (fun cd => map (fun dep => alookup ck_eqb (fst cd, mk_key dep) (t_deps st)) (snd cd)) ds.

Definition subset_b (a b : list (option depstate)) : bool := forallb (fun x => existsb (odepstate_eqb x) b) a.
Definition set_eqb (a b : list (option depstate)) : bool := subset_b a b && subset_b b a.

Definition with_label (st : tstate) (l : Z) : tstate := mkT l (t_iters st) (t_active st) (t_deps st) (t_plain st) (t_stable st).
Definition with_iters (st : tstate) (its : list Z) : tstate := mkT (t_label st) its (t_active st) (t_deps st) (t_plain st) (t_stable st).
Definition with_stable (st : tstate) (b : bool) : tstate := mkT (t_label st) (t_iters st) (t_active st) (t_deps st) (t_plain st) b.

Definition cmd_eqb (a b : cmd) : bool :=
  match a, b with
  | CSet c v k, CSet c' v' k' | CInc c v k, CInc c' v' k' => Nat.eqb c c' && Qeq_bool v v' && key_eqb k k'
  | CWait d, CWait d' => Qeq_bool d d'
  | CLabel i n, CLabel i' n' => (i =? i') && (n =? n')
  | CJmp i, CJmp i' => i =? i'
  | _, _ => false
  end.
Fixpoint cmds_eqb (a b : list cmd) : bool :=
  match a, b with
  | [], [] => true
  | x :: a', y :: b' => cmd_eqb x y && cmds_eqb a' b'
  | _, _ => false
  end.

(* _TranslationState._entry_state_unchanged_since (repair of `repetition-entry-state`): every active register, plain
   voltage and register state known at the loop entry (snapshot = st) still has the same value (python ==) in st1 *)
Definition entry_unchanged (st st1 : tstate) : bool :=
  forallb (fun ck : nat * key => opt_key_is (alookup Nat.eqb (fst ck) (t_active st1)) (snd ck)) (t_active st) &&
  forallb (fun cv : nat * Q => opt_q_is (alookup Nat.eqb (fst cv) (t_plain st1)) (snd cv)) (t_plain st) &&
  forallb (fun ce : (nat * key) * depstate =>
             match alookup ck_eqb (fst ce) (t_deps st1) with Some e => depstate_eqb e (snd ce) | None => false end) (t_deps st).

(* _add_hold_node, first statement: a hold whose duration depends on a loop index (duration_factors is a non-empty
   mapping, even one whose factors are all zero) is refused with NotImplementedError before any command is emitted.  The
   holds of `src` have constant durations; this check is the whole model of the refused class (tied to the source by
   C17_index_dependent_duration_refused) *)
Definition hold_duration_check (duration_factors : list Q) : res unit :=
  match duration_factors with [] => Ok tt | _ => Err ENotImpl end.

(* add_node *)
Fixpoint tr_node (n : node) (st : tstate) {struct n} : res (list cmd * tstate) :=
  match n with
  | NHold vs dur =>
      let? '(cs, st1) := tr_hold_chs 0 vs st in Ok (cs ++ [CWait dur], st1)
  | NRepeat body count =>
      let tr_list := (fix go (l : list node) (st : tstate) : res (list cmd * tstate) :=
                        match l with
                        | [] => Ok ([], st)
                        | x :: l' => let? '(c1, st1) := tr_node x st in let? '(c2, st2) := go l' st1 in Ok (c1 ++ c2, st2)
                        end) in
      let ds := node_deps n in
      let pre := get_dependency_state st ds in
      let idx := t_label st in
      let? '(cs1, st1) := tr_list body (with_label st (idx + 1)) in
      let post := get_dependency_state st1 ds in
      if set_eqb pre post && entry_unchanged st st1 then
        (* the commands translated against the entry state can be replayed from the state the body leaves behind *)
        Ok (CLabel idx count :: cs1 ++ [CJmp idx], st1)
      else
        if 0 <? count - 1 then
          let? '(cs2, st2) := tr_list body st1 in
          Ok (cs1 ++ CLabel idx (count - 1) :: cs2 ++ [CJmp idx], st2)
        else Ok (cs1, st1)              (* count 1: the unrolled first pass is the whole repetition *)
  | NIter body len =>
      let tr_list := (fix go (l : list node) (st : tstate) : res (list cmd * tstate) :=
                        match l with
                        | [] => Ok ([], st)
                        | x :: l' => let? '(c1, st1) := tr_node x st in let? '(c2, st2) := go l' st1 in Ok (c1 ++ c2, st2)
                        end) in
      let its := t_iters st in
      let? '(cs1, st1) := tr_list body (with_iters st (its ++ [0])) in
      if 1 <? len then
        let idx := t_label st1 in
        let? '(cs2, st2) := tr_list body (mkT (idx + 1) (its ++ [len - 1]) (t_active st1) (t_deps st1) (t_plain st1) (t_stable st1)) in
        Ok (cs1 ++ CLabel idx (len - 1) :: cs2 ++ [CJmp idx], with_iters st2 its)
      else Ok (cs1, with_iters st1 its)
  end.

Fixpoint tr_nodes (l : list node) (st : tstate) : res (list cmd * tstate) :=
  match l with
  | [] => Ok ([], st)
  | x :: l' => let? '(c1, st1) := tr_node x st in let? '(c2, st2) := tr_nodes l' st1 in Ok (c1 ++ c2, st2)
  end.

Definition translate (prog : list node) : res (list cmd) :=
  let? '(cs, _) := tr_nodes prog t0 in Ok cs.

(* former ghost guard of `repetition-entry-state`; constantly true for the repaired translator *)
Definition rep_stable (prog : list node) : bool :=
  match tr_nodes prog t0 with Ok (_, st) => t_stable st | Err _ => true end.
Definition rep_stable_src (s : src) : bool :=
  match build_program s with Ok prog => rep_stable prog | Err _ => true end.

(* ---------------------------------------------------------------------------------------------------------------- *)
(* LinSpaceVM *)

Definition hist_t := list (Q * list (option Q)).     (* (start time, per-channel value; None = NaN) *)

Record vm := mkV {
  v_cur : list (option Q);
  v_time : Q;
  v_regs : list ((nat * key) * Q);
  v_hist : hist_t;                     (* newest first *)
  v_counts : list (Z * Z);
  v_pc : nat }.

Definition vm0 (channels : nat) : vm := mkV (repeat None channels) 0 [] [] [] 0.

Fixpoint set_nth {A} (i : nat) (x : A) (l : list A) : option (list A) :=
  match l, i with
  | [], _ => None
  | _ :: r, O => Some (x :: r)
  | y :: r, S i' => match set_nth i' x r with Some r' => Some (y :: r') | None => None end
  end.

(* label_targets[idx] = position after the label *)
Fixpoint label_target (cmds : list cmd) (idx : Z) (pos : nat) : option nat :=
  match cmds with
  | [] => None
  | CLabel i _ :: r => if i =? idx then Some (S pos) else label_target r idx (S pos)
  | _ :: r => label_target r idx (S pos)
  end.

Inductive stepres := Running (s : vm) | Halted (s : vm) | Crashed (e : err).

Definition vm_step (cmds : list cmd) (s : vm) : stepres :=
  match nth_error cmds (v_pc s) with
  | None => Halted s
  | Some c =>
      let next := S (v_pc s) in
      match c with
      | CJmp idx =>
          match alookup Z.eqb idx (v_counts s) with
          | None => Crashed EKey
          | Some n =>
              if 0 <? n then
                match label_target cmds idx 0 with
                | Some tgt => Running (mkV (v_cur s) (v_time s) (v_regs s) (v_hist s) (aset Z.eqb idx (n - 1) (v_counts s)) tgt)
                | None => Crashed EKey
                end
              else Running (mkV (v_cur s) (v_time s) (v_regs s) (v_hist s) (v_counts s) next)
          end
      | CLabel idx count =>
          Running (mkV (v_cur s) (v_time s) (v_regs s) (v_hist s) (aset Z.eqb idx (count - 1) (v_counts s)) next)
      | CWait d =>
          Running (mkV (v_cur s) (v_time s + d)%Q (v_regs s) ((v_time s, v_cur s) :: v_hist s) (v_counts s) next)
      | CSet ch v k =>
          match set_nth ch (Some v) (v_cur s) with
          | None => Crashed EIndex
          | Some cur => Running (mkV cur (v_time s) (aset ck_eqb (ch, k) v (v_regs s)) (v_hist s) (v_counts s) next)
          end
      | CInc ch d k =>
          (* self.registers[cmd.channel] comes first: IndexError for a channel outside the VM, then KeyError *)
          if negb (Nat.ltb ch (length (v_cur s))) then Crashed EIndex else
          match alookup ck_eqb (ch, k) (v_regs s) with
          | None => Crashed EKey
          | Some old =>
              let v := (old + d)%Q in
              match set_nth ch (Some v) (v_cur s) with
              | None => Crashed EIndex
              | Some cur => Running (mkV cur (v_time s) (aset ck_eqb (ch, k) v (v_regs s)) (v_hist s) (v_counts s) next)
              end
          end
      end
  end.

(* `fuel` steps with unary fuel (used in statements) *)
Fixpoint vm_run_n (fuel : nat) (cmds : list cmd) (s : vm) : stepres :=
  match fuel with
  | O => Running s
  | S f => match vm_step cmds s with
           | Running s' => vm_run_n f cmds s'
           | r => r
           end
  end.

(* the same with binary fuel (used in evaluation): exactly Pos.to_nat fuel steps *)
Fixpoint vm_run_p (fuel : positive) (cmds : list cmd) (s : vm) : stepres :=
  match fuel with
  | xH => vm_step cmds s
  | xO p => match vm_run_p p cmds s with
            | Running s' => vm_run_p p cmds s'
            | r => r
            end
  | xI p => match vm_step cmds s with
            | Running s1 => match vm_run_p p cmds s1 with
                            | Running s2 => vm_run_p p cmds s2
                            | r => r
                            end
            | r => r
            end
  end.

Definition outcome := (hist_t * Q)%type.           (* history oldest first, total time *)

Definition vm_result (r : stepres) : res outcome :=
  match r with
  | Halted s => Ok (rev (v_hist s), v_time s)
  | Running _ => Err EFuel
  | Crashed e => Err e
  end.

Definition run_vm (fuel : positive) (channels : nat) (cmds : list cmd) : res outcome :=
  vm_result (vm_run_p fuel cmds (vm0 channels)).
Definition run_vm_n (fuel : nat) (channels : nat) (cmds : list cmd) : res outcome :=
  vm_result (vm_run_n fuel cmds (vm0 channels)).

(* whole pipeline *)
Definition pipeline (fuel : positive) (channels : nat) (s : src) : res outcome :=
  let? prog := build_program s in
  match prog with
  | [] => Ok ([], 0%Q)                 (* to_program() returns None: nothing to play *)
  | _ => let? cs := translate prog in run_vm fuel channels cs
  end.

(* ---------------------------------------------------------------------------------------------------------------- *)
(* ProgramEntry._transform_linspace_commands *)

(* the transformations of the defined channels in output order; unused outputs (channel None) do not take part
   (before the repair of `unused-outputs-collapse`: list(dict(zip(channels, trafos)).values())) *)
Definition channel_trafos (hw : list (option N * (Q * Q))) : list (Q * Q) :=
  map snd (filter (fun x => match fst x with Some _ => true | None => false end) hw).

Definition transform_cmd (tr : list (Q * Q)) (c : cmd) : res cmd :=
  match c with
  | CInc ch v k => match nth_error tr ch with
                   | Some (amp, _) => if Qeq_bool amp 0 then Err EDiv else Ok (CInc ch (v / amp)%Q k)
                   | None => Err EIndex
                   end
  | CSet ch v k => match nth_error tr ch with
                   | Some (amp, off) => if Qeq_bool amp 0 then Err EDiv else Ok (CSet ch ((v - off) / amp)%Q k)
                   | None => Err EIndex
                   end
  | _ => Ok c
  end.

Fixpoint transform (tr : list (Q * Q)) (cs : list cmd) : res (list cmd) :=
  match cs with
  | [] => Ok []
  | c :: r => let? c' := transform_cmd tr c in let? r' := transform tr r in Ok (c' :: r')
  end.

Definition pipeline_transformed (fuel : positive) (channels : nat) (hw : list (option N * (Q * Q))) (s : src) : res outcome :=
  let? prog := build_program s in
  match prog with
  | [] => Ok ([], 0%Q)
  | _ => let? cs := translate prog in let? cs' := transform (channel_trafos hw) cs in run_vm fuel channels cs'
  end.
