(* C17 — SimpleExpression's operator methods and value(), translated from the CURRENT source text of qupulse/program/__init__.py
   (Gen_sexpr.v, regenerated on every run), equal the model SExpr.v.  How python dispatches a binary operator to the methods
   (x + y: x.__add__(y), or y.__radd__(x) when x is a number; -, *, / likewise) is the reading below. *)
From Coq Require Import ZArith QArith List Bool.
Require Import QV.C17.Model QV.C17.SExpr QV.C17.Gen_sexpr.
Import ListNotations.

Lemma gen_se_add_loop_eq : forall l o, gen_se_add_loop l o = se_merge o l.
Proof. unfold se_merge. induction l as [|[n v] l IH]; intros o; cbn [gen_se_add_loop fold_left fst snd]; [reflexivity|]. apply IH. Qed.

Theorem gen_se_add_eq : forall x y, gen_se_add x y = Some (se_add (SExp x) y).
Proof. intros [b o] [q|[b2 o2]]; cbn [gen_se_add se_add fst snd]; [reflexivity|]. now rewrite gen_se_add_loop_eq. Qed.
Theorem gen_se_radd_eq : forall x q, gen_se_radd x (SNum q) = Some (se_add (SNum q) (SExp x)).
Proof. intros [b o] q. reflexivity. Qed.
Theorem gen_se_neg_eq : forall x, SExp (gen_se_neg x) = se_neg (SExp x).
Proof. intros [b o]. reflexivity. Qed.
Theorem gen_se_sub_eq : forall x y, gen_se_sub x y = Some (se_sub (SExp x) y).
Proof.
  intros [b o] [q|[b2 o2]]; unfold gen_se_sub, se_sub; rewrite gen_se_add_eq; [reflexivity|]. now rewrite gen_se_neg_eq.
Qed.
Theorem gen_se_rsub_eq : forall x q, gen_se_rsub x (SNum q) = Some (se_sub (SNum q) (SExp x)).
Proof. intros [b o] q. unfold gen_se_rsub, se_sub. rewrite gen_se_add_eq, gen_se_neg_eq. reflexivity. Qed.
Theorem gen_se_mul_eq : forall x y, gen_se_mul x y = se_mul (SExp x) y.
Proof. intros [b o] [q|[b2 o2]]; reflexivity. Qed.
Theorem gen_se_rmul_eq : forall x q, gen_se_rmul x (SNum q) = se_mul (SNum q) (SExp x).
Proof. intros [b o] q. reflexivity. Qed.
Theorem gen_se_truediv_eq : forall x d, gen_se_truediv x d = se_div (SExp x) d.
Proof. intros [b o] d. unfold gen_se_truediv, se_div. destruct (Qeq_bool d 0); reflexivity. Qed.

Lemma gen_se_value_loop_eq : forall env l v, gen_se_value_loop l env v = fold_left (fun v nv => (v + env (fst nv) * snd nv)%Q) l v.
Proof. intros env. induction l as [|[n c] l IH]; intros v; cbn [gen_se_value_loop fold_left fst snd]; [reflexivity|]. apply IH. Qed.
Theorem gen_se_value_eq : forall x env, gen_se_value x env = se_value env (SExp x).
Proof. intros [b o] env. unfold gen_se_value. cbn [fst snd se_value]. apply gen_se_value_loop_eq. Qed.

Theorem gen_se_all_eq : forall x y q d env,
  gen_se_add x y = Some (se_add (SExp x) y) /\ gen_se_radd x (SNum q) = Some (se_add (SNum q) (SExp x)) /\
  gen_se_sub x y = Some (se_sub (SExp x) y) /\ gen_se_rsub x (SNum q) = Some (se_sub (SNum q) (SExp x)) /\
  SExp (gen_se_neg x) = se_neg (SExp x) /\
  gen_se_mul x y = se_mul (SExp x) y /\ gen_se_rmul x (SNum q) = se_mul (SNum q) (SExp x) /\
  gen_se_truediv x d = se_div (SExp x) d /\ gen_se_value x env = se_value env (SExp x).
Proof.
  intros. repeat split; [apply gen_se_add_eq|apply gen_se_radd_eq|apply gen_se_sub_eq|apply gen_se_rsub_eq|apply gen_se_neg_eq|
                         apply gen_se_mul_eq|apply gen_se_rmul_eq|apply gen_se_truediv_eq|apply gen_se_value_eq].
Qed.
