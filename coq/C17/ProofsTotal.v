(* C17 — round 5: the VM half of totality.  The simulation of ProofsSim4-6 is a FORWARD simulation (it constructs the run of
   the VM), so whenever the translator returns a command list for a well-formed program, the VM runs it to the end: no
   KeyError (every incremented register was set, every jump finds its label and its counter), no IndexError, and it halts
   for every fuel above a bound.  That the translator itself returns (no AssertionError) is ProofsTrTotal.v (round 6);
   the two halves are put together at the end of this file. *)
From Coq Require Import ZArith QArith List Bool Lia ZifyBool Setoid.
Require Import QV.C17.Model QV.C17.Spec QV.C17.Proofs QV.C17.ProofsVM QV.C17.SimDefs QV.C17.ProofsTr3 QV.C17.ProofsSim4 QV.C17.ProofsSim6
               QV.C17.ProofsBuild QV.C17.ProofsGuard QV.C17.ProofsStair QV.C17.ProofsTrTotal QV.C17.ProofsLabels
               QV.C17.GenLib QV.C17.Gen_linspace_obj QV.C17.GenObjEq QV.C17.Gen_linspace_tr QV.C17.GenTrEq.
Import ListNotations.
Local Open Scope Z_scope.

(* the bound does not depend on the fuel *)
Lemma reach_halts_bound : forall cmds s s',
  reach cmds s s' -> v_pc s' = length cmds -> exists n, forall fuel, (n <= fuel)%nat -> vm_run_n fuel cmds s = Halted s'.
Proof.
  intros cmds s s' [n Hn] Hpc. exists (S n). intros fuel Hle.
  assert (Hh : vm_step cmds s' = Halted s').
  { unfold vm_step. rewrite Hpc. replace (nth_error cmds (length cmds)) with (@None cmd); auto.
    symmetry. apply nth_error_None. lia. }
  replace fuel with (n + S (fuel - n - 1))%nat by lia. rewrite vm_run_n_add, Hn. cbn. rewrite Hh. reflexivity.
Qed.

Theorem translated_program_runs : forall reps C prog cs,
  prog_ok reps C prog = true -> (reps = true -> rep_stable prog = true) ->
  translate prog = Ok cs ->
  exists n h t, forall fuel, (n <= fuel)%nat -> run_vm_n fuel C cs = Ok (h, t).
Proof.
  intros reps C prog cs Hok Hstab HT. unfold prog_ok in Hok. apply andb_prop in Hok as [Hok Hinj].
  unfold translate in HT. destruct (tr_nodes prog t0) as [[cs0 st']|] eqn:E; cbn in HT; [|discriminate]. inversion HT; subst cs0; clear HT.
  assert (HS : reps = true -> t_stable st' = true) by (intros e; specialize (Hstab e); unfold rep_stable in Hstab; rewrite E in Hstab; exact Hstab).
  destruct (sim_prog (prog_factors prog) Hinj C reps prog 0%nat Hok (incl_refl _) t0 cs st' [] cs [] [] (vm0 C) E HS) as
    (s' & R & Pc & _); auto.
  - constructor.
  - now rewrite app_nil_r.
  - constructor.
  - cbn. apply repeat_length.
  - intros ch k Hk. cbn in Hk. discriminate.
  - intros ch v Hv. cbn in Hv. discriminate.
  - intros ch k b olds _ Hd. cbn in Hd. discriminate.
  - cbn in Pc. destruct (reach_halts_bound cs (vm0 C) s' R Pc) as [n Hn].
    exists n, (rev (v_hist s')), (v_time s'). intros fuel Hle. unfold run_vm_n. rewrite (Hn fuel Hle). reflexivity.
Qed.

(* source level: if the translator returns, the whole pipeline returns a history for every fuel above a bound, and that history
   is the staircase *)
Theorem pipeline_runs_if_translated : forall C s prog cs,
  src_wf C s = true -> guard_C17_key_collision s = true ->
  build_program s = Ok prog -> translate prog = Ok cs ->
  exists n h t, (forall fuel, (n <= fuel)%nat -> run_vm_n fuel C cs = Ok (h, t)) /\
                plays h (fst (staircase s)) = true /\ Qeq_bool t (snd (staircase s)) = true.
Proof.
  intros C s prog cs HW HK EB ET.
  pose proof (built_ok_of_source C s HW HK) as HG. unfold guard_C17_built_ok in HG. rewrite EB in HG.
  destruct (translated_program_runs true C prog cs HG (fun _ => rep_stable_true prog) ET) as (n & h & t & Hrun).
  exists n, h, t. split; [exact Hrun|].
  pose proof (build_unroll s [] prog [] 0%Q EB eq_refl) as [R1 R2]. cbn [env_of] in R1, R2. fold (staircase s) in R1, R2.
  destruct (translated_program_plays true C prog cs n h t HG (fun _ => rep_stable_true prog) ET (Hrun n (le_n n))) as [H1 H2].
  split; [eapply plays_of; eauto|]. rewrite H2, R2. apply Qeq_bool_iff. reflexivity.
Qed.

(* the builder never fails *)
Lemma build_volts_ok : forall rs vs, exists r, build_volts rs vs = Ok r.
Proof.
  intros rs vs. induction vs as [|v vs [r IH]]; [eexists; reflexivity|]. cbn [build_volts].
  assert (exists x, build_volt rs v = Ok x) as [x Hx].
  { destruct v; cbn; try (eexists; reflexivity). destruct (aff_walk rs coefs 0 base []). eexists; reflexivity. }
  rewrite Hx, IH. cbn. eexists; reflexivity.
Qed.

Lemma build_total : forall s rs, exists nodes, build s rs = Ok nodes.
Proof.
  induction s as [dur vs|l IHl|c body IH|a b c body IH] using src_ind2; intros rs.
  - cbn [build]. destruct (Qpos_b dur); [|eexists; reflexivity].
    destruct (build_volts_ok rs vs) as [r Hr]. rewrite Hr. cbn. eexists; reflexivity.
  - cbn [build]. induction IHl as [|x l Hx _ IH]; [eexists; reflexivity|].
    destruct (Hx rs) as [a Ha]. destruct IH as [b Hb]. rewrite Ha, Hb. cbn. eexists; reflexivity.
  - cbn [build]. destruct (c <=? 0); [eexists; reflexivity|]. destruct (IH rs) as [blocks Hb]. rewrite Hb. cbn.
    destruct blocks; eexists; reflexivity.
  - cbn [build]. destruct (range_len a b c =? 0); [eexists; reflexivity|]. destruct (IH (rs ++ [(a, c)])) as [cmds Hc]. rewrite Hc. cbn.
    destruct cmds; eexists; reflexivity.
Qed.

Lemma pipeline_runs_nonvacuous :
  exists prog cs, build_program wit_good = Ok prog /\ translate prog = Ok cs /\ (length cs = 36)%nat.
Proof. eexists; eexists. split; [vm_compute; reflexivity|]. split; vm_compute; reflexivity. Qed.

(* ---------------------------------------------------------------------------------------------------------------- *)
(* round 6: the translator half (ProofsTrTotal.translate_total) at source level, and total correctness of the pipeline *)
Theorem translator_returns : forall C s, src_wf C s = true ->
  exists prog cs, build_program s = Ok prog /\ translate prog = Ok cs.
Proof.
  intros C s HW. destruct (build_total s []) as [prog EB]. exists prog.
  destruct (translate_total true C prog (build_ok C s [] prog EB HW)) as [cs ET]. exists cs. split; assumption.
Qed.

Theorem pipeline_total : forall C s, src_wf C s = true -> guard_C17_key_collision s = true ->
  exists n h t, (forall fuel, (n <= Pos.to_nat fuel)%nat -> pipeline fuel C s = Ok (h, t)) /\
                plays h (fst (staircase s)) = true /\ Qeq_bool t (snd (staircase s)) = true.
Proof.
  intros C s HW HK. destruct (translator_returns C s HW) as (prog & cs & EB & ET).
  destruct prog as [|x prog].
  - assert (HP : forall fuel, pipeline fuel C s = Ok ([], 0%Q)) by (intros fuel; unfold pipeline; rewrite EB; reflexivity).
    exists 0%nat, [], 0%Q. split; [intros fuel _; apply HP|].
    apply (staircase_full C s 1%positive [] 0%Q HW HK (HP 1%positive)).
  - destruct (pipeline_runs_if_translated C s (x :: prog) cs HW HK EB ET) as (n & h & t & Hrun & Hpl).
    exists n, h, t. split; [|exact Hpl]. intros fuel Hle. unfold pipeline. rewrite EB. cbn [bind]. rewrite ET. cbn [bind].
    rewrite run_vm_binary_unary. apply Hrun. exact Hle.
Qed.

(* non-vacuous: the witness source satisfies both hypotheses (its pipeline output has 21 steps, staircase_full_nonvacuous) *)
Lemma pipeline_total_nonvacuous : src_wf 2 wit_good = true /\ guard_C17_key_collision wit_good = true.
Proof. split; vm_compute; reflexivity. Qed.

(* the same for the function translated from the current source text: `to_increment_commands` of /repo returns a command list
   (raises nothing) on the node tree of every well-formed source *)
Theorem source_translator_returns : forall C s prog, src_wf C s = true -> build_program s = Ok prog ->
  exists cs, translate prog = Ok cs /\ gen_to_increment_commands (map embed_node prog) = Ok (map embed cs).
Proof.
  intros C s prog HW EB. destruct (translator_returns C s HW) as (prog' & cs & EB' & ET).
  assert (prog' = prog) by congruence. subst prog'. exists cs. split; [exact ET|].
  rewrite gen_to_increment_commands_eq, ET. reflexivity.
Qed.

(* TOTAL correctness on code translated from the source only (builder, to_increment_commands, LinSpaceVM.__init__ / set_commands / run;
   by hand: `drive`, `to_src`): for every named source whose positional reading is well formed and free of key collisions, either the
   builder returns no program (nothing to play), or every stage returns -- in particular set_commands, whose assertion on repeated
   labels cannot fire (ProofsLabels.translate_labels_nodup) -- and run() halts for every fuel above a bound with ONE history, the
   staircase of the source. *)
Theorem source_pipeline_total : forall C ns,
  src_wf C (to_src [] ns) = true -> guard_C17_key_collision (to_src [] ns) = true ->
  (exists b, drive ns gen_builder_init = Ok b /\ gen_to_program b = Ok None) \/
  exists b prog gcs g0 n h t,
    drive ns gen_builder_init = Ok b /\ gen_to_program b = Ok (Some prog) /\
    gen_to_increment_commands prog = Ok gcs /\ gen_set_commands (gen_vm_init C) gcs = Ok g0 /\
    (forall fuel, (n <= fuel)%nat -> exists g', gen_run fuel g0 = Some (Ok g') /\ gvm_history g' = h /\ gvm_time g' = t) /\
    plays h (fst (staircase (to_src [] ns))) = true /\ Qeq_bool t (snd (staircase (to_src [] ns))) = true.
Proof.
  intros C ns HW HK. pose proof (builder_program_eq ns) as H.
  destruct (build_program (to_src [] ns)) as [nodes|e] eqn:Eb; [|contradiction].
  destruct H as (b & Hd & Hp). destruct nodes as [|n0 nodes]; [left; exists b; split; assumption|right].
  destruct (source_translator_returns C _ _ HW Eb) as (cs & ET & EG).
  destruct (pipeline_runs_if_translated C _ _ cs HW HK Eb ET) as (n & h & t & Hrun & Hpl).
  destruct (gen_set_commands_ok C cs (translate_labels_nodup _ _ ET)) as [g0 Hset].
  exists b, (map embed_node (n0 :: nodes)), (map embed cs), g0, n, h, t.
  split; [exact Hd|]. split; [exact Hp|]. split; [exact EG|]. split; [rewrite gen_vm_init_eq; exact Hset|]. split; [|exact Hpl].
  intros fuel Hle. specialize (Hrun fuel Hle). unfold run_vm_n in Hrun.
  pose proof (gen_run_refines cs fuel _ _ (gen_set_commands_init C cs g0 Hset)) as Hr.
  destruct (vm_run_n fuel cs (vm0 C)) as [s'|s'|e']; cbn [vm_result] in Hrun; try discriminate Hrun.
  cbn [run_refines] in Hr. destruct Hr as (g' & Hg' & R). exists g'. rewrite gen_run_eq. split; [exact Hg'|].
  rewrite (R_hist _ _ _ R), (R_time _ _ _ R). inversion Hrun; subst. split; reflexivity.
Qed.
