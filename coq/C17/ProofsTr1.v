(* C17 — translator-only facts: what a translated node list leaves in the translator state (write summary),
   label ranges of the emitted commands. *)
From Coq Require Import ZArith QArith List Bool Lia ZifyBool.
Require Import QV.C17.Model QV.C17.Spec QV.C17.Proofs QV.C17.ProofsVM QV.C17.SimDefs.
Import ListNotations.
Local Open Scope Z_scope.

(* induction principle for the nested type *)
Section node_ind2.
  Variable P : node -> Prop.
  Hypothesis Hh : forall vs dur, P (NHold vs dur).
  Hypothesis Hr : forall body c, Forall P body -> P (NRepeat body c).
  Hypothesis Hi : forall body len, Forall P body -> P (NIter body len).
  Fixpoint node_ind2 (n : node) : P n :=
    match n with
    | NHold vs dur => Hh vs dur
    | NRepeat body c =>
        Hr body c ((fix go (l : list node) : Forall P l :=
                      match l with [] => Forall_nil P | x :: l' => Forall_cons x (node_ind2 x) (go l') end) body)
    | NIter body len =>
        Hi body len ((fix go (l : list node) : Forall P l :=
                        match l with [] => Forall_nil P | x :: l' => Forall_cons x (node_ind2 x) (go l') end) body)
    end.
End node_ind2.

(* unfolding equations *)
Lemma tr_node_hold : forall vs dur st,
  tr_node (NHold vs dur) st = (let? '(cs, st1) := tr_hold_chs 0 vs st in Ok (cs ++ [CWait dur], st1)).
Proof. reflexivity. Qed.

Lemma tr_node_iter : forall body len st,
  tr_node (NIter body len) st =
  (let its := t_iters st in
   let? '(cs1, st1) := tr_nodes body (with_iters st (its ++ [0])) in
   if 1 <? len then
     let idx := t_label st1 in
     let? '(cs2, st2) := tr_nodes body (mkT (idx + 1) (its ++ [len - 1]) (t_active st1) (t_deps st1) (t_plain st1) (t_stable st1)) in
     Ok (cs1 ++ CLabel idx (len - 1) :: cs2 ++ [CJmp idx], with_iters st2 its)
   else Ok (cs1, with_iters st1 its)).
Proof. reflexivity. Qed.

Lemma tr_node_rep : forall body count st,
  tr_node (NRepeat body count) st =
  (let ds := node_deps (NRepeat body count) in
   let pre := get_dependency_state st ds in
   let idx := t_label st in
   let? '(cs1, st1) := tr_nodes body (with_label st (idx + 1)) in
   let post := get_dependency_state st1 ds in
   if set_eqb pre post && entry_unchanged st st1 then
     Ok (CLabel idx count :: cs1 ++ [CJmp idx], st1)
   else
     if 0 <? count - 1 then
       let? '(cs2, st2) := tr_nodes body st1 in
       Ok (cs1 ++ CLabel idx (count - 1) :: cs2 ++ [CJmp idx], st2)
     else Ok (cs1, st1)).
Proof. reflexivity. Qed.

Lemma tr_nodes_cons : forall x l st,
  tr_nodes (x :: l) st = (let? '(c1, st1) := tr_node x st in let? '(c2, st2) := tr_nodes l st1 in Ok (c1 ++ c2, st2)).
Proof. reflexivity. Qed.

Lemma last_node_rep {A} (fh : list hvolt -> option A) up : forall body c,
  last_node fh up (NRepeat body c) = last_list fh up body.
Proof. reflexivity. Qed.
Lemma last_node_iter {A} (fh : list hvolt -> option A) up : forall body len,
  last_node fh up (NIter body len) = option_map (up len) (last_list fh up body).
Proof. reflexivity. Qed.

(* views of the translator maps *)
Definition act (st : tstate) (ch : nat) := alookup Nat.eqb ch (t_active st).
Definition pl (st : tstate) (ch : nat) := alookup Nat.eqb ch (t_plain st).
Definition dp (st : tstate) (ck : nat * key) := alookup ck_eqb ck (t_deps st).

Definition oqeq (a b : option Q) : Prop :=
  match a, b with Some x, Some y => (x == y)%Q | None, None => True | _, _ => False end.
Lemma oqeq_refl : forall a, oqeq a a.
Proof. destruct a; cbn; auto. reflexivity. Qed.
Lemma oqeq_trans : forall a b c, oqeq a b -> oqeq b c -> oqeq a c.
Proof. destruct a, b, c; cbn; intros; try contradiction; auto. etransitivity; eauto. Qed.
Lemma oqeq_sym : forall a b, oqeq a b -> oqeq b a.
Proof. destruct a, b; cbn; intros; auto. now symmetry. Qed.
Lemma oqeq_orlast : forall a a' b, oqeq a a' -> oqeq (orlast a b) (orlast a' b).
Proof. intros a a' [x|]; cbn; auto. intros; reflexivity. Qed.

Definition addits (its : list Z) (o : option (Q * list Z)) : option depstate :=
  option_map (fun bs => (fst bs, its ++ snd bs)) o.

Definition Summ (fA : nat -> option key) (fP : nat -> option Q) (fD : nat * key -> option (Q * list Z)) (st st' : tstate) : Prop :=
  (forall ch, act st' ch = orlast (act st ch) (fA ch)) /\
  (forall ch, oqeq (pl st' ch) (orlast (pl st ch) (fP ch))) /\
  (forall ck, dp st' ck = orlast (dp st ck) (addits (t_iters st) (fD ck))) /\
  t_iters st' = t_iters st /\ t_label st <= t_label st'.

Lemma orlast_assoc {A} : forall a b c : option A, orlast (orlast a b) c = orlast a (orlast b c).
Proof. intros a b [x|]; reflexivity. Qed.
Lemma addits_orlast : forall its a b, addits its (orlast a b) = orlast (addits its a) (addits its b).
Proof. intros its a [x|]; reflexivity. Qed.

Lemma Summ_trans : forall fA fP fD gA gP gD st st1 st2,
  Summ fA fP fD st st1 -> Summ gA gP gD st1 st2 ->
  Summ (fun ch => orlast (fA ch) (gA ch)) (fun ch => orlast (fP ch) (gP ch)) (fun ck => orlast (fD ck) (gD ck)) st st2.
Proof.
  intros fA fP fD gA gP gD st st1 st2 (A1 & P1 & D1 & I1 & L1) (A2 & P2 & D2 & I2 & L2).
  repeat split.
  - intros ch. rewrite A2, A1. apply orlast_assoc.
  - intros ch. eapply oqeq_trans; [apply P2|]. rewrite <- orlast_assoc. apply oqeq_orlast. apply P1.
  - intros ck. rewrite D2, D1, I1, addits_orlast. apply orlast_assoc.
  - congruence.
  - lia.
Qed.

(* nth with an offset, as tr_hold_chs walks the channels *)
Fixpoint nth_off (c0 : nat) (vs : list hvolt) (ch : nat) : option hvolt :=
  match vs with
  | [] => None
  | x :: r => if Nat.eqb ch c0 then Some x else nth_off (S c0) r ch
  end.
Lemma nth_off_lt : forall vs c0 ch, (ch < c0)%nat -> nth_off c0 vs ch = None.
Proof.
  induction vs as [|x vs IH]; intros c0 ch H; cbn; auto.
  assert (E : Nat.eqb ch c0 = false) by (apply Nat.eqb_neq; lia). rewrite E. apply IH. lia.
Qed.
Lemma nth_off_add : forall vs c0 j, nth_off c0 vs (c0 + j) = nth_error vs j.
Proof.
  induction vs as [|x vs IH]; intros c0 j; cbn; [destruct j; reflexivity|].
  destruct j; cbn.
  - rewrite Nat.add_0_r, Nat.eqb_refl. reflexivity.
  - assert (E : Nat.eqb (c0 + S j) c0 = false) by (apply Nat.eqb_neq; lia). rewrite E.
    replace (c0 + S j)%nat with (S c0 + j)%nat by lia. apply IH.
Qed.
Lemma nth_off_0 : forall vs ch, nth_off 0 vs ch = nth_error vs ch.
Proof. intros. apply (nth_off_add vs 0%nat ch). Qed.

Definition sel_act (o : option hvolt) : option key :=
  match o with Some (_, None) => Some [] | Some (_, Some fs) => Some (mk_key fs) | None => None end.
Definition sel_plain (o : option hvolt) : option Q :=
  match o with
  | Some (b, None) => Some b
  | Some (b, Some fs) => if key_eqb (mk_key fs) [] then Some b else None
  | None => None
  end.
Definition sel_dep (k : key) (o : option hvolt) : option (Q * list Z) :=
  match o with
  | Some (b, Some fs) => if key_eqb (mk_key fs) [] then None else if key_eqb (mk_key fs) k then Some (b, []) else None
  | _ => None
  end.

(* single channel steps *)
Lemma set_voltage_summ : forall ch value st c1 st1, tr_set_voltage ch value st = (c1, st1) ->
  (forall c, act st1 c = if Nat.eqb c ch then Some [] else act st c) /\
  (forall c, oqeq (pl st1 c) (if Nat.eqb c ch then Some value else pl st c)) /\
  t_deps st1 = t_deps st /\ t_iters st1 = t_iters st /\ t_label st1 = t_label st.
Proof.
  intros ch value st c1 st1 H. unfold tr_set_voltage in H.
  destruct (negb (opt_key_is (alookup Nat.eqb ch (t_active st)) []) || negb (opt_q_is (alookup Nat.eqb ch (t_plain st)) value)) eqn:E;
    injection H as <- <-.
  - unfold act, pl; cbn. repeat split; auto.
    + intros c. destruct (Nat.eqb c ch) eqn:Ec.
      * apply Nat.eqb_eq in Ec. subst. apply (alookup_aset_same Nat.eqb Neqb_spec).
      * apply (alookup_aset_other Nat.eqb Neqb_spec). apply Nat.eqb_neq in Ec. congruence.
    + intros c. destruct (Nat.eqb c ch) eqn:Ec.
      * apply Nat.eqb_eq in Ec. subst. rewrite (alookup_aset_same Nat.eqb Neqb_spec). cbn. reflexivity.
      * rewrite (alookup_aset_other Nat.eqb Neqb_spec); [apply oqeq_refl|]. apply Nat.eqb_neq in Ec. congruence.
  - apply orb_false_elim in E as [E1 E2]. apply negb_false_iff in E1, E2.
    repeat split; auto.
    + intros c. destruct (Nat.eqb c ch) eqn:Ec; auto. apply Nat.eqb_eq in Ec. subst. unfold act.
      destruct (alookup Nat.eqb ch (t_active st)) as [k|]; cbn in E1; [|discriminate].
      apply key_eqb_spec in E1. now subst.
    + intros c. destruct (Nat.eqb c ch) eqn:Ec; [|apply oqeq_refl]. apply Nat.eqb_eq in Ec. subst. unfold pl.
      destruct (alookup Nat.eqb ch (t_plain st)) as [v|]; cbn in E2; [|discriminate].
      cbn. now apply Qeq_bool_iff.
Qed.

Lemma set_indexed_summ : forall ch b fs st c1 st1, tr_set_indexed_nz ch b fs st = Ok (c1, st1) ->
  (forall c, act st1 c = if Nat.eqb c ch then Some (mk_key fs) else act st c) /\
  t_plain st1 = t_plain st /\
  (forall ck, dp st1 ck = if ck_eqb ck (ch, mk_key fs) then Some (b, t_iters st) else dp st ck) /\
  t_iters st1 = t_iters st /\ t_label st1 = t_label st.
Proof.
  intros ch b fs st c1 st1 H. unfold tr_set_indexed_nz in H.
  assert (G : forall cs, Ok (cs, mkT (t_label st) (t_iters st) (aset Nat.eqb ch (mk_key fs) (t_active st))
                               (aset ck_eqb (ch, mk_key fs) (b, t_iters st) (t_deps st)) (t_plain st) (t_stable st)) = Ok (c1, st1) ->
    (forall c, act st1 c = if Nat.eqb c ch then Some (mk_key fs) else act st c) /\
    t_plain st1 = t_plain st /\
    (forall ck, dp st1 ck = if ck_eqb ck (ch, mk_key fs) then Some (b, t_iters st) else dp st ck) /\
    t_iters st1 = t_iters st /\ t_label st1 = t_label st).
  { intros cs E. inversion E; subst; clear E. unfold act, dp; cbn. repeat split; auto.
    - intros c. destruct (Nat.eqb c ch) eqn:Ec.
      + apply Nat.eqb_eq in Ec. subst. apply (alookup_aset_same Nat.eqb Neqb_spec).
      + apply (alookup_aset_other Nat.eqb Neqb_spec). apply Nat.eqb_neq in Ec. congruence.
    - intros ck. destruct (ck_eqb ck (ch, mk_key fs)) eqn:Ec.
      + apply ck_eqb_spec in Ec. subst. apply (alookup_aset_same ck_eqb ck_eqb_spec).
      + apply (alookup_aset_other ck_eqb ck_eqb_spec). intros E'. subst ck.
        assert (X : ck_eqb (ch, mk_key fs) (ch, mk_key fs) = true) by now apply ck_eqb_spec. congruence. }
  destruct (alookup ck_eqb (ch, mk_key fs) (t_deps st)) as [prev|].
  - destruct (required_increment_from (b, t_iters st) prev fs) as [inc|]; cbn in H; [|discriminate]. eapply G; eauto.
  - destruct (forallb (fun it => it =? 0) (t_iters st)); [|discriminate]. eapply G; eauto.
Qed.

Lemma hold_summ : forall vs c0 st cs st', tr_hold_chs c0 vs st = Ok (cs, st') ->
  Summ (fun ch => sel_act (nth_off c0 vs ch)) (fun ch => sel_plain (nth_off c0 vs ch))
       (fun ck => sel_dep (snd ck) (nth_off c0 vs (fst ck))) st st' /\ t_label st' = t_label st /\ labels cs = [].
Proof.
  induction vs as [|[b [fs|]] vs IH]; intros c0 st cs st' H; cbn [tr_hold_chs] in H.
  - inversion H; subst. split; [|auto]. repeat split; cbn; auto; try lia. intros; apply oqeq_refl.
  - unfold tr_set_indexed in H. destruct (key_eqb (mk_key fs) []) eqn:Ez.
    { (* all factors zero: the plain path *)
      cbn [bind] in H. destruct (tr_set_voltage c0 b st) as [c1 st1] eqn:E1.
      destruct (tr_hold_chs (S c0) vs st1) as [[c2 st2]|] eqn:E2; cbn in H; [|discriminate]. inversion H; subst; clear H.
      destruct (set_voltage_summ _ _ _ _ _ E1) as (A1 & P1 & D1 & I1 & L1).
      destruct (IH _ _ _ _ E2) as ((A2 & P2 & D2 & I2 & L2) & L2' & Lb2).
      assert (Lc1 : labels c1 = []).
      { unfold tr_set_voltage in E1.
        destruct (negb (opt_key_is (alookup Nat.eqb c0 (t_active st)) []) || negb (opt_q_is (alookup Nat.eqb c0 (t_plain st)) b));
          inversion E1; reflexivity. }
      pose proof Ez as Ez'. apply key_eqb_spec in Ez'.
      split; [|split; [congruence|rewrite labels_app, Lc1, Lb2; reflexivity]].
      repeat split; try congruence; try lia.
      + intros ch. rewrite A2, A1. cbn [nth_off]. destruct (Nat.eqb ch c0) eqn:Ec.
        * apply Nat.eqb_eq in Ec. subst. rewrite nth_off_lt by lia. cbn. rewrite Ez'. reflexivity.
        * reflexivity.
      + intros ch. eapply oqeq_trans; [apply P2|]. cbn [nth_off]. destruct (Nat.eqb ch c0) eqn:Ec.
        * apply Nat.eqb_eq in Ec. subst. rewrite nth_off_lt by lia. cbn. rewrite Ez. cbn.
          specialize (P1 c0). rewrite Nat.eqb_refl in P1. exact P1.
        * apply oqeq_orlast. specialize (P1 ch). now rewrite Ec in P1.
      + intros [c k]. rewrite D2. unfold dp. rewrite D1, I1. cbn [nth_off fst snd].
        destruct (Nat.eqb c c0) eqn:Ec.
        * apply Nat.eqb_eq in Ec. subst. rewrite nth_off_lt by lia. cbn. rewrite Ez. reflexivity.
        * reflexivity. }
    destruct (tr_set_indexed_nz c0 b fs st) as [[c1 st1]|] eqn:E1; cbn in H; [|discriminate].
    destruct (tr_hold_chs (S c0) vs st1) as [[c2 st2]|] eqn:E2; cbn in H; [|discriminate]. inversion H; subst; clear H.
    destruct (set_indexed_summ _ _ _ _ _ _ E1) as (A1 & P1 & D1 & I1 & L1).
    destruct (IH _ _ _ _ E2) as ((A2 & P2 & D2 & I2 & L2) & L2' & Lb2).
    assert (Lc1 : labels c1 = []).
    { unfold tr_set_indexed_nz in E1. destruct (alookup ck_eqb (c0, mk_key fs) (t_deps st)).
      - destruct (required_increment_from (b, t_iters st) d fs); cbn in E1; [|discriminate].
        inversion E1. destruct (negb (Qeq_bool a 0) || negb (opt_key_is (alookup Nat.eqb c0 (t_active st)) (mk_key fs))); reflexivity.
      - destruct (forallb (fun it => it =? 0) (t_iters st)); inversion E1; reflexivity. }
    split; [|split; [congruence|rewrite labels_app, Lc1, Lb2; reflexivity]].
    repeat split; try congruence; try lia.
    + intros ch. rewrite A2, A1. cbn [nth_off]. destruct (Nat.eqb ch c0) eqn:Ec.
      * apply Nat.eqb_eq in Ec. subst. rewrite nth_off_lt by lia. reflexivity.
      * reflexivity.
    + intros ch. eapply oqeq_trans; [apply P2|]. unfold pl. rewrite P1. cbn [nth_off]. destruct (Nat.eqb ch c0) eqn:Ec.
      * apply Nat.eqb_eq in Ec. subst. rewrite nth_off_lt by lia. cbn. rewrite Ez. cbn. apply oqeq_refl.
      * apply oqeq_refl.
    + intros [c k]. rewrite D2, D1, I1. cbn [nth_off fst snd]. unfold ck_eqb; cbn [fst snd].
      destruct (Nat.eqb c c0) eqn:Ec; cbn [andb].
      * apply Nat.eqb_eq in Ec. subst. rewrite nth_off_lt by lia. cbn. rewrite Ez.
        destruct (key_eqb k (mk_key fs)) eqn:Ek.
        -- apply key_eqb_spec in Ek. subst. assert (X : key_eqb (mk_key fs) (mk_key fs) = true) by now apply key_eqb_spec.
           rewrite X. cbn. now rewrite app_nil_r.
        -- destruct (key_eqb (mk_key fs) k) eqn:Ek2; [apply key_eqb_spec in Ek2; subst;
             assert (X : key_eqb (mk_key fs) (mk_key fs) = true) by (now apply key_eqb_spec); congruence|]. reflexivity.
      * reflexivity.
  - destruct (tr_set_voltage c0 b st) as [c1 st1] eqn:E1.
    destruct (tr_hold_chs (S c0) vs st1) as [[c2 st2]|] eqn:E2; cbn in H; [|discriminate]. inversion H; subst; clear H.
    destruct (set_voltage_summ _ _ _ _ _ E1) as (A1 & P1 & D1 & I1 & L1).
    destruct (IH _ _ _ _ E2) as ((A2 & P2 & D2 & I2 & L2) & L2' & Lb2).
    assert (Lc1 : labels c1 = []).
    { unfold tr_set_voltage in E1.
      destruct (negb (opt_key_is (alookup Nat.eqb c0 (t_active st)) []) || negb (opt_q_is (alookup Nat.eqb c0 (t_plain st)) b));
        inversion E1; reflexivity. }
    split; [|split; [congruence|rewrite labels_app, Lc1, Lb2; reflexivity]].
    repeat split; try congruence; try lia.
    + intros ch. rewrite A2, A1. cbn [nth_off]. destruct (Nat.eqb ch c0) eqn:Ec.
      * apply Nat.eqb_eq in Ec. subst. rewrite nth_off_lt by lia. reflexivity.
      * reflexivity.
    + intros ch. eapply oqeq_trans; [apply P2|]. cbn [nth_off]. destruct (Nat.eqb ch c0) eqn:Ec.
      * apply Nat.eqb_eq in Ec. subst. rewrite nth_off_lt by lia. cbn. specialize (P1 c0). rewrite Nat.eqb_refl in P1. exact P1.
      * apply oqeq_orlast. specialize (P1 ch). now rewrite Ec in P1.
    + intros [c k]. rewrite D2. unfold dp. rewrite D1, I1. cbn [nth_off fst snd].
      destruct (Nat.eqb c c0) eqn:Ec.
      * apply Nat.eqb_eq in Ec. subst. rewrite nth_off_lt by lia. reflexivity.
      * reflexivity.
Qed.
