(* C17 — flat-VM lemmas: reachability, straight-line steps inside a program, the loop lemma, determinism of halting. *)
From Coq Require Import ZArith QArith List Bool Lia ZifyBool.
Require Import QV.C17.Model QV.C17.Proofs.
Import ListNotations.
Local Open Scope Z_scope.

Definition reach (cmds : list cmd) (s s' : vm) : Prop := exists n, vm_run_n n cmds s = Running s'.

Lemma reach_refl : forall cmds s, reach cmds s s.
Proof. intros; exists 0%nat; reflexivity. Qed.

Lemma reach_trans : forall cmds a b c, reach cmds a b -> reach cmds b c -> reach cmds a c.
Proof.
  intros cmds a b c [n Hn] [m Hm]. exists (n + m)%nat. rewrite vm_run_n_add, Hn. exact Hm.
Qed.

Lemma reach_step : forall cmds s s', vm_step cmds s = Running s' -> reach cmds s s'.
Proof. intros cmds s s' H. exists 1%nat. cbn. rewrite H. reflexivity. Qed.

Lemma nth_error_mid {A} : forall (pre : list A) c post, nth_error (pre ++ c :: post) (length pre) = Some c.
Proof. induction pre; cbn; auto. Qed.

(* labels *)
Fixpoint labels (cs : list cmd) : list Z :=
  match cs with
  | [] => []
  | CLabel i _ :: r => i :: labels r
  | _ :: r => labels r
  end.

Lemma labels_app : forall a b, labels (a ++ b) = labels a ++ labels b.
Proof. induction a as [|c a IH]; intros b; cbn; auto. destruct c; cbn; rewrite ?IH; auto. Qed.

Lemma label_target_skip : forall pre rest idx p, ~ In idx (labels pre) ->
  label_target (pre ++ rest) idx p = label_target rest idx (p + length pre)%nat.
Proof.
  induction pre as [|c pre IH]; intros rest idx p H; cbn [app length].
  - now rewrite Nat.add_0_r.
  - replace (p + S (length pre))%nat with (S p + length pre)%nat by lia.
    destruct c; cbn in *; try (apply IH; auto).
    destruct (idx0 =? idx) eqn:E; [apply Z.eqb_eq in E; subst; tauto|]. apply IH. tauto.
Qed.

Lemma label_target_found : forall pre idx n rest, ~ In idx (labels pre) ->
  label_target (pre ++ CLabel idx n :: rest) idx 0 = Some (S (length pre)).
Proof. intros. rewrite label_target_skip by auto. cbn. now rewrite Z.eqb_refl. Qed.

(* single steps at position |pre| *)
Lemma step_wait : forall cmds pre d post s, cmds = pre ++ CWait d :: post -> v_pc s = length pre ->
  vm_step cmds s = Running (mkV (v_cur s) (v_time s + d)%Q (v_regs s) ((v_time s, v_cur s) :: v_hist s) (v_counts s) (S (length pre))).
Proof. intros cmds pre d post s -> H. unfold vm_step. rewrite H, nth_error_mid. reflexivity. Qed.

Lemma step_set : forall cmds pre ch v k post s cur, cmds = pre ++ CSet ch v k :: post -> v_pc s = length pre ->
  set_nth ch (Some v) (v_cur s) = Some cur ->
  vm_step cmds s = Running (mkV cur (v_time s) (aset ck_eqb (ch, k) v (v_regs s)) (v_hist s) (v_counts s) (S (length pre))).
Proof. intros cmds pre ch v k post s cur -> H E. unfold vm_step. rewrite H, nth_error_mid, E. reflexivity. Qed.

Lemma set_nth_some_lt {A} : forall i (x : A) l l', set_nth i x l = Some l' -> Nat.ltb i (length l) = true.
Proof.
  induction i as [|i IH]; intros x l l' H; destruct l as [|y l]; cbn in *; try discriminate; auto.
  destruct (set_nth i x l) eqn:E; [|discriminate]. apply (IH _ _ _ E).
Qed.

Lemma step_inc : forall cmds pre ch d k post s old cur, cmds = pre ++ CInc ch d k :: post -> v_pc s = length pre ->
  alookup ck_eqb (ch, k) (v_regs s) = Some old ->
  set_nth ch (Some (old + d)%Q) (v_cur s) = Some cur ->
  vm_step cmds s = Running (mkV cur (v_time s) (aset ck_eqb (ch, k) (old + d)%Q (v_regs s)) (v_hist s) (v_counts s) (S (length pre))).
Proof. intros cmds pre ch d k post s old cur -> H E1 E2. unfold vm_step. rewrite H, nth_error_mid, (set_nth_some_lt _ _ _ _ E2), E1, E2. reflexivity. Qed.

Lemma step_label : forall cmds pre idx n post s, cmds = pre ++ CLabel idx n :: post -> v_pc s = length pre ->
  vm_step cmds s = Running (mkV (v_cur s) (v_time s) (v_regs s) (v_hist s) (aset Z.eqb idx (n - 1) (v_counts s)) (S (length pre))).
Proof. intros cmds pre idx n post s -> H. unfold vm_step. rewrite H, nth_error_mid. reflexivity. Qed.

(* generic association-list facts *)
Section alist.
  Context {K V : Type} (eqb : K -> K -> bool).
  Hypothesis eqb_spec : forall a b, eqb a b = true <-> a = b.

  Lemma alookup_aset_same : forall k (v : V) l, alookup eqb k (aset eqb k v l) = Some v.
  Proof.
    intros k v l. assert (R : eqb k k = true) by now apply eqb_spec.
    induction l as [|[k' v'] l IH]; cbn; [now rewrite R|].
    destruct (eqb k k') eqn:E; cbn; [now rewrite R|]. now rewrite E.
  Qed.

  Lemma alookup_aset_other : forall k k' (v : V) l, k <> k' -> alookup eqb k' (aset eqb k v l) = alookup eqb k' l.
  Proof.
    intros k k' v l N. assert (R : eqb k' k = false).
    { destruct (eqb k' k) eqn:E; auto. apply eqb_spec in E. congruence. }
    induction l as [|[k2 v2] l IH]; cbn; [now rewrite R|].
    destruct (eqb k k2) eqn:E; cbn.
    - apply eqb_spec in E. subst k2. now rewrite R.
    - destruct (eqb k' k2); auto.
  Qed.
End alist.

Lemma Zeqb_spec : forall a b : Z, (a =? b) = true <-> a = b.
Proof. intros; apply Z.eqb_eq. Qed.
Lemma Neqb_spec : forall a b : nat, Nat.eqb a b = true <-> a = b.
Proof. intros; apply Nat.eqb_eq. Qed.
Lemma key_eqb_spec : forall a b, key_eqb a b = true <-> a = b.
Proof. intros a b. unfold key_eqb. destruct (list_eq_dec Z.eq_dec a b); split; intros; auto; discriminate. Qed.
Lemma ck_eqb_spec : forall a b, ck_eqb a b = true <-> a = b.
Proof.
  intros [c k] [c' k']. unfold ck_eqb; cbn. rewrite andb_true_iff, Nat.eqb_eq, key_eqb_spec.
  split; [intros [-> ->]; auto|intros H; inversion H; auto].
Qed.

(* a predicate that does not look at pc / counts *)
Definition ctl_insensitive (P : vm -> Prop) : Prop :=
  forall s c p, P s -> P (mkV (v_cur s) (v_time s) (v_regs s) (v_hist s) c p).

(* The loop lemma: pre ++ Label idx n :: body ++ Jmp idx :: post with n >= 1 runs the body n times. *)
Lemma loop_exec : forall cmds pre idx n body post (Pinv : nat -> vm -> Prop),
  cmds = pre ++ CLabel idx n :: body ++ CJmp idx :: post ->
  ~ In idx (labels pre) -> 1 <= n ->
  (forall k, ctl_insensitive (Pinv k)) ->
  (forall k s, (Z.of_nat k < n) -> v_pc s = S (length pre) -> Pinv k s ->
     exists s', reach cmds s s' /\ v_pc s' = (S (length pre) + length body)%nat /\ Pinv (S k) s' /\
                alookup Z.eqb idx (v_counts s') = alookup Z.eqb idx (v_counts s) /\
                (forall l, l < idx -> alookup Z.eqb l (v_counts s') = alookup Z.eqb l (v_counts s))) ->
  forall s, v_pc s = length pre -> Pinv 0%nat s ->
  exists s', reach cmds s s' /\ v_pc s' = (length pre + length body + 2)%nat /\ Pinv (Z.to_nat n) s' /\
             (forall l, l < idx -> alookup Z.eqb l (v_counts s') = alookup Z.eqb l (v_counts s)).
Proof.
  intros cmds pre idx n body post Pinv Hc Hni Hn Hins Hbody s Hpc H0.
  assert (Hjmp : nth_error cmds (S (length pre) + length body) = Some (CJmp idx)).
  { rewrite Hc. replace (pre ++ CLabel idx n :: body ++ CJmp idx :: post)
      with ((pre ++ CLabel idx n :: body) ++ CJmp idx :: post) by (rewrite <- app_assoc; reflexivity).
    replace (S (length pre) + length body)%nat with (length (pre ++ CLabel idx n :: body)).
    - apply nth_error_mid.
    - rewrite app_length. cbn. lia. }
  assert (Htgt : label_target cmds idx 0 = Some (S (length pre))) by (rewrite Hc; apply label_target_found; auto).
  (* after the label *)
  set (s1 := mkV (v_cur s) (v_time s) (v_regs s) (v_hist s) (aset Z.eqb idx (n - 1) (v_counts s)) (S (length pre))).
  assert (R1 : reach cmds s s1) by (apply reach_step; eapply step_label; eauto).
  assert (Hgen : forall m k s2, (k + m + 1 = Z.to_nat n)%nat -> v_pc s2 = S (length pre) ->
            alookup Z.eqb idx (v_counts s2) = Some (Z.of_nat m) -> Pinv k s2 ->
            exists s', reach cmds s2 s' /\ v_pc s' = (length pre + length body + 2)%nat /\ Pinv (Z.to_nat n) s' /\
                       (forall l, l < idx -> alookup Z.eqb l (v_counts s') = alookup Z.eqb l (v_counts s2))).
  { induction m as [|m IH]; intros k s2 Hk Hpc2 Hcnt HP.
    - destruct (Hbody k s2) as (s3 & R3 & Hpc3 & HP3 & Hc3 & Hl3); auto; [lia|].
      assert (St : vm_step cmds s3 = Running (mkV (v_cur s3) (v_time s3) (v_regs s3) (v_hist s3) (v_counts s3) (S (v_pc s3)))).
      { unfold vm_step. rewrite Hpc3, Hjmp, Hc3, Hcnt. reflexivity. }
      eexists. split; [eapply reach_trans; [exact R3|apply reach_step; exact St]|].
      split; [cbn; lia|]. split.
      + replace (Z.to_nat n) with (S k) by lia. apply Hins. exact HP3.
      + cbn. exact Hl3.
    - destruct (Hbody k s2) as (s3 & R3 & Hpc3 & HP3 & Hc3 & Hl3); auto; [lia|].
      assert (St : vm_step cmds s3 = Running (mkV (v_cur s3) (v_time s3) (v_regs s3) (v_hist s3)
                                                  (aset Z.eqb idx (Z.of_nat (S m) - 1) (v_counts s3)) (S (length pre)))).
      { unfold vm_step. rewrite Hpc3, Hjmp, Hc3, Hcnt.
        assert (E : (0 <? Z.of_nat (S m)) = true) by (apply Z.ltb_lt; lia). rewrite E, Htgt. reflexivity. }
      destruct (IH (S k) (mkV (v_cur s3) (v_time s3) (v_regs s3) (v_hist s3)
                              (aset Z.eqb idx (Z.of_nat (S m) - 1) (v_counts s3)) (S (length pre))))
        as (s4 & R4 & Hpc4 & HP4 & Hl4); try (cbn; auto; lia).
      + cbn [v_counts]. rewrite (alookup_aset_same Z.eqb Zeqb_spec). f_equal. lia.
      + apply Hins. exact HP3.
      + exists s4. split; [eapply reach_trans; [exact R3|eapply reach_trans; [apply reach_step; exact St|exact R4]]|].
        split; auto. split; auto. intros l Hl. rewrite Hl4 by auto. cbn.
        rewrite (alookup_aset_other Z.eqb Zeqb_spec) by lia. apply Hl3; auto. }
  destruct (Hgen (Z.to_nat n - 1)%nat 0%nat s1) as (s' & R' & Hpc' & HP' & Hl'); try (cbn; auto; lia).
  - cbn [v_counts s1]. unfold s1; cbn [v_counts]. rewrite (alookup_aset_same Z.eqb Zeqb_spec). f_equal. lia.
  - apply (Hins 0%nat s). exact H0.
  - exists s'. split; [eapply reach_trans; eauto|]. split; auto. split; auto.
    intros l Hl. rewrite Hl' by auto. cbn. apply (alookup_aset_other Z.eqb Zeqb_spec). lia.
Qed.

(* halting is deterministic: if the machine reaches a state with pc at the end, any sufficient fuel returns that state *)
Lemma run_halts_unique : forall cmds s s' fuel r,
  reach cmds s s' -> v_pc s' = length cmds -> vm_run_n fuel cmds s = Halted r -> r = s'.
Proof.
  intros cmds s s' fuel r [n Hn] Hpc Hf.
  assert (Hh : vm_step cmds s' = Halted s').
  { unfold vm_step. rewrite Hpc. replace (nth_error cmds (length cmds)) with (@None cmd); auto.
    symmetry. apply nth_error_None. lia. }
  destruct (Nat.le_gt_cases fuel n) as [Hle|Hgt].
  - replace n with (fuel + (n - fuel))%nat in Hn by lia. rewrite vm_run_n_add, Hf in Hn. discriminate.
  - replace fuel with (n + S (fuel - n - 1))%nat in Hf by lia. rewrite vm_run_n_add, Hn in Hf.
    cbn in Hf. rewrite Hh in Hf. congruence.
Qed.
