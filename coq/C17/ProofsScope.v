(* C17 — under the guard the builder sees the template's own affine forms. *)
From Coq Require Import ZArith QArith List Bool.
Require Import QV.C17.Model QV.C17.Spec QV.C17.Scope.
Import ListNotations.

Section src2_ind2.
  Variable P : src2 -> Prop.
  Hypothesis Hh : forall dur vs, P (S2Hold dur vs).
  Hypothesis Hs : forall l, Forall P l -> P (S2Seq l).
  Hypothesis Hr : forall c b, P b -> P (S2Rep c b).
  Hypothesis Hi : forall a b c body, P body -> P (S2Iter a b c body).
  Hypothesis Hm : forall l s o body, P body -> P (S2Remap l s o body).
  Fixpoint src2_ind2 (s : src2) : P s :=
    match s with
    | S2Hold dur vs => Hh dur vs
    | S2Seq l => Hs l ((fix go (l : list src2) : Forall P l :=
                          match l with [] => Forall_nil P | x :: l' => Forall_cons x (src2_ind2 x) (go l') end) l)
    | S2Rep c b => Hr c b (src2_ind2 b)
    | S2Iter a b c body => Hi a b c body (src2_ind2 body)
    | S2Remap l s o body => Hm l s o body (src2_ind2 body)
    end.
End src2_ind2.

Lemma flatten_agree : forall s depth subst, flatten true depth subst s = flatten false depth subst s.
Proof.
  induction s as [dur vs|l IHl|c b IHb|a b c body IHb|lv sc sh body IHb] using src2_ind2; intros depth subst.
  - reflexivity.
  - cbn [flatten]. f_equal. induction IHl as [|x l Hx Hl IH]; [reflexivity|]. rewrite (Hx depth subst). f_equal. apply IH.
  - cbn [flatten]. f_equal. apply IHb.
  - cbn [flatten]. f_equal. apply IHb.
  - cbn [flatten]. apply IHb.
Qed.

Lemma scope_agree : forall s, src_of_impl s = src_of_spec s.
Proof. intros s. apply (flatten_agree s 0%nat []). Qed.

(* for i in range(0,3): (i := i + 1) (2 x hold(i/4)): witness of the former finding, plays its staircase since the repair *)
Definition wit_rebind : src2 :=
  S2Iter 0 3 1 (S2Remap 0 1 1 (S2Rep 2 (S2Hold 1 [VAff 0 [1 # 4]]))).

Lemma rebind_repaired :
  exists h t, pipeline 200 1 (src_of_impl wit_rebind) = Ok (h, t) /\ plays h (fst (staircase (src_of_spec wit_rebind))) = true.
Proof. eexists; eexists. split; vm_compute; reflexivity. Qed.
