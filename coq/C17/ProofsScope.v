(* C17 — under the guard the builder sees the template's own affine forms. *)
From Coq Require Import ZArith QArith List Bool.
Require Import QV.C17.Model QV.C17.Spec QV.C17.Scope.
Import ListNotations.

Section src2_ind2.
  Variable P : src2 -> Prop.
  Hypothesis Hh : forall dur vs, P (S2Hold dur vs).
  Hypothesis Hs : forall l, Forall P l -> P (S2Seq l).
  Hypothesis Hr : forall c b, P b -> P (S2Rep c b).
  Hypothesis Hi : forall a b c body, P body -> P (S2Iter a b c body).
  Hypothesis Hm : forall l s o body, P body -> P (S2Remap l s o body).
  Fixpoint src2_ind2 (s : src2) : P s :=
    match s with
    | S2Hold dur vs => Hh dur vs
    | S2Seq l => Hs l ((fix go (l : list src2) : Forall P l :=
                          match l with [] => Forall_nil P | x :: l' => Forall_cons x (src2_ind2 x) (go l') end) l)
    | S2Rep c b => Hr c b (src2_ind2 b)
    | S2Iter a b c body => Hi a b c body (src2_ind2 body)
    | S2Remap l s o body => Hm l s o body (src2_ind2 body)
    end.
End src2_ind2.

Lemma drop_innermost_id : forall depth subst,
  forallb (fun lv => negb (Nat.eqb (S lv) depth)) (map fst subst) = true -> drop_innermost depth subst = subst.
Proof.
  unfold drop_innermost. induction subst as [|r subst IH]; intros H; cbn in *; auto.
  apply andb_prop in H as [H1 H2]. rewrite H1. now rewrite IH.
Qed.

Lemma flatten_agree : forall s depth subst,
  guard_C17_index_rebinding depth (map fst subst) s = true -> flatten true depth subst s = flatten false depth subst s.
Proof.
  induction s as [dur vs|l IHl|c b IHb|a b c body IHb|lv sc sh body IHb] using src2_ind2; intros depth subst H.
  - reflexivity.
  - cbn [flatten]. f_equal. cbn in H. induction IHl as [|x l Hx Hl IH]; [reflexivity|].
    apply andb_prop in H as [H1 H2]. rewrite (Hx _ _ H1). f_equal. apply IH. exact H2.
  - cbn in H. apply andb_prop in H as [H1 H2]. cbn [flatten]. rewrite drop_innermost_id by exact H1. f_equal. apply IHb. exact H2.
  - cbn in H. cbn [flatten]. f_equal. apply IHb. exact H.
  - cbn in H. cbn [flatten]. apply (IHb depth ((lv, (sc, sh)) :: subst)). exact H.
Qed.

Lemma scope_agree : forall s, guard_C17_index_rebinding 0 [] s = true -> src_of_impl s = src_of_spec s.
Proof. intros s H. apply (flatten_agree s 0%nat []). exact H. Qed.

(* for i in range(0,3): (i := i + 1) (2 x hold(i/4)) : the builder evaluates the repeated hold at the raw index *)
Definition wit_rebind : src2 :=
  S2Iter 0 3 1 (S2Remap 0 1 1 (S2Rep 2 (S2Hold 1 [VAff 0 [1 # 4]]))).

Lemma rebind_refuted :
  guard_C17_index_rebinding 0 [] wit_rebind = false /\
  exists h t, pipeline 200 1 (src_of_impl wit_rebind) = Ok (h, t) /\ plays h (fst (staircase (src_of_spec wit_rebind))) = false.
Proof. split; [reflexivity|]. eexists; eexists. split; vm_compute; reflexivity. Qed.
