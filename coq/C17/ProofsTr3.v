(* C17 — the ghost flag t_stable only ever goes from true to false. *)
From Coq Require Import ZArith QArith List Bool Lia ZifyBool.
Require Import QV.C17.Model QV.C17.Spec QV.C17.Proofs QV.C17.ProofsVM QV.C17.SimDefs QV.C17.ProofsTr1.
Import ListNotations.
Local Open Scope Z_scope.

Lemma set_voltage_stable : forall ch v st c1 st1, tr_set_voltage ch v st = (c1, st1) -> t_stable st1 = t_stable st.
Proof.
  intros ch v st c1 st1 H. unfold tr_set_voltage in H.
  destruct (negb (opt_key_is (alookup Nat.eqb ch (t_active st)) []) || negb (opt_q_is (alookup Nat.eqb ch (t_plain st)) v));
    injection H as <- <-; reflexivity.
Qed.

Lemma set_indexed_stable : forall ch b fs st c1 st1, tr_set_indexed ch b fs st = Ok (c1, st1) -> t_stable st1 = t_stable st.
Proof.
  intros ch b fs st c1 st1 H. unfold tr_set_indexed in H. destruct (key_eqb (mk_key fs) []).
  - inversion H as [H']. eapply set_voltage_stable; eauto.
  - unfold tr_set_indexed_nz in H. destruct (alookup ck_eqb (ch, mk_key fs) (t_deps st)) as [prev|].
    + destruct (required_increment_from (b, t_iters st) prev fs) as [inc|]; cbn in H; [|discriminate]. inversion H; reflexivity.
    + destruct (forallb (fun it => it =? 0) (t_iters st)); [|discriminate]. inversion H; reflexivity.
Qed.

Lemma hold_stable : forall vs c0 st cs st', tr_hold_chs c0 vs st = Ok (cs, st') -> t_stable st' = t_stable st.
Proof.
  induction vs as [|[b [fs|]] vs IH]; intros c0 st cs st' H; cbn [tr_hold_chs] in H.
  - inversion H; reflexivity.
  - destruct (tr_set_indexed c0 b fs st) as [[c1 st1]|] eqn:E1; cbn in H; [|discriminate].
    destruct (tr_hold_chs (S c0) vs st1) as [[c2 st2]|] eqn:E2; cbn in H; [|discriminate]. inversion H; subst.
    rewrite (IH _ _ _ _ E2). eapply set_indexed_stable; eauto.
  - destruct (tr_set_voltage c0 b st) as [c1 st1] eqn:E1.
    destruct (tr_hold_chs (S c0) vs st1) as [[c2 st2]|] eqn:E2; cbn in H; [|discriminate]. inversion H; subst.
    rewrite (IH _ _ _ _ E2). eapply set_voltage_stable; eauto.
Qed.

Definition mono_stmt (n : node) : Prop :=
  forall st cs st', tr_node n st = Ok (cs, st') -> t_stable st' = t_stable st.

Lemma mono_list_of : forall B, Forall mono_stmt B ->
  forall st cs st', tr_nodes B st = Ok (cs, st') -> t_stable st' = t_stable st.
Proof.
  induction 1 as [|x B Hx HB IH]; intros st cs st' H.
  - cbn in H. inversion H; subst; auto.
  - rewrite tr_nodes_cons in H.
    destruct (tr_node x st) as [[c1 st1]|] eqn:E1; cbn in H; [|discriminate].
    destruct (tr_nodes B st1) as [[c2 st2]|] eqn:E2; cbn in H; [|discriminate]. inversion H; subst.
    rewrite (IH _ _ _ E2). eauto.
Qed.

Lemma mono_node : forall n, mono_stmt n.
Proof.
  induction n as [vs dur|body c IHb|body len IHb] using node_ind2; intros st cs st' H.
  - rewrite tr_node_hold in H. destruct (tr_hold_chs 0 vs st) as [[c1 st1]|] eqn:E; cbn in H; [|discriminate].
    inversion H; subst. apply (hold_stable _ _ _ _ _ E).
  - pose proof (mono_list_of body IHb) as HL. rewrite tr_node_rep in H. cbv zeta in H.
    destruct (tr_nodes body (with_label st (t_label st + 1))) as [[cs1 st1]|] eqn:E1; cbn [bind] in H; [|discriminate].
    destruct (set_eqb _ _ && entry_unchanged _ _).
    + inversion H; subst. apply (HL _ _ _ E1).
    + destruct (0 <? c - 1).
      * destruct (tr_nodes body st1) as [[cs2 st2]|] eqn:E2; cbn [bind] in H; [|discriminate]. inversion H; subst.
        rewrite (HL _ _ _ E2). apply (HL _ _ _ E1).
      * inversion H; subst. apply (HL _ _ _ E1).
  - pose proof (mono_list_of body IHb) as HL. rewrite tr_node_iter in H. cbv zeta in H.
    destruct (tr_nodes body (with_iters st (t_iters st ++ [0]))) as [[cs1 st1]|] eqn:E1; cbn [bind] in H; [|discriminate].
    destruct (1 <? len).
    + match type of H with context [tr_nodes body ?s] => destruct (tr_nodes body s) as [[cs2 st2]|] eqn:E2 end; cbn [bind] in H; [|discriminate].
      inversion H; subst. cbn. rewrite (HL _ _ _ E2). cbn. apply (HL _ _ _ E1).
    + inversion H; subst. cbn. apply (HL _ _ _ E1).
Qed.

Lemma stable_nodes : forall B st cs st', tr_nodes B st = Ok (cs, st') -> t_stable st' = t_stable st.
Proof. intros B. apply mono_list_of. apply Forall_forall. intros; apply mono_node. Qed.

Lemma mono_nodes : forall B st cs st', tr_nodes B st = Ok (cs, st') -> t_stable st' = true -> t_stable st = true.
Proof. intros B st cs st' H HS. rewrite <- (stable_nodes _ _ _ _ H). exact HS. Qed.

Lemma rep_stable_true : forall prog, rep_stable prog = true.
Proof. intros prog. unfold rep_stable. destruct (tr_nodes prog t0) as [[cs st]|] eqn:E; auto. now rewrite (stable_nodes _ _ _ _ E). Qed.

(* entry_unchanged: what it gives for lookups *)
Lemma alookup_In {K V} (eqb : K -> K -> bool) : forall k (l : list (K * V)) v,
  alookup eqb k l = Some v -> exists k', eqb k k' = true /\ In (k', v) l.
Proof.
  induction l as [|[k1 v1] l IH]; intros v H; cbn in H; [discriminate|].
  destruct (eqb k k1) eqn:E.
  - inversion H; subst. exists k1. split; auto. left; auto.
  - destruct (IH v H) as (k' & E' & I'). exists k'. split; auto. right; auto.
Qed.

Lemma entry_unchanged_spec : forall st st1, entry_unchanged st st1 = true ->
  (forall ch k, act st ch = Some k -> act st1 ch = Some k) /\
  (forall ch v, pl st ch = Some v -> exists v1, pl st1 ch = Some v1 /\ (v1 == v)%Q) /\
  (forall ck b olds, dp st ck = Some (b, olds) -> exists b1, dp st1 ck = Some (b1, olds) /\ (b1 == b)%Q).
Proof.
  intros st st1 H. unfold entry_unchanged in H. apply andb_prop in H as [H H3]. apply andb_prop in H as [H1 H2].
  rewrite forallb_forall in H1, H2, H3. split; [|split].
  - intros ch k Hk. destruct (alookup_In _ _ _ _ Hk) as (ch' & E & HIn). apply Nat.eqb_eq in E. subst ch'.
    specialize (H1 _ HIn). cbn in H1. unfold act. destruct (alookup Nat.eqb ch (t_active st1)) as [k'|]; cbn in H1; [|discriminate].
    apply key_eqb_spec in H1. now subst.
  - intros ch v Hv. destruct (alookup_In _ _ _ _ Hv) as (ch' & E & HIn). apply Nat.eqb_eq in E. subst ch'.
    specialize (H2 _ HIn). cbn in H2. unfold pl. destruct (alookup Nat.eqb ch (t_plain st1)) as [v'|]; cbn in H2; [|discriminate].
    exists v'. split; auto. now apply Qeq_bool_iff.
  - intros ck b olds Hd. destruct (alookup_In _ _ _ _ Hd) as (ck' & E & HIn). apply ck_eqb_spec in E. subst ck'.
    specialize (H3 _ HIn). cbn in H3. unfold dp. destruct (alookup ck_eqb ck (t_deps st1)) as [[b1 o1]|]; [|discriminate].
    unfold depstate_eqb in H3. cbn in H3. apply andb_prop in H3 as [X Y]. apply Qeq_bool_iff in X.
    unfold zlist_eqb in Y. destruct (list_eq_dec Z.eq_dec o1 olds); [|discriminate]. subst. eauto.
Qed.
