(* C17 — the ghost flag t_stable only ever goes from true to false. *)
From Coq Require Import ZArith QArith List Bool Lia ZifyBool.
Require Import QV.C17.Model QV.C17.Spec QV.C17.Proofs QV.C17.ProofsVM QV.C17.SimDefs QV.C17.ProofsTr1.
Import ListNotations.
Local Open Scope Z_scope.

Lemma set_voltage_stable : forall ch v st c1 st1, tr_set_voltage ch v st = (c1, st1) -> t_stable st1 = t_stable st.
Proof.
  intros ch v st c1 st1 H. unfold tr_set_voltage in H.
  destruct (negb (opt_key_is (alookup Nat.eqb ch (t_active st)) []) || negb (opt_q_is (alookup Nat.eqb ch (t_plain st)) v));
    injection H as <- <-; reflexivity.
Qed.

Lemma set_indexed_stable : forall ch b fs st c1 st1, tr_set_indexed ch b fs st = Ok (c1, st1) -> t_stable st1 = t_stable st.
Proof.
  intros ch b fs st c1 st1 H. unfold tr_set_indexed in H.
  destruct (alookup ck_eqb (ch, mk_key fs) (t_deps st)) as [prev|].
  - destruct (required_increment_from (b, t_iters st) prev fs) as [inc|]; cbn in H; [|discriminate]. inversion H; reflexivity.
  - destruct (forallb (fun it => it =? 0) (t_iters st)); [|discriminate]. inversion H; reflexivity.
Qed.

Lemma hold_stable : forall vs c0 st cs st', tr_hold_chs c0 vs st = Ok (cs, st') -> t_stable st' = t_stable st.
Proof.
  induction vs as [|[b [fs|]] vs IH]; intros c0 st cs st' H; cbn [tr_hold_chs] in H.
  - inversion H; reflexivity.
  - destruct (tr_set_indexed c0 b fs st) as [[c1 st1]|] eqn:E1; cbn in H; [|discriminate].
    destruct (tr_hold_chs (S c0) vs st1) as [[c2 st2]|] eqn:E2; cbn in H; [|discriminate]. inversion H; subst.
    rewrite (IH _ _ _ _ E2). eapply set_indexed_stable; eauto.
  - destruct (tr_set_voltage c0 b st) as [c1 st1] eqn:E1.
    destruct (tr_hold_chs (S c0) vs st1) as [[c2 st2]|] eqn:E2; cbn in H; [|discriminate]. inversion H; subst.
    rewrite (IH _ _ _ _ E2). eapply set_voltage_stable; eauto.
Qed.

Definition mono_stmt (n : node) : Prop :=
  forall st cs st', tr_node n st = Ok (cs, st') -> t_stable st' = true -> t_stable st = true.

Lemma mono_list_of : forall B, Forall mono_stmt B ->
  forall st cs st', tr_nodes B st = Ok (cs, st') -> t_stable st' = true -> t_stable st = true.
Proof.
  induction 1 as [|x B Hx HB IH]; intros st cs st' H HS.
  - cbn in H. inversion H; subst; auto.
  - rewrite tr_nodes_cons in H.
    destruct (tr_node x st) as [[c1 st1]|] eqn:E1; cbn in H; [|discriminate].
    destruct (tr_nodes B st1) as [[c2 st2]|] eqn:E2; cbn in H; [|discriminate]. inversion H; subst. eauto.
Qed.

Lemma mono_node : forall n, mono_stmt n.
Proof.
  induction n as [vs dur|body c IHb|body len IHb] using node_ind2; intros st cs st' H HS.
  - rewrite tr_node_hold in H. destruct (tr_hold_chs 0 vs st) as [[c1 st1]|] eqn:E; cbn in H; [|discriminate].
    inversion H; subst. rewrite <- (hold_stable _ _ _ _ _ E). exact HS.
  - pose proof (mono_list_of body IHb) as HL. rewrite tr_node_rep in H. cbv zeta in H.
    destruct (tr_nodes body (with_label st (t_label st + 1))) as [[cs1 st1]|] eqn:E1; cbn [bind] in H; [|discriminate].
    destruct (set_eqb _ _).
    + inversion H; subst. cbn in HS. apply andb_prop in HS as [HS _]. apply (HL _ _ _ E1 HS).
    + destruct (0 <? c - 1).
      * destruct (tr_nodes body st1) as [[cs2 st2]|] eqn:E2; cbn [bind] in H; [|discriminate]. inversion H; subst.
        apply (HL _ _ _ E1). apply (HL _ _ _ E2 HS).
      * inversion H; subst. apply (HL _ _ _ E1 HS).
  - pose proof (mono_list_of body IHb) as HL. rewrite tr_node_iter in H. cbv zeta in H.
    destruct (tr_nodes body (with_iters st (t_iters st ++ [0]))) as [[cs1 st1]|] eqn:E1; cbn [bind] in H; [|discriminate].
    destruct (1 <? len).
    + match type of H with context [tr_nodes body ?s] => destruct (tr_nodes body s) as [[cs2 st2]|] eqn:E2 end; cbn [bind] in H; [|discriminate].
      inversion H; subst. cbn in HS. apply (HL _ _ _ E1). apply (HL _ _ _ E2 HS).
    + inversion H; subst. cbn in HS. apply (HL _ _ _ E1 HS).
Qed.

Lemma mono_nodes : forall B st cs st', tr_nodes B st = Ok (cs, st') -> t_stable st' = true -> t_stable st = true.
Proof. intros B. apply mono_list_of. apply Forall_forall. intros; apply mono_node. Qed.

(* syntactic identity *)
Lemma q_same_eq : forall a b, q_same a b = true -> a = b.
Proof.
  intros [n d] [n' d'] H. unfold q_same in H. cbn in H. apply andb_prop in H as [H1 H2].
  apply Z.eqb_eq in H1. apply Pos.eqb_eq in H2. subst. reflexivity.
Qed.
Lemma cmd_same_eq : forall a b, cmd_same a b = true -> a = b.
Proof.
  intros [c v k|c v k|d|i n|i] [c' v' k'|c' v' k'|d'|i' n'|i'] H; cbn in H; try discriminate.
  - apply andb_prop in H as [H H3]. apply andb_prop in H as [H1 H2].
    apply Nat.eqb_eq in H1. apply q_same_eq in H2. apply key_eqb_spec in H3. subst. reflexivity.
  - apply andb_prop in H as [H H3]. apply andb_prop in H as [H1 H2].
    apply Nat.eqb_eq in H1. apply q_same_eq in H2. apply key_eqb_spec in H3. subst. reflexivity.
  - apply q_same_eq in H. subst. reflexivity.
  - apply andb_prop in H as [H1 H2]. apply Z.eqb_eq in H1, H2. subst. reflexivity.
  - apply Z.eqb_eq in H. subst. reflexivity.
Qed.
Lemma cmds_same_eq : forall a b, cmds_same a b = true -> a = b.
Proof.
  induction a as [|x a IH]; intros [|y b] H; cbn in H; try discriminate; auto.
  apply andb_prop in H as [H1 H2]. apply cmd_same_eq in H1. apply IH in H2. subst. reflexivity.
Qed.
