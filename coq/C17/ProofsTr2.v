(* C17 — write summary and label range of a translated node (list). *)
From Coq Require Import ZArith QArith List Bool Lia ZifyBool.
Require Import QV.C17.Model QV.C17.Spec QV.C17.Proofs QV.C17.ProofsVM QV.C17.SimDefs QV.C17.ProofsTr1.
Import ListNotations.
Local Open Scope Z_scope.

Definition lab_range (lo hi : Z) (cs : list cmd) : Prop := Forall (fun l => lo <= l < hi) (labels cs).

Lemma lab_range_weaken : forall lo hi lo' hi' cs, lab_range lo hi cs -> lo' <= lo -> hi <= hi' -> lab_range lo' hi' cs.
Proof. unfold lab_range. intros. eapply Forall_impl; [|eauto]. cbn. intros; lia. Qed.
Lemma lab_range_app : forall lo hi a b, lab_range lo hi a -> lab_range lo hi b -> lab_range lo hi (a ++ b).
Proof. unfold lab_range. intros. rewrite labels_app. apply Forall_app; auto. Qed.

Lemma Summ_ext : forall fA fP fD gA gP gD st st',
  (forall ch, fA ch = gA ch) -> (forall ch, fP ch = gP ch) -> (forall ck, fD ck = gD ck) ->
  Summ fA fP fD st st' -> Summ gA gP gD st st'.
Proof.
  intros fA fP fD gA gP gD st st' EA EP ED (A & P & D & I & L). repeat split; auto.
  - intros; rewrite <- EA; auto.
  - intros; rewrite <- EP; auto.
  - intros; rewrite <- ED; auto.
Qed.

Lemma orlast_idem {A} : forall a f : option A, orlast (orlast a f) f = orlast a f.
Proof. intros a [x|]; reflexivity. Qed.
Lemma orlast_addits2 : forall a X Y f, orlast (orlast a (addits X f)) (addits Y f) = orlast a (addits Y f).
Proof. intros a X Y [x|]; reflexivity. Qed.

Definition SummN (n : node) := Summ (fun ch => last_node (h_act ch) up_id n) (fun ch => last_node (h_plain ch) up_id n)
                                    (fun ck => last_node (h_dep ck) up_dep n).
Definition SummL (l : list node) := Summ (fun ch => last_act ch l) (fun ch => last_plain ch l) (fun ck => last_dep ck l).

Definition node_summ_stmt (n : node) : Prop :=
  forall st cs st', tr_node n st = Ok (cs, st') -> SummN n st st' /\ lab_range (t_label st) (t_label st') cs.

Lemma nodes_summ_of : forall B, Forall node_summ_stmt B ->
  forall st cs st', tr_nodes B st = Ok (cs, st') -> SummL B st st' /\ lab_range (t_label st) (t_label st') cs.
Proof.
  induction 1 as [|x B Hx HB IH]; intros st cs st' H.
  - cbn in H. inversion H; subst. split; [|constructor].
    repeat split; cbn; auto; try lia. intros; apply oqeq_refl.
  - rewrite tr_nodes_cons in H.
    destruct (tr_node x st) as [[c1 st1]|] eqn:E1; cbn in H; [|discriminate].
    destruct (tr_nodes B st1) as [[c2 st2]|] eqn:E2; cbn in H; [|discriminate]. inversion H; subst; clear H.
    destruct (Hx _ _ _ E1) as [S1 L1]. destruct (IH _ _ _ E2) as [S2 L2].
    assert (Hl1 : t_label st <= t_label st1) by apply S1. assert (Hl2 : t_label st1 <= t_label st') by apply S2.
    split.
    + pose proof (Summ_trans _ _ _ _ _ _ _ _ _ S1 S2) as T. exact T.
    + apply lab_range_app; eapply lab_range_weaken; eauto; lia.
Qed.

Lemma map_id_opt {A} : forall (o : option A) (z : Z), option_map (up_id z) o = o.
Proof. destruct o; reflexivity. Qed.

Lemma node_summ : forall n, node_summ_stmt n.
Proof.
  induction n as [vs dur|body c IHb|body len IHb] using node_ind2; intros st cs st' H.
  - rewrite tr_node_hold in H. destruct (tr_hold_chs 0 vs st) as [[c1 st1]|] eqn:E; cbn in H; [|discriminate].
    inversion H; subst; clear H. destruct (hold_summ _ _ _ _ _ E) as (S & L & Lb).
    split.
    + eapply Summ_ext; [| | |exact S]; intros; cbn; rewrite nth_off_0; reflexivity.
    + unfold lab_range. rewrite labels_app, Lb. cbn. constructor.
  - pose proof (nodes_summ_of body IHb) as HL. rewrite tr_node_rep in H. cbv zeta in H.
    destruct (tr_nodes body (with_label st (t_label st + 1))) as [[cs1 st1]|] eqn:E1; cbn [bind] in H; [|discriminate].
    destruct (HL _ _ _ E1) as [(A1 & P1 & D1 & I1 & L1) R1]. cbn [with_label t_label t_iters] in *.
    change (act (with_label st (t_label st + 1))) with (act st) in A1.
    change (pl (with_label st (t_label st + 1))) with (pl st) in P1.
    change (dp (with_label st (t_label st + 1))) with (dp st) in D1.
    destruct (set_eqb _ _ && entry_unchanged _ _).
    + inversion H; subst; clear H. split.
      * unfold SummN. repeat split; auto; try lia.
      * unfold lab_range. cbn [labels]. rewrite labels_app. cbn. constructor; [lia|].
        rewrite app_nil_r. eapply lab_range_weaken; eauto; lia.
    + destruct (0 <? c - 1).
      * destruct (tr_nodes body st1) as [[cs2 st2]|] eqn:E2; cbn [bind] in H; [|discriminate].
        inversion H; subst; clear H. destruct (HL _ _ _ E2) as [(A2 & P2 & D2 & I2 & L2) R2].
        split.
        -- unfold SummN. repeat split; try congruence; try lia.
           ++ intros ch. rewrite A2, A1. apply orlast_idem.
           ++ intros ch. eapply oqeq_trans; [apply P2|]. rewrite <- (orlast_idem (pl st ch)).
              apply oqeq_orlast. apply P1.
           ++ intros ck. rewrite D2, D1, I1. apply orlast_addits2.
        -- apply lab_range_app; [eapply lab_range_weaken; eauto; lia|].
           unfold lab_range. cbn [labels]. rewrite labels_app. cbn. rewrite app_nil_r. constructor; [lia|].
           eapply lab_range_weaken; eauto; lia.
      * inversion H; subst; clear H. split.
        -- unfold SummN. repeat split; auto; lia.
        -- eapply lab_range_weaken; eauto; lia.
  - pose proof (nodes_summ_of body IHb) as HL. rewrite tr_node_iter in H. cbv zeta in H.
    destruct (tr_nodes body (with_iters st (t_iters st ++ [0]))) as [[cs1 st1]|] eqn:E1; cbn [bind] in H; [|discriminate].
    destruct (HL _ _ _ E1) as [(A1 & P1 & D1 & I1 & L1) R1]. cbn [with_iters t_label t_iters] in *.
    change (act (with_iters st (t_iters st ++ [0]))) with (act st) in A1.
    change (pl (with_iters st (t_iters st ++ [0]))) with (pl st) in P1.
    change (dp (with_iters st (t_iters st ++ [0]))) with (dp st) in D1.
    destruct (1 <? len) eqn:El.
    + match type of H with context [tr_nodes body ?s] => set (sl := s) in * end.
      destruct (tr_nodes body sl) as [[cs2 st2]|] eqn:E2; cbn [bind] in H; [|discriminate].
      inversion H; subst; clear H. destruct (HL _ _ _ E2) as [(A2 & P2 & D2 & I2 & L2) R2].
      change (act sl) with (act st1) in A2. change (pl sl) with (pl st1) in P2. change (dp sl) with (dp st1) in D2.
      unfold sl in *. cbn [t_iters t_label] in *.
      split.
      * unfold SummN. repeat split; cbn [with_iters t_iters t_label]; try congruence; try lia.
        -- intros ch. change (act (with_iters st2 (t_iters st)) ch) with (act st2 ch).
           rewrite last_node_iter, map_id_opt. rewrite A2, A1. apply orlast_idem.
        -- intros ch. change (pl (with_iters st2 (t_iters st)) ch) with (pl st2 ch).
           rewrite last_node_iter, map_id_opt. eapply oqeq_trans; [apply P2|].
           rewrite <- (orlast_idem (pl st ch)). apply oqeq_orlast. apply P1.
        -- intros ck. change (dp (with_iters st2 (t_iters st)) ck) with (dp st2 ck).
           rewrite last_node_iter. rewrite D2, D1. fold (last_dep ck body).
           destruct (last_dep ck body) as [[b suf]|]; cbn; [|reflexivity].
           unfold up_dep; cbn. rewrite El. rewrite <- app_assoc. reflexivity.
      * cbn [with_iters t_label]. apply lab_range_app; [eapply lab_range_weaken; eauto; lia|].
        unfold lab_range. cbn [labels]. rewrite labels_app. cbn. rewrite app_nil_r. constructor; [lia|].
        eapply lab_range_weaken; eauto; lia.
    + inversion H; subst; clear H. split.
      * unfold SummN. repeat split; cbn [with_iters t_iters t_label]; try congruence; try lia.
        -- intros ch. change (act (with_iters st1 (t_iters st)) ch) with (act st1 ch).
           rewrite last_node_iter, map_id_opt. apply A1.
        -- intros ch. change (pl (with_iters st1 (t_iters st)) ch) with (pl st1 ch).
           rewrite last_node_iter, map_id_opt. apply P1.
        -- intros ck. change (dp (with_iters st1 (t_iters st)) ck) with (dp st1 ck).
           rewrite last_node_iter. rewrite D1. fold (last_dep ck body).
           destruct (last_dep ck body) as [[b suf]|]; cbn; [|reflexivity].
           unfold up_dep; cbn. rewrite El. rewrite <- app_assoc. reflexivity.
      * cbn [with_iters t_label]. eapply lab_range_weaken; eauto; lia.
Qed.

Lemma nodes_summ : forall B st cs st', tr_nodes B st = Ok (cs, st') ->
  SummL B st st' /\ lab_range (t_label st) (t_label st') cs.
Proof. intros B. apply nodes_summ_of. apply Forall_forall. intros; apply node_summ. Qed.
