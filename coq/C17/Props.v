(* C17 — property theorems (statements only; proofs live in Proofs.v). *)
From Coq Require Import ZArith QArith List Bool.
Require Import QV.C17.Model QV.C17.Spec QV.C17.Proofs QV.C17.SimDefs QV.C17.ProofsSim4 QV.C17.ProofsSim6 QV.C17.ProofsBuild
               QV.C17.ProofsStair.
Import ListNotations.

(* the binary-fuel VM used in the correspondence check is the unary-fuel VM of the statements below *)
Theorem C17_vm_fuel_binary_is_unary : forall p ch cmds, run_vm p ch cmds = run_vm_n (Pos.to_nat p) ch cmds.
Proof. exact run_vm_binary_unary. Qed.
Print Assumptions C17_vm_fuel_binary_is_unary.

(* Hardware scaling (ProgramEntry._transform_linspace_commands), for ALL command lists (any loops, any registers):
   running the transformed commands gives, step for step, the history of the untransformed run with channel k
   replaced by (v - offset_k) / amplitude_k; same times, same total duration, same error if any. *)
Theorem C17_scaling : forall tr cs cs' fuel channels,
  transform tr cs = Ok cs' ->
  outcome_scaled tr (run_vm_n fuel channels cs) (run_vm_n fuel channels cs').
Proof. exact run_vm_scaled. Qed.
Print Assumptions C17_scaling.

(* non-vacuity: a transformed looping program that runs to completion *)
Example C17_scaling_nonvacuous :
  let cs := [CSet 0 (1#2) [5%Z]; CWait 1; CLabel 0%Z 2%Z; CInc 0 (1#4) [5%Z]; CWait 1; CJmp 0%Z] in
  exists cs' h t, transform [(2#1, 1#4)] cs = Ok cs' /\ run_vm_n 20 1 cs' = Ok (h, t) /\ length h = 3%nat.
Proof. cbv zeta. eexists; eexists; eexists. split; [reflexivity|]. split; [vm_compute; reflexivity|reflexivity]. Qed.

(* The increment kernel (DepState.required_increment_from), any nesting depth and any factors: if the register was
   last written for the affine form (b_old, fs) at loop indices iolds, and the static iteration vectors of that write
   and of the new one relate to the executed loop indices by the translator's convention (levels_ok), then adding the
   computed increment makes the register hold the new affine form (b_new, fs) at the new indices.  This is the
   induction step of the simulation invariant "register (ch, key) holds base + sum factors * current indices". *)
Theorem C17_increment_kernel : forall b_old b_new olds news iolds inews fs inc,
  levels_ok olds news iolds inews ->
  required_increment_from (b_new, news) (b_old, olds) fs = Ok inc ->
  (aff_at b_old fs iolds + inc == aff_at b_new fs inews)%Q.
Proof. exact required_increment_sound. Qed.
Print Assumptions C17_increment_kernel.

(* non-vacuity: outer loop advances (first -> later pass), inner loop of length 5 starts a new sweep *)
Example C17_increment_kernel_nonvacuous :
  levels_ok [0; 4]%Z [2; 0]%Z [0; 4]%Z [1; 0]%Z /\
  required_increment_from (1#2, [2; 0]%Z) (1#4, [0; 4]%Z) [1#8; 1#16] = Ok ((1#2) - (1#4) + (1#8) - (1#16) * 4)%Q.
Proof.
  split; [|reflexivity].
  constructor. { right; left. repeat split; reflexivity. }
  constructor. { right; right. repeat split; reflexivity. }
  constructor.
Qed.

(* ---------------------------------------------------------------------------------------------------------------- *)
(* The staircase clause: PROVED (round 2) for every source -- holds with plain / int / affine voltages on any number of
   channels, sequences, iterations with any start/stop/step, repetitions of any count, nested to any depth -- under three
   executable hypotheses:
     src_wf                             one voltage per channel in every hold, steps <> 0
     guard_C17_zero_factor_depth 0      no index-dependent voltage whose coefficients of the ENCLOSING loops are all zero
     guard_C17_key_collision            no two different factor tuples of one channel share a DepKey (rounding to 1e-9 /
                                        stripped trailing zeros); this also excludes dep-key-shared-across-depths
   Whenever the pipeline build -> translate -> VM returns a history, it is the staircase of the source (all start times
   equal, all voltages equal as rationals, no NaN) and the total durations agree.  No fuel assumption: any fuel for which
   the VM halts gives this history.  The model is the translator AFTER the repair of `repetition-entry-state`
   (_entry_state_unchanged_since); the ghost flag of round 1 is gone from the hypotheses. *)
Theorem C17_staircase : forall channels s fuel h t,
  src_wf channels s = true -> guard_C17_zero_factor_depth 0 s = true -> guard_C17_key_collision s = true ->
  pipeline fuel channels s = Ok (h, t) ->
  plays h (fst (staircase s)) = true /\ Qeq_bool t (snd (staircase s)) = true.
Proof. exact staircase_full. Qed.
Print Assumptions C17_staircase.

Example C17_staircase_nonvacuous :
  src_wf 2 wit_good = true /\ guard_C17_zero_factor_depth 0 wit_good = true /\ guard_C17_key_collision wit_good = true /\
  exists h t, pipeline 1000 2 wit_good = Ok (h, t) /\ length h = 21%nat.
Proof. exact staircase_full_nonvacuous. Qed.

(* The same stated on the builder output, for sources whose built program contains no repetition node (iterations,
   sequences, holds; any depth).  guard_C17_built_ok false = executable check on the builder output (structure, key <> (), key collisions). *)
Theorem C17_staircase_partial : forall channels s fuel h t,
  guard_C17_built_ok false channels s = true ->
  pipeline fuel channels s = Ok (h, t) ->
  plays h (fst (staircase s)) = true /\ Qeq_bool t (snd (staircase s)) = true.
Proof. exact staircase_norep. Qed.
Print Assumptions C17_staircase_partial.

(* the two halves of the proof, usable on their own *)
(* (a) translator + VM: the run of the translated program is the denotation of the builder's node tree over loop indices
       counted from 0 (simulation invariant: register (ch, key) holds base + sum factors * current indices) *)
Theorem C17_translated_program_plays : forall reps channels prog cs fuel h t,
  prog_ok reps channels prog = true -> (reps = true -> rep_stable prog = true) ->
  translate prog = Ok cs -> run_vm_n fuel channels cs = Ok (h, t) ->
  Forall2 hrel h (fst (nplay_list prog [] 0%Q)) /\ t = snd (nplay_list prog [] 0%Q).
Proof. exact translated_program_plays. Qed.
Print Assumptions C17_translated_program_plays.

(* (b) builder: the node tree played at indices I is the source unrolled at start + step * I (zero-duration holds,
       empty ranges, counts <= 0 and empty bodies dropped on both sides) *)
Theorem C17_build_is_unroll : forall s rs nodes I t,
  build s rs = Ok nodes -> length I = length rs -> prel (nplay_list nodes I t) (unroll s (env_of rs I) t).
Proof. exact build_unroll. Qed.
Print Assumptions C17_build_is_unroll.

(* The statement of round 1 (Spec.v C17_staircase_statement: only guard_C17_zero_factor and the ghost flag) is FALSE of
   the model: (1) two slopes on one channel that differ by less than the increment resolution share one register;
   (2) an affine voltage whose only non-zero coefficient belongs to no enclosing loop passes guard_C17_zero_factor but
   is built with all-zero factors.  Each witness violates exactly the corrected guard named in the theorem. *)
Theorem C17_staircase_statement_refuted_resolution :
  ~ C17_staircase_statement /\ guard_C17_key_collision wit_resolution = false.
Proof. exact statement_refuted_resolution. Qed.
Print Assumptions C17_staircase_statement_refuted_resolution.

Theorem C17_staircase_statement_refuted_extra_coefficient :
  ~ C17_staircase_statement /\ guard_C17_zero_factor_depth 0 wit_extra_coef = false.
Proof. exact statement_refuted_extra_coef. Qed.
Print Assumptions C17_staircase_statement_refuted_extra_coefficient.

(* The guards are necessary: the faithful model of the translator violates the unguarded statement (witnesses = the
   known findings that remain). *)

(* the witnesses of the former finding `repetition-entry-state` (hold(1.5); 3 x (hold(1.5); hold(2.5)) and
   for j: 2 x (for i: hold(i/4 + j))) play their staircase in the model of the repaired translator *)
Example C17_repaired_repetition_witnesses :
  (exists h t, pipeline 200 1 wit_rep = Ok (h, t) /\ plays h (fst (staircase wit_rep)) = true) /\
  (exists h t, pipeline 400 1 wit_rep_inner = Ok (h, t) /\ plays h (fst (staircase wit_rep_inner)) = true).
Proof. exact repaired_repetition_witnesses. Qed.

(* zero-factor-aliases-plain: for i: hold(-0.5); hold(0 + 0*i); hold(-0.5) *)
Theorem C17_staircase_refuted_zero_factor : ~ C17_staircase_unguarded false true.
Proof. exact staircase_refuted_zero_factor. Qed.
Print Assumptions C17_staircase_refuted_zero_factor.

(* dep-key-shared-across-depths: a well-formed source satisfying both guards that the translator rejects (AssertionError) *)
Theorem C17_compile_refuted_key_depth :
  src_wf 2 wit_depth = true /\ guard_C17_zero_factor wit_depth = true /\
  guard_C17_repetition_entry_state wit_depth = true /\ forall fuel, pipeline fuel 2 wit_depth = Err EAssert.
Proof. exact compile_refuted_key_depth. Qed.
Print Assumptions C17_compile_refuted_key_depth.

(* non-vacuity of the guarded statement: 2 channels, two iteration levels (one with negative step), a repetition *)
Example C17_staircase_statement_nonvacuous :
  src_wf 2 wit_good = true /\ guard_C17_zero_factor wit_good = true /\ guard_C17_repetition_entry_state wit_good = true /\
  exists h t, pipeline 1000 2 wit_good = Ok (h, t) /\ length h = 21%nat /\
              plays h (fst (staircase wit_good)) = true /\ Qeq_bool t (snd (staircase wit_good)) = true.
Proof. exact statement_nonvacuous. Qed.
