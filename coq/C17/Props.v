(* C17 — property theorems (statements only; proofs live in Proofs.v). *)
From Coq Require Import ZArith QArith List Bool.
Require Import QV.C17.Model QV.C17.Spec QV.C17.Proofs.
Import ListNotations.

(* the binary-fuel VM used in the correspondence check is the unary-fuel VM of the statements below *)
Theorem C17_vm_fuel_binary_is_unary : forall p ch cmds, run_vm p ch cmds = run_vm_n (Pos.to_nat p) ch cmds.
Proof. exact run_vm_binary_unary. Qed.
Print Assumptions C17_vm_fuel_binary_is_unary.

(* Hardware scaling (ProgramEntry._transform_linspace_commands), for ALL command lists (any loops, any registers):
   running the transformed commands gives, step for step, the history of the untransformed run with channel k
   replaced by (v - offset_k) / amplitude_k; same times, same total duration, same error if any. *)
Theorem C17_scaling : forall tr cs cs' fuel channels,
  transform tr cs = Ok cs' ->
  outcome_scaled tr (run_vm_n fuel channels cs) (run_vm_n fuel channels cs').
Proof. exact run_vm_scaled. Qed.
Print Assumptions C17_scaling.

(* non-vacuity: a transformed looping program that runs to completion *)
Example C17_scaling_nonvacuous :
  let cs := [CSet 0 (1#2) [5%Z]; CWait 1; CLabel 0%Z 2%Z; CInc 0 (1#4) [5%Z]; CWait 1; CJmp 0%Z] in
  exists cs' h t, transform [(2, 1#4)] cs = Ok cs' /\ run_vm_n 20 1 cs' = Ok (h, t) /\ length h = 3%nat.
Proof. cbv zeta. eexists; eexists; eexists. split; [reflexivity|]. split; [vm_compute; reflexivity|reflexivity]. Qed.

(* The increment kernel (DepState.required_increment_from), any nesting depth and any factors: if the register was
   last written for the affine form (b_old, fs) at loop indices iolds, and the static iteration vectors of that write
   and of the new one relate to the executed loop indices by the translator's convention (levels_ok), then adding the
   computed increment makes the register hold the new affine form (b_new, fs) at the new indices.  This is the
   induction step of the simulation invariant "register (ch, key) holds base + sum factors * current indices". *)
Theorem C17_increment_kernel : forall b_old b_new olds news iolds inews fs inc,
  levels_ok olds news iolds inews ->
  required_increment_from (b_new, news) (b_old, olds) fs = Ok inc ->
  (aff_at b_old fs iolds + inc == aff_at b_new fs inews)%Q.
Proof. exact required_increment_sound. Qed.
Print Assumptions C17_increment_kernel.

(* non-vacuity: outer loop advances (first -> later pass), inner loop of length 5 starts a new sweep *)
Example C17_increment_kernel_nonvacuous :
  levels_ok [0; 4]%Z [2; 0]%Z [0; 4]%Z [1; 0]%Z /\
  required_increment_from (1#2, [2; 0]%Z) (1#4, [0; 4]%Z) [1#8; 1#16] = Ok ((1#2) - (1#4) + (1#8) - (1#16) * 4)%Q.
Proof.
  split; [|reflexivity].
  constructor. { right; left. repeat split; reflexivity. }
  constructor. { right; right. repeat split; reflexivity. }
  constructor.
Qed.
