(* C17 — property theorems (statements only; proofs live in Proofs.v). *)
From Coq Require Import ZArith QArith List Bool.
Require Import QV.C17.Model QV.C17.Spec QV.C17.Proofs.
Import ListNotations.

(* the binary-fuel VM used in the correspondence check is the unary-fuel VM of the statements below *)
Theorem C17_vm_fuel_binary_is_unary : forall p ch cmds, run_vm p ch cmds = run_vm_n (Pos.to_nat p) ch cmds.
Proof. exact run_vm_binary_unary. Qed.
Print Assumptions C17_vm_fuel_binary_is_unary.

(* Hardware scaling (ProgramEntry._transform_linspace_commands), for ALL command lists (any loops, any registers):
   running the transformed commands gives, step for step, the history of the untransformed run with channel k
   replaced by (v - offset_k) / amplitude_k; same times, same total duration, same error if any. *)
Theorem C17_scaling : forall tr cs cs' fuel channels,
  transform tr cs = Ok cs' ->
  outcome_scaled tr (run_vm_n fuel channels cs) (run_vm_n fuel channels cs').
Proof. exact run_vm_scaled. Qed.
Print Assumptions C17_scaling.

(* non-vacuity: a transformed looping program that runs to completion *)
Example C17_scaling_nonvacuous :
  let cs := [CSet 0 (1#2) [5%Z]; CWait 1; CLabel 0%Z 2%Z; CInc 0 (1#4) [5%Z]; CWait 1; CJmp 0%Z] in
  exists cs' h t, transform [(2, 1#4)] cs = Ok cs' /\ run_vm_n 20 1 cs' = Ok (h, t) /\ length h = 3%nat.
Proof. cbv zeta. eexists; eexists; eexists. split; [reflexivity|]. split; [vm_compute; reflexivity|reflexivity]. Qed.
