(* C17 — property theorems (statements only; proofs live in Proofs.v). *)
From Coq Require Import ZArith QArith List Bool.
Require Import QV.C17.Model QV.C17.Spec QV.C17.Proofs.
Import ListNotations.

(* the binary-fuel VM used in the correspondence check is the unary-fuel VM of the statements below *)
Theorem C17_vm_fuel_binary_is_unary : forall p ch cmds, run_vm p ch cmds = run_vm_n (Pos.to_nat p) ch cmds.
Proof. exact run_vm_binary_unary. Qed.
Print Assumptions C17_vm_fuel_binary_is_unary.
