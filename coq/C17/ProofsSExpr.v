(* C17 — the arithmetic of SimpleExpression keeps the value: for every expression tree the python operators accept, the value()
   of the resulting SimpleExpression (or the resulting number) is the value of the tree. *)
From Coq Require Import ZArith QArith List Bool Lia Setoid.
Require Import QV.C17.Model QV.C17.SExpr.
Import ListNotations.

Fixpoint rsum (env : nat -> Q) (o : list (nat * Q)) : Q :=
  match o with [] => 0%Q | nv :: r => (env (fst nv) * snd nv + rsum env r)%Q end.

Lemma fold_rsum : forall env o b, (fold_left (fun v nv => (v + env (fst nv) * snd nv)%Q) o b == b + rsum env o)%Q.
Proof. intros env. induction o as [|nv o IH]; intros b; cbn [fold_left rsum]; [ring|]. rewrite IH. ring. Qed.

Lemma se_value_exp : forall env b o, (se_value env (SExp (b, o)) == b + rsum env o)%Q.
Proof. intros. cbn. apply fold_rsum. Qed.

Lemma rsum_aset : forall env n c l, (rsum env (aset Nat.eqb n c l) == rsum env l - env n * oget n l + env n * c)%Q.
Proof.
  intros env n c. induction l as [|[k v] r IH]; cbn [aset rsum fst snd].
  - unfold oget. cbn. ring.
  - unfold oget in *. cbn [alookup]. destruct (Nat.eqb n k) eqn:E.
    + apply Nat.eqb_eq in E. subst k. cbn [rsum fst snd]. ring.
    + cbn [rsum fst snd]. rewrite IH. ring.
Qed.

Lemma rsum_merge : forall env b a, (rsum env (se_merge a b) == rsum env a + rsum env b)%Q.
Proof.
  intros env. unfold se_merge. induction b as [|[n v] b IH]; intros a; cbn [fold_left rsum fst snd]; [ring|].
  rewrite IH, rsum_aset. ring.
Qed.

Lemma rsum_scale : forall env q o, (rsum env (map (fun nv => (fst nv, (q * snd nv)%Q)) o) == q * rsum env o)%Q.
Proof. intros env q. induction o as [|nv o IH]; cbn [map rsum fst snd]; [ring|]. rewrite IH. ring. Qed.
Lemma rsum_neg : forall env o, (rsum env (map (fun nv => (fst nv, (- snd nv)%Q)) o) == - rsum env o)%Q.
Proof. intros env. induction o as [|nv o IH]; cbn [map rsum fst snd]; [ring|]. rewrite IH. ring. Qed.

Definition val (env : nat -> Q) (x : sval) : Q := match x with SNum q => q | SExp (b, o) => (b + rsum env o)%Q end.
Lemma se_value_val : forall env x, (se_value env x == val env x)%Q.
Proof. intros env [q|[b o]]; [reflexivity|apply se_value_exp]. Qed.

Lemma val_add : forall env x y, (val env (se_add x y) == val env x + val env y)%Q.
Proof. intros env [a|[b1 o1]] [c|[b2 o2]]; cbn [se_add val]; try rewrite rsum_merge; ring. Qed.
Lemma val_neg : forall env x, (val env (se_neg x) == - val env x)%Q.
Proof. intros env [a|[b o]]; cbn [se_neg val]; try rewrite rsum_neg; ring. Qed.
Lemma val_sub : forall env x y, (val env (se_sub x y) == val env x - val env y)%Q.
Proof.
  intros env [a|[b1 o1]] [c|[b2 o2]]; unfold se_sub; try rewrite val_add; try rewrite val_neg; cbn [val]; ring.
Qed.
Lemma val_mul : forall env x y z, se_mul x y = Some z -> (val env z == val env x * val env y)%Q.
Proof.
  intros env [a|[b1 o1]] [c|[b2 o2]] z H; cbn [se_mul] in H; inversion H; subst; cbn [val]; try rewrite rsum_scale; ring.
Qed.
Lemma val_div : forall env x d z, se_div x d = Some z -> (val env z == val env x / d)%Q.
Proof.
  intros env x d z H. unfold se_div in H. destruct (Qeq_bool d 0) eqn:E; [discriminate|].
  assert (Hd : ~ (d == 0)%Q) by (intros X; apply Qeq_bool_iff in X; congruence).
  destruct x as [a|[b o]].
  - inversion H; subst. reflexivity.
  - apply (val_mul env) in H. rewrite H. cbn [val]. field. exact Hd.
Qed.

(* every tree the operators accept evaluates, through SimpleExpression arithmetic and value(), to what the tree means *)
Theorem sx_run_sound : forall env e v, sx_run e = Some v -> (se_value env v == sx_den env e)%Q.
Proof.
  intros env e v H. rewrite se_value_val. revert v H.
  induction e as [q|n|a IHa b IHb|a IHa b IHb|a IHa|a IHa b IHb|a IHa d]; intros v H; cbn [sx_run sx_den] in *.
  - inversion H; subst. reflexivity.
  - inversion H; subst. cbn. ring.
  - destruct (sx_run a) as [x|]; [|discriminate]. destruct (sx_run b) as [y|]; [|discriminate]. inversion H; subst.
    rewrite val_add, (IHa x eq_refl), (IHb y eq_refl). reflexivity.
  - destruct (sx_run a) as [x|]; [|discriminate]. destruct (sx_run b) as [y|]; [|discriminate]. inversion H; subst.
    rewrite val_sub, (IHa x eq_refl), (IHb y eq_refl). reflexivity.
  - destruct (sx_run a) as [x|]; [|discriminate]. inversion H; subst. rewrite val_neg, (IHa x eq_refl). reflexivity.
  - destruct (sx_run a) as [x|]; [|discriminate]. destruct (sx_run b) as [y|]; [|discriminate].
    rewrite (val_mul env _ _ _ H), (IHa x eq_refl), (IHb y eq_refl). reflexivity.
  - destruct (sx_run a) as [x|]; [|discriminate]. rewrite (val_div env _ _ _ H), (IHa x eq_refl). reflexivity.
Qed.

(* the operators refuse exactly products of two index dependent operands and divisions by zero *)
Lemma sx_run_kind : forall e, sx_affine e = true ->
  exists v, sx_run e = Some v /\ (match v with SExp _ => true | SNum _ => false end) = sx_has_idx e.
Proof.
  induction e as [q|n|a IHa b IHb|a IHa b IHb|a IHa|a IHa b IHb|a IHa d]; cbn [sx_affine sx_run sx_has_idx]; intros H.
  - eexists; split; reflexivity.
  - eexists; split; reflexivity.
  - apply andb_prop in H as [Ha Hb]. destruct (IHa Ha) as (x & -> & Kx). destruct (IHb Hb) as (y & -> & Ky).
    eexists; split; [reflexivity|]. rewrite <- Kx, <- Ky. destruct x as [?|[? ?]], y as [?|[? ?]]; reflexivity.
  - apply andb_prop in H as [Ha Hb]. destruct (IHa Ha) as (x & -> & Kx). destruct (IHb Hb) as (y & -> & Ky).
    eexists; split; [reflexivity|]. rewrite <- Kx, <- Ky. destruct x as [?|[? ?]], y as [?|[? ?]]; reflexivity.
  - destruct (IHa H) as (x & -> & Kx). eexists; split; [reflexivity|]. rewrite <- Kx. destruct x as [?|[? ?]]; reflexivity.
  - apply andb_prop in H as [H Hn]. apply andb_prop in H as [Ha Hb]. destruct (IHa Ha) as (x & -> & Kx). destruct (IHb Hb) as (y & -> & Ky).
    rewrite <- Kx, <- Ky in Hn |- *. destruct x as [?|[? ?]], y as [?|[? ?]]; cbn in Hn; try discriminate; eexists; split; reflexivity.
  - apply andb_prop in H as [Ha Hd]. destruct (IHa Ha) as (x & -> & Kx). unfold se_div. apply negb_true_iff in Hd. rewrite Hd.
    rewrite <- Kx. destruct x as [?|[? ?]]; eexists; split; reflexivity.
Qed.

Theorem sx_affine_value : forall env e, sx_affine e = true -> exists v, sx_run e = Some v /\ (se_value env v == sx_den env e)%Q.
Proof. intros env e H. destruct (sx_run_kind e H) as (v & R & _). exists v. split; [exact R|]. apply sx_run_sound. exact R. Qed.
