(* C17 — the independent specification: the staircase a template denotes, by plain evaluation of the affine forms
   over the iteration space (no builder, no registers, no commands). *)
From Coq Require Import ZArith QArith List Bool.
Require Import QV.C17.Model.
Import ListNotations.
Local Open Scope Z_scope.

Definition steps_t := list (Q * list Q).       (* (start time, per-channel voltage) *)

Fixpoint dot (coefs : list Q) (env : list Z) : Q :=
  match coefs, env with
  | c :: cs, i :: is_ => (c * inject_Z i + dot cs is_)%Q
  | _, _ => 0%Q
  end.

Definition eval_volt (env : list Z) (v : volt) : Q :=
  match v with
  | VPlain q => q
  | VInt z => inject_Z z
  | VAff base coefs => (base + dot coefs env)%Q
  end.

(* range(start, stop, step) as the list of its `n` values *)
Fixpoint range_vals (start step : Z) (n : nat) : list Z :=
  match n with
  | O => []
  | S n' => start :: range_vals (start + step) step n'
  end.

(* unroll s env t = (steps, end time): env = values of the enclosing loop indices, outermost first *)
Fixpoint unroll (s : src) (env : list Z) (t : Q) {struct s} : steps_t * Q :=
  match s with
  | SHold dur vs => if Qpos_b dur then ([(t, map (eval_volt env) vs)], (t + dur)%Q) else ([], t)
  | SSeq l =>
      (fix go (l : list src) (t : Q) : steps_t * Q :=
         match l with
         | [] => ([], t)
         | x :: l' => let '(a, t1) := unroll x env t in let '(b, t2) := go l' t1 in (a ++ b, t2)
         end) l t
  | SRep count body =>
      (fix rep (n : nat) (t : Q) : steps_t * Q :=
         match n with
         | O => ([], t)
         | S n' => let '(a, t1) := unroll body env t in let '(b, t2) := rep n' t1 in (a ++ b, t2)
         end) (Z.to_nat count) t
  | SIter start stop step body =>
      (fix it (is_ : list Z) (t : Q) : steps_t * Q :=
         match is_ with
         | [] => ([], t)
         | i :: is' => let '(a, t1) := unroll body (env ++ [i]) t in let '(b, t2) := it is' t1 in (a ++ b, t2)
         end) (range_vals start step (Z.to_nat (range_len start stop step))) t
  end.

Definition staircase (s : src) : steps_t * Q := unroll s [] 0%Q.

(* hardware scaling of a staircase: channel k is played as (v - off_k) / amp_k *)
Fixpoint scale_vals (tr : list (Q * Q)) (vs : list Q) : list Q :=
  match vs, tr with
  | v :: vs', (amp, off) :: tr' => ((v - off) / amp)%Q :: scale_vals tr' vs'
  | _, _ => vs
  end.
Definition scale_steps (tr : list (Q * Q)) (st : steps_t) : steps_t := map (fun tv => (fst tv, scale_vals tr (snd tv))) st.

(* ---------------------------------------------------------------------------------------------------------------- *)
(* relations used by the scaling theorem: a history whose channel-k values are (v - off_k) / amp_k of another one
   (values up to == on Q, times and NaN positions identical) *)
Local Open Scope Q_scope.
Definition scale_of (tr : list (Q * Q)) (ch : nat) (v : Q) : Q :=
  match nth_error tr ch with Some (amp, off) => (v - off) / amp | None => v end.

Definition oq_rel (tr : list (Q * Q)) (ch : nat) (a b : option Q) : Prop :=
  match a, b with
  | Some x, Some y => y == scale_of tr ch x
  | None, None => True
  | _, _ => False
  end.

Inductive cur_rel (tr : list (Q * Q)) : nat -> list (option Q) -> list (option Q) -> Prop :=
| cur_nil i : cur_rel tr i [] []
| cur_cons i a b l l' : oq_rel tr i a b -> cur_rel tr (S i) l l' -> cur_rel tr i (a :: l) (b :: l').

Definition hist_rel (tr : list (Q * Q)) (a b : Q * list (option Q)) : Prop :=
  fst a = fst b /\ cur_rel tr 0 (snd a) (snd b).

(* the relation between the two observable results *)
Definition outcome_scaled (tr : list (Q * Q)) (a b : res outcome) : Prop :=
  match a, b with
  | Ok (h, t), Ok (h', t') => t = t' /\ Forall2 (hist_rel tr) h h'
  | Err e, Err e' => e = e'
  | _, _ => False
  end.


(* ---------------------------------------------------------------------------------------------------------------- *)
(* the convention behind DepState.required_increment_from, one nesting level: the translator's static iteration value
   (0 = first pass, len-1 = loop pass) of the previous and of the new write versus the loop indices (counted from 0)
   at which the two writes are executed *)
Definition level_ok (old new iold inew : Z) : Prop :=
  (old = new /\ inew = iold) \/                       (* same pass of this loop, same iteration *)
  (old = 0%Z /\ (old < new)%Z /\ inew = (iold + 1)%Z) \/   (* the next iteration of this loop *)
  (new = 0%Z /\ (new < old)%Z /\ inew = 0%Z /\ iold = old).    (* a new sweep after a complete one *)

Inductive levels_ok : list Z -> list Z -> list Z -> list Z -> Prop :=
| levels_nil : levels_ok [] [] [] []
| levels_cons o n io i_n os ns ios ins :
    level_ok o n io i_n -> levels_ok os ns ios ins -> levels_ok (o :: os) (n :: ns) (io :: ios) (i_n :: ins).

(* value of an affine form with per-loop factors at loop indices counted from 0 *)
Fixpoint aff_at (base : Q) (factors : list Q) (idx : list Z) : Q :=
  match factors, idx with
  | f :: fs, i :: is_ => aff_at (base + f * inject_Z i) fs is_
  | _, _ => base
  end.

(* ---------------------------------------------------------------------------------------------------------------- *)
(* the property as a statement about the model *)
Local Close Scope Q_scope.
Local Open Scope Z_scope.

Fixpoint all2b {A B} (f : A -> B -> bool) (a : list A) (b : list B) : bool :=
  match a, b with
  | [], [] => true
  | x :: a', y :: b' => f x y && all2b f a' b'
  | _, _ => false
  end.

(* the VM history is the staircase: same start times, every channel holds the voltage (no NaN) *)
Definition plays (h : hist_t) (st : steps_t) : bool :=
  all2b (fun (a : Q * list (option Q)) (b : Q * list Q) =>
           Qeq_bool (fst a) (fst b) &&
           all2b (fun (x : option Q) (y : Q) => match x with Some v => Qeq_bool v y | None => false end) (snd a) (snd b)) h st.

(* well-formed source: every hold gives one voltage per channel, steps are non-zero *)
Fixpoint src_wf (channels : nat) (s : src) : bool :=
  match s with
  | SHold _ vs => Nat.eqb (length vs) channels
  | SSeq l => (fix go (l : list src) : bool := match l with [] => true | x :: l' => src_wf channels x && go l' end) l
  | SRep _ body => src_wf channels body
  | SIter _ _ step body => negb (step =? 0) && src_wf channels body
  end.

(* guards that exclude the input classes of the known findings *)
(* zero-factor-aliases-plain: no index-dependent voltage whose coefficients are all zero *)
Fixpoint guard_C17_zero_factor (s : src) : bool :=
  match s with
  | SHold _ vs => forallb (fun v => match v with VAff _ cs => existsb (fun c => negb (Qeq_bool c 0)) cs | _ => true end) vs
  | SSeq l => (fix go (l : list src) : bool := match l with [] => true | x :: l' => guard_C17_zero_factor x && go l' end) l
  | SRep _ body => guard_C17_zero_factor body
  | SIter _ _ _ body => guard_C17_zero_factor body
  end.
(* repetition-entry-state: the ghost flag of the translator model *)
Definition guard_C17_repetition_entry_state (s : src) : bool := rep_stable_src s.

(* Statement of round 1.  REFUTED in round 2 (Props.v C17_staircase_statement_refuted_resolution): its guards do not
   exclude dependency-key collisions by rounding.  The corrected statement (guard_C17_key_collision in SimDefs.v; the two
   guards below became vacuous with the repairs of the translator) is PROVED as Props.v C17_staircase. *)
Definition C17_staircase_statement : Prop :=
  forall channels s fuel h t,
    src_wf channels s = true -> guard_C17_zero_factor s = true -> guard_C17_repetition_entry_state s = true ->
    pipeline fuel channels s = Ok (h, t) ->
    plays h (fst (staircase s)) = true /\ Qeq_bool t (snd (staircase s)) = true.

(* the same without the guards: refuted in Props.v *)
Definition C17_staircase_unguarded (g1 g2 : bool) : Prop :=
  forall channels s fuel h t,
    src_wf channels s = true ->
    (g1 = true -> guard_C17_zero_factor s = true) -> (g2 = true -> guard_C17_repetition_entry_state s = true) ->
    pipeline fuel channels s = Ok (h, t) ->
    plays h (fst (staircase s)) = true /\ Qeq_bool t (snd (staircase s)) = true.
