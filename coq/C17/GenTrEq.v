(* C17 — the rest of the translator and the VM constructor, translated from the CURRENT source text of
   qupulse/program/linspace.py (Gen_linspace_tr.v, regenerated on every run), against the hand-written model:

     DepKey.from_voltages                       gen_from_voltages _ gen_resolution = mk_key
     LinSpaceHold/Repeat/Iter.dependencies      gen_dependencies (embed_node n) = Ok (node_deps n)
     get_dependency_state                       = get_dependency_state
     _entry_state_unchanged_since               = entry_unchanged (snapshot = the three dicts at the loop entry)
     add_node / _add_repetition_node / _add_iteration_node / new_loop     refine tr_node / tr_nodes (same commands appended,
                                                same final state, same exception kind)
     to_increment_commands                      = translate
     LinSpaceVM.__init__                        = gvm_init
     hold_voltage, one voltage                  = build_volt on `VAff base (pos_coefs ranges offsets)` (up to Qeq: 0. + x) / VPlain *)
From Coq Require Import ZArith QArith Qround List Bool Lia.
Require Import QV.C17.Model QV.C17.GenLib QV.C17.Gen_linspace QV.C17.GenEq QV.C17.Gen_linspace_obj QV.C17.ProofsVM QV.C17.GenObjEq
               QV.C17.Gen_linspace_tr QV.C17.SimDefs QV.C17.ProofsTr1 QV.C17.ProofsTr2.
Import ListNotations.

(* ---------------------------------------------------------------------------------------------------------------- *)
(* DepKey.from_voltages *)

Lemma strip_zeros_snoc_nz : forall l x, Qeq_bool x 0 = false -> strip_zeros (l ++ [x]) = l ++ [x].
Proof.
  induction l as [|a l IH]; intros x H; cbn [app strip_zeros].
  - now rewrite H.
  - rewrite IH by auto. destruct (l ++ [x]) eqn:E; [destruct l; discriminate|reflexivity].
Qed.

Lemma strip_zeros_snoc_z : forall l x, Qeq_bool x 0 = true -> strip_zeros (l ++ [x]) = strip_zeros l.
Proof.
  induction l as [|a l IH]; intros x H; cbn [app strip_zeros].
  - now rewrite H.
  - rewrite IH by auto. reflexivity.
Qed.

Lemma while1_strip : forall n l, (length l <= n)%nat -> gen_from_voltages_while1 n l = strip_zeros l.
Proof.
  induction n as [|n IH]; intros l H.
  - destruct l; [reflexivity|cbn in H; lia].
  - cbn [gen_from_voltages_while1]. destruct l as [|a l0] using rev_ind; [reflexivity|]. clear IHl0.
    assert (N : is_nil (l0 ++ [a]) = false) by (destruct l0; reflexivity). rewrite N. cbn [negb andb].
    rewrite last_last, removelast_last. change (inject_Z 0) with 0%Q.
    destruct (Qeq_bool a 0) eqn:E.
    + rewrite strip_zeros_snoc_z by auto. apply IH. rewrite app_length in H. cbn in H. lia.
    + now rewrite strip_zeros_snoc_nz.
Qed.

Lemma round_half_even_comp : forall x y, (x == y)%Q -> round_half_even x = round_half_even y.
Proof.
  intros x y H. unfold round_half_even. rewrite (Qfloor_comp _ _ H).
  assert (C : Qcompare (x - inject_Z (Qfloor y)) (1 # 2) = Qcompare (y - inject_Z (Qfloor y)) (1 # 2)).
  { apply Qcompare_comp; [rewrite H; reflexivity|reflexivity]. }
  rewrite C. reflexivity.
Qed.

Theorem gen_from_voltages_eq : forall fs, gen_from_voltages fs gen_resolution = mk_key fs.
Proof.
  intros fs. unfold gen_from_voltages, mk_key. rewrite while1_strip by lia. apply map_ext. intros a.
  unfold py_int_round. apply round_half_even_comp. unfold gen_resolution, resolution_inv, Qdiv.
  change (/ (1 # 1000000000))%Q with (1000000000 # 1). reflexivity.
Qed.

(* ---------------------------------------------------------------------------------------------------------------- *)
(* the node classes and dependencies() *)

Fixpoint embed_node (n : node) : gnode :=
  match n with
  | NHold vs dur => GLinSpaceHold (map fst vs) (map snd vs) dur []
  | NRepeat body c => GLinSpaceRepeat (map embed_node body) c
  | NIter body len => GLinSpaceIter (map embed_node body) len
  end.

Lemma hold_deps_eq : forall vs ch, gen_LinSpaceHold_dependencies_comp (map snd vs) ch = hold_deps ch vs.
Proof. induction vs as [|[b [[|f fs]|]] vs IH]; intros ch; cbn; rewrite ?IH; reflexivity. Qed.

Lemma rep_loop2_eq : forall l acc,
  gen_LinSpaceRepeat_dependencies_loop2 l acc = fold_left (fun a cd => deps_add (fst cd) (snd cd) a) l acc.
Proof. induction l as [|[idx deps] l IH]; intros acc; cbn; [reflexivity|]. rewrite IH. reflexivity. Qed.

Lemma iter_loop2_eq : forall l acc,
  gen_LinSpaceIter_dependencies_loop2 l acc =
  fold_left (fun a cd => let shortened := map (@removelast Q) (snd cd) in
                         if qset_eqb shortened [[]] then a else deps_add (fst cd) shortened a) l acc.
Proof.
  induction l as [|[idx deps] l IH]; intros acc; cbn [gen_LinSpaceIter_dependencies_loop2 fold_left fst snd]; [reflexivity|].
  cbv zeta. destruct (qset_eqb (map (fun dep => removelast dep) deps) [[]]); cbn [negb]; rewrite IH; reflexivity.
Qed.

Fixpoint gdeps_loop (f : deps_t -> deps_t -> deps_t) (l : list gnode) (acc : deps_t) : res deps_t :=
  match l with
  | x :: l' => match gen_dependencies x with Err e => Err e | Ok tmp => gdeps_loop f l' (f tmp acc) end
  | [] => Ok acc
  end.
Fixpoint mdeps_loop (f : deps_t -> deps_t -> deps_t) (l : list node) (acc : deps_t) : deps_t :=
  match l with
  | x :: l' => mdeps_loop f l' (f (node_deps x) acc)
  | [] => acc
  end.

Lemma gen_dependencies_rep : forall b c, gen_dependencies (GLinSpaceRepeat b c) = gdeps_loop gen_LinSpaceRepeat_dependencies_loop2 b [].
Proof.
  intros b c. cbn [gen_dependencies]. generalize (@nil (nat * list (list Q))). induction b as [|x b IH]; intros acc; [reflexivity|].
  cbn [gdeps_loop]. destruct (gen_dependencies x); [apply IH|reflexivity].
Qed.
Lemma gen_dependencies_iter : forall b c, gen_dependencies (GLinSpaceIter b c) = gdeps_loop gen_LinSpaceIter_dependencies_loop2 b [].
Proof.
  intros b c. cbn [gen_dependencies]. generalize (@nil (nat * list (list Q))). induction b as [|x b IH]; intros acc; [reflexivity|].
  cbn [gdeps_loop]. destruct (gen_dependencies x); [apply IH|reflexivity].
Qed.
Lemma node_deps_rep : forall b c, node_deps (NRepeat b c) =
  mdeps_loop (fun ds acc => fold_left (fun a cd => deps_add (fst cd) (snd cd) a) ds acc) b [].
Proof.
  intros b c. cbn [node_deps]. generalize (@nil (nat * list (list Q))). induction b as [|x b IH]; intros acc; [reflexivity|].
  cbn [mdeps_loop]. apply IH.
Qed.
Lemma node_deps_iter : forall b c, node_deps (NIter b c) =
  mdeps_loop (fun ds acc => fold_left (fun a cd => let shortened := map (@removelast Q) (snd cd) in
                                                  if qset_eqb shortened [[]] then a else deps_add (fst cd) shortened a) ds acc) b [].
Proof.
  intros b c. cbn [node_deps]. generalize (@nil (nat * list (list Q))). induction b as [|x b IH]; intros acc; [reflexivity|].
  cbn [mdeps_loop]. apply IH.
Qed.

Lemma gdeps_mdeps : forall f g b, (forall ds acc, f ds acc = g ds acc) ->
  Forall (fun n => gen_dependencies (embed_node n) = Ok (node_deps n)) b ->
  forall acc, gdeps_loop f (map embed_node b) acc = Ok (mdeps_loop g b acc).
Proof.
  intros f g b Hfg H. induction H as [|x l Hx Hl IH]; intros acc; cbn [map gdeps_loop mdeps_loop]; [reflexivity|].
  rewrite Hx, Hfg. apply IH.
Qed.

Theorem gen_dependencies_eq : forall n, gen_dependencies (embed_node n) = Ok (node_deps n).
Proof.
  induction n as [vs dur|body c IHb|body len IHb] using node_ind2.
  - cbn. now rewrite hold_deps_eq.
  - change (embed_node (NRepeat body c)) with (GLinSpaceRepeat (map embed_node body) c).
    rewrite gen_dependencies_rep, node_deps_rep. apply gdeps_mdeps; [apply rep_loop2_eq|exact IHb].
  - change (embed_node (NIter body len)) with (GLinSpaceIter (map embed_node body) len).
    rewrite gen_dependencies_iter, node_deps_iter. apply gdeps_mdeps; [apply iter_loop2_eq|exact IHb].
Qed.

(* ---------------------------------------------------------------------------------------------------------------- *)
(* get_dependency_state, _entry_state_unchanged_since *)

Theorem gen_get_dependency_state_eq : forall st cs ds, gen_get_dependency_state (gts_of st cs) ds = get_dependency_state st ds.
Proof.
  intros st cs ds. unfold gen_get_dependency_state, get_dependency_state. cbn [gts_of gts_dep_states].
  induction ds as [|[ch deps] ds IH]; cbn [flat_map fst snd]; [reflexivity|]. rewrite IH. f_equal.
  apply map_ext. intros dep. now rewrite gen_from_voltages_eq.
Qed.

Lemma forallb_ext' {A} : forall (f g : A -> bool) l, (forall x, f x = g x) -> forallb f l = forallb g l.
Proof. intros f g l H. induction l; cbn; [reflexivity|]. now rewrite H, IHl. Qed.

Theorem gen_entry_state_unchanged_since_eq : forall st st1 cs,
  gen_entry_state_unchanged_since (gts_of st1 cs) (t_active st) (t_plain st) (t_deps st) = entry_unchanged st st1.
Proof.
  intros st st1 cs. unfold gen_entry_state_unchanged_since, entry_unchanged. cbn [gts_of gts_active_dep gts_plain_voltage gts_dep_states].
  f_equal; [f_equal|]; apply forallb_ext'.
  - intros [ch k]. cbn. apply opt_is_key.
  - intros [ch v]. cbn. apply opt_is_q.
  - intros [[ch k] s]. cbn. destruct (alookup ck_eqb (ch, k) (t_deps st1)); reflexivity.
Qed.

(* ---------------------------------------------------------------------------------------------------------------- *)
(* list primitives on the shapes the translator state has *)

Lemma remove_nth_middle {A} : forall (l : list A) x r, remove_nth (length l) (l ++ x :: r) = Some (l ++ r).
Proof. induction l as [|a l IH]; intros x r; cbn; [reflexivity|]. now rewrite IH. Qed.
Lemma set_last_snoc {A} : forall (l : list A) x v, set_last v (l ++ [x]) = Some (l ++ [v]).
Proof.
  induction l as [|a l IH]; intros x v; [reflexivity|]. cbn [app set_last]. rewrite IH.
  destruct (l ++ [x]) eqn:E; [destruct l; discriminate|reflexivity].
Qed.
Lemma pop_last_snoc {A} : forall (l : list A) x, pop_last (l ++ [x]) = Some l.
Proof. intros l x. unfold pop_last. rewrite removelast_last. destruct (l ++ [x]) eqn:E; [destruct l; discriminate|reflexivity]. Qed.

Lemma gts_of_snoc : forall st cs c,
  mkGts (t_label st) (map embed cs ++ [embed c]) (t_iters st) (t_active st) (t_deps st) (t_plain st) = gts_of st (cs ++ [c]).
Proof. intros. unfold gts_of. now rewrite map_app. Qed.

Lemma tr_nodes_iters : forall B st cs st', tr_nodes B st = Ok (cs, st') -> t_iters st' = t_iters st.
Proof. intros B st cs st' H. destruct (nodes_summ _ _ _ _ H) as [(_ & _ & _ & Hit & _) _]. exact Hit. Qed.

(* ---------------------------------------------------------------------------------------------------------------- *)
(* add_node *)

Definition node_refines (n : node) : Prop :=
  forall st cs0, tr_refines cs0 (tr_node n st) (gen_add_node (embed_node n) (gts_of st cs0)).
Definition seq_refines (l : list node) : Prop :=
  forall st cs0, tr_refines cs0 (tr_nodes l st) (gen_add_node_seq (map embed_node l) (gts_of st cs0)).

Lemma gen_add_node_seq_cons : forall x l g,
  gen_add_node_seq (x :: l) g = match gen_add_node x g with Err e => Err e | Ok g' => gen_add_node_seq l g' end.
Proof. reflexivity. Qed.

Lemma seq_of_forall : forall l, Forall node_refines l -> seq_refines l.
Proof.
  intros l H. induction H as [|x l Hx Hl IH]; intros st cs0.
  - cbn. now rewrite app_nil_r.
  - cbn [map]. rewrite gen_add_node_seq_cons, tr_nodes_cons. specialize (Hx st cs0). unfold tr_refines in Hx.
    destruct (tr_node x st) as [[c1 st1]|e]; cbn [bind]; rewrite Hx; [|reflexivity].
    specialize (IH st1 (cs0 ++ c1)). unfold tr_refines in IH.
    destruct (tr_nodes l st1) as [[c2 st2]|e]; cbn [bind tr_refines]; rewrite IH; [|reflexivity].
    now rewrite app_assoc.
Qed.

Lemma gen_add_node_rep : forall b c g, gen_add_node (GLinSpaceRepeat b c) g = gen_add_repetition_node gen_add_node_seq g b c.
Proof. reflexivity. Qed.
Lemma gen_add_node_iter : forall b c g, gen_add_node (GLinSpaceIter b c) g = gen_add_iteration_node gen_add_node_seq g b c.
Proof. reflexivity. Qed.
Lemma gen_add_node_hold : forall a b c d g, gen_add_node (GLinSpaceHold a b c d) g = gen_add_hold_node g a b c d.
Proof. reflexivity. Qed.

Ltac norm_cmds := repeat (first [rewrite !map_app | rewrite <- !app_assoc | progress (cbn [map embed app])]).

Lemma iter_refines : forall body len, seq_refines body -> node_refines (NIter body len).
Proof.
  intros body len Hs st cs0.
  change (embed_node (NIter body len)) with (GLinSpaceIter (map embed_node body) len).
  rewrite gen_add_node_iter, tr_node_iter. unfold gen_add_iteration_node. cbv zeta.
  cbn [gts_of gts_label_num gts_commands gts_iterations gts_active_dep gts_dep_states gts_plain_voltage].
  pose proof (Hs (with_iters st (t_iters st ++ [0%Z])) cs0) as H1. unfold tr_refines in H1.
  change (mkGts (t_label st) (map embed cs0) (t_iters st ++ [0%Z]) (t_active st) (t_deps st) (t_plain st))
    with (gts_of (with_iters st (t_iters st ++ [0%Z])) cs0).
  destruct (tr_nodes body (with_iters st (t_iters st ++ [0%Z]))) as [[cs1 st1]|e] eqn:E1; cbn [bind]; rewrite H1; [|reflexivity].
  pose proof (tr_nodes_iters _ _ _ _ E1) as I1. cbn [with_iters t_iters] in I1.
  rewrite Z.gtb_ltb. destruct (1 <? len)%Z.
  - cbn [gts_of gts_label_num gts_commands gts_iterations gts_active_dep gts_dep_states gts_plain_voltage].
    rewrite I1, set_last_snoc. unfold gen_new_loop.
    cbn [gts_label_num gts_commands gts_iterations gts_active_dep gts_dep_states gts_plain_voltage].
    set (stb := mkT (t_label st1 + 1)%Z (t_iters st ++ [(len - 1)%Z]) (t_active st1) (t_deps st1) (t_plain st1) (t_stable st1)).
    pose proof (Hs stb (cs0 ++ cs1 ++ [CLabel (t_label st1) (len - 1)])) as H2. unfold tr_refines in H2.
    replace (mkGts (t_label st1 + 1) (map embed (cs0 ++ cs1) ++ [GLoopLabel (t_label st1) (len - 1)]) (t_iters st ++ [(len - 1)%Z])
               (t_active st1) (t_deps st1) (t_plain st1))
      with (gts_of stb (cs0 ++ cs1 ++ [CLabel (t_label st1) (len - 1)])).
    2:{ unfold gts_of, stb. cbn. rewrite !map_app. cbn. now rewrite app_assoc. }
    destruct (tr_nodes body stb) as [[cs2 st2]|e] eqn:E2; cbn [bind]; rewrite H2; [|reflexivity].
    pose proof (tr_nodes_iters _ _ _ _ E2) as I2. unfold stb in I2. cbn [t_iters] in I2.
    cbn [gts_of gts_label_num gts_commands gts_iterations gts_active_dep gts_dep_states gts_plain_voltage].
    rewrite I2, pop_last_snoc. cbn [tr_refines]. unfold gts_of, with_iters. cbn. f_equal. f_equal.
    norm_cmds. reflexivity.
  - cbn [gts_of gts_label_num gts_commands gts_iterations gts_active_dep gts_dep_states gts_plain_voltage].
    rewrite I1, pop_last_snoc. cbn [tr_refines]. reflexivity.
Qed.

Lemma rep_refines : forall body count, seq_refines body -> node_refines (NRepeat body count).
Proof.
  intros body count Hs st cs0.
  change (embed_node (NRepeat body count)) with (GLinSpaceRepeat (map embed_node body) count).
  rewrite gen_add_node_rep, tr_node_rep. unfold gen_add_repetition_node. cbv zeta.
  change (GLinSpaceRepeat (map embed_node body) count) with (embed_node (NRepeat body count)).
  rewrite gen_dependencies_eq, gen_get_dependency_state_eq. unfold gen_new_loop.
  cbn [gts_of gts_label_num gts_commands gts_iterations gts_active_dep gts_dep_states gts_plain_voltage fst snd].
  replace (mkGts (t_label st + 1) (map embed cs0 ++ [GLoopLabel (t_label st) count]) (t_iters st) (t_active st) (t_deps st) (t_plain st))
    with (gts_of (with_label st (t_label st + 1)) (cs0 ++ [CLabel (t_label st) count]))
    by (unfold gts_of, with_label; cbn; now rewrite map_app).
  pose proof (Hs (with_label st (t_label st + 1)) (cs0 ++ [CLabel (t_label st) count])) as H1. unfold tr_refines in H1.
  destruct (tr_nodes body (with_label st (t_label st + 1))) as [[cs1 st1]|e] eqn:E1; cbn [bind]; rewrite H1; [|reflexivity].
  rewrite gen_get_dependency_state_eq, gen_entry_state_unchanged_since_eq. rewrite <- negb_andb.
  destruct (set_eqb (get_dependency_state st (node_deps (NRepeat body count))) (get_dependency_state st1 (node_deps (NRepeat body count)))
            && entry_unchanged st st1); cbn [negb].
  - cbn [tr_refines]. unfold gts_of. cbn. f_equal. f_equal. norm_cmds. reflexivity.
  - cbn [gts_of gts_label_num gts_commands gts_iterations gts_active_dep gts_dep_states gts_plain_voltage].
    replace (map embed ((cs0 ++ [CLabel (t_label st) count]) ++ cs1)) with (map embed cs0 ++ GLoopLabel (t_label st) count :: map embed cs1)
      by (norm_cmds; reflexivity).
    rewrite remove_nth_middle. rewrite Z.gtb_ltb.
    destruct (0 <? count - 1)%Z.
    + cbn [gts_label_num gts_commands gts_iterations gts_active_dep gts_dep_states gts_plain_voltage].
      replace (mkGts (t_label st1) ((map embed cs0 ++ map embed cs1) ++ [GLoopLabel (t_label st) (count - 1)]) (t_iters st1) (t_active st1)
                 (t_deps st1) (t_plain st1))
        with (gts_of st1 (cs0 ++ cs1 ++ [CLabel (t_label st) (count - 1)])) by (unfold gts_of; norm_cmds; reflexivity).
      pose proof (Hs st1 (cs0 ++ cs1 ++ [CLabel (t_label st) (count - 1)])) as H2. unfold tr_refines in H2.
      destruct (tr_nodes body st1) as [[cs2 st2]|e] eqn:E2; cbn [bind]; rewrite H2; [|reflexivity].
      cbn [tr_refines]. unfold gts_of. cbn. f_equal. f_equal. norm_cmds. reflexivity.
    + cbn [tr_refines]. unfold gts_of. cbn. f_equal. f_equal. norm_cmds. reflexivity.
Qed.

Theorem gen_add_node_refines : forall n, node_refines n.
Proof.
  induction n as [vs dur|body c IHb|body len IHb] using node_ind2.
  - intros st cs0. change (embed_node (NHold vs dur)) with (GLinSpaceHold (map fst vs) (map snd vs) dur []).
    rewrite gen_add_node_hold. apply gen_add_hold_node_refines.
  - apply rep_refines, seq_of_forall, IHb.
  - apply iter_refines, seq_of_forall, IHb.
Qed.

Theorem gen_add_node_seq_refines : forall l, seq_refines l.
Proof. intros l. apply seq_of_forall, Forall_forall. intros n _. apply gen_add_node_refines. Qed.

(* to_increment_commands = translate *)
Theorem gen_to_increment_commands_eq : forall prog,
  gen_to_increment_commands (map embed_node prog) = match translate prog with Ok cs => Ok (map embed cs) | Err e => Err e end.
Proof.
  intros prog. unfold gen_to_increment_commands, translate. cbv zeta.
  change gen_translation_state_default with (gts_of t0 []).
  pose proof (gen_add_node_seq_refines prog t0 []) as H. unfold tr_refines in H.
  destruct (tr_nodes prog t0) as [[cs st]|e]; cbn [bind]; rewrite H; reflexivity.
Qed.

(* LinSpaceVM.__init__ *)
Theorem gen_vm_init_eq : forall channels, gen_vm_init channels = gvm_init channels.
Proof. reflexivity. Qed.

(* LinSpaceVM.run (while current_command < len(commands): step(), with fuel) is the loop the round-3 refinement is stated for *)
Theorem gen_run_eq : forall fuel g, gen_run fuel g = gen_run_n fuel g.
Proof. induction fuel as [|f IH]; intros g; cbn [gen_run gen_run_n]; [reflexivity|]. unfold gvm_running. destruct (Nat.ltb _ _); [|reflexivity]. destruct (gen_step g); [apply IH|reflexivity]. Qed.

(* ---------------------------------------------------------------------------------------------------------------- *)
(* LinSpaceBuilder.hold_voltage: the loop over the open iterations that turns one SimpleExpression into (base, factors) *)

(* the model's positional ranges (start, step) of the builder's named ranges *)
Definition rs_of (nrs : list (nat * grange)) : list (Z * Z) := map (fun nr => (range_start (snd nr), range_step (snd nr))) nrs.

(* the positional coefficients the model's `VAff base coefs` stands for, given the open iterations by NAME (outermost first) and
   the offsets of the SimpleExpression by name: a level whose name is bound again further in is shadowed (coefficient 0),
   a name without offset has coefficient 0 *)
Fixpoint pos_coefs (rs : list (nat * grange)) (offsets : list (nat * Q)) : list Q :=
  match rs with
  | [] => []
  | (name, _) :: rs' =>
      (if existsb (fun nr : nat * grange => Nat.eqb (fst nr) name) rs' then 0%Q
       else match alookup Nat.eqb name offsets with Some o => o | None => 0%Q end) :: pos_coefs rs' offsets
  end.

Lemma not_shadowed_b : forall (l : list (nat * grange)) name,
  forallb (fun '(inner_name, _) => negb (Nat.eqb inner_name name)) l = negb (existsb (fun nr => Nat.eqb (fst nr) name) l).
Proof. induction l as [|[n r] l IH]; intros name; cbn; [reflexivity|]. rewrite IH. now rewrite negb_orb. Qed.

Lemma nth_coef_middle : forall pre c post, nth_coef (pre ++ c :: post) (length pre) = c.
Proof. intros. unfold nth_coef. now rewrite nth_middle. Qed.

Lemma hold_voltage_loop_eq : forall offsets rs pre base incs acc,
  incs = rev acc ->
  gen_hold_voltage_loop2 rs offsets base incs = aff_walk (rs_of rs) (pre ++ pos_coefs rs offsets) (length pre) base acc.
Proof.
  intros offsets. induction rs as [|[name rng] rs IH]; intros pre base incs acc Hi.
  - cbn. now subst.
  - cbn [gen_hold_voltage_loop2 rs_of map snd aff_walk pos_coefs fst]. rewrite nth_coef_middle. rewrite not_shadowed_b.
    fold (rs_of rs).
    set (c0 := if existsb (fun nr : nat * grange => Nat.eqb (fst nr) name) rs then 0%Q
               else match alookup Nat.eqb name offsets with Some o => o | None => 0%Q end).
    assert (Hpre : forall X, pre ++ c0 :: X = (pre ++ [c0]) ++ X) by (intros; now rewrite <- app_assoc).
    assert (Hlen : S (length pre) = length (pre ++ [c0])) by (rewrite app_length; cbn; lia).
    rewrite Hpre, Hlen.
    destruct (alookup Nat.eqb name offsets) as [o|] eqn:Eo.
    + destruct (Qeq_bool o 0) eqn:Ez; cbn [negb andb].
      * assert (Ec : Qeq_bool c0 0 = true).
        { unfold c0. destruct (existsb _ rs); [reflexivity|exact Ez]. }
        rewrite Ec. apply IH. cbn [rev]. now subst.
      * destruct (existsb (fun nr : nat * grange => Nat.eqb (fst nr) name) rs) eqn:Es; cbn [negb].
        -- assert (Ec : Qeq_bool c0 0 = true) by (unfold c0; reflexivity).
           rewrite Ec. apply IH. cbn [rev]. now subst.
        -- assert (Ec : c0 = o) by (unfold c0; reflexivity). clearbody c0. subst c0. rewrite Ez. apply IH. cbn [rev]. now subst.
    + assert (Ec : Qeq_bool c0 0 = true) by (unfold c0; destruct (existsb _ rs); reflexivity).
      rewrite Ec. apply IH. cbn [rev]. now subst.
Qed.

(* hold_voltage on a SimpleExpression = the model's build_volt on `VAff base (pos_coefs ..)`; on a plain number = VPlain *)
Theorem gen_hold_voltage_expr_eq : forall rs offsets base,
  build_volt (rs_of rs) (VAff base (pos_coefs rs offsets)) = Ok (gen_hold_voltage_expr rs offsets base).
Proof.
  intros rs offsets base. unfold build_volt, gen_hold_voltage_expr. cbv zeta.
  rewrite (hold_voltage_loop_eq offsets rs [] base [] [] eq_refl). cbn [app length].
  destruct (aff_walk (rs_of rs) (pos_coefs rs offsets) 0 base []) as [b2 i2]. reflexivity.
Qed.

Theorem gen_hold_voltage_plain_eq : forall rs q, build_volt rs (VPlain q) = Ok (gen_hold_voltage_plain q).
Proof. reflexivity. Qed.

(* ---------------------------------------------------------------------------------------------------------------- *)
(* LinSpaceBuilder as a state machine (translated: hold_voltage, with_repetition / with_iteration / with_sequence split at the
   yield, to_program) driven the way the pulse templates drive it.  Sources with loop indices by NAME: *)

Inductive nvolt :=
| NVNum (q : Q)                                   (* a plain number *)
| NVExpr (base : Q) (offsets : list (nat * Q)).   (* SimpleExpression(base, offsets by index name) *)

Inductive nsrc :=
| NSHold (dur : Q) (vs : list nvolt)              (* voltages in builder channel order *)
| NSSeq (l : list nsrc)
| NSRep (count : Z) (body : nsrc)
| NSIter (name : nat) (start stop step : Z) (body : nsrc).

Definition to_volt (nrs : list (nat * grange)) (v : nvolt) : volt :=
  match v with NVNum q => VPlain q | NVExpr b offs => VAff b (pos_coefs nrs offs) end.

(* the positional source (Model.src) a named source stands for, inside the open iterations nrs *)
Fixpoint to_src (nrs : list (nat * grange)) (s : nsrc) : src :=
  match s with
  | NSHold d vs => SHold d (map (to_volt nrs) vs)
  | NSSeq l => SSeq (map (to_src nrs) l)
  | NSRep c b => SRep c (to_src nrs b)
  | NSIter n a b c body => SIter a b c (to_src (nrs ++ [(n, (a, b, c))]) body)
  end.

Definition gval (v : nvolt) : gvalue := match v with NVNum q => GNum q | NVExpr b offs => GExpr b offs end.

(* what the pulse templates do with a builder (hand-written; the python protocol `for b in builder.with_x(..): <body>` runs the
   part before the yield, the body if the generator yielded, the part after the yield):
   ConstantPT: hold_voltage unless the duration is not positive; SequencePT: with_sequence around the parts; RepetitionPT:
   with_repetition only for a positive count; ForLoopPT: with_iteration with the range *)
Fixpoint drive (s : nsrc) (b : gbuilder) {struct s} : res gbuilder :=
  match s with
  | NSHold dur vs => if Qpos_b dur then gen_hold_voltage b (GNum dur) (map gval vs) else Ok b
  | NSSeq l =>
      let? '(b1, _) := gen_with_sequence_enter b in
      let? b2 := (fix go (l : list nsrc) (b : gbuilder) : res gbuilder :=
                    match l with [] => Ok b | x :: l' => let? b' := drive x b in go l' b' end) l b1 in
      gen_with_sequence_exit b2
  | NSRep count body =>
      if count <=? 0 then Ok b else
      let? '(b1, entered) := gen_with_repetition_enter b count in
      if entered then let? b2 := drive body b1 in gen_with_repetition_exit b2 count else Ok b1
  | NSIter n a bb c body =>
      let? '(b1, entered) := gen_with_iteration_enter b n (a, bb, c) in
      if entered then let? b2 := drive body b1 in gen_with_iteration_exit b2 n (a, bb, c) else Ok b1
  end.

Section nsrc_ind2.
  Variable P : nsrc -> Prop.
  Hypothesis Hh : forall d vs, P (NSHold d vs).
  Hypothesis Hs : forall l, Forall P l -> P (NSSeq l).
  Hypothesis Hr : forall c b, P b -> P (NSRep c b).
  Hypothesis Hi : forall n a b c body, P body -> P (NSIter n a b c body).
  Fixpoint nsrc_ind2 (s : nsrc) : P s :=
    match s with
    | NSHold d vs => Hh d vs
    | NSSeq l => Hs l ((fix go (l : list nsrc) : Forall P l :=
                          match l with [] => Forall_nil P | x :: l' => Forall_cons x (nsrc_ind2 x) (go l') end) l)
    | NSRep c b => Hr c b (nsrc_ind2 b)
    | NSIter n a b c body => Hi n a b c body (nsrc_ind2 body)
    end.
End nsrc_ind2.

Lemma pop_last_v_snoc {A} : forall (l : list A) x, pop_last_v (l ++ [x]) = Some (l, x).
Proof.
  induction l as [|a l IH]; intros x; [reflexivity|]. cbn [app pop_last_v]. rewrite IH.
  destruct (l ++ [x]) eqn:E; [destruct l; discriminate|reflexivity].
Qed.
Lemma stack_top_append_snoc {A} : forall (frames : list (list A)) top x,
  stack_top_append x (frames ++ [top]) = Some (frames ++ [top ++ [x]]).
Proof.
  induction frames as [|f frames IH]; intros top x; [reflexivity|]. cbn [app stack_top_append]. rewrite IH.
  destruct (frames ++ [top]) eqn:E; [destruct frames; discriminate|reflexivity].
Qed.

Lemma hold_loop1_eq : forall nrs vs bases factors,
  match build_volts (rs_of nrs) (map (to_volt nrs) vs) with
  | Ok nvs => gen_hold_voltage_loop1 (map gval vs) nrs bases factors = (bases ++ map fst nvs, factors ++ map snd nvs)
  | Err _ => False
  end.
Proof.
  intros nrs. induction vs as [|v vs IH]; intros bases factors; cbn [map build_volts gen_hold_voltage_loop1].
  - now rewrite !app_nil_r.
  - destruct v as [q|base offs]; cbn [to_volt gval].
    + cbn [build_volt bind]. specialize (IH (bases ++ [q]) (factors ++ [None])).
      destruct (build_volts (rs_of nrs) (map (to_volt nrs) vs)) as [nvs|e]; [|exact IH]. cbn [bind map fst snd].
      rewrite IH, <- !app_assoc. reflexivity.
    + pose proof (gen_hold_voltage_expr_eq nrs offs base) as E. rewrite E. cbn [bind]. unfold gen_hold_voltage_expr in *. cbv zeta in *.
      destruct (gen_hold_voltage_loop2 nrs offs base []) as [b incs].
      specialize (IH (bases ++ [b]) (factors ++ [Some incs])).
      destruct (build_volts (rs_of nrs) (map (to_volt nrs) vs)) as [nvs|e]; [|exact IH]. cbn [bind map fst snd].
      rewrite IH, <- !app_assoc. reflexivity.
Qed.

Definition drive_stmt (s : nsrc) : Prop :=
  forall frames top nrs fi,
    match build (to_src nrs s) (rs_of nrs) with
    | Ok nodes => drive s (mkGb (frames ++ [top]) nrs fi) = Ok (mkGb (frames ++ [top ++ map embed_node nodes]) nrs fi)
    | Err _ => False
    end.

Lemma rs_of_snoc : forall nrs n a b c, rs_of (nrs ++ [(n, (a, b, c))]) = rs_of nrs ++ [(a, c)].
Proof. intros. unfold rs_of. rewrite map_app. reflexivity. Qed.

(* rewriting under `let?` up to conversion (grange vs Z * Z * Z in implicit arguments) *)
Ltac rw_bind H := match type of H with _ = ?R => match goal with |- bind ?X ?K = _ => replace X with R by (symmetry; exact H) end end.

Theorem drive_is_build : forall s, drive_stmt s.
Proof.
  induction s as [d vs|l IHl|c body IH|n a b c body IH] using nsrc_ind2; intros frames top nrs fi.
  - (* hold *)
    cbn [to_src build drive]. destruct (Qpos_b d).
    + pose proof (hold_loop1_eq nrs vs [] []) as H.
      destruct (build_volts (rs_of nrs) (map (to_volt nrs) vs)) as [nvs|e]; [|exact H]. cbn [bind].
      unfold gen_hold_voltage. cbv zeta. cbn [gb_ranges gb_stack gb_frame_index]. rewrite H. cbn [app].
      rewrite stack_top_append_snoc. reflexivity.
    + cbn [map]. now rewrite app_nil_r.
  - (* sequence *)
    cbn [to_src build drive gen_with_sequence_enter gen_with_sequence_exit bind].
    revert top. induction IHl as [|x l Hx Hl IH2]; intros top; cbn [map].
    + cbn. now rewrite app_nil_r.
    + specialize (Hx frames top nrs fi). destruct (build (to_src nrs x) (rs_of nrs)) as [n1|e]; [|exact Hx]. cbn [bind].
      rewrite Hx. cbn [bind]. specialize (IH2 (top ++ map embed_node n1)).
      match goal with |- match (let? b := ?X in _) with _ => _ end => destruct X as [n2|e] end; [|exact IH2]. cbn [bind].
      match type of IH2 with (let? b2 := ?G in _) = _ => destruct G as [b2|e] eqn:EG end; cbn [bind] in IH2; [|discriminate].
      cbn [bind]. unfold gen_with_sequence_exit in *. inversion IH2; subst. rewrite map_app, app_assoc. reflexivity.
  - (* repetition *)
    cbn [to_src build drive]. destruct (c <=? 0)%Z eqn:Ec; [cbn [map]; now rewrite app_nil_r|].
    unfold gen_with_repetition_enter. assert (E0 : (c =? 0)%Z = false) by (apply Z.eqb_neq; apply Z.leb_gt in Ec; lia). rewrite E0.
    cbn [gb_ranges gb_stack gb_frame_index bind].
    specialize (IH (frames ++ [top]) [] nrs (fi ++ [None])).
    destruct (build (to_src nrs body) (rs_of nrs)) as [blocks|e]; [|exact IH]. cbn [bind]. rewrite IH. cbn [bind app].
    unfold gen_with_repetition_exit. cbn [gb_ranges gb_stack gb_frame_index]. rewrite !pop_last_v_snoc.
    destruct blocks as [|x blocks]; cbn [map is_nil negb].
    + now rewrite app_nil_r.
    + rewrite stack_top_append_snoc. reflexivity.
  - (* iteration *)
    cbn [to_src build drive]. unfold gen_with_iteration_enter.
    change (range_length (a, b, c)) with (range_len a b c).
    destruct (range_len a b c =? 0)%Z; [cbn [bind map]; now rewrite app_nil_r|].
    cbn [gb_ranges gb_stack gb_frame_index bind].
    specialize (IH (frames ++ [top]) [] (nrs ++ [(n, (a, b, c))]) (fi ++ [Some n])). rewrite rs_of_snoc in IH.
    destruct (build (to_src (nrs ++ [(n, (a, b, c))]) body) (rs_of nrs ++ [(a, c)])) as [cmds|e]; [|exact IH]. cbn [bind].
    destruct cmds as [|x cmds]; cbv beta iota; rw_bind IH; cbn [bind app]; unfold gen_with_iteration_exit; cbn [gb_ranges gb_stack gb_frame_index];
      rewrite !pop_last_v_snoc; change (range_length (a, b, c)) with (range_len a b c); cbn [map is_nil negb].
    + now rewrite app_nil_r.
    + rewrite stack_top_append_snoc. reflexivity.
Qed.

(* a whole program: LinSpaceBuilder(channels), the templates' calls, to_program() *)
Theorem builder_program_eq : forall s,
  match build_program (to_src [] s) with
  | Ok nodes => exists b, drive s gen_builder_init = Ok b /\
                          gen_to_program b = Ok (match nodes with [] => None | _ => Some (map embed_node nodes) end)
  | Err _ => False
  end.
Proof.
  intros s. pose proof (drive_is_build s [] [] [] [None]) as H. unfold build_program. cbn [rs_of map app] in H.
  destruct (build (to_src [] s) []) as [nodes|e]; [|exact H].
  eexists. split; [exact H|]. unfold gen_to_program. cbn. destruct nodes; reflexivity.
Qed.
