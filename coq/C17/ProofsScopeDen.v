(* C17 — round 5: an INDEPENDENT denotation of templates with index rebinding mappings, and the proof that Scope.flatten
   (substitution into the affine forms, what C17_staircase_scoped is stated with) computes it.

   unroll2 evaluates a src2 term over an environment of RATIONAL index values: `S2Remap level scale shift body` plays `body`
   in the environment whose entry `level` is replaced by scale * value + shift (what MappingPT does to the scope: the inner name
   is bound to the value of the mapped expression); an iteration appends its index value.  No substitution into voltages. *)
From Coq Require Import ZArith QArith List Bool Lia Setoid.
Require Import QV.C17.Model QV.C17.Spec QV.C17.Proofs QV.C17.SimDefs QV.C17.ProofsBuild QV.C17.Scope QV.C17.ProofsScope QV.C17.ProofsStair.
Import ListNotations.
Local Open Scope Z_scope.

Fixpoint dotQ (coefs : list Q) (env : list Q) : Q :=
  match coefs, env with
  | c :: cs, x :: xs => (c * x + dotQ cs xs)%Q
  | _, _ => 0%Q
  end.

Definition eval_voltQ (env : list Q) (v : volt) : Q :=
  match v with
  | VPlain q => q
  | VInt z => inject_Z z
  | VAff base coefs => (base + dotQ coefs env)%Q
  end.

Fixpoint remap_env (lvl : nat) (sc sh : Q) (env : list Q) : list Q :=
  match env, lvl with
  | [], _ => []
  | x :: r, O => (sc * x + sh)%Q :: r
  | x :: r, S l => x :: remap_env l sc sh r
  end.

Fixpoint unroll2 (s : src2) (env : list Q) (t : Q) {struct s} : steps_t * Q :=
  match s with
  | S2Hold dur vs => if Qpos_b dur then ([(t, map (eval_voltQ env) vs)], (t + dur)%Q) else ([], t)
  | S2Seq l =>
      (fix go (l : list src2) (t : Q) : steps_t * Q :=
         match l with
         | [] => ([], t)
         | x :: l' => let '(a, t1) := unroll2 x env t in let '(b, t2) := go l' t1 in (a ++ b, t2)
         end) l t
  | S2Rep count body => play_rep (unroll2 body env) (Z.to_nat count) t
  | S2Iter start stop step body =>
      play_iter (fun i t => unroll2 body (env ++ [inject_Z i]) t) (range_vals start step (Z.to_nat (range_len start stop step))) t
  | S2Remap lvl sc sh body => unroll2 body (remap_env lvl sc sh env) t
  end.

Definition denotation2 (s : src2) : steps_t * Q := unroll2 s [] 0%Q.

(* every rebinding refers to an enclosing iteration *)
Fixpoint wf2 (depth : nat) (s : src2) : bool :=
  match s with
  | S2Hold _ _ => true
  | S2Seq l => (fix go (l : list src2) : bool := match l with [] => true | x :: l' => wf2 depth x && go l' end) l
  | S2Rep _ b => wf2 depth b
  | S2Iter _ _ _ body => wf2 (S depth) body
  | S2Remap lvl _ _ body => Nat.ltb lvl depth && wf2 depth body
  end.

(* ---- the algebra of one rebinding *)
Lemma dotQ_remap : forall coefs lvl sc sh env, (lvl < length env)%nat ->
  (dotQ coefs (remap_env lvl sc sh env) == nth_coef coefs lvl * sh + dotQ (scale_nth lvl sc coefs) env)%Q.
Proof.
  induction coefs as [|c coefs IH]; intros lvl sc sh env Hl.
  - unfold nth_coef. destruct lvl, env; cbn; ring.
  - destruct env as [|x env]; [cbn in Hl; lia|]. destruct lvl as [|lvl].
    + cbn. unfold nth_coef. cbn. ring.
    + cbn [remap_env dotQ scale_nth]. rewrite IH by (cbn in Hl; lia). unfold nth_coef. cbn [nth]. ring.
Qed.

Lemma eval_remap : forall v lvl sc sh env, (lvl < length env)%nat ->
  (eval_voltQ (remap_env lvl sc sh env) v == eval_voltQ env (remap_volt (lvl, (sc, sh)) v))%Q.
Proof.
  intros [q|z|base coefs] lvl sc sh env Hl; cbn; try reflexivity.
  rewrite dotQ_remap by exact Hl. ring.
Qed.

Lemma remap_env_length : forall lvl sc sh env, length (remap_env lvl sc sh env) = length env.
Proof. induction lvl; intros sc sh [|x env]; cbn; auto. Qed.

Lemma remap_env_app : forall lvl sc sh env x, (lvl < length env)%nat -> remap_env lvl sc sh (env ++ x) = remap_env lvl sc sh env ++ x.
Proof.
  induction lvl; intros sc sh [|y env] x Hl; cbn in *; try lia; auto. f_equal. apply IHlvl. lia.
Qed.

(* the environment a hold sees under the active rebindings (innermost first) *)
Definition env_under (subst : list (nat * (Q * Q))) (env : list Q) : list Q :=
  fold_right (fun r e => remap_env (fst r) (fst (snd r)) (snd (snd r)) e) env subst.

Lemma env_under_cons : forall r subst env,
  env_under (r :: subst) env = remap_env (fst r) (fst (snd r)) (snd (snd r)) (env_under subst env).
Proof. reflexivity. Qed.

Lemma env_under_length : forall subst env, length (env_under subst env) = length env.
Proof. induction subst as [|r subst IH]; intros env; [reflexivity|]. rewrite env_under_cons, remap_env_length. apply IH. Qed.

Lemma env_under_app : forall subst env x, forallb (fun r => Nat.ltb (fst r) (length env)) subst = true ->
  env_under subst (env ++ x) = env_under subst env ++ x.
Proof.
  induction subst as [|r subst IH]; intros env x H; [reflexivity|]. cbn [forallb] in H. apply andb_prop in H as [H1 H2].
  rewrite !env_under_cons, IH by auto. apply remap_env_app. rewrite env_under_length. apply Nat.ltb_lt. exact H1.
Qed.

Lemma eval_under : forall subst v env, forallb (fun r => Nat.ltb (fst r) (length env)) subst = true ->
  (eval_voltQ (env_under subst env) v == eval_voltQ env (apply_subst subst v))%Q.
Proof.
  induction subst as [|[lvl [sc sh]] subst IH]; intros v env H; [reflexivity|].
  cbn [forallb fst] in H. apply andb_prop in H as [H1 H2]. unfold apply_subst. rewrite env_under_cons. cbn [fold_left fst snd].
  rewrite eval_remap by (rewrite env_under_length; apply Nat.ltb_lt; exact H1).
  apply (IH (remap_volt (lvl, (sc, sh)) v) env H2).
Qed.

Lemma dot_dotQ : forall coefs env, (dot coefs env == dotQ coefs (map inject_Z env))%Q.
Proof. induction coefs as [|c coefs IH]; intros [|i env]; cbn; try reflexivity. rewrite IH. reflexivity. Qed.

Lemma eval_volt_Q : forall v env, (eval_volt env v == eval_voltQ (map inject_Z env) v)%Q.
Proof. intros [q|z|b cs] env; cbn; try reflexivity. rewrite dot_dotQ. reflexivity. Qed.

(* ---- flatten computes the denotation *)
Definition den_stmt (s : src2) : Prop :=
  forall subst env t, wf2 (length env) s = true -> forallb (fun r => Nat.ltb (fst r) (length env)) subst = true ->
    prel (unroll2 s (env_under subst (map inject_Z env)) t) (unroll (flatten false (length env) subst s) env t).

Lemma ltb_weaken : forall subst n, forallb (fun r : nat * (Q * Q) => Nat.ltb (fst r) n) subst = true ->
  forallb (fun r : nat * (Q * Q) => Nat.ltb (fst r) (S n)) subst = true.
Proof.
  intros subst n H. rewrite forallb_forall in *. intros r Hr. specialize (H r Hr). apply Nat.ltb_lt in H. apply Nat.ltb_lt. lia.
Qed.

Lemma flatten_den : forall s, den_stmt s.
Proof.
  induction s as [dur vs|l IHl|c b IHb|a b c body IHb|lv sc sh body IHb] using src2_ind2; intros subst env t Hwf Hs.
  - cbn [unroll2 flatten unroll]. destruct (Qpos_b dur); [|apply prel_nil].
    split; cbn; auto. constructor; [|constructor]. split; auto. cbn [snd].
    rewrite map_map. clear Hwf. induction vs as [|v vs IH]; cbn; constructor; auto.
    rewrite eval_under by (rewrite map_length; exact Hs). rewrite <- eval_volt_Q. reflexivity.
  - cbn [unroll2 flatten]. rewrite unroll_seq. cbn [wf2] in Hwf. revert t Hwf.
    induction IHl as [|x l Hx Hl IH]; intros t Hwf; [apply prel_nil|].
    apply andb_prop in Hwf as [W1 W2]. cbn [useq].
    apply prel_seq; [apply Hx; auto|]. intros t'. apply IH. exact W2.
  - cbn [unroll2 flatten wf2] in *. rewrite unroll_rep. apply play_rep_rel. intros t'. apply IHb; auto.
  - cbn [unroll2 flatten wf2] in *. rewrite unroll_iter.
    replace (range_vals a c (Z.to_nat (range_len a b c))) with (map (fun i : Z => i) (range_vals a c (Z.to_nat (range_len a b c)))) at 2
      by apply map_id.
    apply play_iter_rel. intros i t'.
    specialize (IHb subst (env ++ [i]) t'). rewrite app_length in IHb. cbn [length] in IHb. rewrite Nat.add_1_r in IHb.
    rewrite map_app in IHb. cbn [map] in IHb. rewrite env_under_app in IHb by (rewrite map_length; exact Hs).
    apply IHb; auto. apply ltb_weaken. exact Hs.
  - cbn [unroll2 flatten wf2] in *. apply andb_prop in Hwf as [W1 W2].
    apply (IHb ((lv, (sc, sh)) :: subst) env t W2). cbn [forallb fst]. apply andb_true_intro. split; [exact W1|exact Hs].
Qed.

Theorem flatten_is_denotation : forall s2, wf2 0 s2 = true -> prel (denotation2 s2) (staircase (src_of_spec s2)).
Proof. intros s2 H. apply (flatten_den s2 [] [] 0%Q H eq_refl). Qed.

(* `plays` is invariant under == on the voltages of the staircase *)
Lemma plays_rel : forall h U U', plays h U = true -> steps_rel U U' -> plays h U' = true.
Proof.
  intros h U U' Hp HR. revert h Hp. induction HR as [|[t1 v1] [t2 v2] U U' [Ht Hv] HR IH]; intros h Hp; [exact Hp|].
  destruct h as [|[th vh] h]; [discriminate|]. cbn in Hp, Ht, Hv. cbn. subst t2.
  apply andb_prop in Hp as [Hp1 Hp3]. apply andb_prop in Hp1 as [Hp1 Hp2].
  unfold plays in IH. rewrite (IH h Hp3), andb_true_r, Hp1. cbn.
  clear - Hp2 Hv. revert vh Hp2. induction Hv as [|x y v1 v2 Hxy Hv IH]; intros vh Hp; [exact Hp|].
  destruct vh as [|[o|] vh]; try discriminate. cbn in Hp. apply andb_prop in Hp as [H1 H2]. cbn.
  rewrite (IH vh H2), andb_true_r. apply Qeq_bool_iff. apply Qeq_bool_iff in H1. rewrite H1. exact Hxy.
Qed.

Lemma prel_sym : forall a b, prel a b -> prel b a.
Proof.
  intros [a ta] [b tb] [H1 H2]. cbn in *. split; cbn; auto. clear H2.
  induction H1 as [|x y a b [Hx Hy] H IH]; constructor; auto. split; auto.
  clear - Hy. induction Hy; constructor; auto. symmetry; auto.
Qed.

(* the staircase theorem against the independent denotation *)
Theorem staircase_scoped_den : forall channels s2 fuel h t,
  wf2 0 s2 = true ->
  src_wf channels (src_of_spec s2) = true -> guard_C17_key_collision (src_of_spec s2) = true ->
  pipeline fuel channels (src_of_impl s2) = Ok (h, t) ->
  plays h (fst (denotation2 s2)) = true /\ Qeq_bool t (snd (denotation2 s2)) = true.
Proof.
  intros channels s2 fuel h t Hwf HW HK HP. rewrite (scope_agree s2) in HP.
  destruct (staircase_full channels _ fuel h t HW HK HP) as [H1 H2].
  destruct (prel_sym _ _ (flatten_is_denotation s2 Hwf)) as [R1 R2].
  split; [eapply plays_rel; eauto|]. rewrite <- R2. exact H2.
Qed.

Lemma staircase_scoped_den_nonvacuous :
  wf2 0 wit_rebind = true /\ fst (denotation2 wit_rebind) <> [] /\
  exists h t, pipeline 200 1 (src_of_impl wit_rebind) = Ok (h, t) /\ length h = 6%nat.
Proof. split; [reflexivity|]. split; [vm_compute; discriminate|]. eexists; eexists. split; vm_compute; reflexivity. Qed.
