(* C17 — the builder's node tree, played over loop indices counted from 0, is the unrolled source. *)
From Coq Require Import ZArith QArith List Bool Lia ZifyBool Setoid.
Require Import QV.C17.Model QV.C17.Spec QV.C17.Proofs QV.C17.SimDefs QV.C17.ProofsSim3.
Import ListNotations.
Local Open Scope Z_scope.

Section src_ind2.
  Variable P : src -> Prop.
  Hypothesis Hh : forall dur vs, P (SHold dur vs).
  Hypothesis Hs : forall l, Forall P l -> P (SSeq l).
  Hypothesis Hr : forall c b, P b -> P (SRep c b).
  Hypothesis Hi : forall a b c body, P body -> P (SIter a b c body).
  Fixpoint src_ind2 (s : src) : P s :=
    match s with
    | SHold dur vs => Hh dur vs
    | SSeq l => Hs l ((fix go (l : list src) : Forall P l :=
                         match l with [] => Forall_nil P | x :: l' => Forall_cons x (src_ind2 x) (go l') end) l)
    | SRep c b => Hr c b (src_ind2 b)
    | SIter a b c body => Hi a b c body (src_ind2 body)
    end.
End src_ind2.

Definition steps_rel (a b : steps_t) : Prop :=
  Forall2 (fun x y : Q * list Q => fst x = fst y /\ Forall2 Qeq (snd x) (snd y)) a b.
Definition prel (a b : steps_t * Q) : Prop := steps_rel (fst a) (fst b) /\ snd a = snd b.

Lemma prel_seq : forall x y (k1 k2 : Q -> steps_t * Q), prel x y -> (forall t, prel (k1 t) (k2 t)) ->
  prel (let '(a, t1) := x in let '(b, t2) := k1 t1 in (a ++ b, t2)) (let '(a, t1) := y in let '(b, t2) := k2 t1 in (a ++ b, t2)).
Proof.
  intros [a t1] [a' t1'] k1 k2 [H1 H2] Hk. cbn in H1, H2. subst t1'. specialize (Hk t1).
  destruct (k1 t1) as [b t2], (k2 t1) as [b' t2']. destruct Hk as [H3 H4]. cbn in *. subst. split; cbn; auto.
  apply Forall2_app; auto.
Qed.

Lemma prel_nil : forall t, prel ([], t) ([], t).
Proof. intros. split; cbn; auto. constructor. Qed.

Section play_rep.
  Variable g : Q -> steps_t * Q.
  Fixpoint play_rep (k : nat) (t : Q) : steps_t * Q :=
    match k with
    | O => ([], t)
    | S k' => let '(a, t1) := g t in let '(b, t2) := play_rep k' t1 in (a ++ b, t2)
    end.
End play_rep.

Definition useq (l : list src) (env : list Z) (t : Q) : steps_t * Q :=
  (fix go (l : list src) (t : Q) : steps_t * Q :=
     match l with
     | [] => ([], t)
     | x :: l' => let '(a, t1) := unroll x env t in let '(b, t2) := go l' t1 in (a ++ b, t2)
     end) l t.
Definition bseq (l : list src) (rs : list (Z * Z)) : res (list node) :=
  (fix go (l : list src) : res (list node) :=
     match l with
     | [] => Ok []
     | x :: l' => let? a := build x rs in let? b := go l' in Ok (a ++ b)
     end) l.

Lemma unroll_seq : forall l env t, unroll (SSeq l) env t = useq l env t.
Proof. reflexivity. Qed.
Lemma unroll_rep : forall c b env t, unroll (SRep c b) env t = play_rep (unroll b env) (Z.to_nat c) t.
Proof. reflexivity. Qed.
Lemma unroll_iter : forall a b c body env t,
  unroll (SIter a b c body) env t =
  play_iter (fun i t => unroll body (env ++ [i]) t) (range_vals a c (Z.to_nat (range_len a b c))) t.
Proof. reflexivity. Qed.
Lemma build_seq : forall l rs, build (SSeq l) rs = bseq l rs.
Proof. reflexivity. Qed.
Lemma nplay_rep_unfold : forall body c I t, nplay (NRepeat body c) I t = play_rep (nplay_list body I) (Z.to_nat c) t.
Proof. reflexivity. Qed.

Lemma nplay_list_app : forall a b I t,
  nplay_list (a ++ b) I t = (let '(x, t1) := nplay_list a I t in let '(y, t2) := nplay_list b I t1 in (x ++ y, t2)).
Proof.
  induction a as [|n a IH]; intros b I t.
  - cbn [app]. change (nplay_list [] I t) with (@nil (Q * list Q), t). cbn. destruct (nplay_list b I t); reflexivity.
  - cbn [app]. rewrite !nplay_list_cons. destruct (nplay n I t) as [x t1]. rewrite IH.
    destruct (nplay_list a I t1) as [y t2]. destruct (nplay_list b I t2) as [z t3]. now rewrite app_assoc.
Qed.

Lemma nplay_list_single : forall n I t, nplay_list [n] I t = (let '(a, t1) := nplay n I t in (a ++ [], t1)).
Proof. intros. rewrite nplay_list_cons. destruct (nplay n I t). reflexivity. Qed.

(* environment of loop-index values *)
Fixpoint env_of (rs : list (Z * Z)) (I : list Z) : list Z :=
  match rs, I with
  | (start, step) :: rs', i :: I' => (start + step * i) :: env_of rs' I'
  | _, _ => []
  end.

Lemma env_of_app : forall rs I st sp j, length I = length rs ->
  env_of (rs ++ [(st, sp)]) (I ++ [j]) = env_of rs I ++ [st + sp * j].
Proof.
  induction rs as [|[a b] rs IH]; intros [|i I] st sp j H; cbn in *; try discriminate; auto.
  rewrite IH; auto.
Qed.

Lemma range_vals_iota : forall n start step a,
  range_vals (start + step * a) step n = map (fun j => start + step * j) (iota n a).
Proof.
  induction n as [|n IH]; intros start step a; cbn; auto. f_equal.
  replace (start + step * a + step) with (start + step * (a + 1)) by ring. apply IH.
Qed.

(* affine forms *)
Fixpoint dotn (coefs : list Q) (i : nat) (env : list Z) : Q :=
  match env with
  | [] => 0%Q
  | e :: env' => (nth_coef coefs i * inject_Z e + dotn coefs (S i) env')%Q
  end.

Lemma dotn_nil : forall env i, (dotn [] i env == 0)%Q.
Proof.
  induction env as [|e env IH]; intros i; cbn; [reflexivity|]. rewrite IH. unfold nth_coef. destruct i; cbn; ring.
Qed.
Lemma dotn_shift : forall env c cs i, dotn (c :: cs) (S i) env = dotn cs i env.
Proof. induction env as [|e env IH]; intros; cbn; auto. rewrite IH. reflexivity. Qed.
Lemma dot_dotn : forall coefs env, (dot coefs env == dotn coefs 0 env)%Q.
Proof.
  induction coefs as [|c cs IH]; intros [|e env]; cbn; try reflexivity.
  - rewrite dotn_nil. unfold nth_coef; cbn. ring.
  - rewrite dotn_shift, <- IH. unfold nth_coef; cbn. reflexivity.
Qed.

Lemma aff_walk_spec : forall rs coefs i base acc b incs I,
  aff_walk rs coefs i base acc = (b, incs) -> length I = length rs ->
  exists fs, incs = rev acc ++ fs /\ (aff_at b fs I == base + dotn coefs i (env_of rs I))%Q.
Proof.
  induction rs as [|[start step] rs IH]; intros coefs i base acc b incs I H HL.
  - cbn in H. inversion H; subst. exists []. rewrite app_nil_r. split; auto. destruct I; cbn; ring.
  - destruct I as [|i0 I]; [discriminate|]. cbn in HL. cbn [aff_walk] in H.
    destruct (Qeq_bool (nth_coef coefs i) 0) eqn:Ec.
    + destruct (IH _ _ _ _ _ _ I H) as (fs & E & V); [lia|]. exists (0%Q :: fs). split.
      * rewrite E. cbn. rewrite <- app_assoc. reflexivity.
      * cbn [aff_at env_of dotn]. apply Qeq_bool_iff in Ec. rewrite aff_at_base, V, Ec. ring.
    + destruct (IH _ _ _ _ _ _ I H) as (fs & E & V); [lia|]. exists ((0 + inject_Z step * nth_coef coefs i)%Q :: fs). split.
      * rewrite E. cbn. rewrite <- app_assoc. reflexivity.
      * cbn [aff_at env_of dotn]. rewrite aff_at_base, V, inject_Z_plus, inject_Z_mult. ring.
Qed.

Lemma build_volts_vals : forall rs I vs nvs, length I = length rs -> build_volts rs vs = Ok nvs ->
  Forall2 Qeq (map (hold_val I) nvs) (map (eval_volt (env_of rs I)) vs).
Proof.
  intros rs I. induction vs as [|v vs IH]; intros nvs HL H; cbn in H.
  - inversion H; subst. constructor.
  - destruct (build_volt rs v) as [x|] eqn:Ev; cbn in H; [|discriminate].
    destruct (build_volts rs vs) as [r|] eqn:Er; cbn in H; [|discriminate]. inversion H; subst. cbn. constructor; auto.
    destruct v; cbn in Ev.
    + inversion Ev; subst. reflexivity.
    + inversion Ev; subst. reflexivity.
    + destruct (aff_walk rs coefs 0 base []) as [b incs] eqn:Ew. inversion Ev; subst. unfold hold_val; cbn.
      destruct (aff_walk_spec _ _ _ _ _ _ _ I Ew HL) as (fs & E & V). cbn in E. subst incs. rewrite V, dot_dotn. reflexivity.
Qed.

Definition build_stmt (s : src) : Prop :=
  forall rs nodes I t, build s rs = Ok nodes -> length I = length rs ->
    prel (nplay_list nodes I t) (unroll s (env_of rs I) t).

Lemma prel_nil_inv : forall x t, prel ([], t) x -> x = ([], t).
Proof. intros [a t'] t [H1 H2]. cbn in *. inversion H1. subst. reflexivity. Qed.

Lemma play_rep_nil : forall g k t, (forall t, g t = ([], t)) -> play_rep g k t = ([], t).
Proof. induction k; intros t H; cbn; auto. rewrite H, IHk; auto. Qed.
Lemma play_iter_nil : forall f l t, (forall i t, In i l -> f i t = ([], t)) -> play_iter f l t = ([], t).
Proof.
  induction l as [|i l IH]; intros t H; cbn; auto. rewrite H by (left; auto). rewrite IH; auto.
  intros; apply H; right; auto.
Qed.
Lemma play_rep_rel : forall g g' k t, (forall t, prel (g t) (g' t)) -> prel (play_rep g k t) (play_rep g' k t).
Proof. induction k; intros t H; cbn; [apply prel_nil|]. apply prel_seq; auto. Qed.
Lemma play_iter_rel : forall f f' (h : Z -> Z) l t, (forall i t, prel (f i t) (f' (h i) t)) ->
  prel (play_iter f l t) (play_iter f' (map h l) t).
Proof. induction l as [|i l IH]; intros t H; cbn; [apply prel_nil|]. apply prel_seq; auto. Qed.

Lemma prel_app_nil : forall x y, prel x y -> prel (let '(a, t1) := x in (a ++ [], t1)) y.
Proof. intros [a t1] y H. rewrite app_nil_r. exact H. Qed.

Lemma build_unroll : forall s, build_stmt s.
Proof.
  induction s as [dur vs|l IHl|c body IHb|a b c body IHb] using src_ind2; intros rs nodes I t H HL.
  - cbn in H. cbn [unroll]. destruct (Qpos_b dur).
    + destruct (build_volts rs vs) as [nvs|] eqn:Ev; cbn in H; [|discriminate]. inversion H; subst.
      rewrite nplay_list_single. cbn. split; cbn; auto. constructor; [|constructor]. split; auto. cbn.
      apply build_volts_vals; auto.
    + inversion H; subst. apply prel_nil.
  - rewrite build_seq in H. rewrite unroll_seq. revert nodes t H.
    induction IHl as [|x l Hx Hl IH]; intros nodes t H.
    + cbn in H. inversion H; subst. apply prel_nil.
    + cbn in H. destruct (build x rs) as [na|] eqn:Ea; cbn in H; [|discriminate].
      fold (bseq l rs) in H. destruct (bseq l rs) as [nb|] eqn:Eb; cbn in H; [|discriminate]. inversion H; subst.
      rewrite nplay_list_app. change (useq (x :: l) (env_of rs I) t) with
        (let '(a, t1) := unroll x (env_of rs I) t in let '(b, t2) := useq l (env_of rs I) t1 in (a ++ b, t2)).
      apply prel_seq; auto.
  - cbn [build] in H. rewrite unroll_rep. destruct (c <=? 0) eqn:Ec.
    + inversion H; subst. replace (Z.to_nat c) with 0%nat by lia. apply prel_nil.
    + destruct (build body rs) as [blocks|] eqn:Eb; cbn in H; [|discriminate].
      destruct blocks as [|n0 blocks].
      * inversion H; subst. rewrite play_rep_nil; [apply prel_nil|]. intros t'.
        apply prel_nil_inv. apply (IHb rs [] I t' Eb HL).
      * inversion H; subst. rewrite nplay_list_single. apply prel_app_nil. rewrite nplay_rep_unfold.
        apply play_rep_rel. intros t'. apply (IHb rs _ I t' Eb HL).
  - cbn [build] in H. rewrite unroll_iter. destruct (range_len a b c =? 0) eqn:En.
    + inversion H; subst. apply Z.eqb_eq in En. rewrite En. cbn. apply prel_nil.
    + destruct (build body (rs ++ [(a, c)])) as [cmds|] eqn:Eb; cbn in H; [|discriminate].
      pose proof (range_vals_iota (Z.to_nat (range_len a b c)) a c 0) as Hrv. rewrite Z.mul_0_r, Z.add_0_r in Hrv. rewrite Hrv.
      assert (HB : forall j t', prel (nplay_list cmds (I ++ [j]) t') (unroll body (env_of rs I ++ [a + c * j]) t')).
      { intros j t'. rewrite <- env_of_app by auto. apply IHb; auto. rewrite !app_length; cbn; lia. }
      destruct cmds as [|n0 cmds].
      * inversion H; subst. rewrite play_iter_nil; [apply prel_nil|]. intros i t' Hi. apply in_map_iff in Hi as (j & <- & _).
        apply prel_nil_inv. apply HB.
      * inversion H; subst. rewrite nplay_list_single. apply prel_app_nil. rewrite nplay_iter_unfold.
        apply (play_iter_rel (fun i t => nplay_list (n0 :: cmds) (I ++ [i]) t) (fun i t => unroll body (env_of rs I ++ [i]) t)
                             (fun j => a + c * j)). intros; apply HB.
Qed.
