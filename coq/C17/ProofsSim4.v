(* C17 — the simulation statement; the hold node; node lists. *)
From Coq Require Import ZArith QArith List Bool Lia ZifyBool Setoid.
Require Import QV.C17.Model QV.C17.Spec QV.C17.Proofs QV.C17.ProofsVM QV.C17.SimDefs QV.C17.ProofsTr1 QV.C17.ProofsTr2 QV.C17.ProofsTr3
               QV.C17.ProofsSim1 QV.C17.ProofsSim2 QV.C17.ProofsSim3.
Import ListNotations.
Local Open Scope Z_scope.

Definition hrel (a : Q * list (option Q)) (b : Q * list Q) : Prop :=
  fst a = fst b /\ Forall2 (fun (o : option Q) (v : Q) => exists x, o = Some x /\ (x == v)%Q) (snd a) (snd b).

Definition Kof (lastd : nat * key -> option (Q * list Z)) (ck : nat * key) : Prop := snd ck <> [] /\ lastd ck <> None.

Section sim.
  Variable Fs : list (nat * list Q).
  Hypothesis Fs_inj : keys_inj_b Fs = true.
  Variable C : nat.
  Variable reps : bool.

  Definition sim_stmt (tr : tstate -> res (list cmd * tstate)) (lastd : nat * key -> option (Q * list Z))
             (play : list Z -> Q -> steps_t * Q) (d : nat) : Prop :=
    forall st cs st' I cmds pre post s,
      tr st = Ok (cs, st') -> (reps = true -> t_stable st' = true) -> length (t_iters st) = d -> length I = d -> dyn_ok (t_iters st) I ->
      cmds = pre ++ cs ++ post -> Forall (fun l => l < t_label st) (labels pre) ->
      v_pc s = length pre -> length (v_cur s) = C ->
      Pact st s -> Pplain st s -> Idep Fs (Kof lastd) st s I ->
      exists s', reach cmds s s' /\ v_pc s' = (length pre + length cs)%nat /\ length (v_cur s') = C /\
        Pact st' s' /\ Pplain st' s' /\ Idep Fs (Kof lastd) st' s' I /\
        (forall ck, snd ck <> [] -> lastd ck = None -> alookup ck_eqb ck (v_regs s') = alookup ck_eqb ck (v_regs s)) /\
        (exists hnew, v_hist s' = hnew ++ v_hist s /\ Forall2 hrel (rev hnew) (fst (play I (v_time s)))) /\
        v_time s' = snd (play I (v_time s)) /\
        (forall l, l < t_label st -> alookup Z.eqb l (v_counts s') = alookup Z.eqb l (v_counts s)).

  Definition node_stmt (n : node) : Prop :=
    forall d, node_ok reps C d n = true -> incl (node_factors n) Fs ->
    sim_stmt (tr_node n) (fun ck => last_node (h_dep ck) up_dep n) (nplay n) d.
  Definition list_stmt (B : list node) : Prop :=
    forall d, nodes_ok reps C d B = true -> incl (flat_map node_factors B) Fs ->
    sim_stmt (tr_nodes B) (fun ck => last_dep ck B) (nplay_list B) d.

  Lemma Idep_weaken : forall (K K' : nat * key -> Prop) st s I, (forall ck, K' ck -> K ck) -> Idep Fs K st s I -> Idep Fs K' st s I.
  Proof. unfold Idep. intros K K' st s I H HD ch k b olds HK. apply HD. auto. Qed.

  (* ---- hold *)
  Lemma sim_hold : forall vs dur, node_stmt (NHold vs dur).
  Proof.
    intros vs dur d Hok Hin st cs st' I cmds pre post s HT HSt Hd HI HDyn Hc Hlab Hpc Hcur HA HP HD.
    cbn [node_ok] in Hok. apply andb_prop in Hok as [Hlen Hhok]. apply Nat.eqb_eq in Hlen.
    rewrite tr_node_hold in HT. destruct (tr_hold_chs 0 vs st) as [[c1 st1]|] eqn:E; cbn [bind] in HT; [|discriminate].
    inversion HT; subst cs st'; clear HT.
    set (lastd := fun ck => last_node (h_dep ck) up_dep (NHold vs dur)) in *.
    assert (Hc1 : cmds = pre ++ c1 ++ ([CWait dur] ++ post)) by (rewrite Hc, <- app_assoc; reflexivity).
    destruct (hold_chs_sim Fs Fs_inj vs 0%nat st c1 st1 cmds pre ([CWait dur] ++ post) s (Kof lastd) I E Hc1 Hpc)
      as (s1 & R1 & Pc1 & A1 & P1 & D1 & (T1 & H1 & Cn1 & L1) & V1 & _ & F1); auto.
    - cbn. lia.
    - intros ck [X _]; exact X.
    - intros ch b fs Hn Hk. rewrite nth_off_0 in Hn. split; [|split].
      + split; [exact Hk|]. unfold lastd. cbn. unfold h_dep. cbn [fst snd]. rewrite Hn.
        assert (Z0 : key_eqb (mk_key fs) [] = false).
        { destruct (key_eqb (mk_key fs) []) eqn:E0; auto. apply key_eqb_spec in E0. contradiction. }
        assert (X : key_eqb (mk_key fs) (mk_key fs) = true) by now apply key_eqb_spec. rewrite Z0, X. discriminate.
      + apply Hin. cbn. apply (hold_factors_nth vs 0%nat ch b fs Hn).
      + rewrite (hold_ok_nth _ _ _ _ _ Hhok Hn). congruence.
    - congruence.
    - (* the Wait *)
      assert (St : vm_step cmds s1 = Running (mkV (v_cur s1) (v_time s1 + dur)%Q (v_regs s1) ((v_time s1, v_cur s1) :: v_hist s1)
                                                  (v_counts s1) (S (length (pre ++ c1))))).
      { eapply step_wait; [|rewrite app_length; exact Pc1]. rewrite Hc, <- !app_assoc. reflexivity. }
      eexists. split; [eapply reach_trans; [exact R1|apply reach_step; exact St]|].
      cbn [v_pc v_cur v_regs v_time v_hist v_counts].
      split; [rewrite !app_length; cbn; lia|]. split; [congruence|].
      split; [exact A1|]. split; [exact P1|]. split; [exact D1|].
      split; [|split; [|split]].
      + intros ck Hnz Hl. apply F1; auto. rewrite nth_off_0. exact Hl.
      + exists [(v_time s1, v_cur s1)]. split; [rewrite H1; reflexivity|]. cbn. constructor; [|constructor].
        split; [cbn; congruence|]. cbn [snd]. apply Forall2_of_nth.
        * rewrite map_length, L1, Hcur. symmetry. exact Hlen.
        * intros j y Hy. rewrite nth_error_map in Hy. unfold hvolt in *. destruct (nth_error vs j) as [x|] eqn:Ex; cbn in Hy; [|discriminate].
          inversion Hy; subst y. destruct (V1 j x) as (v & Nv & Hv); [rewrite nth_off_0; exact Ex|].
          exists (Some v). split; auto. exists v. split; auto.
      + cbn. congruence.
      + intros l _. congruence.
  Qed.

  (* ---- lists *)
  Lemma orlast_none {A} : forall a b : option A, orlast a b = None -> a = None /\ b = None.
  Proof. intros a [x|]; cbn; intros; [discriminate|auto]. Qed.

  Lemma sim_list : forall B, Forall node_stmt B -> list_stmt B.
  Proof.
    induction 1 as [|x B Hx HB IH]; intros d Hok Hin st cs st' I cmds pre post s HT HSt Hd HI HDyn Hc Hlab Hpc Hcur HA HP HD.
    - cbn in HT. inversion HT; subst cs st'. exists s. split; [apply reach_refl|]. split; [cbn; lia|].
      repeat split; auto. exists []. split; auto. cbn. constructor.
    - rewrite tr_nodes_cons in HT.
      destruct (tr_node x st) as [[c1 st1]|] eqn:E1; cbn [bind] in HT; [|discriminate].
      destruct (tr_nodes B st1) as [[c2 st2]|] eqn:E2; cbn [bind] in HT; [|discriminate]. inversion HT; subst cs st'; clear HT.
      cbn [nodes_ok] in Hok. apply andb_prop in Hok as [Hokx HokB].
      cbn [flat_map] in Hin. apply incl_app_inv in Hin as [Hinx HinB].
      destruct (node_summ x _ _ _ E1) as [(SA1 & SP1 & SD1 & SI1 & SL1) LR1].
      destruct (nodes_summ B _ _ _ E2) as [(SA2 & SP2 & SD2 & SI2 & SL2) LR2].
      set (lx := fun ck => last_node (h_dep ck) up_dep x) in *.
      set (lB := fun ck => last_dep ck B) in *.
      assert (Hl : forall ck, last_dep ck (x :: B) = orlast (lx ck) (lB ck)) by reflexivity.
      assert (Hc1 : cmds = pre ++ c1 ++ (c2 ++ post)) by (rewrite Hc, <- app_assoc; reflexivity).
      destruct (Hx d Hokx Hinx st c1 st1 I cmds pre (c2 ++ post) s E1 (fun e => mono_nodes _ _ _ _ E2 (HSt e)) Hd HI HDyn Hc1 Hlab Hpc Hcur HA HP)
        as (s1 & R1 & Pc1 & Cu1 & A1 & P1 & D1 & F1 & (h1 & Hh1 & Hr1) & T1 & Cn1).
      { eapply Idep_weaken; [|exact HD]. intros ck [X Y]. split; auto. rewrite Hl. fold (lx ck) in Y.
        destruct (lB ck); cbn; [discriminate|exact Y]. }
      assert (Hc2 : cmds = (pre ++ c1) ++ c2 ++ post) by (rewrite Hc, <- !app_assoc; reflexivity).
      assert (Q1 : length (t_iters st1) = d) by congruence.
      assert (Q2 : dyn_ok (t_iters st1) I) by (rewrite SI1; auto).
      assert (Q3 : Forall (fun l => l < t_label st1) (labels (pre ++ c1))).
      { rewrite labels_app. apply Forall_app. split.
        - eapply Forall_impl; [|exact Hlab]. cbn. intros; lia.
        - eapply Forall_impl; [|exact LR1]. cbn. intros; lia. }
      assert (Q4 : v_pc s1 = length (pre ++ c1)) by (rewrite app_length; exact Pc1).
      assert (Q5 : Idep Fs (Kof (fun ck => last_dep ck B)) st1 s1 I).
      { intros ch k b olds [Knz KB] Hdp. destruct (lx (ch, k)) as [e|] eqn:Ex.
        - apply D1; auto. split; auto. fold (lx (ch, k)). rewrite Ex. discriminate.
        - rewrite SD1 in Hdp. fold (lx (ch, k)) in Hdp. rewrite Ex in Hdp. cbn in Hdp.
          destruct (HD ch k b olds) as (r & Rr & R0 & Rv); auto.
          { split; auto. rewrite Hl, Ex. fold (lB (ch, k)) in KB. destruct (lB (ch, k)); cbn; [discriminate|contradiction]. }
          exists r. rewrite F1 by auto. split; auto. split; [exact R0|]. rewrite SI1. exact Rv. }
      destruct (IH d HokB HinB st1 c2 st2 I cmds (pre ++ c1) post s1 E2 HSt Q1 HI Q2 Hc2 Q3 Q4 Cu1 A1 P1 Q5) as
        (s2 & R2 & Pc2 & Cu2 & A2 & P2 & D2 & F2 & (h2 & Hh2 & Hr2) & T2 & Cn2).
      exists s2. split; [eapply reach_trans; eauto|]. split; [rewrite Pc2, !app_length; lia|]. split; auto.
      split; auto. split; auto. split; [|split; [|split; [|split]]].
      + intros ch k b olds [Knz KxB] Hdp. rewrite Hl in KxB. destruct (lB (ch, k)) as [e|] eqn:EB.
        * apply D2; auto. split; auto. fold (lB (ch, k)). rewrite EB. discriminate.
        * cbn in KxB. rewrite SD2 in Hdp. fold (lB (ch, k)) in Hdp. rewrite EB in Hdp. cbn in Hdp.
          destruct (D1 ch k b olds) as (r & Rr & R0 & Rv); auto. { split; auto. }
          exists r. rewrite F2 by auto. split; auto. split; [exact R0|]. rewrite SI2. exact Rv.
      + intros ck Hnz Hn. rewrite Hl in Hn. apply orlast_none in Hn as [N1 N2]. rewrite F2, F1; auto.
      + exists (h2 ++ h1). split; [rewrite Hh2, Hh1, app_assoc; reflexivity|].
        rewrite rev_app_distr, nplay_list_cons. rewrite T1 in Hr2.
        destruct (nplay x I (v_time s)) as [a t1]. cbn [fst snd] in *. destruct (nplay_list B I t1) as [b t2]. cbn [fst snd] in *.
        apply Forall2_app; auto.
      + rewrite T2, T1, nplay_list_cons. destruct (nplay x I (v_time s)) as [a t1]. cbn [snd].
        destruct (nplay_list B I t1) as [b t2]. reflexivity.
      + intros l Hl'. rewrite Cn2, Cn1; auto. lia.
  Qed.
End sim.
