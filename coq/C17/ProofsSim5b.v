(* C17 — simulation for a repetition node: direct loop (guarded by the ghost flag), unrolled first pass + loop, count 1. *)
From Coq Require Import ZArith QArith List Bool Lia ZifyBool Setoid.
Require Import QV.C17.Model QV.C17.Spec QV.C17.Proofs QV.C17.ProofsVM QV.C17.SimDefs QV.C17.ProofsTr1 QV.C17.ProofsTr2 QV.C17.ProofsTr3
               QV.C17.ProofsSim1 QV.C17.ProofsSim2 QV.C17.ProofsSim3 QV.C17.ProofsSim4 QV.C17.ProofsSim5 QV.C17.ProofsBuild.
Import ListNotations.
Local Open Scope Z_scope.

Lemma play_rep_snoc : forall g k t,
  play_rep g (S k) t = (let '(a, t1) := play_rep g k t in let '(b, t2) := g t1 in (a ++ b, t2)).
Proof.
  induction k as [|k IH]; intros t.
  - cbn. destruct (g t) as [b t2]. now rewrite app_nil_r.
  - change (play_rep g (S (S k)) t) with (let '(a, t1) := g t in let '(b, t2) := play_rep g (S k) t1 in (a ++ b, t2)).
    destruct (g t) as [a t1] eqn:Eg. rewrite IH. cbn [play_rep]. rewrite Eg.
    destruct (play_rep g k t1) as [b t2]. destruct (g t2) as [c t3]. now rewrite app_assoc.
Qed.

Lemma node_ok_rep : forall reps C d body c, node_ok reps C d (NRepeat body c) = true ->
  reps = true /\ 1 <= c /\ body <> [] /\ nodes_ok reps C d body = true.
Proof.
  intros reps C d body c H. cbn in H. apply andb_prop in H as [H H4]. apply andb_prop in H as [H H3]. apply andb_prop in H as [H1 H2].
  split; auto. split; [lia|]. split; [destruct body; [discriminate|congruence]|].
  clear H1 H2 H3. induction body as [|x body IH]; [reflexivity|]. apply andb_prop in H4 as [A B].
  cbn [nodes_ok]. rewrite A. cbn. apply IH. exact B.
Qed.

Section sim.
  Variable Fs : list (nat * list Q).
  Hypothesis Fs_inj : keys_inj_b Fs = true.
  Variable C : nat.
  Variable reps : bool.

  Definition Inv3 (lb : nat * key -> option (Q * list Z)) (I : list Z) (sx : tstate) (x : vm) : Prop :=
    Pact sx x /\ Pplain sx x /\ Idep Fs (Kof lb) sx x I.

  Lemma Inv3_transfer : forall lb I sa sb x,
    (forall ch, act sb ch = act sa ch) -> (forall ch, oqeq (pl sb ch) (pl sa ch)) ->
    (forall ch k, Kof lb (ch, k) -> dp sb (ch, k) = dp sa (ch, k)) -> t_iters sb = t_iters sa ->
    Inv3 lb I sa x -> Inv3 lb I sb x.
  Proof.
    intros lb I sa sb x HA HP HD HI (A & P & D). split; [|split].
    - eapply Pact_transfer; eauto.
    - eapply Pplain_transfer; eauto.
    - eapply Idep_transfer; [|exact D]. intros ch k b olds HK Hdp. exists olds. rewrite <- HD by auto. split; auto. split; auto. now rewrite HI.
  Qed.

  (* two consecutive translations of the same body leave the same summary *)
  Lemma same_post : forall body sa sa' sb sb',
    SummL body sa sa' -> SummL body sb sb' ->
    (forall ch, act sb ch = act sa' ch) -> (forall ch, pl sb ch = pl sa' ch) -> (forall ck, dp sb ck = dp sa' ck) ->
    t_iters sb = t_iters sa ->
    (forall ch, act sb' ch = act sa' ch) /\ (forall ch, oqeq (pl sb' ch) (pl sa' ch)) /\
    (forall ch k, Kof (fun ck => last_dep ck body) (ch, k) -> dp sb' (ch, k) = dp sa' (ch, k)) /\ t_iters sb' = t_iters sa'.
  Proof.
    intros body sa sa' sb sb' (A1 & P1 & D1 & I1 & _) (A2 & P2 & D2 & I2 & _) HA HP HD HI. split; [|split; [|split]].
    - intros ch. rewrite A2, HA, A1. apply orlast_idem.
    - intros ch. eapply oq_stable; [apply P1|]. rewrite <- HP. apply P2.
    - intros ch k [_ HK]. rewrite D2, D1, HI. destruct (last_dep (ch, k) body) as [[b suf]|]; [reflexivity|contradiction].
    - congruence.
  Qed.

  Lemma sim_rep : forall body count, list_stmt Fs C reps body -> node_stmt Fs C reps (NRepeat body count).
  Proof.
    intros body count IHL d Hok Hin st cs st' I cmds pre post s HT HSt Hd HI HDyn Hc Hlab Hpc Hcur HA HP HD.
    destruct (node_ok_rep _ _ _ _ _ Hok) as (Hreps & Hcnt & Hne & HokB).
    rewrite node_factors_rep in Hin. specialize (IHL d HokB Hin). specialize (HSt Hreps).
    rewrite tr_node_rep in HT. cbv zeta in HT.
    set (idx := t_label st) in *. set (str := with_label st (idx + 1)) in *.
    destruct (tr_nodes body str) as [[cs1 st1]|] eqn:E1; cbn [bind] in HT; [|discriminate].
    pose proof (nodes_summ body _ _ _ E1) as [S1 LR1]. pose proof S1 as (SA1 & SP1 & SD1 & SI1 & SL1).
    change (t_iters str) with (t_iters st) in *. change (t_label str) with (idx + 1) in *.
    set (lb := fun ck => last_dep ck body) in *.
    change (Idep Fs (Kof lb) st s I) in HD.
    set (g := nplay_list body I).
    assert (Hits1 : length (t_iters st1) = d) by congruence.
    assert (Hdyn1 : dyn_ok (t_iters st1) I) by (rewrite SI1; auto).
    set (Post := fun (sx : tstate) (x x' : vm) (n : nat) =>
           v_pc x' = (v_pc x + n)%nat /\ length (v_cur x') = C /\ Inv3 lb I sx x' /\
           (forall ck, snd ck <> [] -> lb ck = None -> alookup ck_eqb ck (v_regs x') = alookup ck_eqb ck (v_regs x)) /\
           (exists hnew, v_hist x' = hnew ++ v_hist x /\ Forall2 hrel (rev hnew) (fst (g (v_time x)))) /\
           v_time x' = snd (g (v_time x))).
    destruct (set_eqb _ _ && entry_unchanged st st1) eqn:Eset.
    - (* the direct loop *)
      inversion HT; subst cs st'; clear HT. pose proof HSt as Hst1.
      apply andb_prop in Eset as [_ Hun]. destruct (entry_unchanged_spec _ _ Hun) as (UA & UP & UD).
      assert (BACK : forall x, Inv3 lb I st1 x -> Inv3 lb I st x).
      { intros x (A & P & D). split; [|split].
        - intros ch k Hk. apply A. apply UA. exact Hk.
        - intros ch v Hv. destruct (UP ch v Hv) as (v1 & E & Q1). destruct (P ch v1 E) as (r & R1 & R2). exists r. split; auto.
          rewrite R2. exact Q1.
        - intros ch k b olds HK Hdp. destruct (UD (ch, k) b olds Hdp) as (b1 & E & Q1).
          destruct (D ch k b1 olds HK E) as (r & R1 & R0 & R2). exists r. split; auto. split; [exact R0|]. intros fs Hf Hk.
          rewrite (R2 fs Hf Hk), SI1. apply aff_at_compat. exact Q1. }
      set (Pinv := fun (k : nat) (x : vm) =>
             length (v_cur x) = C /\ (k = 0%nat -> Inv3 lb I st x) /\ (k <> 0%nat -> Inv3 lb I st1 x) /\
             (forall ck, snd ck <> [] -> lb ck = None -> alookup ck_eqb ck (v_regs x) = alookup ck_eqb ck (v_regs s)) /\
             (exists hnew, v_hist x = hnew ++ v_hist s /\ Forall2 hrel (rev hnew) (fst (play_rep g k (v_time s)))) /\
             v_time x = snd (play_rep g k (v_time s))).
      assert (Hcl : cmds = pre ++ CLabel idx count :: cs1 ++ CJmp idx :: post).
      { rewrite Hc. cbn. rewrite <- app_assoc. reflexivity. }
      assert (Hni : ~ In idx (labels pre)).
      { intros X. rewrite Forall_forall in Hlab. specialize (Hlab _ X). unfold idx in *. lia. }
      assert (Hcb : cmds = (pre ++ [CLabel idx count]) ++ cs1 ++ CJmp idx :: post).
      { rewrite Hcl, <- app_assoc. reflexivity. }
      assert (Hlb : forall sx, t_label sx = idx + 1 -> Forall (fun l => l < t_label sx) (labels (pre ++ [CLabel idx count]))).
      { intros sx Hsx. rewrite labels_app. cbn. apply Forall_app; split.
        - eapply Forall_impl; [|exact Hlab]. cbn. unfold idx in *. intros; lia.
        - constructor; [lia|constructor]. }
      destruct (loop_exec cmds pre idx count cs1 post Pinv Hcl Hni Hcnt) with (s := s) as (s3 & R3 & Pc3 & HP3 & Cn3); auto.
      + intros k x c p (X1 & X2 & X3 & X4 & X5 & X6). unfold Pinv. repeat split; auto; try (apply X2; auto); try (apply X3; auto).
      + intros k x Hk Hpcx (X1 & X2 & X3 & X4 & (h0 & Hh0 & Hr0) & X6).
        assert (PASS : exists sx sx', tr_nodes body sx = Ok (cs1, sx') /\ t_stable sx' = true /\ t_label sx = idx + 1 /\
                   t_iters sx = t_iters st /\ Inv3 lb I sx x /\
                   forall x', Inv3 lb I sx' x' -> Inv3 lb I st1 x').
        { destruct k as [|k].
          - exists str, st1. split; [exact E1|]. split; [exact Hst1|]. split; [reflexivity|]. split; [reflexivity|].
            split; [exact (X2 eq_refl)|]. auto.
          - exists str, st1. split; [exact E1|]. split; [exact Hst1|]. split; [reflexivity|]. split; [reflexivity|].
            split; [apply BACK; apply X3; lia|]. auto. }
        destruct PASS as (sx & sx' & Ex & Hsx' & Hlx & Hix & (PA & PP & PD) & Hback).
        assert (Q1 : length (t_iters sx) = d) by congruence.
        assert (Q2 : dyn_ok (t_iters sx) I) by (rewrite Hix; auto).
        assert (Q4 : v_pc x = length (pre ++ [CLabel idx count])) by (rewrite Hpcx, app_length; cbn; lia).
        destruct (IHL sx cs1 sx' I cmds (pre ++ [CLabel idx count]) (CJmp idx :: post) x Ex (fun _ => Hsx') Q1 HI Q2 Hcb (Hlb sx Hlx) Q4 X1 PA PP PD)
          as (x' & Rx & Pcx & Cux & Ax & Px & Dx & Fx & (hx & Hhx & Hrx) & Tx & Cnx).
        rewrite Hlx in Cnx.
        exists x'. split; auto. split; [rewrite Pcx, app_length; cbn; lia|]. split; [|split].
          -- unfold Pinv. split; auto. split; [intros; discriminate|]. split; [intros _; apply Hback; repeat split; auto|].
             split; [intros ck Hnz Hn; rewrite Fx, X4; auto|]. split.
             ++ exists (hx ++ h0). split; [rewrite Hhx, Hh0, app_assoc; reflexivity|].
                rewrite rev_app_distr, play_rep_snoc. rewrite X6 in Hrx.
                destruct (play_rep g k (v_time s)) as [a t1]. cbn [fst snd] in *. fold g in Hrx.
                destruct (g t1) as [b t2]. cbn [fst snd] in *. apply Forall2_app; auto.
             ++ rewrite Tx, X6, play_rep_snoc. destruct (play_rep g k (v_time s)) as [a t1]. cbn [fst snd]. fold g.
                destruct (g t1) as [b t2]. reflexivity.
          -- apply Cnx. lia.
          -- intros l Hl. apply Cnx. lia.
      + unfold Pinv. split; auto. split; [intros _; repeat split; auto|]. split; [intros X; contradiction|].
        split; auto. split; [exists []; split; auto; cbn; constructor|reflexivity].
      + destruct HP3 as (Y1 & _ & Y3 & Y4 & (h3 & Hh3 & Hr3) & Y6).
        destruct Y3 as (YA & YP & YD); [lia|].
        exists s3. split; auto. split; [rewrite Pc3; cbn; rewrite app_length; cbn; lia|]. split; auto.
        split; [exact YA|]. split; [exact YP|]. split; [exact YD|]. split; [exact Y4|].
        split; [exists h3; split; auto; rewrite nplay_rep_unfold; exact Hr3|]. split; [rewrite nplay_rep_unfold; exact Y6|exact Cn3].
    - destruct (0 <? count - 1) eqn:Ecnt.
      + (* unrolled first pass, then a loop of count - 1 passes *)
        destruct (tr_nodes body st1) as [[cs2 st2]|] eqn:E2; cbn [bind] in HT; [|discriminate].
        inversion HT; subst cs st'; clear HT.
        pose proof (nodes_summ body _ _ _ E2) as [S2 LR2]. pose proof S2 as (SA2 & SP2 & SD2 & SI2 & SL2).
        assert (Hst1 : t_stable st1 = true) by (eapply mono_nodes; eauto).
        destruct (same_post body str st1 st1 st2 S1 S2) as (QA & QP & QD & QI); auto.
        assert (Hc1 : cmds = pre ++ cs1 ++ (CLabel idx (count - 1) :: cs2 ++ CJmp idx :: post)).
        { rewrite Hc, <- !app_assoc. cbn. rewrite <- app_assoc. reflexivity. }
        assert (Hlab1 : Forall (fun l => l < t_label str) (labels pre)).
        { eapply Forall_impl; [|exact Hlab]. cbn. unfold idx. intros; lia. }
        destruct (IHL str cs1 st1 I cmds pre _ s E1 (fun _ => Hst1) Hd HI HDyn Hc1 Hlab1 Hpc Hcur HA HP HD)
          as (s1 & R1 & Pc1 & Cu1 & A1 & P1 & D1 & F1 & (h1 & Hh1 & Hr1) & T1 & Cn1).
        change (t_label str) with (idx + 1) in Cn1.
        set (Pinv := fun (k : nat) (x : vm) =>
               length (v_cur x) = C /\ (k = 0%nat -> Inv3 lb I st1 x) /\ (k <> 0%nat -> Inv3 lb I st2 x) /\
               (forall ck, snd ck <> [] -> lb ck = None -> alookup ck_eqb ck (v_regs x) = alookup ck_eqb ck (v_regs s1)) /\
               (exists hnew, v_hist x = hnew ++ v_hist s1 /\ Forall2 hrel (rev hnew) (fst (play_rep g k (v_time s1)))) /\
               v_time x = snd (play_rep g k (v_time s1))).
        assert (Hcl : cmds = (pre ++ cs1) ++ CLabel idx (count - 1) :: cs2 ++ CJmp idx :: post).
        { rewrite Hc1, <- app_assoc. reflexivity. }
        assert (Hni : ~ In idx (labels (pre ++ cs1))).
        { rewrite labels_app. intros X. apply in_app_or in X as [X|X].
          - rewrite Forall_forall in Hlab. specialize (Hlab _ X). unfold idx in *. lia.
          - unfold lab_range in LR1. rewrite Forall_forall in LR1. specialize (LR1 _ X). lia. }
        assert (Hcb : cmds = (pre ++ cs1 ++ [CLabel idx (count - 1)]) ++ cs2 ++ CJmp idx :: post).
        { rewrite Hcl, <- !app_assoc. reflexivity. }
        destruct (loop_exec cmds (pre ++ cs1) idx (count - 1) cs2 post Pinv Hcl Hni) with (s := s1) as (s3 & R3 & Pc3 & HP3 & Cn3); auto; try lia.
        * intros k x c p (X1 & X2 & X3 & X4 & X5 & X6). unfold Pinv. repeat split; auto; try (apply X2; auto); try (apply X3; auto).
        * intros k x Hk Hpcx (X1 & X2 & X3 & X4 & (h0 & Hh0 & Hr0) & X6).
          assert (HI1 : Inv3 lb I st1 x).
          { destruct k as [|k]; [apply X2; auto|]. eapply Inv3_transfer; [| | | |apply X3; lia]; auto.
            - intros ch; apply oqeq_sym; apply QP.
            - intros ch k0 HK. symmetry. apply QD; auto. }
          destruct HI1 as (PA & PP & PD).
          assert (Q3 : Forall (fun l => l < t_label st1) (labels (pre ++ cs1 ++ [CLabel idx (count - 1)]))).
          { rewrite !labels_app. cbn. apply Forall_app; split; [|apply Forall_app; split].
            - eapply Forall_impl; [|exact Hlab]. cbn. unfold idx in *. intros; lia.
            - eapply Forall_impl; [|exact LR1]. cbn. intros; lia.
            - constructor; [lia|constructor]. }
          assert (Q4 : v_pc x = length (pre ++ cs1 ++ [CLabel idx (count - 1)])) by (rewrite Hpcx, !app_length; cbn; lia).
          destruct (IHL st1 cs2 st2 I cmds (pre ++ cs1 ++ [CLabel idx (count - 1)]) (CJmp idx :: post) x E2 (fun _ => HSt)
                        Hits1 HI Hdyn1 Hcb Q3 Q4 X1 PA PP PD)
            as (x' & Rx & Pcx & Cux & Ax & Px & Dx & Fx & (hx & Hhx & Hrx) & Tx & Cnx).
          exists x'. split; auto. split; [rewrite Pcx, !app_length; cbn; lia|]. split; [|split].
             ++ unfold Pinv. split; auto. split; [intros; discriminate|]. split; [intros _; repeat split; auto|].
                split; [intros ck Hnz Hn; rewrite Fx, X4; auto|]. split.
                ** exists (hx ++ h0). split; [rewrite Hhx, Hh0, app_assoc; reflexivity|].
                   rewrite rev_app_distr, play_rep_snoc. rewrite X6 in Hrx.
                   destruct (play_rep g k (v_time s1)) as [a t1]. cbn [fst snd] in *. fold g in Hrx.
                   destruct (g t1) as [b t2]. cbn [fst snd] in *. apply Forall2_app; auto.
                ** rewrite Tx, X6, play_rep_snoc. destruct (play_rep g k (v_time s1)) as [a t1]. cbn [fst snd]. fold g.
                   destruct (g t1) as [b t2]. reflexivity.
             ++ apply Cnx. lia.
             ++ intros l Hl. apply Cnx. lia.
        * rewrite app_length. exact Pc1.
        * unfold Pinv. split; auto. split; [intros _; repeat split; auto|]. split; [intros X; contradiction|].
          split; auto. split; [exists []; split; auto; cbn; constructor|reflexivity].
        * destruct HP3 as (Y1 & _ & Y3 & Y4 & (h3 & Hh3 & Hr3) & Y6).
          destruct Y3 as (YA & YP & YD); [lia|].
          exists s3. split; [eapply reach_trans; eauto|].
          split; [rewrite Pc3, !app_length; cbn; rewrite app_length; cbn; lia|]. split; auto.
          split; [exact YA|]. split; [exact YP|]. split; [exact YD|].
          split; [intros ck Hnz Hn; rewrite Y4, F1; auto|].
          assert (Hn : Z.to_nat count = S (Z.to_nat (count - 1))) by lia.
          split; [|split].
          -- exists (h3 ++ h1). split; [rewrite Hh3, Hh1, app_assoc; reflexivity|].
             rewrite rev_app_distr, nplay_rep_unfold, Hn. fold g. cbn [play_rep]. rewrite T1 in Hr3. fold g in Hr1, Hr3.
             destruct (g (v_time s)) as [a t1]. cbn [fst snd] in *.
             destruct (play_rep g (Z.to_nat (count - 1)) t1) as [b t2]. cbn [fst snd] in *. apply Forall2_app; auto.
          -- rewrite Y6, T1, nplay_rep_unfold, Hn. fold g. cbn [play_rep].
             destruct (g (v_time s)) as [a t1]. cbn [fst snd]. destruct (play_rep g (Z.to_nat (count - 1)) t1) as [b t2]. reflexivity.
          -- intros l Hl. rewrite Cn3, Cn1; auto. unfold idx in *. lia.
      + (* count = 1: the unrolled pass is the whole repetition *)
        inversion HT; subst cs st'; clear HT. assert (count = 1) by lia. subst count.
        assert (Hlab1 : Forall (fun l => l < t_label str) (labels pre)).
        { eapply Forall_impl; [|exact Hlab]. cbn. unfold idx. intros; lia. }
        destruct (IHL str cs1 st1 I cmds pre post s E1 (fun _ => HSt) Hd HI HDyn Hc Hlab1 Hpc Hcur HA HP HD)
          as (s1 & R1 & Pc1 & Cu1 & A1 & P1 & D1 & F1 & (h1 & Hh1 & Hr1) & T1 & Cn1).
        change (t_label str) with (idx + 1) in Cn1.
        exists s1. split; auto. split; auto. split; auto. split; auto. split; auto. split; [exact D1|]. split; [exact F1|].
        split; [|split].
        * exists h1. split; auto. rewrite nplay_rep_unfold. change (Z.to_nat 1) with 1%nat. cbn [play_rep]. fold g. fold g in Hr1.
          destruct (g (v_time s)) as [a t1]. cbn [fst snd] in *. now rewrite app_nil_r.
        * rewrite T1, nplay_rep_unfold. change (Z.to_nat 1) with 1%nat. cbn [play_rep]. fold g.
          destruct (g (v_time s)) as [a t1]. reflexivity.
        * intros l Hl. apply Cn1. unfold idx in *. lia.
  Qed.
End sim.
