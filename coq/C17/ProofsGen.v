(* C17 — end to end with the VM translated from the source: the staircase theorem for the run of the translated
   LinSpaceVM.step (Gen_linspace_obj.v) on the commands of the modelled builder + translator. *)
From Coq Require Import ZArith QArith List Bool Lia.
Require Import QV.C17.Model QV.C17.Spec QV.C17.Proofs QV.C17.GenLib QV.C17.Gen_linspace QV.C17.Gen_linspace_obj QV.C17.GenObjEq
               QV.C17.SimDefs QV.C17.ProofsStair.
Import ListNotations.

Theorem staircase_source_vm : forall channels s prog cs fuel g0 g',
  src_wf channels s = true -> guard_C17_key_collision s = true ->
  build_program s = Ok prog -> prog <> [] -> translate prog = Ok cs ->
  gen_set_commands (gvm_init channels) (map embed cs) = Ok g0 ->
  gen_run_n fuel g0 = Some (Ok g') ->
  plays (gvm_history g') (fst (staircase s)) = true /\ Qeq_bool (gvm_time g') (snd (staircase s)) = true.
Proof.
  intros channels s prog cs fuel g0 g' Hwf Hg Hb Hne Ht Hset Hrun.
  pose proof (gen_run_refines cs fuel _ _ (gen_set_commands_init channels cs g0 Hset)) as Hr.
  destruct fuel as [|f]; [discriminate|].
  destruct (vm_run_n (S f) cs (vm0 channels)) as [s'|s'|e] eqn:Ev; cbn [run_refines] in Hr.
  - rewrite Hrun in Hr. discriminate.
  - destruct Hr as (g2 & Hg2 & R). rewrite Hrun in Hg2. inversion Hg2; subst g2.
    rewrite (R_hist _ _ _ R), (R_time _ _ _ R).
    apply (staircase_full channels s (Pos.of_nat (S f)) (rev (v_hist s')) (v_time s') Hwf Hg).
    unfold pipeline. rewrite Hb. cbn [bind]. destruct prog as [|n0 prog']; [congruence|].
    rewrite Ht. cbn [bind]. rewrite run_vm_binary_unary, Nat2Pos.id by discriminate.
    unfold run_vm_n. rewrite Ev. reflexivity.
  - rewrite Hrun in Hr. discriminate.
Qed.

(* non-vacuity: the translated set_commands + run on the commands of a source with a repetition and two iteration levels *)
Definition source_vm_demo (s : src) (channels fuel : nat) : option nat :=
  match build_program s with
  | Ok prog =>
      match prog with [] => None | _ =>
      match translate prog with
      | Ok cs => match gen_set_commands (gvm_init channels) (map embed cs) with
                 | Ok g0 => match gen_run_n fuel g0 with Some (Ok g') => Some (length (gvm_history g')) | _ => None end
                 | Err _ => None
                 end
      | Err _ => None
      end end
  | Err _ => None
  end.

Lemma source_vm_demo_sound : forall s channels fuel n, source_vm_demo s channels fuel = Some n ->
  exists prog cs g0 g', build_program s = Ok prog /\ prog <> [] /\ translate prog = Ok cs /\
    gen_set_commands (gvm_init channels) (map embed cs) = Ok g0 /\ gen_run_n fuel g0 = Some (Ok g') /\ length (gvm_history g') = n.
Proof.
  intros s channels fuel n H. unfold source_vm_demo in H.
  destruct (build_program s) as [prog|] eqn:E1; [|discriminate H].
  destruct prog as [|n0 prog]; [discriminate H|].
  destruct (translate (n0 :: prog)) as [cs|] eqn:E2; [|discriminate H].
  destruct (gen_set_commands (gvm_init channels) (map embed cs)) as [g0|] eqn:E3; [|discriminate H].
  destruct (gen_run_n fuel g0) as [[g'|]|] eqn:E4; try discriminate H.
  exists (n0 :: prog), cs, g0, g'. split; [reflexivity|]. split; [discriminate|]. split; [exact E2|]. split; [exact E3|].
  split; [exact E4|]. injection H as H. exact H.
Qed.

Lemma source_vm_demo_eq : source_vm_demo wit_good 2 1000 = Some 21%nat.
Proof. vm_compute. reflexivity. Qed.

Lemma staircase_source_vm_nonvacuous :
  exists prog cs g0 g', build_program wit_good = Ok prog /\ prog <> [] /\ translate prog = Ok cs /\
    gen_set_commands (gvm_init 2) (map embed cs) = Ok g0 /\ gen_run_n 1000 g0 = Some (Ok g') /\ length (gvm_history g') = 21%nat.
Proof. exact (source_vm_demo_sound wit_good 2 1000 21 source_vm_demo_eq). Qed.

(* Round 4: the same with the translator taken from the source as well (Gen_linspace_tr.v): to_increment_commands on the node
   tree the modelled builder produces, LinSpaceVM.__init__, set_commands, run. *)
Require Import QV.C17.Gen_linspace_tr QV.C17.GenTrEq.

Theorem staircase_source_translator_vm : forall channels s prog gcs fuel g0 g',
  src_wf channels s = true -> guard_C17_key_collision s = true ->
  build_program s = Ok prog -> prog <> [] ->
  gen_to_increment_commands (map embed_node prog) = Ok gcs ->
  gen_set_commands (gen_vm_init channels) gcs = Ok g0 ->
  gen_run fuel g0 = Some (Ok g') ->
  plays (gvm_history g') (fst (staircase s)) = true /\ Qeq_bool (gvm_time g') (snd (staircase s)) = true.
Proof.
  intros channels s prog gcs fuel g0 g' Hwf Hg Hb Hne Ht Hset Hrun. rewrite gen_run_eq in Hrun.
  rewrite gen_to_increment_commands_eq in Ht. destruct (translate prog) as [cs|e] eqn:E; [|discriminate].
  injection Ht as <-. rewrite gen_vm_init_eq in Hset.
  exact (staircase_source_vm channels s prog cs fuel g0 g' Hwf Hg Hb Hne E Hset Hrun).
Qed.

Definition source_tr_vm_demo (s : src) (channels fuel : nat) : option nat :=
  match build_program s with
  | Ok prog =>
      match prog with [] => None | _ =>
      match gen_to_increment_commands (map embed_node prog) with
      | Ok gcs => match gen_set_commands (gen_vm_init channels) gcs with
                  | Ok g0 => match gen_run fuel g0 with Some (Ok g') => Some (length (gvm_history g')) | _ => None end
                  | Err _ => None
                  end
      | Err _ => None
      end end
  | Err _ => None
  end.

Lemma source_tr_vm_demo_sound : forall s channels fuel n, source_tr_vm_demo s channels fuel = Some n ->
  exists prog gcs g0 g', build_program s = Ok prog /\ prog <> [] /\ gen_to_increment_commands (map embed_node prog) = Ok gcs /\
    gen_set_commands (gen_vm_init channels) gcs = Ok g0 /\ gen_run fuel g0 = Some (Ok g') /\ length (gvm_history g') = n.
Proof.
  intros s channels fuel n H. unfold source_tr_vm_demo in H.
  destruct (build_program s) as [prog|] eqn:E1; [|discriminate H].
  destruct prog as [|n0 prog]; [discriminate H|].
  destruct (gen_to_increment_commands (map embed_node (n0 :: prog))) as [gcs|] eqn:E2; [|discriminate H].
  destruct (gen_set_commands (gen_vm_init channels) gcs) as [g0|] eqn:E3; [|discriminate H].
  destruct (gen_run fuel g0) as [[g'|]|] eqn:E4; try discriminate H.
  exists (n0 :: prog), gcs, g0, g'. split; [reflexivity|]. split; [discriminate|]. split; [exact E2|]. split; [exact E3|].
  split; [exact E4|]. injection H as H. exact H.
Qed.

Lemma source_tr_vm_demo_eq : source_tr_vm_demo wit_good 2 1000 = Some 21%nat.
Proof. vm_compute. reflexivity. Qed.

Lemma staircase_source_translator_vm_nonvacuous :
  exists prog gcs g0 g', build_program wit_good = Ok prog /\ prog <> [] /\ gen_to_increment_commands (map embed_node prog) = Ok gcs /\
    gen_set_commands (gen_vm_init 2) gcs = Ok g0 /\ gen_run 1000 g0 = Some (Ok g') /\ length (gvm_history g') = 21%nat.
Proof. exact (source_tr_vm_demo_sound wit_good 2 1000 21 source_tr_vm_demo_eq). Qed.

(* Round 4: builder, translator and VM all taken from the source; only the driver (what the pulse templates call on the builder)
   and the positional reading of the named source (to_src) are written by hand. *)
Theorem staircase_source_all : forall channels ns b prog gcs fuel g0 g',
  src_wf channels (to_src [] ns) = true -> guard_C17_key_collision (to_src [] ns) = true ->
  drive ns gen_builder_init = Ok b -> gen_to_program b = Ok (Some prog) ->
  gen_to_increment_commands prog = Ok gcs ->
  gen_set_commands (gen_vm_init channels) gcs = Ok g0 ->
  gen_run fuel g0 = Some (Ok g') ->
  plays (gvm_history g') (fst (staircase (to_src [] ns))) = true /\ Qeq_bool (gvm_time g') (snd (staircase (to_src [] ns))) = true.
Proof.
  intros channels ns b prog gcs fuel g0 g' Hwf Hg Hd Hp Ht Hset Hrun.
  pose proof (builder_program_eq ns) as H. destruct (build_program (to_src [] ns)) as [nodes|e] eqn:Eb; [|contradiction].
  destruct H as (b0 & Hd0 & Hp0). rewrite Hd0 in Hd. injection Hd as <-. rewrite Hp0 in Hp.
  destruct nodes as [|n0 nodes]; [discriminate|]. injection Hp as <-.
  eapply staircase_source_translator_vm; eauto. discriminate.
Qed.

Definition source_all_demo (ns : nsrc) (channels fuel : nat) : option nat :=
  match drive ns gen_builder_init with
  | Ok b => match gen_to_program b with
            | Ok (Some prog) =>
                match gen_to_increment_commands prog with
                | Ok gcs => match gen_set_commands (gen_vm_init channels) gcs with
                            | Ok g0 => match gen_run fuel g0 with Some (Ok g') => Some (length (gvm_history g')) | _ => None end
                            | Err _ => None
                            end
                | Err _ => None
                end
            | _ => None
            end
  | Err _ => None
  end.

Lemma source_all_demo_sound : forall ns channels fuel n, source_all_demo ns channels fuel = Some n ->
  exists b prog gcs g0 g', drive ns gen_builder_init = Ok b /\ gen_to_program b = Ok (Some prog) /\
    gen_to_increment_commands prog = Ok gcs /\ gen_set_commands (gen_vm_init channels) gcs = Ok g0 /\
    gen_run fuel g0 = Some (Ok g') /\ length (gvm_history g') = n.
Proof.
  intros ns channels fuel n H. unfold source_all_demo in H.
  destruct (drive ns gen_builder_init) as [b|] eqn:E1; [|discriminate H].
  destruct (gen_to_program b) as [[prog|]|] eqn:E2; try discriminate H.
  destruct (gen_to_increment_commands prog) as [gcs|] eqn:E3; [|discriminate H].
  destruct (gen_set_commands (gen_vm_init channels) gcs) as [g0|] eqn:E4; [|discriminate H].
  destruct (gen_run fuel g0) as [[g'|]|] eqn:E5; try discriminate H.
  exists b, prog, gcs, g0, g'. repeat split; auto. injection H as H. exact H.
Qed.

(* for j in range(3): (for i in range(5, 1, -2): hold(1, a = 1/4 + i/2 - j/4, b = 2*j)); rest; (rest; pulse) * 2, index i = 0, j = 1 *)
Definition wit_named : nsrc :=
  NSSeq [NSIter 1 0 3 1 (NSSeq [NSIter 0 5 1 (-2) (NSHold 1 [NVExpr (1 # 4) [(0%nat, 1 # 2); (1%nat, (-1) # 4)]; NVExpr 0 [(1%nat, 2 # 1)]]);
                               NSHold (1 # 2) [NVNum (1 # 2); NVExpr 1 [(1%nat, 1 # 1)]]]);
         NSHold 1 [NVNum (1 # 8); NVNum (3 # 8)];
         NSRep 2 (NSSeq [NSHold 1 [NVNum (1 # 8); NVNum (3 # 8)]; NSHold 2 [NVNum (1 # 4); NVNum ((-3) # 8)]])].

Lemma source_all_demo_eq : source_all_demo wit_named 2 1000 = Some 14%nat.
Proof. vm_compute. reflexivity. Qed.

Lemma wit_named_ok : src_wf 2 (to_src [] wit_named) = true /\ guard_C17_key_collision (to_src [] wit_named) = true.
Proof. vm_compute. split; reflexivity. Qed.

Lemma staircase_source_all_nonvacuous :
  src_wf 2 (to_src [] wit_named) = true /\ guard_C17_key_collision (to_src [] wit_named) = true /\
  exists b prog gcs g0 g', drive wit_named gen_builder_init = Ok b /\ gen_to_program b = Ok (Some prog) /\
    gen_to_increment_commands prog = Ok gcs /\ gen_set_commands (gen_vm_init 2) gcs = Ok g0 /\
    gen_run 1000 g0 = Some (Ok g') /\ length (gvm_history g') = 14%nat.
Proof.
  destruct wit_named_ok as [A B]. split; [exact A|]. split; [exact B|].
  exact (source_all_demo_sound wit_named 2 1000 14 source_all_demo_eq).
Qed.
