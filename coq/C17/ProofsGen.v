(* C17 — end to end with the VM translated from the source: the staircase theorem for the run of the translated
   LinSpaceVM.step (Gen_linspace_obj.v) on the commands of the modelled builder + translator. *)
From Coq Require Import ZArith QArith List Bool Lia.
Require Import QV.C17.Model QV.C17.Spec QV.C17.Proofs QV.C17.GenLib QV.C17.Gen_linspace QV.C17.Gen_linspace_obj QV.C17.GenObjEq
               QV.C17.SimDefs QV.C17.ProofsStair.
Import ListNotations.

Theorem staircase_source_vm : forall channels s prog cs fuel g0 g',
  src_wf channels s = true -> guard_C17_key_collision s = true ->
  build_program s = Ok prog -> prog <> [] -> translate prog = Ok cs ->
  gen_set_commands (gvm_init channels) (map embed cs) = Ok g0 ->
  gen_run_n fuel g0 = Some (Ok g') ->
  plays (gvm_history g') (fst (staircase s)) = true /\ Qeq_bool (gvm_time g') (snd (staircase s)) = true.
Proof.
  intros channels s prog cs fuel g0 g' Hwf Hg Hb Hne Ht Hset Hrun.
  pose proof (gen_run_refines cs fuel _ _ (gen_set_commands_init channels cs g0 Hset)) as Hr.
  destruct fuel as [|f]; [discriminate|].
  destruct (vm_run_n (S f) cs (vm0 channels)) as [s'|s'|e] eqn:Ev; cbn [run_refines] in Hr.
  - rewrite Hrun in Hr. discriminate.
  - destruct Hr as (g2 & Hg2 & R). rewrite Hrun in Hg2. inversion Hg2; subst g2.
    rewrite (R_hist _ _ _ R), (R_time _ _ _ R).
    apply (staircase_full channels s (Pos.of_nat (S f)) (rev (v_hist s')) (v_time s') Hwf Hg).
    unfold pipeline. rewrite Hb. cbn [bind]. destruct prog as [|n0 prog']; [congruence|].
    rewrite Ht. cbn [bind]. rewrite run_vm_binary_unary, Nat2Pos.id by discriminate.
    unfold run_vm_n. rewrite Ev. reflexivity.
  - rewrite Hrun in Hr. discriminate.
Qed.

(* non-vacuity: the translated set_commands + run on the commands of a source with a repetition and two iteration levels *)
Definition source_vm_demo (s : src) (channels fuel : nat) : option nat :=
  match build_program s with
  | Ok prog =>
      match prog with [] => None | _ =>
      match translate prog with
      | Ok cs => match gen_set_commands (gvm_init channels) (map embed cs) with
                 | Ok g0 => match gen_run_n fuel g0 with Some (Ok g') => Some (length (gvm_history g')) | _ => None end
                 | Err _ => None
                 end
      | Err _ => None
      end end
  | Err _ => None
  end.

Lemma source_vm_demo_sound : forall s channels fuel n, source_vm_demo s channels fuel = Some n ->
  exists prog cs g0 g', build_program s = Ok prog /\ prog <> [] /\ translate prog = Ok cs /\
    gen_set_commands (gvm_init channels) (map embed cs) = Ok g0 /\ gen_run_n fuel g0 = Some (Ok g') /\ length (gvm_history g') = n.
Proof.
  intros s channels fuel n H. unfold source_vm_demo in H.
  destruct (build_program s) as [prog|] eqn:E1; [|discriminate H].
  destruct prog as [|n0 prog]; [discriminate H|].
  destruct (translate (n0 :: prog)) as [cs|] eqn:E2; [|discriminate H].
  destruct (gen_set_commands (gvm_init channels) (map embed cs)) as [g0|] eqn:E3; [|discriminate H].
  destruct (gen_run_n fuel g0) as [[g'|]|] eqn:E4; try discriminate H.
  exists (n0 :: prog), cs, g0, g'. split; [reflexivity|]. split; [discriminate|]. split; [exact E2|]. split; [exact E3|].
  split; [exact E4|]. injection H as H. exact H.
Qed.

Lemma source_vm_demo_eq : source_vm_demo wit_good 2 1000 = Some 21%nat.
Proof. vm_compute. reflexivity. Qed.

Lemma staircase_source_vm_nonvacuous :
  exists prog cs g0 g', build_program wit_good = Ok prog /\ prog <> [] /\ translate prog = Ok cs /\
    gen_set_commands (gvm_init 2) (map embed cs) = Ok g0 /\ gen_run_n 1000 g0 = Some (Ok g') /\ length (gvm_history g') = 21%nat.
Proof. exact (source_vm_demo_sound wit_good 2 1000 21 source_vm_demo_eq). Qed.

(* Round 4: the same with the translator taken from the source as well (Gen_linspace_tr.v): to_increment_commands on the node
   tree the modelled builder produces, LinSpaceVM.__init__, set_commands, run. *)
Require Import QV.C17.Gen_linspace_tr QV.C17.GenTrEq.

Theorem staircase_source_translator_vm : forall channels s prog gcs fuel g0 g',
  src_wf channels s = true -> guard_C17_key_collision s = true ->
  build_program s = Ok prog -> prog <> [] ->
  gen_to_increment_commands (map embed_node prog) = Ok gcs ->
  gen_set_commands (gen_vm_init channels) gcs = Ok g0 ->
  gen_run_n fuel g0 = Some (Ok g') ->
  plays (gvm_history g') (fst (staircase s)) = true /\ Qeq_bool (gvm_time g') (snd (staircase s)) = true.
Proof.
  intros channels s prog gcs fuel g0 g' Hwf Hg Hb Hne Ht Hset Hrun.
  rewrite gen_to_increment_commands_eq in Ht. destruct (translate prog) as [cs|e] eqn:E; [|discriminate].
  injection Ht as <-. rewrite gen_vm_init_eq in Hset.
  exact (staircase_source_vm channels s prog cs fuel g0 g' Hwf Hg Hb Hne E Hset Hrun).
Qed.

Definition source_tr_vm_demo (s : src) (channels fuel : nat) : option nat :=
  match build_program s with
  | Ok prog =>
      match prog with [] => None | _ =>
      match gen_to_increment_commands (map embed_node prog) with
      | Ok gcs => match gen_set_commands (gen_vm_init channels) gcs with
                  | Ok g0 => match gen_run_n fuel g0 with Some (Ok g') => Some (length (gvm_history g')) | _ => None end
                  | Err _ => None
                  end
      | Err _ => None
      end end
  | Err _ => None
  end.

Lemma source_tr_vm_demo_sound : forall s channels fuel n, source_tr_vm_demo s channels fuel = Some n ->
  exists prog gcs g0 g', build_program s = Ok prog /\ prog <> [] /\ gen_to_increment_commands (map embed_node prog) = Ok gcs /\
    gen_set_commands (gen_vm_init channels) gcs = Ok g0 /\ gen_run_n fuel g0 = Some (Ok g') /\ length (gvm_history g') = n.
Proof.
  intros s channels fuel n H. unfold source_tr_vm_demo in H.
  destruct (build_program s) as [prog|] eqn:E1; [|discriminate H].
  destruct prog as [|n0 prog]; [discriminate H|].
  destruct (gen_to_increment_commands (map embed_node (n0 :: prog))) as [gcs|] eqn:E2; [|discriminate H].
  destruct (gen_set_commands (gen_vm_init channels) gcs) as [g0|] eqn:E3; [|discriminate H].
  destruct (gen_run_n fuel g0) as [[g'|]|] eqn:E4; try discriminate H.
  exists (n0 :: prog), gcs, g0, g'. split; [reflexivity|]. split; [discriminate|]. split; [exact E2|]. split; [exact E3|].
  split; [exact E4|]. injection H as H. exact H.
Qed.

Lemma source_tr_vm_demo_eq : source_tr_vm_demo wit_good 2 1000 = Some 21%nat.
Proof. vm_compute. reflexivity. Qed.

Lemma staircase_source_translator_vm_nonvacuous :
  exists prog gcs g0 g', build_program wit_good = Ok prog /\ prog <> [] /\ gen_to_increment_commands (map embed_node prog) = Ok gcs /\
    gen_set_commands (gen_vm_init 2) gcs = Ok g0 /\ gen_run_n 1000 g0 = Some (Ok g') /\ length (gvm_history g') = 21%nat.
Proof. exact (source_tr_vm_demo_sound wit_good 2 1000 21 source_tr_vm_demo_eq). Qed.
