(* C17 — correspondence cases.  Each case carries the source term, the implementation's observation (history of the
   LinSpaceVM run on the implementation's own commands, or the error kind) and the staircase of the *default* Loop
   program of the same template.  check_corr: model = implementation (and the source term denotes what the default
   program plays).  check_spec: the implementation's VM history is the default program's staircase. *)
From Coq Require Import ZArith QArith List Bool.
Require Import QV.common.Util QV.C17.Model QV.C17.Spec QV.C17.Scope QV.C17.SExpr.
Import ListNotations.
Open Scope Z_scope.

Inductive iobs :=
| IHist (h : hist_t) (total : Q)
| IErr (e : err).

(* SimpleExpression arithmetic: what the python operators returned for an expression tree (a number, or base / offsets in
   dict order / value(scope)), or that they raised *)
Inductive sobs :=
| SONum (q : Q)
| SOExp (base : Q) (offsets : list (nat * Q)) (value : Q)
| SOErr.

Inductive case :=
| CRun (channels : nat) (fuel : positive) (s : src) (exact : bool) (impl : iobs) (dflt : steps_t) (dflt_total : Q)
(* templates with loop-index rebinding mappings: the model flattens the scopes itself (Scope.v) *)
| CRun2 (channels : nat) (fuel : positive) (s : src2) (exact : bool) (impl : iobs) (dflt : steps_t) (dflt_total : Q)
| CScale (channels : nat) (fuel : positive) (s : src) (hw : list (option N * (Q * Q))) (by_idx : list (Q * Q))
         (impl : iobs) (dflt : steps_t) (dflt_total : Q)
(* a hold whose duration depends on the loop index, built by driving LinSpaceBuilder directly (outside the quantifier of
   the property): the translator refuses it; dflt = the default program of the corresponding template *)
| CDur (duration_factors : list Q) (impl : iobs) (dflt : steps_t) (dflt_total : Q)
| CSExpr (e : sx) (env : list (nat * Z)) (impl : sobs)
| CCrash.

Definition err_eqb (a b : err) : bool :=
  match a, b with
  | EAttr, EAttr | EAssert, EAssert | EKey, EKey | EIndex, EIndex | EDiv, EDiv | EFuel, EFuel | ENotImpl, ENotImpl | ERuntime, ERuntime => true
  | _, _ => false
  end.

(* voltages equal within the documented increment resolution times the number of executed steps (tol = 0: exactly) *)
Definition Qabs_le (a b tol : Q) : bool := Qle_bool (a - b) tol && Qle_bool (b - a) tol.
Definition resolution : Q := 1 # 1000000000.
Definition tol_of (exact : bool) (n : nat) : Q := if exact then 0%Q else (resolution * inject_Z (Z.of_nat (S n)))%Q.

Definition oq_close (tol : Q) (a b : option Q) : bool :=
  match a, b with Some x, Some y => Qabs_le x y tol | None, None => true | _, _ => false end.
Definition hist_eqb (tol : Q) (a b : hist_t) : bool := list_eqb (pair_eqb Qeq_bool (list_eqb (oq_close tol))) a b.
Definition steps_eqb (tol : Q) (a b : steps_t) : bool :=
  list_eqb (pair_eqb Qeq_bool (list_eqb (fun x y => Qabs_le x y tol))) a b.

Definition obs_eqb (exact : bool) (m : res outcome) (i : iobs) : bool :=
  match m, i with
  | Ok (h, t), IHist h' t' => hist_eqb (tol_of exact (length h')) h h' && Qeq_bool t t'
  | Err e, IErr e' => err_eqb e e'
  | _, _ => false
  end.

Definition check_corr (c : case) : bool :=
  match c with
  | CRun ch fuel s exact impl dflt dtot =>
      obs_eqb exact (pipeline fuel ch s) impl
      && (let '(st, tot) := staircase s in steps_eqb (tol_of exact (length dflt)) st dflt && Qeq_bool tot dtot)
  | CRun2 ch fuel s2 exact impl dflt dtot =>
      obs_eqb exact (pipeline fuel ch (src_of_impl s2)) impl
      && (let '(st, tot) := staircase (src_of_spec s2) in steps_eqb (tol_of exact (length dflt)) st dflt && Qeq_bool tot dtot)
  | CScale ch fuel s hw _ impl dflt dtot =>
      obs_eqb true (pipeline_transformed fuel ch hw s) impl
      && (let '(st, tot) := staircase s in steps_eqb 0 st dflt && Qeq_bool tot dtot)
  | CDur dfs impl _ _ =>
      match hold_duration_check dfs, impl with
      | Err e, IErr e' => err_eqb e e'
      | Ok _, IHist _ _ => true
      | _, _ => false
      end
  | CSExpr e env impl =>
      match sx_run e, impl with
      | Some (SNum q), SONum q' => Qeq_bool q q'
      | Some (SExp (b, o)), SOExp b' o' v =>
          Qeq_bool b b' && list_eqb (pair_eqb Nat.eqb Qeq_bool) o o' && Qeq_bool (se_value (env_of_alist env) (SExp (b, o))) v
      | None, SOErr => true
      | _, _ => false
      end
  | CCrash => false
  end.

Definition val_close (tol : Q) (a : option Q) (b : Q) : bool :=
  match a with Some x => Qabs_le x b tol | None => false end.

Definition hist_matches (tol : Q) (h : hist_t) (st : steps_t) : bool :=
  all2b (fun (a : Q * list (option Q)) (b : Q * list Q) =>
           Qeq_bool (fst a) (fst b) && all2b (val_close tol) (snd a) (snd b)) h st.

Definition check_spec (c : case) : bool :=
  match c with
  | CRun ch fuel s exact impl dflt dtot =>
      match impl with
      | IHist h tot =>
          hist_matches (tol_of exact (length h)) h dflt && Qeq_bool tot dtot
      | IErr _ => false
      end
  | CRun2 ch fuel s2 exact impl dflt dtot =>
      match impl with
      | IHist h tot => hist_matches (tol_of exact (length h)) h dflt && Qeq_bool tot dtot
      | IErr _ => false
      end
  | CScale ch fuel s hw by_idx impl dflt dtot =>
      match impl with
      | IHist h tot => hist_matches 0 h (scale_steps by_idx dflt) && Qeq_bool tot dtot
      | IErr _ => false
      end
  | CDur _ impl dflt dtot =>
      (* an explicit refusal plays nothing (the property holds vacuously); anything that is played must be the staircase *)
      match impl with
      | IErr ENotImpl => true
      | IErr _ => false
      | IHist h tot => hist_matches 0 h dflt && Qeq_bool tot dtot
      end
  | CSExpr e env impl =>
      (* the value of what the operators return is the value of the tree; they may refuse only trees that are not affine *)
      match impl with
      | SONum q => Qeq_bool q (sx_den (env_of_alist env) e)
      | SOExp _ _ v => Qeq_bool v (sx_den (env_of_alist env) e)
      | SOErr => negb (sx_affine e)
      end
  | CCrash => false
  end.
