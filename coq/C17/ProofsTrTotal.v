(* C17 — round 6: the translator half of totality.  `to_increment_commands` returns a command list for EVERY program the
   builder can produce (structure `nodes_ok`: every index dependent voltage has one factor per enclosing iteration, iteration
   lengths >= 1): none of the three assertions fires —
     (1) required_increment_from: len(self.iterations) == len(factors);
     (2) required_increment_from: `assert old == 0` / `assert new == 0` where the stored and the current iteration tuples differ;
     (3) _set_indexed_voltage: `assert all(it == 0 for it in self.iterations)` for a register never set before.
   No key-injectivity guard is needed.  Invariant (`Pre K st`): the iteration counters are >= 0 and, for every register (ch, key)
   in K (the registers the code still to be translated in this pass touches), the stored iteration tuple is >= 0 and, on the common
   outer levels, position by position equal to the current one, or 0 where the current one is larger, or the current one is 0; a
   register of K never set requires all current counters to be 0.  The write summaries of ProofsTr2 (`node_summ`) carry the
   invariant over a translated node; the second pass of an iteration re-establishes it for the registers of its own body. *)
From Coq Require Import ZArith QArith List Bool Lia ZifyBool.
Require Import QV.C17.Model QV.C17.Spec QV.C17.Proofs QV.C17.ProofsVM QV.C17.SimDefs QV.C17.ProofsTr1 QV.C17.ProofsTr2 QV.C17.ProofsSim3
               QV.C17.ProofsSim5b.
Import ListNotations.
Local Open Scope Z_scope.

Definition compat1 (o n : Z) : Prop := o = n \/ (o = 0 /\ 0 < n) \/ (n = 0 /\ 0 < o).
Fixpoint compat (olds news : list Z) : Prop :=
  match olds, news with
  | o :: os, n :: ns => compat1 o n /\ compat os ns
  | _, _ => True
  end.

Definition nonneg (l : list Z) : Prop := Forall (fun z => 0 <= z) l.

Lemma req_inc_loop_ok : forall olds news factors inc, compat olds news -> exists q, req_inc_loop olds news factors inc = Ok q.
Proof.
  induction olds as [|o olds IH]; intros news factors inc H; [eexists; reflexivity|].
  destruct news as [|n news]; [eexists; reflexivity|]. destruct factors as [|f factors]; [eexists; reflexivity|].
  cbn [compat] in H. destruct H as [H1 H2]. cbn [req_inc_loop].
  destruct (o =? n) eqn:E1; [apply IH; exact H2|].
  destruct (o <? n) eqn:E2.
  - assert (X : (o =? 0) = true) by (unfold compat1 in H1; lia). rewrite X. apply IH; exact H2.
  - assert (X : (n =? 0) = true) by (unfold compat1 in H1; lia). rewrite X. apply IH; exact H2.
Qed.

Lemma compat_refl_app : forall its suf, compat (its ++ suf) its.
Proof. induction its as [|i its IH]; intros suf; cbn; [destruct suf; exact I|]. split; [left; reflexivity|apply IH]. Qed.

Lemma compat_snoc0 : forall olds its, nonneg olds -> compat olds its -> compat olds (its ++ [0]).
Proof.
  induction olds as [|o olds IH]; intros its Hn H; [exact I|].
  apply Forall_cons_iff in Hn as [Ho Hn']. destruct its as [|i its]; cbn.
  - split; [|destruct olds; exact I]. unfold compat1. lia.
  - cbn in H. destruct H as [H1 H2]. split; [exact H1|apply IH; auto].
Qed.

Lemma compat_second_pass : forall its suf n, 0 < n -> compat ((its ++ [0]) ++ suf) (its ++ [n]).
Proof.
  induction its as [|i its IH]; intros suf n Hn; cbn.
  - split; [unfold compat1; lia|destruct suf; exact I].
  - split; [left; reflexivity|apply IH; exact Hn].
Qed.

Definition allzero (its : list Z) : bool := forallb (fun it => it =? 0) its.

Definition Pre (K : nat * key -> Prop) (st : tstate) : Prop :=
  nonneg (t_iters st) /\
  forall ck, K ck -> match dp st ck with
                     | Some bo => nonneg (snd bo) /\ compat (snd bo) (t_iters st)
                     | None => allzero (t_iters st) = true
                     end.

(* registers a node (list) writes *)
Definition touchN (n : node) (ck : nat * key) : Prop := last_node (h_dep ck) up_dep n <> None.
Definition touchL (B : list node) (ck : nat * key) : Prop := last_dep ck B <> None.

(* the summaries only append counters >= 0 *)
Lemma last_list_nonneg : forall ck B, Forall (fun n => forall bs, last_node (h_dep ck) up_dep n = Some bs -> nonneg (snd bs)) B ->
  forall bs, last_list (h_dep ck) up_dep B = Some bs -> nonneg (snd bs).
Proof.
  induction 1 as [|x B Hx HB IH]; intros bs H; [discriminate|]. cbn [last_list] in H.
  destruct (last_list (h_dep ck) up_dep B) as [y|] eqn:E; cbn [orlast] in H.
  - inversion H; subst. apply IH. first [exact E|reflexivity].
  - apply Hx. exact H.
Qed.

Lemma last_node_nonneg : forall ck n bs, last_node (h_dep ck) up_dep n = Some bs -> nonneg (snd bs).
Proof.
  intros ck. induction n as [vs dur|body c IHb|body len IHb] using node_ind2; intros bs H.
  - cbn [last_node] in H. unfold h_dep in H. revert H. destruct (nth_error _ _) as [[b [fs|]]|]; try (intros H; discriminate H).
    destruct (key_eqb (mk_key fs) []); [intros H; discriminate H|]. destruct (key_eqb (mk_key fs) (snd ck)); [|intros H; discriminate H].
    intros H. inversion H; subst. constructor.
  - rewrite last_node_rep in H. eapply last_list_nonneg; eauto.
  - rewrite last_node_iter in H. destruct (last_list (h_dep ck) up_dep body) as [y|] eqn:E; [|discriminate].
    cbn in H. inversion H; subst. unfold up_dep. cbn [snd]. constructor.
    + destruct (1 <? len) eqn:El; lia.
    + eapply last_list_nonneg; eauto.
Qed.

Lemma last_dep_nonneg : forall ck B bs, last_dep ck B = Some bs -> nonneg (snd bs).
Proof.
  intros ck B bs H. eapply last_list_nonneg; [|exact H]. apply Forall_forall. intros n _ bs' H'. eapply last_node_nonneg; eauto.
Qed.

Lemma nonneg_app : forall a b, nonneg a -> nonneg b -> nonneg (a ++ b).
Proof. intros. apply Forall_app. split; auto. Qed.

(* the invariant after a translated piece of code with write summary fD *)
Lemma Pre_after : forall K fA fP fD st st',
  Pre K st -> Summ fA fP fD st st' -> (forall ck bs, fD ck = Some bs -> nonneg (snd bs)) -> Pre K st'.
Proof.
  intros K fA fP fD st st' [Hn HK] (_ & _ & D & I & _) Hnn. unfold Pre. rewrite I. split; [exact Hn|].
  intros ck Hck. rewrite D. destruct (fD ck) as [bs|] eqn:E; cbn [addits option_map orlast].
  - cbn [snd]. split; [apply nonneg_app; [exact Hn|eapply Hnn; eauto]|apply compat_refl_app].
  - apply HK. exact Hck.
Qed.

(* ---- hold *)
Lemma hold_total : forall d vs c0 st K,
  hold_ok d vs = true -> length (t_iters st) = d -> Pre K st ->
  (forall ck, sel_dep (snd ck) (nth_off c0 vs (fst ck)) <> None -> K ck) ->
  exists cs st', tr_hold_chs c0 vs st = Ok (cs, st').
Proof.
  intros d. induction vs as [|[b [fs|]] vs IH]; intros c0 st K Hok Hd HP HK; cbn [tr_hold_chs].
  - eexists; eexists; reflexivity.
  - cbn [hold_ok] in Hok. apply andb_prop in Hok as [Hlen Hok]. apply Nat.eqb_eq in Hlen.
    assert (HK' : forall ck, sel_dep (snd ck) (nth_off (S c0) vs (fst ck)) <> None -> K ck).
    { intros ck H. apply HK. cbn [nth_off]. destruct (Nat.eqb (fst ck) c0) eqn:Ec; [|exact H].
      apply Nat.eqb_eq in Ec. rewrite nth_off_lt in H by lia. cbn in H. contradiction. }
    unfold tr_set_indexed. destruct (key_eqb (mk_key fs) []) eqn:Ez.
    + cbn [bind]. destruct (tr_set_voltage c0 b st) as [c1 st1] eqn:E1.
      destruct (set_voltage_summ _ _ _ _ _ E1) as (_ & _ & D1 & I1 & _).
      destruct (IH (S c0) st1 K Hok) as (c2 & st2 & E2); [congruence| |exact HK'|].
      * unfold Pre, dp in *. rewrite D1, I1. exact HP.
      * rewrite E2. cbn. eexists; eexists; reflexivity.
    + assert (Kc : K (c0, mk_key fs)).
      { apply HK. cbn [fst snd nth_off]. rewrite Nat.eqb_refl. cbn [sel_dep]. rewrite Ez.
        assert (X : key_eqb (mk_key fs) (mk_key fs) = true) by (unfold key_eqb; destruct (list_eq_dec Z.eq_dec (mk_key fs) (mk_key fs)); congruence).
        rewrite X. discriminate. }
      assert (exists c1 st1, tr_set_indexed_nz c0 b fs st = Ok (c1, st1)) as (c1 & st1 & E1).
      { unfold tr_set_indexed_nz. destruct HP as [Hn HPK]. specialize (HPK _ Kc). unfold dp in HPK.
        destruct (alookup ck_eqb (c0, mk_key fs) (t_deps st)) as [prev|].
        - destruct HPK as [_ Hc]. unfold required_increment_from. cbn [snd fst].
          assert (X : Nat.eqb (length (t_iters st)) (length fs) = true) by (apply Nat.eqb_eq; congruence). rewrite X. cbn [negb].
          destruct (req_inc_loop_ok (snd prev) (t_iters st) fs (b - fst prev)%Q Hc) as [q Hq]. rewrite Hq. cbn [bind].
          eexists; eexists; reflexivity.
        - unfold allzero in HPK. rewrite HPK. eexists; eexists; reflexivity. }
      rewrite E1. cbn [bind]. destruct (set_indexed_summ _ _ _ _ _ _ E1) as (_ & _ & D1 & I1 & _).
      destruct (IH (S c0) st1 K Hok) as (c2 & st2 & E2); [congruence| |exact HK'|].
      * destruct HP as [Hn HPK]. unfold Pre. rewrite I1. split; [exact Hn|]. intros ck Hck. rewrite D1.
        destruct (ck_eqb ck (c0, mk_key fs)); [|apply HPK; exact Hck]. cbn [snd]. split; [exact Hn|].
        rewrite <- (app_nil_r (t_iters st)) at 1. apply compat_refl_app.
      * rewrite E2. cbn. eexists; eexists; reflexivity.
  - cbn [hold_ok] in Hok.
    assert (HK' : forall ck, sel_dep (snd ck) (nth_off (S c0) vs (fst ck)) <> None -> K ck).
    { intros ck H. apply HK. cbn [nth_off]. destruct (Nat.eqb (fst ck) c0) eqn:Ec; [|exact H].
      apply Nat.eqb_eq in Ec. rewrite nth_off_lt in H by lia. cbn in H. contradiction. }
    destruct (tr_set_voltage c0 b st) as [c1 st1] eqn:E1.
    destruct (set_voltage_summ _ _ _ _ _ E1) as (_ & _ & D1 & I1 & _).
    destruct (IH (S c0) st1 K Hok) as (c2 & st2 & E2); [congruence| |exact HK'|].
    + unfold Pre, dp in *. rewrite D1, I1. exact HP.
    + rewrite E2. cbn. eexists; eexists; reflexivity.
Qed.

(* ---- nodes *)
Section total.
  Variable reps : bool.
  Variable C : nat.

  Definition tot_node (n : node) : Prop :=
    forall d K st, node_ok reps C d n = true -> length (t_iters st) = d -> Pre K st -> (forall ck, touchN n ck -> K ck) ->
    exists cs st', tr_node n st = Ok (cs, st').
  Definition tot_list (B : list node) : Prop :=
    forall d K st, nodes_ok reps C d B = true -> length (t_iters st) = d -> Pre K st -> (forall ck, touchL B ck -> K ck) ->
    exists cs st', tr_nodes B st = Ok (cs, st').

  Lemma tot_list_of : forall B, Forall tot_node B -> tot_list B.
  Proof.
    induction 1 as [|x B Hx HB IH]; intros d K st Hok Hd HP HK.
    - eexists; eexists; reflexivity.
    - cbn [nodes_ok] in Hok. apply andb_prop in Hok as [Hokx HokB]. rewrite tr_nodes_cons.
      destruct (Hx d K st Hokx Hd HP) as (c1 & st1 & E1).
      { intros ck H. apply HK. unfold touchL, touchN in *. unfold last_dep. cbn [last_list].
        destruct (last_list (h_dep ck) up_dep B); cbn [orlast]; [discriminate|exact H]. }
      rewrite E1. cbn [bind]. destruct (node_summ x _ _ _ E1) as [S1 _].
      assert (HP1 : Pre K st1).
      { eapply Pre_after; [exact HP|exact S1|]. intros ck bs. apply last_node_nonneg. }
      destruct (IH d K st1 HokB) as (c2 & st2 & E2); auto.
      { destruct S1 as (_ & _ & _ & I1 & _). congruence. }
      { intros ck H. apply HK. unfold touchL in *. unfold last_dep in *. cbn [last_list].
        destruct (last_list (h_dep ck) up_dep B); cbn [orlast]; [discriminate|contradiction]. }
      rewrite E2. cbn. eexists; eexists; reflexivity.
  Qed.

  Lemma tot_node_all : forall n, tot_node n.
  Proof.
    induction n as [vs dur|body c IHb|body len IHb] using node_ind2; intros d K st Hok Hd HP HK.
    - rewrite tr_node_hold. cbn [node_ok] in Hok. apply andb_prop in Hok as [_ Hhok].
      destruct (hold_total d vs 0%nat st K Hhok Hd HP) as (cs & st1 & E).
      { intros ck H. apply HK. unfold touchN. cbn [last_node]. unfold h_dep. rewrite nth_off_0 in H. exact H. }
      rewrite E. cbn. eexists; eexists; reflexivity.
    - pose proof (tot_list_of body IHb) as HL. apply node_ok_rep in Hok as (_ & _ & _ & HokB).
      rewrite tr_node_rep. cbv zeta.
      destruct (HL d K (with_label st (t_label st + 1)) HokB Hd HP) as (cs1 & st1 & E1).
      { intros ck H. apply HK. exact H. }
      rewrite E1. cbn [bind]. destruct (nodes_summ body _ _ _ E1) as [S1 _].
      destruct (set_eqb _ _ && entry_unchanged _ _); [eexists; eexists; reflexivity|].
      destruct (0 <? c - 1); [|eexists; eexists; reflexivity].
      assert (HP1 : Pre K st1).
      { eapply (Pre_after K _ _ _ (with_label st (t_label st + 1)) st1); [exact HP|exact S1|]. intros ck bs. apply last_dep_nonneg. }
      destruct (HL d K st1 HokB) as (cs2 & st2 & E2);
        [destruct S1 as (_ & _ & _ & I1 & _); cbn [with_label t_iters] in I1; congruence|exact HP1|intros ck H; apply HK; exact H|].
      rewrite E2. cbn. eexists; eexists; reflexivity.
    - pose proof (tot_list_of body IHb) as HL. apply node_ok_iter in Hok as (Hlen & _ & HokB).
      rewrite tr_node_iter. cbv zeta.
      assert (HKb : forall ck, touchL body ck -> K ck).
      { intros ck H. apply HK. unfold touchN. rewrite last_node_iter. unfold touchL, last_dep in H.
        destruct (last_list (h_dep ck) up_dep body); [discriminate|contradiction]. }
      destruct HP as [Hn HPK].
      destruct (HL (S d) K (with_iters st (t_iters st ++ [0])) HokB) as (cs1 & st1 & E1); auto.
      { cbn [with_iters t_iters]. rewrite app_length. cbn. lia. }
      { split; cbn [with_iters t_iters].
        - apply nonneg_app; [exact Hn|]. constructor; [lia|constructor].
        - intros ck Hck. specialize (HPK ck Hck). change (dp (with_iters st (t_iters st ++ [0])) ck) with (dp st ck).
          destruct (dp st ck) as [bo|].
          + destruct HPK as [A B]. split; [exact A|apply compat_snoc0; auto].
          + unfold allzero in *. rewrite forallb_app, HPK. reflexivity. }
      rewrite E1. cbn [bind]. destruct (nodes_summ body _ _ _ E1) as [(_ & _ & D1 & I1 & _) _].
      cbn [with_iters t_iters] in D1, I1. change (dp (with_iters st (t_iters st ++ [0]))) with (dp st) in D1.
      destruct (1 <? len) eqn:El; [|eexists; eexists; reflexivity].
      match goal with |- context [tr_nodes body ?s] => set (sl := s) end.
      destruct (HL (S d) (touchL body) sl HokB) as (cs2 & st2 & E2).
      { unfold sl. cbn [t_iters]. rewrite app_length. cbn. lia. }
      { split.
        - unfold sl; cbn [t_iters]. apply nonneg_app; [exact Hn|]. constructor; [lia|constructor].
        - intros ck Hck. change (dp sl ck) with (dp st1 ck). change (t_iters sl) with (t_iters st ++ [len - 1]). rewrite D1. unfold touchL in Hck.
          destruct (last_dep ck body) as [bs|] eqn:Eb; [|contradiction]. cbn [addits option_map orlast snd].
          split.
          + apply nonneg_app; [apply nonneg_app; [exact Hn|constructor; [lia|constructor]]|eapply last_dep_nonneg; eauto].
          + apply compat_second_pass. lia. }
      { auto. }
      rewrite E2. cbn. eexists; eexists; reflexivity.
  Qed.
End total.

(* the translator returns for every well-structured program *)
Theorem translate_total : forall reps C prog, nodes_ok reps C 0 prog = true -> exists cs, translate prog = Ok cs.
Proof.
  intros reps C prog Hok. unfold translate.
  destruct (tot_list_of reps C prog) with (d := 0%nat) (K := fun _ : nat * key => True) (st := t0) as (cs & st' & E); auto.
  - apply Forall_forall. intros n _. apply tot_node_all.
  - split; [constructor|]. intros ck _. reflexivity.
  - rewrite E. cbn. eexists; reflexivity.
Qed.
