(* C17 — the structural part of prog_ok follows from src_wf. *)
From Coq Require Import ZArith QArith List Bool Lia ZifyBool Setoid.
Require Import QV.C17.Model QV.C17.Spec QV.C17.Proofs QV.C17.ProofsVM QV.C17.SimDefs QV.C17.ProofsBuild.
Import ListNotations.
Local Open Scope Z_scope.

Fixpoint walk_fs (rs : list (Z * Z)) (coefs : list Q) (i : nat) : list Q :=
  match rs with
  | [] => []
  | (start, step) :: rs' =>
      (if Qeq_bool (nth_coef coefs i) 0 then 0%Q else (0 + inject_Z step * nth_coef coefs i)%Q) :: walk_fs rs' coefs (S i)
  end.

Lemma aff_walk_fs : forall rs coefs i base acc b incs,
  aff_walk rs coefs i base acc = (b, incs) -> incs = rev acc ++ walk_fs rs coefs i.
Proof.
  induction rs as [|[start step] rs IH]; intros coefs i base acc b incs H; cbn in H.
  - inversion H. now rewrite app_nil_r.
  - cbn [walk_fs]. destruct (Qeq_bool (nth_coef coefs i) 0); apply IH in H; rewrite H; cbn; rewrite <- app_assoc; reflexivity.
Qed.

Lemma walk_fs_length : forall rs coefs i, length (walk_fs rs coefs i) = length rs.
Proof. induction rs as [|[a b] rs IH]; intros; cbn; auto. Qed.

Lemma build_volts_ok : forall rs vs nvs, build_volts rs vs = Ok nvs ->
  length nvs = length vs /\ hold_ok (length rs) nvs = true.
Proof.
  intros rs. induction vs as [|v vs IH]; intros nvs H; cbn in H.
  - inversion H; subst. split; reflexivity.
  - destruct (build_volt rs v) as [x|] eqn:Ev; cbn in H; [|discriminate].
    destruct (build_volts rs vs) as [r|] eqn:Er; cbn in H; [|discriminate]. inversion H; subst.
    destruct (IH r eq_refl) as [L O]. split; [cbn; lia|].
    destruct v; cbn in Ev.
    + inversion Ev; subst. cbn. exact O.
    + inversion Ev; subst. cbn. exact O.
    + destruct (aff_walk rs coefs 0 base []) as [b incs] eqn:Ew. inversion Ev; subst. cbn [hold_ok].
      apply aff_walk_fs in Ew. cbn in Ew. subst incs. rewrite walk_fs_length, Nat.eqb_refl, O. reflexivity.
Qed.

Lemma nodes_ok_app : forall reps C d a b, nodes_ok reps C d (a ++ b) = nodes_ok reps C d a && nodes_ok reps C d b.
Proof. induction a as [|x a IH]; intros b; cbn; auto. rewrite IH. now rewrite andb_assoc. Qed.

Lemma nodes_ok_local : forall reps C d l,
  (fix go (l : list node) : bool := match l with [] => true | x :: l' => node_ok reps C d x && go l' end) l = nodes_ok reps C d l.
Proof. induction l as [|x l IH]; cbn; auto. now rewrite IH. Qed.

Lemma range_len_nonneg : forall a b c, 0 <= range_len a b c.
Proof. intros. unfold range_len. destruct (0 <? c); [lia|]. destruct (c <? 0); lia. Qed.

Definition ok_stmt (C : nat) (s : src) : Prop :=
  forall rs nodes, build s rs = Ok nodes -> src_wf C s = true -> nodes_ok true C (length rs) nodes = true.

Lemma build_ok : forall C s, ok_stmt C s.
Proof.
  intros C. induction s as [dur vs|l IHl|c body IHb|a b c body IHb] using src_ind2; intros rs nodes H HW.
  - cbn in H. destruct (Qpos_b dur).
    + destruct (build_volts rs vs) as [nvs|] eqn:Ev; cbn in H; [|discriminate]. inversion H; subst.
      cbn in HW. destruct (build_volts_ok _ _ _ Ev) as [L O]. cbn. rewrite L, HW, O. reflexivity.
    + inversion H; subst. reflexivity.
  - rewrite build_seq in H. revert nodes H HW.
    induction IHl as [|x l Hx Hl IH]; intros nodes H HW.
    + cbn in H. inversion H; subst. reflexivity.
    + cbn in H. destruct (build x rs) as [na|] eqn:Ea; cbn in H; [|discriminate].
      fold (bseq l rs) in H. destruct (bseq l rs) as [nb|] eqn:Eb; cbn in H; [|discriminate]. inversion H; subst.
      cbn in HW. apply andb_prop in HW as [HW1 HW2].
      rewrite nodes_ok_app. rewrite (Hx rs na Ea HW1). cbn. apply IH; auto.
  - cbn [build] in H. destruct (c <=? 0) eqn:Ec.
    + inversion H; subst. reflexivity.
    + destruct (build body rs) as [blocks|] eqn:Eb; cbn in H; [|discriminate].
      cbn in HW. specialize (IHb rs blocks Eb HW).
      destruct blocks as [|n0 blocks]; inversion H; subst; [reflexivity|].
      cbn [nodes_ok] in IHb. apply andb_prop in IHb as [I1 I2].
      cbn [nodes_ok node_ok]. rewrite nodes_ok_local, I1, I2. cbn. assert (X : (1 <=? c) = true) by lia. rewrite X. reflexivity.
  - cbn [build] in H. destruct (range_len a b c =? 0) eqn:En.
    + inversion H; subst. reflexivity.
    + destruct (build body (rs ++ [(a, c)])) as [cmds|] eqn:Eb; cbn in H; [|discriminate].
      cbn in HW. apply andb_prop in HW as [HW1 HW2].
      assert (HL : length (rs ++ [(a, c)]) = S (length rs)) by (rewrite app_length; cbn; lia).
      specialize (IHb (rs ++ [(a, c)]) cmds Eb HW2). rewrite HL in IHb.
      destruct cmds as [|n0 cmds]; inversion H; subst; [reflexivity|].
      cbn [nodes_ok] in IHb. apply andb_prop in IHb as [I1 I2].
      cbn [nodes_ok node_ok]. rewrite nodes_ok_local, I1, I2. cbn.
      pose proof (range_len_nonneg a b c). assert (X : (1 <=? range_len a b c) = true) by lia. rewrite X. reflexivity.
Qed.

Lemma built_ok_of_source : forall C s,
  src_wf C s = true -> guard_C17_key_collision s = true -> guard_C17_built_ok true C s = true.
Proof.
  intros C s HW HK. unfold guard_C17_built_ok, guard_C17_key_collision in *. unfold build_program in *.
  destruct (build s []) as [prog|] eqn:E; auto. unfold prog_ok. rewrite HK, andb_true_r.
  apply (build_ok C s [] prog E HW).
Qed.
