(* C17 — ProgramEntry._transform_linspace_commands translated from the CURRENT source text of qupulse/hardware/awgs/base.py
   (Gen_awg_base.v, regenerated on every run) against the model's channel_trafos / transform_cmd / transform.  The generated
   definitions are more general (optional voltage transformations: RuntimeError for an Increment, applied first for a Set);
   the model and the property cover outputs without a voltage transformation. *)
From Coq Require Import ZArith QArith List Bool.
Require Import QV.C17.Model QV.C17.GenLib QV.C17.Gen_linspace_obj QV.C17.GenObjEq QV.C17.Gen_awg_base.
Import ListNotations.

Definition gtrafo_of (ao : Q * Q) : gtrafo := mkGtrafo (fst ao) (snd ao) None.

(* the list comprehension over zip(self._channels, self._voltage_transformations, self._amplitudes, self._offsets) with
   `if ch is not None`, on outputs hw = [(channel, (amplitude, offset))] without voltage transformations *)
Lemma gen_trafos_eq : forall hw : list (option N * (Q * Q)),
  gen_trafos (map fst hw) (map (fun _ => None) hw) (map (fun x => fst (snd x)) hw) (map (fun x => snd (snd x)) hw)
  = map gtrafo_of (channel_trafos hw).
Proof.
  unfold channel_trafos. induction hw as [|[[c|] [a o]] hw IH]; cbn [map fst snd gen_trafos is_some filter]; [reflexivity| |].
  - rewrite IH. reflexivity.
  - exact IH.
Qed.

Definition lift_cmd (r : res cmd) : res gcmd := match r with Ok c => Ok (embed c) | Err e => Err e end.
Definition lift_cmds (r : res (list cmd)) : res (list gcmd) := match r with Ok cs => Ok (map embed cs) | Err e => Err e end.

Lemma gen_transform_cmd_eq : forall tr c, gen_transform_cmd (map gtrafo_of tr) (embed c) = lift_cmd (transform_cmd tr c).
Proof.
  intros tr c. destruct c as [ch v k|ch v k|d|i n|i]; cbn [embed gen_transform_cmd transform_cmd lift_cmd]; try reflexivity.
  - rewrite nth_error_map. destruct (nth_error tr ch) as [[amp off]|]; cbn; [|reflexivity].
    destruct (Qeq_bool amp 0); reflexivity.
  - rewrite nth_error_map. destruct (nth_error tr ch) as [[amp off]|]; cbn; [|reflexivity].
    destruct (Qeq_bool amp 0); reflexivity.
Qed.

Theorem gen_transform_commands_eq : forall tr cs,
  gen_transform_commands (map gtrafo_of tr) (map embed cs) = lift_cmds (transform tr cs).
Proof.
  intros tr. induction cs as [|c cs IH]; cbn [map gen_transform_commands transform lift_cmds]; [reflexivity|].
  rewrite gen_transform_cmd_eq. destruct (transform_cmd tr c) as [c'|e]; cbn [lift_cmd bind lift_cmds]; [|reflexivity].
  rewrite IH. destruct (transform tr cs); reflexivity.
Qed.
