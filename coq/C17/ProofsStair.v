(* C17 — the staircase theorem for sources whose built program has no repetition node. *)
From Coq Require Import ZArith QArith List Bool Lia ZifyBool Setoid.
Require Import QV.C17.Model QV.C17.Spec QV.C17.Proofs QV.C17.ProofsVM QV.C17.SimDefs QV.C17.ProofsTr3 QV.C17.ProofsSim4 QV.C17.ProofsSim6
               QV.C17.ProofsBuild QV.C17.ProofsGuard.
Import ListNotations.
Local Open Scope Z_scope.

Lemma vals_ok : forall (cur : list (option Q)) (n u : list Q),
  Forall2 (fun (o : option Q) (v : Q) => exists x, o = Some x /\ (x == v)%Q) cur n -> Forall2 Qeq n u ->
  all2b (fun (x : option Q) (y : Q) => match x with Some v => Qeq_bool v y | None => false end) cur u = true.
Proof.
  intros cur n u H. revert u. induction H as [|o v cur n (x & -> & Hx) H IH]; intros u Hu; inversion Hu; subst; cbn; auto.
  rewrite IH by auto. rewrite andb_true_r. apply Qeq_bool_iff. etransitivity; eauto.
Qed.

Lemma plays_of : forall h N U, Forall2 hrel h N -> steps_rel N U -> plays h U = true.
Proof.
  intros h N U H. revert U. induction H as [|a b h N [Ht Hv] H IH]; intros U HU; inversion HU as [|? c ? U' [Ht' Hv'] HU']; subst; cbn; auto.
  unfold plays in IH. rewrite IH by auto. rewrite andb_true_r. apply andb_true_intro. split.
  - apply Qeq_bool_iff. rewrite Ht, Ht'. reflexivity.
  - eapply vals_ok; eauto.
Qed.

Theorem staircase_gen : forall reps C s fuel h t,
  guard_C17_built_ok reps C s = true -> (reps = true -> guard_C17_repetition_entry_state s = true) ->
  pipeline fuel C s = Ok (h, t) ->
  plays h (fst (staircase s)) = true /\ Qeq_bool t (snd (staircase s)) = true.
Proof.
  intros reps C s fuel h t HG HS HP. unfold guard_C17_built_ok in HG. unfold pipeline in HP.
  unfold guard_C17_repetition_entry_state, rep_stable_src in HS.
  destruct (build_program s) as [prog|] eqn:EB; cbn [bind] in HP; [|discriminate].
  pose proof (build_unroll s [] prog [] 0%Q EB eq_refl) as [R1 R2]. cbn [env_of] in R1, R2. fold (staircase s) in R1, R2.
  destruct prog as [|n0 prog].
  - inversion HP; subst. change (nplay_list [] [] 0%Q) with (@nil (Q * list Q), 0%Q) in R1, R2. cbn in R1, R2.
    inversion R1. rewrite <- R2. split; reflexivity.
  - destruct (translate (n0 :: prog)) as [cs|] eqn:ET; cbn [bind] in HP; [|discriminate].
    rewrite run_vm_binary_unary in HP.
    destruct (translated_program_plays reps C _ _ _ _ _ HG HS ET HP) as [H1 H2].
    split; [eapply plays_of; eauto|]. rewrite H2, R2. apply Qeq_bool_iff. reflexivity.
Qed.

Theorem staircase_norep : forall C s fuel h t,
  guard_C17_built_ok false C s = true ->
  pipeline fuel C s = Ok (h, t) ->
  plays h (fst (staircase s)) = true /\ Qeq_bool t (snd (staircase s)) = true.
Proof. intros C s fuel h t HG. apply (staircase_gen false); auto. intros; discriminate. Qed.

Lemma guard_rep_true : forall s, guard_C17_repetition_entry_state s = true.
Proof.
  intros s. unfold guard_C17_repetition_entry_state, rep_stable_src. destruct (build_program s); auto. apply rep_stable_true.
Qed.

Theorem staircase_rep : forall C s fuel h t,
  guard_C17_built_ok true C s = true ->
  pipeline fuel C s = Ok (h, t) ->
  plays h (fst (staircase s)) = true /\ Qeq_bool t (snd (staircase s)) = true.
Proof. intros C s fuel h t HG. apply (staircase_gen true); auto. intros _. apply guard_rep_true. Qed.

(* the staircase theorem with source-level hypotheses *)
Theorem staircase_full : forall C s fuel h t,
  src_wf C s = true -> guard_C17_key_collision s = true ->
  pipeline fuel C s = Ok (h, t) ->
  plays h (fst (staircase s)) = true /\ Qeq_bool t (snd (staircase s)) = true.
Proof. intros C s fuel h t HW HK. apply staircase_rep; auto. apply built_ok_of_source; auto. Qed.

(* the statement of round 1 (Spec.v, two guards) is false of the model in two corner classes *)
Definition wit_resolution : src :=
  SIter 0 3 1 (SSeq [SHold 1 [VAff 0 [q 1 2]]; SHold 1 [VAff 0 [q 5000000001 10000000000]]]).
Definition wit_extra_coef : src :=
  SIter 3 5 2 (SSeq [SHold 1 [VPlain (q (-1) 2)]; SHold 2 [VAff 0 [q 0 1; q 1 1]]; SHold 3 [VPlain (q (-1) 2)]]).

Lemma refute_statement : forall channels s fuel h t,
  src_wf channels s = true -> guard_C17_zero_factor s = true -> guard_C17_repetition_entry_state s = true ->
  pipeline fuel channels s = Ok (h, t) -> plays h (fst (staircase s)) = false -> ~ C17_staircase_statement.
Proof.
  intros channels s fuel h t Hwf H1 H2 Hp Hpl Hall.
  destruct (Hall channels s fuel h t Hwf H1 H2 Hp) as [Hc _]. rewrite Hpl in Hc. discriminate.
Qed.

Lemma statement_refuted_resolution : ~ C17_staircase_statement /\ guard_C17_key_collision wit_resolution = false.
Proof.
  split; [|vm_compute; reflexivity].
  eapply (refute_statement 1%nat wit_resolution 200%positive); vm_compute; reflexivity.
Qed.

(* an affine voltage whose only non-zero coefficient belongs to no enclosing loop is built with all-zero factors; since
   the repair of `zero-factor-aliases-plain` it is a plain voltage and plays right *)
Lemma extra_coef_plays :
  exists h t, pipeline 200 1 wit_extra_coef = Ok (h, t) /\ plays h (fst (staircase wit_extra_coef)) = true.
Proof. eexists; eexists. split; vm_compute; reflexivity. Qed.

Lemma staircase_full_nonvacuous :
  src_wf 2 wit_good = true /\ guard_C17_key_collision wit_good = true /\
  exists h t, pipeline 1000 2 wit_good = Ok (h, t) /\ length h = 21%nat.
Proof.
  repeat split; try (vm_compute; reflexivity). eexists; eexists. split; vm_compute; reflexivity.
Qed.
