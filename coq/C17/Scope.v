(* C17 — parameter scopes: MappingPT that rebinds a loop index (i := scale * i + shift) around a sub-template.
   flatten false = what the template denotes (the mapping applies to every hold below it);
   flatten true  = what LinSpaceBuilder sees.  Until the repair of `index-rebinding-under-repetition` `inner_scope`
                   overwrote the innermost loop index again on every with_repetition entry, which undid a rebinding of
                   that index for the repeated body (`drop_innermost`, kept for the record); now only the frame of an
                   iteration injects its index, like LoopBuilder.inner_scope, and both readings coincide. *)
From Coq Require Import ZArith QArith List Bool.
Require Import QV.C17.Model QV.C17.Spec.
Import ListNotations.

Inductive src2 :=
| S2Hold (dur : Q) (vs : list volt)
| S2Seq (l : list src2)
| S2Rep (count : Z) (body : src2)
| S2Iter (start stop step : Z) (body : src2)
| S2Remap (level : nat) (scale shift : Q) (body : src2).     (* level = position of the rebound index, outermost = 0 *)

Fixpoint scale_nth (lvl : nat) (s : Q) (coefs : list Q) : list Q :=
  match coefs, lvl with
  | [], _ => []
  | c :: r, O => (c * s)%Q :: r
  | c :: r, S l => c :: scale_nth l s r
  end.

Definition remap_volt (r : nat * (Q * Q)) (v : volt) : volt :=
  match v with
  | VAff base coefs => VAff (base + nth_coef coefs (fst r) * snd (snd r))%Q (scale_nth (fst r) (fst (snd r)) coefs)
  | _ => v
  end.

(* active rebindings, innermost (closest to the hold) first *)
Definition apply_subst (subst : list (nat * (Q * Q))) (v : volt) : volt := fold_left (fun v r => remap_volt r v) subst v.

Definition drop_innermost (depth : nat) (subst : list (nat * (Q * Q))) : list (nat * (Q * Q)) :=
  filter (fun r => negb (Nat.eqb (S (fst r)) depth)) subst.

Fixpoint flatten (impl : bool) (depth : nat) (subst : list (nat * (Q * Q))) (s : src2) {struct s} : src :=
  match s with
  | S2Hold d vs => SHold d (map (apply_subst subst) vs)
  | S2Seq l => SSeq ((fix go (l : list src2) : list src := match l with [] => [] | x :: l' => flatten impl depth subst x :: go l' end) l)
  | S2Rep c b => SRep c (flatten impl depth subst b)
  | S2Iter a b c body => SIter a b c (flatten impl (S depth) subst body)
  | S2Remap lvl sc sh body => flatten impl depth ((lvl, (sc, sh)) :: subst) body
  end.

Definition src_of_impl (s : src2) : src := flatten true 0 [] s.
Definition src_of_spec (s : src2) : src := flatten false 0 [] s.

(* guard of index-rebinding-under-repetition: no rebinding of the innermost index is active at a repetition *)
Fixpoint guard_C17_index_rebinding (depth : nat) (levels : list nat) (s : src2) {struct s} : bool :=
  match s with
  | S2Hold _ _ => true
  | S2Seq l => (fix go (l : list src2) : bool := match l with [] => true | x :: l' => guard_C17_index_rebinding depth levels x && go l' end) l
  | S2Rep _ b => forallb (fun lv => negb (Nat.eqb (S lv) depth)) levels && guard_C17_index_rebinding depth levels b
  | S2Iter _ _ _ body => guard_C17_index_rebinding (S depth) levels body
  | S2Remap lvl _ _ body => guard_C17_index_rebinding depth (lvl :: levels) body
  end.
