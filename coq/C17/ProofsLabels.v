From Coq Require Import ZArith QArith List Bool Lia ZifyBool.
Require Import QV.C17.Model QV.C17.Spec QV.C17.Proofs QV.C17.ProofsVM QV.C17.SimDefs QV.C17.ProofsTr1 QV.C17.ProofsTr2.
Import ListNotations.
Local Open Scope Z_scope.

Lemma nodup_app : forall (a b : list Z), NoDup a -> NoDup b -> (forall x, In x a -> In x b -> False) -> NoDup (a ++ b).
Proof.
  induction a as [|y a IH]; intros b Ha Hb H; cbn; auto. apply NoDup_cons_iff in Ha as [Hy Ha]. constructor.
  - intros Hin. apply in_app_or in Hin as [X|X]; [contradiction|]. eapply H; [left; reflexivity|exact X].
  - apply IH; auto. intros x X Y. eapply H; [right; exact X|exact Y].
Qed.

Lemma nodup_loop : forall a b idx n j, NoDup (labels a) -> NoDup (labels b) ->
  (forall x, In x (labels a) -> x <> idx /\ ~ In x (labels b)) -> ~ In idx (labels b) ->
  NoDup (labels (a ++ CLabel idx n :: b ++ [CJmp j])).
Proof.
  intros a b idx n j Ha Hb H Hi. rewrite labels_app. cbn [labels]. rewrite labels_app. cbn [labels]. rewrite app_nil_r.
  apply nodup_app; [exact Ha|constructor; assumption|].
  intros x X [Y|Y]; destruct (H _ X) as [P Q]; [congruence|contradiction].
Qed.

Definition nd_stmt (n : node) : Prop := forall st cs st', tr_node n st = Ok (cs, st') -> NoDup (labels cs).

Lemma nd_list_of : forall B, Forall nd_stmt B -> forall st cs st', tr_nodes B st = Ok (cs, st') -> NoDup (labels cs).
Proof.
  induction 1 as [|x B Hx HB IH]; intros st cs st' H.
  - cbn in H. inversion H; subst. constructor.
  - rewrite tr_nodes_cons in H.
    destruct (tr_node x st) as [[c1 st1]|] eqn:E1; cbn in H; [|discriminate].
    destruct (tr_nodes B st1) as [[c2 st2]|] eqn:E2; cbn in H; [|discriminate]. inversion H; subst; clear H.
    destruct (node_summ x _ _ _ E1) as [_ R1]. destruct (nodes_summ B _ _ _ E2) as [_ R2].
    rewrite labels_app. apply nodup_app; [eapply Hx; eauto|eapply IH; eauto|].
    intros y X Y. unfold lab_range in *. rewrite Forall_forall in R1, R2. specialize (R1 _ X). specialize (R2 _ Y). lia.
Qed.

Lemma nd_node : forall n, nd_stmt n.
Proof.
  induction n as [vs dur|body c IHb|body len IHb] using node_ind2; intros st cs st' H.
  - rewrite tr_node_hold in H. destruct (tr_hold_chs 0 vs st) as [[c1 st1]|] eqn:E; cbn in H; [|discriminate].
    inversion H; subst; clear H. destruct (hold_summ _ _ _ _ _ E) as (_ & _ & Lb). rewrite labels_app, Lb. cbn. constructor.
  - pose proof (nd_list_of body IHb) as HL. rewrite tr_node_rep in H. cbv zeta in H.
    destruct (tr_nodes body (with_label st (t_label st + 1))) as [[cs1 st1]|] eqn:E1; cbn [bind] in H; [|discriminate].
    destruct (nodes_summ body _ _ _ E1) as [(_ & _ & _ & _ & L1) R1]. cbn [with_label t_label] in *.
    pose proof (HL _ _ _ E1) as N1. unfold lab_range in R1. rewrite Forall_forall in R1.
    destruct (set_eqb _ _ && entry_unchanged _ _).
    + inversion H; subst; clear H. apply (nodup_loop [] cs1 (t_label st) c (t_label st));
        [constructor|exact N1|cbn; intros x []|intros X; specialize (R1 _ X); lia].
    + destruct (0 <? c - 1).
      * destruct (tr_nodes body st1) as [[cs2 st2]|] eqn:E2; cbn [bind] in H; [|discriminate].
        inversion H; subst; clear H. destruct (nodes_summ body _ _ _ E2) as [_ R2]. pose proof (HL _ _ _ E2) as N2.
        unfold lab_range in R2. rewrite Forall_forall in R2.
        apply nodup_loop; [exact N1|exact N2| |].
        -- intros x X. specialize (R1 _ X). split; [lia|]. intros Y. specialize (R2 _ Y). lia.
        -- intros Y. specialize (R2 _ Y). lia.
      * inversion H; subst; clear H. exact N1.
  - pose proof (nd_list_of body IHb) as HL. rewrite tr_node_iter in H. cbv zeta in H.
    destruct (tr_nodes body (with_iters st (t_iters st ++ [0]))) as [[cs1 st1]|] eqn:E1; cbn [bind] in H; [|discriminate].
    destruct (nodes_summ body _ _ _ E1) as [_ R1]. cbn [with_iters t_label] in *.
    pose proof (HL _ _ _ E1) as N1. unfold lab_range in R1. rewrite Forall_forall in R1.
    destruct (1 <? len).
    + match type of H with context [tr_nodes body ?s] => set (sl := s) in * end.
      destruct (tr_nodes body sl) as [[cs2 st2]|] eqn:E2; cbn [bind] in H; [|discriminate].
      inversion H; subst; clear H. destruct (nodes_summ body _ _ _ E2) as [_ R2]. pose proof (HL _ _ _ E2) as N2.
      unfold sl in R2. cbn [t_label] in R2. unfold lab_range in R2. rewrite Forall_forall in R2.
      apply nodup_loop; [exact N1|exact N2| |].
      * intros x X. specialize (R1 _ X). split; [lia|]. intros Y. specialize (R2 _ Y). lia.
      * intros Y. specialize (R2 _ Y). lia.
    + inversion H; subst; clear H. exact N1.
Qed.

Theorem translate_labels_nodup : forall prog cs, translate prog = Ok cs -> NoDup (labels cs).
Proof.
  intros prog cs H. unfold translate in H. destruct (tr_nodes prog t0) as [[cs0 st']|] eqn:E; cbn in H; [|discriminate].
  inversion H; subst. eapply nd_list_of; [|exact E]. apply Forall_forall. intros n _. apply nd_node.
Qed.
