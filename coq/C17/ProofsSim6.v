(* C17 — all nodes, and the run of a whole translated program from the initial VM state. *)
From Coq Require Import ZArith QArith List Bool Lia ZifyBool Setoid.
Require Import QV.C17.Model QV.C17.Spec QV.C17.Proofs QV.C17.ProofsVM QV.C17.SimDefs QV.C17.ProofsTr1 QV.C17.ProofsTr2
               QV.C17.ProofsSim1 QV.C17.ProofsSim2 QV.C17.ProofsSim3 QV.C17.ProofsSim4 QV.C17.ProofsSim5 QV.C17.ProofsSim5b.
Import ListNotations.
Local Open Scope Z_scope.

Section sim.
  Variable Fs : list (nat * list Q).
  Hypothesis Fs_inj : keys_inj_b Fs = true.
  Variable C : nat.
  Variable reps : bool.

  Lemma sim_node : forall n, node_stmt Fs C reps n.
  Proof.
    induction n as [vs dur|body c IHb|body len IHb] using node_ind2.
    - apply sim_hold; auto.
    - apply sim_rep; auto. apply sim_list; auto.
    - apply sim_iter; auto. apply sim_list; auto.
  Qed.

  Lemma sim_prog : forall B, list_stmt Fs C reps B.
  Proof. intros B. apply sim_list; auto. apply Forall_forall. intros; apply sim_node. Qed.
End sim.

Lemma repeat_length' {A} : forall (x : A) n, length (repeat x n) = n.
Proof. intros; apply repeat_length. Qed.

(* the run of a whole program *)
Theorem translated_program_plays : forall reps C prog cs fuel h t,
  prog_ok reps C prog = true -> (reps = true -> rep_stable prog = true) ->
  translate prog = Ok cs -> run_vm_n fuel C cs = Ok (h, t) ->
  Forall2 hrel h (fst (nplay_list prog [] 0%Q)) /\ t = snd (nplay_list prog [] 0%Q).
Proof.
  intros reps C prog cs fuel h t Hok Hstab HT HR. unfold prog_ok in Hok. apply andb_prop in Hok as [Hok Hinj].
  unfold translate in HT. destruct (tr_nodes prog t0) as [[cs0 st']|] eqn:E; cbn in HT; [|discriminate]. inversion HT; subst cs0; clear HT.
  assert (HS : reps = true -> t_stable st' = true) by (intros e; specialize (Hstab e); unfold rep_stable in Hstab; rewrite E in Hstab; exact Hstab).
  destruct (sim_prog (prog_factors prog) Hinj C reps prog 0%nat Hok (incl_refl _) t0 cs st' [] cs [] [] (vm0 C) E HS) as
    (s' & R & Pc & _ & _ & _ & _ & _ & (hn & Hh & Hr) & Tm & _); auto.
  - constructor.
  - now rewrite app_nil_r.
  - constructor.
  - cbn. apply repeat_length.
  - intros ch k Hk. cbn in Hk. discriminate.
  - intros ch v Hv. cbn in Hv. discriminate.
  - intros ch k b olds _ Hd. cbn in Hd. discriminate.
  - unfold run_vm_n in HR. destruct (vm_run_n fuel cs (vm0 C)) as [x|x|e] eqn:Er; cbn in HR; try discriminate.
    inversion HR; subst h t; clear HR.
    assert (x = s') by (eapply run_halts_unique; eauto). subst x.
    cbn in Hh, Hr, Tm. rewrite app_nil_r in Hh. subst hn. split; auto.
Qed.
