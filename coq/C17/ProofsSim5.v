(* C17 — simulation for an iteration node (first pass + loop of len-1 passes translated against the first pass' state). *)
From Coq Require Import ZArith QArith List Bool Lia ZifyBool Setoid.
Require Import QV.C17.Model QV.C17.Spec QV.C17.Proofs QV.C17.ProofsVM QV.C17.SimDefs QV.C17.ProofsTr1 QV.C17.ProofsTr2 QV.C17.ProofsTr3
               QV.C17.ProofsSim1 QV.C17.ProofsSim2 QV.C17.ProofsSim3 QV.C17.ProofsSim4.
Import ListNotations.
Local Open Scope Z_scope.

Lemma oq_stable : forall a0 a1 a2 l, oqeq a1 (orlast a0 l) -> oqeq a2 (orlast a1 l) -> oqeq a2 a1.
Proof.
  intros a0 a1 a2 [w|] H1 H2; cbn in *; auto.
  eapply oqeq_trans; [exact H2|]. apply oqeq_sym. exact H1.
Qed.

Lemma mid_eq : forall (I suf : list Z) x y, x = y -> I ++ [x] ++ suf = I ++ [y] ++ suf.
Proof. intros I suf x y ->. reflexivity. Qed.

Section sim.
  Variable Fs : list (nat * list Q).
  Hypothesis Fs_inj : keys_inj_b Fs = true.
  Variable C : nat.
  Variable reps : bool.

  Lemma Idep_transfer : forall (K : nat * key -> Prop) sa sb s Ia Ib,
    (forall ch k b olds, K (ch, k) -> dp sb (ch, k) = Some (b, olds) ->
       exists olds', dp sa (ch, k) = Some (b, olds') /\ length olds' = length olds /\
                     Vfull olds' (t_iters sa) Ia = Vfull olds (t_iters sb) Ib) ->
    Idep Fs K sa s Ia -> Idep Fs K sb s Ib.
  Proof.
    intros K sa sb s Ia Ib H HD ch k b olds HK Hdp. destruct (H ch k b olds HK Hdp) as (olds' & E & L & V).
    destruct (HD ch k b olds' HK E) as (r & R1 & (fs0 & F1 & F2 & F3) & R2). exists r. split; auto.
    split; [exists fs0; repeat split; auto; congruence|]. intros fs Hf Hk. rewrite <- V. auto.
  Qed.

  Lemma Pplain_transfer : forall sa sb s, (forall ch, oqeq (pl sb ch) (pl sa ch)) -> Pplain sa s -> Pplain sb s.
  Proof.
    intros sa sb s H HP ch v Hv. specialize (H ch). rewrite Hv in H. destruct (pl sa ch) as [v1|] eqn:E; cbn in H; [|contradiction].
    destruct (HP ch v1 E) as (r & R1 & R2). exists r. split; auto. rewrite R2. now symmetry.
  Qed.

  Lemma Pact_transfer : forall sa sb s, (forall ch, act sb ch = act sa ch) -> Pact sa s -> Pact sb s.
  Proof. intros sa sb s H HA ch k Hk. rewrite H in Hk. auto. Qed.

  Lemma sim_iter : forall body len, list_stmt Fs C reps body -> node_stmt Fs C reps (NIter body len).
  Proof.
    intros body len IHL d Hok Hin st cs st' I cmds pre post s HT HSt Hd HI HDyn Hc Hlab Hpc Hcur HA HP HD.
    destruct (node_ok_iter _ _ _ _ _ Hok) as (Hlen1 & Hne & HokB).
    rewrite node_factors_iter in Hin. specialize (IHL (S d) HokB Hin).
    rewrite tr_node_iter in HT. cbv zeta in HT.
    set (its := t_iters st) in *.
    set (stf := with_iters st (its ++ [0])) in *.
    destruct (tr_nodes body stf) as [[cs1 st1]|] eqn:E1; cbn [bind] in HT; [|discriminate].
    destruct (nodes_summ body _ _ _ E1) as [(SA1 & SP1 & SD1 & SI1 & SL1) LR1].
    change (t_iters stf) with (its ++ [0]) in *. change (t_label stf) with (t_label st) in *.
    set (lb := fun ck => last_dep ck body) in *.
    set (lN := fun ck => last_node (h_dep ck) up_dep (NIter body len)) in *.
    assert (HlN : forall ck, lN ck = option_map (up_dep len) (lb ck)) by reflexivity.
    assert (HKN : forall ck, Kof lN ck <-> Kof lb ck).
    { intros ck. unfold Kof. rewrite HlN. destruct (lb ck); cbn; split; intros [X Y]; split; auto; discriminate. }
    assert (Hlits : length its = length I) by congruence.
    set (f := fun i t => nplay_list body (I ++ [i]) t).
    (* entries of the body keys after a pass *)
    assert (ENT : forall sa sb x, (forall ck, dp sb ck = orlast (dp sa ck) (addits (its ++ [x]) (lb ck))) ->
              forall ch k b olds, Kof lb (ch, k) -> dp sb (ch, k) = Some (b, olds) ->
              exists suf, lb (ch, k) = Some (b, suf) /\ olds = (its ++ [x]) ++ suf).
    { intros sa sb x HS ch k b olds [_ HKc] Hdp. rewrite HS in Hdp. destruct (lb (ch, k)) as [[b0 suf]|]; [|contradiction].
      cbn in Hdp. inversion Hdp; subst. eauto. }
    (* first pass *)
    assert (FIRST : forall post', (reps = true -> t_stable st1 = true) -> cmds = pre ++ cs1 ++ post' ->
      exists s1, reach cmds s s1 /\ v_pc s1 = (length pre + length cs1)%nat /\ length (v_cur s1) = C /\
        Pact st1 s1 /\ Pplain st1 s1 /\ Idep Fs (Kof lb) st1 s1 (I ++ [0]) /\
        (forall ck, snd ck <> [] -> lb ck = None -> alookup ck_eqb ck (v_regs s1) = alookup ck_eqb ck (v_regs s)) /\
        (exists hnew, v_hist s1 = hnew ++ v_hist s /\ Forall2 hrel (rev hnew) (fst (f 0 (v_time s)))) /\
        v_time s1 = snd (f 0 (v_time s)) /\
        (forall l, l < t_label st -> alookup Z.eqb l (v_counts s1) = alookup Z.eqb l (v_counts s))).
    { intros post' HSt1 Hc'. apply (IHL stf cs1 st1 (I ++ [0]) cmds pre post' s); auto.
      - unfold stf; cbn. rewrite app_length; cbn. fold its. lia.
      - rewrite app_length; cbn; lia.
      - apply Forall2_app; auto. constructor; [left; auto|constructor].
      - eapply Idep_transfer; [|eapply Idep_weaken; [|exact HD]; intros ck Hk; apply HKN; exact Hk].
        intros ch k b olds HK Hdp. exists olds. split; [exact Hdp|]. split; [reflexivity|]. symmetry. apply Vfull_enter. exact Hlits. }
    destruct (1 <? len) eqn:El.
    - (* loop *)
      set (m := len - 1) in *. set (idx := t_label st1) in *.
      set (stl := mkT (idx + 1) (its ++ [m]) (t_active st1) (t_deps st1) (t_plain st1) (t_stable st1)) in *.
      destruct (tr_nodes body stl) as [[cs2 st2]|] eqn:E2; cbn [bind] in HT; [|discriminate].
      inversion HT; subst cs st'; clear HT.
      destruct (nodes_summ body _ _ _ E2) as [(SA2 & SP2 & SD2 & SI2 & SL2) LR2].
      change (t_iters stl) with (its ++ [m]) in *. change (t_label stl) with (idx + 1) in *.
      change (act stl) with (act st1) in *. change (pl stl) with (pl st1) in *. change (dp stl) with (dp st1) in *.
      change (act stf) with (act st) in *. change (pl stf) with (pl st) in *. change (dp stf) with (dp st) in *.
      change (forall ck, dp st1 ck = orlast (dp st ck) (addits (its ++ [0]) (lb ck))) in SD1.
      change (forall ck, dp st2 ck = orlast (dp st1 ck) (addits (its ++ [m]) (lb ck))) in SD2.
      assert (Hm : 1 <= m) by (unfold m; lia).
      assert (Hact : forall ch, act st2 ch = act st1 ch) by (intros ch; rewrite SA2, SA1; apply orlast_idem).
      assert (Hpl : forall ch, oqeq (pl st2 ch) (pl st1 ch)) by (intros ch; eapply oq_stable; [apply SP1|apply SP2]).
      destruct (FIRST (CLabel idx m :: cs2 ++ CJmp idx :: post)) as
        (s1 & R1 & Pc1 & Cu1 & A1 & P1 & D1 & F1 & (h1 & Hh1 & Hr1) & T1 & Cn1).
      { intros e. change (t_stable stl = true). eapply mono_nodes; [exact E2|]. apply (HSt e). }
      { rewrite Hc. rewrite <- !app_assoc. cbn. rewrite <- !app_assoc. reflexivity. }
      set (Pinv := fun (k : nat) (x : vm) =>
             length (v_cur x) = C /\ Pact stl x /\ Pplain stl x /\ Idep Fs (Kof lb) stl x (I ++ [Z.of_nat k + 1]) /\
             (forall ck, snd ck <> [] -> lb ck = None -> alookup ck_eqb ck (v_regs x) = alookup ck_eqb ck (v_regs s1)) /\
             (exists hnew, v_hist x = hnew ++ v_hist s1 /\ Forall2 hrel (rev hnew) (fst (play_iter f (iota k 1) (v_time s1)))) /\
             v_time x = snd (play_iter f (iota k 1) (v_time s1))).
      assert (Hcl : cmds = (pre ++ cs1) ++ CLabel idx m :: cs2 ++ CJmp idx :: post).
      { rewrite Hc. rewrite <- !app_assoc. cbn. rewrite <- !app_assoc. reflexivity. }
      assert (Hni : ~ In idx (labels (pre ++ cs1))).
      { rewrite labels_app. intros X. apply in_app_or in X as [X|X].
        - rewrite Forall_forall in Hlab. specialize (Hlab _ X). lia.
        - unfold lab_range in LR1. rewrite Forall_forall in LR1. specialize (LR1 _ X). unfold idx in *. lia. }
      destruct (loop_exec cmds (pre ++ cs1) idx m cs2 post Pinv Hcl Hni Hm) with (s := s1)
        as (s3 & R3 & Pc3 & HP3 & Cn3).
      + intros k x c p (X1 & X2 & X3 & X4 & X5 & X6 & X7). unfold Pinv. repeat split; auto.
      + (* one loop pass *)
        intros k x Hk Hpcx (X1 & X2 & X3 & X4 & X5 & (h0 & Hh0 & Hr0) & X7).
        assert (Hcb : cmds = (pre ++ cs1 ++ [CLabel idx m]) ++ cs2 ++ CJmp idx :: post).
        { rewrite Hcl. rewrite <- !app_assoc. reflexivity. }
        destruct (IHL stl cs2 st2 (I ++ [Z.of_nat k + 1]) cmds (pre ++ cs1 ++ [CLabel idx m]) (CJmp idx :: post) x E2 HSt)
          as (x' & Rx & Pcx & Cux & Ax & Px & Dx & Fx & (hx & Hhx & Hrx) & Tx & Cnx); auto.
        * cbn. rewrite app_length; cbn. fold its. lia.
        * rewrite app_length; cbn; lia.
        * apply Forall2_app; auto. constructor; [right; lia|constructor].
        * rewrite !labels_app. cbn. apply Forall_app; split; [|apply Forall_app; split].
          -- eapply Forall_impl; [|exact Hlab]. cbn. unfold idx. intros; lia.
          -- eapply Forall_impl; [|exact LR1]. cbn. unfold idx. intros; lia.
          -- constructor; [lia|constructor].
        * rewrite Hpcx, !app_length. cbn. lia.
        * exists x'. split; auto. split; [rewrite Pcx, !app_length; cbn; lia|]. split; [|split].
          -- unfold Pinv. split; auto. split; [eapply Pact_transfer; [|exact Ax]; intros; symmetry; apply Hact|].
             split; [eapply Pplain_transfer; [|exact Px]; intros ch; apply oqeq_sym; apply Hpl|].
             split; [|split; [|split]].
             ++ eapply Idep_transfer; [|exact Dx]. intros ch k0 b olds HK Hdp.
                destruct (ENT st stl 0 SD1 ch k0 b olds HK Hdp) as (suf & Elb & ->).
                exists ((its ++ [m]) ++ suf). split; [|split].
                ** rewrite SD2, Elb. reflexivity.
                ** rewrite !app_length. reflexivity.
                ** rewrite SI2. change (t_iters stl) with (its ++ [m]).
                   rewrite !Vfull_level by auto. rewrite Vlev_same, Vlev_loop by auto. apply mid_eq; lia.
             ++ intros ck Hnz Hn. rewrite Fx, X5; auto.
             ++ exists (hx ++ h0). split; [rewrite Hhx, Hh0, app_assoc; reflexivity|].
                rewrite rev_app_distr, iota_snoc, play_iter_snoc. rewrite X7 in Hrx.
                destruct (play_iter f (iota k 1) (v_time s1)) as [a t1]. cbn [fst snd] in *.
                replace (1 + Z.of_nat k) with (Z.of_nat k + 1) by lia. unfold f at 1.
                destruct (nplay_list body (I ++ [Z.of_nat k + 1]) t1) as [b t2]. cbn [fst snd] in *. apply Forall2_app; auto.
             ++ rewrite Tx, X7, iota_snoc, play_iter_snoc.
                destruct (play_iter f (iota k 1) (v_time s1)) as [a t1]. cbn [fst snd].
                replace (1 + Z.of_nat k) with (Z.of_nat k + 1) by lia. unfold f at 1.
                destruct (nplay_list body (I ++ [Z.of_nat k + 1]) t1) as [b t2]. reflexivity.
          -- apply Cnx. unfold stl; cbn; lia.
          -- intros l Hl. apply Cnx. unfold stl; cbn; lia.
      + rewrite app_length. exact Pc1.
      + unfold Pinv. split; auto. split; [exact A1|]. split; [exact P1|]. split; [|split; [|split]].
        * eapply Idep_transfer; [|exact D1]. intros ch k0 b olds HK Hdp.
          exists olds. split; [exact Hdp|]. split; [reflexivity|]. destruct (ENT st stl 0 SD1 ch k0 b olds HK Hdp) as (suf & Elb & ->).
          rewrite SI1. change (t_iters stl) with (its ++ [m]). rewrite !Vfull_level by auto.
          rewrite Vlev_same, Vlev_loop by auto. apply mid_eq; lia.
        * auto.
        * exists []. split; auto. cbn. constructor.
        * reflexivity.
      + destruct HP3 as (Y1 & Y2 & Y3 & Y4 & Y5 & (h3 & Hh3 & Hr3) & Y7).
        exists s3. split; [eapply reach_trans; eauto|].
        split; [rewrite Pc3, !app_length; cbn; rewrite app_length; cbn; lia|]. split; auto.
        split; [eapply Pact_transfer; [|exact Y2]; intros; apply Hact|].
        split; [eapply Pplain_transfer; [|exact Y3]; intros; apply Hpl|].
        split; [|split; [|split; [|split]]].
        * apply (Idep_weaken Fs (Kof lb) (Kof lN)); [intros ck Hk; apply HKN; exact Hk|].
          eapply Idep_transfer; [|exact Y4]. intros ch k0 b olds HK Hdp.
          change (dp (with_iters st2 its) (ch, k0)) with (dp st2 (ch, k0)) in Hdp.
          destruct (ENT st1 st2 m SD2 ch k0 b olds HK Hdp) as (suf & Elb & ->).
          exists ((its ++ [0]) ++ suf). split; [change (dp stl (ch, k0)) with (dp st1 (ch, k0)); rewrite SD1, Elb; reflexivity|].
          split; [rewrite !app_length; reflexivity|].
          change (t_iters stl) with (its ++ [m]). change (t_iters (with_iters st2 its)) with its.
          rewrite Vfull_level, Vfull_exit by auto. rewrite Vlev_loop by auto. apply mid_eq; lia.
        * intros ck Hnz Hn. assert (Hn' : option_map (up_dep len) (lb ck) = None) by exact Hn. destruct (lb ck) eqn:Elb; [discriminate|]. rewrite Y5, F1; auto.
        * exists (h3 ++ h1). split; [rewrite Hh3, Hh1, app_assoc; reflexivity|].
          rewrite rev_app_distr, nplay_iter_unfold. fold f.
          replace (Z.to_nat len) with (S (Z.to_nat m)) by (unfold m; lia). cbn [iota play_iter].
          rewrite T1 in Hr3. destruct (f 0 (v_time s)) as [a t1]. cbn [fst snd] in *.
          change (0 + 1) with 1. destruct (play_iter f (iota (Z.to_nat m) 1) t1) as [b t2]. cbn [fst snd] in *.
          apply Forall2_app; auto.
        * rewrite Y7, T1, nplay_iter_unfold. fold f.
          replace (Z.to_nat len) with (S (Z.to_nat m)) by (unfold m; lia). cbn [iota play_iter].
          destruct (f 0 (v_time s)) as [a t1]. cbn [fst snd]. change (0 + 1) with 1.
          destruct (play_iter f (iota (Z.to_nat m) 1) t1) as [b t2]. reflexivity.
        * intros l Hl. rewrite Cn3, Cn1; auto. unfold idx. lia.
    - (* a single pass *)
      inversion HT; subst cs st'; clear HT.
      change (act stf) with (act st) in *. change (pl stf) with (pl st) in *. change (dp stf) with (dp st) in *.
      change (forall ck, dp st1 ck = orlast (dp st ck) (addits (its ++ [0]) (lb ck))) in SD1.
      destruct (FIRST post HSt Hc) as (s1 & R1 & Pc1 & Cu1 & A1 & P1 & D1 & F1 & (h1 & Hh1 & Hr1) & T1 & Cn1).
      assert (Hl1 : len = 1) by lia.
      exists s1. split; auto. split; auto. split; auto. split; [exact A1|]. split; [exact P1|].
      split; [|split; [|split; [|split]]].
      + apply (Idep_weaken Fs (Kof lb) (Kof lN)); [intros ck Hk; apply HKN; exact Hk|].
        eapply Idep_transfer; [|exact D1]. intros ch k0 b olds HK Hdp.
        change (dp (with_iters st1 its) (ch, k0)) with (dp st1 (ch, k0)) in Hdp.
        exists olds. split; [exact Hdp|]. split; [reflexivity|]. destruct (ENT st st1 0 SD1 ch k0 b olds HK Hdp) as (suf & Elb & ->).
        rewrite SI1. change (t_iters (with_iters st1 its)) with its.
        rewrite Vfull_pre, Vfull_exit; auto. rewrite <- app_assoc. reflexivity.
        rewrite !app_length. cbn. lia.
      + intros ck Hnz Hn. assert (Hn' : option_map (up_dep len) (lb ck) = None) by exact Hn. destruct (lb ck) eqn:Elb; [discriminate|]. auto.
      + exists h1. split; auto. rewrite nplay_iter_unfold. fold f. subst len. change (Z.to_nat 1) with 1%nat. cbn [iota play_iter].
        destruct (f 0 (v_time s)) as [a t1]. cbn [fst snd] in *. rewrite app_nil_r. exact Hr1.
      + rewrite T1, nplay_iter_unfold. fold f. subst len. change (Z.to_nat 1) with 1%nat. cbn [iota play_iter].
        destruct (f 0 (v_time s)) as [a t1]. reflexivity.
      + exact Cn1.
  Qed.
End sim.
