(* C17 — the primitives the object-method translator (translate/py2gallina_c17.py, class ObjTranslator) maps python
   operations to.  Definitions only.  This table is the trusted part of that translation:

     python                                         Gallina
     l[i]          (list / tuple, i : int >= 0)     nth_error l i           None -> IndexError
     l[i] = v                                       set_nth i v l           None -> IndexError
     d[k]          (dict)                           alookup eqb k d         None -> KeyError
     d[k] = v                                       aset eqb k v d          (update in place or append: insertion order)
     d.get(k, None)                                 alookup eqb k d : option
     dd.setdefault(a, {}).get(b, None)              alookup over pairs (a, b)   (dict of dicts kept flat; dd[a][b] = v is
     dd[a][b] = v                                   aset over pairs (a, b)       accepted only after such a setdefault on a)
     l.append(x)                                    l ++ [x]
     o != x  /  o == x   (o from .get(k, None))     negb (opt_is eqb o x)  /  opt_is eqb o x
     truth value of a float / tuple                 negb (Qeq_bool x 0)  /  negb (is_nil x)
     all(c for x in l)                              forallb (fun x => c) l
     float ==, != on Q                              Qeq_bool (exact on the generated dyadic inputs)                    *)
From Coq Require Import ZArith QArith List Bool.
Require Import QV.C17.Model.
Import ListNotations.

Definition opt_is {A} (eqb : A -> A -> bool) (o : option A) (x : A) : bool :=
  match o with Some y => eqb y x | None => false end.

Definition is_nil {A} (l : list A) : bool := match l with [] => true | _ => false end.

Definition depstate_base (d : depstate) : Q := fst d.
Definition depstate_iterations (d : depstate) : list Z := snd d.

Definition is_some {A} (o : option A) : bool := match o with Some _ => true | None => false end.

(* round 4 (TrTranslator / KeyTranslator / DepsTranslator):

     l[-1] = v                                      set_last v l            None -> IndexError (empty list)
     l.pop()                                        pop_last l              None -> IndexError (empty list); the value is dropped
     l.pop(i)      (i : int >= 0)                   remove_nth i l          None -> IndexError
     l[-1]  under the guard `l and ..`              last l 0
     l[:-1]                                         removelast l
     int(round(x))                                  py_int_round x          (round half to even of the exact value)
     d.setdefault(k, set()).update(s)               dict_setdefault_update eqb k s d   (sets = lists up to order / repetition)
     s1 == s2, s1 != s2 on sets                     set_eqb (Optional[DepState]) / qset_eqb (float tuples)  (Model.v)
     {e for ..}, dict(d), {k: dict(v) for k, v in dd.items()}    map / flat_map; copies are identities (value semantics) *)
Fixpoint set_last {A} (v : A) (l : list A) : option (list A) :=
  match l with
  | [] => None
  | [_] => Some [v]
  | x :: r => match set_last v r with Some r' => Some (x :: r') | None => None end
  end.

Definition pop_last {A} (l : list A) : option (list A) :=
  match l with [] => None | _ => Some (removelast l) end.

Fixpoint remove_nth {A} (i : nat) (l : list A) : option (list A) :=
  match l, i with
  | [], _ => None
  | _ :: r, O => Some r
  | x :: r, S i' => match remove_nth i' r with Some r' => Some (x :: r') | None => None end
  end.

Definition py_int_round (x : Q) : Z := round_half_even x.

Definition dict_setdefault_update {K V} (eqb : K -> K -> bool) (k : K) (s : list V) (d : list (K * list V)) : list (K * list V) :=
  match alookup eqb k d with
  | None => d ++ [(k, s)]
  | Some old => aset eqb k (old ++ s) d
  end.

(* round 4, LinSpaceBuilder:
     range(start, stop, step)                       grange = (start, stop, step); rng.start / rng.step / len(rng) = range_start /
                                                    range_step / range_length (Model.range_len; step <> 0: range() itself raises otherwise)
     x = l.pop()                                    pop_last_v l = Some (rest, x)     None -> IndexError
     ll[-1].append(x)                               stack_top_append x ll             None -> IndexError (empty outer list) *)
Definition grange := (Z * Z * Z)%type.
Definition range_start (r : grange) : Z := fst (fst r).
Definition range_stop (r : grange) : Z := snd (fst r).
Definition range_step (r : grange) : Z := snd r.
Definition range_length (r : grange) : Z := range_len (range_start r) (range_stop r) (range_step r).

Fixpoint pop_last_v {A} (l : list A) : option (list A * A) :=
  match l with
  | [] => None
  | [x] => Some ([], x)
  | x :: r => match pop_last_v r with Some (r', y) => Some (x :: r', y) | None => None end
  end.

Fixpoint stack_top_append {A} (x : A) (ll : list (list A)) : option (list (list A)) :=
  match ll with
  | [] => None
  | [top] => Some [top ++ [x]]
  | f :: r => match stack_top_append x r with Some r' => Some (f :: r') | None => None end
  end.
