(* C17 — the translator's output for DepState.required_increment_from (Gen_linspace.v, regenerated from the source text of
   qupulse/program/linspace.py on every run) is the model's required_increment_from (Model.v).  The proof only unfolds
   definitions and case-splits on the conditions: any change of an operator, operand, comparison or assert in the source
   gives a different generated term and this file stops compiling (obligation reported as broken). *)
From Coq Require Import ZArith QArith List Bool.
Require Import QV.C17.Model QV.C17.Gen_linspace.
Import ListNotations.

Lemma gen_loop_eq : forall olds news fs inc,
  gen_required_increment_from_loop1 olds news fs inc = req_inc_loop olds news fs inc.
Proof.
  induction olds as [|o olds IH]; intros news fs inc; [reflexivity|].
  destruct news as [|n news]; [reflexivity|]. destruct fs as [|f fs]; [reflexivity|].
  cbn [gen_required_increment_from_loop1 req_inc_loop].
  destruct (o =? n)%Z; [apply IH|]. destruct (o <? n)%Z.
  - destruct (o =? 0)%Z; cbn [negb]; [apply IH|reflexivity].
  - destruct (n =? 0)%Z; cbn [negb]; [apply IH|reflexivity].
Qed.

Lemma gen_required_increment_from_eq : forall nb nits pb pits fs,
  gen_required_increment_from nb nits pb pits fs = required_increment_from (nb, nits) (pb, pits) fs.
Proof.
  intros. unfold gen_required_increment_from, required_increment_from. cbn [fst snd].
  destruct (negb (Nat.eqb (length nits) (length fs))); [reflexivity|].
  apply gen_loop_eq.
Qed.
