(* C17 — definitions for the staircase theorem: denotation of the builder's node tree over loop indices counted from 0,
   write summaries of a node list, the executable well-formedness / guard checks on the built program. *)
From Coq Require Import ZArith QArith List Bool.
Require Import QV.C17.Model QV.C17.Spec.
Import ListNotations.
Local Open Scope Z_scope.

Definition hvolt := (Q * option (list Q))%type.

Definition hold_val (I : list Z) (bf : hvolt) : Q :=
  match snd bf with None => fst bf | Some fs => aff_at (fst bf) fs I end.

Fixpoint iota (n : nat) (start : Z) : list Z :=
  match n with O => [] | S n' => start :: iota n' (start + 1) end.

(* what a node tree plays at loop indices I (outermost first, counted from 0), starting at time t *)
Fixpoint nplay (n : node) (I : list Z) (t : Q) {struct n} : steps_t * Q :=
  match n with
  | NHold vs dur => ([(t, map (hold_val I) vs)], (t + dur)%Q)
  | NRepeat body count =>
      (fix rep (k : nat) (t : Q) : steps_t * Q :=
         match k with
         | O => ([], t)
         | S k' =>
             let '(a, t1) := (fix go (l : list node) (t : Q) : steps_t * Q :=
                                match l with
                                | [] => ([], t)
                                | x :: l' => let '(a, t1) := nplay x I t in let '(b, t2) := go l' t1 in (a ++ b, t2)
                                end) body t in
             let '(b, t2) := rep k' t1 in (a ++ b, t2)
         end) (Z.to_nat count) t
  | NIter body len =>
      (fix it (is_ : list Z) (t : Q) : steps_t * Q :=
         match is_ with
         | [] => ([], t)
         | i :: is' =>
             let '(a, t1) := (fix go (l : list node) (t : Q) : steps_t * Q :=
                                match l with
                                | [] => ([], t)
                                | x :: l' => let '(a, t1) := nplay x (I ++ [i]) t in let '(b, t2) := go l' t1 in (a ++ b, t2)
                                end) body t in
             let '(b, t2) := it is' t1 in (a ++ b, t2)
         end) (iota (Z.to_nat len) 0) t
  end.

Definition nplay_list (l : list node) (I : list Z) (t : Q) : steps_t * Q :=
  (fix go (l : list node) (t : Q) : steps_t * Q :=
     match l with
     | [] => ([], t)
     | x :: l' => let '(a, t1) := nplay x I t in let '(b, t2) := go l' t1 in (a ++ b, t2)
     end) l t.

Section play_iter.
  Variable f : Z -> Q -> steps_t * Q.
  Fixpoint play_iter (is_ : list Z) (t : Q) : steps_t * Q :=
    match is_ with
    | [] => ([], t)
    | i :: is' => let '(a, t1) := f i t in let '(b, t2) := play_iter is' t1 in (a ++ b, t2)
    end.
End play_iter.

(* ---------------------------------------------------------------------------------------------------------------- *)
(* write summaries: the last value a node list writes into each translator map *)
Definition orlast {A} (a b : option A) : option A := match b with Some x => Some x | None => a end.

Section last.
  Context {A : Type} (fh : list hvolt -> option A) (up : Z -> A -> A).
  Fixpoint last_node (n : node) : option A :=
    match n with
    | NHold vs _ => fh vs
    | NRepeat body _ =>
        (fix go (l : list node) : option A := match l with [] => None | x :: l' => orlast (last_node x) (go l') end) body
    | NIter body len =>
        option_map (up len)
          ((fix go (l : list node) : option A := match l with [] => None | x :: l' => orlast (last_node x) (go l') end) body)
    end.
  Fixpoint last_list (l : list node) : option A :=
    match l with [] => None | x :: l' => orlast (last_node x) (last_list l') end.
End last.

Definition h_act (ch : nat) (vs : list hvolt) : option key :=
  match nth_error vs ch with
  | Some (_, None) => Some []
  | Some (_, Some fs) => Some (mk_key fs)
  | None => None
  end.
Definition h_plain (ch : nat) (vs : list hvolt) : option Q :=
  match nth_error vs ch with
  | Some (b, None) => Some b
  | Some (b, Some fs) => if key_eqb (mk_key fs) [] then Some b else None      (* all factors zero: a plain voltage *)
  | None => None
  end.
Definition h_dep (ck : nat * key) (vs : list hvolt) : option (Q * list Z) :=
  match nth_error vs (fst ck) with
  | Some (b, Some fs) => if key_eqb (mk_key fs) [] then None else if key_eqb (mk_key fs) (snd ck) then Some (b, []) else None
  | _ => None
  end.

Definition up_id {A} (_ : Z) (a : A) : A := a.
Definition up_dep (len : Z) (bs : Q * list Z) : Q * list Z := (fst bs, (if 1 <? len then len - 1 else 0) :: snd bs).

Definition last_act (ch : nat) := last_list (h_act ch) up_id.
Definition last_plain (ch : nat) := last_list (h_plain ch) up_id.
Definition last_dep (ck : nat * key) := last_list (h_dep ck) up_dep.

(* ---------------------------------------------------------------------------------------------------------------- *)
(* presumed dynamic index of the last write of a register, from the translator's static belief *)
Definition Vlev (old s i : Z) : Z :=
  if old =? s then i else if (0 <=? old) && (old <? s) then i - 1 else old.

Fixpoint Vfull (olds S I : list Z) : list Z :=
  match olds, S, I with
  | o :: os, s :: ss, i :: is_ => Vlev o s i :: Vfull os ss is_
  | _, _, _ => olds
  end.

(* static pass value vs dynamic loop index *)
Definition dyn1 (s i : Z) : Prop := (s = 0 /\ i = 0) \/ (1 <= i /\ i <= s).
Definition dyn_ok (S I : list Z) : Prop := Forall2 dyn1 S I.

(* ---------------------------------------------------------------------------------------------------------------- *)
(* executable checks on the built program *)
Fixpoint hold_ok (d : nat) (vs : list hvolt) : bool :=
  match vs with
  | [] => true
  | (_, None) :: r => hold_ok d r
  | (_, Some fs) :: r => Nat.eqb (length fs) d && hold_ok d r
  end.

(* structure (true of every builder output for a well-formed source); `reps` = repetitions allowed *)
Fixpoint node_ok (reps : bool) (C : nat) (d : nat) (n : node) : bool :=
  match n with
  | NHold vs dur => Nat.eqb (length vs) C && hold_ok d vs
  | NRepeat body count =>
      reps && (1 <=? count) && negb (match body with [] => true | _ => false end) &&
      (fix go (l : list node) : bool := match l with [] => true | x :: l' => node_ok reps C d x && go l' end) body
  | NIter body len =>
      (1 <=? len) && negb (match body with [] => true | _ => false end) &&
      (fix go (l : list node) : bool := match l with [] => true | x :: l' => node_ok reps C (S d) x && go l' end) body
  end.
Fixpoint nodes_ok (reps : bool) C d (l : list node) : bool :=
  match l with [] => true | x :: l' => node_ok reps C d x && nodes_ok reps C d l' end.

(* all (channel, factor tuple) pairs of a program *)
Fixpoint hold_factors (ch : nat) (vs : list hvolt) : list (nat * list Q) :=
  match vs with
  | [] => []
  | (_, Some fs) :: r => (ch, fs) :: hold_factors (S ch) r
  | _ :: r => hold_factors (S ch) r
  end.
Fixpoint node_factors (n : node) : list (nat * list Q) :=
  match n with
  | NHold vs _ => hold_factors 0 vs
  | NRepeat body _ | NIter body _ =>
      (fix go (l : list node) : list (nat * list Q) := match l with [] => [] | x :: l' => node_factors x ++ go l' end) body
  end.
Definition prog_factors (l : list node) : list (nat * list Q) := flat_map node_factors l.

(* factor tuples equal up to trailing zeros (a deeper hold whose inner loops do not change the voltage) *)
Fixpoint qlist_tz_eqb (a b : list Q) : bool :=
  match a, b with
  | x :: a', y :: b' => Qeq_bool x y && qlist_tz_eqb a' b'
  | [], l | l, [] => forallb (fun f => Qeq_bool f 0) l
  end.

(* no two different factor tuples of one channel share a register key *)
Definition keys_inj_b (Fs : list (nat * list Q)) : bool :=
  forallb (fun a => forallb (fun b =>
     negb (Nat.eqb (fst a) (fst b) && key_eqb (mk_key (snd a)) (mk_key (snd b))) || qlist_tz_eqb (snd a) (snd b)) Fs) Fs.

Definition prog_ok (reps : bool) (C : nat) (prog : list node) : bool :=
  nodes_ok reps C 0 prog && keys_inj_b (prog_factors prog).

(* source-level guards *)
Definition guard_C17_built_ok (reps : bool) (C : nat) (s : src) : bool :=
  match build_program s with Ok prog => prog_ok reps C prog | Err _ => true end.

(* zero-factor-aliases-plain, exactly: an index-dependent voltage must have a non-zero coefficient among the loops
   that actually enclose it (coefficients beyond the nesting depth are ignored by the builder) *)
Definition nz_within (d : nat) (coefs : list Q) : bool := existsb (fun c => negb (Qeq_bool c 0)) (firstn d coefs).
Fixpoint guard_C17_zero_factor_depth (d : nat) (s : src) : bool :=
  match s with
  | SHold _ vs => forallb (fun v => match v with VAff _ cs => nz_within d cs | _ => true end) vs
  | SSeq l => (fix go (l : list src) : bool := match l with [] => true | x :: l' => guard_C17_zero_factor_depth d x && go l' end) l
  | SRep _ body => guard_C17_zero_factor_depth d body
  | SIter _ _ _ body => guard_C17_zero_factor_depth (S d) body
  end.
(* dependency keys (factors rounded to the increment resolution, trailing zeros stripped) identify the factor tuples *)
Definition guard_C17_key_collision (s : src) : bool :=
  match build_program s with Ok prog => keys_inj_b (prog_factors prog) | Err _ => true end.
