(* Control outcome of a translated Python block (see /verif/translate/py2gallina.py). *)
Inductive ctl (R S : Type) : Type :=
| Ret (r : R)        (* `return r` *)
| Next (s : S)       (* fell off the end of the block with local state s *)
| Fail               (* AssertionError / ZeroDivisionError *)
| OutOfFuel.         (* loop did not finish within the given fuel *)
Arguments Ret {R S} r.
Arguments Next {R S} s.
Arguments Fail {R S}.
Arguments OutOfFuel {R S}.
