(* Shared executable helpers for the correspondence files (no proofs about the code here). *)
From Coq Require Import List ZArith QArith Bool.
Import ListNotations.

(* indices (from 0) of the cases on which a boolean check fails *)
Fixpoint failing_from {A : Type} (f : A -> bool) (i : nat) (l : list A) : list nat :=
  match l with
  | [] => []
  | x :: r => if f x then failing_from f (S i) r else i :: failing_from f (S i) r
  end.
Definition failing {A : Type} (f : A -> bool) (l : list A) : list nat := failing_from f 0 l.

Lemma failing_from_nil_all {A} (f : A -> bool) l i :
  failing_from f i l = [] -> forall x, In x l -> f x = true.
Proof.
  revert i; induction l as [|a l IH]; intros i H x Hx; [destruct Hx|].
  cbn in H. destruct (f a) eqn:E; [|discriminate].
  destruct Hx as [->|Hx]; [exact E| eapply IH; eauto].
Qed.

(* exact rational equality as a boolean, on reduced or unreduced fractions *)
Definition Qeqb (a b : Q) : bool := Qeq_bool a b.
Definition Qleb (a b : Q) : bool := Qle_bool a b.
Definition Qltb (a b : Q) : bool := negb (Qle_bool b a).

Definition opt_eqb {A} (e : A -> A -> bool) (a b : option A) : bool :=
  match a, b with
  | Some x, Some y => e x y
  | None, None => true
  | _, _ => false
  end.

Fixpoint list_eqb {A} (e : A -> A -> bool) (a b : list A) : bool :=
  match a, b with
  | [], [] => true
  | x :: a', y :: b' => e x y && list_eqb e a' b'
  | _, _ => false
  end.

Definition pair_eqb {A B} (ea : A -> A -> bool) (eb : B -> B -> bool) (a b : A * B) : bool :=
  ea (fst a) (fst b) && eb (snd a) (snd b).

Lemma list_eqb_eq {A} (e : A -> A -> bool) :
  (forall x y, e x y = true -> x = y) -> forall a b, list_eqb e a b = true -> a = b.
Proof.
  intros He; induction a as [|x a IH]; intros [|y b] H; cbn in H; try discriminate; auto.
  apply andb_prop in H as [H1 H2]. f_equal; auto.
Qed.
