(* C07 — proofs, part 12: integral rules of the table / point atoms in the form the induction needs (the duration
   expression only evaluates to a value == the denoted duration; point pulses have no trailing entry). *)
From Coq Require Import ZArith QArith Qround List Bool Lia Lra Lqa.
Require Import QV.C07.Model QV.C07.Spec QV.C07.Wf QV.C07.ProofsRange QV.C07.ProofsLoop QV.C07.ProofsAtoms
               QV.C07.ProofsExpr QV.C07.ProofsPt QV.C07.ProofsDict QV.C07.ProofsSum QV.C07.ProofsKeysQ QV.C07.ProofsKeysD
               QV.C07.ProofsDur QV.C07.ProofsObs.
Import ListNotations.
Open Scope Q_scope.

Lemma times_ok_post l D w ip : forall t v, times_ok t l = true -> fst (last_tv l (t, v)) <= D ->
  times_ok t (l ++ [(D, w, ip)]) = true.
Proof.
  induction l as [|[[t1 v1] ip1] l IH]; intros t v H HD.
  - cbn [app times_ok]. cbn in HD. rewrite andb_true_r. apply Qle_bool_iff. exact HD.
  - cbn [app times_ok] in *. apply andb_prop in H as (H1 & H2). rewrite H1. cbn [andb].
    rewrite last_tv_cons in HD. cbn [fst snd] in HD. apply (IH t1 v1 H2 HD).
Qed.

Lemma seq_int_num_post_comp l D D' w : forall prev, D' == D ->
  seq_int_num prev (l ++ [(D', w, IHold)]) == seq_int_num prev (l ++ [(D, w, IHold)]).
Proof.
  induction l as [|[[t1 v1] ip1] l IH]; intros prev H; cbn [app seq_int_num].
  - unfold interp_num. rewrite H. reflexivity.
  - rewrite IH by exact H. reflexivity.
Qed.

Lemma seq_int_num_post_zero l D w : forall prev, fst (last_tv l prev) == D ->
  seq_int_num prev (l ++ [(D, w, IHold)]) == seq_int_num prev l.
Proof.
  induction l as [|[[t1 v1] ip1] l IH]; intros [pt pv] H; cbn [app seq_int_num].
  - cbn in H. unfold interp_num. cbn [fst snd]. rewrite H. ring.
  - rewrite last_tv_cons in H. cbn [fst snd] in H. rewrite IH by exact H. reflexivity.
Qed.

(* the exact integral of a denoted table channel is the pairwise closed form over entries + trailing hold *)
Lemma chfun_int_num D t0 v0 ip0 l' f :
  table_chfun D ((t0, v0, ip0) :: l') = Some f -> fst (last_tv ((t0, v0, ip0) :: l') (0, 0)) <= D ->
  f_int D f == seq_int_num (0, v0) (((t0, v0, ip0) :: l') ++ [(D, snd (last_tv ((t0, v0, ip0) :: l') (t0, v0)), IHold)]).
Proof.
  intros H HD. set (l := (t0, v0, ip0) :: l') in *. unfold table_chfun in H. unfold l in H. cbv iota beta in H. fold l in H.
  match type of H with (if ?b then _ else _) = _ => destruct b eqn:E end; [|discriminate H].
  apply andb_prop in E as (E0 & E1).
  destruct (last_tv l (t0, v0)) as [tl vl] eqn:El. inversion H; subst f. cbn [f_int snd].
  fold (segs_int (segs_of (0, v0) (l ++ [(D, vl, IHold)]))). symmetry. apply seq_int_num_segs.
  cbn [fst]. unfold l in *. cbn [app times_ok]. rewrite E0. cbn [andb].
  cbn [times_ok] in E1. apply andb_prop in E1 as (E1a & E1b).
  apply (times_ok_post l' D vl IHold t0 v0 E1b). rewrite last_tv_cons in HD. cbn [fst snd] in HD. exact HD.
Qed.

Lemma entries_first_last rho t0e v0e ip0 es' l :
  Forall2 (fun e n => eval_entry rho e = Some n) ((t0e, v0e, ip0) :: es') l ->
  exists t0 v0 l', l = (t0, v0, ip0) :: l' /\ eval rho t0e = Some t0 /\ eval rho v0e = Some v0 /\
    eval rho (match last_or ((t0e, v0e, ip0) :: es') (e0, e0, IHold) with (_, v, _) => v end) = Some (snd (last_tv l (t0, v0))).
Proof.
  intros HF. pose proof (Forall2_last _ _ _ (e0, e0, IHold) (0, 0, IHold) HF ltac:(discriminate)) as HL.
  inversion HF as [|? n ? l' He HF']; subst. unfold eval_entry in He.
  destruct (eval rho t0e) as [t0|] eqn:Et; [|discriminate]. destruct (eval rho v0e) as [v0|] eqn:Ev; [|discriminate].
  inversion He; subst n. exists t0, v0, l'. split; [reflexivity|]. split; [reflexivity|]. split; [reflexivity|].
  rewrite last_tv_cons. cbn [fst snd]. unfold last_or, last_tv. cbn [fst snd]. revert HL. rewrite !last_cons.
  unfold tentry, nentry in *.
  destruct (last es' (t0e, v0e, ip0)) as [[te ve] ipe]. unfold eval_entry.
  destruct (eval rho te) as [a|]; [|cbv iota; discriminate]. destruct (eval rho ve) as [b|]; [|cbv iota; discriminate].
  destruct (last l' (t0, v0, ip0)) as [[tn vn] ipn] eqn:E1. intros HL. inversion HL; subst.
  assert (Hl : last l' (t0, v0, IHold) = (tn, vn, match l' with [] => IHold | _ => ipn end) \/ True) by (right; exact I).
  clear Hl. destruct l' as [|y l'']; [cbn in E1; inversion E1; subst; reflexivity|].
  rewrite last_cons in E1. rewrite last_cons, E1. reflexivity.
Qed.

(* TablePT channel: entries + (duration, last value, hold) *)
Lemma table_int_rule rho es l f D D' dexp v :
  Forall2 (fun e n => eval_entry rho e = Some n) es l -> es <> [] ->
  table_chfun D l = Some f -> fst (last_tv l (0, 0)) <= D ->
  eval rho dexp = Some D' -> D' == D ->
  eval rho (match es with
            | [] => e0
            | (t0, v0, _) :: _ => sequence_integral e0 (e0, v0)
                 (es ++ [(dexp, match last_or es (e0, e0, IHold) with (_, v, _) => v end, IHold)])
            end) = Some v ->
  v == f_int D f.
Proof.
  intros HF Hne Hf HD ED HDD Hv. destruct es as [|[[t0e v0e] ip0] es']; [congruence|].
  destruct (entries_first_last rho t0e v0e ip0 es' l HF) as (t0 & v0 & l' & -> & Et0 & Ev0 & Evl).
  rewrite (chfun_int_num D t0 v0 ip0 l' f Hf HD).
  set (vle := match last_or ((t0e, v0e, ip0) :: es') (e0, e0, IHold) with (_, v1, _) => v1 end) in *.
  set (vl := snd (last_tv ((t0, v0, ip0) :: l') (t0, v0))) in *.
  assert (HF2 : Forall2 (fun e n => eval_entry rho e = Some n) (((t0e, v0e, ip0) :: es') ++ [(dexp, vle, IHold)])
                  (((t0, v0, ip0) :: l') ++ [(D', vl, IHold)])).
  { apply Forall2_app; [exact HF|]. constructor; [|constructor]. unfold eval_entry. rewrite ED, Evl. reflexivity. }
  destruct (eval_sequence_integral rho _ _ e0 0 e0 v0e 0 v0 HF2 eq_refl eq_refl Ev0) as (z & Ez & Hz).
  assert (Hzv : Some z = Some v) by (rewrite <- Ez; exact Hv). inversion Hzv; subst z. rewrite Hz, Qplus_0_l. apply seq_int_num_post_comp. exact HDD.
Qed.

(* PointPT channel: entries only; the pulse ends at the last entry *)
Lemma point_int_rule rho es l f D v :
  Forall2 (fun e n => eval_entry rho e = Some n) es l ->
  table_chfun D l = Some f -> fst (last_tv l (0, 0)) == D ->
  eval rho (match es with [] => e0 | (_, v0, _) :: _ => sequence_integral e0 (e0, v0) es end) = Some v ->
  v == f_int D f.
Proof.
  intros HF Hf HD Hv. destruct es as [|[[t0e v0e] ip0] es'].
  - inversion HF; subst. discriminate.
  - destruct (entries_first_last rho t0e v0e ip0 es' l HF) as (t0 & v0 & l' & -> & Et0 & Ev0 & Evl).
    assert (HD' : fst (last_tv ((t0, v0, ip0) :: l') (0, 0)) <= D) by (rewrite HD; lra).
    rewrite (chfun_int_num D t0 v0 ip0 l' f Hf HD').
    destruct (eval_sequence_integral rho _ _ e0 0 e0 v0e 0 v0 HF eq_refl eq_refl Ev0) as (z & Ez & Hz).
    assert (Hzv : Some z = Some v) by (rewrite <- Ez; exact Hv). inversion Hzv; subst z. rewrite Hz, Qplus_0_l. symmetry. apply seq_int_num_post_zero.
    rewrite last_tv_cons in HD |- *. cbn [fst snd] in *. destruct l' as [|y l'']; [exact HD|]. rewrite !last_tv_cons in *. exact HD.
Qed.

(* an empty table channel (duration <= 0): all times are 0, the integral vanishes *)
Lemma chfun_int_empty D l f : table_chfun D l = Some f -> fst (last_tv l (0, 0)) <= D -> D <= 0 -> f_int D f == 0.
Proof.
  intros Ef HlD HD0. destruct l as [|[[t0 v0] ip0] l']; [discriminate|].
  rewrite (chfun_int_num D t0 v0 ip0 l' f Ef HlD).
  unfold table_chfun in Ef. cbv iota beta in Ef.
  match type of Ef with (if ?b then _ else _) = _ => destruct b eqn:E end; [|discriminate Ef].
  apply andb_prop in E as (E0 & Et). apply Qle_bool_iff in E0.
  cbn [times_ok] in Et. apply andb_prop in Et as (_ & Et).
  rewrite last_tv_cons in HlD. cbn [fst snd] in HlD. pose proof (times_ok_last l' t0 v0 Et).
  assert (Ht0 : t0 == 0) by lra. assert (HD : D == 0) by lra.
  assert (Hz : forall L prev w, fst prev == 0 -> times_ok (fst prev) L = true -> fst (last_tv L prev) <= 0 ->
                 seq_int_num prev (L ++ [(D, w, IHold)]) == 0).
  { induction L as [|[[t1 v1] ip1] L IH]; intros [pt pv] w Hp Hok Hl; cbn [app seq_int_num fst snd] in *.
    - unfold interp_num. rewrite HD, Hp. ring.
    - cbn [times_ok] in Hok. apply andb_prop in Hok as (Hle & Hok). apply Qle_bool_iff in Hle.
      rewrite last_tv_cons in Hl. cbn [fst snd] in Hl. pose proof (times_ok_last L t1 v1 Hok).
      assert (Ht1 : t1 == 0) by lra. rewrite (IH (t1, v1) w Ht1 Hok Hl).
      destruct ip1; unfold interp_num; rewrite Ht1, Hp; field. }
  cbn [app seq_int_num fst snd].
  rewrite (Hz l' (t0, v0) _ Ht0 Et ltac:(cbn [fst]; lra)).
  destruct ip0; unfold interp_num; rewrite Ht0; field.
Qed.

Lemma In_qmax_list x l : In x l -> x <= qmax_list l.
Proof.
  unfold qmax_list. induction l as [|y l IH]; intros H; [destruct H|]. cbn [fold_right]. destruct H as [->|H].
  - apply Qmax_ge_l.
  - eapply Qle_trans; [apply IH; exact H|apply Qmax_ge_r].
Qed.

Lemma dget_In {A} c (d : list (chan * A)) a : dget c d = Some a -> In (c, a) d.
Proof.
  induction d as [|[k w] d IH]; cbn [dget]; [discriminate|]. destruct (N.eqb k c) eqn:E.
  - apply N.eqb_eq in E. subst. intros H; inversion H; left; reflexivity.
  - intros H. right. exact (IH H).
Qed.
