(* C07 — proofs, part 17: witnesses (refutations of the unguarded statements = the known findings, non-vacuity). *)
From Coq Require Import ZArith QArith Qround List Bool Lia.
Require Import QV.C07.Model QV.C07.Spec QV.C07.Wf QV.C07.ProofsRange QV.C07.ProofsLoop.
Import ListNotations.
Open Scope Q_scope.

Definition chA : chan := 1%N.
Definition vi : var := 1%N.

Lemma integral_statement_refuted :
  ~ (forall p rho pcs c e, denote p rho = Some pcs -> dget c (integral_expr p) = Some e ->
                           exists x, p_int pcs c = Some x /\ ev_eq rho e x).
Proof.
  intros H. destruct (H (Const (EC 0) [(chA, EV 5%N)]) env_empty [] chA (EMul (EC 0) (EV 5%N)) eq_refl eq_refl) as (x & _ & (v & Ev & _)).
  vm_compute in Ev. discriminate.
Qed.

Lemma initial_refuted : exists p rho pcs c e x v,
  wf p = true /\ denote p rho = Some pcs /\ dget c (initial_expr p) = Some e /\ p_at0 pcs c = Some x /\
  eval rho e = Some v /\ ~ v == x /\ guard_C07_initial_head p rho = false.
Proof.
  exists (Table [(chA, [(EC 0, EC 1, IHold); (EC 1, EC 3, IJump)])]), env_empty.
  eexists. exists chA. eexists. eexists. eexists.
  split; [vm_compute; reflexivity|]. split; [vm_compute; reflexivity|]. split; [vm_compute; reflexivity|].
  split; [vm_compute; reflexivity|]. split; [vm_compute; reflexivity|]. split; [vm_compute; discriminate|vm_compute; reflexivity].
Qed.

Lemma final_tail_refuted : exists p rho pcs c e x v,
  wf p = true /\ denote p rho = Some pcs /\ dget c (final_expr p) = Some e /\ p_end pcs c = Some x /\
  eval rho e = Some v /\ ~ v == x /\ guard_C07_final_tail p rho = false.
Proof.
  exists (Seq [Const (EC 1) [(chA, EC 1)]; Const (EC 0) [(chA, EC 5)]]), env_empty.
  eexists. exists chA. eexists. eexists. eexists.
  split; [vm_compute; reflexivity|]. split; [vm_compute; reflexivity|]. split; [vm_compute; reflexivity|].
  split; [vm_compute; reflexivity|]. split; [vm_compute; reflexivity|]. split; [vm_compute; discriminate|].
  vm_compute; reflexivity.
Qed.

Definition loop_tab : pt := Table [(chA, [(EC 0, EV vi, IHold); (EC 1, EAdd (EV vi) (EC 1), ILin)])].

Lemma final_floor_repaired : exists p rho pcs c e x v,
  wf p = true /\ denote p rho = Some pcs /\ dget c (final_expr p) = Some e /\ p_end pcs c = Some x /\
  eval rho e = Some v /\ v == x /\ x == 5 /\ guard_C07_final_tail p rho = true /\ guard_C07_for_final_floor_path p rho = false.
Proof.
  exists (For vi (EC 0) (EC 5) (EC 2) loop_tab), env_empty.
  eexists. exists chA. eexists. eexists. eexists.
  split; [vm_compute; reflexivity|]. split; [vm_compute; reflexivity|]. split; [vm_compute; reflexivity|].
  split; [vm_compute; reflexivity|]. split; [vm_compute; reflexivity|]. split; [vm_compute; reflexivity|].
  split; [vm_compute; reflexivity|]. split; vm_compute; reflexivity.
Qed.

Lemma guards_nonvacuous : exists p rho pcs c,
  wf p = true /\ guard_C07_initial_head p rho = true /\ guard_C07_final_tail p rho = true /\
  denote p rho = Some pcs /\ (length pcs = 3)%nat /\
  (exists e v, dget c (integral_expr p) = Some e /\ eval rho e = Some v) /\
  (exists e v x, dget c (initial_expr p) = Some e /\ eval rho e = Some v /\ p_at0 pcs c = Some x) /\
  (exists e v x, dget c (final_expr p) = Some e /\ eval rho e = Some v /\ p_end pcs c = Some x).
Proof.
  exists (For vi (EC 0) (EC 6) (EC 2) (Map loop_tab [(2%N, EV vi)] [(chA, Some 4%N)])), env_empty.
  eexists. exists 4%N.
  split; [vm_compute; reflexivity|]. split; [vm_compute; reflexivity|]. split; [vm_compute; reflexivity|].
  split; [vm_compute; reflexivity|]. split; [vm_compute; reflexivity|].
  split.
  { eexists. eexists. split; [vm_compute; reflexivity|]. vm_compute. reflexivity. }
  split.
  { eexists. eexists. eexists. split; [vm_compute; reflexivity|]. split; [vm_compute; reflexivity|]. vm_compute. reflexivity. }
  eexists. eexists. eexists. split; [vm_compute; reflexivity|]. split; [vm_compute; reflexivity|]. vm_compute. reflexivity.
Qed.

Lemma floor_guard_nondividing : exists a o s ks, py_range a o s = Some ks /\ ks <> [] /\
  ((o - a) mod s <> 0)%Z /\ floor_final_index a o s = last ks 0%Z.
Proof. exists 0%Z, 1%Z, 2%Z, [0]%Z. split; [reflexivity|]. split; [discriminate|]. split; [vm_compute; discriminate|reflexivity]. Qed.

(* the round-1 statements (total evaluation, no guards) are refuted by the witnesses above *)
Lemma initial_statement_refuted :
  ~ (forall p rho pcs c e x, denote p rho = Some pcs -> dget c (initial_expr p) = Some e -> p_at0 pcs c = Some x -> ev_eq rho e x).
Proof.
  intros H. destruct initial_refuted as (p & rho & pcs & c & e & x & v & _ & Hd & He & Hx & Hv & Hne & _).
  destruct (H p rho pcs c e x Hd He Hx) as (v' & Ev' & Hv'). rewrite Hv in Ev'. inversion Ev'; subst v'. exact (Hne Hv').
Qed.

Lemma final_statement_refuted :
  ~ (forall p rho pcs c e x, denote p rho = Some pcs -> dget c (final_expr p) = Some e -> p_end pcs c = Some x -> ev_eq rho e x).
Proof.
  intros H. destruct final_tail_refuted as (p & rho & pcs & c & e & x & v & _ & Hd & He & Hx & Hv & Hne & _).
  destruct (H p rho pcs c e x Hd He Hx) as (v' & Ev' & Hv'). rewrite Hv in Ev'. inversion Ev'; subst v'. exact (Hne Hv').
Qed.
