(* C07 — proofs, part 11: lemmas shared by the integral / initial / final inductions: keyed opt_all, linear
   functionals of a channel function, transfer of the pulse observables through renaming / affine maps. *)
From Coq Require Import ZArith QArith Qround List Bool Lia Lra Lqa.
Require Import QV.C07.Model QV.C07.Spec QV.C07.Wf QV.C07.ProofsRange QV.C07.ProofsLoop QV.C07.ProofsAtoms
               QV.C07.ProofsExpr QV.C07.ProofsPt QV.C07.ProofsDict QV.C07.ProofsSum QV.C07.ProofsKeysQ QV.C07.ProofsKeysD
               QV.C07.ProofsDur.
Import ListNotations.
Open Scope Q_scope.

(* keyed opt_all: looking a key up in the result *)
Lemma opt_all_dget {A Y Z} (g : chan * A -> option Y) (h : chan * A -> Y -> Z) c (d : list (chan * A)) : forall r,
  opt_all (map (fun x => option_map (fun y => (fst x, h x y)) (g x)) d) = Some r ->
  match dget c d with
  | Some a => exists y, g (c, a) = Some y /\ dget c r = Some (h (c, a) y)
  | None => dget c r = None
  end.
Proof.
  induction d as [|[k a] d IH]; intros r H; cbn [map opt_all] in H.
  - inversion H. reflexivity.
  - destruct (g (k, a)) as [y|] eqn:Eg; [|discriminate]. cbn [option_map fst] in H.
    destruct (opt_all (map (fun x => option_map (fun y0 => (fst x, h x y0)) (g x)) d)) as [r'|] eqn:Er; [|discriminate].
    inversion H; subst. cbn [dget]. destruct (N.eqb k c) eqn:E.
    + apply N.eqb_eq in E. subst k. exists y. split; [exact Eg|reflexivity].
    + apply IH. reflexivity.
Qed.

(* ---- linear functionals of a channel function (integral, value at 0, end value) ---- *)
Record linfun := { L : Q -> chfun -> Q; kap : Q -> Q;
                   L_aff : forall d a b g, L d (FAff a b g) == a * L d g + b * kap d;
                   L_add : forall d g h, L d (FAdd g h) == L d g + L d h;
                   L_sub : forall d g h, L d (FSub g h) == L d g - L d h;
                   L_len : forall d d' f, d == d' -> L d f == L d' f }.

Lemma f_int_len d d' f : d == d' -> f_int d f == f_int d' f.
Proof. intros H. induction f; cbn [f_int]; [reflexivity|rewrite IHf, H; reflexivity|rewrite IHf1, IHf2; reflexivity..]. Qed.

Definition L_int : linfun.
Proof.
  refine {| L := f_int; kap := fun d => d |}.
  - intros; cbn [f_int]; reflexivity.
  - intros; reflexivity.
  - intros; reflexivity.
  - apply f_int_len.
Defined.
Definition L_at0 : linfun.
Proof.
  refine {| L := fun _ => f_at0; kap := fun _ => 1 |}.
  - intros; cbn [f_at0]; ring.
  - intros; reflexivity.
  - intros; reflexivity.
  - intros; reflexivity.
Defined.
Definition L_end : linfun.
Proof.
  refine {| L := fun _ => f_end; kap := fun _ => 1 |}.
  - intros; cbn [f_end]; ring.
  - intros; reflexivity.
  - intros; reflexivity.
  - intros; reflexivity.
Defined.

(* "expression e is right about channel function f of a piece of length d" *)
Definition okL (Lf : linfun) (rho : env) (e : expr) (d : Q) (f : chfun) : Prop :=
  forall v, eval rho e = Some v -> v == L Lf d f.

Lemma okL_len Lf rho e d d' f : d == d' -> okL Lf rho e d f -> okL Lf rho e d' f.
Proof. intros H Hk v Hv. rewrite (Hk v Hv). apply L_len. exact H. Qed.

(* ---- ArithmeticAtomicPT on one piece ---- *)
Lemma merge_fold_dget op c (r : list (chan * chfun)) : forall res, nodupb (dkeys r) = true ->
  dget c (fold_left (fun res cf =>
                       match dget (fst cf) res with
                       | Some f => dset (fst cf) (match op with OAdd => FAdd f (snd cf) | _ => FSub f (snd cf) end) res
                       | None => dset (fst cf) (match op with OAdd => snd cf | _ => FAff (-(1)) 0 (snd cf) end) res
                       end) r res) =
  match dget c res, dget c r with
  | Some f, Some g => Some (match op with OAdd => FAdd f g | _ => FSub f g end)
  | Some f, None => Some f
  | None, Some g => Some (match op with OAdd => g | _ => FAff (-(1)) 0 g end)
  | None, None => None
  end.
Proof.
  induction r as [|[k g] r IH]; intros res H; cbn [fold_left dget fst snd].
  - destruct (dget c res); reflexivity.
  - cbn [dkeys map fst nodupb] in H. apply andb_prop in H as (Hk & Hr). apply negb_true_iff, memb_false in Hk.
    rewrite IH by exact Hr.
    assert (Hd : dget c (match dget k res with
                         | Some f => dset k (match op with OAdd => FAdd f g | _ => FSub f g end) res
                         | None => dset k (match op with OAdd => g | _ => FAff (-(1)) 0 g end) res end)
                 = if N.eqb k c then (match dget k res with
                                      | Some f => Some (match op with OAdd => FAdd f g | _ => FSub f g end)
                                      | None => Some (match op with OAdd => g | _ => FAff (-(1)) 0 g end) end)
                   else dget c res).
    { destruct (dget k res); rewrite dget_dset; destruct (N.eqb k c); reflexivity. }
    rewrite Hd. destruct (N.eqb k c) eqn:E; [|reflexivity].
    apply N.eqb_eq in E. subst k. apply dget_dkeys in Hk. unfold dkeys in Hk. rewrite Hk.
    destruct (dget c res); reflexivity.
Qed.

Lemma eval_ENeg rho a v : eval rho (ENeg a) = Some v -> exists x, eval rho a = Some x /\ v = - x.
Proof. cbn [eval]. destruct (eval rho a); cbn [option_map]; intros H; inversion H; eauto. Qed.

Lemma aatom_rule Lf rho op (dl dr : dict) (pl pr : piece) pc c e :
  merge_atomic op pl pr = Some pc ->
  nodupb (dkeys dr) = true -> nodupb (dkeys (snd pr)) = true ->
  (forall c, dmem c dl = dmem c (snd pl)) -> (forall c, dmem c dr = dmem c (snd pr)) ->
  (forall c e f, dget c dl = Some e -> dget c (snd pl) = Some f -> okL Lf rho e (fst pl) f) ->
  (forall c e f, dget c dr = Some e -> dget c (snd pr) = Some f -> okL Lf rho e (fst pr) f) ->
  dget c (apply_op_dict op dl dr) = Some e ->
  exists f, dget c (snd pc) = Some f /\ okL Lf rho e (fst pc) f.
Proof.
  intros Hm Hn1 Hn2 Kl Kr Hl Hr Hc. unfold merge_atomic in Hm.
  destruct (Qeq_bool (fst pl) (fst pr)) eqn:EQ; [|discriminate]. apply Qeq_bool_iff in EQ.
  rewrite dget_apply_op_dict in Hc by exact Hn1.
  assert (Hpc : (op = OAdd \/ op = OSub) /\ fst pc = fst pl /\
                dget c (snd pc) = match dget c (snd pl), dget c (snd pr) with
                                  | Some f, Some g => Some (match op with OAdd => FAdd f g | _ => FSub f g end)
                                  | Some f, None => Some f
                                  | None, Some g => Some (match op with OAdd => g | _ => FAff (-(1)) 0 g end)
                                  | None, None => None
                                  end).
  { destruct op; try discriminate; inversion Hm; subst; cbn [fst snd]; (split; [auto|split; [reflexivity|]]);
      [apply (merge_fold_dget OAdd)|apply (merge_fold_dget OSub)]; exact Hn2. }
  destruct Hpc as (Hop & Hfst & Hdg). rewrite Hdg, Hfst. clear Hdg Hm.
  pose proof (Kl c) as Kl'. pose proof (Kr c) as Kr'. unfold dmem in Kl', Kr'.
  destruct (dget c dl) as [el|] eqn:E1, (dget c (snd pl)) as [fl|] eqn:E2; try discriminate;
    destruct (dget c dr) as [er|] eqn:E3, (dget c (snd pr)) as [fr|] eqn:E4; try discriminate; inversion Hc; subst e; clear Hc.
  - pose proof (Hl c el fl E1 E2) as H1. pose proof (okL_len _ _ _ _ _ _ (Qeq_sym _ _ EQ) (Hr c er fr E3 E4)) as H2.
    eexists; split; [reflexivity|]. intros v Hv. destruct Hop as [-> | ->]; cbn [apply_both] in Hv.
    + apply eval_EAdd in Hv as (x & y & Ex & Ey & ->). rewrite L_add, (H1 x Ex), (H2 y Ey). reflexivity.
    + apply eval_ESub in Hv as (x & y & Ex & Ey & ->). rewrite L_sub, (H1 x Ex), (H2 y Ey). reflexivity.
  - eexists; split; [reflexivity|]. apply (Hl c el fl E1 E2).
  - pose proof (okL_len _ _ _ _ _ _ (Qeq_sym _ _ EQ) (Hr c er fr E3 E4)) as H2.
    eexists; split; [reflexivity|]. intros v Hv. destruct Hop as [-> | ->]; cbn [apply_rhs_only] in Hv.
    + apply H2. exact Hv.
    + apply eval_ENeg in Hv as (x & Ex & ->). rewrite L_aff, (H2 x Ex). ring.
Qed.

(* ---- AtomicMultiChannelPT ---- *)
Lemma nodupb_app_r a b : nodupb (a ++ b) = true -> nodupb b = true.
Proof. induction a as [|x a IH]; cbn [app nodupb]; [auto|]. intros H. apply andb_prop in H as (_ & H). auto. Qed.

Lemma multi_rule Lf rho q : forall l acc pcm c e,
  den_multi rho l = Some [pcm] ->
  Forall (fun s => wf s = true) l -> nodupb (flat_map channels l) = true ->
  Forall (fun s => forall pc c e f, denote s rho = Some [pc] -> dget c (quant q s) = Some e -> dget c (snd pc) = Some f ->
                                    okL Lf rho e (fst pc) f) l ->
  dget c (multi_q q acc l) = Some e ->
  match dget c (snd pcm) with
  | Some f => okL Lf rho e (fst pcm) f
  | None => dget c acc = Some e
  end.
Proof.
  induction l as [|s l IH]; intros acc pcm c e Hd HW Hnd HR Hc; [discriminate|].
  inversion HW as [|? ? Hws HW']; subst. inversion HR as [|? ? Hrs HR']; subst.
  rewrite multi_q_cons in Hc. destruct (quant_keys s q Hws) as (Kq1 & Kq2).
  destruct l as [|s' l].
  - rewrite den_multi_one in Hd. destruct (denote s rho) as [[|pc [|? ?]]|] eqn:Es; try discriminate. inversion Hd; subst pcm.
    pose proof (piece_keys s rho _ Hws Es) as HK. inversion HK as [|? ? (Kp1 & Kp2) _]; subst.
    change (multi_q q (dupdate acc (quant q s)) []) with (dupdate acc (quant q s)) in Hc.
    rewrite dget_dupdate in Hc by exact Kq1.
    pose proof (Kq2 c) as A. pose proof (Kp2 c) as B. unfold dmem in A, B.
    destruct (dget c (quant q s)) as [e'|] eqn:E1, (dget c (snd pc)) as [f|] eqn:E2; try congruence.
    + inversion Hc; subst. eapply Hrs; eauto.
  - rewrite den_multi_cons in Hd. destruct (denote s rho) as [[|pc [|? ?]]|] eqn:Es; try discriminate.
    destruct (den_multi rho (s' :: l)) as [[|pc' [|? ?]]|] eqn:Er; try discriminate.
    destruct (Qeq_bool (fst pc) (fst pc')) eqn:EQ; [|discriminate]. apply Qeq_bool_iff in EQ. inversion Hd; subst pcm. cbn [fst snd].
    cbn [flat_map] in Hnd. pose proof (nodupb_app_r _ _ Hnd) as Hnd'.
    pose proof (IH (dupdate acc (quant q s)) pc' c e eq_refl HW' Hnd' HR' Hc) as HI.
    assert (Hwm : wf (Multi (s' :: l)) = true).
    { rewrite wf_Multi. apply andb_true_intro. split; [exact Hnd'|].
      clear - HW'. induction HW' as [|x r Hx HW' IHr]; [reflexivity|]. rewrite wf_multi_cons, Hx, IHr. reflexivity. }
    pose proof (piece_keys (Multi (s' :: l)) rho [pc'] Hwm) as HKr. rewrite denote_Multi in HKr. specialize (HKr Er).
    inversion HKr as [|? ? (Kr1 & _) _]; subst.
    pose proof (piece_keys s rho _ Hws Es) as HK. inversion HK as [|? ? (Kp1 & Kp2) _]; subst.
    rewrite dget_dupdate by exact Kr1.
    destruct (dget c (snd pc')) as [f|] eqn:E3.
    + eapply okL_len; [symmetry; exact EQ|exact HI].
    + rewrite dget_dupdate in HI by exact Kq1.
      pose proof (Kq2 c) as A. pose proof (Kp2 c) as B. unfold dmem in A, B.
      destruct (dget c (quant q s)) as [e'|] eqn:E1, (dget c (snd pc)) as [f|] eqn:E2; try congruence.
      inversion HI; subst. eapply Hrs; eauto.
Qed.

(* ---- pulse observables through a per-piece change of the channel dictionaries ---- *)
Lemma p_int_congr pcs pcs' c c' :
  Forall2 (fun pc pc' => fst pc = fst pc' /\ dget c (snd pc) = dget c' (snd pc')) pcs pcs' -> p_int pcs c = p_int pcs' c'.
Proof. induction 1 as [|pc pc' a b (H1 & H2) H IH]; [reflexivity|]. cbn [p_int]. rewrite H1, H2, IH. reflexivity. Qed.

Lemma Forall2_map_r {A B} (R : A -> B -> Prop) (g : A -> B) l : (forall x, In x l -> R x (g x)) -> Forall2 R l (map g l).
Proof. induction l as [|x l IH]; intros H; cbn [map]; constructor; [apply H; left; reflexivity|apply IH; intros y Hy; apply H; right; exact Hy]. Qed.

Lemma p_int_aff pcs pcs' c a b : forall X,
  Forall2 (fun pc pc' => fst pc' = fst pc /\ dget c (snd pc') = option_map (FAff a b) (dget c (snd pc))) pcs pcs' ->
  p_int pcs c = Some X -> exists z, p_int pcs' c = Some z /\ z == a * X + b * total pcs.
Proof.
  intros X H. revert X. induction H as [|pc pc' r r' (H1 & H2) H IH]; intros X HX.
  - inversion HX; subst. exists 0. split; [reflexivity|]. change (total []) with 0. ring.
  - cbn [p_int] in *. destruct (dget c (snd pc)) as [f|]; [|discriminate]. destruct (p_int r c) as [Xr|]; [|discriminate].
    inversion HX; subst X. destruct (IH Xr eq_refl) as (z & Ez & Hz). rewrite H2, Ez. cbn [option_map].
    eexists; split; [reflexivity|]. rewrite H1, total_cons, Hz. cbn [f_int]. ring.
Qed.

Lemma p_int_repeat pcs c x m : p_int pcs c = Some x ->
  exists z, p_int (repeat_pulse m pcs) c = Some z /\ z == inject_Z (Z.of_nat m) * x.
Proof.
  intros H. induction m as [|m (z & Ez & Hz)]; cbn [repeat_pulse].
  - exists 0. split; [reflexivity|]. cbn. ring.
  - destruct (p_int_app _ _ _ _ _ H Ez) as (w & Ew & Hw). exists w. split; [exact Ew|].
    rewrite Hw, Hz, Nat2Z.inj_succ. unfold Z.succ. rewrite inject_Z_plus. ring.
Qed.
