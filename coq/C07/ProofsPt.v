(* C07 — proofs, part 5: induction principle for the nested template type and named versions of the local fixpoints of
   Model.v / Spec.v / Wf.v (each with its unfolding equation, proved by reflexivity). *)
From Coq Require Import ZArith QArith Qround List Bool Lia.
Require Import QV.C07.Model QV.C07.Spec QV.C07.Wf.
Import ListNotations.
Open Scope Q_scope.

Lemma pt_ind' (P : pt -> Prop) :
  (forall chs, P (Table chs)) -> (forall cs ents, P (Point cs ents)) -> (forall d vals, P (Const d vals)) ->
  (forall c d coef, P (Func c d coef)) ->
  (forall ps, Forall P ps -> P (Seq ps)) -> (forall n b, P b -> P (Rep n b)) ->
  (forall i a o s b, P b -> P (For i a o s b)) -> (forall b pm cm, P b -> P (Map b pm cm)) ->
  (forall ps, Forall P ps -> P (Multi ps)) -> (forall b ov, P b -> P (Par b ov)) ->
  (forall b op s, P b -> P (ArithL b op s)) -> (forall s op b, P b -> P (ArithR s op b)) ->
  (forall l op r, P l -> P r -> P (AAtom l op r)) -> forall p, P p.
Proof.
  intros HT HP HC HF HS HR HFor HM HMu HPar HL HRr HA.
  fix IH 1. intros p. destruct p.
  - apply HT. - apply HP. - apply HC. - apply HF.
  - apply HS. induction ps as [|q r IHr]; constructor; [apply IH|exact IHr].
  - apply HR, IH. - apply HFor, IH. - apply HM, IH.
  - apply HMu. induction ps as [|q r IHr]; constructor; [apply IH|exact IHr].
  - apply HPar, IH. - apply HL, IH. - apply HRr, IH. - apply HA; apply IH.
Qed.

(* ---- Spec.denote ---- *)
Definition den_seq (rho : env) : list pt -> option pulse :=
  fix go (l : list pt) : option pulse :=
    match l with
    | [] => Some []
    | q :: r => match denote q rho, go r with Some a, Some b => Some (a ++ b) | _, _ => None end
    end.
Lemma denote_Seq ps rho : denote (Seq ps) rho = den_seq rho ps.
Proof. reflexivity. Qed.
Lemma den_seq_cons rho q r :
  den_seq rho (q :: r) = match denote q rho, den_seq rho r with Some a, Some b => Some (a ++ b) | _, _ => None end.
Proof. reflexivity. Qed.

Definition den_for (b : pt) (i : var) (rho : env) : list Z -> option pulse :=
  fix go (l : list Z) : option pulse :=
    match l with
    | [] => Some []
    | k :: r => match denote b (env_upd rho i (Some (inject_Z k))), go r with
                | Some x, Some y => Some (x ++ y) | _, _ => None end
    end.
Lemma denote_For i start stop step b rho :
  denote (For i start stop step b) rho =
  match as_int (eval rho start), as_int (eval rho stop), as_int (eval rho step) with
  | Some a, Some o, Some s => match py_range a o s with None => None | Some ks => den_for b i rho ks end
  | _, _, _ => None
  end.
Proof. reflexivity. Qed.
Lemma den_for_cons b i rho k r :
  den_for b i rho (k :: r) = match denote b (env_upd rho i (Some (inject_Z k))), den_for b i rho r with
                             | Some x, Some y => Some (x ++ y) | _, _ => None end.
Proof. reflexivity. Qed.

Definition den_multi (rho : env) : list pt -> option pulse :=
  fix go (l : list pt) : option pulse :=
    match l with
    | [] => None
    | [q] => match denote q rho with Some [pc] => Some [pc] | _ => None end
    | q :: r => match denote q rho, go r with
                | Some [pc], Some [pc'] =>
                    if Qeq_bool (fst pc) (fst pc') then Some [(fst pc, dupdate (snd pc) (snd pc'))] else None
                | _, _ => None
                end
    end.
Lemma denote_Multi ps rho : denote (Multi ps) rho = den_multi rho ps.
Proof. reflexivity. Qed.
Lemma den_multi_one rho q : den_multi rho [q] = match denote q rho with Some [pc] => Some [pc] | _ => None end.
Proof. reflexivity. Qed.
Lemma den_multi_cons rho q q' r :
  den_multi rho (q :: q' :: r) =
  match denote q rho, den_multi rho (q' :: r) with
  | Some [pc], Some [pc'] => if Qeq_bool (fst pc) (fst pc') then Some [(fst pc, dupdate (snd pc) (snd pc'))] else None
  | _, _ => None
  end.
Proof. reflexivity. Qed.

Definition point_entries (rho : env) (ents : list pentry) (k : nat) : option (list nentry) :=
  opt_all (map (fun en => match en with (t, v, ip) => eval_entry rho (t, pval_at k v, ip) end) ents).
Definition den_point_go (rho : env) (ents : list pentry) (D : Q) : nat -> list chan -> list (option (chan * chfun)) :=
  fix go (k : nat) (l : list chan) : list (option (chan * chfun)) :=
    match l with
    | [] => []
    | c :: r => match point_entries rho ents k with
                | Some l => option_map (fun f => (c, f)) (table_chfun D l)
                | None => None
                end :: go (S k) r
    end.
Lemma denote_Point cs ents rho :
  denote (Point cs ents) rho =
  match point_entries rho ents 0 with
  | None => None
  | Some l0 =>
      let D := fst (last_tv l0 (0, 0)) in
      match opt_all (den_point_go rho ents D 0 cs) with
      | None => None
      | Some fs => if Qle_bool D 0 then Some [] else Some [(D, fs)]
      end
  end.
Proof. reflexivity. Qed.
Lemma den_point_go_cons rho ents D k c r :
  den_point_go rho ents D k (c :: r) =
  match point_entries rho ents k with
  | Some l => option_map (fun f => (c, f)) (table_chfun D l)
  | None => None
  end :: den_point_go rho ents D (S k) r.
Proof. reflexivity. Qed.

Lemma denote_Map b pm cm rho : denote (Map b pm cm) rho = option_map (map (rename_piece cm)) (denote b (map_env rho pm)).
Proof. reflexivity. Qed.

(* ---- Model.duration_expr / quant ---- *)
Definition dur_seq : list pt -> expr :=
  fix go (l : list pt) : expr := match l with [] => e0 | q :: r => EAdd (duration_expr q) (go r) end.
Lemma duration_Seq ps : duration_expr (Seq ps) = dur_seq ps.
Proof. reflexivity. Qed.
Lemma dur_seq_cons q r : dur_seq (q :: r) = EAdd (duration_expr q) (dur_seq r).
Proof. reflexivity. Qed.

Definition int_seq : dict -> list pt -> dict :=
  fix go (acc : dict) (l : list pt) : dict :=
    match l with
    | [] => acc
    | s :: r => let sd := quant QIntegral s in
                go (map (fun kv => (fst kv, EAdd (snd kv) (match dget (fst kv) sd with Some e => e | None => EV tvar end))) acc) r
    end.
Lemma quant_int_Seq ps : quant QIntegral (Seq ps) = int_seq (map (fun c => (c, e0)) (channels (Seq ps))) ps.
Proof. reflexivity. Qed.
Lemma int_seq_cons acc s r :
  int_seq acc (s :: r) =
  int_seq (map (fun kv => (fst kv, EAdd (snd kv) (match dget (fst kv) (quant QIntegral s) with Some e => e | None => EV tvar end))) acc) r.
Proof. reflexivity. Qed.

Definition fin_seq : list pt -> dict :=
  fix go (l : list pt) : dict := match l with [] => [] | [s] => quant QFinal s | _ :: r => go r end.
Lemma quant_fin_Seq ps : quant QFinal (Seq ps) = fin_seq ps.
Proof. reflexivity. Qed.
Lemma fin_seq_one s : fin_seq [s] = quant QFinal s.
Proof. reflexivity. Qed.
Lemma fin_seq_cons s s' r : fin_seq (s :: s' :: r) = fin_seq (s' :: r).
Proof. reflexivity. Qed.

Definition multi_q (q : quantity) : dict -> list pt -> dict :=
  fix go (acc : dict) (l : list pt) : dict := match l with [] => acc | s :: r => go (dupdate acc (quant q s)) r end.
Lemma quant_Multi q ps : quant q (Multi ps) = multi_q q [] ps.
Proof. destruct q; reflexivity. Qed.
Lemma multi_q_cons q acc s r : multi_q q acc (s :: r) = multi_q q (dupdate acc (quant q s)) r.
Proof. reflexivity. Qed.

Definition point_q (q : quantity) (ents : list pentry) (v0 : pval) : nat -> list chan -> dict :=
  fix go (k : nat) (l : list chan) : dict :=
    match l with
    | [] => []
    | c :: r =>
        (c, match q with
            | QIntegral => sequence_integral e0 (e0, pval_at k v0)
                             (map (fun en => match en with (t, v, ip) => (t, pval_at k v, ip) end) ents)
            | QInitial => pval_at k v0
            | QFinal => match last_or ents (e0, PScalar e0, IHold) with (_, v, _) => pval_at k v end
            end) :: go (S k) r
    end.
Lemma quant_Point q cs t0 v0 ip0 ents' :
  quant q (Point cs ((t0, v0, ip0) :: ents')) = point_q q ((t0, v0, ip0) :: ents') v0 0 cs.
Proof. destruct q; reflexivity. Qed.

(* ---- Wf.wf ---- *)
Definition wf_seq (q0 : pt) : list pt -> bool :=
  fix go (l : list pt) : bool :=
    match l with [] => true | q :: r => wf q && same_chans (channels q) (channels q0) && go r end.
Lemma wf_Seq q0 r : wf (Seq (q0 :: r)) = nodupb (channels q0) && wf_seq q0 (q0 :: r).
Proof. reflexivity. Qed.
Lemma wf_seq_cons q0 q r : wf_seq q0 (q :: r) = wf q && same_chans (channels q) (channels q0) && wf_seq q0 r.
Proof. reflexivity. Qed.
Definition wf_multi : list pt -> bool :=
  fix go (l : list pt) : bool := match l with [] => true | q :: r => wf q && go r end.
Lemma wf_Multi ps : wf (Multi ps) = nodupb (flat_map channels ps) && wf_multi ps.
Proof. reflexivity. Qed.
Lemma wf_multi_cons q r : wf_multi (q :: r) = wf q && wf_multi r.
Proof. reflexivity. Qed.

Lemma wf_nodup p : wf p = true -> nodupb (channels p) = true.
Proof. destruct p; cbn [wf]; intros H; apply andb_prop in H as (H & _); exact H. Qed.

(* children of a well-formed sequence / multi-channel template are well-formed (and have the channels of the first) *)
Lemma wf_seq_Forall q0 l : wf_seq q0 l = true -> Forall (fun q => wf q = true /\ same_chans (channels q) (channels q0) = true) l.
Proof.
  induction l as [|q r IH]; intros H; constructor.
  - rewrite wf_seq_cons in H. apply andb_prop in H as (H & _). apply andb_prop in H. exact H.
  - apply IH. rewrite wf_seq_cons in H. apply andb_prop in H as (_ & H). exact H.
Qed.
Lemma wf_multi_Forall l : wf_multi l = true -> Forall (fun q => wf q = true) l.
Proof.
  induction l as [|q r IH]; intros H; constructor; rewrite wf_multi_cons in H; apply andb_prop in H as (H1 & H2); auto.
Qed.
