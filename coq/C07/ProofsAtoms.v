(* C07 — proofs, part 3: atoms (table `_sequence_integral`, constant, polynomial function) and pad_to. *)
From Coq Require Import ZArith QArith Qround List Bool Lia Lra Lqa.
Require Import QV.C07.Model QV.C07.Spec QV.C07.Wf QV.C07.ProofsRange QV.C07.ProofsLoop.
Import ListNotations.
Open Scope Q_scope.

(* numeric reading of interpolation.py evaluate_integral *)
Definition interp_num (ip : interp) (t0 v0 t1 v1 : Q) : Q :=
  match ip with ILin => (t1 - t0) * (v0 + v1) / 2 | IHold => v0 * (t1 - t0) | IJump => v1 * (t1 - t0) end.
Fixpoint seq_int_num (prev : Q * Q) (l : list nentry) : Q :=
  match l with
  | [] => 0
  | (t, v, ip) :: r => interp_num ip (fst prev) (snd prev) t v + seq_int_num (t, v) r
  end.

Lemma eval_interp_integral rho ip t0 v0 t1 v1 a0 b0 a1 b1 :
  eval rho t0 = Some a0 -> eval rho v0 = Some b0 -> eval rho t1 = Some a1 -> eval rho v1 = Some b1 ->
  ev_eq rho (interp_integral ip t0 v0 t1 v1) (interp_num ip a0 b0 a1 b1).
Proof.
  intros E1 E2 E3 E4. unfold ev_eq. destruct ip; cbn [interp_integral interp_num eval]; rewrite ?E1, ?E2, ?E3, ?E4; cbn [omap2].
  - eexists; split; reflexivity.
  - eexists; split; reflexivity.
  - change (Qeq_bool 2 0) with false. cbv iota. eexists; split; reflexivity.
Qed.

(* TableEntry._sequence_integral evaluates to the numeric sum over consecutive pairs *)
Lemma eval_sequence_integral rho : forall es l acc x pt pv a b,
  Forall2 (fun e n => eval_entry rho e = Some n) es l ->
  eval rho acc = Some x -> eval rho pt = Some a -> eval rho pv = Some b ->
  ev_eq rho (sequence_integral acc (pt, pv) es) (x + seq_int_num (a, b) l).
Proof.
  induction es as [|[[t v] ip] es IH]; intros l acc x pt pv a b HF Ex Ea Eb.
  - inversion HF; subst. exists x. split; [exact Ex|simpl; ring].
  - inversion HF as [|e n es' l' He HF']; subst. unfold eval_entry in He.
    destruct (eval rho t) as [ta|] eqn:Et; [|discriminate]. destruct (eval rho v) as [va|] eqn:Ev; [|discriminate].
    inversion He; subst n. cbn [sequence_integral fst snd].
    destruct (eval_interp_integral rho ip pt pv t v a b ta va Ea Eb Et Ev) as (y & Ey & Hy).
    assert (Eacc : eval rho (EAdd acc (interp_integral ip pt pv t v)) = Some (x + y)) by (cbn [eval]; rewrite Ex, Ey; reflexivity).
    destruct (IH l' _ _ t v ta va HF' Eacc Et Ev) as (z & Ez & Hz).
    exists z. split; [exact Ez|]. rewrite Hz. cbn [seq_int_num fst snd]. rewrite Hy. ring.
Qed.

Definition segs_int (segs : list (Q * list Q)) : Q := fold_right (fun s acc => pint (snd s) (fst s) + acc) 0 segs.

Lemma segs_int_app a b : segs_int (a ++ b) == segs_int a + segs_int b.
Proof. induction a; simpl; [ring|]. unfold segs_int in *. simpl. rewrite IHa. ring. Qed.

(* with non-decreasing times the pairwise closed forms (rectangle / trapezoid) are the exact integrals of the segments *)
Lemma seq_int_num_segs : forall l prev, times_ok (fst prev) l = true ->
  seq_int_num prev l == segs_int (segs_of prev l).
Proof.
  induction l as [|[[t v] ip] l IH]; intros prev Hok; [reflexivity|].
  cbn [times_ok] in Hok. apply andb_prop in Hok as (Hle & Hok). apply Qle_bool_iff in Hle.
  cbn [seq_int_num segs_of]. rewrite segs_int_app. rewrite <- (IH (t, v) Hok). apply Qplus_comp; [|reflexivity].
  destruct (Qle_bool (t - fst prev) 0) eqn:E.
  - apply Qle_bool_iff in E. assert (Hz : t - fst prev == 0) by lra.
    unfold segs_int; simpl. destruct ip; unfold interp_num; rewrite Hz; field.
  - assert (Hnz : ~ t - fst prev == 0).
    { intros H. assert (Qle_bool (t - fst prev) 0 = true) by (apply Qle_bool_iff; lra). congruence. }
    unfold segs_int; cbn [fold_right fst snd]. destruct ip; unfold interp_num.
    + rewrite pint_const. ring.
    + rewrite pint_const. ring.
    + rewrite pint_linear. field. exact Hnz.
Qed.

Lemma times_ok_app_l : forall l r p, times_ok p (l ++ r) = true -> times_ok p l = true.
Proof.
  induction l as [|[[t v] ip] l IH]; intros r p H; [reflexivity|].
  cbn [app times_ok] in *. apply andb_prop in H as (H1 & H2). rewrite H1. cbn [andb]. eapply IH. exact H2.
Qed.

(* ---- one channel of a TablePT: integral[c] == exact integral of the denoted channel ---- *)
Theorem table_channel_integral rho es l dexp D t0e v0e ip0 es' t0 v0 ipn l' vle :
  es = (t0e, v0e, ip0) :: es' -> l = (t0, v0, ipn) :: l' ->
  Forall2 (fun e n => eval_entry rho e = Some n) es l ->
  eval rho dexp = Some D ->
  (match last es (e0, e0, IHold) with (_, v, _) => v end) = vle ->
  Qle_bool 0 t0 = true -> times_ok t0 (l ++ [(D, snd (last_tv l (t0, v0)), IHold)]) = true ->
  exists f, table_chfun D l = Some f /\
            ev_eq rho (sequence_integral e0 (e0, v0e) (es ++ [(dexp, vle, IHold)])) (f_int D f).
Proof.
  intros Hes Hl HF ED Hvle H0 Hok. subst es l.
  set (es := (t0e, v0e, ip0) :: es') in *. set (l := (t0, v0, ipn) :: l') in *.
  assert (Hokl : times_ok t0 l = true) by (eapply times_ok_app_l; exact Hok).
  assert (Htc : table_chfun D l = (let '(tl, vl) := last_tv l (t0, v0) in
                                   Some (FSegs (segs_of (0, v0) (l ++ [(D, vl, IHold)])) vl))).
  { unfold table_chfun, l. cbv iota beta. fold l. rewrite H0, Hokl. reflexivity. }
  rewrite Htc.
  destruct (last_tv l (t0, v0)) as [tl vl] eqn:Elast. cbn [snd] in Hok.
  eexists. split; [reflexivity|].
  cbn [f_int]. fold (segs_int (segs_of (0, v0) (l ++ [(D, vl, IHold)]))).
  (* the value of the last symbolic entry evaluates to vl *)
  assert (Evl : eval rho vle = Some vl).
  { clear - HF Hvle Elast. subst vle. unfold last_tv in Elast. cbn [fst snd] in Elast.
    assert (Hgen : forall es l de dn, Forall2 (fun e n => eval_entry rho e = Some n) es l -> es <> [] ->
                     eval_entry rho (last es de) = Some (last l dn)).
    { induction es0 as [|e es0 IH]; intros l0 de dn H Hne; [congruence|].
      inversion H as [|? n ? l1 He HF']; subst. destruct es0 as [|e2 es0].
      - inversion HF'; subst. exact He.
      - inversion HF' as [|? n2 ? l2]; subst. change (last (e :: e2 :: es0) de) with (last (e2 :: es0) de).
        change (last (n :: n2 :: l2) dn) with (last (n2 :: l2) dn). apply IH; [assumption|discriminate]. }
    assert (Hne : es <> []) by (unfold es; intros Hx; inversion Hx).
    specialize (Hgen es l (e0, e0, IHold) (t0, v0, IHold) HF Hne). unfold tentry, nentry in *.
    destruct (last es (e0, e0, IHold)) as [[te ve] ipe]. destruct (last l (t0, v0, IHold)) as [[tn vn] ipn'].
    unfold eval_entry in Hgen. destruct (eval rho te); [|discriminate]. destruct (eval rho ve) eqn:Eve; [|discriminate].
    inversion Hgen; subst. inversion Elast; subst. reflexivity. }
  assert (HF2 : Forall2 (fun e n => eval_entry rho e = Some n) (es ++ [(dexp, vle, IHold)]) (l ++ [(D, vl, IHold)])).
  { apply Forall2_app; [exact HF|]. constructor; [|constructor]. unfold eval_entry. rewrite ED, Evl. reflexivity. }
  assert (Ev0 : eval rho v0e = Some v0).
  { unfold es, l in HF. inversion HF as [|? ? ? ? He]; subst. unfold eval_entry in He.
    destruct (eval rho t0e); [|discriminate]. destruct (eval rho v0e); [|discriminate]. inversion He; reflexivity. }
  destruct (eval_sequence_integral rho _ _ e0 0 e0 v0e 0 v0 HF2 eq_refl eq_refl Ev0) as (z & Ez & Hz).
  exists z. split; [exact Ez|]. rewrite Hz. rewrite Qplus_0_l. apply seq_int_num_segs.
  cbn [fst]. unfold l in *. cbn [app times_ok]. rewrite H0. cbn [andb].
  cbn [app times_ok] in Hok. apply andb_prop in Hok as (_ & Hok). exact Hok.
Qed.

(* ---- ConstantPT ---- *)
Theorem const_integral rho d v dd vv : eval rho d = Some dd -> eval rho v = Some vv ->
  ev_eq rho (EMul d v) (f_int dd (FSegs [(dd, [vv])] vv)).
Proof.
  intros Ed Ev. exists (dd * vv). cbn [eval]. rewrite Ed, Ev. split; [reflexivity|].
  cbn [f_int fold_right fst snd]. rewrite pint_const. ring.
Qed.

(* ---- FunctionPT with a polynomial expression: sympy.integrate's result (term-wise antiderivative at d) ---- *)
Fixpoint qpow (d : Q) (n : nat) : Q := match n with O => 1 | S m => d * qpow d m end.

Lemma eval_epow rho d dd n : eval rho d = Some dd -> ev_eq rho (epow d n) (qpow dd n).
Proof.
  intros Ed. induction n as [|n (v & Ev & Hv)].
  - exists 1. split; reflexivity.
  - exists (dd * v). cbn [epow eval]. rewrite Ed, Ev. split; [reflexivity|]. cbn [qpow]. rewrite Hv. reflexivity.
Qed.

(* sum_k c_k d^(k+1)/(k+1), starting at exponent offset j *)
Fixpoint poly_int_num (j : nat) (d : Q) (cf : list Q) : Q :=
  match cf with [] => 0 | c :: r => c * qpow d (S j) / inject_Z (Z.of_nat (S j)) + poly_int_num (S j) d r end.

Lemma eval_poly_int rho d dd : eval rho d = Some dd -> forall coef cf j,
  Forall2 (fun e q => eval rho e = Some q) coef cf ->
  ev_eq rho (poly_int_from j d coef) (poly_int_num j dd cf).
Proof.
  intros Ed. induction coef as [|c coef IH]; intros cf j HF.
  - inversion HF; subst. exists 0. split; reflexivity.
  - inversion HF as [|? q ? cf' Ec HF']; subst.
    destruct (IH cf' (S j) HF') as (v & Ev & Hv).
    destruct (eval_epow rho d dd (S j) Ed) as (w & Ew & Hw).
    unfold ev_eq. cbn [poly_int_from eval]. rewrite Ec. cbn [eval] in Ew. rewrite Ew, Ev. cbn [omap2].
    assert (Hnz : Qeq_bool (inject_Z (Z.of_nat (S j))) 0 = false).
    { apply not_true_iff_false. intros H. apply Qeq_bool_iff in H. apply (inject_Z_nonzero (Z.of_nat (S j))); [lia|exact H]. }
    rewrite Hnz. eexists. split; [reflexivity|]. cbn [poly_int_num]. rewrite Hw, Hv. reflexivity.
Qed.

Lemma poly_int_num_pint : forall cf j d,
  poly_int_num j d cf == qpow d (S j) * peval (panti_from (Pos.of_succ_nat j) cf) d.
Proof.
  induction cf as [|c cf IH]; intros j d; cbn [poly_int_num panti_from peval]; [ring|].
  rewrite (IH (S j) d). replace (Pos.of_succ_nat (S j)) with (Pos.succ (Pos.of_succ_nat j)) by reflexivity.
  assert (Hp : inject_Z (Z.of_nat (S j)) == inject_Z (Z.pos (Pos.of_succ_nat j))) by (rewrite Zpos_P_of_succ_nat, <- Nat2Z.inj_succ; reflexivity).
  rewrite Hp. change (qpow d (S (S j))) with (d * qpow d (S j)).
  field. unfold inject_Z. intros H. inversion H.
Qed.

Theorem func_integral rho d dd coef cf : eval rho d = Some dd ->
  Forall2 (fun e q => eval rho e = Some q) coef cf ->
  ev_eq rho (poly_int_from 0 d coef) (f_int dd (FSegs [(dd, cf)] (peval cf dd))).
Proof.
  intros Ed HF. destruct (eval_poly_int rho d dd Ed coef cf 0%nat HF) as (v & Ev & Hv).
  exists v. split; [exact Ev|]. rewrite Hv. rewrite poly_int_num_pint.
  cbn [f_int fold_right fst snd]. unfold pint, panti. cbn [peval qpow]. change (Pos.of_succ_nat 0) with 1%positive. ring.
Qed.

(* ---- pad_to: the padded template denotes the original pulse followed by one constant piece holding final_values ---- *)
Theorem pad_to_denote p rho pcs d' dd vs :
  denote p rho = Some pcs ->
  eval rho (ESub d' (duration_expr p)) = Some dd -> Qle_bool dd 0 = false ->
  opt_all (map (fun kv => option_map (fun q => (fst kv, q)) (eval rho (snd kv))) (final_expr p)) = Some vs ->
  denote (pad_to p d') rho = Some (pcs ++ [(dd, map (fun kv => (fst kv, FSegs [(dd, [snd kv])] (snd kv))) vs)]).
Proof.
  intros Hd Ed Hpos Hv. unfold pad_to.
  change (denote (Seq [p; Const (ESub d' (duration_expr p)) (final_expr p)]) rho)
    with (match denote p rho, (match denote (Const (ESub d' (duration_expr p)) (final_expr p)) rho, Some (@nil piece) with
                               | Some a, Some b => Some (a ++ b) | _, _ => None end) with
          | Some a, Some b => Some (a ++ b) | _, _ => None end).
  rewrite Hd. cbn [denote]. rewrite Ed, Hv, Hpos. rewrite app_nil_r. reflexivity.
Qed.

(* the padded pulse ends on exactly the evaluated final value, and its integral grows by value * pad *)
Corollary pad_to_end p rho pcs d' dd vs c v :
  denote p rho = Some pcs ->
  eval rho (ESub d' (duration_expr p)) = Some dd -> Qle_bool dd 0 = false ->
  opt_all (map (fun kv => option_map (fun q => (fst kv, q)) (eval rho (snd kv))) (final_expr p)) = Some vs ->
  dget c vs = Some v ->
  exists ppcs, denote (pad_to p d') rho = Some ppcs /\ p_end ppcs c = Some v.
Proof.
  intros Hd Ed Hpos Hv Hc. eexists. split; [eapply pad_to_denote; eassumption|].
  unfold p_end. rewrite rev_app_distr. cbn [rev app snd].
  assert (Hg : forall l, dget c l = Some v ->
                 dget c (map (fun kv : chan * Q => (fst kv, FSegs [(dd, [snd kv])] (snd kv))) l) = Some (FSegs [(dd, [v])] v)).
  { induction l as [|[k w] l IH]; cbn [dget map fst snd]; [discriminate|]. destruct (N.eqb k c); [intros H; inversion H; reflexivity|exact IH]. }
  rewrite (Hg vs Hc). reflexivity.
Qed.

