(* C07 — proofs, part 15: THE INITIAL-VALUE THEOREM under the guard of finding `initial-head-empty-or-jump`. *)
From Coq Require Import ZArith QArith Qround List Bool Lia Lra Lqa.
Require Import QV.C07.Model QV.C07.Spec QV.C07.Wf QV.C07.ProofsRange QV.C07.ProofsLoop QV.C07.ProofsAtoms
               QV.C07.ProofsExpr QV.C07.ProofsPt QV.C07.ProofsDict QV.C07.ProofsSum QV.C07.ProofsKeysQ QV.C07.ProofsKeysD
               QV.C07.ProofsDur QV.C07.ProofsObs QV.C07.ProofsIntAtoms QV.C07.ProofsInt QV.C07.ProofsEnds.
Import ListNotations.
Open Scope Q_scope.

Definition ini_ok (p : pt) : Prop := forall rho pcs c e x v,
  wf p = true -> guard_C07_initial_head p rho = true -> denote p rho = Some pcs ->
  dget c (quant QInitial p) = Some e -> p_at0 pcs c = Some x -> eval rho e = Some v -> v == x.

(* named guard fixpoints *)
Definition gpoint_go (rho : env) (D : Q) (ents : list pentry) : nat -> list chan -> bool :=
  fix go (k : nat) (l : list chan) : bool :=
    match l with [] => true | _ :: r => table_head_ok rho D (point_es k ents) && go (S k) r end.
Lemma ginit_Point cs ents rho :
  guard_C07_initial_head (Point cs ents) rho =
  match denote (Point cs ents) rho with Some [pc] => gpoint_go rho (fst pc) ents 0 cs | _ => true end.
Proof. reflexivity. Qed.
Definition gmulti_ini (rho : env) : list pt -> bool :=
  fix go (l : list pt) : bool := match l with [] => true | q :: r => guard_C07_initial_head q rho && go r end.
Lemma ginit_Multi ps rho : guard_C07_initial_head (Multi ps) rho = gmulti_ini rho ps.
Proof. reflexivity. Qed.
Lemma gmulti_ini_Forall rho l : gmulti_ini rho l = true -> Forall (fun q => guard_C07_initial_head q rho = true) l.
Proof. induction l as [|q r IH]; intros H; constructor; cbn [gmulti_ini] in H; apply andb_prop in H as (H1 & H2); auto. Qed.

Lemma p_at0_single d fs c : p_at0 [(d, fs)] c = option_map f_at0 (dget c fs).
Proof. reflexivity. Qed.

Lemma dget_ini_Table c chs :
  dget c (quant QInitial (Table chs)) = option_map (fun es : list tentry => match es with [] => e0 | (_, v0, _) :: _ => v0 end) (dget c chs).
Proof.
  assert (H : quant QInitial (Table chs) = map (fun kv => (fst kv, (fun (_ : chan) (es : list tentry) => match es with [] => e0 | (_, v0, _) :: _ => v0 end) (fst kv) (snd kv))) chs).
  { cbn [quant]. apply map_ext. intros [k es]. cbn [fst snd]. destruct es as [|[[t0 v0] ip0] es']; reflexivity. }
  rewrite H. apply (dget_map_val (fun (_ : chan) (es : list tentry) => match es with [] => e0 | (_, v0, _) :: _ => v0 end)).
Qed.

Lemma ini_Table chs : ini_ok (Table chs).
Proof.
  intros rho pcs c e x v Hwf Hg Hd Hc Hx Hv. cbn [wf] in Hwf. apply andb_prop in Hwf as (_ & Hne).
  rewrite dget_ini_Table in Hc. destruct (dget c chs) as [es|] eqn:Ees; [|discriminate]. inversion Hc; subst e; clear Hc.
  cbn [guard_C07_initial_head] in Hg. rewrite Hd in Hg.
  cbn [denote] in Hd.
  destruct (opt_all (map (fun ch => option_map (fun l => (fst ch, l)) (opt_all (map (eval_entry rho) (snd ch)))) chs)) as [nchs|] eqn:E1; [|discriminate].
  cbv zeta in Hd.
  destruct (opt_all (map (fun ch => option_map (fun f => (fst ch, f)) (table_chfun _ (snd ch))) nchs)) as [fs|] eqn:E2; [|discriminate].
  set (D := qmax_list (map (fun ch : chan * list nentry => fst (last_tv (snd ch) (0, 0))) nchs)) in *.
  pose proof (opt_all_dget (fun x => opt_all (map (eval_entry rho) (snd x))) (fun _ l => l) c chs nchs E1) as G1.
  rewrite Ees in G1. destruct G1 as (l & El & Gl). cbn [snd] in El.
  pose proof (opt_all_dget (fun x => table_chfun D (snd x)) (fun _ f => f) c nchs fs E2) as G2.
  rewrite Gl in G2. destruct G2 as (f & Ef & Gf). cbn [snd] in Ef.
  destruct (Qle_bool D 0); inversion Hd; subst pcs; [discriminate|].
  rewrite p_at0_single, Gf in Hx. inversion Hx; subst x. cbn [fst] in Hg.
  rewrite forallb_forall in Hg. specialize (Hg (c, es) (dget_In _ _ _ Ees)). cbn [snd] in Hg.
  destruct (table_chfun_at0 rho D es l f El Ef Hg) as (t0 & v0 & ip0 & l' & -> & Hat0). rewrite Hat0.
  apply opt_all_map_Forall2 in El. destruct es as [|[[t0e v0e] ipe] es']; [inversion El|].
  destruct (entries_first_last rho t0e v0e ipe es' _ El) as (t0' & v0' & l'' & Hl & _ & Ev0 & _). inversion Hl; subst.
  rewrite Ev0 in Hv. inversion Hv. reflexivity.
Qed.

Lemma point_lookup_ini rho ents v0 D c : forall cs k fs e,
  opt_all (den_point_go rho ents D k cs) = Some fs -> dget c (point_q QInitial ents v0 k cs) = Some e ->
  gpoint_go rho D ents k cs = true ->
  exists j lj f, e = pval_at j v0 /\ point_entries rho ents j = Some lj /\ table_chfun D lj = Some f /\ dget c fs = Some f /\
                 table_head_ok rho D (point_es j ents) = true.
Proof.
  induction cs as [|c1 cs IH]; intros k fs e Hfs Hc Hg; [discriminate|].
  rewrite den_point_go_cons in Hfs. cbn [opt_all] in Hfs.
  destruct (point_entries rho ents k) as [lk|] eqn:Ek; [|discriminate].
  destruct (table_chfun D lk) as [f|] eqn:Ef; [|discriminate]. cbn [option_map] in Hfs.
  destruct (opt_all (den_point_go rho ents D (S k) cs)) as [r|] eqn:Er; [|discriminate]. inversion Hfs; subst fs.
  cbn [gpoint_go] in Hg. apply andb_prop in Hg as (Hg1 & Hg2).
  cbn [point_q dget] in Hc |- *. destruct (N.eqb c1 c) eqn:E.
  - inversion Hc; subst e. exists k, lk, f. repeat split; assumption.
  - destruct (IH (S k) r e Er Hc Hg2) as (j & lj & f' & H1 & H2 & H3 & H4 & H5). exists j, lj, f'. repeat split; assumption.
Qed.

Lemma Forall2_opt_all {A B} (f : A -> option B) l r : Forall2 (fun a b => f a = Some b) l r -> opt_all (map f l) = Some r.
Proof. induction 1 as [|a b l r Hab H IH]; [reflexivity|]. cbn [map opt_all]. rewrite Hab, IH. reflexivity. Qed.

Lemma ini_Point cs ents : ini_ok (Point cs ents).
Proof.
  intros rho pcs c e x v Hwf Hg Hd Hc Hx Hv. cbn [wf] in Hwf. apply andb_prop in Hwf as (_ & Hwf).
  destruct ents as [|[[t0 v0] ip0] ents']; [cbv iota in Hwf; discriminate Hwf|].
  rewrite ginit_Point, Hd in Hg.
  rewrite denote_Point in Hd. revert Hd. match goal with |- match ?z with _ => _ end = _ -> _ => destruct z as [l0|] eqn:E0 end; [|discriminate]. cbv zeta.
  match goal with |- match ?z with _ => _ end = _ -> _ => destruct z as [fs|] eqn:Efs end; [|discriminate].
  intros Hd. set (D := fst (last_tv l0 (0, 0))) in *.
  destruct (Qle_bool D 0); inversion Hd; subst pcs; [discriminate|]. cbn [fst] in Hg.
  rewrite quant_Point in Hc.
  destruct (point_lookup_ini rho _ v0 D c cs 0%nat fs e Efs Hc Hg) as (j & lj & f & -> & Ej & Ef & Gf & Hgj).
  rewrite p_at0_single, Gf in Hx. inversion Hx; subst x.
  pose proof (point_entries_F2 _ _ _ _ Ej) as HF.
  pose proof (Forall2_opt_all _ _ _ HF) as El.
  destruct (table_chfun_at0 rho D _ lj f El Ef Hgj) as (t0' & v0' & ip0' & l' & -> & Hat0). rewrite Hat0.
  cbn [point_es map] in HF.
  destruct (entries_first_last rho t0 (pval_at j v0) ip0 _ _ HF) as (t0'' & v0'' & l'' & Hl & _ & Ev0 & _). inversion Hl; subst.
  rewrite Ev0 in Hv. inversion Hv. reflexivity.
Qed.

Lemma ini_Const d vals : ini_ok (Const d vals).
Proof.
  intros rho pcs c e x v Hwf Hg Hd Hc Hx Hv. cbn [quant] in Hc. cbn [denote] in Hd.
  destruct (eval rho d) as [dd|]; [|discriminate]. destruct (Qle_bool dd 0).
  - destruct (Qle_bool 0 dd); inversion Hd; subst; discriminate.
  - destruct (opt_all (map (fun kv => option_map (fun q => (fst kv, q)) (eval rho (snd kv))) vals)) as [vs|] eqn:Evs; [|discriminate].
    inversion Hd; subst pcs.
    pose proof (opt_all_dget (fun z => eval rho (snd z)) (fun _ q => q) c vals vs Evs) as G. rewrite Hc in G.
    destruct G as (y & Ey & Gy). cbn [snd] in Ey. rewrite Hv in Ey. inversion Ey; subst y.
    rewrite p_at0_single, (dget_map_val (fun _ q => FSegs [(dd, [q])] q)), Gy in Hx. inversion Hx; subst x. cbn. ring.
Qed.

Lemma let_env_one rho y e1 : let_env rho [(y, e1)] = env_upd rho y (eval rho e1).
Proof. reflexivity. Qed.

Lemma ini_Func c0 d coef : ini_ok (Func c0 d coef).
Proof.
  intros rho pcs c e x v Hwf Hg Hd Hc Hx Hv. cbn [wf] in Hwf. apply andb_prop in Hwf as (_ & Hnt).
  cbn [quant dget] in Hc. destruct (N.eqb c0 c) eqn:E; [|discriminate]. inversion Hc; subst e.
  cbn [denote] in Hd. destruct (eval rho d) as [dd|] eqn:Ed; [|discriminate].
  destruct (opt_all (map (eval rho) coef)) as [cf|] eqn:Ecf; [|discriminate]. destruct (Qle_bool dd 0); [discriminate|].
  inversion Hd; subst pcs. rewrite p_at0_single in Hx. cbn [dget] in Hx. rewrite E in Hx. inversion Hx; subst x.
  rewrite eval_ELet, let_env_one in Hv. change (eval rho e0) with (Some 0) in Hv.
  destruct (eval_poly_expr rho 0 coef cf (opt_all_Forall2 _ _ _ Ecf) Hnt) as (w & Ew & Hw). rewrite Ew in Hv. inversion Hv; subst w.
  rewrite Hw. cbn [f_at0 snd]. reflexivity.
Qed.

Lemma ini_Seq ps : Forall ini_ok ps -> ini_ok (Seq ps).
Proof.
  intros HI rho pcs c e x v Hwf Hg Hd Hc Hx Hv. destruct ps as [|q r]; [cbn in Hc; discriminate|].
  rewrite wf_Seq in Hwf. apply andb_prop in Hwf as (_ & Hwf). rewrite wf_seq_cons in Hwf. apply andb_prop in Hwf as (Hwf & _).
  apply andb_prop in Hwf as (Hw & _). cbn [guard_C07_initial_head] in Hg. apply andb_prop in Hg as (Hne & Hg).
  rewrite denote_Seq, den_seq_cons in Hd. destruct (denote q rho) as [a|] eqn:Ea; [|discriminate].
  destruct (den_seq rho r) as [b|]; [|discriminate]. inversion Hd; subst pcs.
  rewrite p_at0_app in Hx by (destruct a; [discriminate|discriminate]).
  inversion HI as [|? ? Hq _]; subst. exact (Hq rho a c e x v Hw Hg Ea Hc Hx Hv).
Qed.

Lemma repeat_nil m : repeat_pulse m [] = [].
Proof. induction m; [reflexivity|exact IHm]. Qed.

Lemma ini_Rep n b : ini_ok b -> ini_ok (Rep n b).
Proof.
  intros HI rho pcs c e x v Hwf Hg Hd Hc Hx Hv. cbn [wf] in Hwf. apply andb_prop in Hwf as (_ & Hwf).
  cbn [guard_C07_initial_head] in Hg. cbn [quant] in Hc. cbn [denote] in Hd.
  destruct (as_int (eval rho n)) as [k|]; [|discriminate]. destruct (k =? 0)%Z eqn:E0; [inversion Hd; subst; discriminate|].
  destruct (denote b rho) as [pb|] eqn:Eb; [|discriminate]. destruct ((k <? 0)%Z || (RANGE_LIMIT <? k)%Z) eqn:El; [discriminate|].
  inversion Hd; subst pcs. destruct (Z.to_nat k) as [|m] eqn:Ek; [lia|]. cbn [repeat_pulse] in Hx.
  destruct pb as [|pc pb]; [rewrite repeat_nil in Hx; discriminate|].
  rewrite p_at0_app in Hx by discriminate. exact (HI rho _ c e x v Hwf Hg Eb Hc Hx Hv).
Qed.

Lemma ini_For i a o s b : ini_ok b -> ini_ok (For i a o s b).
Proof.
  intros HI rho pcs c e x v Hwf Hg Hd Hc Hx Hv. cbn [wf] in Hwf. apply andb_prop in Hwf as (_ & Hwf).
  cbn [quant] in Hc. rewrite dget_dmap in Hc. destruct (dget c (quant QInitial b)) as [eb|] eqn:Eeb; [|discriminate].
  inversion Hc; subst e. clear Hc.
  cbn [guard_C07_initial_head] in Hg. unfold for_range in Hg.
  rewrite denote_For in Hd. destruct (as_int (eval rho a)) as [za|] eqn:Ea; [|discriminate].
  destruct (as_int (eval rho o)) as [zo|] eqn:Eo; [|discriminate]. destruct (as_int (eval rho s)) as [zs|] eqn:Es; [|discriminate].
  destruct (py_range za zo zs) as [ks|] eqn:Er; [|discriminate].
  destruct ks as [|k0 ks]; [inversion Hd; subst; discriminate|]. apply andb_prop in Hg as (Hne & Hg).
  rewrite den_for_cons in Hd. destruct (denote b (env_upd rho i (Some (inject_Z k0)))) as [xs|] eqn:Ex; [|discriminate].
  destruct (den_for b i rho ks) as [ys|]; [|discriminate]. inversion Hd; subst pcs.
  rewrite p_at0_app in Hx by (destruct xs; [discriminate|discriminate]).
  destruct (py_range_spec _ _ _ _ Er) as (_ & _ & Hnth). destruct (Hnth 0%nat ltac:(cbn; lia)) as (H0 & _). cbn [nth] in H0.
  assert (Hk0 : k0 = za) by (rewrite H0; cbn; ring). clear H0 Hnth. subst k0.
  destruct (as_int_val _ _ _ Ea) as (qa & Eqa & Hqa).
  destruct (eval_subst_index rho i a eb qa za v Eqa Hqa Hv) as (w & Ew & Hw). rewrite Hw.
  exact (HI _ xs c eb x w Hwf Hg Ex Eeb Hx Ew).
Qed.

Lemma ini_Map b pm cm : ini_ok b -> ini_ok (Map b pm cm).
Proof.
  intros HI rho pcs c' e x v Hwf Hg Hd Hc Hx Hv. pose proof (wf_nodup _ Hwf) as Hnd. rewrite channels_Map in Hnd.
  cbn [wf] in Hwf. apply andb_prop in Hwf as (_ & Hwf). cbn [guard_C07_initial_head] in Hg.
  cbn [quant] in Hc. rewrite map_dict_rename in Hc.
  destruct (map_lookup _ (ELet pm) cm _ (channels b) c' e (quant_keys b QInitial Hwf) (wf_nodup _ Hwf) Hnd Hc)
    as (c & eb & Ht & Hin & Eeb & -> & Hu).
  rewrite denote_Map in Hd. destruct (denote b (map_env rho pm)) as [pb|] eqn:Eb; [|discriminate]. inversion Hd; subst pcs.
  rewrite eval_ELet, <- map_env_let_env in Hv.
  apply (HI _ pb c eb x v Hwf Hg Eb Eeb); [|exact Hv]. rewrite <- Hx. apply p_at0_congr. apply Forall2_map_r. intros pc Hpc.
  split; [reflexivity|]. pose proof (piece_keys b _ _ Hwf Eb) as HK. rewrite Forall_forall in HK. symmetry.
  apply (piece_rename_dget cm pc (channels b) c c' (HK pc Hpc) Hin Ht Hu).
Qed.

Lemma ini_ok_single s rho pc c e f : ini_ok s -> wf s = true -> guard_C07_initial_head s rho = true -> denote s rho = Some [pc] ->
  dget c (quant QInitial s) = Some e -> dget c (snd pc) = Some f -> okL L_at0 rho e (fst pc) f.
Proof.
  intros HI Hw Hg Hd He Hf v Hv. apply (HI rho [pc] c e (f_at0 f) v Hw Hg Hd He); [|exact Hv].
  cbn [p_at0]. rewrite Hf. reflexivity.
Qed.

Lemma ini_Multi ps : Forall ini_ok ps -> ini_ok (Multi ps).
Proof.
  intros HI rho pcs c e x v Hwf Hg Hd Hc Hx Hv. rewrite wf_Multi in Hwf. apply andb_prop in Hwf as (Hnd & Hwf).
  pose proof (wf_multi_Forall _ Hwf) as HW. rewrite ginit_Multi in Hg. pose proof (gmulti_ini_Forall _ _ Hg) as HG.
  rewrite denote_Multi in Hd. rewrite quant_Multi in Hc.
  destruct ps as [|q r]; [discriminate|]. destruct (den_multi_first _ _ _ _ Hd) as (pc0 & d0 & _ & ->).
  assert (HR : Forall (fun s => forall pc c e f, denote s rho = Some [pc] -> dget c (quant QInitial s) = Some e ->
                                 dget c (snd pc) = Some f -> okL L_at0 rho e (fst pc) f) (q :: r)).
  { rewrite Forall_forall in *. intros s Hs pc c1 e1 f1 H1 H2 H3. eapply ini_ok_single; eauto. }
  pose proof (multi_rule L_at0 rho QInitial (q :: r) [] _ c e Hd HW Hnd HR Hc) as HM. cbn [fst snd] in HM.
  rewrite p_at0_single in Hx. destruct (dget c d0) as [f|] eqn:Ef; [|discriminate]. inversion Hx; subst x.
  exact (HM v Hv).
Qed.

Lemma ini_AAtom l op r : ini_ok l -> ini_ok r -> ini_ok (AAtom l op r).
Proof.
  intros HIl HIr rho pcs c e x v Hwf Hg Hd Hc Hx Hv. cbn [wf] in Hwf. apply andb_prop in Hwf as (_ & Hwf). apply andb_prop in Hwf as (Hw1 & Hw2).
  cbn [guard_C07_initial_head] in Hg. apply andb_prop in Hg as (Hg1 & Hg2).
  cbn [denote] in Hd. destruct (denote l rho) as [[|pl [|? ?]]|] eqn:E1; try discriminate.
  destruct (denote r rho) as [[|pr [|? ?]]|] eqn:E2; try discriminate.
  destruct (merge_atomic op pl pr) as [pc|] eqn:Em; [|discriminate]. inversion Hd; subst pcs. cbn [quant] in Hc.
  destruct (quant_keys l QInitial Hw1) as (Ql1 & Ql2). destruct (quant_keys r QInitial Hw2) as (Qr1 & Qr2).
  pose proof (piece_keys l rho _ Hw1 E1) as HKl. inversion HKl as [|? ? (Pl1 & Pl2) _]; subst.
  pose proof (piece_keys r rho _ Hw2 E2) as HKr. inversion HKr as [|? ? (Pr1 & Pr2) _]; subst.
  destruct (aatom_rule L_at0 rho op (quant QInitial l) (quant QInitial r) pl pr pc c e Em Qr1 Pr1) as (f & Ef & Hok).
  - intros c1. rewrite Ql2, Pl2. reflexivity.
  - intros c1. rewrite Qr2, Pr2. reflexivity.
  - intros c1 e1 f1 H1 H2. exact (ini_ok_single l rho pl c1 e1 f1 HIl Hw1 Hg1 E1 H1 H2).
  - intros c1 e1 f1 H1 H2. exact (ini_ok_single r rho pr c1 e1 f1 HIr Hw2 Hg2 E2 H1 H2).
  - exact Hc.
  - destruct pc as [dpc fpc]. rewrite p_at0_single in Hx. cbn [snd] in Ef. rewrite Ef in Hx. inversion Hx; subst x. exact (Hok v Hv).
Qed.

Lemma par_piece_dget c (ovs : list (chan * list Q)) (pc : piece) : nodupb (dkeys ovs) = true ->
  dget c (dupdate (snd pc) (map (fun kv : chan * list Q => (fst kv, FSegs [(fst pc, snd kv)] (peval (snd kv) (fst pc)))) ovs))
  = match dget c ovs with Some cf => Some (FSegs [(fst pc, cf)] (peval cf (fst pc))) | None => dget c (snd pc) end.
Proof.
  intros Hn. rewrite dget_dupdate by (rewrite dkeys_map_fst; exact Hn).
  rewrite (dget_map_val (fun _ cf => FSegs [(fst pc, cf)] (peval cf (fst pc)))). destruct (dget c ovs); reflexivity.
Qed.

Lemma ini_Par b ov : ini_ok b -> ini_ok (Par b ov).
Proof.
  intros HI rho pcs c e x v Hwf Hg Hd Hc Hx Hv. cbn [wf] in Hwf. apply andb_prop in Hwf as (_ & Hwf). apply andb_prop in Hwf as (Hwf & Hat).
  apply andb_prop in Hwf as (Hwf & Hnt). apply andb_prop in Hwf as (Hwf & Hno). cbn [guard_C07_initial_head] in Hg.
  cbn [denote] in Hd. destruct (denote b rho) as [pb|] eqn:Eb; [|discriminate].
  destruct (opt_all (map (fun kv => option_map (fun cf => (fst kv, cf)) (opt_all (map (eval rho) (snd kv)))) ov)) as [ovs|] eqn:Eo; [|discriminate].
  inversion Hd; subst pcs. clear Hd.
  pose proof (opt_all_dget (fun z => opt_all (map (eval rho) (snd z))) (fun _ cf => cf) c ov ovs Eo) as G.
  pose proof (opt_all_keys _ _ _ _ _ Eo) as Hk.
  assert (Hnos : nodupb (dkeys ovs) = true) by (unfold dkeys; rewrite Hk; exact Hno).
  cbn [quant] in Hc. rewrite dget_dupdate in Hc by (rewrite dkeys_map_fst; exact Hno).
  rewrite (dget_map_val (fun _ cf => if timedep cf then ELet [(tvar, e0)] (poly_expr cf) else poly_expr cf)) in Hc.
  destruct pb as [|pc pb]; [discriminate|]. cbn [map p_at0 fst snd] in Hx. rewrite par_piece_dget in Hx by exact Hnos.
  destruct (dget c ov) as [cfe|] eqn:Eov.
  - destruct G as (cf & Ecf & Gcf). cbn [snd] in Ecf. cbn [option_map] in Hc. inversion Hc; subst e. clear Hc.
    rewrite Gcf in Hx. cbn [option_map f_at0 snd] in Hx. inversion Hx; subst x.
    pose proof (opt_all_Forall2 _ _ _ Ecf) as HF.
    assert (Hntc : no_t cfe = true).
    { rewrite forallb_forall in Hnt. apply (Hnt (c, cfe)). apply dget_In. exact Eov. }
    destruct (timedep cfe) eqn:Etd.
    + rewrite eval_ELet, let_env_one in Hv. change (eval rho e0) with (Some 0) in Hv.
      destruct (eval_poly_expr rho 0 cfe cf HF Hntc) as (w & Ew & Hw). rewrite Ew in Hv. inversion Hv; subst w. exact Hw.
    + destruct (eval_poly_expr_const rho cfe cf HF Etd 0) as (w & Ew & Hw). rewrite Ew in Hv. inversion Hv; subst w. exact Hw.
  - rewrite G in Hx. cbn [option_map] in Hc. apply (HI rho (pc :: pb) c e x v Hwf Hg Eb Hc); [|exact Hv]. exact Hx.
Qed.

Lemma ini_ArithL b op s : ini_ok b -> ini_ok (ArithL b op s).
Proof.
  intros HI rho pcs c e x v Hwf Hg Hd Hc Hx Hv. cbn [wf] in Hwf. apply andb_prop in Hwf as (_ & Hwf). apply andb_prop in Hwf as (Hwf & Hs).
  cbn [guard_C07_initial_head] in Hg.
  cbn [denote] in Hd. destruct (denote b rho) as [pb|] eqn:Eb; [|discriminate].
  destruct (scalar_eval rho s (channels b)) as [sv|] eqn:Esv; [|discriminate]. apply opt_all_map_Forall2 in Hd.
  destruct (scalar_dict_keys s (channels b) (wf_nodup _ Hwf) Hs) as (S1 & S2).
  destruct (quant_keys b QInitial Hwf) as (K1 & K2).
  pose proof (scalar_eval_dget rho s (channels b) sv c Esv) as Gs.
  assert (Hq : quant QInitial (ArithL b op s) = apply_op_dict op (quant QInitial b) (scalar_as_dict s (channels b))) by reflexivity.
  rewrite Hq in Hc. clear Hq. rewrite dget_apply_op_dict in Hc by exact S1.
  destruct (dget c (quant QInitial b)) as [ea|] eqn:Eea.
  - destruct (arithL_plain rho op _ sv c ea e v Gs Hc Hv) as (va & a' & b' & Eva & Haff & Hvv).
    destruct (p_at0_aff pb pcs c a' b' x (aff_pieces true op sv c a' b' pb pcs Hd Haff) Hx) as (X & EX & HX).
    rewrite Hvv, HX, (HI rho pb c ea X va Hwf Hg Eb Eea EX Eva). reflexivity.
  - exfalso. destruct (dget c (scalar_as_dict s (channels b))) as [es'|] eqn:Es'; [|discriminate].
    assert (Hm : dmem c (scalar_as_dict s (channels b)) = true) by (unfold dmem; rewrite Es'; reflexivity).
    pose proof (S2 c Hm) as Hmc. rewrite <- K2 in Hmc. unfold dmem in Hmc. rewrite Eea in Hmc. discriminate.
Qed.

Lemma ini_ArithR s op b : ini_ok b -> ini_ok (ArithR s op b).
Proof.
  intros HI rho pcs c e x v Hwf Hg Hd Hc Hx Hv. cbn [wf] in Hwf. apply andb_prop in Hwf as (_ & Hwf). apply andb_prop in Hwf as (Hwf & Hnd).
  apply andb_prop in Hwf as (Hwf & Hs). cbn [guard_C07_initial_head] in Hg.
  cbn [denote] in Hd. destruct (denote b rho) as [pb|] eqn:Eb; [|discriminate].
  destruct (scalar_eval rho s (channels b)) as [sv|] eqn:Esv; [|discriminate]. apply opt_all_map_Forall2 in Hd.
  destruct (scalar_dict_keys s (channels b) (wf_nodup _ Hwf) Hs) as (S1 & S2).
  destruct (quant_keys b QInitial Hwf) as (K1 & K2).
  pose proof (scalar_eval_dget rho s (channels b) sv c Esv) as Gs.
  assert (Hq : quant QInitial (ArithR s op b) = apply_op_dict op (scalar_as_dict s (channels b)) (quant QInitial b)) by reflexivity.
  rewrite Hq in Hc. clear Hq. rewrite dget_apply_op_dict in Hc by exact K1.
  destruct (dget c (quant QInitial b)) as [ea|] eqn:Eea.
  - destruct (arithR_plain rho op _ sv c ea e v Hnd Gs Hc Hv) as (va & a' & b' & Eva & Haff & Hvv).
    destruct (p_at0_aff pb pcs c a' b' x (aff_pieces false op sv c a' b' pb pcs Hd Haff) Hx) as (X & EX & HX).
    rewrite Hvv, HX, (HI rho pb c ea X va Hwf Hg Eb Eea EX Eva). reflexivity.
  - exfalso. destruct (dget c (scalar_as_dict s (channels b))) as [es'|] eqn:Es'; [|discriminate].
    assert (Hm : dmem c (scalar_as_dict s (channels b)) = true) by (unfold dmem; rewrite Es'; reflexivity).
    pose proof (S2 c Hm) as Hmc. rewrite <- K2 in Hmc. unfold dmem in Hmc. rewrite Eea in Hmc. discriminate.
Qed.

Theorem initial_correct : forall p rho pcs c e x v,
  wf p = true -> guard_C07_initial_head p rho = true -> denote p rho = Some pcs ->
  dget c (quant QInitial p) = Some e -> p_at0 pcs c = Some x -> eval rho e = Some v -> v == x.
Proof.
  intros p. change (ini_ok p). induction p using pt_ind'.
  - apply ini_Table. - apply ini_Point. - apply ini_Const. - apply ini_Func.
  - apply ini_Seq; assumption. - apply ini_Rep; assumption. - apply ini_For; assumption. - apply ini_Map; assumption.
  - apply ini_Multi; assumption. - apply ini_Par; assumption. - apply ini_ArithL; assumption.
  - apply ini_ArithR; assumption. - apply ini_AAtom; assumption.
Qed.
Print Assumptions initial_correct.
