(* C07 — proofs, round 4: Hist.hquery follows the discipline table Disc.hist_disc, and the table read off the Python
   source (GenDisc.src_disc, regenerated on every run) never shares a dictionary object where hist_disc creates one. *)
From Coq Require Import ZArith QArith List Bool Lia.
Require Import QV.C07.Model QV.C07.Hist QV.C07.Disc QV.C07.GenDisc.
Import ListNotations.

(* the shape of one query, by discipline *)
Definition follows (d : disc) (q : quantity) (p : pt) (h : heap) : Prop :=
  match d with
  | DNew => exists h' dct, hquery q p h = halloc h' dct
  | DThrough => (exists c, In c (children p) /\ hquery q p h = hquery q c h) \/ (children p = [] /\ hquery q p h = halloc h [])
  | DInPlace => exists c f, In c (children p) /\ hquery q p h = hmod f (hquery q c h)
  end.

Lemma seq_final_through ps : forall h,
  (exists c, In c ps /\
     (fix go (l : list pt) (h : heap) : nat * heap :=
        match l with [] => halloc h [] | [s] => hquery QFinal s h | _ :: r => go r h end) ps h = hquery QFinal c h)
  \/ ps = [].
Proof.
  induction ps as [|s r IH]; intros h; [right; reflexivity|left].
  destruct r as [|s2 r2].
  - exists s. split; [left; reflexivity|reflexivity].
  - destruct (IH h) as [[c [Hin Heq]]|Hnil]; [|discriminate].
    exists c. split; [right; exact Hin|exact Heq].
Qed.

Theorem hquery_discipline : forall q p h, follows (hist_disc (cls_of p) q) q p h.
Proof.
  intros q p h. destruct p; destruct q; cbn [cls_of hist_disc follows children];
    try (eexists; eexists; cbn [hquery]; unfold hnew; reflexivity).
  - (* Seq initial *)
    destruct ps as [|s r]; [right; split; reflexivity|left].
    exists s. split; [left; reflexivity|reflexivity].
  - (* Seq final *)
    destruct (seq_final_through ps h) as [[c [Hin Heq]]|Hnil].
    + left. exists c. split; [exact Hin|exact Heq].
    + subst ps. right. split; reflexivity.
  - left. exists p. split; [left; reflexivity|reflexivity].
  - left. exists p. split; [left; reflexivity|reflexivity].
  - eexists p, _. split; [left; reflexivity|reflexivity].
  - eexists p, _. split; [left; reflexivity|reflexivity].
  - eexists p, _. split; [left; reflexivity|reflexivity].
  - eexists p, _. split; [left; reflexivity|reflexivity].
  - eexists p, _. split; [left; reflexivity|reflexivity].
Qed.

Theorem source_table_le : table_le src_disc hist_disc = true.
Proof. vm_compute. reflexivity. Qed.

Lemma table_le_spec src model : table_le src model = true -> forall k q, disc_le (src k q) (model k q) = true.
Proof.
  unfold table_le. intros H k q. rewrite forallb_forall in H.
  assert (Hk : In k all_cls) by (destruct k; cbn; tauto).
  specialize (H k Hk). rewrite forallb_forall in H. apply H. destruct q; cbn; tauto.
Qed.

(* where the source hands an object through / rewrites it in place, hquery does exactly that; everywhere else hquery's
   answer is at least as shared as the source's (the source returns a dictionary of its own) *)
Theorem hquery_follows_source : forall q p h,
  match src_disc (cls_of p) q with
  | DNew => True
  | d => follows d q p h
  end.
Proof.
  intros q p h. pose proof (table_le_spec _ _ source_table_le (cls_of p) q) as Hle.
  pose proof (hquery_discipline q p h) as Hd.
  destruct (src_disc (cls_of p) q), (hist_disc (cls_of p) q); cbn in Hle; try discriminate; auto.
Qed.

(* non-vacuity: both sharing disciplines occur in the source table *)
Example source_shares : src_disc KFor QInitial = DInPlace /\ src_disc KSeq QFinal = DThrough /\ src_disc KConst QInitial = DNew.
Proof. repeat split; reflexivity. Qed.
