(* C07 — correspondence cases.  A case = a template, a parameter assignment, and what the REAL code produced:
   (a) the three symbolic dictionaries + duration evaluated exactly at the parameters,
   (b) the really instantiated program (create_program), integrated/sampled by the harness leaf by leaf,
   (c) the program of `pad_to(total + pad)` sampled in the padded region.
   check_corr: the mirrored expressions of Model.v evaluate to (a), and the denotation of Spec.v reproduces (b), (c).
   check_spec: the property itself on the implementation's observations: (a) agrees with (b)/(c). *)
From Coq Require Import ZArith QArith Qround List Bool.
Require Import QV.common.Util QV.C07.Model QV.C07.Spec QV.C07.Wf QV.C07.Embed.
Import ListNotations.
Open Scope Q_scope.

(* ArithmeticPT with a TIME DEPENDENT scalar operand (polynomial in t per channel, coefficient lists), operators + and -,
   over an atomic template: `pt op s(t)` plays pt op s(t) through an offset transformation with waveform-local time, and
   initial_values / final_values / integral are pt's values op s(0) / s(duration) / the integral of s.  This is exactly
   the model's pulse-with-pulse arithmetic with a polynomial FunctionPT of the template's duration on each scalar channel,
   so such templates are embedded (no new class; all theorems of Props.v apply).  `*` and `/` are not embeddable. *)
Definition scalar_funcs (inner : pt) (cfs : list (chan * list expr)) : pt :=
  Multi (map (fun kv => Func (fst kv) (duration_expr inner) (snd kv)) cfs).
Definition arith_tl (inner : pt) (op : aop) (cfs : list (chan * list expr)) : pt := AAtom inner op (scalar_funcs inner cfs).
Definition arith_tr (cfs : list (chan * list expr)) (op : aop) (inner : pt) : pt := AAtom (scalar_funcs inner cfs) op inner.

Record chobs := {
  co_chan : chan;
  co_sint : option Q;    (* integral[c] evaluated; None = does not evaluate to a number *)
  co_sini : option Q;    (* initial_values[c] *)
  co_sfin : option Q;    (* final_values[c] *)
  co_rint : Q;           (* exact integral of the instantiated program (0 if no program) *)
  co_r0 : Q;             (* first leaf sampled at its time 0 *)
  co_rlate : Q;          (* last leaf sampled 1/32 before its end *)
  co_pad : list Q        (* samples of the padded program inside the padded region *)
}.

Inductive real :=
| RErr                   (* create_program raised one of the expected errors *)
| RNone                  (* create_program returned None: the pulse is empty *)
| ROk (dur : Q).

Inductive case :=
| CPulse (p : pt) (rho : list (var * Q)) (sdur : option Q) (r : real) (obs : list chobs)
         (padlen : Q) (padded : real)    (* pad_to(total + padlen) instantiated *)
         (strict : bool)                 (* false for the malformed stream (a parameter is missing) *)
         (g_ini g_tail : bool)           (* the harness' (Python) evaluation of the guards of the known findings
                                            initial-head-empty-or-jump / final-tail-empty, used by `classify` *)
| CLazy (extra : list (var * Q)) (inner : case)
                          (* malformed stream only (inner = a non-strict CPulse whose program EXISTS although a parameter is
                             missing): the code is lazy where the denotation is strict - ConstantPT / FunctionPT never evaluate
                             the value of a channel that an enclosing MappingPT drops, Spec.denote evaluates every value and
                             gives None.  The program is compared with the denotation under the parameters completed by
                             `extra` (missing names := 1; the program cannot depend on them), the symbolic observations with
                             the model under the given, incomplete parameters as before *)
| CExtern                 (* a case outside the Coq model (time dependent ArithmeticPT scalar): judged by the harness'
                            Python oracle (py_spec) only *)
| CCrash.

Definition oq_eqb (a b : option Q) : bool := opt_eqb Qeq_bool a b.
(* when a parameter is missing (malformed stream) the model's strict
   evaluation may fail where sympy's simplifier has already removed the missing symbol (x*0 = 0): only agreement
   where the model does evaluate is demanded there *)
Definition oq_sub (m r : option Q) : bool := match m with Some _ => oq_eqb m r | None => true end.
Definition model_q (q : quantity) (p : pt) (rho : env) (c : chan) : option Q :=
  match dget c (quant q p) with Some e => eval rho e | None => None end.

Fixpoint chans_sub (a b : list chan) : bool :=
  match a with [] => true | c :: r => existsb (N.eqb c) b && chans_sub r b end.

Definition real_matches (r : real) (d : option pulse) : bool :=
  match r, d with
  | RErr, None => true
  | RNone, Some [] => true
  | ROk dur, Some (pc :: pcs) => Qeq_bool dur (total (pc :: pcs))
  | _, _ => false
  end.

(* the program of pad_to(tq): the original pulse (denoted under rhoD) followed by the constant piece pad_to builds from
   final_values and tq - duration, both evaluated by the code under the GIVEN parameters rho.  Strict cases: the model's
   Const piece; for rho = rhoD this is `denote (pad_to p (EC tq)) rho` up to `++ []`.  Malformed stream: where the model's
   strict evaluation of duration / final value fails although sympy's simplifier has removed the missing symbol (0 * U), the
   code's own evaluated duration / final value is taken (same convention as oq_sub), so the padded program is still compared:
   it must last tq and hold these values *)
Definition sub_q (m r : option Q) : option Q := match m with Some _ => m | None => r end.
Definition pad_den (strict : bool) (p : pt) (rho rhoD : env) (tq : Q) (sdur : option Q) (obs : list chobs) : option pulse :=
  match denote p rhoD with
  | None => None
  | Some a =>
      if strict then
        match denote (Const (ESub (EC tq) (duration_expr p)) (final_expr p)) rho with Some b => Some (a ++ b) | None => None end
      else
        match sub_q (eval rho (duration_expr p)) sdur,
              opt_all (map (fun kv => option_map (fun q => (fst kv, q))
                                        (sub_q (eval rho (snd kv))
                                               (match find (fun o => N.eqb (co_chan o) (fst kv)) obs with
                                                | Some o => co_sfin o | None => None end)))
                           (final_expr p)) with
        | Some d, Some vs =>
            let dd := tq - d in
            if Qle_bool dd 0 then (if Qle_bool 0 dd then Some a else None)
            else Some (a ++ [(dd, map (fun kv => (fst kv, FSegs [(dd, [snd kv])] (snd kv))) vs)])
        | _, _ => None
        end
  end.

(* rho: the given parameters (symbolic side); rhoD: the parameters the denotation is evaluated under (= rho except for CLazy) *)
Definition corr_pulse (rho rhoD : env) (p : pt) (sdur : option Q) (r : real) (obs : list chobs)
                      (padlen : Q) (padded : real) (strict g_ini g_tail : bool) : bool :=
      let den := denote p rhoD in
      (* every generated template is inside the domain of the theorems C07_duration / C07_integral / ..._guarded *)
      (negb strict || wf p)
      (* the classifier's guard predicates are the proven guards (Wf.v) on this case *)
      && (negb strict || match den with
                         | Some _ => Bool.eqb (guard_C07_initial_head p rho) g_ini && Bool.eqb (guard_C07_final_tail p rho) g_tail
                         | None => true
                         end)
      && (if strict then oq_eqb else oq_sub) (eval rho (duration_expr p)) sdur
      && chans_sub (map co_chan obs) (channels p) && chans_sub (channels p) (map co_chan obs)
      && (let cmp := if strict then oq_eqb else oq_sub in
          forallb (fun o =>
                    cmp (model_q QIntegral p rho (co_chan o)) (co_sint o)
                    && cmp (model_q QInitial p rho (co_chan o)) (co_sini o)
                    && cmp (model_q QFinal p rho (co_chan o)) (co_sfin o)) obs)
      && (real_matches r den
          (* malformed stream: an empty table/point pulse never evaluates its values in the code (the missing
             parameter goes unnoticed), the denotation evaluates every entry *)
          || (negb strict && match r, den with RNone, None => true | _, _ => false end))
      && match r, den with
         | ROk _, Some pcs =>
             forallb (fun o =>
                        oq_eqb (p_int pcs (co_chan o)) (Some (co_rint o))
                        && oq_eqb (p_at0 pcs (co_chan o)) (Some (co_r0 o))
                        && oq_eqb (p_late pcs (co_chan o)) (Some (co_rlate o))) obs
             && match padded with
                | ROk pd =>
                    (* the model's pad_to denotes the original pulse followed by one constant piece *)
                    match pad_den strict p rho rhoD (total pcs + padlen) sdur obs with
                    | Some ppcs =>
                        Qeq_bool pd (total ppcs)
                        && forallb (fun o => match p_end ppcs (co_chan o) with
                                             | Some v => forallb (Qeq_bool v) (co_pad o)
                                             | None => false
                                             end) obs
                    | None => false
                    end
                | RErr => match pad_den strict p rho rhoD (total pcs + padlen) sdur obs with None => true | Some _ => false end
                | RNone => false
                end
         | _, _ => true
         end.

Definition check_corr (cs : case) : bool :=
  match cs with
  | CCrash => false
  | CExtern => true
  | CPulse p rl sdur r obs padlen padded strict g_ini g_tail =>
      corr_pulse (env_of rl) (env_of rl) p sdur r obs padlen padded strict g_ini g_tail
  | CLazy extra (CPulse p rl sdur (ROk dur) obs padlen padded false g_ini g_tail) =>
      corr_pulse (env_of rl) (env_of (rl ++ extra)) p sdur (ROk dur) obs padlen padded false g_ini g_tail
  | CLazy _ _ => false
  end.

(* the property on the implementation's observations.  Independence (round-5 audit): no function of Model.v is used except
   `env_of` (parameter list -> environment); integral / initial value / padded region / durations compare two observations
   of the implementation; only the voltage the template SPECIFIES at its end comes from Spec.denote / Spec.p_end (Spec.v
   shares with Model.v the syntax, `eval`, the dictionary helpers, `channels` and `scalar_as_dict`, nothing of `quant`). *)
Definition spec_pulse (rhoD : env) (p : pt) (sdur : option Q) (r : real) (obs : list chobs) (padlen : Q) (padded : real) : bool :=
      match r with
      | RErr => true
      | RNone =>
          (* an empty pulse integrates to 0 on every channel and has duration 0 *)
          oq_eqb sdur (Some 0) && forallb (fun o => oq_eqb (co_sint o) (Some 0)) obs
      | ROk dur =>
          oq_eqb sdur (Some dur)
          && forallb (fun o =>
                        oq_eqb (co_sint o) (Some (co_rint o))
                        && oq_eqb (co_sini o) (Some (co_r0 o))
                        && (* the voltage the template specifies at its end (Spec.p_end of the denoted pulse) *)
                           match denote p rhoD with
                           | Some pcs => oq_eqb (co_sfin o) (p_end pcs (co_chan o))
                           | None => false
                           end) obs
          && match padded with
             | ROk pd =>
                 Qeq_bool pd (dur + padlen)
                 && forallb (fun o => match co_sfin o with
                                      | Some v => forallb (Qeq_bool v) (co_pad o) && negb (match co_pad o with [] => true | _ => false end)
                                      | None => false
                                      end) obs
             | _ => false
             end
      end.

(* CLazy: the only clause that consults the denotation (the specified end voltage) does so under the completed parameters;
   under the incomplete ones the denotation is None and the clause could only fail *)
Definition check_spec (cs : case) : bool :=
  match cs with
  | CCrash => false
  | CExtern => true
  | CPulse p rl sdur r obs padlen padded strict _ _ => spec_pulse (env_of rl) p sdur r obs padlen padded
  | CLazy extra (CPulse p rl sdur (ROk dur) obs padlen padded false _ _) =>
      spec_pulse (env_of (rl ++ extra)) p sdur (ROk dur) obs padlen padded
  | CLazy _ _ => false
  end.
