(* C07 — static well-formedness of a template (what the constructors of the real classes enforce and what Python
   dictionaries/sets give for free) and the executable guards, one per known finding, under which the full theorems
   `C07_initial_guarded` / `C07_final_guarded` hold.  Definitions only (Corr.v evaluates them on every generated case). *)
From Coq Require Import ZArith QArith Qround List Bool.
Require Import QV.C07.Model QV.C07.Spec.
Import ListNotations.
Open Scope Q_scope.

(* `fvb x e` (x occurs free in e) is defined in Model.v: ForLoopPT._sum_index looks at the range's parameter names *)

Definition memb (c : chan) (l : list chan) : bool := existsb (N.eqb c) l.
Fixpoint nodupb (l : list chan) : bool := match l with [] => true | c :: r => negb (memb c r) && nodupb r end.
Definition same_chans (a b : list chan) : bool := forallb (fun c => memb c b) a && forallb (fun c => memb c a) b.

(* PulseTemplate._is_atomic *)
Fixpoint atomic (p : pt) : bool :=
  match p with
  | Table _ | Point _ _ | Const _ _ | Func _ _ _ | Multi _ | AAtom _ _ _ => true
  | Map b _ _ => atomic b
  | Par b _ => atomic b
  | ArithL b _ _ => atomic b
  | ArithR _ _ b => atomic b
  | Seq _ | Rep _ _ | For _ _ _ _ _ => false
  end.

Definition timedep (cf : list expr) : bool := match cf with _ :: _ :: _ => true | _ => false end.
Definition no_t (es : list expr) : bool := forallb (fun c => negb (fvb tvar c)) es.

Definition scalar_ok (s : scalar) (cs : list chan) : bool :=
  match s with
  | SAll _ => true
  | SMap m => nodupb (dkeys m) && forallb (fun c => memb c cs) (dkeys m)   (* ValueError otherwise (constructor) *)
  end.

(* What the constructors guarantee:
   - channel identifiers of a template are a set (Python dict/set)                          [nodupb (channels p)]
     (for MappingPT: the channel mapping is injective on the kept channels; for AtomicMultiChannelPT: the
      sub-templates have disjoint channels; both are constructor checks)
   - table channels / point pulses have at least one entry; a point pulse has at least one channel
   - FunctionPT / ParallelChannelPT coefficient expressions do not mention t (the polynomial is written out in t)
   - SequencePT: all sub-templates define the same channels
   - ForLoopPT: nothing (round 6: a range that names its own index is legal in the code and now inside the theorems'
     domain; Model.loop_sum binds the sum over a fresh symbol in that case, as ForLoopPulseTemplate._sum_index does)
   - ParallelChannelPT: time dependent values only over an atomic template (TypeError)
   - ArithmeticPT: a scalar mapping only mentions channels of the template (ValueError); scalar / template is
     not allowed (ValueError) *)
Fixpoint wf (p : pt) : bool :=
  nodupb (channels p) &&
  match p with
  | Table chs => forallb (fun ch => match snd ch with [] => false | _ => true end) chs
  | Point cs ents => match ents, cs with _ :: _, _ :: _ => true | _, _ => false end
  | Const _ _ => true
  | Func _ _ coef => no_t coef
  | Seq ps =>
      match ps with
      | [] => true
      | q0 :: _ => (fix go (l : list pt) : bool :=
                      match l with [] => true | q :: r => wf q && same_chans (channels q) (channels q0) && go r end) ps
      end
  | Rep _ b => wf b
  | For _ _ _ _ b => wf b
  | Map b _ _ => wf b
  | Multi ps => (fix go (l : list pt) : bool := match l with [] => true | q :: r => wf q && go r end) ps
  | Par b ov => wf b && nodupb (dkeys ov) && forallb (fun kv => no_t (snd kv)) ov
                && (negb (existsb (fun kv => timedep (snd kv)) ov) || atomic b)
  | ArithL b _ s => wf b && scalar_ok s (channels b)
  | ArithR s op b => wf b && scalar_ok s (channels b) && match op with ODiv => false | _ => true end
  | AAtom l _ r => wf l && wf r
  end.

(* ------------------------------------------------------------------------------------------------------------ *)
(* pieces shared by the guards *)
Definition map_env (rho : env) (pm : list (var * expr)) : env :=
  fold_right (fun ye acc => env_upd acc (fst ye) (eval rho (snd ye))) rho pm.

Definition for_range (rho : env) (start stop step : expr) : option (list Z) :=
  match as_int (eval rho start), as_int (eval rho stop), as_int (eval rho step) with
  | Some a, Some o, Some s => py_range a o s
  | _, _, _ => None
  end.

Definition nonempty (o : option pulse) : bool := match o with Some (_ :: _) => true | _ => false end.

(* the index ForLoopPT.final_values substitutes: start + Max((stop - start - sign(step)) // step, 0) * step *)
Definition last_index (a o s : Z) : Z := (a + Z.max ((o - a - Z.sgn s) / s) 0 * s)%Z.
(* the index it substituted BEFORE the repair of finding for-final-floor: start + Max((stop-start)//step - 1, 0)*step *)
Definition floor_final_index (a o s : Z) : Z := (a + Z.max ((o - a) / s - 1) 0 * s)%Z.

(* finding `initial-head-empty-or-jump`, atom part: the voltage at time 0+ of a table channel (evaluated entries l,
   previous point prev) is v0.  Zero-length steps are skipped; the first step of positive length must start at v0
   (hold / linear) or jump to v0. *)
Fixpoint head_ok (v0 : Q) (prev : Q * Q) (l : list nentry) : bool :=
  match l with
  | [] => Qeq_bool (snd prev) v0
  | (t, v, ip) :: r =>
      if Qle_bool (t - fst prev) 0 then head_ok v0 (t, v) r
      else match ip with IJump => Qeq_bool v v0 | _ => Qeq_bool (snd prev) v0 end
  end.

(* one channel (symbolic entries es) of a table/point pulse of evaluated duration D *)
Definition table_head_ok (rho : env) (D : Q) (es : list tentry) : bool :=
  match opt_all (map (eval_entry rho) es) with
  | Some ((t0, v0, ip) :: l') =>
      let l := (t0, v0, ip) :: l' in
      head_ok v0 (0, v0) (l ++ [(D, snd (last_tv l (t0, v0)), IHold)])
  | _ => true
  end.

(* finding `initial-head-empty-or-jump`: along the structurally first path every sequence's first child / loop's first
   iteration is non-empty, and the first atom starts at its first entry's value *)
Fixpoint guard_C07_initial_head (p : pt) (rho : env) {struct p} : bool :=
  match p with
  | Table chs =>
      match denote p rho with
      | Some [pc] => forallb (fun ch => table_head_ok rho (fst pc) (snd ch)) chs
      | _ => true
      end
  | Point cs ents =>
      match denote p rho with
      | Some [pc] =>
          (fix go (k : nat) (l : list chan) : bool :=
             match l with
             | [] => true
             | _ :: r => table_head_ok rho (fst pc)
                           (map (fun en => match en with (t, v, ip) => (t, pval_at k v, ip) end) ents) && go (S k) r
             end) 0%nat cs
      | _ => true
      end
  | Const _ _ | Func _ _ _ => true
  | Seq ps => match ps with [] => true | q :: _ => nonempty (denote q rho) && guard_C07_initial_head q rho end
  | Rep _ b => guard_C07_initial_head b rho
  | For i start stop step b =>
      match for_range rho start stop step with
      | Some (k :: _) => let rho' := env_upd rho i (Some (inject_Z k)) in
                         nonempty (denote b rho') && guard_C07_initial_head b rho'
      | _ => true
      end
  | Map b pm _ => guard_C07_initial_head b (map_env rho pm)
  | Multi ps => (fix go (l : list pt) : bool :=
                   match l with [] => true | q :: r => guard_C07_initial_head q rho && go r end) ps
  | Par b _ => guard_C07_initial_head b rho
  | ArithL b _ _ => guard_C07_initial_head b rho
  | ArithR _ _ b => guard_C07_initial_head b rho
  | AAtom l _ r => guard_C07_initial_head l rho && guard_C07_initial_head r rho
  end.

(* finding `final-tail-empty`: along the structurally last path every sequence's last child / loop's last iteration
   is non-empty *)
Fixpoint guard_C07_final_tail (p : pt) (rho : env) {struct p} : bool :=
  match p with
  | Table _ | Point _ _ | Const _ _ | Func _ _ _ => true
  | Seq ps => (fix go (l : list pt) : bool :=
                 match l with
                 | [] => true
                 | [q] => nonempty (denote q rho) && guard_C07_final_tail q rho
                 | _ :: r => go r
                 end) ps
  | Rep _ b => guard_C07_final_tail b rho
  | For i start stop step b =>
      match for_range rho start stop step with
      | Some (k0 :: ks) => let rho' := env_upd rho i (Some (inject_Z (last ks k0))) in
                           nonempty (denote b rho') && guard_C07_final_tail b rho'
      | _ => true
      end
  | Map b pm _ => guard_C07_final_tail b (map_env rho pm)
  | Multi ps => (fix go (l : list pt) : bool :=
                   match l with [] => true | q :: r => guard_C07_final_tail q rho && go r end) ps
  | Par b _ => guard_C07_final_tail b rho
  | ArithL b _ _ => guard_C07_final_tail b rho
  | ArithR _ _ b => guard_C07_final_tail b rho
  | AAtom l _ r => guard_C07_final_tail l rho && guard_C07_final_tail r rho
  end.

(* (repaired) finding `for-final-floor`: the inputs on which the PRE-REPAIR final_values was right — for every loop on
   the structurally last path the floor-form index is the index of the last iteration.  No longer a hypothesis of
   C07_final_guarded; kept because it delimits exactly what the repair changed (and what a regression would break).  EXACT (C07_floor_guard_exact): it holds iff the step divides the
   span or the loop has a single iteration (e.g. range(0,1,2)). *)
Fixpoint guard_C07_for_final_floor_path (p : pt) (rho : env) {struct p} : bool :=
  match p with
  | Table _ | Point _ _ | Const _ _ | Func _ _ _ => true
  | Seq ps => (fix go (l : list pt) : bool :=
                 match l with
                 | [] => true
                 | [q] => guard_C07_for_final_floor_path q rho
                 | _ :: r => go r
                 end) ps
  | Rep _ b => guard_C07_for_final_floor_path b rho
  | For i start stop step b =>
      match as_int (eval rho start), as_int (eval rho stop), as_int (eval rho step) with
      | Some a, Some o, Some s =>
          match py_range a o s with
          | Some (k0 :: ks) =>
              (floor_final_index a o s =? last ks k0)%Z
              && guard_C07_for_final_floor_path b (env_upd rho i (Some (inject_Z (last ks k0))))
          | _ => true
          end
      | _, _, _ => true
      end
  | Map b pm _ => guard_C07_for_final_floor_path b (map_env rho pm)
  | Multi ps => (fix go (l : list pt) : bool :=
                   match l with [] => true | q :: r => guard_C07_for_final_floor_path q rho && go r end) ps
  | Par b _ => guard_C07_for_final_floor_path b rho
  | ArithL b _ _ => guard_C07_for_final_floor_path b rho
  | ArithR _ _ b => guard_C07_for_final_floor_path b rho
  | AAtom l _ r => guard_C07_for_final_floor_path l rho && guard_C07_for_final_floor_path r rho
  end.
