(* C07 — proofs, part 18: the consequence clause of the property: padding a template to a longer duration holds exactly
   the voltage the unpadded pulse ends on (pad_to's structure + the final-value theorem + the channel invariants). *)
From Coq Require Import ZArith QArith Qround List Bool Lia Lra Lqa.
Require Import QV.C07.Model QV.C07.Spec QV.C07.Wf QV.C07.ProofsRange QV.C07.ProofsLoop QV.C07.ProofsAtoms
               QV.C07.ProofsExpr QV.C07.ProofsPt QV.C07.ProofsDict QV.C07.ProofsSum QV.C07.ProofsKeysQ QV.C07.ProofsKeysD
               QV.C07.ProofsDur QV.C07.ProofsObs QV.C07.ProofsIntAtoms QV.C07.ProofsInt QV.C07.ProofsEnds QV.C07.ProofsIni
               QV.C07.ProofsFin.
Import ListNotations.
Open Scope Q_scope.

Theorem pad_holds_end_voltage p rho pcs d' dd vs c x :
  wf p = true -> guard_C07_final_tail p rho = true ->
  denote p rho = Some pcs ->
  eval rho (ESub d' (duration_expr p)) = Some dd -> Qle_bool dd 0 = false ->
  opt_all (map (fun kv => option_map (fun q => (fst kv, q)) (eval rho (snd kv))) (final_expr p)) = Some vs ->
  p_end pcs c = Some x ->
  exists ppcs v, denote (pad_to p d') rho = Some ppcs /\ p_end ppcs c = Some v /\ v == x /\ total ppcs == total pcs + dd.
Proof.
  intros Hwf Hg Hd Ed Hpos Hvs Hx.
  (* the channel of the last piece is a channel of the template, hence a key of final_values *)
  assert (Hc : exists e, dget c (final_expr p) = Some e).
  { rewrite p_end_lastp in Hx. destruct (lastp pcs) as [pc|] eqn:El; [|discriminate].
    destruct (dget c (snd pc)) as [f|] eqn:Ef; [|discriminate].
    assert (Hin : In pc pcs).
    { clear - El. induction pcs as [|a r IH]; [discriminate|]. destruct r as [|b r]; [inversion El; left; reflexivity|].
      right. apply IH. exact El. }
    pose proof (piece_keys p rho pcs Hwf Hd) as HK. rewrite Forall_forall in HK. destruct (HK pc Hin) as (_ & K2).
    destruct (quant_keys p QFinal Hwf) as (_ & Q2).
    assert (Hm : dmem c (quant QFinal p) = true) by (rewrite Q2, <- K2; unfold dmem; rewrite Ef; reflexivity).
    apply dmem_true in Hm. exact Hm. }
  destruct Hc as (e & He).
  pose proof (opt_all_dget (fun z => eval rho (snd z)) (fun _ q => q) c (final_expr p) vs Hvs) as G.
  rewrite He in G. destruct G as (v & Ev & Gv). cbn [snd] in Ev.
  destruct (pad_to_end p rho pcs d' dd vs c v Hd Ed Hpos Hvs Gv) as (ppcs & Hpp & Hpe).
  exists ppcs, v. split; [exact Hpp|]. split; [exact Hpe|]. split.
  - exact (final_correct p rho pcs c e x v Hwf Hg Hd He Hx Ev).
  - rewrite (pad_to_denote p rho pcs d' dd vs Hd Ed Hpos Hvs) in Hpp. inversion Hpp; subst ppcs.
    rewrite total_app, total_cons. change (total []) with 0. cbn [fst]. ring.
Qed.

(* ROUND 5 (audit: non-vacuity of the consequence clause): the hypotheses of pad_holds_end_voltage are jointly satisfiable
   by a non-trivial template - the loop over range(0,6,2) around a mapped linear table (three pieces, the pulse ends on 5
   on channel 4) padded from duration 3 to duration 10 *)
Lemma pad_nonvacuous :
  let p := For 1%N (EC 0) (EC 6) (EC 2)
               (Map (Table [(1%N, [(EC 0, EV 1%N, IHold); (EC 1, EAdd (EV 1%N) (EC 1), ILin)])]) [(2%N, EV 1%N)] [(1%N, Some 4%N)]) in
  exists pcs dd vs x,
    wf p = true /\ guard_C07_final_tail p env_empty = true /\ denote p env_empty = Some pcs /\ length pcs = 3%nat /\
    eval env_empty (ESub (EC 10) (duration_expr p)) = Some dd /\ Qle_bool dd 0 = false /\
    opt_all (map (fun kv => option_map (fun q => (fst kv, q)) (eval env_empty (snd kv))) (final_expr p)) = Some vs /\
    p_end pcs 4%N = Some x /\ x == 5 /\ dd == 7.
Proof.
  cbv zeta. eexists. eexists. eexists. eexists.
  split; [vm_compute; reflexivity|]. split; [vm_compute; reflexivity|]. split; [vm_compute; reflexivity|].
  split; [vm_compute; reflexivity|]. split; [vm_compute; reflexivity|]. split; [vm_compute; reflexivity|].
  split; [vm_compute; reflexivity|]. split; [vm_compute; reflexivity|]. split; vm_compute; reflexivity.
Qed.
