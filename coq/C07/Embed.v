(* C07 — embedding of ArithmeticPT with a time dependent MULTIPLICATIVE scalar into the model (round 3).  Definitions only. *)
From Coq Require Import ZArith QArith List Bool.
Require Import QV.C07.Model.
Import ListNotations.
Open Scope Q_scope.

(* `pt * s(t)` / `s(t) * pt` (round 3): over a ConstantPT or a polynomial FunctionPT the product with a polynomial scalar is
   again a polynomial in t — embedded as FunctionPT(s) with the product's coefficients (per channel; channels without a
   scalar keep their value).  Over tables the product is outside the model (CExtern, Python oracle). *)
Fixpoint padd (a b : list expr) : list expr :=
  match a, b with
  | [], _ => b
  | _, [] => a
  | x :: a', y :: b' => EAdd x y :: padd a' b'
  end.
Fixpoint pmul (a b : list expr) : list expr :=
  match a with
  | [] => []
  | x :: a' => padd (map (EMul x) b) (e0 :: pmul a' b)
  end.
Definition arith_tm (inner : pt) (cfs : list (chan * list expr)) : pt :=
  match inner with
  | Const d vals =>
      Multi (map (fun kv => Func (fst kv) d (match dget (fst kv) cfs with
                                             | Some cf => map (EMul (snd kv)) cf
                                             | None => [snd kv]
                                             end)) vals)
  | Func c d coef => Func c d (match dget c cfs with Some cf => pmul coef cf | None => coef end)
  | _ => inner
  end.

(* the same operations on numeric coefficient lists (what the coefficient expressions evaluate to, ProofsMul.v) *)
Fixpoint paddQ (a b : list Q) : list Q :=
  match a, b with
  | [], _ => b
  | _, [] => a
  | x :: a', y :: b' => (x + y) :: paddQ a' b'
  end.
Fixpoint pmulQ (a b : list Q) : list Q :=
  match a with
  | [] => []
  | x :: a' => paddQ (map (Qmult x) b) (0 :: pmulQ a' b)
  end.
