(* C07 — proofs, part 6: insertion-ordered dictionaries (dget / dset / dupdate / dmap), the channel-wise arithmetic
   `apply_op_dict`, and the renaming fold shared by MappingPT's expression side (`map_dict`) and denotation side
   (`rename_piece`). *)
From Coq Require Import ZArith QArith List Bool Lia.
Require Import QV.C07.Model QV.C07.Spec QV.C07.Wf.
Import ListNotations.

Lemma memb_In c l : memb c l = true <-> In c l.
Proof.
  unfold memb. rewrite existsb_exists. split.
  - intros (x & Hx & E). apply N.eqb_eq in E. subst. exact Hx.
  - intros H. exists c. split; [exact H|apply N.eqb_refl].
Qed.
Lemma memb_false c l : memb c l = false <-> ~ In c l.
Proof. rewrite <- memb_In. destruct (memb c l); split; congruence. Qed.
Lemma memb_cons c k l : memb c (k :: l) = N.eqb c k || memb c l.
Proof. reflexivity. Qed.
Lemma memb_app c a b : memb c (a ++ b) = memb c a || memb c b.
Proof. unfold memb. apply existsb_app. Qed.

Lemma nodupb_NoDup l : nodupb l = true <-> NoDup l.
Proof.
  induction l as [|c r IH]; cbn [nodupb].
  - split; [constructor|reflexivity].
  - rewrite andb_true_iff, negb_true_iff, memb_false, IH. split.
    + intros (H1 & H2). constructor; assumption.
    + intros H. inversion H; subst. split; assumption.
Qed.

Lemma dget_dkeys {A} c (d : list (chan * A)) : dget c d = None <-> ~ In c (dkeys d).
Proof.
  induction d as [|[k v] r IH]; cbn [dget dkeys map fst].
  - split; [intros _ H; exact H|reflexivity].
  - destruct (N.eqb k c) eqn:E.
    + apply N.eqb_eq in E. subst. split; [discriminate|intros H; exfalso; apply H; left; reflexivity].
    + apply N.eqb_neq in E. unfold dkeys in IH. rewrite IH. split; [intros H [H'|H']; [congruence|exact (H H')]|intros H H'; apply H; right; exact H'].
Qed.
Lemma dmem_memb {A} c (d : list (chan * A)) : dmem c d = memb c (dkeys d).
Proof.
  unfold dmem. destruct (dget c d) eqn:E.
  - symmetry. apply memb_In. destruct (in_dec N.eq_dec c (dkeys d)) as [H|H]; [exact H|]. apply dget_dkeys in H. congruence.
  - symmetry. apply memb_false. apply dget_dkeys. exact E.
Qed.
Lemma dget_Some_In {A} c (d : list (chan * A)) v : dget c d = Some v -> In c (dkeys d).
Proof. intros H. destruct (in_dec N.eq_dec c (dkeys d)) as [H'|H']; [exact H'|]. apply dget_dkeys in H'. congruence. Qed.
Lemma dmem_true {A} c (d : list (chan * A)) : dmem c d = true <-> exists v, dget c d = Some v.
Proof. unfold dmem. destruct (dget c d) as [v|]; split; intros H; [eauto|reflexivity|discriminate|destruct H; discriminate]. Qed.

Lemma dmem_nil {A} c : dmem c (@nil (chan * A)) = false.
Proof. reflexivity. Qed.
Lemma dmem_cons {A} c k (v : A) r : dmem c ((k, v) :: r) = N.eqb k c || dmem c r.
Proof. unfold dmem. cbn [dget]. destruct (N.eqb k c); reflexivity. Qed.

(* ---- dset ---- *)
Lemma dget_dset {A} c k (v : A) d : dget c (dset k v d) = if N.eqb k c then Some v else dget c d.
Proof.
  induction d as [|[k' w] r IH]; cbn [dset dget].
  - destruct (N.eqb k c); reflexivity.
  - destruct (N.eqb k' k) eqn:E; cbn [dget].
    + apply N.eqb_eq in E. subst k'. destruct (N.eqb k c); reflexivity.
    + rewrite IH. destruct (N.eqb k' c) eqn:E2; [|reflexivity].
      apply N.eqb_eq in E2. subst k'. rewrite N.eqb_sym, E. reflexivity.
Qed.
Lemma dkeys_dset {A} k (v : A) d : dkeys (dset k v d) = if memb k (dkeys d) then dkeys d else dkeys d ++ [k].
Proof.
  induction d as [|[k' w] r IH]; cbn [dset dkeys map fst]; [reflexivity|].
  rewrite memb_cons. destruct (N.eqb k' k) eqn:E; cbn [map fst].
  - rewrite N.eqb_sym, E. reflexivity.
  - rewrite N.eqb_sym, E. cbn [orb]. unfold dkeys in IH. rewrite IH. destruct (memb k (map fst r)); reflexivity.
Qed.
Lemma nodupb_app_one l k : nodupb l = true -> memb k l = false -> nodupb (l ++ [k]) = true.
Proof.
  induction l as [|c r IH]; cbn [nodupb app]; intros H Hk; [reflexivity|].
  apply andb_prop in H as (H1 & H2). rewrite memb_cons in Hk. apply orb_false_elim in Hk as (Hk1 & Hk2).
  rewrite memb_app, IH by assumption. cbn [memb existsb]. apply negb_true_iff in H1. rewrite H1, N.eqb_sym, Hk1. reflexivity.
Qed.
Lemma nodupb_dset {A} k (v : A) d : nodupb (dkeys d) = true -> nodupb (dkeys (dset k v d)) = true.
Proof. intros H. rewrite dkeys_dset. destruct (memb k (dkeys d)) eqn:E; [exact H|apply nodupb_app_one; assumption]. Qed.
Lemma dmem_dset {A} c k (v : A) d : dmem c (dset k v d) = N.eqb k c || dmem c d.
Proof. unfold dmem. rewrite dget_dset. destruct (N.eqb k c); reflexivity. Qed.

(* ---- dmap ---- *)
Lemma dget_dmap {A B} (f : A -> B) c d : dget c (dmap f d) = option_map f (dget c d).
Proof. induction d as [|[k v] r IH]; cbn [dmap map dget fst snd]; [reflexivity|]. destruct (N.eqb k c); [reflexivity|exact IH]. Qed.
Lemma dkeys_dmap {A B} (f : A -> B) d : dkeys (dmap f d) = dkeys d.
Proof. unfold dkeys, dmap. rewrite map_map. reflexivity. Qed.
Lemma dget_map_key {A} (f : chan -> A) c l : dget c (map (fun k => (k, f k)) l) = if memb c l then Some (f c) else None.
Proof.
  induction l as [|k r IH]; cbn [map dget]; [reflexivity|]. rewrite memb_cons, (N.eqb_sym c k).
  destruct (N.eqb k c) eqn:E; [apply N.eqb_eq in E; subst; reflexivity|exact IH].
Qed.
Lemma dkeys_map_key {A} (f : chan -> A) l : dkeys (map (fun k => (k, f k)) l) = l.
Proof. unfold dkeys. rewrite map_map. cbn [fst]. apply map_id. Qed.
Lemma dget_map_val {A B} (f : chan -> A -> B) c (d : list (chan * A)) :
  dget c (map (fun kv => (fst kv, f (fst kv) (snd kv))) d) = option_map (f c) (dget c d).
Proof.
  induction d as [|[k v] r IH]; cbn [map dget fst snd]; [reflexivity|].
  destruct (N.eqb k c) eqn:E; [apply N.eqb_eq in E; subst; reflexivity|exact IH].
Qed.
Lemma dkeys_map_val {A B} (f : chan -> A -> B) (d : list (chan * A)) :
  dkeys (map (fun kv => (fst kv, f (fst kv) (snd kv))) d) = dkeys d.
Proof. unfold dkeys. rewrite map_map. reflexivity. Qed.

(* ---- dupdate ---- *)
Lemma dget_dupdate {A} c (u : list (chan * A)) : forall d, nodupb (dkeys u) = true ->
  dget c (dupdate d u) = match dget c u with Some v => Some v | None => dget c d end.
Proof.
  unfold dupdate. induction u as [|[k v] r IH]; intros d H; cbn [fold_left dget fst snd]; [reflexivity|].
  cbn [dkeys map fst nodupb] in H. apply andb_prop in H as (Hk & Hr). apply negb_true_iff, memb_false in Hk.
  rewrite IH by exact Hr. rewrite dget_dset. destruct (N.eqb k c) eqn:E; [|reflexivity].
  apply N.eqb_eq in E. subst k. apply dget_dkeys in Hk. unfold dkeys in Hk. rewrite Hk. reflexivity.
Qed.
Lemma dmem_dupdate {A} c (u : list (chan * A)) : forall d, dmem c (dupdate d u) = dmem c d || dmem c u.
Proof.
  unfold dupdate. induction u as [|[k v] r IH]; intros d; cbn [fold_left fst snd].
  - rewrite dmem_nil, orb_false_r. reflexivity.
  - rewrite IH, dmem_dset, dmem_cons.
    destruct (N.eqb k c), (dmem c d), (dmem c r); reflexivity.
Qed.
Lemma nodupb_dupdate {A} (u : list (chan * A)) : forall d, nodupb (dkeys d) = true -> nodupb (dkeys (dupdate d u)) = true.
Proof.
  unfold dupdate. induction u as [|[k v] r IH]; intros d H; cbn [fold_left fst snd]; [exact H|].
  apply IH. apply nodupb_dset. exact H.
Qed.
(* the keys of an update depend only on the keys *)
Lemma dkeys_dupdate_keys {A A'} (d u : list (chan * A)) (d' u' : list (chan * A')) :
  dkeys d = dkeys d' -> dkeys u = dkeys u' -> dkeys (dupdate d u) = dkeys (dupdate d' u').
Proof.
  unfold dupdate. revert d d' u'. induction u as [|[k v] r IH]; intros d d' u' Hd Hu; destruct u' as [|[k' v'] r']; try discriminate.
  - exact Hd.
  - cbn [dkeys map fst] in Hu. inversion Hu; subst k'. cbn [fold_left fst snd]. apply IH; [|assumption].
    rewrite !dkeys_dset, Hd. reflexivity.
Qed.

(* ---- _apply_operation_to_channel_dict ---- *)
Lemma dget_apply_op_dict op c rhs : forall lhs, nodupb (dkeys rhs) = true ->
  dget c (apply_op_dict op lhs rhs) =
  match dget c lhs, dget c rhs with
  | Some a, Some b => Some (apply_both op a b)
  | Some a, None => Some a
  | None, Some b => Some (apply_rhs_only op b)
  | None, None => None
  end.
Proof.
  unfold apply_op_dict. induction rhs as [|[k b] r IH]; intros lhs H; cbn [fold_left dget fst snd].
  - destruct (dget c lhs); reflexivity.
  - cbn [dkeys map fst nodupb] in H. apply andb_prop in H as (Hk & Hr). apply negb_true_iff, memb_false in Hk.
    rewrite IH by exact Hr.
    assert (Hd : dget c (match dget k lhs with
                         | Some a => dset k (apply_both op a b) lhs
                         | None => dset k (apply_rhs_only op b) lhs end)
                 = if N.eqb k c then (match dget k lhs with Some a => Some (apply_both op a b) | None => Some (apply_rhs_only op b) end)
                   else dget c lhs).
    { destruct (dget k lhs); rewrite dget_dset; destruct (N.eqb k c); reflexivity. }
    rewrite Hd. destruct (N.eqb k c) eqn:E; [|reflexivity].
    apply N.eqb_eq in E. subst k. apply dget_dkeys in Hk. unfold dkeys in Hk. rewrite Hk.
    destruct (dget c lhs); reflexivity.
Qed.
Lemma dmem_apply_op_dict op c rhs : forall lhs, dmem c (apply_op_dict op lhs rhs) = dmem c lhs || dmem c rhs.
Proof.
  unfold apply_op_dict. induction rhs as [|[k b] r IH]; intros lhs; cbn [fold_left fst snd].
  - rewrite dmem_nil, orb_false_r. reflexivity.
  - rewrite IH, dmem_cons.
    destruct (dget k lhs); rewrite dmem_dset; destruct (N.eqb k c), (dmem c lhs), (dmem c r); reflexivity.
Qed.
Lemma nodupb_apply_op_dict op rhs : forall lhs, nodupb (dkeys lhs) = true -> nodupb (dkeys (apply_op_dict op lhs rhs)) = true.
Proof.
  unfold apply_op_dict. induction rhs as [|[k b] r IH]; intros lhs H; cbn [fold_left fst snd]; [exact H|].
  apply IH. destruct (dget k lhs); apply nodupb_dset; exact H.
Qed.

(* ---- renaming fold (MappingPT) ---- *)
Definition target (cm : list (chan * option chan)) (c : chan) : option chan :=
  match dget c cm with Some None => None | Some (Some c') => Some c' | None => Some c end.

Definition rename_fold {A B} (g : A -> B) (cm : list (chan * option chan)) (d : list (chan * A)) (acc : list (chan * B)) :=
  fold_left (fun res kv => match dget (fst kv) cm with
                           | Some None => res
                           | Some (Some c') => dset c' (g (snd kv)) res
                           | None => dset (fst kv) (g (snd kv)) res
                           end) d acc.

Lemma map_dict_rename pm cm d : map_dict pm cm d = rename_fold (ELet pm) cm d [].
Proof. reflexivity. Qed.
Lemma rename_piece_rename cm pc : rename_piece cm pc = (fst pc, rename_fold (fun f => f) cm (snd pc) []).
Proof. reflexivity. Qed.

Lemma rename_fold_step {A B} (g : A -> B) cm k v r acc :
  rename_fold g cm ((k, v) :: r) acc =
  rename_fold g cm r (match target cm k with Some c' => dset c' (g v) acc | None => acc end).
Proof. unfold rename_fold, target. cbn [fold_left fst snd]. destruct (dget k cm) as [[c'|]|]; reflexivity. Qed.

Lemma rename_fold_miss {A B} (g : A -> B) cm c' d : forall acc,
  (forall c, In c (dkeys d) -> target cm c <> Some c') -> dget c' (rename_fold g cm d acc) = dget c' acc.
Proof.
  induction d as [|[k v] r IH]; intros acc H; [reflexivity|]. rewrite rename_fold_step.
  rewrite IH by (intros c Hc; apply H; right; exact Hc).
  assert (Hk : target cm k <> Some c') by (apply H; left; reflexivity).
  destruct (target cm k) as [k'|]; [|reflexivity]. rewrite dget_dset.
  destruct (N.eqb k' c') eqn:E; [apply N.eqb_eq in E; subst; congruence|reflexivity].
Qed.

Lemma rename_fold_hit {A B} (g : A -> B) cm c c' d : forall acc,
  nodupb (dkeys d) = true -> In c (dkeys d) -> target cm c = Some c' ->
  (forall c2, In c2 (dkeys d) -> target cm c2 = Some c' -> c2 = c) ->
  dget c' (rename_fold g cm d acc) = option_map g (dget c d).
Proof.
  induction d as [|[k v] r IH]; intros acc Hnd Hin Ht Hinj; [destruct Hin|]. rewrite rename_fold_step.
  cbn [dkeys map fst nodupb] in Hnd. apply andb_prop in Hnd as (Hk & Hr). apply negb_true_iff, memb_false in Hk.
  cbn [dget]. destruct (N.eqb k c) eqn:E.
  - apply N.eqb_eq in E. subst k. rewrite Ht. rewrite rename_fold_miss.
    + rewrite dget_dset, N.eqb_refl. reflexivity.
    + intros c2 Hc2 Ht2. assert (c2 = c) by (apply Hinj; [right; exact Hc2|exact Ht2]). subst c2. exact (Hk Hc2).
  - apply N.eqb_neq in E. destruct Hin as [Hin|Hin]; [cbn [fst] in Hin; congruence|].
    apply IH; [exact Hr|exact Hin|exact Ht|]. intros c2 Hc2 Ht2. apply Hinj; [right; exact Hc2|exact Ht2].
Qed.

Lemma rename_fold_nodup {A B} (g : A -> B) cm d : forall acc, nodupb (dkeys acc) = true -> nodupb (dkeys (rename_fold g cm d acc)) = true.
Proof.
  induction d as [|[k v] r IH]; intros acc H; [exact H|]. rewrite rename_fold_step. apply IH.
  destruct (target cm k); [apply nodupb_dset|]; exact H.
Qed.

Lemma rename_fold_dmem {A B} (g : A -> B) cm c' d : forall acc,
  dmem c' (rename_fold g cm d acc) = dmem c' acc || existsb (fun c => match target cm c with Some x => N.eqb x c' | None => false end) (dkeys d).
Proof.
  induction d as [|[k v] r IH]; intros acc; [cbn; rewrite orb_false_r; reflexivity|]. rewrite rename_fold_step, IH.
  cbn [dkeys map fst existsb]. destruct (target cm k) as [k'|]; [|cbn [orb]; reflexivity].
  rewrite dmem_dset. destruct (N.eqb k' c'), (dmem c' acc); reflexivity.
Qed.

(* the channels of a mapped template, as Model.channels computes them *)
Definition tgt_list (cm : list (chan * option chan)) (c : chan) : list chan :=
  match target cm c with Some c' => [c'] | None => [] end.
Lemma channels_Map b pm cm : channels (Map b pm cm) = flat_map (tgt_list cm) (channels b).
Proof.
  cbn [channels]. apply flat_map_ext. intros c. unfold tgt_list, target. destruct (dget c cm) as [[c'|]|]; reflexivity.
Qed.
Lemma memb_flat_map_tgt cm c' l :
  memb c' (flat_map (tgt_list cm) l) = existsb (fun c => match target cm c with Some x => N.eqb x c' | None => false end) l.
Proof.
  induction l as [|k r IH]; [reflexivity|]. cbn [flat_map existsb]. rewrite memb_app, IH. f_equal.
  unfold tgt_list. destruct (target cm k) as [k'|]; [|reflexivity]. cbn [memb existsb]. rewrite orb_false_r. apply N.eqb_sym.
Qed.
(* injectivity of the channel mapping on the kept channels, from the duplicate-freeness of the mapped channel list *)
Lemma tgt_inj cm l : nodupb (flat_map (tgt_list cm) l) = true ->
  forall c1 c2 c', In c1 l -> In c2 l -> target cm c1 = Some c' -> target cm c2 = Some c' -> nodupb l = true -> c1 = c2.
Proof.
  induction l as [|k r IH]; intros H c1 c2 c' H1 H2 T1 T2 Hnd; [destruct H1|].
  cbn [flat_map] in H. cbn [nodupb] in Hnd. apply andb_prop in Hnd as (Hk & Hr). apply negb_true_iff, memb_false in Hk.
  assert (Hsplit : nodupb (flat_map (tgt_list cm) r) = true /\
                   forall x, In x (tgt_list cm k) -> ~ In x (flat_map (tgt_list cm) r)).
  { apply nodupb_NoDup in H. clear - H. induction (tgt_list cm k) as [|x t IHt]; cbn [app] in *.
    - split; [apply nodupb_NoDup; exact H|intros x []].
    - inversion H; subst. destruct (IHt H3) as (Ha & Hb). split; [exact Ha|].
      intros y [Hy|Hy]; [subst y; intros Hc; apply H2; apply in_or_app; right; exact Hc|apply Hb; exact Hy]. }
  destruct Hsplit as (Hr' & Hdis).
  assert (Hcross : forall a b, In b r -> target cm k = Some a -> target cm b = Some a -> False).
  { intros a b Hb Ta Tb. apply (Hdis a).
    - unfold tgt_list. rewrite Ta. left; reflexivity.
    - apply in_flat_map. exists b. split; [exact Hb|]. unfold tgt_list. rewrite Tb. left; reflexivity. }
  destruct H1 as [H1|H1], H2 as [H2|H2]; subst.
  - reflexivity.
  - exfalso. exact (Hcross c' c2 H2 T1 T2).
  - exfalso. exact (Hcross c' c1 H1 T2 T1).
  - exact (IH Hr' c1 c2 c' H1 H2 T1 T2 Hr).
Qed.

(* keys_ok: a dictionary over exactly the channel set cs, without duplicate keys *)
Definition keys_ok {A} (d : list (chan * A)) (cs : list chan) : Prop :=
  nodupb (dkeys d) = true /\ forall c, dmem c d = memb c cs.

Lemma same_chans_memb a b : same_chans a b = true -> forall c, memb c a = memb c b.
Proof.
  unfold same_chans. intros H c. apply andb_prop in H as (H1 & H2). rewrite forallb_forall in H1, H2.
  destruct (memb c a) eqn:Ea, (memb c b) eqn:Eb; try reflexivity.
  - apply memb_In in Ea. rewrite (H1 c Ea) in Eb. discriminate.
  - apply memb_In in Eb. rewrite (H2 c Eb) in Ea. discriminate.
Qed.
