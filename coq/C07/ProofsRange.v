(* C07 — proofs, part 1: Python ranges, the loop count `ceiling((stop-start)/step)`, the last index, polynomials. *)
From Coq Require Import ZArith QArith Qround Qabs List Bool Lia ZifyBool Lra Lqa.
Require Import QV.C07.Model QV.C07.Spec QV.C07.Wf.
Import ListNotations.
Ltac Zify.zify_post_hook ::= Z.to_euclidean_division_equations.
Open Scope Z_scope.

(* ---- floor / ceiling of an integer quotient ---- *)
Lemma Qfloor_div (n s : Z) : s <> 0 -> Qfloor (inject_Z n / inject_Z s) = n / s.
Proof.
  intros Hs. destruct s as [|p|p]; [congruence| |].
  - unfold Qdiv, Qinv, Qmult, inject_Z, Qfloor; simpl. f_equal. lia.
  - unfold Qdiv, Qinv, Qmult, inject_Z, Qfloor; simpl.
    replace (n * -1) with (- n) by lia. change (Z.neg p) with (- Z.pos p).
    symmetry. rewrite <- (Z.opp_involutive n) at 1. apply Z.div_opp_opp. lia.
Qed.

Lemma Qceil_div (n s : Z) : s <> 0 -> Qceil (inject_Z n / inject_Z s) = - ((- n) / s).
Proof.
  intros Hs. unfold Qceil, Qceiling. f_equal.
  rewrite <- (Qfloor_div (- n) s Hs). apply Qfloor_comp.
  rewrite inject_Z_opp. unfold Qdiv. ring.
Qed.

(* the number of iterations of range(a, o, s) is Max(ceiling((o-a)/s), 0) — what ForLoopPT.duration/integral use *)
Lemma range_len_ceil (a o s : Z) : s <> 0 -> range_len a o s = Z.max 0 (Qceil (inject_Z (o - a) / inject_Z s)).
Proof.
  intros Hs. rewrite Qceil_div by assumption. unfold range_len.
  destruct (0 <? s) eqn:E1; [destruct (a <? o) eqn:E2|destruct (s <? 0) eqn:E3; [destruct (o <? a) eqn:E4|]]; nia.
Qed.

Lemma range_len_nonneg a o s : 0 <= range_len a o s.
Proof.
  unfold range_len. destruct (0 <? s) eqn:E1; [destruct (a <? o) eqn:E2|destruct (s <? 0) eqn:E3; [destruct (o <? a) eqn:E4|]]; nia.
Qed.

Lemma range_from_length a s n : length (range_from a s n) = n.
Proof. revert a; induction n; intros; simpl; auto. Qed.

Lemma range_from_nth a s n k : (k < n)%nat -> nth k (range_from a s n) 0 = a + Z.of_nat k * s.
Proof.
  revert a k; induction n; intros a k Hk; [lia|]. destruct k; [simpl; lia|].
  cbn [range_from nth]. rewrite IHn by lia. rewrite Nat2Z.inj_succ. ring.
Qed.

Lemma range_from_last a s n : (0 < n)%nat -> last (range_from a s n) 0 = a + (Z.of_nat n - 1) * s.
Proof.
  revert a; induction n; intros a Hn; [lia|]. destruct n; [simpl; lia|].
  change (range_from a s (S (S n))) with (a :: range_from (a + s) s (S n)).
  change (last (a :: range_from (a + s) s (S n)) 0) with (last (range_from (a + s) s (S n)) 0).
  rewrite IHn by lia. rewrite !Nat2Z.inj_succ. ring.
Qed.

(* every element of range(a, o, s) is strictly before o (in the direction of s) and has the form a + k*s *)
Lemma py_range_spec a o s ks : py_range a o s = Some ks ->
  s <> 0 /\ Z.of_nat (length ks) = range_len a o s /\
  forall k, (k < length ks)%nat -> nth k ks 0 = a + Z.of_nat k * s /\ (if 0 <? s then nth k ks 0 < o else o < nth k ks 0).
Proof.
  unfold py_range. destruct (s =? 0) eqn:E; [discriminate|].
  destruct (RANGE_LIMIT <? range_len a o s) eqn:EL; [discriminate|]. intros H; inversion H; subst; clear H.
  pose proof (range_len_nonneg a o s) as Hn.
  rewrite range_from_length. split; [lia|]. split; [lia|].
  intros k Hk. rewrite range_from_nth by assumption. split; [reflexivity|].
  unfold range_len in *. destruct (0 <? s) eqn:E1; [destruct (a <? o) eqn:E2|destruct (s <? 0) eqn:E3; [destruct (o <? a) eqn:E4|]]; nia.
Qed.

(* the last index of a non-empty range, as the *ceiling* count gives it (the repair of final_values) *)
Lemma py_range_last_ceil a o s ks : py_range a o s = Some ks -> ks <> [] ->
  last ks 0 = a + (Z.max 0 (Qceil (inject_Z (o - a) / inject_Z s)) - 1) * s.
Proof.
  intros H Hne. destruct (py_range_spec _ _ _ _ H) as (Hs & Hlen & _).
  rewrite <- range_len_ceil by assumption.
  unfold py_range in H. destruct (s =? 0); [discriminate|]. destruct (RANGE_LIMIT <? range_len a o s); [discriminate|].
  inversion H; subst; clear H. rewrite range_from_length in Hlen.
  rewrite range_from_last; [lia|]. destruct (Z.to_nat (range_len a o s)); [simpl in Hne; congruence|lia].
Qed.

(* the index ForLoopPT.final_values substitutes (start + Max((stop-start)//step - 1, 0)*step) is Wf.floor_final_index *)

(* it is the last element exactly when the step divides the span (for a non-empty range) *)
Lemma floor_final_index_ok a o s ks : py_range a o s = Some ks -> ks <> [] -> (o - a) mod s = 0 ->
  floor_final_index a o s = last ks 0.
Proof.
  intros H Hne Hdiv. rewrite (py_range_last_ceil _ _ _ _ H Hne).
  destruct (py_range_spec _ _ _ _ H) as (Hs & Hlen & _).
  rewrite Qceil_div by assumption. unfold floor_final_index.
  assert (Hpos : 0 < range_len a o s) by (destruct ks; [congruence|simpl in Hlen; lia]).
  assert (Hq : o - a = s * ((o - a) / s)) by (apply Z.div_exact; auto).
  set (q := (o - a) / s) in *.
  assert (Hqpos : 0 < q).
  { unfold range_len in Hpos.
    destruct (0 <? s) eqn:E1; [destruct (a <? o) eqn:E2|destruct (s <? 0) eqn:E3; [destruct (o <? a) eqn:E4|]]; try lia; nia. }
  replace (- (o - a)) with ((- q) * s) by (rewrite Hq; ring).
  rewrite Z.div_mul by assumption.
  replace (Z.max (q - 1) 0) with (q - 1) by lia. replace (Z.max 0 (- - q)) with q by lia. ring.
Qed.

(* the index substituted after the repair, (stop - start - sign(step)) // step, is (number of iterations) - 1 *)
Lemma last_index_arith n s : s <> 0 -> 0 < - ((- n) / s) -> (n - Z.sgn s) / s = - ((- n) / s) - 1.
Proof.
  intros Hs Hc. destruct (Z_lt_le_dec 0 s) as [Hp|Hn].
  - rewrite Z.sgn_pos by lia.
    pose proof (Z.div_mod (n - 1) s Hs). pose proof (Z.div_mod (-n) s Hs). pose proof (Z.mod_pos_bound (n - 1) s Hp).
    pose proof (Z.mod_pos_bound (-n) s Hp). nia.
  - assert (Hn' : s < 0) by lia. rewrite Z.sgn_neg by lia.
    pose proof (Z.div_mod (n - -1) s Hs). pose proof (Z.div_mod (-n) s Hs). pose proof (Z.mod_neg_bound (n - -1) s Hn').
    pose proof (Z.mod_neg_bound (-n) s Hn'). nia.
Qed.

Lemma last_index_ok a o s ks : py_range a o s = Some ks -> ks <> [] -> last_index a o s = last ks 0.
Proof.
  intros H Hne. rewrite (py_range_last_ceil _ _ _ _ H Hne).
  destruct (py_range_spec _ _ _ _ H) as (Hs & Hlen & _).
  rewrite range_len_ceil in Hlen by assumption. rewrite Qceil_div in * by assumption.
  assert (Hpos : 0 < - (- (o - a) / s)) by (destruct ks; [congruence|cbn [length] in Hlen; lia]).
  unfold last_index. rewrite (last_index_arith (o - a) s Hs Hpos). f_equal. f_equal. lia.
Qed.

(* the PRE-REPAIR (floor) index was right EXACTLY when: the step divides the span, or the loop has a single iteration *)
Lemma floor_exact_arith n s : s <> 0 -> 0 < - ((- n) / s) ->
  (Z.max (n / s - 1) 0 * s = (- ((- n) / s) - 1) * s <-> (n mod s = 0 \/ - ((- n) / s) = 1)).
Proof.
  intros Hs Hc. split.
  - intros H. assert (H' : Z.max (n / s - 1) 0 = - (- n / s) - 1) by nia. clear H.
    destruct (Z.eq_dec (n mod s) 0) as [E|E]; [left; exact E|right].
    assert (Hq : - (- n / s) = n / s + 1).
    { pose proof (Z.div_mod n s Hs). pose proof (Z.div_mod (-n) s Hs). pose proof (Z.mod_pos_bound n s). pose proof (Z.mod_neg_bound n s).
      pose proof (Z.mod_pos_bound (-n) s). pose proof (Z.mod_neg_bound (-n) s). nia. }
    lia.
  - intros [H|H].
    + assert (Hq : - (- n / s) = n / s).
      { pose proof (Z.div_mod n s Hs). pose proof (Z.div_mod (-n) s Hs). pose proof (Z.mod_pos_bound (-n) s). pose proof (Z.mod_neg_bound (-n) s). nia. }
      rewrite Hq in *. f_equal. lia.
    + rewrite H.
      assert (Hq : n / s <= 1).
      { pose proof (Z.div_mod n s Hs). pose proof (Z.div_mod (-n) s Hs). pose proof (Z.mod_pos_bound n s). pose proof (Z.mod_neg_bound n s).
        pose proof (Z.mod_pos_bound (-n) s). pose proof (Z.mod_neg_bound (-n) s). nia. }
      f_equal. lia.
Qed.

Lemma floor_final_index_exact a o s ks : py_range a o s = Some ks -> ks <> [] ->
  (floor_final_index a o s = last ks 0 <-> ((o - a) mod s = 0 \/ length ks = 1%nat)).
Proof.
  intros H Hne. rewrite (py_range_last_ceil _ _ _ _ H Hne).
  destruct (py_range_spec _ _ _ _ H) as (Hs & Hlen & _).
  rewrite range_len_ceil in Hlen by assumption. rewrite Qceil_div in * by assumption.
  assert (Hpos : 0 < - (- (o - a) / s)) by (destruct ks; [congruence|cbn [length] in Hlen; lia]).
  replace (Z.max 0 (- (- (o - a) / s))) with (- (- (o - a) / s)) in * by lia.
  unfold floor_final_index. pose proof (floor_exact_arith (o - a) s Hs Hpos) as HE.
  split.
  - intros Hx. assert (Hy : Z.max ((o - a) / s - 1) 0 * s = (- (- (o - a) / s) - 1) * s) by lia.
    apply HE in Hy. destruct Hy as [Hy|Hy]; [left; exact Hy|right; lia].
  - intros [Hx|Hx]; [|assert (Hy : - (- (o - a) / s) = 1) by lia]; [apply or_introl with (B := - (- (o - a) / s) = 1) in Hx|apply or_intror with (A := (o - a) mod s = 0) in Hy];
      [apply HE in Hx|apply HE in Hy]; lia.
Qed.

Lemma floor_final_index_wrong : exists a o s ks, py_range a o s = Some ks /\ ks <> [] /\ floor_final_index a o s <> last ks 0.
Proof. exists 0, 5, 2, [0; 2; 4]. split; [reflexivity|]. split; [discriminate|]. vm_compute. discriminate. Qed.

Lemma floor_final_index_wrong_neg : exists a o s ks, s < 0 /\ py_range a o s = Some ks /\ ks <> [] /\ floor_final_index a o s <> last ks 0.
Proof. exists 5, 0, (-2), [5; 3; 1]. split; [lia|]. split; [reflexivity|]. split; [discriminate|]. vm_compute. discriminate. Qed.

(* ---- polynomials: the antiderivative used as the integral of a polynomial piece is a formal antiderivative ---- *)
Open Scope Q_scope.

Lemma pderiv_panti_from k p : Forall2 Qeq (pderiv_from k (panti_from k p)) p.
Proof.
  revert k; induction p as [|c r IH]; intros k; simpl; constructor; [|apply IH].
  field. unfold inject_Z. intros H. inversion H.
Qed.

(* d/dt (antiderivative p) = p, coefficient-wise, and the antiderivative vanishes at 0 *)
Lemma pderiv_panti p : Forall2 Qeq (pderiv (panti p)) p.
Proof. unfold panti, pderiv. apply pderiv_panti_from. Qed.

Lemma panti_at_0 p : peval (panti p) 0 == 0.
Proof. unfold panti; simpl. ring. Qed.

Lemma pint_0 p : pint p 0 == 0.
Proof. apply panti_at_0. Qed.

Lemma peval_panti_from_const k v d : peval (panti_from k [v]) d == v / inject_Z (Zpos k).
Proof. simpl. ring. Qed.

(* integral of a constant / of a linear segment: rectangle and trapezoid *)
Lemma pint_const v d : pint [v] d == v * d.
Proof. unfold pint, panti; simpl. field. Qed.

Lemma pint_linear v0 m d : pint [v0; m] d == d * (v0 + (v0 + m * d)) / 2.
Proof. unfold pint, panti; simpl. field. Qed.
