(* C07 — the OBJECT discipline of `integral` / `initial_values` / `final_values`: which dictionary OBJECT a query returns and
   which dictionary objects it writes to, class by class as the code is (round 3, the aliasing / history class of inputs).

   Python dictionaries are mutable objects.  In the code
     - atoms, MappingPT, AtomicMultiChannelPT, ArithmeticPT, ArithmeticAtomicPT, RepetitionPT.integral,
       SequencePT.integral, ForLoopPT.integral build a NEW dictionary (comprehension / `dict(lhs)` / `{}` + update),
     - SequencePT.initial_values / final_values and RepetitionPT.initial_values / final_values hand the dictionary object
       of the first / last / only child THROUGH (`return self.body.initial_values`),
     - ForLoopPT.initial_values / final_values and all three properties of ParallelChannelPT take the dictionary object the
       body returned and OVERWRITE ITS ENTRIES IN PLACE (`values[ch] = ...`, `integral[channel] = ...`).
   So whether a query on one template can change an answer given for another template (or given earlier for the same one)
   depends on whether the dictionary that is written to is reachable from anywhere else.  The heap below makes that
   explicit: a location is a dictionary object, `hquery q p h` is the query `p.<q>` run on heap h and returns the location
   of the returned dictionary together with the new heap.  Theorem C07_history_independent (ProofsHist.v): every location
   written by a query was allocated by that same query, hence every answer is `Model.quant q p` — a function of the
   template alone — and stays so whatever is queried afterwards on whatever template.  Templates carry no mutable state
   in this discipline, so sharing sub-template objects between templates is invisible; `cached_const_*` at the end is the
   discipline of seed C07-4 (a ConstantPT that memoises its dictionary), for which the statement fails.
   Definitions only. *)
From Coq Require Import ZArith QArith List Bool.
Require Import QV.C07.Model.
Import ListNotations.
Open Scope Q_scope.

Definition heap := list dict.
Definition hget (h : heap) (l : nat) : dict := nth l h [].
Fixpoint hset (h : heap) (l : nat) (d : dict) : heap :=
  match h, l with
  | [], _ => []
  | _ :: r, O => d :: r
  | x :: r, S l' => x :: hset r l' d
  end.
Definition halloc (h : heap) (d : dict) : nat * heap := (length h, h ++ [d]).
(* the dictionary object at the returned location is rewritten in place *)
Definition hmod (f : dict -> dict) (lh : nat * heap) : nat * heap :=
  (fst lh, hset (snd lh) (fst lh) (f (hget (snd lh) (fst lh)))).
(* a new dictionary object computed from the returned one *)
Definition hnew (f : dict -> dict) (lh : nat * heap) : nat * heap := halloc (snd lh) (f (hget (snd lh) (fst lh))).

Definition par_upd (q : quantity) (b : pt) (ov : list (chan * list expr)) : dict :=
  let timedep (cf : list expr) := match cf with _ :: _ :: _ => true | _ => false end in
  match q with
  | QIntegral => map (fun kv => (fst kv, if timedep (snd kv) then poly_int_from 0 (duration_expr b) (snd kv)
                                         else EMul (poly_expr (snd kv)) (duration_expr b))) ov
  | QInitial => map (fun kv => (fst kv, if timedep (snd kv) then ELet [(tvar, e0)] (poly_expr (snd kv))
                                        else poly_expr (snd kv))) ov
  | QFinal => map (fun kv => (fst kv, if timedep (snd kv) then ELet [(tvar, duration_expr b)] (poly_expr (snd kv))
                                      else poly_expr (snd kv))) ov
  end.

Definition arith_scalar (q : quantity) (b : pt) (op : aop) (s : scalar) : dict :=
  let sd := scalar_as_dict s (channels b) in
  match q with
  | QIntegral => match op with OAdd | OSub => dmap (fun v => EMul v (duration_expr b)) sd | _ => sd end
  | _ => sd
  end.

Fixpoint hquery (q : quantity) (p : pt) (h : heap) {struct p} : nat * heap :=
  match p with
  | Table _ | Point _ _ | Const _ _ | Func _ _ _ => halloc h (quant q p)          (* dict comprehension *)
  | Seq ps =>
      match q with
      | QIntegral =>      (* reduce(add_dicts, [sub.integral for sub in subtemplates], {c: 0 ...}): new dictionaries *)
          let acc_h :=
            (fix go (acc : dict) (l : list pt) (h : heap) : dict * heap :=
               match l with
               | [] => (acc, h)
               | s :: r => let lh := hquery QIntegral s h in
                           let sd := hget (snd lh) (fst lh) in
                           go (map (fun kv => (fst kv, EAdd (snd kv) (match dget (fst kv) sd with Some e => e | None => EV tvar end))) acc)
                              r (snd lh)
               end) (map (fun c => (c, e0)) (channels p)) ps h in
          halloc (snd acc_h) (fst acc_h)
      | QInitial => match ps with [] => halloc h [] | s :: _ => hquery QInitial s h end      (* handed through *)
      | QFinal => (fix go (l : list pt) (h : heap) : nat * heap :=
                     match l with [] => halloc h [] | [s] => hquery QFinal s h | _ :: r => go r h end) ps h
      end
  | Rep n b =>
      match q with
      | QIntegral => hnew (dmap (fun v => EMul n v)) (hquery QIntegral b h)
      | _ => hquery q b h                                                           (* handed through *)
      end
  | For i start stop step b =>
      match q with
      | QIntegral => hnew (dmap (fun v => EIfLe (loop_count start stop step) e0 e0 (loop_sum i start stop step v)))
                          (hquery QIntegral b h)
      | QInitial => hmod (dmap (fun v => ELet [(i, start)] v)) (hquery QInitial b h)                    (* IN PLACE *)
      | QFinal => hmod (dmap (fun v => ELet [(i, loop_final_index start stop step)] v)) (hquery QFinal b h)   (* IN PLACE *)
      end
  | Map b pm cm => hnew (map_dict pm cm) (hquery q b h)
  | Multi ps =>
      let acc_h :=
        (fix go (acc : dict) (l : list pt) (h : heap) : dict * heap :=
           match l with
           | [] => (acc, h)
           | s :: r => let lh := hquery q s h in go (dupdate acc (hget (snd lh) (fst lh))) r (snd lh)
           end) [] ps h in
      halloc (snd acc_h) (fst acc_h)
  | Par b ov => hmod (fun d => dupdate d (par_upd q b ov)) (hquery q b h)                                (* IN PLACE *)
  | ArithL b op s => hnew (fun d => apply_op_dict op d (arith_scalar q b op s)) (hquery q b h)           (* dict(lhs) *)
  | ArithR s op b => hnew (fun d => apply_op_dict op (arith_scalar q b op s) d) (hquery q b h)
  | AAtom l op r =>
      let lh1 := hquery q l h in
      let lh2 := hquery q r (snd lh1) in
      halloc (snd lh2) (apply_op_dict op (hget (snd lh2) (fst lh1)) (hget (snd lh2) (fst lh2)))
  end.

(* a history: queries on arbitrary templates (sharing sub-templates or not: templates have no state), one after the
   other on the same heap; returns the locations of the answers *)
Fixpoint run_history (hs : list (quantity * pt)) (h : heap) : list nat * heap :=
  match hs with
  | [] => ([], h)
  | (q, p) :: r => let lh := hquery q p h in
                   let res := run_history r (snd lh) in
                   (fst lh :: fst res, snd res)
  end.

(* ------------------------------------------------------------------------------------------------------------ *)
(* seed C07-4's discipline: ConstantPT.initial_values / final_values memoised (functools.cached_property): the FIRST
   query allocates the dictionary, every later query returns the same object.  `cache` is the memo slot of one
   ConstantPT object (shared by the loops built around it). *)
Definition cached_const_query (vals : dict) (cache : option nat) (h : heap) : nat * heap * option nat :=
  match cache with
  | Some l => (l, h, cache)
  | None => let lh := halloc h vals in (fst lh, snd lh, Some (fst lh))
  end.
(* ForLoopPT(<that object>, i, (start, ...)).initial_values: the body's dictionary rewritten in place, as in hquery *)
Definition for_initial_over_cached (i : var) (start : expr) (vals : dict) (cache : option nat) (h : heap)
  : nat * heap * option nat :=
  let '(l, h1, cache') := cached_const_query vals cache h in
  let lh := hmod (dmap (fun v => ELet [(i, start)] v)) (l, h1) in
  (fst lh, snd lh, cache').
