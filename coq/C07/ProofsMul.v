(* C07 — proofs, round 3: the coefficient expressions of the embedded product template (Embed.arith_tm) evaluate to the
   coefficients of the product polynomial, whose value at every time is (voltage of the inner atom) * (scalar at t). *)
From Coq Require Import ZArith QArith List Bool Lia Lra Lqa.
Require Import QV.C07.Model QV.C07.Spec QV.C07.Embed QV.C07.ProofsLoop.
Import ListNotations.
Open Scope Q_scope.

Definition evs (rho : env) (es : list expr) (qs : list Q) : Prop := Forall2 (fun e q => ev_eq rho e q) es qs.

Lemma evs_scale rho v X es qs : ev_eq rho v X -> evs rho es qs -> evs rho (map (EMul v) es) (map (Qmult X) qs).
Proof.
  intros (x & Ev & Hx) H. induction H as [|e q es qs (w & Ew & Hw) _ IH]; cbn [map]; constructor; [|exact IH].
  exists (x * w). cbn [eval]. rewrite Ev, Ew. split; [reflexivity|]. rewrite Hx, Hw. reflexivity.
Qed.

Lemma evs_padd rho : forall a A b B, evs rho a A -> evs rho b B -> evs rho (padd a b) (paddQ A B).
Proof.
  intros a A b B Ha. revert b B. induction Ha as [|x X a A (u & Eu & Hu) Ha IH]; intros b B Hb; [exact Hb|].
  destruct Hb as [|y Y b B (w & Ew & Hw) Hb]; cbn [padd paddQ].
  - constructor; [exists u; split; assumption|exact Ha].
  - constructor; [|apply IH; exact Hb]. exists (u + w). cbn [eval]. rewrite Eu, Ew. split; [reflexivity|]. rewrite Hu, Hw. reflexivity.
Qed.

(* the coefficient expressions of the product evaluate to the coefficients of the product polynomial *)
Theorem evs_pmul rho : forall a A b B, evs rho a A -> evs rho b B -> evs rho (pmul a b) (pmulQ A B).
Proof.
  intros a A b B Ha Hb. induction Ha as [|x X a A Hx Ha IH]; cbn [pmul pmulQ]; [constructor|].
  apply evs_padd; [apply evs_scale; assumption|].
  constructor; [exists 0; split; reflexivity|exact IH].
Qed.

(* ... and that polynomial is the pointwise product *)
Lemma peval_scale x B t : peval (map (Qmult x) B) t == x * peval B t.
Proof. induction B as [|b B IH]; cbn [map peval]; [ring|]. rewrite IH. ring. Qed.

Lemma peval_paddQ : forall A B t, peval (paddQ A B) t == peval A t + peval B t.
Proof.
  induction A as [|a A IH]; intros B t; cbn [paddQ peval]; [ring|]. destruct B as [|b B]; cbn [peval]; [ring|].
  rewrite IH. ring.
Qed.

Theorem peval_pmulQ : forall A B t, peval (pmulQ A B) t == peval A t * peval B t.
Proof.
  induction A as [|a A IH]; intros B t; cbn [pmulQ peval]; [ring|].
  rewrite peval_paddQ, peval_scale. cbn [peval]. rewrite IH. ring.
Qed.

(* the embedded template of `ConstantPT(d, {c: v}) * s(t)` / `FunctionPT(f, d, c) * s(t)` on channel c: its coefficient
   expressions evaluate to a polynomial whose value at every t is v * s(t), resp. f(t) * s(t) *)
Theorem scalar_product_const rho v X s S : ev_eq rho v X -> evs rho s S ->
  exists P, evs rho (map (EMul v) s) P /\ forall t, peval P t == X * peval S t.
Proof. intros Hv Hs. exists (map (Qmult X) S). split; [apply evs_scale; assumption|intros t; apply peval_scale]. Qed.

Theorem scalar_product_func rho f F s S : evs rho f F -> evs rho s S ->
  exists P, evs rho (pmul f s) P /\ forall t, peval P t == peval F t * peval S t.
Proof. intros Hf Hs. exists (pmulQ F S). split; [apply evs_pmul; assumption|intros t; apply peval_pmulQ]. Qed.
