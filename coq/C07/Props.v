(* C07 — property theorems (statements only; proofs live in the Proofs*.v files).
   Part A: the three full theorems (one induction over all 13 template classes each) + the duration theorem.
   Part B: the findings (refutation witnesses; the guards are in Wf.v), non-vacuity, why the side conditions are needed.
   Part C: the per-class rules of round 1 (still true, now subsumed by part A). *)
From Coq Require Import ZArith QArith Qround Bool List.
Require Import QV.C07.Model QV.C07.Spec QV.C07.Wf QV.C07.ProofsRange QV.C07.ProofsLoop QV.C07.ProofsAtoms QV.C07.ProofsSum
               QV.C07.ProofsDur QV.C07.ProofsInt QV.C07.ProofsEnds QV.C07.ProofsIni QV.C07.ProofsFin QV.C07.ProofsPad QV.C07.ProofsWit
               QV.C07.Hist QV.C07.ProofsHist QV.C07.Def QV.C07.ProofsDef QV.C07.Embed QV.C07.ProofsMul
               QV.C07.Disc QV.C07.GenDisc QV.C07.ProofsDisc.
Import ListNotations.
Open Scope Q_scope.

(* ================================================== Part A ================================================== *)
(* `wf p` (Wf.v, executable): channel ids form a set, sequence children define the same channels, coefficient expressions
   do not mention t, time dependent parallel values only over atomic templates, scalar mappings only mention the
   template's channels, no scalar / template — all enforced by the constructors of the real classes.  Round 6: the former
   domain restriction "the loop index does not occur in its own range" is GONE (such a loop is a legal input of the code):
   Model.loop_sum binds the Sum over a fresh name in that case, as ForLoopPulseTemplate._sum_index does (sympy.Dummy), and
   the induction needs no side condition on the range (C07_sum_index_fresh, C07_for_closed_form,
   C07_range_names_index_covered).
   `denote p rho = Some pcs`: the template is instantiable at rho AND inside the
   specification's domain (Spec.v; excluded besides the negative durations / counts of finding negative-duration-empty:
   a FunctionPT of duration <= 0, atomic parents over an EMPTY operand or over operands of different durations, ranges
   and repetition counts above 4096).  "The instantiated pulse" in every theorem is this denotation; that the REAL
   program equals it is established per generated case by check_corr, not by proof.
   `eval rho e = Some v`: the symbolic value evaluates to a number at rho. *)

(* duration: the symbolic duration is the total length of the instantiated pulse *)
Theorem C07_duration : forall p rho pcs v, wf p = true -> denote p rho = Some pcs ->
  eval rho (duration_expr p) = Some v -> v == total pcs.
Proof. exact duration_correct. Qed.
Print Assumptions C07_duration.

(* integral: every template tree, every environment, every channel, every range shape — no guard needed *)
Theorem C07_integral : forall p rho pcs c e v,
  wf p = true -> denote p rho = Some pcs -> dget c (integral_expr p) = Some e -> eval rho e = Some v ->
  exists x, p_int pcs c = Some x /\ v == x.
Proof. exact integral_correct. Qed.
Print Assumptions C07_integral.

(* initial value: under the guard of finding `initial-head-empty-or-jump` *)
Theorem C07_initial_guarded : forall p rho pcs c e x v,
  wf p = true -> guard_C07_initial_head p rho = true -> denote p rho = Some pcs ->
  dget c (initial_expr p) = Some e -> p_at0 pcs c = Some x -> eval rho e = Some v -> v == x.
Proof. exact initial_correct. Qed.
Print Assumptions C07_initial_guarded.

(* final value: under the guard of finding `final-tail-empty` (finding `for-final-floor` was repaired in this round:
   every range shape — step not dividing the span, negative step — is covered without a guard) *)
Theorem C07_final_guarded : forall p rho pcs c e x v,
  wf p = true -> guard_C07_final_tail p rho = true ->
  denote p rho = Some pcs -> dget c (final_expr p) = Some e -> p_end pcs c = Some x -> eval rho e = Some v -> v == x.
Proof. exact final_correct. Qed.
Print Assumptions C07_final_guarded.

(* the consequence clause of the property: padding a template to a longer duration (pad dd > 0, the evaluated final
   values vs) yields the original pulse followed by a piece that holds, on every channel, exactly the voltage x the
   unpadded pulse ends on; the duration grows by dd *)
Theorem C07_pad_holds_end_voltage : forall p rho pcs d' dd vs c x,
  wf p = true -> guard_C07_final_tail p rho = true -> denote p rho = Some pcs ->
  eval rho (ESub d' (duration_expr p)) = Some dd -> Qle_bool dd 0 = false ->
  opt_all (map (fun kv => option_map (fun q => (fst kv, q)) (eval rho (snd kv))) (final_expr p)) = Some vs ->
  p_end pcs c = Some x ->
  exists ppcs v, denote (pad_to p d') rho = Some ppcs /\ p_end ppcs c = Some v /\ v == x /\ total ppcs == total pcs + dd.
Proof. exact pad_holds_end_voltage. Qed.
Print Assumptions C07_pad_holds_end_voltage.

(* round 5: the hypotheses of C07_pad_holds_end_voltage hold together on a non-trivial template (three pieces, padded
   from duration 3 to 10, the unpadded pulse ends on 5) *)
Theorem C07_pad_nonvacuous :
  let p := For 1%N (EC 0) (EC 6) (EC 2)
               (Map (Table [(1%N, [(EC 0, EV 1%N, IHold); (EC 1, EAdd (EV 1%N) (EC 1), ILin)])]) [(2%N, EV 1%N)] [(1%N, Some 4%N)]) in
  exists pcs dd vs x,
    wf p = true /\ guard_C07_final_tail p env_empty = true /\ denote p env_empty = Some pcs /\ length pcs = 3%nat /\
    eval env_empty (ESub (EC 10) (duration_expr p)) = Some dd /\ Qle_bool dd 0 = false /\
    opt_all (map (fun kv => option_map (fun q => (fst kv, q)) (eval env_empty (snd kv))) (final_expr p)) = Some vs /\
    p_end pcs 4%N = Some x /\ x == 5 /\ dd == 7.
Proof. exact pad_nonvacuous. Qed.
Print Assumptions C07_pad_nonvacuous.

(* atomic templates denote at most one piece (used for time dependent parallel channels) *)
Theorem C07_atomic_single_piece : forall p rho pcs, atomic p = true -> denote p rho = Some pcs -> (length pcs <= 1)%nat.
Proof. exact atomic_pieces. Qed.
Print Assumptions C07_atomic_single_piece.

(* ---- independence of history (round 3; Hist.v = which dictionary OBJECT each class returns / rewrites in place) ----
   Whatever sequence of queries (integral / initial_values / final_values, on whatever templates, sharing sub-templates or
   not, repeated or not) is run on one heap of dictionary objects: at the end the k-th answer is still `quant q p` of the
   template it was asked of — a function of the template alone — and no dictionary that existed before was written to. *)
Theorem C07_history_independent : forall hs h,
  let res := run_history hs h in
  length (fst res) = length hs /\
  (forall k q p l, nth_error hs k = Some (q, p) -> nth_error (fst res) k = Some l -> hget (snd res) l = quant q p) /\
  (forall l0, (l0 < length h)%nat -> hget (snd res) l0 = hget h l0).
Proof. exact history_independent. Qed.
Print Assumptions C07_history_independent.

(* one query: the returned dictionary object is new, holds `quant q p`, and the query wrote to nothing older — although
   ForLoopPT and ParallelChannelPT overwrite the dictionary their body returned IN PLACE *)
Theorem C07_query_pure : forall q p h,
  let lh := hquery q p h in
  hget (snd lh) (fst lh) = quant q p /\ (length h <= fst lh)%nat /\
  forall l0, (l0 < length h)%nat -> hget (snd lh) l0 = hget h l0.
Proof. exact hquery_pure. Qed.
Print Assumptions C07_query_pure.

(* ... which is exactly what breaks when an atom memoises its dictionary (seed C07-4, ConstantPT.initial_values as
   cached_property): ForLoopPT(c, i, (0, 3)).initial_values then ForLoopPT(c, i, (5, 8)).initial_values over the same
   ConstantPT(1, {A: i}) object c — both answers are ONE dictionary object, the second evaluates to 0, `quant` says 5 *)
Theorem C07_cached_const_history_dependent :
  let '(l1, _, _) := c4_first in
  let '(l2, h2, _) := c4_second in
  l1 = l2 /\
  (exists e, dget 1%N (hget h2 l2) = Some e /\ eval env_empty e = Some 0) /\
  (exists e, dget 1%N (quant QInitial (For c4_i (EC 5) (EC 8) (EC 1) (Const (EC 1) c4_vals))) = Some e /\
             eval env_empty e = Some 5).
Proof. exact cached_const_history_dependent. Qed.
Print Assumptions C07_cached_const_history_dependent.

(* ---- DEFINEDNESS (round 3; Def.guard_C07_defined: the parts create_program never instantiates — values of an empty
   ConstantPT, body of a zero-fold repetition, body of a loop over an empty range — would be instantiable too, and no
   scalar divisor is 0).  Templates hit by finding negative-duration-empty need no clause: they denote nothing. ---- *)
Theorem C07_definedness : forall p rho pcs, wf p = true -> denote p rho = Some pcs -> guard_C07_defined p rho = true ->
  (exists v, eval rho (duration_expr p) = Some v) /\
  (forall q c e, dget c (quant q p) = Some e -> exists v, eval rho e = Some v).
Proof. exact definedness. Qed.
Print Assumptions C07_definedness.

(* ... which makes the statements of part A total: the symbolic value EVALUATES and equals the quantity of the pulse *)
Theorem C07_duration_total : forall p rho pcs, wf p = true -> denote p rho = Some pcs -> guard_C07_defined p rho = true ->
  exists v, eval rho (duration_expr p) = Some v /\ v == total pcs.
Proof. exact duration_total. Qed.
Print Assumptions C07_duration_total.

Theorem C07_integral_total : forall p rho pcs c e, wf p = true -> denote p rho = Some pcs -> guard_C07_defined p rho = true ->
  dget c (integral_expr p) = Some e -> exists x, p_int pcs c = Some x /\ exists v, eval rho e = Some v /\ v == x.
Proof. exact integral_total. Qed.
Print Assumptions C07_integral_total.

Theorem C07_initial_total : forall p rho pcs c e x, wf p = true -> denote p rho = Some pcs -> guard_C07_defined p rho = true ->
  guard_C07_initial_head p rho = true -> dget c (initial_expr p) = Some e -> p_at0 pcs c = Some x ->
  exists v, eval rho e = Some v /\ v == x.
Proof. exact initial_total. Qed.
Print Assumptions C07_initial_total.

Theorem C07_final_total : forall p rho pcs c e x, wf p = true -> denote p rho = Some pcs -> guard_C07_defined p rho = true ->
  guard_C07_final_tail p rho = true -> dget c (final_expr p) = Some e -> p_end pcs c = Some x ->
  exists v, eval rho e = Some v /\ v == x.
Proof. exact final_total. Qed.
Print Assumptions C07_final_total.

(* all guards hold together on a non-trivial template (loop over range(0,6,2) around a mapped table, three pieces) *)
Theorem C07_defined_nonvacuous :
  let p := For vi (EC 0) (EC 6) (EC 2) (Map loop_tab [(2%N, EV vi)] [(chA, Some 4%N)]) in
  wf p = true /\ guard_C07_defined p env_empty = true /\ guard_C07_initial_head p env_empty = true /\
  guard_C07_final_tail p env_empty = true /\ exists pcs, denote p env_empty = Some pcs /\ length pcs = 3%nat.
Proof. exact defined_nonvacuous. Qed.
Print Assumptions C07_defined_nonvacuous.

(* each clause of the guard is needed: instantiable (empty) templates with the guard false whose symbolic value does NOT
   evaluate — the values of an empty ConstantPT, the body of a zero-fold repetition, the body of a loop over an empty
   range (initial_values), a zero divisor of an empty pulse *)
Theorem C07_definedness_refuted :
  undefined_witness (Const (EC 0) [(chA, EV 5%N)]) QIntegral /\
  undefined_witness (Rep (EC 0) (Const (EC 1) [(chA, EV 5%N)])) QIntegral /\
  undefined_witness (For vi (EC 0) (EC 0) (EC 1) (Const (EC 1) [(chA, EAdd (EV vi) (EV 5%N))])) QInitial /\
  undefined_witness (ArithL (Const (EC 0) [(chA, EC 1)]) ODiv (SAll (EC 0))) QInitial.
Proof. exact definedness_refuted. Qed.
Print Assumptions C07_definedness_refuted.

(* ---- ArithmeticPT with a time dependent MULTIPLICATIVE scalar over a ConstantPT / polynomial FunctionPT (round 3):
   Embed.arith_tm replaces `pt * s(t)` by a FunctionPT per channel whose coefficient expressions are v * s_k resp. the
   convolution of the coefficients; they evaluate to a polynomial P with P(t) = v * s(t), resp. f(t) * s(t), so the
   embedded template denotes the product pulse and the theorems of part A apply to it (checked against the real
   ArithmeticPT by check_corr / check_spec on every generated case of that shape) ---- *)
Theorem C07_scalar_product_const : forall rho v X s S,
  (exists x, eval rho v = Some x /\ x == X) -> Forall2 (fun e q => exists x, eval rho e = Some x /\ x == q) s S ->
  exists P, Forall2 (fun e q => exists x, eval rho e = Some x /\ x == q) (map (EMul v) s) P /\ forall t, peval P t == X * peval S t.
Proof. exact scalar_product_const. Qed.
Print Assumptions C07_scalar_product_const.

Theorem C07_scalar_product_func : forall rho f F s S,
  Forall2 (fun e q => exists x, eval rho e = Some x /\ x == q) f F ->
  Forall2 (fun e q => exists x, eval rho e = Some x /\ x == q) s S ->
  exists P, Forall2 (fun e q => exists x, eval rho e = Some x /\ x == q) (pmul f s) P /\
            forall t, peval P t == peval F t * peval S t.
Proof. exact scalar_product_func. Qed.
Print Assumptions C07_scalar_product_func.

(* ================================================== Part B ================================================== *)
(* the unguarded statements of round 1, literally as written then (total evaluation, no well-formedness): *)
Definition C07_integral_statement : Prop := forall p rho pcs c e,
  denote p rho = Some pcs -> dget c (integral_expr p) = Some e -> exists x, p_int pcs c = Some x /\ ev_eq rho e x.
Definition C07_initial_statement : Prop := forall p rho pcs c e x,
  denote p rho = Some pcs -> dget c (initial_expr p) = Some e -> p_at0 pcs c = Some x -> ev_eq rho e x.
Definition C07_final_statement : Prop := forall p rho pcs c e x,
  denote p rho = Some pcs -> dget c (final_expr p) = Some e -> p_end pcs c = Some x -> ev_eq rho e x.

(* ... are false: the integral one only because evaluation is lazy in the code (the values of an empty ConstantPT are
   never looked at by create_program, but `integral` multiplies them with the duration) — hence `eval rho e = Some v`
   is a hypothesis of C07_integral; the other two because of the findings. *)
Theorem C07_integral_statement_refuted : ~ C07_integral_statement.
Proof. exact integral_statement_refuted. Qed.
Print Assumptions C07_integral_statement_refuted.

Theorem C07_initial_statement_refuted : ~ C07_initial_statement.
Proof. exact initial_statement_refuted. Qed.
Print Assumptions C07_initial_statement_refuted.

Theorem C07_final_statement_refuted : ~ C07_final_statement.
Proof. exact final_statement_refuted. Qed.
Print Assumptions C07_final_statement_refuted.

(* finding initial-head-empty-or-jump: TablePT({'A': [(0, 1), (1, 3, 'jump')]}) — initial_values 1, plays 3 *)
Theorem C07_initial_refuted : exists p rho pcs c e x v,
  wf p = true /\ denote p rho = Some pcs /\ dget c (initial_expr p) = Some e /\ p_at0 pcs c = Some x /\
  eval rho e = Some v /\ ~ v == x /\ guard_C07_initial_head p rho = false.
Proof. exact initial_refuted. Qed.
Print Assumptions C07_initial_refuted.

(* the atom part of that guard is exact: on a table channel (entries L after the point prev) `head_ok` holds IFF the
   denoted voltage at time 0+ is the first entry's value v0 *)
Theorem C07_initial_head_guard_exact : forall v0 L prev,
  head_ok v0 prev L = true <-> f_at0 (FSegs (segs_of prev L) (snd (last_tv L prev))) == v0.
Proof. exact head_ok_exact. Qed.
Print Assumptions C07_initial_head_guard_exact.

(* finding final-tail-empty: ConstantPT(1, {'A': 1}) @ ConstantPT(0, {'A': 5}) — final_values 5, ends on 1 *)
Theorem C07_final_tail_refuted : exists p rho pcs c e x v,
  wf p = true /\ denote p rho = Some pcs /\ dget c (final_expr p) = Some e /\ p_end pcs c = Some x /\
  eval rho e = Some v /\ ~ v == x /\ guard_C07_final_tail p rho = false.
Proof. exact final_tail_refuted. Qed.
Print Assumptions C07_final_tail_refuted.

(* the former finding for-final-floor on a whole template:
   ForLoopPT(TablePT({'A': [(0,'i'), (1,'i+1','linear')]}), 'i', (0,5,2)) — the pre-repair final_values gave 3, the pulse
   ends on 5; the repaired model gives 5 although the old guard (floor index = last index) is false on this input *)
Theorem C07_final_floor_repaired : exists p rho pcs c e x v,
  wf p = true /\ denote p rho = Some pcs /\ dget c (final_expr p) = Some e /\ p_end pcs c = Some x /\
  eval rho e = Some v /\ v == x /\ x == 5 /\ guard_C07_final_tail p rho = true /\ guard_C07_for_final_floor_path p rho = false.
Proof. exact final_floor_repaired. Qed.
Print Assumptions C07_final_floor_repaired.

(* the guards are satisfiable by a non-trivial template: a for-loop over range(0,6,2) around a mapped table,
   three pieces, all hypotheses of the three theorems hold and all three symbolic values evaluate *)
Theorem C07_guards_nonvacuous : exists p rho pcs c,
  wf p = true /\ guard_C07_initial_head p rho = true /\ guard_C07_final_tail p rho = true /\
  denote p rho = Some pcs /\ (length pcs = 3)%nat /\
  (exists e v, dget c (integral_expr p) = Some e /\ eval rho e = Some v) /\
  (exists e v x, dget c (initial_expr p) = Some e /\ eval rho e = Some v /\ p_at0 pcs c = Some x) /\
  (exists e v x, dget c (final_expr p) = Some e /\ eval rho e = Some v /\ p_end pcs c = Some x).
Proof. exact guards_nonvacuous. Qed.
Print Assumptions C07_guards_nonvacuous.

(* the index final_values substitutes after the repair is the last element of every non-empty Python range *)
Theorem C07_final_index_correct : forall a o s ks, py_range a o s = Some ks -> ks <> [] -> last_index a o s = last ks 0%Z.
Proof. exact last_index_ok. Qed.
Print Assumptions C07_final_index_correct.

(* what the repair changed, exactly: the PRE-REPAIR (floor) index was the last index IFF the step divides the span or
   the loop has exactly one iteration (range(0,1,2)); the defect class was: step does not divide the span AND >= 2
   iterations (guard_C07_for_final_floor_path in Wf.v is this predicate along the structurally last path) *)
Theorem C07_floor_guard_exact : forall a o s ks, py_range a o s = Some ks -> ks <> [] ->
  (floor_final_index a o s = last ks 0%Z <-> ((o - a) mod s = 0 \/ length ks = 1%nat)%Z).
Proof. exact floor_final_index_exact. Qed.
Print Assumptions C07_floor_guard_exact.

Theorem C07_floor_guard_divides : forall a o s ks, py_range a o s = Some ks -> ks <> [] -> ((o - a) mod s = 0)%Z ->
  floor_final_index a o s = last ks 0%Z.
Proof. exact floor_final_index_ok. Qed.
Print Assumptions C07_floor_guard_divides.

Theorem C07_floor_guard_not_only_divides : exists a o s ks, py_range a o s = Some ks /\ ks <> [] /\
  ((o - a) mod s <> 0)%Z /\ floor_final_index a o s = last ks 0%Z.
Proof. exact floor_guard_nondividing. Qed.
Print Assumptions C07_floor_guard_not_only_divides.

(* ================================================== Part C ================================================== *)

(* ---- Python range vs. the closed forms of ForLoopPT ---- *)
Theorem C07_range_count : forall a o s, (s <> 0)%Z ->
  range_len a o s = Z.max 0 (Qceil (inject_Z (o - a) / inject_Z s)).
Proof. exact range_len_ceil. Qed.
Print Assumptions C07_range_count.

Theorem C07_range_last_ceiling : forall a o s ks, py_range a o s = Some ks -> ks <> [] ->
  last ks 0%Z = (a + (Z.max 0 (Qceil (inject_Z (o - a) / inject_Z s)) - 1) * s)%Z.
Proof. exact py_range_last_ceil. Qed.
Print Assumptions C07_range_last_ceiling.

(* ForLoopPT.integral (and .duration): Piecewise((0, count <= 0), (Sum(body[i -> start + i*step], (i, 0, Max(count,1)-1)), True))
   evaluates to the sum of the body's values over the Python range — every range shape, unbounded; round 6: no
   independence hypothesis on start / step any more (the range may mention the loop index's own name) *)
Theorem C07_integral_partial_for : forall rho i start stop step e a o s ks (f : Z -> Q),
  int_val rho start a -> int_val rho stop o -> int_val rho step s ->
  py_range a o s = Some ks ->
  body_rule rho i e ks f ->
  ev_eq rho (EIfLe (loop_count start stop step) e0 e0 (loop_sum i start stop step e)) (sumZ f ks).
Proof. exact for_sum_correct. Qed.
Print Assumptions C07_integral_partial_for.

(* ROUND 6 — clause "every iteration range", sub-case "the range names its own loop index" (was: outside wf, tested only).
   The bound symbol of the Sum (ForLoopPulseTemplate._sum_index: the loop index, or a sympy.Dummy when the range's parameter
   names contain it) is never mentioned by start / step, and is the loop index or a name the summand does not mention —
   for EVERY loop, so the closed form cannot capture *)
Theorem C07_sum_index_fresh : forall i start stop step e,
  fvb (sum_index i start stop step e) start = false /\ fvb (sum_index i start stop step e) step = false /\
  (sum_index i start stop step e = i \/ fvb (sum_index i start stop step e) e = false).
Proof. exact sum_index_ok. Qed.
Print Assumptions C07_sum_index_fresh.

(* the closed form, whenever it evaluates, is the sum of the summand over the Python range with the LOOP INDEX bound to
   each element — no condition on the range, no condition on the summand (this is the step of C07_duration / C07_integral
   at a ForLoopPT; before round 6 it needed `fvb i start = false`, `fvb i step = false` from wf) *)
Theorem C07_for_closed_form : forall rho i start stop step e a o s ks v,
  as_int (eval rho start) = Some a -> as_int (eval rho stop) = Some o -> as_int (eval rho step) = Some s ->
  py_range a o s = Some ks ->
  eval rho (EIfLe (loop_count start stop step) e0 e0 (loop_sum i start stop step e)) = Some v ->
  exists w, sum_list (fun k => eval (env_upd rho i (Some (inject_Z k))) e) ks = Some w /\ v == w.
Proof. exact for_closed_form. Qed.
Print Assumptions C07_for_closed_form.

(* non-vacuity inside the new part of the domain, and why the fresh symbol is needed: ForLoopPT(ConstantPT('1+i', {A: 'i'}),
   'i', ('i', 'i+2')) at i = 3 is wf, denotes two pieces of total length 9, duration evaluates to 9, integral to 32; the
   Sum bound over the loop index itself (pre-repair code, 7d773a1) evaluates to 4 *)
Theorem C07_range_names_index_covered :
  let p := For 1%N (EV 1%N) (EAdd (EV 1%N) (EC 2)) (EC 1) (Const (EAdd (EC 1) (EV 1%N)) [(1%N, EV 1%N)]) in
  let rho := env_upd env_empty 1%N (Some 3) in
  let capturing := ESum 1%N e0 (ESub (EMax (loop_count (EV 1%N) (EAdd (EV 1%N) (EC 2)) (EC 1)) e1) e1)
                        (ELet [(1%N, EAdd (EV 1%N) (EMul (EV 1%N) (EC 1)))] (EAdd (EC 1) (EV 1%N))) in
  exists pcs d e x,
    wf p = true /\ fvb 1%N (EV 1%N) = true /\ denote p rho = Some pcs /\ length pcs = 2%nat /\
    eval rho (duration_expr p) = Some d /\ d == 9 /\ total pcs == 9 /\
    dget 1%N (integral_expr p) = Some e /\ eval rho e = Some x /\ x == 32 /\
    eval rho capturing = Some 4.
Proof. exact range_names_index_witness. Qed.
Print Assumptions C07_range_names_index_covered.

(* the specification side of the same rule: integrals add over concatenated pieces *)
Theorem C07_integral_partial_concat : forall a b c x y, p_int a c = Some x -> p_int b c = Some y ->
  exists z, p_int (a ++ b) c = Some z /\ z == x + y.
Proof. exact p_int_app. Qed.
Print Assumptions C07_integral_partial_concat.

Theorem C07_initial_partial_for : forall rho i start a e (f : Z -> Q) ks o s,
  int_val rho start a -> py_range a o s = Some ks -> ks <> [] ->
  body_rule rho i e ks f ->
  ev_eq rho (ELet [(i, start)] e) (f (hd 0%Z ks)).
Proof. exact for_initial_correct. Qed.
Print Assumptions C07_initial_partial_for.

(* ForLoopPT.final_values (repaired form): the substituted index is the last iteration's — every non-empty range *)
Theorem C07_final_partial_for : forall rho i start stop step e a o s ks (f : Z -> Q),
  int_val rho start a -> int_val rho stop o -> int_val rho step s ->
  py_range a o s = Some ks -> ks <> [] ->
  body_rule rho i e ks f ->
  ev_eq rho (ELet [(i, loop_final_index start stop step)] e) (f (last ks 0%Z)).
Proof. exact for_final_correct. Qed.
Print Assumptions C07_final_partial_for.

(* the pre-repair index was wrong also for negative steps: range(5,0,-2) -> 3 instead of 1 *)
Theorem C07_final_index_refuted_negative_step :
  exists a o s ks, (s < 0)%Z /\ py_range a o s = Some ks /\ ks <> [] /\ floor_final_index a o s <> last ks 0%Z.
Proof. exact floor_final_index_wrong_neg. Qed.
Print Assumptions C07_final_index_refuted_negative_step.

(* ---- atoms ---- *)
(* TablePT: integral[c] (TableEntry._sequence_integral over pre entry + entries + post entry) is the exact integral of
   the denoted channel, for every entry list with non-decreasing times (zero-length steps included) *)
Theorem C07_integral_partial_table : forall rho es l dexp D t0e v0e ip0 es' t0 v0 ipn l' vle,
  es = (t0e, v0e, ip0) :: es' -> l = (t0, v0, ipn) :: l' ->
  Forall2 (fun e n => eval_entry rho e = Some n) es l ->
  eval rho dexp = Some D ->
  (match last es (e0, e0, IHold) with (_, v, _) => v end) = vle ->
  Qle_bool 0 t0 = true -> times_ok t0 (l ++ [(D, snd (last_tv l (t0, v0)), IHold)]) = true ->
  exists f, table_chfun D l = Some f /\
            ev_eq rho (sequence_integral e0 (e0, v0e) (es ++ [(dexp, vle, IHold)])) (f_int D f).
Proof. exact table_channel_integral. Qed.
Print Assumptions C07_integral_partial_table.

Theorem C07_integral_partial_constant : forall rho d v dd vv, eval rho d = Some dd -> eval rho v = Some vv ->
  ev_eq rho (EMul d v) (f_int dd (FSegs [(dd, [vv])] vv)).
Proof. exact const_integral. Qed.
Print Assumptions C07_integral_partial_constant.

Theorem C07_integral_partial_function : forall rho d dd coef cf, eval rho d = Some dd ->
  Forall2 (fun e q => eval rho e = Some q) coef cf ->
  ev_eq rho (poly_int_from 0 d coef) (f_int dd (FSegs [(dd, cf)] (peval cf dd))).
Proof. exact func_integral. Qed.
Print Assumptions C07_integral_partial_function.

(* the integral of a polynomial piece used by the specification is a formal antiderivative vanishing at 0 *)
Theorem C07_poly_antiderivative : forall p, Forall2 Qeq (pderiv (panti p)) p /\ peval (panti p) 0 == 0.
Proof. intros p. split; [apply pderiv_panti|apply panti_at_0]. Qed.
Print Assumptions C07_poly_antiderivative.

(* ---- pad_to ---- *)
Theorem C07_pad : forall p rho pcs d' dd vs,
  denote p rho = Some pcs ->
  eval rho (ESub d' (duration_expr p)) = Some dd -> Qle_bool dd 0 = false ->
  opt_all (map (fun kv => option_map (fun q => (fst kv, q)) (eval rho (snd kv))) (final_expr p)) = Some vs ->
  denote (pad_to p d') rho = Some (pcs ++ [(dd, map (fun kv => (fst kv, FSegs [(dd, [snd kv])] (snd kv))) vs)]).
Proof. exact pad_to_denote. Qed.
Print Assumptions C07_pad.

Theorem C07_pad_holds_final_value : forall p rho pcs d' dd vs c v,
  denote p rho = Some pcs ->
  eval rho (ESub d' (duration_expr p)) = Some dd -> Qle_bool dd 0 = false ->
  opt_all (map (fun kv => option_map (fun q => (fst kv, q)) (eval rho (snd kv))) (final_expr p)) = Some vs ->
  dget c vs = Some v ->
  exists ppcs, denote (pad_to p d') rho = Some ppcs /\ p_end ppcs c = Some v.
Proof. exact pad_to_end. Qed.
Print Assumptions C07_pad_holds_final_value.

(* ---- round 4: the object discipline of Hist.hquery is the one of the SOURCE ---- *)
(* Hist.hquery, class by class and property by property, follows the table Disc.hist_disc: a new dictionary / the
   sub-template's dictionary handed through / the sub-template's dictionary rewritten in place *)
Theorem C07_hquery_discipline : forall q p h, follows (hist_disc (cls_of p) q) q p h.
Proof. exact hquery_discipline. Qed.
Print Assumptions C07_hquery_discipline.

(* GenDisc.src_disc is read off the Python AST of the twelve classes on every run (harness/props/c07_disc.py, fail
   closed): wherever the source hands a sub-template's dictionary through or rewrites it in place, hquery does exactly
   that; where the source creates a new dictionary hquery may share (never the other way round) *)
Theorem C07_hquery_follows_source_discipline :
  table_le src_disc hist_disc = true /\
  forall q p h, match src_disc (cls_of p) q with DNew => True | d => follows d q p h end.
Proof. split; [exact source_table_le|exact hquery_follows_source]. Qed.
Print Assumptions C07_hquery_follows_source_discipline.

Example C07_source_discipline_nonvacuous :
  src_disc KFor QInitial = DInPlace /\ src_disc KSeq QFinal = DThrough /\ src_disc KConst QInitial = DNew.
Proof. exact source_shares. Qed.
