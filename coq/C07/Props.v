(* C07 — property theorems (statements only; proofs live in Proofs.v). *)
From Coq Require Import ZArith QArith Bool List.
Require Import QV.C07.Model QV.C07.Spec.
