(* C07 — the independent specification: what pulse a template denotes at concrete parameters (a list of pieces, each
   with a duration and per channel a piecewise-polynomial voltage), and from the pieces the exact time integral, the
   voltage at time 0 and the voltage the pulse ends on.  Nothing here looks at `integral`/`initial_values`/
   `final_values`; loops are unrolled over the Python range, repetitions are repeated, sequences concatenated. *)
From Coq Require Import ZArith QArith Qround List Bool.
Require Import QV.C07.Model.
Import ListNotations.
Open Scope Q_scope.

(* polynomials over Q in local time, coefficient list c0 :: c1 :: ... *)
Fixpoint peval (p : list Q) (t : Q) : Q := match p with [] => 0 | c :: r => c + t * peval r t end.
(* formal antiderivative with constant term 0, and formal derivative *)
Fixpoint panti_from (k : positive) (p : list Q) : list Q :=
  match p with [] => [] | c :: r => (c / inject_Z (Zpos k)) :: panti_from (Pos.succ k) r end.
Definition panti (p : list Q) : list Q := 0 :: panti_from 1 p.
Fixpoint pderiv_from (k : positive) (p : list Q) : list Q :=
  match p with [] => [] | c :: r => (inject_Z (Zpos k) * c) :: pderiv_from (Pos.succ k) r end.
Definition pderiv (p : list Q) : list Q := match p with [] => [] | _ :: r => pderiv_from 1 r end.
(* integral of p over [0, d] *)
Definition pint (p : list Q) (d : Q) : Q := peval (panti p) d.

(* voltage of one channel on one piece *)
Inductive chfun :=
| FSegs (segs : list (Q * list Q)) (endv : Q)   (* consecutive segments (length > 0, polynomial in segment-local time);
                                                   endv = the voltage specified at the end of the piece *)
| FAff (a b : Q) (f : chfun)                    (* a * f + b *)
| FAdd (f g : chfun)
| FSub (f g : chfun).

Fixpoint f_int (d : Q) (f : chfun) : Q :=       (* d = duration of the piece *)
  match f with
  | FSegs segs _ => fold_right (fun s acc => pint (snd s) (fst s) + acc) 0 segs
  | FAff a b g => a * f_int d g + b * d
  | FAdd g h => f_int d g + f_int d h
  | FSub g h => f_int d g - f_int d h
  end.
Fixpoint f_at0 (f : chfun) : Q :=
  match f with
  | FSegs segs endv => match segs with [] => endv | s :: _ => peval (snd s) 0 end
  | FAff a b g => a * f_at0 g + b
  | FAdd g h => f_at0 g + f_at0 h
  | FSub g h => f_at0 g - f_at0 h
  end.
Fixpoint f_end (f : chfun) : Q :=               (* the specified end voltage *)
  match f with
  | FSegs _ endv => endv
  | FAff a b g => a * f_end g + b
  | FAdd g h => f_end g + f_end h
  | FSub g h => f_end g - f_end h
  end.
(* left limit at the end of the piece (what sampling the last instant of the played piece gives) *)
Fixpoint f_endl (f : chfun) : Q :=
  match f with
  | FSegs segs endv => match rev segs with [] => endv | s :: _ => peval (snd s) (fst s) end
  | FAff a b g => a * f_endl g + b
  | FAdd g h => f_endl g + f_endl h
  | FSub g h => f_endl g - f_endl h
  end.
(* pointwise value at local time t in [0, d): the segment whose half-open interval contains t *)
Fixpoint segs_at (segs : list (Q * list Q)) (endv : Q) (t : Q) : Q :=
  match segs with
  | [] => endv
  | s :: r => if Qle_bool (fst s) t then segs_at r endv (t - fst s) else peval (snd s) t
  end.
Fixpoint f_at (f : chfun) (t : Q) : Q :=
  match f with
  | FSegs segs endv => segs_at segs endv t
  | FAff a b g => a * f_at g t + b
  | FAdd g h => f_at g t + f_at h t
  | FSub g h => f_at g t - f_at h t
  end.

Definition piece := (Q * list (chan * chfun))%type.
Definition pulse := list piece.
Definition total (pcs : pulse) : Q := fold_right (fun pc acc => fst pc + acc) 0 pcs.

(* exact integral of channel c over the whole pulse; None if some piece lacks the channel *)
Fixpoint p_int (pcs : pulse) (c : chan) : option Q :=
  match pcs with
  | [] => Some 0
  | pc :: r => match dget c (snd pc), p_int r c with
               | Some f, Some x => Some (f_int (fst pc) f + x)
               | _, _ => None
               end
  end.
Definition p_at0 (pcs : pulse) (c : chan) : option Q :=
  match pcs with [] => None | pc :: _ => option_map f_at0 (dget c (snd pc)) end.
Definition p_end (pcs : pulse) (c : chan) : option Q :=
  match rev pcs with [] => None | pc :: _ => option_map f_end (dget c (snd pc)) end.
Definition p_endl (pcs : pulse) (c : chan) : option Q :=
  match rev pcs with [] => None | pc :: _ => option_map f_endl (dget c (snd pc)) end.
(* the voltage 1/32 before the end of the last piece (the harness samples the real pulse there; breakpoints of
   generated pulses lie on a 1/4 grid, so this is inside the last segment) *)
Definition LATE : Q := 1 # 32.
Definition p_late (pcs : pulse) (c : chan) : option Q :=
  match rev pcs with [] => None | pc :: _ => option_map (fun f => f_at f (fst pc - LATE)) (dget c (snd pc)) end.

(* ------------------------------------------------------------------------------------------------------------ *)
(* Python range(start, stop, step) *)
Definition range_len (start stop step : Z) : Z :=
  if (0 <? step)%Z then (if (start <? stop)%Z then (stop - start - 1) / step + 1 else 0)%Z
  else if (step <? 0)%Z then (if (stop <? start)%Z then (start - stop - 1) / (- step) + 1 else 0)%Z
  else 0%Z.
Fixpoint range_from (start step : Z) (n : nat) : list Z :=
  match n with O => [] | S m => start :: range_from (start + step) step m end.
Definition RANGE_LIMIT : Z := 4096.
Definition py_range (start stop step : Z) : option (list Z) :=
  if (step =? 0)%Z then None
  else let n := range_len start stop step in
       if (RANGE_LIMIT <? n)%Z then None else Some (range_from start step (Z.to_nat n)).

Definition as_int (q : option Q) : option Z :=
  match q with Some x => if is_int x then Some (Qfloor x) else None | None => None end.

Fixpoint opt_all {A} (l : list (option A)) : option (list A) :=
  match l with
  | [] => Some []
  | Some x :: r => option_map (cons x) (opt_all r)
  | None :: _ => None
  end.

(* ------------------------------------------------------------------------------------------------------------ *)
(* tables: evaluated entries (t, v, interp) of one channel -> segments *)
Definition nentry := (Q * Q * interp)%type.
Definition eval_entry (rho : env) (e : tentry) : option nentry :=
  match e with (t, v, ip) => match eval rho t, eval rho v with Some a, Some b => Some (a, b, ip) | _, _ => None end end.

Fixpoint times_ok (prev : Q) (l : list nentry) : bool :=
  match l with [] => true | (t, _, _) :: r => Qle_bool prev t && times_ok t r end.

(* segments between consecutive entries; zero-length pairs carry no voltage *)
Fixpoint segs_of (prev : Q * Q) (l : list nentry) : list (Q * list Q) :=
  match l with
  | [] => []
  | (t, v, ip) :: r =>
      let len := t - fst prev in
      (if Qle_bool len 0 then []
       else [(len, match ip with
                   | IHold => [snd prev]
                   | IJump => [v]
                   | ILin => [snd prev; (v - snd prev) / len]
                   end)]) ++ segs_of (t, v) r
  end.
Definition last_tv (l : list nentry) (d : Q * Q) : Q * Q :=
  match last l (fst d, snd d, IHold) with (t, v, _) => (t, v) end.

(* one channel of a table of total duration D (> 0): leading hold from 0, entries, trailing hold up to D *)
Definition table_chfun (D : Q) (l : list nentry) : option chfun :=
  match l with
  | [] => None
  | (t0, v0, _) :: _ =>
      if Qle_bool 0 t0 && times_ok t0 l then
        let '(tl, vl) := last_tv l (t0, v0) in
        Some (FSegs (segs_of (0, v0) (l ++ [(D, vl, IHold)])) vl)
      else None
  end.

Definition qmax_list (l : list Q) : Q := fold_right Qmax 0 l.

Definition scalar_eval (rho : env) (s : scalar) (cs : list chan) : option (list (chan * Q)) :=
  opt_all (map (fun kv => option_map (fun q => (fst kv, q)) (eval rho (snd kv))) (scalar_as_dict s cs)).

Definition aff_of (left : bool) (op : aop) (s : option Q) : option (Q * Q) :=
  (* channel transformation of `pt op s` (left) or `s op pt`; s = None: channel not in the scalar mapping *)
  match s with
  | None => Some (if left then (1, 0) else match op with OSub => (-(1), 0) | _ => (1, 0) end)
  | Some x =>
      if left then
        match op with
        | OAdd => Some (1, x) | OSub => Some (1, - x) | OMul => Some (x, 0)
        | ODiv => if Qeq_bool x 0 then None else Some (1 / x, 0)
        end
      else
        match op with
        | OAdd => Some (1, x) | OSub => Some (-(1), x) | OMul => Some (x, 0) | ODiv => None
        end
  end.

Definition piece_aff (left : bool) (op : aop) (sv : list (chan * Q)) (pc : piece) : option piece :=
  option_map (fun chs => (fst pc, chs))
    (opt_all (map (fun cf => option_map (fun ab => (fst cf, FAff (fst ab) (snd ab) (snd cf)))
                                        (aff_of left op (dget (fst cf) sv))) (snd pc))).

Definition merge_atomic (op : aop) (l r : piece) : option piece :=
  if Qeq_bool (fst l) (fst r) then
    match op with
    | OAdd | OSub =>
        Some (fst l,
              fold_left (fun res cf =>
                           match dget (fst cf) res with
                           | Some f => dset (fst cf) (match op with OAdd => FAdd f (snd cf) | _ => FSub f (snd cf) end) res
                           | None => dset (fst cf) (match op with OAdd => snd cf | _ => FAff (-(1)) 0 (snd cf) end) res
                           end) (snd r) (snd l))
    | _ => None
    end
  else None.

Definition rename_piece (cm : list (chan * option chan)) (pc : piece) : piece :=
  (fst pc, fold_left (fun res cf => match dget (fst cf) cm with
                                    | Some None => res
                                    | Some (Some c') => dset c' (snd cf) res
                                    | None => dset (fst cf) (snd cf) res
                                    end) (snd pc) []).

Fixpoint repeat_pulse (n : nat) (pcs : pulse) : pulse := match n with O => [] | S m => pcs ++ repeat_pulse m pcs end.

(* the pulse a template denotes under the parameter assignment rho; None = not instantiable / outside the model *)
Fixpoint denote (p : pt) (rho : env) {struct p} : option pulse :=
  match p with
  | Table chs =>
      match opt_all (map (fun ch => option_map (fun l => (fst ch, l)) (opt_all (map (eval_entry rho) (snd ch)))) chs) with
      | None => None
      | Some nchs =>
          let D := qmax_list (map (fun ch => fst (last_tv (snd ch) (0, 0))) nchs) in
          match opt_all (map (fun ch => option_map (fun f => (fst ch, f)) (table_chfun D (snd ch))) nchs) with
          | None => None
          | Some fs => if Qle_bool D 0 then Some [] else Some [(D, fs)]
          end
      end
  | Point cs ents =>
      let chan_entries (k : nat) : option (list nentry) :=
        opt_all (map (fun en => match en with (t, v, ip) => eval_entry rho (t, pval_at k v, ip) end) ents) in
      match chan_entries 0%nat with
      | None => None
      | Some l0 =>
          let D := fst (last_tv l0 (0, 0)) in
          match opt_all ((fix go (k : nat) (l : list chan) : list (option (chan * chfun)) :=
                            match l with
                            | [] => []
                            | c :: r => match chan_entries k with
                                        | Some l => option_map (fun f => (c, f)) (table_chfun D l)
                                        | None => None
                                        end :: go (S k) r
                            end) 0%nat cs) with
          | None => None
          | Some fs => if Qle_bool D 0 then Some [] else Some [(D, fs)]
          end
      end
  | Const d vals =>
      match eval rho d with
      | Some dd =>
          if Qle_bool dd 0 then
            (if Qle_bool 0 dd then Some []   (* the values of an empty constant pulse are never evaluated *)
             else None)                      (* a negative duration does not denote a pulse *)
          else match opt_all (map (fun kv => option_map (fun q => (fst kv, q)) (eval rho (snd kv))) vals) with
               | Some vs => Some [(dd, map (fun kv => (fst kv, FSegs [(dd, [snd kv])] (snd kv))) vs)]
               | None => None
               end
      | None => None
      end
  | Func c d coef =>
      match eval rho d, opt_all (map (eval rho) coef) with
      | Some dd, Some cf => if Qle_bool dd 0 then None else Some [(dd, [(c, FSegs [(dd, cf)] (peval cf dd))])]
      | _, _ => None
      end
  | Seq ps =>
      (fix go (l : list pt) : option pulse :=
         match l with
         | [] => Some []
         | q :: r => match denote q rho, go r with Some a, Some b => Some (a ++ b) | _, _ => None end
         end) ps
  | Rep n b =>
      match as_int (eval rho n) with
      | Some k =>
          if (k =? 0)%Z then Some []        (* the body of a zero-fold repetition is never instantiated *)
          else match denote b rho with
               | Some pcs => if (k <? 0)%Z || (RANGE_LIMIT <? k)%Z then None else Some (repeat_pulse (Z.to_nat k) pcs)
               | None => None
               end
      | None => None
      end
  | For i start stop step b =>
      match as_int (eval rho start), as_int (eval rho stop), as_int (eval rho step) with
      | Some a, Some o, Some s =>
          match py_range a o s with
          | None => None
          | Some ks =>
              (fix go (l : list Z) : option pulse :=
                 match l with
                 | [] => Some []
                 | k :: r => match denote b (env_upd rho i (Some (inject_Z k))), go r with
                             | Some x, Some y => Some (x ++ y) | _, _ => None end
                 end) ks
          end
      | _, _, _ => None
      end
  | Map b pm cm =>
      let rho' := fold_right (fun ye acc => env_upd acc (fst ye) (eval rho (snd ye))) rho pm in
      option_map (map (rename_piece cm)) (denote b rho')
  | Multi ps =>
      (fix go (l : list pt) : option pulse :=
         match l with
         | [] => None
         | [q] => match denote q rho with Some [pc] => Some [pc] | _ => None end
         | q :: r => match denote q rho, go r with
                     | Some [pc], Some [pc'] =>
                         if Qeq_bool (fst pc) (fst pc') then Some [(fst pc, dupdate (snd pc) (snd pc'))] else None
                     | _, _ => None
                     end
         end) ps
  | Par b ov =>
      match denote b rho, opt_all (map (fun kv => option_map (fun cf => (fst kv, cf)) (opt_all (map (eval rho) (snd kv)))) ov) with
      | Some pcs, Some ovs =>
          Some (map (fun pc => (fst pc, dupdate (snd pc)
                                          (map (fun kv => (fst kv, FSegs [(fst pc, snd kv)] (peval (snd kv) (fst pc)))) ovs))) pcs)
      | _, _ => None
      end
  | ArithL b op s =>
      match denote b rho, scalar_eval rho s (channels b) with
      | Some pcs, Some sv => opt_all (map (piece_aff true op sv) pcs)
      | _, _ => None
      end
  | ArithR s op b =>
      match denote b rho, scalar_eval rho s (channels b) with
      | Some pcs, Some sv => opt_all (map (piece_aff false op sv) pcs)
      | _, _ => None
      end
  | AAtom l op r =>
      match denote l rho, denote r rho with
      | Some [pl], Some [pr] => option_map (fun pc => [pc]) (merge_atomic op pl pr)
      | _, _ => None
      end
  end.
