(* C07 — proofs, part 7: the closed form ForLoopPT builds (Piecewise / Sum / Max / ceiling with the substituted index),
   whenever it evaluates, is the sum of the body expression over the Python range with the loop index bound to each
   element — no side condition on the body any more (uses the congruence of eval, ProofsExpr.eval_rel). *)
From Coq Require Import ZArith QArith Qround List Bool Lia Lra Lqa.
Require Import QV.C07.Model QV.C07.Spec QV.C07.Wf QV.C07.ProofsRange QV.C07.ProofsLoop QV.C07.ProofsAtoms QV.C07.ProofsExpr.
Import ListNotations.
Open Scope Q_scope.

Definition sum_list (G : Z -> option Q) (ks : list Z) : option Q :=
  fold_right (fun k acc => omap2 Qplus (G k) acc) (Some 0) ks.

Lemma sum_list_cons G k r : sum_list G (k :: r) = omap2 Qplus (G k) (sum_list G r).
Proof. reflexivity. Qed.

Lemma sum_from_list (F G : Z -> option Q) a s n : forall lo,
  (forall k, oq_rel (F k) (G (a + k * s)%Z)) ->
  oq_rel (sum_from F lo n) (sum_list G (range_from (a + lo * s) s n)).
Proof.
  induction n as [|n IH]; intros lo H; cbn [sum_from range_from]; [simpl; reflexivity|].
  rewrite sum_list_cons. apply omap2_rel; [intros; apply Qplus_comp; assumption|apply H|].
  replace (a + lo * s + s)%Z with (a + (lo + 1) * s)%Z by ring. apply IH. exact H.
Qed.

Lemma as_int_val rho e z : as_int (eval rho e) = Some z -> int_val rho e z.
Proof.
  unfold as_int, int_val, ev_eq. destruct (eval rho e) as [q|]; [|discriminate].
  destruct (is_int q) eqn:E; [|discriminate]. intros H. inversion H; subst. exists q. split; [reflexivity|].
  unfold is_int in E. apply Qeq_bool_iff in E. exact E.
Qed.

Lemma py_range_from a o s ks : py_range a o s = Some ks -> (s <> 0)%Z ->
  ks = range_from a s (Z.to_nat (Z.max 0 (Qceil (inject_Z (o - a) / inject_Z s)))) /\
  (Z.max 0 (Qceil (inject_Z (o - a) / inject_Z s)) <= 4096)%Z.
Proof.
  intros Hr Hne. unfold py_range in Hr. destruct (s =? 0)%Z; [discriminate|].
  destruct (RANGE_LIMIT <? range_len a o s)%Z eqn:EL; [discriminate|]. inversion Hr.
  rewrite range_len_ceil in * by assumption. split; [reflexivity|]. unfold RANGE_LIMIT in EL. lia.
Qed.

(* ---- the bound symbol of the Sum (ForLoopPulseTemplate._sum_index) ---- *)
Definition mxl : list (var * expr) -> N :=
  fix mx (l : list (var * expr)) : N := match l with [] => 0%N | (_, e') :: r => N.max (maxvar e') (mx r) end.
Lemma maxvar_ELet bs body : maxvar (ELet bs body) = N.max (mxl bs) (maxvar body).
Proof. reflexivity. Qed.
Lemma mxl_cons y e' r : mxl ((y, e') :: r) = N.max (maxvar e') (mxl r).
Proof. reflexivity. Qed.

(* a name that occurs free is at most the largest name written *)
Lemma fvb_le_maxvar x : forall e, fvb x e = true -> (x <= maxvar e)%N.
Proof.
  induction e using expr_ind'; intros Hx.
  - discriminate.
  - cbn [fvb maxvar] in *. apply N.eqb_eq in Hx. subst. lia.
  - cbn [fvb maxvar] in *. apply orb_prop in Hx as [Hx|Hx]; [apply IHe1 in Hx|apply IHe2 in Hx]; lia.
  - cbn [fvb maxvar] in *. apply orb_prop in Hx as [Hx|Hx]; [apply IHe1 in Hx|apply IHe2 in Hx]; lia.
  - cbn [fvb maxvar] in *. apply orb_prop in Hx as [Hx|Hx]; [apply IHe1 in Hx|apply IHe2 in Hx]; lia.
  - cbn [fvb maxvar] in *. apply orb_prop in Hx as [Hx|Hx]; [apply IHe1 in Hx|apply IHe2 in Hx]; lia.
  - cbn [fvb maxvar] in *. apply IHe in Hx. lia.
  - cbn [fvb maxvar] in *. apply orb_prop in Hx as [Hx|Hx]; [apply IHe1 in Hx|apply IHe2 in Hx]; lia.
  - cbn [fvb maxvar] in *. apply IHe in Hx. lia.
  - cbn [fvb maxvar] in *. apply IHe in Hx. lia.
  - cbn [fvb maxvar] in *. apply orb_prop in Hx as [Hx|Hx]; [apply orb_prop in Hx as [Hx|Hx]|].
    + apply IHe1 in Hx. lia.
    + apply IHe2 in Hx. lia.
    + apply andb_prop in Hx as (_ & Hx). apply IHe3 in Hx. lia.
  - cbn [fvb maxvar] in *. apply orb_prop in Hx as [Hx|Hx]; [apply orb_prop in Hx as [Hx|Hx]; [apply orb_prop in Hx as [Hx|Hx]|]|].
    + apply IHe1 in Hx. lia.
    + apply IHe2 in Hx. lia.
    + apply IHe3 in Hx. lia.
    + apply IHe4 in Hx. lia.
  - rewrite fvb_ELet in Hx. rewrite maxvar_ELet. apply orb_prop in Hx as [Hx|Hx].
    + assert (x <= mxl bs)%N; [|lia]. clear IHe. induction bs as [|[y e'] r IHr]; [discriminate|].
      rewrite anyfv_cons in Hx. rewrite mxl_cons. inversion H as [|? ? He HF]; subst. cbn [snd] in He.
      apply orb_prop in Hx as [Hx|Hx]; [apply He in Hx; lia|]. specialize (IHr HF Hx). lia.
    + apply andb_prop in Hx as (_ & Hx). apply IHe in Hx. lia.
Qed.

(* what the proofs need of the bound symbol j: the range does not mention it, and it is the loop index or a name the
   summand does not mention *)
Lemma sum_index_ok i start stop step e :
  fvb (sum_index i start stop step e) start = false /\ fvb (sum_index i start stop step e) step = false /\
  (sum_index i start stop step e = i \/ fvb (sum_index i start stop step e) e = false).
Proof.
  unfold sum_index. destruct (fvb i start || fvb i stop || fvb i step) eqn:E.
  - set (j := N.succ _).
    assert (Hfr : forall x, (maxvar x < j)%N -> fvb j x = false).
    { intros x Hx. destruct (fvb j x) eqn:F; [apply fvb_le_maxvar in F; lia|reflexivity]. }
    repeat split; [apply Hfr; subst j; lia|apply Hfr; subst j; lia|right; apply Hfr; subst j; lia].
  - apply orb_false_elim in E as (E & E3). apply orb_false_elim in E as (E1 & _). auto.
Qed.

(* one term of the Sum: the summand with the index replaced by start + j*step, j bound to k, is the summand at the
   k-th element of the range *)
Lemma loop_term rho i j start step e k qa qs a s :
  fvb j start = false -> fvb j step = false -> (j = i \/ fvb j e = false) ->
  eval rho start = Some qa -> eval rho step = Some qs -> qa == inject_Z a -> qs == inject_Z s ->
  oq_rel (eval (env_upd rho j (Some (inject_Z k))) (ELet [(i, EAdd start (EMul (EV j) step))] e))
         (eval (env_upd rho i (Some (inject_Z (a + k * s)))) e).
Proof.
  intros Fa Fs Fe Ea Es Hqa Hqs. rewrite eval_ELet, let_env_cons. cbn [eval].
  rewrite (eval_indep j start) by exact Fa. rewrite (eval_indep j step) by exact Fs.
  rewrite Ea, Es, env_upd_same. cbn [omap2].
  apply eval_rel. intros y Hy. unfold let_env, env_upd. destruct (N.eqb y i) eqn:Eyi.
  - simpl. rewrite Hqa, Hqs, inject_Z_plus, inject_Z_mult. reflexivity.
  - destruct (N.eqb y j) eqn:Eyj; [|apply oq_rel_refl].
    exfalso. apply N.eqb_eq in Eyj. subst y. destruct Fe as [Fe|Fe]; [subst j; rewrite N.eqb_refl in Eyi; discriminate|congruence].
Qed.

Theorem for_closed_form rho i start stop step e a o s ks v :
  as_int (eval rho start) = Some a -> as_int (eval rho stop) = Some o -> as_int (eval rho step) = Some s ->
  py_range a o s = Some ks ->
  eval rho (EIfLe (loop_count start stop step) e0 e0 (loop_sum i start stop step e)) = Some v ->
  exists w, sum_list (fun k => eval (env_upd rho i (Some (inject_Z k))) e) ks = Some w /\ v == w.
Proof.
  intros Aa Ao As Hr Hev.
  pose proof (as_int_val _ _ _ Aa) as Ha. pose proof (as_int_val _ _ _ Ao) as Ho. pose proof (as_int_val _ _ _ As) as Hs.
  destruct (py_range_spec _ _ _ _ Hr) as (Hne & _ & _).
  pose proof (eval_loop_count rho start stop step a o s Ha Ho Hs Hne) as Ec.
  destruct (py_range_from _ _ _ _ Hr Hne) as (Hks & Hlim).
  set (cnt := Qceil (inject_Z (o - a) / inject_Z s)) in *.
  cbn [eval] in Hev. rewrite Ec in Hev. change (eval rho e0) with (Some 0) in Hev. cbv iota beta in Hev.
  pose proof (Qle_bool_inject_Z cnt 0) as Hb0. change (inject_Z 0) with 0 in Hb0. rewrite Hb0 in Hev.
  destruct (cnt <=? 0)%Z eqn:Ele.
  - assert (Hk0 : ks = []) by (rewrite Hks; replace (Z.max 0 cnt) with 0%Z by lia; reflexivity).
    subst ks. rewrite Hk0. inversion Hev; subst. exists 0. split; reflexivity.
  - assert (Hpos : (0 < cnt)%Z) by lia.
    unfold loop_sum in Hev. destruct (sum_index_ok i start stop step e) as (Fa & Fs & Fe).
    set (j := sum_index i start stop step e) in *.
    cbn [eval] in Hev. rewrite Ec in Hev.
    change (eval rho e0) with (Some 0) in Hev. change (eval rho e1) with (Some 1) in Hev. cbn [omap2] in Hev.
    assert (Hh : Qmax (inject_Z cnt) 1 - 1 == inject_Z (cnt - 1)).
    { unfold Qmax. pose proof (Qle_bool_inject_Z cnt 1) as Hb1. change (inject_Z 1) with 1 in Hb1. rewrite Hb1.
      destruct (cnt <=? 1)%Z eqn:E1.
      - assert (Hc1 : cnt = 1%Z) by lia. rewrite Hc1. reflexivity.
      - rewrite inject_Z_minus. reflexivity. }
    destruct (is_int_of_eq _ _ Hh) as (Hi & Hf).
    assert (H0i : is_int 0 = true) by reflexivity.
    rewrite H0i, Hi in Hev. cbn [andb] in Hev. rewrite Hf in Hev. change (Qfloor 0) with 0%Z in Hev.
    replace (cnt - 1 - 0 + 1)%Z with cnt in Hev by ring.
    assert (Hl : ((cnt <? 0) || (SUM_LIMIT <? cnt))%Z%bool = false) by (unfold SUM_LIMIT; lia).
    rewrite Hl in Hev.
    replace (Z.max 0 cnt) with cnt in Hks by lia.
    destruct Ha as (qa & Ea & Hqa). destruct Hs as (qs & Es & Hqs).
    pose proof (sum_from_list
      (fun k => eval (env_upd rho j (Some (inject_Z k))) (ELet [(i, EAdd start (EMul (EV j) step))] e))
      (fun k => eval (env_upd rho i (Some (inject_Z k))) e) a s (Z.to_nat cnt) 0%Z) as HS.
    replace (a + 0 * s)%Z with a in HS by ring. rewrite <- Hks in HS.
    specialize (HS (fun k => loop_term rho i j start step e k qa qs a s Fa Fs Fe Ea Es Hqa Hqs)).
    destruct (oq_rel_some_l _ _ _ Hev HS) as (w & Ew & Hw). exists w. split; assumption.
Qed.

(* ---- ForLoopPT.integral / ForLoopPT.duration, definedness direction: if the summand has the value f k whenever the
   index is bound to the element k of the range, the closed form evaluates, to the sum of f over the range.  Round 6: no
   side condition on the range any more (it may mention the loop index's own name) ---- *)
Theorem for_sum_correct rho i start stop step e a o s ks (f : Z -> Q) :
  int_val rho start a -> int_val rho stop o -> int_val rho step s ->
  py_range a o s = Some ks ->
  body_rule rho i e ks f ->
  ev_eq rho (EIfLe (loop_count start stop step) e0 e0 (loop_sum i start stop step e)) (sumZ f ks).
Proof.
  intros Ha Ho Hs Hr Hbody.
  destruct (py_range_spec _ _ _ _ Hr) as (Hne & Hlen & _).
  pose proof (eval_loop_count rho start stop step a o s Ha Ho Hs Hne) as Ec.
  set (cnt := Qceil (inject_Z (o - a) / inject_Z s)) in *.
  rewrite range_len_ceil in Hlen by assumption. fold cnt in Hlen.
  unfold ev_eq. cbn [eval]. rewrite Ec. change (eval rho e0) with (Some 0).
  cbv iota beta. pose proof (Qle_bool_inject_Z cnt 0) as Hb0. change (inject_Z 0) with 0 in Hb0. rewrite Hb0.
  destruct (cnt <=? 0)%Z eqn:Ele.
  - assert (ks = []) by (destruct ks; [reflexivity|simpl in Hlen; lia]). subst ks.
    exists 0. split; reflexivity.
  - assert (Hpos : (0 < cnt)%Z) by lia.
    unfold loop_sum. destruct (sum_index_ok i start stop step e) as (Fa & Fs & Fe).
    set (j := sum_index i start stop step e) in *.
    cbn [eval]. rewrite Ec. change (eval rho e0) with (Some 0). change (eval rho e1) with (Some 1).
    cbn [omap2].
    assert (Hh : Qmax (inject_Z cnt) 1 - 1 == inject_Z (cnt - 1)).
    { unfold Qmax. pose proof (Qle_bool_inject_Z cnt 1) as Hb1. change (inject_Z 1) with 1 in Hb1. rewrite Hb1. destruct (cnt <=? 1)%Z eqn:E1.
      - assert (Hc1 : cnt = 1%Z) by lia. rewrite Hc1. reflexivity.
      - rewrite inject_Z_minus. reflexivity. }
    destruct (is_int_of_eq _ _ Hh) as (Hi & Hf).
    assert (H0i : is_int 0 = true) by reflexivity.
    rewrite H0i, Hi. cbn [andb]. rewrite Hf. change (Qfloor 0) with 0%Z.
    replace (cnt - 1 - 0 + 1)%Z with cnt by ring.
    assert (Hlim : ((cnt <? 0) || (SUM_LIMIT <? cnt))%Z%bool = false).
    { unfold py_range in Hr. destruct (s =? 0)%Z; [discriminate|].
      destruct (RANGE_LIMIT <? range_len a o s)%Z eqn:EL; [discriminate|].
      rewrite range_len_ceil in EL by assumption. fold cnt in EL. unfold SUM_LIMIT, RANGE_LIMIT in *. lia. }
    rewrite Hlim.
    assert (Hks : ks = range_from a s (Z.to_nat cnt)).
    { unfold py_range in Hr. destruct (s =? 0)%Z; [discriminate|].
      destruct (RANGE_LIMIT <? range_len a o s)%Z; [discriminate|]. inversion Hr.
      rewrite range_len_ceil by assumption. fold cnt. f_equal. lia. }
    pose proof (sum_from_range
      (fun k => eval (env_upd rho j (Some (inject_Z k))) (ELet [(i, EAdd start (EMul (EV j) step))] e)) f a s (Z.to_nat cnt) 0%Z) as HS.
    replace (a + 0 * s)%Z with a in HS by ring. rewrite <- Hks in HS. apply HS.
    intros k Hk.
    destruct Ha as (qa & Ea & Hqa). destruct Hs as (qs & Es & Hqs).
    pose proof (loop_term rho i j start step e k qa qs a s Fa Fs Fe Ea Es Hqa Hqs) as HT.
    destruct (Hbody (a + k * s)%Z (inject_Z (a + k * s)) (env_upd rho i (Some (inject_Z (a + k * s))))) as (w & Ew & Hw).
    + rewrite Hks. replace k with (Z.of_nat (Z.to_nat k)) by lia. apply range_from_In. lia.
    + reflexivity.
    + intros x Hx. apply env_upd_other. exact Hx.
    + apply env_upd_same.
    + destruct (oq_rel_some_r _ _ _ Ew HT) as (v' & Ev' & Hv'). exists v'. split; [exact Ev'|]. rewrite Hv'. exact Hw.
Qed.

(* ROUND 6: a loop whose range names its own index is inside the theorems' domain and the theorems are not vacuous
   there.  ForLoopPT(ConstantPT('1+i', {A: 'i'}), 'i', ('i', 'i+2')) at i = 3 (the witness of repair 7d773a1): wf, two
   pieces (durations 4 and 5), the symbolic duration evaluates to 9 and the integral of channel 1 to 3*4 + 4*5 = 32; the
   Sum bound over the loop index itself (the pre-repair code) captures the parameter and evaluates to 4. *)
Lemma range_names_index_witness :
  let p := For 1%N (EV 1%N) (EAdd (EV 1%N) (EC 2)) (EC 1) (Const (EAdd (EC 1) (EV 1%N)) [(1%N, EV 1%N)]) in
  let rho := env_upd env_empty 1%N (Some 3) in
  let capturing := ESum 1%N e0 (ESub (EMax (loop_count (EV 1%N) (EAdd (EV 1%N) (EC 2)) (EC 1)) e1) e1)
                        (ELet [(1%N, EAdd (EV 1%N) (EMul (EV 1%N) (EC 1)))] (EAdd (EC 1) (EV 1%N))) in
  exists pcs d e x,
    wf p = true /\ fvb 1%N (EV 1%N) = true /\ denote p rho = Some pcs /\ length pcs = 2%nat /\
    eval rho (duration_expr p) = Some d /\ d == 9 /\ total pcs == 9 /\
    dget 1%N (integral_expr p) = Some e /\ eval rho e = Some x /\ x == 32 /\
    eval rho capturing = Some 4.
Proof.
  cbv zeta. eexists. eexists. eexists. eexists.
  split; [vm_compute; reflexivity|]. split; [vm_compute; reflexivity|]. split; [vm_compute; reflexivity|].
  split; [vm_compute; reflexivity|]. split; [vm_compute; reflexivity|]. split; [vm_compute; reflexivity|].
  split; [vm_compute; reflexivity|]. split; [vm_compute; reflexivity|]. split; [vm_compute; reflexivity|].
  split; vm_compute; reflexivity.
Qed.

(* the index substituted by initial_values (start) / final_values (floor form) *)
Lemma eval_subst_index rho i idx e q z v :
  eval rho idx = Some q -> q == inject_Z z ->
  eval rho (ELet [(i, idx)] e) = Some v ->
  exists w, eval (env_upd rho i (Some (inject_Z z))) e = Some w /\ v == w.
Proof.
  intros Ei Hq Hev. rewrite eval_ELet, let_env_cons, Ei in Hev.
  assert (Hrel : env_rel (env_upd (let_env rho []) i (Some q)) (env_upd rho i (Some (inject_Z z)))).
  { apply env_rel_upd; [apply env_rel_refl|exact Hq]. }
  pose proof (eval_env_rel e _ _ Hrel) as H. rewrite Hev in H.
  destruct (oq_rel_some_l _ _ _ eq_refl H) as (w & Ew & Hw). exists w. split; assumption.
Qed.
