(* C07 — proofs, part 7: the closed form ForLoopPT builds (Piecewise / Sum / Max / ceiling with the substituted index),
   whenever it evaluates, is the sum of the body expression over the Python range with the loop index bound to each
   element — no side condition on the body any more (uses the congruence of eval, ProofsExpr.eval_rel). *)
From Coq Require Import ZArith QArith Qround List Bool Lia Lra Lqa.
Require Import QV.C07.Model QV.C07.Spec QV.C07.Wf QV.C07.ProofsRange QV.C07.ProofsLoop QV.C07.ProofsAtoms QV.C07.ProofsExpr.
Import ListNotations.
Open Scope Q_scope.

Definition sum_list (G : Z -> option Q) (ks : list Z) : option Q :=
  fold_right (fun k acc => omap2 Qplus (G k) acc) (Some 0) ks.

Lemma sum_list_cons G k r : sum_list G (k :: r) = omap2 Qplus (G k) (sum_list G r).
Proof. reflexivity. Qed.

Lemma sum_from_list (F G : Z -> option Q) a s n : forall lo,
  (forall k, oq_rel (F k) (G (a + k * s)%Z)) ->
  oq_rel (sum_from F lo n) (sum_list G (range_from (a + lo * s) s n)).
Proof.
  induction n as [|n IH]; intros lo H; cbn [sum_from range_from]; [simpl; reflexivity|].
  rewrite sum_list_cons. apply omap2_rel; [intros; apply Qplus_comp; assumption|apply H|].
  replace (a + lo * s + s)%Z with (a + (lo + 1) * s)%Z by ring. apply IH. exact H.
Qed.

Lemma as_int_val rho e z : as_int (eval rho e) = Some z -> int_val rho e z.
Proof.
  unfold as_int, int_val, ev_eq. destruct (eval rho e) as [q|]; [|discriminate].
  destruct (is_int q) eqn:E; [|discriminate]. intros H. inversion H; subst. exists q. split; [reflexivity|].
  unfold is_int in E. apply Qeq_bool_iff in E. exact E.
Qed.

Lemma py_range_from a o s ks : py_range a o s = Some ks -> (s <> 0)%Z ->
  ks = range_from a s (Z.to_nat (Z.max 0 (Qceil (inject_Z (o - a) / inject_Z s)))) /\
  (Z.max 0 (Qceil (inject_Z (o - a) / inject_Z s)) <= 4096)%Z.
Proof.
  intros Hr Hne. unfold py_range in Hr. destruct (s =? 0)%Z; [discriminate|].
  destruct (RANGE_LIMIT <? range_len a o s)%Z eqn:EL; [discriminate|]. inversion Hr.
  rewrite range_len_ceil in * by assumption. split; [reflexivity|]. unfold RANGE_LIMIT in EL. lia.
Qed.

Theorem for_closed_form rho i start stop step e a o s ks v :
  as_int (eval rho start) = Some a -> as_int (eval rho stop) = Some o -> as_int (eval rho step) = Some s ->
  fvb i start = false -> fvb i step = false ->
  py_range a o s = Some ks ->
  eval rho (EIfLe (loop_count start stop step) e0 e0 (loop_sum i start stop step e)) = Some v ->
  exists w, sum_list (fun k => eval (env_upd rho i (Some (inject_Z k))) e) ks = Some w /\ v == w.
Proof.
  intros Aa Ao As Fa Fs Hr Hev.
  pose proof (as_int_val _ _ _ Aa) as Ha. pose proof (as_int_val _ _ _ Ao) as Ho. pose proof (as_int_val _ _ _ As) as Hs.
  destruct (py_range_spec _ _ _ _ Hr) as (Hne & _ & _).
  pose proof (eval_loop_count rho start stop step a o s Ha Ho Hs Hne) as Ec.
  destruct (py_range_from _ _ _ _ Hr Hne) as (Hks & Hlim).
  set (cnt := Qceil (inject_Z (o - a) / inject_Z s)) in *.
  cbn [eval] in Hev. rewrite Ec in Hev. change (eval rho e0) with (Some 0) in Hev. cbv iota beta in Hev.
  pose proof (Qle_bool_inject_Z cnt 0) as Hb0. change (inject_Z 0) with 0 in Hb0. rewrite Hb0 in Hev.
  destruct (cnt <=? 0)%Z eqn:Ele.
  - assert (Hk0 : ks = []) by (rewrite Hks; replace (Z.max 0 cnt) with 0%Z by lia; reflexivity).
    subst ks. rewrite Hk0. inversion Hev; subst. exists 0. split; reflexivity.
  - assert (Hpos : (0 < cnt)%Z) by lia.
    unfold loop_sum in Hev. cbn [eval] in Hev. rewrite Ec in Hev.
    change (eval rho e0) with (Some 0) in Hev. change (eval rho e1) with (Some 1) in Hev. cbn [omap2] in Hev.
    assert (Hh : Qmax (inject_Z cnt) 1 - 1 == inject_Z (cnt - 1)).
    { unfold Qmax. pose proof (Qle_bool_inject_Z cnt 1) as Hb1. change (inject_Z 1) with 1 in Hb1. rewrite Hb1.
      destruct (cnt <=? 1)%Z eqn:E1.
      - assert (Hc1 : cnt = 1%Z) by lia. rewrite Hc1. reflexivity.
      - rewrite inject_Z_minus. reflexivity. }
    destruct (is_int_of_eq _ _ Hh) as (Hi & Hf).
    assert (H0i : is_int 0 = true) by reflexivity.
    rewrite H0i, Hi in Hev. cbn [andb] in Hev. rewrite Hf in Hev. change (Qfloor 0) with 0%Z in Hev.
    replace (cnt - 1 - 0 + 1)%Z with cnt in Hev by ring.
    assert (Hl : ((cnt <? 0) || (SUM_LIMIT <? cnt))%Z%bool = false) by (unfold SUM_LIMIT; lia).
    rewrite Hl in Hev.
    replace (Z.max 0 cnt) with cnt in Hks by lia.
    destruct Ha as (qa & Ea & Hqa). destruct Hs as (qs & Es & Hqs).
    pose proof (sum_from_list
      (fun k => eval (env_upd rho i (Some (inject_Z k))) (ELet [(i, EAdd start (EMul (EV i) step))] e))
      (fun k => eval (env_upd rho i (Some (inject_Z k))) e) a s (Z.to_nat cnt) 0%Z) as HS.
    replace (a + 0 * s)%Z with a in HS by ring. rewrite <- Hks in HS.
    assert (Hterm : forall k, oq_rel
              (eval (env_upd rho i (Some (inject_Z k))) (ELet [(i, EAdd start (EMul (EV i) step))] e))
              (eval (env_upd rho i (Some (inject_Z (a + k * s)))) e)).
    { intros k. rewrite eval_ELet. rewrite let_env_cons. cbn [eval]. rewrite (eval_indep i start) by exact Fa. rewrite (eval_indep i step) by exact Fs.
      rewrite Ea, Es, env_upd_same. cbn [omap2].
      apply eval_env_rel. intros y. unfold let_env, env_upd. destruct (N.eqb y i); [|apply oq_rel_refl].
      simpl. rewrite Hqa, Hqs, inject_Z_plus, inject_Z_mult. reflexivity. }
    specialize (HS Hterm).
    destruct (oq_rel_some_l _ _ _ Hev HS) as (w & Ew & Hw). exists w. split; assumption.
Qed.

(* the index substituted by initial_values (start) / final_values (floor form) *)
Lemma eval_subst_index rho i idx e q z v :
  eval rho idx = Some q -> q == inject_Z z ->
  eval rho (ELet [(i, idx)] e) = Some v ->
  exists w, eval (env_upd rho i (Some (inject_Z z))) e = Some w /\ v == w.
Proof.
  intros Ei Hq Hev. rewrite eval_ELet, let_env_cons, Ei in Hev.
  assert (Hrel : env_rel (env_upd (let_env rho []) i (Some q)) (env_upd rho i (Some (inject_Z z)))).
  { apply env_rel_upd; [apply env_rel_refl|exact Hq]. }
  pose proof (eval_env_rel e _ _ Hrel) as H. rewrite Hev in H.
  destruct (oq_rel_some_l _ _ _ eq_refl H) as (w & Ew & Hw). exists w. split; assumption.
Qed.
