(* C07 — proofs, part 9: every piece of the pulse a well-formed template denotes carries exactly the template's
   channels, without duplicate keys. *)
From Coq Require Import ZArith QArith Qround List Bool Lia.
Require Import QV.C07.Model QV.C07.Spec QV.C07.Wf QV.C07.ProofsPt QV.C07.ProofsDict QV.C07.ProofsKeysQ.
Import ListNotations.

Lemma opt_all_keys {X Y Z} (key : X -> chan) (h : X -> Y -> Z) (g : X -> option Y) l : forall r,
  opt_all (map (fun x => option_map (fun y => (key x, h x y)) (g x)) l) = Some r -> map fst r = map key l.
Proof.
  induction l as [|x l IH]; intros r H; cbn [map opt_all] in H.
  - inversion H. reflexivity.
  - destruct (g x) as [y|]; [|discriminate]. cbn [option_map] in H.
    destruct (opt_all (map (fun x0 => option_map (fun y0 => (key x0, h x0 y0)) (g x0)) l)) as [r'|]; [|discriminate].
    inversion H; subst. cbn [map fst]. f_equal. apply IH. reflexivity.
Qed.

Lemma opt_all_map_Forall2 {X Y} (f : X -> option Y) l : forall r, opt_all (map f l) = Some r -> Forall2 (fun a b => f a = Some b) l r.
Proof.
  induction l as [|a l IH]; intros r H; cbn [map opt_all] in H.
  - inversion H. constructor.
  - destruct (f a) as [b|] eqn:E; [|discriminate]. destruct (opt_all (map f l)) as [r'|]; [|discriminate].
    inversion H; subst. constructor; [exact E|apply IH; reflexivity].
Qed.

Definition pk (cs : list chan) (pc : piece) : Prop := keys_ok (snd pc) cs.

Lemma den_point_go_keys rho ents D cs : forall k r, opt_all (den_point_go rho ents D k cs) = Some r -> map fst r = cs.
Proof.
  induction cs as [|c cs IH]; intros k r H.
  - inversion H. reflexivity.
  - rewrite den_point_go_cons in H. cbn [opt_all] in H.
    destruct (match point_entries rho ents k with Some l => option_map (fun f => (c, f)) (table_chfun D l) | None => None end) as [[c' f]|] eqn:E; [|discriminate].
    destruct (opt_all (den_point_go rho ents D (S k) cs)) as [r'|] eqn:E'; [|discriminate].
    inversion H; subst. cbn [map fst]. f_equal; [|apply (IH (S k)); exact E'].
    destruct (point_entries rho ents k); [|discriminate]. destruct (table_chfun D l); [|discriminate]. inversion E. reflexivity.
Qed.

Lemma repeat_Forall {A} (P : A -> Prop) n l : Forall P l -> Forall P ((fix rp (n : nat) := match n with O => [] | S m => l ++ rp m end) n).
Proof. intros H. induction n; [constructor|apply Forall_app; split; assumption]. Qed.

Lemma merge_fold_keys op (r : list (chan * chfun)) : forall res,
  nodupb (dkeys res) = true ->
  let out := fold_left (fun res cf =>
                          match dget (fst cf) res with
                          | Some f => dset (fst cf) (match op with OAdd => FAdd f (snd cf) | _ => FSub f (snd cf) end) res
                          | None => dset (fst cf) (match op with OAdd => snd cf | _ => FAff (-(1)) 0 (snd cf) end) res
                          end) r res in
  nodupb (dkeys out) = true /\ forall c, dmem c out = dmem c res || dmem c r.
Proof.
  induction r as [|[k g] r IH]; intros res Hn; cbn [fold_left fst snd].
  - split; [exact Hn|]. intros c. rewrite dmem_nil, orb_false_r. reflexivity.
  - set (res' := match dget k res with Some f => dset k _ res | None => dset k _ res end).
    assert (Hn' : nodupb (dkeys res') = true) by (unfold res'; destruct (dget k res); apply nodupb_dset; exact Hn).
    destruct (IH res' Hn') as (H1 & H2). split; [exact H1|]. intros c. rewrite H2, dmem_cons.
    assert (Hd : dmem c res' = N.eqb k c || dmem c res) by (unfold res'; destruct (dget k res); apply dmem_dset).
    rewrite Hd. destruct (N.eqb k c), (dmem c res), (dmem c r); reflexivity.
Qed.

Lemma aatom_channels l r c :
  memb c (channels (AAtom l OAdd r)) = memb c (channels l) || memb c (channels r).
Proof.
  cbn [channels]. rewrite <- dmem_memb, dmem_dupdate, !dmem_memb, !(dkeys_map_key (fun _ => tt)). reflexivity.
Qed.

Theorem piece_keys : forall p rho pcs, wf p = true -> denote p rho = Some pcs ->
  Forall (fun pc => keys_ok (snd pc) (channels p)) pcs.
Proof.
  induction p using pt_ind'; intros rho pcs Hwf Hd; pose proof (wf_nodup _ Hwf) as Hnd.
  - (* Table *) cbn [denote] in Hd.
    destruct (opt_all (map (fun ch => option_map (fun l => (fst ch, l)) (opt_all (map (eval_entry rho) (snd ch)))) chs)) as [nchs|] eqn:E1; [|discriminate].
    cbv zeta in Hd.
    destruct (opt_all (map (fun ch => option_map (fun f => (fst ch, f)) (table_chfun _ (snd ch))) nchs)) as [fs|] eqn:E2; [|discriminate].
    apply opt_all_keys in E1. apply opt_all_keys in E2.
    destruct (Qle_bool _ 0); inversion Hd; subst; constructor; [|constructor].
    apply keys_ok_of_keys; [exact Hnd|]. cbn [snd channels]. unfold dkeys. rewrite E2, E1. reflexivity.
  - (* Point *) rewrite denote_Point in Hd. destruct (point_entries rho ents 0) as [l0|]; [|discriminate]. cbv zeta in Hd.
    destruct (opt_all (den_point_go rho ents _ 0 cs)) as [fs|] eqn:E; [|discriminate].
    apply den_point_go_keys in E.
    destruct (Qle_bool _ 0); inversion Hd; subst pcs; constructor; [|constructor].
    apply keys_ok_of_keys; [exact Hnd|]. exact E.
  - (* Const *) cbn [denote] in Hd. destruct (eval rho d) as [dd|]; [|discriminate].
    destruct (Qle_bool dd 0).
    + destruct (Qle_bool 0 dd); inversion Hd; subst. constructor.
    + destruct (opt_all (map (fun kv => option_map (fun q => (fst kv, q)) (eval rho (snd kv))) vals)) as [vs|] eqn:E; [|discriminate].
      apply opt_all_keys in E. inversion Hd; subst. constructor; [|constructor].
      apply keys_ok_of_keys; [exact Hnd|]. cbn [snd channels]. unfold dkeys. rewrite map_map. cbn [fst]. exact E.
  - (* Func *) cbn [denote] in Hd. destruct (eval rho d) as [dd|]; [|discriminate].
    destruct (opt_all (map (eval rho) coef)) as [cf|]; [|discriminate]. destruct (Qle_bool dd 0); [discriminate|].
    inversion Hd; subst. constructor; [|constructor]. apply keys_ok_of_keys; [exact Hnd|]. reflexivity.
  - (* Seq *) destruct ps as [|q0 r]; [inversion Hd; constructor|].
    rewrite wf_Seq in Hwf. apply andb_prop in Hwf as (_ & Hwf). pose proof (wf_seq_Forall _ _ Hwf) as HF.
    change (channels (Seq (q0 :: r))) with (channels q0). rewrite denote_Seq in Hd.
    clear Hwf Hnd. revert pcs Hd H HF. generalize (q0 :: r) as l. induction l as [|s l IH]; intros pcs Hd H HF.
    + inversion Hd. constructor.
    + rewrite den_seq_cons in Hd. destruct (denote s rho) as [a|] eqn:Ea; [|discriminate].
      destruct (den_seq rho l) as [b|] eqn:Eb; [|discriminate]. inversion Hd; subst.
      inversion H as [|? ? Hs H']; subst. inversion HF as [|? ? (Hw & Hsame) HF']; subst.
      apply Forall_app. split; [|apply IH; auto].
      specialize (Hs rho a Hw Ea). rewrite Forall_forall in *. intros pc Hpc.
      eapply keys_ok_ext; [apply same_chans_memb; exact Hsame|]. apply Hs. exact Hpc.
  - (* Rep *) cbn [wf] in Hwf. apply andb_prop in Hwf as (_ & Hwf). cbn [denote channels] in *.
    destruct (as_int (eval rho n)) as [k|]; [|discriminate]. destruct (k =? 0)%Z; [inversion Hd; constructor|].
    destruct (denote p rho) as [b|] eqn:Eb; [|discriminate].
    destruct ((k <? 0)%Z || (RANGE_LIMIT <? k)%Z); [discriminate|]. inversion Hd; subst.
    specialize (IHp rho b Hwf Eb). clear -IHp. induction (Z.to_nat k); cbn [repeat_pulse]; [constructor|apply Forall_app; split; assumption].
  - (* For *) cbn [wf] in Hwf. apply andb_prop in Hwf as (_ & Hwf).
    rewrite denote_For in Hd. destruct (as_int (eval rho a)); [|discriminate]. destruct (as_int (eval rho o)); [|discriminate].
    destruct (as_int (eval rho s)); [|discriminate]. destruct (py_range z z0 z1) as [ks|]; [|discriminate].
    cbn [channels]. revert pcs Hd. induction ks as [|k ks IH]; intros pcs Hd.
    + inversion Hd. constructor.
    + rewrite den_for_cons in Hd. destruct (denote p (env_upd rho i (Some (inject_Z k)))) as [x|] eqn:Ex; [|discriminate].
      destruct (den_for p i rho ks) as [y|]; [|discriminate]. inversion Hd; subst.
      apply Forall_app. split; [eapply IHp; eassumption|apply IH; reflexivity].
  - (* Map *) cbn [wf] in Hwf. apply andb_prop in Hwf as (_ & Hwf). rewrite denote_Map in Hd.
    destruct (denote p (map_env rho pm)) as [b|] eqn:Eb; [|discriminate]. inversion Hd; subst.
    specialize (IHp _ _ Hwf Eb). rewrite Forall_forall in *. intros pc' Hin. apply in_map_iff in Hin as (pc & <- & Hin).
    specialize (IHp pc Hin). rewrite rename_piece_rename. cbn [snd].
    split; [apply rename_fold_nodup; reflexivity|]. intros c. rewrite rename_fold_dmem, dmem_nil. cbn [orb].
    rewrite channels_Map, memb_flat_map_tgt. apply existsb_members. apply keys_ok_In. exact IHp.
  - (* Multi *) rewrite wf_Multi in Hwf. apply andb_prop in Hwf as (_ & Hwf). pose proof (wf_multi_Forall _ Hwf) as HF.
    rewrite denote_Multi in Hd. cbn [channels]. clear Hwf Hnd.
    assert (Hgen : forall l pcs, den_multi rho l = Some pcs ->
              Forall (fun p => forall rho pcs, wf p = true -> denote p rho = Some pcs -> Forall (fun pc => keys_ok (snd pc) (channels p)) pcs) l ->
              Forall (fun q => wf q = true) l ->
              exists pc, pcs = [pc] /\ nodupb (dkeys (snd pc)) = true /\ forall c, dmem c (snd pc) = memb c (flat_map channels l)).
    { induction l as [|q l IH]; intros pcs0 Hd0 HP HW; [discriminate|].
      inversion HP as [|? ? Hq HP']; subst. inversion HW as [|? ? Hwq HW']; subst.
      destruct l as [|q' l].
      - rewrite den_multi_one in Hd0. destruct (denote q rho) as [[|pc [|? ?]]|] eqn:E; try discriminate. inversion Hd0; subst.
        specialize (Hq rho _ Hwq E). inversion Hq as [|? ? (K1 & K2) _]; subst. exists pc. split; [reflexivity|]. split; [exact K1|].
        intros c. cbn [flat_map]. rewrite app_nil_r. apply K2.
      - rewrite den_multi_cons in Hd0. destruct (denote q rho) as [[|pc [|? ?]]|] eqn:E; try discriminate.
        destruct (den_multi rho (q' :: l)) as [[|pc' [|? ?]]|] eqn:E'; try discriminate.
        destruct (Qeq_bool (fst pc) (fst pc')); [|discriminate]. inversion Hd0; subst.
        destruct (IH _ eq_refl HP' HW') as (pc2 & Hpc2 & K3 & K4). inversion Hpc2; subst pc2.
        specialize (Hq rho _ Hwq E). inversion Hq as [|? ? (K1 & K2) _]; subst.
        eexists. split; [reflexivity|]. cbn [snd]. split; [apply nodupb_dupdate; exact K1|].
        intros c. rewrite dmem_dupdate, K2, K4. change (flat_map channels (q :: q' :: l)) with (channels q ++ flat_map channels (q' :: l)).
        rewrite memb_app. reflexivity. }
    destruct (Hgen ps pcs Hd H HF) as (pc & -> & K1 & K2). constructor; [|constructor]. split; assumption.
  - (* Par *) cbn [wf] in Hwf. apply andb_prop in Hwf as (_ & Hwf). apply andb_prop in Hwf as (Hwf & _).
    apply andb_prop in Hwf as (Hwf & _). apply andb_prop in Hwf as (Hwf & _).
    cbn [denote] in Hd. destruct (denote p rho) as [b|] eqn:Eb; [|discriminate].
    destruct (opt_all (map (fun kv => option_map (fun cf => (fst kv, cf)) (opt_all (map (eval rho) (snd kv)))) ov)) as [ovs|] eqn:Eo; [|discriminate].
    inversion Hd; subst. apply opt_all_keys in Eo. specialize (IHp _ _ Hwf Eb).
    rewrite Forall_forall in *. intros pc' Hin. apply in_map_iff in Hin as (pc & <- & Hin). cbn [snd channels].
    apply par_keys; [apply IHp; exact Hin|]. unfold dkeys. rewrite map_map. cbn [fst]. exact Eo.
  - (* ArithL *) cbn [wf] in Hwf. apply andb_prop in Hwf as (_ & Hwf). apply andb_prop in Hwf as (Hwf & _).
    cbn [denote channels] in *. destruct (denote p rho) as [b|] eqn:Eb; [|discriminate].
    destruct (scalar_eval rho s (channels p)) as [sv|]; [|discriminate].
    specialize (IHp _ _ Hwf Eb). apply opt_all_map_Forall2 in Hd. clear Eb.
    induction Hd as [|pc pc' b r Hpc Hd IH]; [constructor|]. inversion IHp as [|? ? K IHp']; subst.
    constructor; [|apply IH; exact IHp']. unfold piece_aff in Hpc.
    destruct (opt_all (map (fun cf => option_map (fun ab => (fst cf, FAff (fst ab) (snd ab) (snd cf))) (aff_of true op (dget (fst cf) sv))) (snd pc))) as [chs|] eqn:E; [|discriminate].
    inversion Hpc; subst. cbn [snd]. apply opt_all_keys in E. destruct K as (K1 & K2).
    split; [unfold dkeys; rewrite E; exact K1|]. intros c. rewrite dmem_memb. unfold dkeys. rewrite E. rewrite <- K2, dmem_memb. reflexivity.
  - (* ArithR *) cbn [wf] in Hwf. apply andb_prop in Hwf as (_ & Hwf). apply andb_prop in Hwf as (Hwf & _). apply andb_prop in Hwf as (Hwf & _).
    cbn [denote channels] in *. destruct (denote p rho) as [b|] eqn:Eb; [|discriminate].
    destruct (scalar_eval rho s (channels p)) as [sv|]; [|discriminate].
    specialize (IHp _ _ Hwf Eb). apply opt_all_map_Forall2 in Hd. clear Eb.
    induction Hd as [|pc pc' b r Hpc Hd IH]; [constructor|]. inversion IHp as [|? ? K IHp']; subst.
    constructor; [|apply IH; exact IHp']. unfold piece_aff in Hpc.
    destruct (opt_all (map (fun cf => option_map (fun ab => (fst cf, FAff (fst ab) (snd ab) (snd cf))) (aff_of false op (dget (fst cf) sv))) (snd pc))) as [chs|] eqn:E; [|discriminate].
    inversion Hpc; subst. cbn [snd]. apply opt_all_keys in E. destruct K as (K1 & K2).
    split; [unfold dkeys; rewrite E; exact K1|]. intros c. rewrite dmem_memb. unfold dkeys. rewrite E. rewrite <- K2, dmem_memb. reflexivity.
  - (* AAtom *) cbn [wf] in Hwf. apply andb_prop in Hwf as (_ & Hwf). apply andb_prop in Hwf as (Hw1 & Hw2).
    cbn [denote] in Hd. destruct (denote p1 rho) as [[|pl [|? ?]]|] eqn:E1; try discriminate.
    destruct (denote p2 rho) as [[|pr [|? ?]]|] eqn:E2; try discriminate.
    specialize (IHp1 _ _ Hw1 E1). specialize (IHp2 _ _ Hw2 E2).
    inversion IHp1 as [|? ? (K1 & K2) _]; subst. inversion IHp2 as [|? ? (K3 & K4) _]; subst.
    unfold merge_atomic in Hd. destruct (Qeq_bool (fst pl) (fst pr)); [|discriminate].
    assert (Hch : forall c, memb c (channels (AAtom p1 op p2)) = memb c (channels p1) || memb c (channels p2)) by (intros c; apply (aatom_channels p1 p2 c)).
    destruct op; try discriminate; inversion Hd; subst; (constructor; [|constructor]); cbn [snd].
    + destruct (merge_fold_keys OAdd (snd pr) (snd pl) K1) as (M1 & M2). split; [exact M1|]. intros c. rewrite M2, K2, K4, Hch. reflexivity.
    + destruct (merge_fold_keys OSub (snd pr) (snd pl) K1) as (M1 & M2). split; [exact M1|]. intros c. rewrite M2, K2, K4, Hch. reflexivity.
Qed.
