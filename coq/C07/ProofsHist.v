(* C07 — proofs, round 3: the object discipline of Hist.v never writes to a dictionary object that existed before the
   query, so every answer is Model.quant and histories are irrelevant. *)
From Coq Require Import ZArith QArith List Bool Lia.
Require Import QV.C07.Model QV.C07.Hist QV.C07.ProofsPt.
Import ListNotations.
Open Scope Q_scope.

(* ---- heap algebra ---- *)
Lemma hset_length h : forall l d, length (hset h l d) = length h.
Proof. induction h as [|x r IH]; intros [|l] d; cbn; auto. Qed.

Lemma hget_hset_same h : forall l d, (l < length h)%nat -> hget (hset h l d) l = d.
Proof.
  unfold hget. induction h as [|x r IH]; intros [|l] d Hl; cbn in *; try lia; auto.
  apply IH. lia.
Qed.

Lemma hget_hset_other h : forall l d l0, l0 <> l -> hget (hset h l d) l0 = hget h l0.
Proof.
  unfold hget. induction h as [|x r IH]; intros [|l] d [|l0] Hne; cbn; auto; try congruence.
Qed.

Lemma hget_app_old h d l0 : (l0 < length h)%nat -> hget (h ++ [d]) l0 = hget h l0.
Proof. intros Hl. unfold hget. apply app_nth1. exact Hl. Qed.

Lemma hget_app_new h d : hget (h ++ [d]) (length h) = d.
Proof. unfold hget. rewrite app_nth2 by lia. rewrite Nat.sub_diag. reflexivity. Qed.

(* `lh` is the result of a query started on a heap that extends h0: the returned location was allocated after h0, holds
   d, and nothing that existed in h0 was touched *)
Definition qok (h0 : heap) (lh : nat * heap) (d : dict) : Prop :=
  (length h0 <= fst lh < length (snd lh))%nat /\ hget (snd lh) (fst lh) = d /\
  forall l0, (l0 < length h0)%nat -> hget (snd lh) l0 = hget h0 l0.

(* h extends h0 without touching it *)
Definition ext (h0 h : heap) : Prop := (length h0 <= length h)%nat /\ forall l0, (l0 < length h0)%nat -> hget h l0 = hget h0 l0.

Lemma ext_refl h : ext h h.
Proof. split; auto. Qed.

Lemma ext_trans a b c : ext a b -> ext b c -> ext a c.
Proof. intros [L1 F1] [L2 F2]. split; [lia|]. intros l0 Hl. rewrite F2 by lia. apply F1, Hl. Qed.

Lemma qok_ext h0 lh d : qok h0 lh d -> ext h0 (snd lh).
Proof. intros [[L1 L2] [_ F]]. split; [lia|exact F]. Qed.

Lemma qok_weaken h0 h1 lh d : ext h0 h1 -> qok h1 lh d -> qok h0 lh d.
Proof.
  intros [L F] [[L1 L2] [C F1]]. split; [lia|]. split; [exact C|].
  intros l0 Hl. rewrite F1 by lia. apply F, Hl.
Qed.

Lemma qok_alloc h d : qok h (halloc h d) d.
Proof.
  unfold qok, halloc; cbn [fst snd]. rewrite app_length; cbn [length]. split; [lia|]. split; [apply hget_app_new|].
  intros l0 Hl. apply hget_app_old, Hl.
Qed.

Lemma qok_hmod h0 lh d f : qok h0 lh d -> qok h0 (hmod f lh) (f d).
Proof.
  intros [[L1 L2] [C F]]. unfold qok, hmod; cbn [fst snd]. rewrite hset_length. split; [lia|]. split.
  - rewrite hget_hset_same by lia. rewrite C. reflexivity.
  - intros l0 Hl. rewrite hget_hset_other by lia. apply F, Hl.
Qed.

Lemma qok_hnew h0 lh d f : qok h0 lh d -> qok h0 (hnew f lh) (f d).
Proof.
  intros H. pose proof (qok_ext _ _ _ H) as E. destruct H as [_ [C _]]. unfold hnew. rewrite C.
  eapply qok_weaken; [exact E|apply qok_alloc].
Qed.

(* ---- named versions of the local fixpoints of hquery ---- *)
Definition hq_seq_int (go_q : pt -> heap -> nat * heap) : dict -> list pt -> heap -> dict * heap :=
  fix go (acc : dict) (l : list pt) (h : heap) : dict * heap :=
    match l with
    | [] => (acc, h)
    | s :: r => let lh := go_q s h in
                let sd := hget (snd lh) (fst lh) in
                go (map (fun kv => (fst kv, EAdd (snd kv) (match dget (fst kv) sd with Some e => e | None => EV tvar end))) acc)
                   r (snd lh)
    end.
Definition hq_seq_fin : list pt -> heap -> nat * heap :=
  fix go (l : list pt) (h : heap) : nat * heap :=
    match l with [] => halloc h [] | [s] => hquery QFinal s h | _ :: r => go r h end.
Definition hq_multi (q : quantity) : dict -> list pt -> heap -> dict * heap :=
  fix go (acc : dict) (l : list pt) (h : heap) : dict * heap :=
    match l with
    | [] => (acc, h)
    | s :: r => let lh := hquery q s h in go (dupdate acc (hget (snd lh) (fst lh))) r (snd lh)
    end.

Lemma hquery_Seq_int ps h :
  hquery QIntegral (Seq ps) h =
  let acc_h := hq_seq_int (hquery QIntegral) (map (fun c => (c, e0)) (channels (Seq ps))) ps h in halloc (snd acc_h) (fst acc_h).
Proof. reflexivity. Qed.
Lemma hquery_Seq_fin ps h : hquery QFinal (Seq ps) h = hq_seq_fin ps h.
Proof. reflexivity. Qed.
Lemma hquery_Multi q ps h :
  hquery q (Multi ps) h = let acc_h := hq_multi q [] ps h in halloc (snd acc_h) (fst acc_h).
Proof. reflexivity. Qed.

(* the matching local fixpoints of Model.quant *)
Definition q_seq_int : dict -> list pt -> dict :=
  fix go (acc : dict) (l : list pt) : dict :=
    match l with
    | [] => acc
    | s :: r => let sd := quant QIntegral s in
                go (map (fun kv => (fst kv, EAdd (snd kv) (match dget (fst kv) sd with Some e => e | None => EV tvar end))) acc) r
    end.
Definition q_seq_fin : list pt -> dict :=
  fix go (l : list pt) : dict := match l with [] => [] | [s] => quant QFinal s | _ :: r => go r end.
Definition q_multi (q : quantity) : dict -> list pt -> dict :=
  fix go (acc : dict) (l : list pt) : dict := match l with [] => acc | s :: r => go (dupdate acc (quant q s)) r end.
Lemma quant_Seq_int ps : quant QIntegral (Seq ps) = q_seq_int (map (fun c => (c, e0)) (channels (Seq ps))) ps.
Proof. reflexivity. Qed.
Lemma quant_Seq_fin ps : quant QFinal (Seq ps) = q_seq_fin ps.
Proof. reflexivity. Qed.
Lemma quant_Multi q ps : quant q (Multi ps) = q_multi q [] ps.
Proof. reflexivity. Qed.

Definition hq_ok (p : pt) : Prop := forall q h, qok h (hquery q p h) (quant q p).

Lemma hq_seq_int_ok ps : Forall hq_ok ps -> forall acc h,
  let r := hq_seq_int (hquery QIntegral) acc ps h in fst r = q_seq_int acc ps /\ ext h (snd r).
Proof.
  induction 1 as [|s r Hs _ IH]; intros acc h; cbn.
  - split; [reflexivity|apply ext_refl].
  - pose proof (Hs QIntegral h) as Hq. pose proof (qok_ext _ _ _ Hq) as E. destruct Hq as [_ [C _]].
    rewrite C. destruct (IH (map (fun kv => (fst kv, EAdd (snd kv) (match dget (fst kv) (quant QIntegral s) with Some e => e | None => EV tvar end))) acc)
                            (snd (hquery QIntegral s h))) as [A B].
    split; [exact A|]. eapply ext_trans; [exact E|exact B].
Qed.

Lemma hq_multi_ok q ps : Forall hq_ok ps -> forall acc h,
  let r := hq_multi q acc ps h in fst r = q_multi q acc ps /\ ext h (snd r).
Proof.
  induction 1 as [|s r Hs _ IH]; intros acc h; cbn.
  - split; [reflexivity|apply ext_refl].
  - pose proof (Hs q h) as Hq. pose proof (qok_ext _ _ _ Hq) as E. destruct Hq as [_ [C _]].
    rewrite C. destruct (IH (dupdate acc (quant q s)) (snd (hquery q s h))) as [A B].
    split; [exact A|]. eapply ext_trans; [exact E|exact B].
Qed.

Lemma hq_seq_fin_ok ps : Forall hq_ok ps -> forall h, qok h (hq_seq_fin ps h) (q_seq_fin ps).
Proof.
  induction 1 as [|s r Hs Hr IH]; intros h.
  - apply qok_alloc.
  - destruct r as [|s' r'].
    + apply Hs.
    + change (qok h (hq_seq_fin (s' :: r') h) (q_seq_fin (s' :: r'))). apply IH.
Qed.

(* every query allocates the dictionary it returns and every dictionary it writes to; its content is Model.quant *)
Lemma hquery_ok : forall p, hq_ok p.
Proof.
  induction p using pt_ind'; intros q h.
  - apply qok_alloc. - apply qok_alloc. - apply qok_alloc. - apply qok_alloc.
  - (* Seq *) destruct q.
    + rewrite hquery_Seq_int, quant_Seq_int. cbv zeta.
      destruct (hq_seq_int_ok ps H (map (fun c => (c, e0)) (channels (Seq ps))) h) as [A B].
      rewrite A. eapply qok_weaken; [exact B|apply qok_alloc].
    + destruct H as [|s r Hs _]; [apply qok_alloc|apply Hs].
    + rewrite hquery_Seq_fin, quant_Seq_fin. apply hq_seq_fin_ok, H.
  - (* Rep *) destruct q; cbn [hquery quant]; [apply qok_hnew|..]; apply IHp.
  - (* For *) destruct q; cbn [hquery quant]; [apply qok_hnew|apply qok_hmod|apply qok_hmod]; apply IHp.
  - (* Map *) cbn [hquery quant]. apply qok_hnew, IHp.
  - (* Multi *) rewrite hquery_Multi, quant_Multi. cbv zeta.
    destruct (hq_multi_ok q ps H [] h) as [A B]. rewrite A. eapply qok_weaken; [exact B|apply qok_alloc].
  - (* Par *) cbn [hquery]. pose proof (qok_hmod _ _ _ (fun d => dupdate d (par_upd q p ov)) (IHp q h)) as Hm.
    destruct q; exact Hm.
  - (* ArithL *) cbn [hquery]. pose proof (qok_hnew _ _ _ (fun d => apply_op_dict op d (arith_scalar q p op s)) (IHp q h)) as Hm.
    destruct q; exact Hm.
  - (* ArithR *) cbn [hquery]. pose proof (qok_hnew _ _ _ (fun d => apply_op_dict op (arith_scalar q p op s) d) (IHp q h)) as Hm.
    destruct q; exact Hm.
  - (* AAtom *) cbn [hquery quant]. cbv zeta.
    pose proof (IHp1 q h) as H1. pose proof (IHp2 q (snd (hquery q p1 h))) as H2.
    pose proof (qok_ext _ _ _ H1) as E1. pose proof (qok_ext _ _ _ H2) as E2.
    destruct H1 as [[L1 L1'] [C1 _]]. destruct H2 as [_ [C2 F2]].
    rewrite C2, (F2 _ L1'), C1.
    eapply qok_weaken; [eapply ext_trans; [exact E1|exact E2]|apply qok_alloc].
Qed.

(* ---- histories ---- *)
Lemma run_history_cons q p r h :
  run_history ((q, p) :: r) h =
  (fst (hquery q p h) :: fst (run_history r (snd (hquery q p h))), snd (run_history r (snd (hquery q p h)))).
Proof. reflexivity. Qed.

Lemma run_history_ext hs : forall h, ext h (snd (run_history hs h)).
Proof.
  induction hs as [|[q p] r IH]; intros h; cbn.
  - apply ext_refl.
  - eapply ext_trans; [exact (qok_ext _ _ _ (hquery_ok p q h))|apply IH].
Qed.

Lemma run_history_length hs : forall h, length (fst (run_history hs h)) = length hs.
Proof. induction hs as [|[q p] r IH]; intros h; cbn; [reflexivity|f_equal; apply IH]. Qed.

(* at the END of any history: the k-th answer still is quant q p of the template it was asked of, and every dictionary
   that existed before the history (e.g. one handed out earlier) is unchanged *)
Theorem history_independent : forall hs h,
  let res := run_history hs h in
  length (fst res) = length hs /\
  (forall k q p l, nth_error hs k = Some (q, p) -> nth_error (fst res) k = Some l -> hget (snd res) l = quant q p) /\
  (forall l0, (l0 < length h)%nat -> hget (snd res) l0 = hget h l0).
Proof.
  intros hs h. cbv zeta. split; [apply run_history_length|]. split; [|apply run_history_ext].
  revert h. induction hs as [|[q0 p0] r IH]; intros h k q p l Hk Hl.
  - destruct k; discriminate.
  - rewrite run_history_cons in Hl |- *. cbn [fst snd] in Hl |- *. destruct k as [|k]; cbn [nth_error] in Hk, Hl.
    + injection Hk as -> ->. injection Hl as <-.
      destruct (hquery_ok p q h) as [[_ L] [C _]].
      destruct (run_history_ext r (snd (hquery q p h))) as [_ F]. rewrite F by exact L. exact C.
    + eapply IH; eassumption.
Qed.

(* one query, stated alone *)
Theorem hquery_pure : forall q p h,
  let lh := hquery q p h in
  hget (snd lh) (fst lh) = quant q p /\ (length h <= fst lh)%nat /\
  forall l0, (l0 < length h)%nat -> hget (snd lh) l0 = hget h l0.
Proof. intros q p h. destruct (hquery_ok p q h) as [[L _] [C F]]. cbv zeta. auto. Qed.

(* ---- seed C07-4's discipline is history dependent ---- *)
(* ConstantPT(1, {A: i}) shared by ForLoopPT(., i, (0, 3)) and ForLoopPT(., i, (5, 8)); initial_values of the first, then
   of the second: the second answer has the first loop's start baked in (0 instead of 5), and the dictionary handed out
   for the first loop is the very same object *)
Definition c4_i : var := 1%N.
Definition c4_vals : dict := [(1%N, EV c4_i)].
Definition c4_first := for_initial_over_cached c4_i (EC 0) c4_vals None [].
Definition c4_second := let '(_, h1, cache) := c4_first in for_initial_over_cached c4_i (EC 5) c4_vals cache h1.

Theorem cached_const_history_dependent :
  let '(l1, _, _) := c4_first in
  let '(l2, h2, _) := c4_second in
  l1 = l2 /\
  (exists e, dget 1%N (hget h2 l2) = Some e /\ eval env_empty e = Some 0) /\
  (exists e, dget 1%N (quant QInitial (For c4_i (EC 5) (EC 8) (EC 1) (Const (EC 1) c4_vals))) = Some e /\
             eval env_empty e = Some 5).
Proof.
  cbv zeta. cbn. split; [reflexivity|]. split; eexists; split; reflexivity.
Qed.
