(* C07 — proofs, part 4: expressions.  Induction principle for the nested `expr` type, congruence of `eval` with respect
   to `==` on environments restricted to the free variables (this one lemma gives both "eval respects Qeq-equal
   bindings" and "eval ignores variables that do not occur"), the substitution node ELet as an environment update,
   and the polynomial written out in t. *)
From Coq Require Import ZArith QArith Qround List Bool Lia Lra Lqa.
Require Import QV.C07.Model QV.C07.Spec QV.C07.Wf QV.C07.ProofsRange QV.C07.ProofsLoop QV.C07.ProofsAtoms.
Import ListNotations.
Open Scope Q_scope.

Definition oq_rel (a b : option Q) : Prop :=
  match a, b with Some x, Some y => x == y | None, None => True | _, _ => False end.

Lemma oq_rel_refl a : oq_rel a a.
Proof. destruct a; simpl; [reflexivity|exact I]. Qed.
Lemma oq_rel_sym a b : oq_rel a b -> oq_rel b a.
Proof. destruct a, b; simpl; auto. intros H; symmetry; exact H. Qed.
Lemma oq_rel_some_l a v b : a = Some v -> oq_rel a b -> exists w, b = Some w /\ v == w.
Proof. intros -> H. destruct b; simpl in H; [eauto|contradiction]. Qed.
Lemma oq_rel_some_r a v b : b = Some v -> oq_rel a b -> exists w, a = Some w /\ w == v.
Proof. intros -> H. destruct a; simpl in H; [eauto|contradiction]. Qed.

(* ---- induction principle (ELet carries a list of expressions) ---- *)
Lemma expr_ind' (P : expr -> Prop) :
  (forall q, P (EC q)) -> (forall x, P (EV x)) ->
  (forall a b, P a -> P b -> P (EAdd a b)) -> (forall a b, P a -> P b -> P (ESub a b)) ->
  (forall a b, P a -> P b -> P (EMul a b)) -> (forall a b, P a -> P b -> P (EDiv a b)) ->
  (forall a, P a -> P (ENeg a)) -> (forall a b, P a -> P b -> P (EMax a b)) ->
  (forall a, P a -> P (ECeil a)) -> (forall a, P a -> P (EFloor a)) ->
  (forall i lo hi body, P lo -> P hi -> P body -> P (ESum i lo hi body)) ->
  (forall a b x y, P a -> P b -> P x -> P y -> P (EIfLe a b x y)) ->
  (forall bs body, Forall (fun ye => P (snd ye)) bs -> P body -> P (ELet bs body)) ->
  forall e, P e.
Proof.
  intros HC HV HAdd HSub HMul HDiv HNeg HMax HCeil HFloor HSum HIf HLet.
  fix IH 1. intros e. destruct e.
  - apply HC. - apply HV. - apply HAdd; apply IH. - apply HSub; apply IH. - apply HMul; apply IH.
  - apply HDiv; apply IH. - apply HNeg; apply IH. - apply HMax; apply IH. - apply HCeil; apply IH.
  - apply HFloor; apply IH. - apply HSum; apply IH. - apply HIf; apply IH.
  - apply HLet; [|apply IH]. induction bs as [|[y e'] r IHr]; constructor; [apply IH|exact IHr].
Qed.

(* ---- named versions of the local fixpoints ---- *)
Definition let_env (rho : env) : list (var * expr) -> env :=
  fix look (l : list (var * expr)) : env :=
    match l with [] => rho | (y, e') :: r => env_upd (look r) y (eval rho e') end.
Definition anyfv (x : var) : list (var * expr) -> bool :=
  fix any (l : list (var * expr)) : bool := match l with [] => false | (_, e') :: r => fvb x e' || any r end.
Definition boundb (x : var) : list (var * expr) -> bool :=
  fix bound (l : list (var * expr)) : bool := match l with [] => false | (y, _) :: r => N.eqb x y || bound r end.
Lemma let_env_cons rho y e' r : let_env rho ((y, e') :: r) = env_upd (let_env rho r) y (eval rho e').
Proof. reflexivity. Qed.
Lemma anyfv_cons x y e' r : anyfv x ((y, e') :: r) = fvb x e' || anyfv x r.
Proof. reflexivity. Qed.
Lemma boundb_cons x y e' r : boundb x ((y, e') :: r) = N.eqb x y || boundb x r.
Proof. reflexivity. Qed.

Lemma eval_ELet rho bs body : eval rho (ELet bs body) = eval (let_env rho bs) body.
Proof. reflexivity. Qed.
Lemma fvb_ELet x bs body : fvb x (ELet bs body) = anyfv x bs || (negb (boundb x bs) && fvb x body).
Proof. reflexivity. Qed.
Lemma map_env_let_env rho pm : map_env rho pm = let_env rho pm.
Proof. induction pm as [|[y e'] r IH]; [reflexivity|]. rewrite let_env_cons, <- IH. reflexivity. Qed.

(* ---- congruence ---- *)
Lemma omap2_rel f a a' b b' :
  (forall x x' y y', x == x' -> y == y' -> f x y == f x' y') ->
  oq_rel a a' -> oq_rel b b' -> oq_rel (omap2 f a b) (omap2 f a' b').
Proof. intros Hf Ha Hb. destruct a, a', b, b'; simpl in *; try contradiction; auto. Qed.

Lemma Qle_bool_comp x x' y y' : x == x' -> y == y' -> Qle_bool x y = Qle_bool x' y'.
Proof.
  intros Hx Hy. destruct (Qle_bool x y) eqn:E, (Qle_bool x' y') eqn:E'; try reflexivity.
  - apply Qle_bool_iff in E. rewrite Hx, Hy in E. apply Qle_bool_iff in E. congruence.
  - apply Qle_bool_iff in E'. rewrite <- Hx, <- Hy in E'. apply Qle_bool_iff in E'. congruence.
Qed.
Lemma Qeq_bool_comp x x' y y' : x == x' -> y == y' -> Qeq_bool x y = Qeq_bool x' y'.
Proof.
  intros Hx Hy. destruct (Qeq_bool x y) eqn:E, (Qeq_bool x' y') eqn:E'; try reflexivity.
  - apply Qeq_bool_iff in E. rewrite Hx, Hy in E. apply Qeq_bool_iff in E. congruence.
  - apply Qeq_bool_iff in E'. rewrite <- Hx, <- Hy in E'. apply Qeq_bool_iff in E'. congruence.
Qed.
Lemma Qmax_comp x x' y y' : x == x' -> y == y' -> Qmax x y == Qmax x' y'.
Proof. intros Hx Hy. unfold Qmax. rewrite (Qle_bool_comp _ _ _ _ Hx Hy). destruct (Qle_bool x' y'); assumption. Qed.
Lemma is_int_comp x x' : x == x' -> is_int x = is_int x'.
Proof. intros H. unfold is_int. apply Qeq_bool_comp; [exact H|]. rewrite (Qfloor_comp _ _ H). reflexivity. Qed.

Lemma sum_from_rel (F F' : Z -> option Q) n : forall lo,
  (forall k, oq_rel (F k) (F' k)) -> oq_rel (sum_from F lo n) (sum_from F' lo n).
Proof.
  induction n as [|n IH]; intros lo H; cbn [sum_from]; [simpl; reflexivity|].
  apply omap2_rel; [intros; apply Qplus_comp; assumption|apply H|apply IH; exact H].
Qed.

Lemma sum_from_ext (F F' : Z -> option Q) n : forall lo, (forall k, F k = F' k) -> sum_from F lo n = sum_from F' lo n.
Proof. induction n as [|n IH]; intros lo H; cbn [sum_from]; [reflexivity|]. rewrite H, (IH _ H). reflexivity. Qed.

Lemma let_env_rel rho rho' (l : list (var * expr)) :
  Forall (fun ye => forall r r', (forall y, fvb y (snd ye) = true -> oq_rel (r y) (r' y)) ->
                                 oq_rel (eval r (snd ye)) (eval r' (snd ye))) l ->
  (forall y, anyfv y l = true -> oq_rel (rho y) (rho' y)) ->
  forall y, (boundb y l = false -> oq_rel (rho y) (rho' y)) -> oq_rel (let_env rho l y) (let_env rho' l y).
Proof.
  induction l as [|[z e'] r IH]; intros HF Hany y Hy.
  - apply Hy. reflexivity.
  - rewrite !let_env_cons. inversion HF as [|? ? He HF']; subst. cbn [snd] in He. unfold env_upd. destruct (N.eqb y z) eqn:E.
    + apply He. intros w Hw. apply Hany. rewrite anyfv_cons, Hw. reflexivity.
    + apply IH; [exact HF'| |].
      * intros w Hw. apply Hany. rewrite anyfv_cons, Hw. apply orb_true_r.
      * intros Hb. apply Hy. rewrite boundb_cons, E, Hb. reflexivity.
Qed.

Theorem eval_rel : forall e rho rho',
  (forall y, fvb y e = true -> oq_rel (rho y) (rho' y)) -> oq_rel (eval rho e) (eval rho' e).
Proof.
  induction e using expr_ind'; intros rho rho' Hfv.
  - simpl. reflexivity.
  - cbn [eval]. apply Hfv. cbn [fvb]. apply N.eqb_refl.
  - cbn [eval]. apply omap2_rel; [intros; apply Qplus_comp; assumption| |];
      [apply IHe1|apply IHe2]; intros y Hy; apply Hfv; cbn [fvb]; rewrite Hy; auto using orb_true_r.
  - cbn [eval]. apply omap2_rel; [intros; unfold Qminus; apply Qplus_comp; [|apply Qopp_comp]; assumption| |];
      [apply IHe1|apply IHe2]; intros y Hy; apply Hfv; cbn [fvb]; rewrite Hy; auto using orb_true_r.
  - cbn [eval]. apply omap2_rel; [intros; apply Qmult_comp; assumption| |];
      [apply IHe1|apply IHe2]; intros y Hy; apply Hfv; cbn [fvb]; rewrite Hy; auto using orb_true_r.
  - cbn [eval].
    assert (H1 : oq_rel (eval rho e1) (eval rho' e1)) by (apply IHe1; intros y Hy; apply Hfv; cbn [fvb]; rewrite Hy; auto).
    assert (H2 : oq_rel (eval rho e2) (eval rho' e2)) by (apply IHe2; intros y Hy; apply Hfv; cbn [fvb]; rewrite Hy; auto using orb_true_r).
    destruct (eval rho e1), (eval rho' e1), (eval rho e2), (eval rho' e2); simpl in H1, H2; try contradiction; simpl; auto.
    rewrite (Qeq_bool_comp q1 q2 0 0 H2 (Qeq_refl 0)). destruct (Qeq_bool q2 0) eqn:E; simpl; [exact I|].
    apply Qdiv_comp; assumption.
  - cbn [eval]. specialize (IHe rho rho' Hfv). destruct (eval rho e), (eval rho' e); simpl in *; try contradiction; auto.
    apply Qopp_comp; assumption.
  - cbn [eval]. apply omap2_rel; [intros; apply Qmax_comp; assumption| |];
      [apply IHe1|apply IHe2]; intros y Hy; apply Hfv; cbn [fvb]; rewrite Hy; auto using orb_true_r.
  - cbn [eval]. specialize (IHe rho rho' Hfv). destruct (eval rho e), (eval rho' e); simpl in *; try contradiction; auto.
    unfold Qceil. rewrite (Qceiling_comp _ _ IHe). reflexivity.
  - cbn [eval]. specialize (IHe rho rho' Hfv). destruct (eval rho e), (eval rho' e); simpl in *; try contradiction; auto.
    rewrite (Qfloor_comp _ _ IHe). reflexivity.
  - cbn [eval].
    assert (H1 : oq_rel (eval rho e1) (eval rho' e1)) by (apply IHe1; intros y Hy; apply Hfv; cbn [fvb]; rewrite Hy; auto).
    assert (H2 : oq_rel (eval rho e2) (eval rho' e2)).
    { apply IHe2; intros y Hy; apply Hfv; cbn [fvb]; rewrite Hy. rewrite orb_true_r. reflexivity. }
    destruct (eval rho e1) as [l|], (eval rho' e1) as [l'|], (eval rho e2) as [h|], (eval rho' e2) as [h'|];
      simpl in H1, H2; try contradiction; simpl; auto.
    rewrite (is_int_comp _ _ H1), (is_int_comp _ _ H2), (Qfloor_comp _ _ H1), (Qfloor_comp _ _ H2).
    destruct (is_int l' && is_int h'); [|exact I].
    destruct ((Qfloor h' - Qfloor l' + 1 <? 0)%Z || (SUM_LIMIT <? Qfloor h' - Qfloor l' + 1)%Z); [exact I|].
    apply sum_from_rel. intros k. apply IHe3. intros y Hy. unfold env_upd. destruct (N.eqb y i) eqn:E.
    + simpl. reflexivity.
    + apply Hfv. cbn [fvb]. rewrite E, Hy. cbn [negb andb]. apply orb_true_r.
  - cbn [eval].
    assert (H1 : oq_rel (eval rho e1) (eval rho' e1)) by (apply IHe1; intros y Hy; apply Hfv; cbn [fvb]; rewrite Hy; auto).
    assert (H2 : oq_rel (eval rho e2) (eval rho' e2)).
    { apply IHe2; intros y Hy; apply Hfv; cbn [fvb]; rewrite Hy. rewrite orb_true_r. reflexivity. }
    destruct (eval rho e1) as [u|], (eval rho' e1) as [u'|], (eval rho e2) as [v|], (eval rho' e2) as [v'|];
      simpl in H1, H2; try contradiction; simpl; auto.
    rewrite (Qle_bool_comp _ _ _ _ H1 H2). destruct (Qle_bool u' v').
    + apply IHe3; intros y Hy; apply Hfv; cbn [fvb]; rewrite Hy. rewrite orb_true_r. reflexivity.
    + apply IHe4; intros y Hy; apply Hfv; cbn [fvb]; rewrite Hy. apply orb_true_r.
  - rewrite !eval_ELet. apply IHe. intros y Hy. apply let_env_rel.
    + exact H.
    + intros w Hw. apply Hfv. rewrite fvb_ELet, Hw. reflexivity.
    + intros Hb. apply Hfv. rewrite fvb_ELet, Hb, Hy. cbn [negb andb]. apply orb_true_r.
Qed.

Definition env_rel (rho rho' : env) : Prop := forall y, oq_rel (rho y) (rho' y).

Corollary eval_env_rel e rho rho' : env_rel rho rho' -> oq_rel (eval rho e) (eval rho' e).
Proof. intros H. apply eval_rel. intros y _. apply H. Qed.

(* a variable that does not occur can be re-bound *)
Corollary eval_indep x e rho v : fvb x e = false -> eval (env_upd rho x v) e = eval rho e.
Proof.
  intros Hx.
  assert (forall r r', (forall y, fvb y e = true -> r y = r' y) -> eval r e = eval r' e) as Hgen.
  { clear. induction e using expr_ind'; intros r r' Hfv; cbn [eval];
      try (rewrite (IHe1 r r'), (IHe2 r r'); [reflexivity|intros y Hy; apply Hfv; cbn [fvb]; rewrite Hy; auto using orb_true_r..]);
      try (rewrite (IHe r r'); [reflexivity|exact Hfv]); try reflexivity.
    - apply Hfv. cbn [fvb]. apply N.eqb_refl.
    - rewrite (IHe1 r r'), (IHe2 r r');
        [|intros y Hy; apply Hfv; cbn [fvb]; rewrite Hy; rewrite ?orb_true_r; reflexivity..].
      destruct (eval r' e1) as [l|]; [|reflexivity]. destruct (eval r' e2) as [h|]; [|reflexivity].
      destruct (is_int l && is_int h); [|reflexivity].
      destruct ((Qfloor h - Qfloor l + 1 <? 0)%Z || (SUM_LIMIT <? Qfloor h - Qfloor l + 1)%Z); [reflexivity|].
      apply sum_from_ext. intros k. apply IHe3. intros y Hy. unfold env_upd. destruct (N.eqb y i) eqn:E; [reflexivity|].
      apply Hfv. cbn [fvb]. rewrite E, Hy. cbn [negb andb]. apply orb_true_r.
    - rewrite (IHe1 r r'), (IHe2 r r');
        [|intros y Hy; apply Hfv; cbn [fvb]; rewrite Hy; rewrite ?orb_true_r; reflexivity..].
      destruct (eval r' e1) as [u|]; [|reflexivity]. destruct (eval r' e2) as [v|]; [|reflexivity].
      destruct (Qle_bool u v); [apply IHe3|apply IHe4]; intros y Hy; apply Hfv; cbn [fvb]; rewrite Hy; rewrite ?orb_true_r; reflexivity.
    - fold (let_env r bs) (let_env r' bs). apply IHe. intros y Hy.
      assert (Hany : forall w, anyfv w bs = true -> r w = r' w) by (intros w Hw; apply Hfv; rewrite fvb_ELet, Hw; reflexivity).
      assert (Hbd : boundb y bs = false -> r y = r' y) by (intros Hb; apply Hfv; rewrite fvb_ELet, Hb, Hy; cbn [negb andb]; apply orb_true_r).
      clear Hfv Hy IHe. induction bs as [|[z e'] rr IHb]; [apply Hbd; reflexivity|]. rewrite !let_env_cons.
      inversion H as [|? ? He HF']; subst. cbn [snd] in He. unfold env_upd. destruct (N.eqb y z) eqn:E.
      + apply He. intros w Hw. apply Hany. rewrite anyfv_cons, Hw. reflexivity.
      + apply IHb; [exact HF'| |].
        * intros w Hw. apply Hany. rewrite anyfv_cons, Hw. apply orb_true_r.
        * intros Hb. apply Hbd. rewrite boundb_cons, E, Hb. reflexivity. }
  apply Hgen. intros y Hy. unfold env_upd. destruct (N.eqb y x) eqn:E; [|reflexivity].
  apply N.eqb_eq in E. subst y. congruence.
Qed.

Lemma no_t_indep coef rho v : no_t coef = true -> map (eval (env_upd rho tvar v)) coef = map (eval rho) coef.
Proof.
  unfold no_t. induction coef as [|c r IH]; intros H; [reflexivity|]. cbn [forallb] in H. apply andb_prop in H as (Hc & Hr).
  cbn [map]. rewrite IH by exact Hr. rewrite eval_indep; [reflexivity|]. destruct (fvb tvar c); [discriminate|reflexivity].
Qed.

(* two updates of the same variable / an update with a Qeq-equal value *)
Lemma env_rel_upd rho rho' x v v' : env_rel rho rho' -> oq_rel v v' -> env_rel (env_upd rho x v) (env_upd rho' x v').
Proof. intros H Hv y. unfold env_upd. destruct (N.eqb y x); [exact Hv|apply H]. Qed.
Lemma env_rel_refl rho : env_rel rho rho.
Proof. intros y. apply oq_rel_refl. Qed.
Lemma env_rel_upd_upd rho x v w : env_rel (env_upd (env_upd rho x v) x w) (env_upd rho x w).
Proof. intros y. unfold env_upd. destruct (N.eqb y x); apply oq_rel_refl. Qed.

(* ---- the polynomial c0 + c1*t + ... evaluated with t bound to tau ---- *)
Lemma opt_all_Forall2 {A B} (f : A -> option B) l r :
  opt_all (map f l) = Some r -> Forall2 (fun a b => f a = Some b) l r.
Proof.
  revert r; induction l as [|a l IH]; intros r H; cbn [map opt_all] in H.
  - inversion H. constructor.
  - destruct (f a) as [b|] eqn:E; [|discriminate]. destruct (opt_all (map f l)) as [r'|]; [|discriminate].
    inversion H; subst. constructor; [exact E|apply IH; reflexivity].
Qed.

Lemma eval_poly_expr_from rho tau coef cf : Forall2 (fun e q => eval rho e = Some q) coef cf -> no_t coef = true ->
  forall k, exists v, eval (env_upd rho tvar (Some tau)) (poly_expr_from k coef) = Some v /\ v == qpow tau k * peval cf tau.
Proof.
  intros HF. induction HF as [|c q coef cf Hc HF IH]; intros Hnt k.
  - exists 0. split; [reflexivity|]. simpl. ring.
  - unfold no_t in Hnt. cbn [forallb] in Hnt. apply andb_prop in Hnt as (Hc0 & Hnt).
    assert (Ec : eval (env_upd rho tvar (Some tau)) c = Some q).
    { rewrite eval_indep; [exact Hc|]. destruct (fvb tvar c); [discriminate|reflexivity]. }
    assert (Eterm : exists w, eval (env_upd rho tvar (Some tau)) (match k with O => c | _ => EMul c (epow (EV tvar) k) end) = Some w
                              /\ w == q * qpow tau k).
    { destruct k as [|k].
      - exists q. split; [exact Ec|]. simpl. ring.
      - destruct (eval_epow (env_upd rho tvar (Some tau)) (EV tvar) tau (S k)) as (w & Ew & Hw).
        { cbn [eval]. apply env_upd_same. }
        exists (q * w). split; [|rewrite Hw; reflexivity]. cbn [eval] in *. rewrite Ec, Ew. reflexivity. }
    destruct Eterm as (w & Ew & Hw).
    destruct (IH Hnt (S k)) as (v & Ev & Hv).
    destruct coef as [|c2 coef].
    + inversion HF; subst. cbn [poly_expr_from]. exists w. split; [exact Ew|]. rewrite Hw. simpl. ring.
    + change (poly_expr_from k (c :: c2 :: coef))
        with (EAdd (match k with O => c | _ => EMul c (epow (EV tvar) k) end) (poly_expr_from (S k) (c2 :: coef))).
      exists (w + v). cbn [eval]. rewrite Ew, Ev. split; [reflexivity|]. rewrite Hw, Hv. cbn [peval qpow]. ring.
Qed.

Lemma eval_poly_expr rho tau coef cf : Forall2 (fun e q => eval rho e = Some q) coef cf -> no_t coef = true ->
  exists v, eval (env_upd rho tvar (Some tau)) (poly_expr coef) = Some v /\ v == peval cf tau.
Proof.
  intros HF Hnt. destruct (eval_poly_expr_from rho tau coef cf HF Hnt 0) as (v & Ev & Hv).
  exists v. split; [exact Ev|]. rewrite Hv. simpl. ring.
Qed.

(* a constant "polynomial" (at most one coefficient) needs no binding of t *)
Lemma eval_poly_expr_const rho coef cf : Forall2 (fun e q => eval rho e = Some q) coef cf -> timedep coef = false ->
  forall tau, exists v, eval rho (poly_expr coef) = Some v /\ v == peval cf tau.
Proof.
  intros HF Htd tau. destruct coef as [|c [|c2 coef]]; [| |discriminate].
  - inversion HF; subst. exists 0. split; reflexivity.
  - inversion HF as [|? q ? cf' Hc HF']; subst. inversion HF'; subst. exists q. split; [exact Hc|]. simpl. ring.
Qed.

Lemma peval_comp cf t t' : t == t' -> peval cf t == peval cf t'.
Proof. intros H. induction cf as [|c r IH]; simpl; [reflexivity|]. rewrite IH, H. reflexivity. Qed.
