(* C07 — proofs, part 2: the closed forms ForLoopPT builds (Sum with ceiling/Max, Piecewise for the empty range, the
   substituted start / final index) evaluate to the sum over / the first / the last element of the Python range. *)
From Coq Require Import ZArith QArith Qround List Bool Lia ZifyBool Lra Lqa.
Require Import QV.C07.Model QV.C07.Spec QV.C07.Wf QV.C07.ProofsRange.
Import ListNotations.
Open Scope Q_scope.

Definition ev_eq (rho : env) (e : expr) (q : Q) : Prop := exists v, eval rho e = Some v /\ v == q.
Definition int_val (rho : env) (e : expr) (z : Z) : Prop := ev_eq rho e (inject_Z z).
(* e does not look at variable i *)
Definition indep (i : var) (e : expr) (rho : env) : Prop := forall v, eval (env_upd rho i v) e = eval rho e.

Definition sumZ (f : Z -> Q) (ks : list Z) : Q := fold_right (fun k acc => f k + acc) 0 ks.

Lemma inject_Z_minus a b : inject_Z (a - b) == inject_Z a - inject_Z b.
Proof. unfold Z.sub. rewrite inject_Z_plus, inject_Z_opp. reflexivity. Qed.

Lemma Qle_bool_inject_Z z1 z2 : Qle_bool (inject_Z z1) (inject_Z z2) = (z1 <=? z2)%Z.
Proof. unfold Qle_bool, inject_Z. cbn [Qnum Qden]. f_equal; ring. Qed.
Lemma Qle_bool_minus1 z : Qle_bool (inject_Z z - 1) 0 = (z - 1 <=? 0)%Z.
Proof. unfold Qle_bool, Qminus, Qplus, Qopp, inject_Z. cbn [Qnum Qden]. f_equal; ring. Qed.

Lemma env_upd_same rho i v : env_upd rho i v i = v.
Proof. unfold env_upd. rewrite N.eqb_refl. reflexivity. Qed.

Lemma env_upd_other rho i v x : x <> i -> env_upd rho i v x = rho x.
Proof. intros H. unfold env_upd. rewrite (proj2 (N.eqb_neq x i) H). reflexivity. Qed.

(* "the body's quantity e has value f k whenever the loop index is bound to k": stated for every environment that
   agrees with rho outside the index (the substituted body is evaluated under a re-bound index) *)
Definition body_rule (rho : env) (i : var) (e : expr) (ks : list Z) (f : Z -> Q) : Prop :=
  forall k q rho', In k ks -> q == inject_Z k -> (forall x, x <> i -> rho' x = rho x) -> rho' i = Some q ->
                   ev_eq rho' e (f k).

Lemma is_int_of_eq h z : h == inject_Z z -> is_int h = true /\ Qfloor h = z.
Proof.
  intros H. assert (Hf : Qfloor h = z) by (rewrite (Qfloor_comp _ _ H); apply Qfloor_Z).
  split; [|exact Hf]. unfold is_int. rewrite Hf. apply Qeq_bool_iff. exact H.
Qed.

Lemma inject_Z_nonzero s : (s <> 0)%Z -> ~ inject_Z s == 0.
Proof. intros Hs H. apply Hs. unfold Qeq, inject_Z in H; simpl in H. lia. Qed.

(* ceiling((stop - start)/step) *)
Lemma eval_loop_count rho start stop step a o s :
  int_val rho start a -> int_val rho stop o -> int_val rho step s -> (s <> 0)%Z ->
  eval rho (loop_count start stop step) = Some (inject_Z (Qceil (inject_Z (o - a) / inject_Z s))).
Proof.
  intros (qa & Ea & Ha) (qo & Eo & Ho) (qs & Es & Hs) Hne.
  unfold loop_count. cbn [eval]. rewrite Ea, Eo, Es. cbn [omap2].
  assert (Hnz : Qeq_bool qs 0 = false).
  { apply not_true_iff_false. intros H. apply Qeq_bool_iff in H. rewrite Hs in H. exact (inject_Z_nonzero s Hne H). }
  rewrite Hnz. cbn [option_map]. do 2 f_equal. unfold Qceil. apply Qceiling_comp.
  rewrite Ha, Ho, Hs. rewrite inject_Z_minus. reflexivity.
Qed.

Lemma range_from_In a s n k : (k < n)%nat -> In (a + Z.of_nat k * s)%Z (range_from a s n).
Proof.
  intros Hk. rewrite <- (range_from_nth a s n k Hk). apply nth_In. rewrite range_from_length. exact Hk.
Qed.

(* sum_from over k = lo .. lo+n-1 of a function that realises f on a + k*s *)
Lemma sum_from_range (F : Z -> option Q) (f : Z -> Q) a s n : forall lo,
  (forall k, (lo <= k < lo + Z.of_nat n)%Z -> exists v, F k = Some v /\ v == f (a + k * s)%Z) ->
  exists v, sum_from F lo n = Some v /\ v == sumZ f (range_from (a + lo * s) s n).
Proof.
  induction n as [|n IH]; intros lo H.
  - exists 0. split; reflexivity.
  - destruct (H lo ltac:(lia)) as (v0 & E0 & H0).
    destruct (IH (lo + 1)%Z) as (v1 & E1 & H1).
    { intros k Hk. apply H. lia. }
    exists (v0 + v1). cbn [sum_from]. rewrite E0, E1. split; [reflexivity|].
    cbn [range_from sumZ fold_right]. rewrite H0, H1.
    replace (a + (lo + 1) * s)%Z with (a + lo * s + s)%Z by ring. reflexivity.
Qed.

(* ForLoopPT.integral / ForLoopPT.duration: `for_sum_correct` is in ProofsSum.v (round 6: it needs the congruence of
   eval for the fresh sum index of a range that names its own loop index) *)

(* ---- ForLoopPT.initial_values: the body's value with the index replaced by `start` ---- *)
Theorem for_initial_correct rho i start a e (f : Z -> Q) ks o s :
  int_val rho start a -> py_range a o s = Some ks -> ks <> [] ->
  body_rule rho i e ks f ->
  ev_eq rho (ELet [(i, start)] e) (f (hd 0%Z ks)).
Proof.
  intros (qa & Ea & Hqa) Hr Hne Hbody. unfold ev_eq. cbn [eval]. rewrite Ea.
  destruct (py_range_spec _ _ _ _ Hr) as (_ & _ & Hnth).
  destruct ks as [|k0 ks]; [congruence|]. cbn [hd].
  destruct (Hnth 0%nat ltac:(simpl; lia)) as (H0 & _). cbn [nth] in H0.
  apply (Hbody k0 qa); [left; reflexivity| | |].
  - rewrite Hqa. assert (Hk : k0 = a) by (rewrite H0; simpl; ring). rewrite Hk. reflexivity.
  - intros x Hx. apply env_upd_other. exact Hx.
  - apply env_upd_same.
Qed.

(* ---- ForLoopPT.final_values: start + Max((stop - start - sign(step)) // step, 0) * step ---- *)
Lemma eval_esign rho step s : int_val rho step s -> int_val rho (esign step) (Z.sgn s).
Proof.
  intros (qs & Es & Hs). unfold esign, int_val, ev_eq. cbn [eval]. rewrite Es. change (eval rho e0) with (Some 0).
  change (eval rho e1) with (Some 1). cbv iota beta.
  assert (H1 : Qle_bool qs 0 = (s <=? 0)%Z).
  { destruct (Qle_bool qs 0) eqn:E, (s <=? 0)%Z eqn:E2; try reflexivity; exfalso.
    - apply Qle_bool_iff in E. rewrite Hs in E. unfold Qle, inject_Z in E. simpl in E. lia.
    - assert (Qle_bool qs 0 = true) by (apply Qle_bool_iff; rewrite Hs; unfold Qle, inject_Z; simpl; lia). congruence. }
  assert (H2 : Qle_bool 0 qs = (0 <=? s)%Z).
  { destruct (Qle_bool 0 qs) eqn:E, (0 <=? s)%Z eqn:E2; try reflexivity; exfalso.
    - apply Qle_bool_iff in E. rewrite Hs in E. unfold Qle, inject_Z in E. simpl in E. lia.
    - assert (Qle_bool 0 qs = true) by (apply Qle_bool_iff; rewrite Hs; unfold Qle, inject_Z; simpl; lia). congruence. }
  rewrite H1, H2. destruct (s <=? 0)%Z eqn:E1; [destruct (0 <=? s)%Z eqn:E2|].
  - exists 0. split; [reflexivity|]. assert (s = 0%Z) by lia. subst s. reflexivity.
  - exists (-(1)). split; [reflexivity|]. rewrite Z.sgn_neg by lia. reflexivity.
  - exists 1. split; [reflexivity|]. rewrite Z.sgn_pos by lia. reflexivity.
Qed.

Lemma eval_loop_final_index rho start stop step a o s :
  int_val rho start a -> int_val rho stop o -> int_val rho step s -> (s <> 0)%Z ->
  int_val rho (loop_final_index start stop step) (last_index a o s).
Proof.
  intros (qa & Ea & Ha) (qo & Eo & Ho) Hs' Hne. destruct (eval_esign rho step s Hs') as (qg & Eg & Hg).
  destruct Hs' as (qs & Es & Hs).
  unfold loop_final_index, int_val, ev_eq. cbn [eval]. fold (esign step). rewrite Ea, Eo, Es. cbn [eval] in Eg. rewrite Eg. cbn [omap2].
  assert (Hnz : Qeq_bool qs 0 = false).
  { apply not_true_iff_false. intros H. apply Qeq_bool_iff in H. rewrite Hs in H. exact (inject_Z_nonzero s Hne H). }
  rewrite Hnz. cbn [option_map omap2]. change (eval rho e0) with (Some 0). cbn [omap2].
  eexists; split; [reflexivity|].
  assert (Hfl : Qfloor ((qo - qa - qg) / qs) = ((o - a - Z.sgn s) / s)%Z).
  { rewrite <- Qfloor_div by assumption. apply Qfloor_comp. rewrite Ha, Ho, Hs, Hg, !inject_Z_minus. reflexivity. }
  rewrite Hfl. unfold last_index. rewrite Ha, Hs.
  rewrite inject_Z_plus, inject_Z_mult. apply Qplus_comp; [reflexivity|]. apply Qmult_comp; [|reflexivity].
  unfold Qmax. pose proof (Qle_bool_inject_Z ((o - a - Z.sgn s) / s) 0) as Hb. change (inject_Z 0) with 0 in Hb. rewrite Hb.
  destruct ((o - a - Z.sgn s) / s <=? 0)%Z eqn:E.
  - rewrite Z.max_r by lia. reflexivity.
  - rewrite Z.max_l by lia. reflexivity.
Qed.

(* the substituted index is the last iteration's, for every non-empty range *)
Theorem for_final_correct rho i start stop step e a o s ks (f : Z -> Q) :
  int_val rho start a -> int_val rho stop o -> int_val rho step s ->
  py_range a o s = Some ks -> ks <> [] ->
  body_rule rho i e ks f ->
  ev_eq rho (ELet [(i, loop_final_index start stop step)] e) (f (last ks 0%Z)).
Proof.
  intros Ha Ho Hs Hr Hne Hbody.
  destruct (py_range_spec _ _ _ _ Hr) as (Hsn & _ & _).
  destruct (eval_loop_final_index rho start stop step a o s Ha Ho Hs Hsn) as (q & Eq & Hq).
  unfold ev_eq. cbn [eval]. rewrite Eq.
  rewrite (last_index_ok a o s ks Hr Hne) in Hq.
  apply (Hbody (last ks 0%Z) q); [|exact Hq| |].
  - destruct ks; [congruence|]. apply (@exists_last _ (z :: ks)) in Hne as (l' & x & Hl).
    rewrite Hl. rewrite last_last. apply in_or_app. right. left. reflexivity.
  - intros x Hx. apply env_upd_other. exact Hx.
  - apply env_upd_same.
Qed.

(* ---- p_int is additive over concatenation (sequence / repetition / loop unrolling on the specification side) ---- *)
Lemma p_int_app a b c x y : p_int a c = Some x -> p_int b c = Some y -> exists z, p_int (a ++ b) c = Some z /\ z == x + y.
Proof.
  revert x; induction a as [|pc a IH]; intros x Ha Hb.
  - inversion Ha; subst. exists y. split; [exact Hb|ring].
  - cbn [p_int app] in *. destruct (dget c (snd pc)) as [fc|]; [|discriminate].
    destruct (p_int a c) as [xa|] eqn:Ea; [|discriminate]. inversion Ha; subst x.
    destruct (IH xa eq_refl Hb) as (z & Ez & Hz). rewrite Ez. eexists; split; [reflexivity|]. rewrite Hz. ring.
Qed.
