(* C07 — proofs, round 3: DEFINEDNESS.  Under Def.guard_C07_defined, whenever a well-formed template denotes a pulse at
   rho, its symbolic duration and every entry of its integral / initial_values / final_values dictionaries evaluate to a
   number at rho (one induction over all 13 classes). *)
From Coq Require Import ZArith QArith Qround List Bool Lia Lra Lqa.
Require Import QV.C07.Model QV.C07.Spec QV.C07.Wf QV.C07.Def QV.C07.ProofsRange QV.C07.ProofsLoop QV.C07.ProofsAtoms
               QV.C07.ProofsExpr QV.C07.ProofsPt QV.C07.ProofsDict QV.C07.ProofsSum QV.C07.ProofsKeysQ QV.C07.ProofsKeysD
               QV.C07.ProofsDur QV.C07.ProofsIntAtoms QV.C07.ProofsObs QV.C07.ProofsInt.
Import ListNotations.
Open Scope Q_scope.

Definition defd (rho : env) (e : expr) : Prop := exists v, eval rho e = Some v.
Definition alld (rho : env) (d : dict) : Prop := Forall (fun kv => defd rho (snd kv)) d.

Lemma ev_eq_defd rho e x : ev_eq rho e x -> defd rho e.
Proof. intros (v & Ev & _). exists v. exact Ev. Qed.

Lemma defd_rel rho rho' e : env_rel rho rho' -> defd rho e -> defd rho' e.
Proof.
  intros Hr (v & Ev). pose proof (eval_env_rel e _ _ Hr) as H. rewrite Ev in H.
  destruct (eval rho' e) as [w|] eqn:E; [exists w; exact E|contradiction].
Qed.

Lemma alld_dget rho d c e : alld rho d -> dget c d = Some e -> defd rho e.
Proof.
  intros Ha Hc. apply dget_In in Hc. unfold alld in Ha. rewrite Forall_forall in Ha. exact (Ha _ Hc).
Qed.

Lemma alld_dset rho c v : defd rho v -> forall d, alld rho d -> alld rho (dset c v d).
Proof.
  intros Hv. induction d as [|[k w] r IH]; intros Hd; cbn [dset].
  - constructor; [exact Hv|constructor].
  - inversion Hd as [|? ? Hw Hr]; subst. destruct (N.eqb k c); (constructor; [assumption|]); [exact Hr|apply IH; exact Hr].
Qed.

Lemma alld_dupdate rho u : forall d, alld rho d -> alld rho u -> alld rho (dupdate d u).
Proof.
  unfold dupdate. induction u as [|[k v] r IH]; intros d Hd Hu; cbn [fold_left]; [exact Hd|].
  inversion Hu as [|? ? Hv Hr]; subst. apply IH; [|exact Hr]. cbn [fst snd]. apply alld_dset; assumption.
Qed.

Lemma alld_dmap rho rho' (f : expr -> expr) d :
  (forall e, defd rho e -> defd rho' (f e)) -> alld rho d -> alld rho' (dmap f d).
Proof.
  intros Hf Hd. unfold dmap, alld. apply Forall_map. unfold alld in Hd. eapply Forall_impl; [|exact Hd].
  intros [k e] He. cbn [snd] in *. apply Hf, He.
Qed.

Lemma defd_ELet rho pm e : defd (let_env rho pm) e -> defd rho (ELet pm e).
Proof. intros (v & Ev). exists v. rewrite eval_ELet. exact Ev. Qed.

Lemma alld_map_dict rho pm cm d : alld (let_env rho pm) d -> alld rho (map_dict pm cm d).
Proof.
  unfold map_dict. assert (G : forall acc, alld rho acc -> alld (let_env rho pm) d ->
    alld rho (fold_left (fun res kv => match dget (fst kv) cm with
                                       | Some None => res
                                       | Some (Some c') => dset c' (ELet pm (snd kv)) res
                                       | None => dset (fst kv) (ELet pm (snd kv)) res
                                       end) d acc)).
  { induction d as [|[k e] r IH]; intros acc Ha Hd; cbn [fold_left]; [exact Ha|].
    inversion Hd as [|? ? He Hr]; subst. cbn [fst snd] in *. apply IH; [|exact Hr].
    destruct (dget k cm) as [[c'|]|]; [apply alld_dset| |apply alld_dset]; auto using defd_ELet. }
  intros Hd. apply G; [constructor|exact Hd].
Qed.

Lemma defd_bin rho (mk : expr -> expr -> expr) (f : Q -> Q -> Q) a b :
  (forall r x y, eval r (mk x y) = omap2 f (eval r x) (eval r y)) -> defd rho a -> defd rho b -> defd rho (mk a b).
Proof. intros H (x & Ex) (y & Ey). exists (f x y). rewrite H, Ex, Ey. reflexivity. Qed.

Lemma defd_EAdd rho a b : defd rho a -> defd rho b -> defd rho (EAdd a b).
Proof. intros (x & Ex) (y & Ey). exists (x + y). cbn [eval]. rewrite Ex, Ey. reflexivity. Qed.
Lemma defd_ESub rho a b : defd rho a -> defd rho b -> defd rho (ESub a b).
Proof. intros (x & Ex) (y & Ey). exists (x - y). cbn [eval]. rewrite Ex, Ey. reflexivity. Qed.
Lemma defd_EMul rho a b : defd rho a -> defd rho b -> defd rho (EMul a b).
Proof. intros (x & Ex) (y & Ey). exists (x * y). cbn [eval]. rewrite Ex, Ey. reflexivity. Qed.
Lemma defd_EMax rho a b : defd rho a -> defd rho b -> defd rho (EMax a b).
Proof. intros (x & Ex) (y & Ey). exists (Qmax x y). cbn [eval]. rewrite Ex, Ey. reflexivity. Qed.
Lemma defd_ENeg rho a : defd rho a -> defd rho (ENeg a).
Proof. intros (x & Ex). exists (- x). cbn [eval]. rewrite Ex. reflexivity. Qed.
Lemma defd_EDiv rho a b y : defd rho a -> eval rho b = Some y -> Qeq_bool y 0 = false -> defd rho (EDiv a b).
Proof. intros (x & Ex) Ey Hy. exists (x / y). cbn [eval]. rewrite Ex, Ey, Hy. reflexivity. Qed.
Lemma defd_e0 rho : defd rho e0.
Proof. exists 0. reflexivity. Qed.
Lemma defd_e1 rho : defd rho e1.
Proof. exists 1. reflexivity. Qed.

Definition nz (rho : env) (b : expr) : Prop := exists y, eval rho b = Some y /\ Qeq_bool y 0 = false.

Lemma defd_apply_both rho op a b : defd rho a -> defd rho b -> (op = ODiv -> nz rho b) -> defd rho (apply_both op a b).
Proof.
  intros Ha Hb Hz. destruct op; cbn [apply_both]; auto using defd_EAdd, defd_ESub, defd_EMul.
  destruct (Hz eq_refl) as (y & Ey & Hy). eapply defd_EDiv; eauto.
Qed.
Lemma defd_apply_rhs rho op b : defd rho b -> (op = ODiv -> nz rho b) -> defd rho (apply_rhs_only op b).
Proof.
  intros Hb Hz. destruct op; cbn [apply_rhs_only]; auto using defd_ENeg.
  destruct (Hz eq_refl) as (y & Ey & Hy). eapply defd_EDiv; eauto using defd_e1.
Qed.

Lemma nonzero_vals_nz rho d : nonzero_vals rho d = true -> Forall (fun kv => nz rho (snd kv)) d.
Proof.
  unfold nonzero_vals. intros H. rewrite forallb_forall in H. apply Forall_forall. intros kv Hin. specialize (H kv Hin).
  unfold nz. destruct (eval rho (snd kv)) as [y|] eqn:E; [|discriminate]. exists y. split; [reflexivity|].
  destruct (Qeq_bool y 0); [discriminate|reflexivity].
Qed.

Lemma alld_apply_op rho op rhs : forall lhs, alld rho lhs -> alld rho rhs ->
  (op = ODiv -> Forall (fun kv => nz rho (snd kv)) rhs) -> alld rho (apply_op_dict op lhs rhs).
Proof.
  unfold apply_op_dict. induction rhs as [|[k b] r IH]; intros lhs Hl Hr Hz; cbn [fold_left]; [exact Hl|].
  inversion Hr as [|? ? Hb Hr']; subst. cbn [fst snd] in *.
  assert (Hzb : op = ODiv -> nz rho b) by (intros E; specialize (Hz E); inversion Hz; assumption).
  apply IH; [|exact Hr'|intros E; specialize (Hz E); inversion Hz; assumption].
  destruct (dget k lhs) as [a|] eqn:Ea.
  - apply alld_dset; [|exact Hl]. apply defd_apply_both; [exact (alld_dget _ _ _ _ Hl Ea)|exact Hb|exact Hzb].
  - apply alld_dset; [|exact Hl]. apply defd_apply_rhs; assumption.
Qed.

Lemma let_env_one rho i e : let_env rho [(i, e)] = env_upd rho i (eval rho e).
Proof. reflexivity. Qed.

(* ---- table / point atoms ---- *)
Definition entry_ok (rho : env) (e : tentry) : Prop := defd rho (fst (fst e)) /\ defd rho (snd (fst e)).

Lemma eval_entry_ok rho e n : eval_entry rho e = Some n -> entry_ok rho e.
Proof.
  destruct e as [[t v] ip]. unfold eval_entry, entry_ok. cbn [fst snd].
  unfold defd. destruct (eval rho t) as [a|] eqn:Et; [|discriminate]. destruct (eval rho v) as [b|] eqn:Ev; [|discriminate].
  intros _. split; eexists; reflexivity.
Qed.

Lemma F2_entries_ok rho es l : Forall2 (fun e n => eval_entry rho e = Some n) es l -> Forall (entry_ok rho) es.
Proof. induction 1; constructor; eauto using eval_entry_ok. Qed.

Lemma last_P {A} (P : A -> Prop) l : forall d, Forall P l -> P d -> P (last l d).
Proof.
  induction l as [|x r IH]; intros d Hl Hd; [exact Hd|]. inversion Hl; subst. cbn [last]. destruct r; [assumption|].
  apply IH; assumption.
Qed.

Lemma entry_ok_default rho : entry_ok rho (e0, e0, IHold).
Proof. split; apply defd_e0. Qed.

Lemma defd_emax_list rho l : forall d, defd rho d -> Forall (defd rho) l -> defd rho (emax_list d l).
Proof.
  induction l as [|x r IH]; intros d Hd Hl; cbn [emax_list]; [exact Hd|]. inversion Hl; subst.
  apply IH; [apply defd_EMax; assumption|assumption].
Qed.

Lemma defd_sequence_integral rho es : forall acc pt pv,
  Forall (entry_ok rho) es -> defd rho acc -> defd rho pt -> defd rho pv -> defd rho (sequence_integral acc (pt, pv) es).
Proof.
  induction es as [|[[t v] ip] es IH]; intros acc pt pv Hes Ha Hpt Hpv; cbn [sequence_integral]; [exact Ha|].
  inversion Hes as [|? ? (Ht & Hv) Hes']; subst. cbn [fst snd] in *. apply IH; try assumption.
  apply defd_EAdd; [exact Ha|].
  destruct Hpt as (a & Ea), Hpv as (b & Eb), Ht as (a1 & Ea1), Hv as (b1 & Eb1).
  exact (ev_eq_defd _ _ _ (eval_interp_integral rho ip pt pv t v a b a1 b1 Ea Eb Ea1 Eb1)).
Qed.

Lemma table_entries_ok rho (chs : list (chan * list tentry)) nchs :
  opt_all (map (fun ch => option_map (fun l => (fst ch, l)) (opt_all (map (eval_entry rho) (snd ch)))) chs) = Some nchs ->
  Forall (fun ch => Forall (entry_ok rho) (snd ch)) chs.
Proof.
  intros H. apply opt_all_Forall2 in H. induction H as [|ch n chs' nchs' Hch _ IH]; constructor; [|exact IH].
  destruct (opt_all (map (eval_entry rho) (snd ch))) as [l|] eqn:E; [|discriminate].
  apply opt_all_Forall2 in E. eapply F2_entries_ok; eassumption.
Qed.

Definition last_time (es : list tentry) : expr := match last_or es (e0, e0, IHold) with (t, _, _) => t end.
Definition last_val (es : list tentry) : expr := match last_or es (e0, e0, IHold) with (_, v, _) => v end.

Lemma last_entry_ok rho es : Forall (entry_ok rho) es -> defd rho (last_time es) /\ defd rho (last_val es).
Proof.
  intros H. unfold last_time, last_val, last_or.
  pose proof (last_P (entry_ok rho) es (e0, e0, IHold) H (entry_ok_default rho)) as (H1 & H2).
  destruct (last es (e0, e0, IHold)) as [[t v] ip]. split; assumption.
Qed.

Lemma defd_duration_Table rho chs : Forall (fun ch => Forall (entry_ok rho) (snd ch)) chs -> defd rho (duration_expr (Table chs)).
Proof.
  intros H. cbn [duration_expr]. change (map _ chs) with (map (fun ch : chan * list tentry => last_time (snd ch)) chs).
  assert (HF : Forall (defd rho) (map (fun ch : chan * list tentry => last_time (snd ch)) chs)).
  { apply Forall_map. eapply Forall_impl; [|exact H]. intros ch Hch. apply (last_entry_ok rho _ Hch). }
  destruct (map (fun ch : chan * list tentry => last_time (snd ch)) chs) as [|t r]; [apply defd_e0|].
  inversion HF; subst. apply defd_emax_list; assumption.
Qed.

Lemma alld_Table rho q chs : Forall (fun ch => Forall (entry_ok rho) (snd ch)) chs -> alld rho (quant q (Table chs)).
Proof.
  intros H. pose proof (defd_duration_Table rho chs H) as HD. cbn [quant]. unfold alld. apply Forall_map.
  eapply Forall_impl; [|exact H]. intros [c es] Hes. cbn [fst snd] in *.
  destruct es as [|[[t0 v0] ip0] es']; [cbn [snd]; apply defd_e0|].
  pose proof (last_entry_ok rho _ Hes) as (_ & Hlv). unfold last_val in Hlv.
  inversion Hes as [|? ? (Ht0 & Hv0) _]; subst. cbn [fst snd] in *.
  destruct q; cbn [snd].
  - apply defd_sequence_integral; [|apply defd_e0|apply defd_e0|exact Hv0].
    apply Forall_app. split; [exact Hes|]. constructor; [|constructor]. split; cbn [fst snd]; assumption.
  - exact Hv0.
  - exact Hlv.
Qed.

(* ------------------------------------------------------------------------------------------------------------ *)
Definition def_ok (p : pt) : Prop := forall rho pcs,
  wf p = true -> denote p rho = Some pcs -> guard_C07_defined p rho = true ->
  defd rho (duration_expr p) /\ forall q, alld rho (quant q p).

Lemma def_Table chs : def_ok (Table chs).
Proof.
  intros rho pcs _ Hd _. cbn [denote] in Hd.
  destruct (opt_all (map (fun ch => option_map (fun l => (fst ch, l)) (opt_all (map (eval_entry rho) (snd ch)))) chs)) as [nchs|] eqn:E1; [|discriminate].
  pose proof (table_entries_ok rho chs nchs E1) as H. split; [apply defd_duration_Table, H|intros q; apply alld_Table, H].
Qed.

(* ---- PointPT ---- *)
Lemma last_map_f {A B} (f : A -> B) l : forall d, last (map f l) (f d) = f (last l d).
Proof. induction l as [|x r IH]; intros d; [reflexivity|]. cbn [map last]. destruct r as [|y r]; [reflexivity|]. exact (IH d). Qed.

Lemma point_es_ok rho ents j lj : point_entries rho ents j = Some lj -> Forall (entry_ok rho) (point_es j ents).
Proof. intros H. eapply F2_entries_ok. apply point_entries_F2. exact H. Qed.

Lemma pentry_val_ok rho k (x : pentry) :
  entry_ok rho ((fun en : pentry => match en with (t, v, ip) => (t, pval_at k v, ip) end) x) ->
  defd rho (match x with (_, v, _) => pval_at k v end).
Proof. destruct x as [[t v] ip]. intros (_ & H). exact H. Qed.

Lemma alld_point_q rho q t0 v0 ip0 ents' D :
  forall cs k fs, opt_all (den_point_go rho ((t0, v0, ip0) :: ents') D k cs) = Some fs ->
                  alld rho (point_q q ((t0, v0, ip0) :: ents') v0 k cs).
Proof.
  set (ents := (t0, v0, ip0) :: ents').
  induction cs as [|c cs IH]; intros k fs Hfs; [constructor|].
  rewrite den_point_go_cons in Hfs. cbn [opt_all] in Hfs.
  destruct (point_entries rho ents k) as [lk|] eqn:Ek; [|discriminate].
  destruct (table_chfun D lk) as [f|]; [|discriminate]. cbn [option_map] in Hfs.
  destruct (opt_all (den_point_go rho ents D (S k) cs)) as [r|] eqn:Er; [|discriminate].
  cbn [point_q]. constructor; [|exact (IH (S k) r Er)]. cbn [snd].
  pose proof (point_es_ok rho ents k lk Ek) as Hk. unfold point_es in Hk.
  assert (Hv0 : defd rho (pval_at k v0)).
  { unfold ents in Hk. cbn [map] in Hk. inversion Hk as [|? ? (_ & Hv) _]; subst. exact Hv. }
  destruct q.
  - apply defd_sequence_integral; [exact Hk|apply defd_e0|apply defd_e0|apply Hv0].
  - apply Hv0.
  - unfold last_or. pose proof (last_P (entry_ok rho) _ (e0, e0, IHold) Hk (entry_ok_default rho)) as HL.
    change (e0, e0, IHold) with ((fun en : pentry => match en with (t, v, ip) => (t, pval_at k v, ip) end) (e0, PScalar e0, IHold)) in HL.
    rewrite last_map_f in HL.
    exact (pentry_val_ok rho k _ HL).
Qed.

Lemma def_Point cs ents : def_ok (Point cs ents).
Proof.
  intros rho pcs Hwf Hd _. cbn [wf] in Hwf. apply andb_prop in Hwf as (_ & Hwf).
  destruct ents as [|[[t0 v0] ip0] ents']; [cbv iota in Hwf; discriminate Hwf|].
  rewrite denote_Point in Hd. revert Hd.
  match goal with |- match ?x with _ => _ end = _ -> _ => destruct x as [l0|] eqn:E0 end; [|discriminate]. cbv zeta.
  match goal with |- match ?x with _ => _ end = _ -> _ => destruct x as [fs|] eqn:Efs end; [|discriminate].
  intros _.
  pose proof (point_es_ok rho _ 0%nat l0 E0) as H0.
  split.
  - cbn [duration_expr]. unfold last_or.
    pose proof (last_P (entry_ok rho) _ (e0, e0, IHold) H0 (entry_ok_default rho)) as HL. unfold point_es in HL.
    change (e0, e0, IHold) with ((fun en : pentry => match en with (t, v, ip) => (t, pval_at 0 v, ip) end) (e0, PScalar e0, IHold)) in HL.
    rewrite last_map_f in HL.
    assert (G : forall x : pentry, entry_ok rho ((fun en : pentry => match en with (t, v, ip) => (t, pval_at 0 v, ip) end) x) ->
                                   defd rho (match x with (t, _, _) => t end)).
    { intros [[t v] ip] (G & _). exact G. }
    exact (G _ HL).
  - intros q. rewrite quant_Point. eapply alld_point_q. exact Efs.
Qed.

(* ---- ConstantPT / FunctionPT ---- *)
Lemma def_Const d vals : def_ok (Const d vals).
Proof.
  intros rho pcs _ Hd Hg. cbn [denote] in Hd. destruct (eval rho d) as [dd|] eqn:Ed; [|discriminate].
  assert (HD : defd rho d) by (exists dd; exact Ed).
  cbn [guard_C07_defined] in Hg. rewrite forallb_forall in Hg.
  assert (Hv : alld rho vals).
  { apply Forall_forall. intros kv Hin. specialize (Hg kv Hin). destruct (eval rho (snd kv)) as [x|] eqn:E; [exists x; exact E|discriminate]. }
  split; [exact HD|]. intros q. destruct q; cbn [quant]; try exact Hv.
  apply (alld_dmap rho rho); [|exact Hv]. intros e He. apply defd_EMul; assumption.
Qed.

Lemma let_t_defd rho tau cf coef x : eval rho tau = Some x ->
  Forall2 (fun e q => eval rho e = Some q) coef cf -> no_t coef = true -> defd rho (ELet [(tvar, tau)] (poly_expr coef)).
Proof.
  intros Et HF Hnt. apply defd_ELet. rewrite let_env_one, Et.
  destruct (eval_poly_expr rho x coef cf HF Hnt) as (v & Ev & _). exists v. exact Ev.
Qed.

Lemma def_Func c d coef : def_ok (Func c d coef).
Proof.
  intros rho pcs Hwf Hd _. cbn [wf] in Hwf. apply andb_prop in Hwf as (_ & Hnt).
  cbn [denote] in Hd. destruct (eval rho d) as [dd|] eqn:Ed; [|discriminate].
  destruct (opt_all (map (eval rho) coef)) as [cf|] eqn:Ecf; [|discriminate]. apply opt_all_Forall2 in Ecf.
  split; [exists dd; exact Ed|]. intros q. destruct q; cbn [quant]; (constructor; [|constructor]); cbn [snd].
  - exact (ev_eq_defd _ _ _ (eval_poly_int rho d dd Ed coef cf 0%nat Ecf)).
  - eapply let_t_defd; [reflexivity|exact Ecf|exact Hnt].
  - eapply let_t_defd; [exact Ed|exact Ecf|exact Hnt].
Qed.

(* ---- SequencePT ---- *)
Definition g_list (rho : env) : list pt -> bool :=
  fix go (l : list pt) : bool := match l with [] => true | q :: r => guard_C07_defined q rho && go r end.
Lemma guard_Seq ps rho : guard_C07_defined (Seq ps) rho = g_list rho ps.
Proof. reflexivity. Qed.
Lemma guard_Multi ps rho : guard_C07_defined (Multi ps) rho = g_list rho ps.
Proof. reflexivity. Qed.
Lemma g_list_cons rho q r : g_list rho (q :: r) = guard_C07_defined q rho && g_list rho r.
Proof. reflexivity. Qed.

Lemma den_seq_Forall rho l : forall pcs, den_seq rho l = Some pcs -> Forall (fun q => exists x, denote q rho = Some x) l.
Proof.
  induction l as [|q r IH]; intros pcs H; [constructor|]. rewrite den_seq_cons in H.
  destruct (denote q rho) as [a|] eqn:Ea; [|discriminate]. destruct (den_seq rho r) as [b|] eqn:Eb; [|discriminate].
  constructor; [eauto|eapply IH; reflexivity].
Qed.

(* the children of a sequence: each with its definedness facts at rho *)
Definition child_def (rho : env) (s : pt) : Prop := defd rho (duration_expr s) /\ forall q, alld rho (quant q s).

Lemma children_def rho l : Forall def_ok l -> Forall (fun q => wf q = true) l ->
  Forall (fun q => exists x, denote q rho = Some x) l -> g_list rho l = true -> Forall (child_def rho) l.
Proof.
  induction 1 as [|q r Hq _ IH]; intros Hw Hd Hg; [constructor|].
  inversion Hw; subst. inversion Hd as [|? ? (x & Ex) Hd']; subst. rewrite g_list_cons in Hg. apply andb_prop in Hg as (G1 & G2).
  constructor; [exact (Hq rho x H1 Ex G1)|apply IH; assumption].
Qed.

Lemma alld_int_seq rho q0 : forall l acc,
  Forall (child_def rho) l -> Forall (fun q => wf q = true /\ same_chans (channels q) (channels q0) = true) l ->
  alld rho acc -> (forall k, In k (dkeys acc) -> memb k (channels q0) = true) -> alld rho (int_seq acc l).
Proof.
  induction l as [|s l IH]; intros acc Hc Hw Ha Hk; [exact Ha|]. rewrite int_seq_cons.
  inversion Hc as [|? ? (_ & Hs) Hc']; subst. inversion Hw as [|? ? (Hws & Hsame) Hw']; subst.
  apply IH; [exact Hc'|exact Hw'| |].
  - unfold alld. apply Forall_map. apply Forall_forall. intros [k e] Hin. cbn [fst snd].
    unfold alld in Ha. rewrite Forall_forall in Ha. pose proof (Ha _ Hin) as He. cbn [snd] in He.
    apply defd_EAdd; [exact He|].
    assert (Hm : memb k (channels q0) = true) by (apply Hk; apply (in_map fst) in Hin; exact Hin).
    destruct (quant_keys s QIntegral Hws) as (_ & K). specialize (K k). rewrite (same_chans_memb _ _ Hsame), Hm in K.
    apply dmem_true in K as (es & Ees). rewrite Ees. exact (alld_dget _ _ _ _ (Hs QIntegral) Ees).
  - intros k Hin. apply Hk. rewrite dkeys_map_fst in Hin. exact Hin.
Qed.

Lemma def_Seq ps : Forall def_ok ps -> def_ok (Seq ps).
Proof.
  intros HI rho pcs Hwf Hd Hg. destruct ps as [|q0 r].
  - split; [apply defd_e0|]. intros q; destruct q; constructor.
  - rewrite wf_Seq in Hwf. apply andb_prop in Hwf as (Hnd & Hwf). pose proof (wf_seq_Forall _ _ Hwf) as HF.
    rewrite denote_Seq in Hd. rewrite guard_Seq in Hg.
    assert (HW : Forall (fun q => wf q = true) (q0 :: r)) by (eapply Forall_impl; [|exact HF]; intros a (A & _); exact A).
    pose proof (children_def rho _ HI HW (den_seq_Forall _ _ _ Hd) Hg) as HC.
    split.
    + rewrite duration_Seq. clear -HC. induction HC as [|s l (Hs & _) _ IH]; [apply defd_e0|]. rewrite dur_seq_cons. apply defd_EAdd; assumption.
    + intros q. destruct q.
      * rewrite quant_int_Seq. apply (alld_int_seq rho q0); [exact HC|exact HF| |].
        -- unfold alld. apply Forall_map. apply Forall_forall. intros c _. apply defd_e0.
        -- intros k Hin. rewrite (dkeys_map_key (fun _ => e0)) in Hin. apply memb_In. exact Hin.
      * cbn [quant]. inversion HC as [|? ? (_ & H0) _]; subst. apply H0.
      * rewrite quant_fin_Seq. clear -HC. induction HC as [|s l (_ & Hs) Hl IH]; [constructor|].
        destruct l as [|s' l']; [rewrite fin_seq_one; apply Hs|rewrite fin_seq_cons; exact IH].
Qed.

(* ---- RepetitionPT ---- *)
Lemma def_Rep n b : def_ok b -> def_ok (Rep n b).
Proof.
  intros HI rho pcs Hwf Hd Hg. cbn [wf] in Hwf. apply andb_prop in Hwf as (_ & Hwf).
  cbn [guard_C07_defined] in Hg. apply andb_prop in Hg as (Hs & Hg).
  destruct (denote b rho) as [pb|] eqn:Eb; [|discriminate]. destruct (HI rho pb Hwf Eb Hg) as (HD & HQ).
  cbn [denote] in Hd. destruct (as_int (eval rho n)) as [k|] eqn:Ek; [|discriminate].
  assert (Hn : defd rho n) by (destruct (as_int_val _ _ _ Ek) as (qn & En & _); exists qn; exact En).
  split; [cbn [duration_expr]; apply defd_EMul; assumption|].
  intros q. destruct q; cbn [quant]; try apply HQ.
  apply (alld_dmap rho rho); [|apply HQ]. intros e He. apply defd_EMul; assumption.
Qed.

(* ---- MappingPT ---- *)
Lemma def_Map b pm cm : def_ok b -> def_ok (Map b pm cm).
Proof.
  intros HI rho pcs Hwf Hd Hg. cbn [wf] in Hwf. apply andb_prop in Hwf as (_ & Hwf).
  rewrite denote_Map in Hd. destruct (denote b (map_env rho pm)) as [pb|] eqn:Eb; [|discriminate].
  cbn [guard_C07_defined] in Hg. destruct (HI _ pb Hwf Eb Hg) as (HD & HQ). rewrite map_env_let_env in HD, HQ.
  split; [cbn [duration_expr]; apply defd_ELet; exact HD|].
  intros q. cbn [quant]. apply alld_map_dict. apply HQ.
Qed.

(* ---- AtomicMultiChannelPT ---- *)
Lemma den_multi_Forall rho l : forall pcs, den_multi rho l = Some pcs -> Forall (fun q => exists x, denote q rho = Some x) l.
Proof.
  induction l as [|q r IH]; intros pcs H; [constructor|]. destruct r as [|q' r'].
  - rewrite den_multi_one in H. destruct (denote q rho) as [x|] eqn:E; [|discriminate]. constructor; [eauto|constructor].
  - rewrite den_multi_cons in H. destruct (denote q rho) as [x|] eqn:E; [|discriminate].
    destruct (den_multi rho (q' :: r')) as [y|] eqn:Ey; [|destruct x as [|? [|? ?]]; discriminate].
    constructor; [eauto|eapply IH; reflexivity].
Qed.

Lemma alld_multi_q rho q : forall l acc, Forall (child_def rho) l -> alld rho acc -> alld rho (multi_q q acc l).
Proof.
  induction l as [|s l IH]; intros acc Hc Ha; [exact Ha|]. rewrite multi_q_cons. inversion Hc as [|? ? (_ & Hs) Hc']; subst.
  apply IH; [exact Hc'|]. apply alld_dupdate; [exact Ha|apply Hs].
Qed.

Lemma def_Multi ps : Forall def_ok ps -> def_ok (Multi ps).
Proof.
  intros HI rho pcs Hwf Hd Hg. rewrite wf_Multi in Hwf. apply andb_prop in Hwf as (_ & Hwf).
  pose proof (wf_multi_Forall _ Hwf) as HW. rewrite denote_Multi in Hd. rewrite guard_Multi in Hg.
  pose proof (children_def rho _ HI HW (den_multi_Forall _ _ _ Hd) Hg) as HC.
  split.
  - destruct ps as [|q r]; [apply defd_e0|]. cbn [duration_expr]. inversion HC as [|? ? (H0 & _) _]; subst. exact H0.
  - intros q. rewrite quant_Multi. apply alld_multi_q; [exact HC|constructor].
Qed.

(* ---- ParallelChannelPT ---- *)
Lemma par_coefs_ok rho (ov : list (chan * list expr)) ovs :
  opt_all (map (fun kv => option_map (fun cf => (fst kv, cf)) (opt_all (map (eval rho) (snd kv)))) ov) = Some ovs ->
  Forall (fun kv => exists cf, Forall2 (fun e q => eval rho e = Some q) (snd kv) cf) ov.
Proof.
  intros H. apply opt_all_Forall2 in H. induction H as [|kv n ov' ovs' Hkv _ IH]; constructor; [|exact IH].
  destruct (opt_all (map (eval rho) (snd kv))) as [cf|] eqn:E; [|discriminate]. exists cf. apply opt_all_Forall2. exact E.
Qed.

Lemma def_Par b ov : def_ok b -> def_ok (Par b ov).
Proof.
  intros HI rho pcs Hwf Hd Hg. cbn [wf] in Hwf. apply andb_prop in Hwf as (_ & Hwf).
  apply andb_prop in Hwf as (Hwf & _). apply andb_prop in Hwf as (Hwf & Hnt). apply andb_prop in Hwf as (Hwf & _).
  cbn [denote] in Hd. destruct (denote b rho) as [pb|] eqn:Eb; [|discriminate].
  destruct (opt_all (map (fun kv => option_map (fun cf => (fst kv, cf)) (opt_all (map (eval rho) (snd kv)))) ov)) as [ovs|] eqn:Eov; [|discriminate].
  cbn [guard_C07_defined] in Hg. destruct (HI rho pb Hwf Eb Hg) as (HD & HQ).
  pose proof (par_coefs_ok rho ov ovs Eov) as HC. rewrite forallb_forall in Hnt.
  split; [exact HD|]. destruct HD as (dd & Ed).
  intros q. destruct q; cbn [quant]; (apply alld_dupdate; [apply HQ|]); unfold alld; apply Forall_map; apply Forall_forall;
    intros kv Hin; cbn [snd]; rewrite Forall_forall in HC; destruct (HC kv Hin) as (cf & Hcf); pose proof (Hnt kv Hin) as Hn.
  - destruct (snd kv) as [|c1 [|c2 r]] eqn:Ekv.
    + apply defd_EMul; [|exists dd; exact Ed]. destruct (eval_poly_expr_const rho [] cf Hcf eq_refl 0) as (v & Ev & _). exists v; exact Ev.
    + apply defd_EMul; [|exists dd; exact Ed]. destruct (eval_poly_expr_const rho [c1] cf Hcf eq_refl 0) as (v & Ev & _). exists v; exact Ev.
    + exact (ev_eq_defd _ _ _ (eval_poly_int rho _ dd Ed _ cf 0%nat Hcf)).
  - destruct (snd kv) as [|c1 [|c2 r]] eqn:Ekv.
    + destruct (eval_poly_expr_const rho [] cf Hcf eq_refl 0) as (v & Ev & _). exists v; exact Ev.
    + destruct (eval_poly_expr_const rho [c1] cf Hcf eq_refl 0) as (v & Ev & _). exists v; exact Ev.
    + eapply let_t_defd; [reflexivity|exact Hcf|exact Hn].
  - destruct (snd kv) as [|c1 [|c2 r]] eqn:Ekv.
    + destruct (eval_poly_expr_const rho [] cf Hcf eq_refl 0) as (v & Ev & _). exists v; exact Ev.
    + destruct (eval_poly_expr_const rho [c1] cf Hcf eq_refl 0) as (v & Ev & _). exists v; exact Ev.
    + eapply let_t_defd; [exact Ed|exact Hcf|exact Hn].
Qed.

(* ---- ArithmeticPT with a scalar ---- *)
Lemma scalar_alld rho s cs sv : scalar_eval rho s cs = Some sv -> alld rho (scalar_as_dict s cs).
Proof.
  unfold scalar_eval. intros H. apply opt_all_Forall2 in H. unfold alld.
  induction H as [|kv n l l' Hkv _ IH]; constructor; [|exact IH].
  destruct (eval rho (snd kv)) as [x|] eqn:E; [exists x; exact E|discriminate].
Qed.

Lemma arith_scalar_alld rho q b op s : defd rho (duration_expr b) -> alld rho (scalar_as_dict s (channels b)) ->
  alld rho (match q with
            | QIntegral => match op with OAdd | OSub => dmap (fun v => EMul v (duration_expr b)) (scalar_as_dict s (channels b))
                                       | _ => scalar_as_dict s (channels b) end
            | _ => scalar_as_dict s (channels b)
            end).
Proof.
  intros HD Hs. destruct q; try exact Hs. destruct op; try exact Hs;
    (apply (alld_dmap rho rho); [intros e He; apply defd_EMul; assumption|exact Hs]).
Qed.

Lemma def_ArithL b op s : def_ok b -> def_ok (ArithL b op s).
Proof.
  intros HI rho pcs Hwf Hd Hg. cbn [wf] in Hwf. apply andb_prop in Hwf as (_ & Hwf). apply andb_prop in Hwf as (Hwf & _).
  cbn [denote] in Hd. destruct (denote b rho) as [pb|] eqn:Eb; [|discriminate].
  destruct (scalar_eval rho s (channels b)) as [sv|] eqn:Es; [|discriminate].
  cbn [guard_C07_defined] in Hg. apply andb_prop in Hg as (Hg & Hz). destruct (HI rho pb Hwf Eb Hg) as (HD & HQ).
  pose proof (scalar_alld _ _ _ _ Es) as Hs.
  split; [exact HD|]. intros q.
  assert (G : alld rho (apply_op_dict op (quant q b)
                 (match q with
                  | QIntegral => match op with OAdd | OSub => dmap (fun v => EMul v (duration_expr b)) (scalar_as_dict s (channels b))
                                             | _ => scalar_as_dict s (channels b) end
                  | _ => scalar_as_dict s (channels b)
                  end))).
  { apply alld_apply_op; [apply HQ|apply arith_scalar_alld; assumption|].
    intros ->. apply nonzero_vals_nz in Hz. destruct q; exact Hz. }
  destruct q; exact G.
Qed.

Lemma def_ArithR s op b : def_ok b -> def_ok (ArithR s op b).
Proof.
  intros HI rho pcs Hwf Hd Hg. cbn [wf] in Hwf. apply andb_prop in Hwf as (_ & Hwf). apply andb_prop in Hwf as (Hwf & Hop).
  apply andb_prop in Hwf as (Hwf & _).
  cbn [denote] in Hd. destruct (denote b rho) as [pb|] eqn:Eb; [|discriminate].
  destruct (scalar_eval rho s (channels b)) as [sv|] eqn:Es; [|discriminate].
  cbn [guard_C07_defined] in Hg. destruct (HI rho pb Hwf Eb Hg) as (HD & HQ).
  pose proof (scalar_alld _ _ _ _ Es) as Hs.
  split; [exact HD|]. intros q.
  assert (G : alld rho (apply_op_dict op
                 (match q with
                  | QIntegral => match op with OAdd | OSub => dmap (fun v => EMul v (duration_expr b)) (scalar_as_dict s (channels b))
                                             | _ => scalar_as_dict s (channels b) end
                  | _ => scalar_as_dict s (channels b)
                  end) (quant q b))).
  { apply alld_apply_op; [apply arith_scalar_alld; assumption|apply HQ|]. intros ->. discriminate Hop. }
  destruct q; exact G.
Qed.

(* ---- ArithmeticAtomicPT ---- *)
Lemma def_AAtom l op r : def_ok l -> def_ok r -> def_ok (AAtom l op r).
Proof.
  intros HIl HIr rho pcs Hwf Hd Hg. cbn [wf] in Hwf. apply andb_prop in Hwf as (_ & Hwf). apply andb_prop in Hwf as (Hw1 & Hw2).
  cbn [denote] in Hd. destruct (denote l rho) as [[|pl [|? ?]]|] eqn:E1; try discriminate.
  destruct (denote r rho) as [[|pr [|? ?]]|] eqn:E2; try discriminate.
  destruct (merge_atomic op pl pr) as [pc|] eqn:Em; [|discriminate].
  cbn [guard_C07_defined] in Hg. apply andb_prop in Hg as (G1 & G2).
  destruct (HIl rho _ Hw1 E1 G1) as (HD1 & HQ1). destruct (HIr rho _ Hw2 E2 G2) as (HD2 & HQ2).
  split; [cbn [duration_expr]; apply defd_EMax; assumption|].
  intros q. cbn [quant]. apply alld_apply_op; [apply HQ1|apply HQ2|].
  intros ->. unfold merge_atomic in Em. destruct (Qeq_bool (fst pl) (fst pr)); discriminate.
Qed.

(* ---- ForLoopPT ---- *)
Lemma den_for_Forall b i rho : forall ks pcs, den_for b i rho ks = Some pcs ->
  Forall (fun k => exists x, denote b (env_upd rho i (Some (inject_Z k))) = Some x) ks.
Proof.
  induction ks as [|k r IH]; intros pcs H; [constructor|]. rewrite den_for_cons in H.
  destruct (denote b (env_upd rho i (Some (inject_Z k)))) as [x|] eqn:Ex; [|discriminate].
  destruct (den_for b i rho r) as [y|] eqn:Ey; [|discriminate]. constructor; [eauto|eapply IH; reflexivity].
Qed.

Definition val_at (rho : env) (i : var) (e : expr) (k : Z) : Q :=
  match eval (env_upd rho i (Some (inject_Z k))) e with Some v => v | None => 0 end.

Lemma body_rule_of_defd rho i e ks :
  (forall k, In k ks -> defd (env_upd rho i (Some (inject_Z k))) e) -> body_rule rho i e ks (val_at rho i e).
Proof.
  intros H k q rho' Hin Hq Hoff Hi. destruct (H k Hin) as (v & Ev). unfold val_at. rewrite Ev.
  assert (Hrel : env_rel (env_upd rho i (Some (inject_Z k))) rho').
  { intros y. unfold env_upd. destruct (N.eqb y i) eqn:E.
    - apply N.eqb_eq in E. subst y. rewrite Hi. cbn. symmetry. exact Hq.
    - apply N.eqb_neq in E. rewrite (Hoff y E). apply oq_rel_refl. }
  pose proof (eval_env_rel e _ _ Hrel) as HR. rewrite Ev in HR.
  destruct (eval rho' e) as [w|] eqn:Ew; [|contradiction]. exists w. split; [exact Ew|]. cbn in HR. symmetry. exact HR.
Qed.

Lemma last_index_empty a o s : py_range a o s = Some [] -> last_index a o s = a.
Proof.
  intros H. destruct (py_range_spec _ _ _ _ H) as (Hs & Hlen & _). cbn [length] in Hlen.
  unfold last_index. replace (Z.max ((o - a - Z.sgn s) / s) 0) with 0%Z; [ring|].
  symmetry. apply Z.max_r. unfold range_len in Hlen.
  destruct (0 <? s)%Z eqn:E1.
  - apply Z.ltb_lt in E1. rewrite Z.sgn_pos by lia. destruct (a <? o)%Z eqn:E2.
    + apply Z.ltb_lt in E2. exfalso. assert (0 <= (o - a - 1) / s)%Z by (apply Z.div_pos; lia). lia.
    + apply Z.ltb_ge in E2. assert ((o - a - 1) / s < 0)%Z by (apply Z.div_lt_upper_bound; lia). lia.
  - apply Z.ltb_ge in E1. assert (s < 0)%Z by lia. rewrite Z.sgn_neg by lia.
    assert (E3 : (s <? 0)%Z = true) by (apply Z.ltb_lt; lia). rewrite E3 in Hlen.
    destruct (o <? a)%Z eqn:E4.
    + apply Z.ltb_lt in E4. exfalso. assert (0 <= (a - o - 1) / - s)%Z by (apply Z.div_pos; lia). lia.
    + apply Z.ltb_ge in E4. replace (o - a - -1)%Z with (- (a - o - 1))%Z by ring.
      rewrite <- (Z.opp_involutive s) at 1. rewrite Z.div_opp_opp by lia.
      assert ((a - o - 1) / - s < 0)%Z by (apply Z.div_lt_upper_bound; lia). lia.
Qed.

Lemma def_For i a o s b : def_ok b -> def_ok (For i a o s b).
Proof.
  intros HI rho pcs Hwf Hd Hg. cbn [wf] in Hwf. apply andb_prop in Hwf as (_ & Hwf).
  rewrite denote_For in Hd. destruct (as_int (eval rho a)) as [za|] eqn:Ea; [|discriminate].
  destruct (as_int (eval rho o)) as [zo|] eqn:Eo; [|discriminate]. destruct (as_int (eval rho s)) as [zs|] eqn:Es; [|discriminate].
  destruct (py_range za zo zs) as [ks|] eqn:Er; [|discriminate].
  cbn [guard_C07_defined] in Hg. unfold for_range in Hg. rewrite Ea, Eo, Es, Er in Hg.
  pose proof (as_int_val _ _ _ Ea) as Ia. pose proof (as_int_val _ _ _ Eo) as Io. pose proof (as_int_val _ _ _ Es) as Is.
  pose proof (den_for_Forall b i rho ks pcs Hd) as HDen.
  (* the body's facts at every index of the range *)
  assert (HB : forall k, In k ks -> defd (env_upd rho i (Some (inject_Z k))) (duration_expr b) /\
                                    forall q, alld (env_upd rho i (Some (inject_Z k))) (quant q b)).
  { intros k Hin. rewrite Forall_forall in HDen. destruct (HDen k Hin) as (x & Ex).
    apply (HI _ x Hwf Ex). destruct ks as [|k0 ks']; [contradiction|]. rewrite forallb_forall in Hg. exact (Hg k Hin). }
  assert (HBe : forall q kv, In kv (quant q b) -> forall k, In k ks -> defd (env_upd rho i (Some (inject_Z k))) (snd kv)).
  { intros q kv Hkv k Hin. pose proof (proj2 (HB k Hin) q) as HA. unfold alld in HA. rewrite Forall_forall in HA. exact (HA kv Hkv). }
  assert (Hall : forall q (f : expr -> expr), (forall kv, In kv (quant q b) -> defd rho (f (snd kv))) -> alld rho (dmap f (quant q b))).
  { intros q f Hf. unfold alld, dmap. apply Forall_map. apply Forall_forall. intros kv Hin. cbn [snd]. apply Hf, Hin. }
  destruct (py_range_spec _ _ _ _ Er) as (Hsn & _ & _).
  split.
  - cbn [duration_expr].
    exact (ev_eq_defd _ _ _ (for_sum_correct rho i a o s (duration_expr b) za zo zs ks _ Ia Io Is Er
                               (body_rule_of_defd rho i _ ks (fun k Hin => proj1 (HB k Hin))))).
  - intros q. destruct q; cbn [quant]; apply Hall; intros kv Hkv.
    + exact (ev_eq_defd _ _ _ (for_sum_correct rho i a o s (snd kv) za zo zs ks _ Ia Io Is Er
                                 (body_rule_of_defd rho i _ ks (HBe QIntegral kv Hkv)))).
    + destruct ks as [|k0 ks'].
      * apply andb_prop in Hg as (Hs & Hg). destruct (denote b (env_upd rho i (eval rho a))) as [x|] eqn:Ex; [|discriminate].
        destruct (HI _ x Hwf Ex Hg) as (_ & HQ). apply defd_ELet. rewrite let_env_one.
        pose proof (HQ QInitial) as HA. unfold alld in HA. rewrite Forall_forall in HA. exact (HA kv Hkv).
      * exact (ev_eq_defd _ _ _ (for_initial_correct rho i a za (snd kv) _ (k0 :: ks') zo zs Ia Er ltac:(discriminate)
                                   (body_rule_of_defd rho i _ _ (HBe QInitial kv Hkv)))).
    + destruct ks as [|k0 ks'].
      * apply andb_prop in Hg as (Hs & Hg). destruct (denote b (env_upd rho i (eval rho a))) as [x|] eqn:Ex; [|discriminate].
        destruct (HI _ x Hwf Ex Hg) as (_ & HQ). apply defd_ELet. rewrite let_env_one.
        pose proof (HQ QFinal) as HA. unfold alld in HA. rewrite Forall_forall in HA. pose proof (HA kv Hkv) as Hdef.
        destruct (eval_loop_final_index rho a o s za zo zs Ia Io Is Hsn) as (qf & Ef & Hqf).
        rewrite (last_index_empty _ _ _ Er) in Hqf. destruct Ia as (qa & Eqa & Hqa). rewrite Ef. rewrite Eqa in Hdef.
        eapply defd_rel; [|exact Hdef]. apply env_rel_upd; [apply env_rel_refl|]. cbn. rewrite Hqa, Hqf. reflexivity.
      * exact (ev_eq_defd _ _ _ (for_final_correct rho i a o s (snd kv) za zo zs (k0 :: ks') _ Ia Io Is Er ltac:(discriminate)
                                   (body_rule_of_defd rho i _ _ (HBe QFinal kv Hkv)))).
Qed.

(* ------------------------------------------------------------------------------------------------------------ *)
Theorem def_all : forall p, def_ok p.
Proof.
  induction p using pt_ind'.
  - apply def_Table. - apply def_Point. - apply def_Const. - apply def_Func.
  - apply def_Seq; assumption. - apply def_Rep; assumption. - apply def_For; assumption. - apply def_Map; assumption.
  - apply def_Multi; assumption. - apply def_Par; assumption. - apply def_ArithL; assumption. - apply def_ArithR; assumption.
  - apply def_AAtom; assumption.
Qed.

(* DEFINEDNESS: under the guard every symbolic quantity of an instantiable well-formed template evaluates *)
Theorem definedness : forall p rho pcs, wf p = true -> denote p rho = Some pcs -> guard_C07_defined p rho = true ->
  defd rho (duration_expr p) /\ (forall q c e, dget c (quant q p) = Some e -> defd rho e).
Proof.
  intros p rho pcs Hwf Hd Hg. destruct (def_all p rho pcs Hwf Hd Hg) as (HD & HQ). split; [exact HD|].
  intros q c e Hc. exact (alld_dget _ _ _ _ (HQ q) Hc).
Qed.

(* ---- the total statements: definedness + the correctness theorems of round 2 ---- *)
Require Import QV.C07.ProofsEnds QV.C07.ProofsIni QV.C07.ProofsFin QV.C07.ProofsWit.

Theorem duration_total : forall p rho pcs, wf p = true -> denote p rho = Some pcs -> guard_C07_defined p rho = true ->
  ev_eq rho (duration_expr p) (total pcs).
Proof.
  intros p rho pcs Hwf Hd Hg. destruct (definedness p rho pcs Hwf Hd Hg) as ((v & Ev) & _).
  exists v. split; [exact Ev|]. exact (duration_correct p rho pcs v Hwf Hd Ev).
Qed.

Theorem integral_total : forall p rho pcs c e, wf p = true -> denote p rho = Some pcs -> guard_C07_defined p rho = true ->
  dget c (integral_expr p) = Some e -> exists x, p_int pcs c = Some x /\ ev_eq rho e x.
Proof.
  intros p rho pcs c e Hwf Hd Hg Hc. destruct (definedness p rho pcs Hwf Hd Hg) as (_ & HQ).
  destruct (HQ QIntegral c e Hc) as (v & Ev). destruct (integral_correct p rho pcs c e v Hwf Hd Hc Ev) as (x & Ex & Hx).
  exists x. split; [exact Ex|]. exists v. split; assumption.
Qed.

Theorem initial_total : forall p rho pcs c e x, wf p = true -> denote p rho = Some pcs -> guard_C07_defined p rho = true ->
  guard_C07_initial_head p rho = true -> dget c (initial_expr p) = Some e -> p_at0 pcs c = Some x -> ev_eq rho e x.
Proof.
  intros p rho pcs c e x Hwf Hd Hg Hi Hc Hx. destruct (definedness p rho pcs Hwf Hd Hg) as (_ & HQ).
  destruct (HQ QInitial c e Hc) as (v & Ev). exists v. split; [exact Ev|]. exact (initial_correct p rho pcs c e x v Hwf Hi Hd Hc Hx Ev).
Qed.

Theorem final_total : forall p rho pcs c e x, wf p = true -> denote p rho = Some pcs -> guard_C07_defined p rho = true ->
  guard_C07_final_tail p rho = true -> dget c (final_expr p) = Some e -> p_end pcs c = Some x -> ev_eq rho e x.
Proof.
  intros p rho pcs c e x Hwf Hd Hg Hi Hc Hx. destruct (definedness p rho pcs Hwf Hd Hg) as (_ & HQ).
  destruct (HQ QFinal c e Hc) as (v & Ev). exists v. split; [exact Ev|]. exact (final_correct p rho pcs c e x v Hwf Hi Hd Hc Hx Ev).
Qed.

(* the guard is satisfiable by a non-trivial template (the witness of guards_nonvacuous: a loop over range(0,6,2) around a
   mapped table) ... *)
Lemma defined_nonvacuous :
  let p := For vi (EC 0) (EC 6) (EC 2) (Map loop_tab [(2%N, EV vi)] [(chA, Some 4%N)]) in
  wf p = true /\ guard_C07_defined p env_empty = true /\ guard_C07_initial_head p env_empty = true /\
  guard_C07_final_tail p env_empty = true /\ exists pcs, denote p env_empty = Some pcs /\ length pcs = 3%nat.
Proof.
  cbv zeta. split; [vm_compute; reflexivity|]. split; [vm_compute; reflexivity|]. split; [vm_compute; reflexivity|].
  split; [vm_compute; reflexivity|]. eexists. split; vm_compute; reflexivity.
Qed.

(* ... and each clause of it is needed: instantiable templates whose symbolic integral / initial value does not evaluate,
   with the guard false.  (1) the values of an empty ConstantPT, (2) the body of a zero-fold repetition, (3) the body of a
   loop over an empty range (initial_values substitutes i := start into a body that divides by i - start ... here: a body
   mentioning an unbound parameter), (4) division by a zero scalar of an empty pulse. *)
Definition undefined_witness (p : pt) (q : quantity) : Prop :=
  wf p = true /\ denote p env_empty = Some [] /\ guard_C07_defined p env_empty = false /\
  exists e, dget chA (quant q p) = Some e /\ eval env_empty e = None.

Lemma definedness_refuted :
  undefined_witness (Const (EC 0) [(chA, EV 5%N)]) QIntegral /\
  undefined_witness (Rep (EC 0) (Const (EC 1) [(chA, EV 5%N)])) QIntegral /\
  undefined_witness (For vi (EC 0) (EC 0) (EC 1) (Const (EC 1) [(chA, EAdd (EV vi) (EV 5%N))])) QInitial /\
  undefined_witness (ArithL (Const (EC 0) [(chA, EC 1)]) ODiv (SAll (EC 0))) QInitial.
Proof.
  repeat split; try (vm_compute; reflexivity); eexists; split; vm_compute; reflexivity.
Qed.
